(* Proofs/Methods.v -- C16: methods and builtins are total; neutral values; pluck. *)
From Coq Require Import List ZArith Bool Lia ZifyN ZifyNat ZifyBool.
From Coq Require Import FMapPositive.
From JQ Require Import Base.Bytes Num.F64 Num.F64Proofs Oracle.Strings Oracle.Sort Gen.Generated.
From JQ Require Import Json.JValue Json.Encode Sem.Value Sem.Natives Sem.Eval.
From JQ Require Import Spec.IdealList Proofs.Arrays.
Import ListNotations.
Open Scope nat_scope.

(* ================================================================ no panic *)

Definition no_panic {A} (m : M A) : Prop := forall s, fst (m s) <> Panic.

Lemma np_ret : forall {A} (a : A), no_panic (ret a).
Proof. intros A a s. discriminate. Qed.
Lemma np_bind : forall {A B} (m : M A) (k : A -> M B),
  no_panic m -> (forall a, no_panic (k a)) -> no_panic (bind m k).
Proof.
  intros A B m k Hm Hk s. unfold bind. specialize (Hm s).
  destruct (m s) as [[a|e|x| | |] s']; simpl in *; try discriminate; try congruence; try apply Hk.
Qed.
Lemma np_fail : forall {A} (r : res A), r <> Panic -> no_panic (fail r).
Proof. intros A r H s. exact H. Qed.
Lemma np_m_load : forall a, no_panic (m_load a).
Proof. intros a s. discriminate. Qed.
Lemma np_get_heap : no_panic get_heap.
Proof. intros s. discriminate. Qed.
Lemma np_with_heap : forall {A} (f : heap -> A * heap), no_panic (with_heap f).
Proof. intros A f s. unfold with_heap. destruct (f (hp s)). discriminate. Qed.
Lemma np_upd_heap : forall f, no_panic (upd_heap f).
Proof. intros f s. discriminate. Qed.
Lemma np_m_alloc : forall v, no_panic (m_alloc v).
Proof. intros v. apply np_with_heap. Qed.
Lemma np_m_store : forall a v, no_panic (m_store a v).
Proof. intros a v. apply np_upd_heap. Qed.
Lemma np_emit : forall b, no_panic (emit b).
Proof. intros b s. discriminate. Qed.

Lemma np_alloc_all : forall vs, no_panic (alloc_all vs).
Proof.
  induction vs as [|v r IH]; simpl; [apply np_ret|].
  apply np_bind; [apply np_m_alloc|]. intros a. apply np_bind; [exact IH|]. intros rest. apply np_ret.
Qed.

Lemma np_pluck_loop : forall keys thisv oid, no_panic (pluck_loop thisv oid keys).
Proof.
  induction keys as [|k r IH]; intros thisv oid; simpl; [apply np_ret|].
  apply np_bind; [apply np_get_heap|]. intros h.
  destruct (pluck_one h thisv k); [|apply np_ret].
  apply np_bind; [apply np_m_alloc|]. intros c.
  apply np_bind; [apply np_upd_heap|]. intros _. apply IH.
Qed.

Ltac np_step :=
  match goal with
  | |- no_panic (ret _) => apply np_ret
  | |- no_panic (nret _) => apply np_ret
  | |- no_panic (bind _ _) => apply np_bind; [|intro]
  | |- no_panic (m_load _) => apply np_m_load
  | |- no_panic get_heap => apply np_get_heap
  | |- no_panic (with_heap _) => apply np_with_heap
  | |- no_panic (upd_heap _) => apply np_upd_heap
  | |- no_panic (m_alloc _) => apply np_m_alloc
  | |- no_panic (m_store _ _) => apply np_m_store
  | |- no_panic (emit _) => apply np_emit
  | |- no_panic (alloc_all _) => apply np_alloc_all
  | |- no_panic (pluck_loop _ _ _) => apply np_pluck_loop
  | |- no_panic (this_value _) => unfold this_value
  | |- no_panic (fail _) => apply np_fail; discriminate
  | |- no_panic (match ?x with _ => _ end) => destruct x
  | |- no_panic (if ?x then _ else _) => destruct x
  end.

(* every native, on every receiver, argument list and state *)
Lemma natives_no_panic : forall n args this, no_panic (native_call n args this).
Proof.
  intros n args this. destruct n; unfold native_call; repeat np_step.
Qed.

Theorem methods_total : forall n args this s, fst (native_call n args this s) <> Panic.
Proof. intros n args this s. apply natives_no_panic. Qed.

(* sort: a runtime error exactly when an element cannot be copied (a function or a native
   method); nothing is allocated or changed then *)
Lemma sort_error_iff : forall args this s,
  (fst (native_call NSort args this s) = Ok NError <->
   exists pa, this = Some pa /\
     existsb (fun v => match v with VFn _ | VNative _ _ => true | _ => false end)
             (contents (hp s) (load (hp s) pa)) = true) /\
  (fst (native_call NSort args this s) = Ok NError -> snd (native_call NSort args this s) = s).
Proof.
  intros args this s.
  assert (Hex : forall l, existsb (fun v => match v with VFn _ | VNative _ _ => true | _ => false end) l
                          = negb (forallb copyable l)).
  { induction l as [|v l IH]; [reflexivity|]. simpl. rewrite IH. destruct v; reflexivity. }
  destruct this as [pa|].
  - rewrite native_sort_eq. cbv zeta.
    destruct (forallb copyable (contents (hp s) (load (hp s) pa))) eqn:Hc.
    + destruct (alloc_all_spec (ideal_sort (contents (hp s) (load (hp s) pa))) s) as (cells & h' & Heq & _).
      rewrite Heq. simpl. split; [split|]; try discriminate.
      intros (pa' & Hpa & Hf). inversion Hpa; subst. rewrite Hex, Hc in Hf. discriminate.
    + simpl. split; [split|]; try reflexivity. intros _. exists pa. rewrite Hex, Hc. split; reflexivity.
  - split; [split|]; try discriminate. intros (pa & Hpa & _). discriminate.
Qed.

(* ================================================================ neutral values *)

Definition not_arr (v : option value) : Prop := match v with Some (VArr _ _ _) => False | _ => True end.
Definition not_str (v : option value) : Prop := match v with Some (VStr _) => False | _ => True end.
Definition not_num (v : option value) : Prop := match v with Some (VNum _) => False | _ => True end.
Definition not_obj (v : option value) : Prop := match v with Some (VObj _) => False | _ => True end.
Definition recv (s : st) (this : option addr) : option value :=
  match this with Some a => Some (load (hp s) a) | None => None end.

Lemma neutral_values : forall args this s,
  (not_arr (recv s this) -> native_call NArrLength args this s = (Ok (NVal (VNum (f_of_Z 0))), s)) /\
  (not_obj (recv s this) -> native_call NObjLength args this s = (Ok (NVal (VNum (f_of_Z 0))), s)) /\
  (not_str (recv s this) -> native_call NStrLength args this s = (Ok (NVal (VNum (f_of_Z 0))), s)) /\
  (not_str (recv s this) -> native_call NLower args this s = (Ok (NVal (VNum (f_of_Z 0))), s)) /\
  (not_str (recv s this) -> native_call NUpper args this s = (Ok (NVal (VNum (f_of_Z 0))), s)) /\
  (not_str (recv s this) ->
     exists h', native_call NSplit args this s = (Ok (NVal (VArr (next (hp s)) 0 0)), set_hp s h') /\
                contents h' (VArr (next (hp s)) 0 0) = []) /\
  (not_num (recv s this) -> native_call NFloor args this s = (Ok (NVal (VNil None)), s)) /\
  (not_num (recv s this) -> native_call NCeil args this s = (Ok (NVal (VNil None)), s)) /\
  (not_num (recv s this) -> native_call NRound args this s = (Ok (NVal (VNil None)), s)) /\
  (this = None -> native_call NPush args this s = (Ok NNil, s) /\ native_call NPop args this s = (Ok NNil, s) /\
                  native_call NPopFirst args this s = (Ok NNil, s) /\ native_call NContains args this s = (Ok NNil, s) /\
                  native_call NSort args this s = (Ok NNil, s)).
Proof.
  intros args this s. unfold recv.
  destruct this as [a|]; [destruct (load (hp s) a) eqn:Hl|];
    unfold native_call, this_value, bind, m_load, get_heap, ret, not_arr, not_obj, not_str, not_num;
    try rewrite Hl; simpl;
    repeat split; try contradiction; try discriminate; try reflexivity;
    try (intros _; eexists; split; reflexivity).
Qed.

(* missing or wrong arguments are runtime errors, not crashes *)
Lemma arity_errors : forall pa s,
  native_call NPush [] (Some pa) s = (Ok NError, s) /\
  (forall x y r, native_call NPush (x :: y :: r) (Some pa) s = (Ok NError, s)) /\
  (forall x r, native_call NPop (x :: r) (Some pa) s = (Ok NError, s)) /\
  (forall x r, native_call NPopFirst (x :: r) (Some pa) s = (Ok NError, s)) /\
  native_call NContains [] (Some pa) s = (Ok NError, s) /\
  (forall b, load (hp s) pa = VStr b -> native_call NSplit [] (Some pa) s = (Ok NError, s)) /\
  (forall this, native_call NNum [] this s = (Ok NError, s)) /\
  (forall this, native_call NJson [] this s = (Ok NError, s)) /\
  (forall this, native_call NPrintf [] this s = (Ok NError, s)).
Proof.
  intros pa s. unfold native_call, this_value, bind, m_load, get_heap, ret.
  repeat split; try reflexivity.
  - intros b Hl. rewrite Hl. reflexivity.
  - intros [a|]; reflexivity.
  - intros [a|]; reflexivity.
  - intros [a|]; reflexivity.
Qed.

(* ================================================================ floor / ceil / round *)

Lemma floor_method : forall pa s x args, load (hp s) pa = VNum x ->
  native_call NFloor args (Some pa) s = (Ok (NVal (VNum (f_floor x))), s) /\
  native_call NCeil args (Some pa) s = (Ok (NVal (VNum (f_ceil x))), s) /\
  native_call NRound args (Some pa) s = (Ok (NVal (VNum (f_round x))), s).
Proof.
  intros pa s x args Hl. unfold native_call, this_value, bind, m_load, get_heap, ret. rewrite Hl.
  repeat split.
Qed.

(* ================================================================ pluck *)

(* the key/value view of an object *)
Definition obj_view (h : heap) (oid : positive) : list (bytes * value) :=
  map (fun kc => (fst kc, load h (snd kc))) (get_obj h oid).

(* what pluck builds, as a function of the receiver (in the heap before the call) *)
Fixpoint pluck_result (h : heap) (thisv : value) (keys : list value) (acc : list (bytes * value))
  : option (list (bytes * value)) :=
  match keys with
  | [] => Some acc
  | k :: r =>
    match pluck_one h thisv k with
    | None => None
    | Some v => pluck_result h thisv r (assoc_set (to_str k) v acc)
    end
  end.

(* h' extends h0 except for the object [oid] *)
Definition heap_ext (h0 h' : heap) (oid : positive) : Prop :=
  (forall a, (a < next h0)%positive -> load h' a = load h0 a) /\
  (forall b, get_back h' b = get_back h0 b) /\
  (forall o, o <> oid -> get_obj h' o = get_obj h0 o) /\
  (next h0 <= next h')%positive.

Lemma heap_ext_refl : forall h oid, heap_ext h h oid.
Proof. intros h oid. repeat split; intros; reflexivity || lia. Qed.

Lemma assoc_set_map : forall {A B} (g : A -> B) k c (l : list (bytes * A)),
  map (fun kc => (fst kc, g (snd kc))) (assoc_set k c l)
  = assoc_set k (g c) (map (fun kc => (fst kc, g (snd kc))) l).
Proof.
  intros A B g k c l. induction l as [|[k' c'] l IH]; [reflexivity|].
  simpl. destruct (bytes_cmp k k'); simpl; try reflexivity. now rewrite IH.
Qed.

Lemma assoc_set_snd_in : forall {A} k (c : A) l x, In x (map snd (assoc_set k c l)) -> x = c \/ In x (map snd l).
Proof.
  intros A k c l x. induction l as [|[k' c'] l IH]; simpl.
  - intros [H|[]]; now left.
  - destruct (bytes_cmp k k'); simpl.
    + intros [H|H]; [now left|right; now right].
    + intros [H|[H|H]]; [now left|right; now left|right; now right].
    + intros [H|H]; [right; now left|]. destruct (IH H) as [H'|H']; [now left|right; now right].
Qed.

Lemma pluck_loop_cons : forall thisv oid k r s,
  pluck_loop thisv oid (k :: r) s =
  match pluck_one (hp s) thisv k with
  | None => (Ok NError, s)
  | Some v =>
    pluck_loop thisv oid r
      (set_hp s (set_obj (snd (alloc (hp s) v)) oid (assoc_set (to_str k) (next (hp s)) (get_obj (hp s) oid))))
  end.
Proof.
  intros thisv oid k r s. simpl. unfold bind at 1. unfold get_heap at 1.
  destruct (pluck_one (hp s) thisv k); reflexivity.
Qed.

Section Pluck.
  Variables (h0 : heap) (thisv : value) (oid : positive).
  (* the receiver is not the new object and all it refers to was allocated before *)
  Hypothesis Hstable : forall h', heap_ext h0 h' oid -> forall k, pluck_one h' thisv k = pluck_one h0 thisv k.

  Lemma pluck_loop_spec : forall keys s,
    heap_ext h0 (hp s) oid ->
    Forall (fun c => (c < next (hp s))%positive) (map snd (get_obj (hp s) oid)) ->
    exists h',
      heap_ext h0 h' oid /\
      match pluck_result h0 thisv keys (obj_view (hp s) oid) with
      | Some kvs => pluck_loop thisv oid keys s = (Ok (NVal (VObj oid)), set_hp s h') /\ obj_view h' oid = kvs
      | None => pluck_loop thisv oid keys s = (Ok NError, set_hp s h')
      end.
  Proof.
    induction keys as [|k r IH]; intros s Hext Hcells.
    - exists (hp s). rewrite set_hp_id. split; [exact Hext|]. simpl. split; reflexivity.
    - simpl pluck_result. rewrite pluck_loop_cons.
      rewrite (Hstable (hp s) Hext k).
      destruct (pluck_one h0 thisv k) as [v|].
      2:{ exists (hp s). rewrite set_hp_id. split; [exact Hext|reflexivity]. }
      set (c := next (hp s)).
      set (h1 := set_obj (snd (alloc (hp s) v)) oid (assoc_set (to_str k) c (get_obj (hp s) oid))).
      assert (Hld1 : forall a, (a < next (hp s))%positive -> load h1 a = load (hp s) a).
      { intros a Ha. unfold h1. change (load (set_obj ?h ?o ?l) a) with (load h a).
        apply load_alloc_other. lia. }
      assert (Hext1 : heap_ext h0 h1 oid).
      { destruct Hext as (E1 & E2 & E3 & E4). repeat split.
        - intros a Ha. rewrite Hld1 by lia. now apply E1.
        - intros b. rewrite <- E2. reflexivity.
        - intros o Ho. unfold h1. rewrite get_obj_set_other by exact Ho. rewrite <- (E3 o Ho). reflexivity.
        - unfold h1. simpl. lia. }
      assert (Hobj1 : get_obj h1 oid = assoc_set (to_str k) c (get_obj (hp s) oid)).
      { unfold h1. apply get_obj_set_same. }
      assert (Hcells1 : Forall (fun c0 => (c0 < next h1)%positive) (map snd (get_obj h1 oid))).
      { rewrite Hobj1. rewrite Forall_forall in *. intros x Hx.
        apply assoc_set_snd_in in Hx. unfold h1. simpl next. fold c.
        destruct Hx as [->|Hx]; [lia|]. apply Hcells in Hx. lia. }
      assert (Hview1 : obj_view h1 oid = assoc_set (to_str k) v (obj_view (hp s) oid)).
      { unfold obj_view. rewrite Hobj1. rewrite assoc_set_map.
        assert (Hc : load h1 c = v).
        { unfold h1. change (load (set_obj ?h ?o ?l) c) with (load h c). apply (load_alloc_same (hp s) v). }
        rewrite Hc. f_equal. apply map_ext_in. intros [k' c'] Hin. simpl. f_equal.
        apply Hld1. rewrite Forall_forall in Hcells. apply Hcells. apply in_map_iff. exists (k', c'). now split. }
      destruct (IH (set_hp s h1)) as (h' & Hext' & Hres).
      { exact Hext1. } { exact Hcells1. }
      rewrite set_hp_hp in Hres. rewrite Hview1 in Hres. rewrite set_hp_twice in Hres.
      exists h'. split; [exact Hext'|exact Hres].
  Qed.
End Pluck.

(* a well-formed object receiver *)
Definition wf_obj (h : heap) (oid : positive) : Prop :=
  (oid < next h)%positive /\ Forall (fun c => (c < next h)%positive) (map snd (get_obj h oid)).

Lemma assoc_get_in_snd : forall {A} k (l : list (bytes * A)) c, assoc_get k l = Some c -> In c (map snd l).
Proof.
  intros A k l c. induction l as [|[k' c'] l IH]; simpl; [discriminate|].
  destruct (bytes_eqb k k'); [intros H; inversion H; now left|]. intros H. right. now apply IH.
Qed.

Lemma pluck_one_stable_obj : forall h0 oid0 oid, wf_obj h0 oid0 -> oid <> oid0 ->
  forall h', heap_ext h0 h' oid -> forall k, pluck_one h' (VObj oid0) k = pluck_one h0 (VObj oid0) k.
Proof.
  intros h0 oid0 oid (Hlt & Hcells) Hne h' (E1 & E2 & E3 & E4) k.
  unfold pluck_one, get_member. rewrite (E3 oid0) by congruence.
  destruct k; try reflexivity.
  - destruct (assoc_get (to_str (VStr s)) (get_obj h0 oid0)) as [c|] eqn:Hg;
      [|unfold proto_get; destruct (obj_proto (to_str (VStr s))); reflexivity].
    f_equal. apply E1. rewrite Forall_forall in Hcells. apply Hcells. eapply assoc_get_in_snd; eassumption.
  - destruct (assoc_get (to_str (VNum f)) (get_obj h0 oid0)) as [c|] eqn:Hg;
      [|unfold proto_get; destruct (obj_proto (to_str (VNum f))); reflexivity].
    f_equal. apply E1. rewrite Forall_forall in Hcells. apply Hcells. eapply assoc_get_in_snd; eassumption.
Qed.

(* the value pluck stores for one key of an object receiver: the receiver's OWN value,
   null for every key that is not an own key (also for the method names "length"/"pluck") *)
Definition pluck_value (h : heap) (oid0 : positive) (k : value) : value :=
  match assoc_get (to_str k) (get_obj h oid0) with
  | Some c => load h c
  | None => VNil None
  end.
Definition is_key (k : value) : bool := match k with VNum _ | VStr _ => true | _ => false end.

Lemma pluck_one_obj : forall h oid0 k,
  pluck_one h (VObj oid0) k = if is_key k then Some (pluck_value h oid0 k) else None.
Proof.
  intros h oid0 k. unfold pluck_one, pluck_value, get_member, proto_get.
  destruct k; try reflexivity; simpl is_key; cbv iota.
  - destruct (assoc_get (to_str (VStr s)) (get_obj h oid0)); [reflexivity|].
    destruct (obj_proto (to_str (VStr s))); reflexivity.
  - destruct (assoc_get (to_str (VNum f)) (get_obj h oid0)); [reflexivity|].
    destruct (obj_proto (to_str (VNum f))); reflexivity.
Qed.

(* pluck_result, characterised *)
Lemma pluck_result_none : forall h oid0 keys acc,
  pluck_result h (VObj oid0) keys acc = None <-> forallb is_key keys = false.
Proof.
  intros h oid0 keys. induction keys as [|k r IH]; intros acc; simpl.
  - split; discriminate.
  - rewrite pluck_one_obj. destruct (is_key k); simpl; [apply IH|]. split; reflexivity.
Qed.

Lemma pluck_result_get : forall h oid0 keys acc kvs,
  pluck_result h (VObj oid0) keys acc = Some kvs ->
  forall key,
    assoc_get key kvs =
    match find (fun k => bytes_eqb key (to_str k)) keys with
    | Some k => Some (pluck_value h oid0 k)
    | None => assoc_get key acc
    end.
Proof.
  intros h oid0 keys. induction keys as [|k r IH]; intros acc kvs H key; simpl in *.
  - now inversion H.
  - rewrite pluck_one_obj in H. destruct (is_key k); [|discriminate].
    rewrite (IH _ _ H key).
    destruct (find (fun k0 => bytes_eqb key (to_str k0)) r) as [k1|] eqn:Hf.
    + (* a later occurrence of the same string key: the same value *)
      destruct (bytes_eqb key (to_str k)) eqn:E; [|reflexivity].
      apply bytes_eqb_eq in E. apply find_some in Hf. destruct Hf as [_ Hk1].
      apply bytes_eqb_eq in Hk1. unfold pluck_value. now rewrite <- Hk1, <- E.
    + destruct (bytes_eqb key (to_str k)) eqn:E.
      * apply bytes_eqb_eq in E. subst key. now rewrite assoc_get_set_same.
      * apply assoc_get_set_other. intros ->. now rewrite bytes_eqb_refl in E.
Qed.

Lemma assoc_get_obj_view : forall h oid k,
  assoc_get k (obj_view h oid) = match assoc_get k (get_obj h oid) with Some c => Some (load h c) | None => None end.
Proof.
  intros h oid k. unfold obj_view. induction (get_obj h oid) as [|[k' c'] l IH]; [reflexivity|].
  simpl. destruct (bytes_eqb k k'); [reflexivity|exact IH].
Qed.

Theorem pluck_spec : forall s pa oid0 args,
  load (hp s) pa = VObj oid0 -> wf_obj (hp s) oid0 ->
  let oid := next (hp s) in                               (* the NEW object *)
  exists h',
    (* nothing else changes: the receiver, every other object, every array, every old cell *)
    heap_ext (hp s) h' oid /\ get_obj h' oid0 = get_obj (hp s) oid0 /\
    if forallb is_key args then
      native_call NPluck args (Some pa) s = (Ok (NVal (VObj oid)), set_hp s h') /\
      forall key,
        match assoc_get key (get_obj h' oid) with
        | Some c =>                                        (* exactly the requested keys ... *)
          exists k, In k args /\ key = to_str k /\ load h' c = pluck_value (hp s) oid0 k
        | None => forall k, In k args -> key <> to_str k
        end
    else
      (* a key that is neither a string nor a number: GetMember errs *)
      native_call NPluck args (Some pa) s = (Ok NError, set_hp s h').
Proof.
  intros s pa oid0 args Hl (Hlt & Hcells) oid.
  set (h1 := snd (new_obj (hp s) [])).
  assert (Hcall : native_call NPluck args (Some pa) s = pluck_loop (VObj oid0) oid args (set_hp s h1)).
  { unfold native_call, this_value. unfold bind at 1 2. unfold m_load at 1. unfold ret at 1.
    unfold bind at 1. unfold get_heap at 1. unfold bind at 1. unfold with_heap, new_empty_object.
    simpl. rewrite Hl. reflexivity. }
  assert (Hne : oid <> oid0) by (unfold oid; lia).
  assert (Hext1 : heap_ext (hp s) h1 oid).
  { repeat split; try reflexivity.
    - intros o Ho. unfold h1, new_obj, get_obj. simpl. now rewrite PM.gso.
    - unfold h1. simpl. lia. }
  assert (Hobj1 : get_obj h1 oid = []).
  { unfold h1, new_obj, get_obj. simpl. now rewrite PM.gss. }
  destruct (pluck_loop_spec (hp s) (VObj oid0) oid
              (pluck_one_stable_obj (hp s) oid0 oid (conj Hlt Hcells) Hne) args (set_hp s h1))
    as (h' & Hext' & Hres).
  { exact Hext1. } { rewrite set_hp_hp, Hobj1. constructor. }
  rewrite set_hp_hp, set_hp_twice in Hres.
  exists h'. split; [exact Hext'|]. split; [destruct Hext' as (_ & _ & E3 & _); apply E3; congruence|].
  assert (Hview1 : obj_view h1 oid = []) by (unfold obj_view; now rewrite Hobj1).
  rewrite Hview1 in Hres.
  destruct (forallb is_key args) eqn:Hkeys.
  - destruct (pluck_result (hp s) (VObj oid0) args []) as [kvs|] eqn:Hpr.
    2:{ apply pluck_result_none in Hpr. congruence. }
    destruct Hres as [Hr Hv]. split; [now rewrite Hcall|].
    intros key. pose proof (pluck_result_get _ _ _ _ _ Hpr key) as Hget.
    rewrite <- Hv, assoc_get_obj_view in Hget.
    destruct (assoc_get key (get_obj h' oid)) as [c|].
    + destruct (find (fun k => bytes_eqb key (to_str k)) args) as [k|] eqn:Hf; [|discriminate].
      apply find_some in Hf. destruct Hf as [Hin Hk]. apply bytes_eqb_eq in Hk.
      exists k. split; [exact Hin|]. split; [exact Hk|]. now inversion Hget.
    + destruct (find (fun k => bytes_eqb key (to_str k)) args) as [k|] eqn:Hf; [discriminate|].
      intros k Hin ->. apply (find_none _ _ Hf) in Hin. now rewrite bytes_eqb_refl in Hin.
  - destruct (pluck_result (hp s) (VObj oid0) args []) as [kvs|] eqn:Hpr.
    + assert (Hn : pluck_result (hp s) (VObj oid0) args [] = None) by (apply pluck_result_none; exact Hkeys).
      congruence.
    + now rewrite Hcall.
Qed.

(* ================================================================ split, at the call level *)

Lemma split_method : forall pa s str sep rest,
  load (hp s) pa = VStr str ->
  exists h' b n,
    native_call NSplit (VStr sep :: rest) (Some pa) s = (Ok (NVal (VArr b 0 n)), set_hp s h') /\
    (next (hp s) <= b)%positive /\
    contents h' (VArr b 0 n) = map VStr (split str sep) /\
    (forall a, (a < next (hp s))%positive -> load h' a = load (hp s) a) /\
    (forall b', (b' < next (hp s))%positive -> get_back h' b' = get_back (hp s) b').
Proof.
  intros pa s str sep rest Hl.
  assert (Hcall : native_call NSplit (VStr sep :: rest) (Some pa) s =
                  bind (alloc_all (map VStr (split str sep)))
                       (fun cells => bind (with_heap (fun h => new_array_of h cells)) (fun r => ret (NVal r))) s).
  { unfold native_call, this_value. unfold bind at 1 2. unfold m_load at 1. unfold ret at 1.
    unfold bind at 1. unfold get_heap at 1. rewrite Hl. reflexivity. }
  rewrite Hcall. unfold bind at 1.
  destruct (alloc_all_spec (map VStr (split str sep)) s) as (cells & h1 & Heq & Hmap & Hld & Hbk & Hob & Hnx & Hall & Hnd & Hlen).
  rewrite Heq. unfold bind, with_heap, ret, new_array_of, new_back. simpl.
  exists (snd (new_back h1 cells)), (next h1), (length cells).
  split; [reflexivity|]. split; [exact Hnx|]. split; [|split].
  - unfold contents, arr_cells. rewrite get_back_new_same. simpl skipn. rewrite firstn_all. exact Hmap.
  - intros a Ha. rewrite load_new_back. now apply Hld.
  - intros b' Hb'. rewrite get_back_new_other by lia. apply Hbk.
Qed.

(* with the laws of strings.Split from Oracle/OracleProofs.v *)
From JQ Require Oracle.OracleProofs.

Lemma split_spec : forall pa s str sep rest,
  load (hp s) pa = VStr str ->
  exists h' b n pieces,
    native_call NSplit (VStr sep :: rest) (Some pa) s = (Ok (NVal (VArr b 0 n)), set_hp s h') /\
    (next (hp s) <= b)%positive /\
    contents h' (VArr b 0 n) = map VStr pieces /\
    join sep pieces = str /\
    (sep <> [] -> pieces <> [] /\ forall p, In p pieces -> occurs sep p = false).
Proof.
  intros pa s str sep rest Hl.
  destruct (split_method pa s str sep rest Hl) as (h' & b & n & Heq & Hb & Hc & _).
  exists h', b, n, (split str sep). split; [exact Heq|]. split; [exact Hb|]. split; [exact Hc|].
  split; [apply OracleProofs.split_join|].
  intros Hsep. split; [now apply OracleProofs.split_nonempty|].
  intros p Hp. now apply (OracleProofs.split_no_sep str sep p).
Qed.
