(* Proofs/NoPanic.v -- C01: no function of the evaluator returns a Go panic from a well-formed
   state on a well-formed AST, and every one keeps the state well formed ([np], Spec/WfState.v). *)
From Coq Require Import List ZArith PArith Lia ZifyN ZifyNat ZifyBool FMapPositive.
From JQ Require Import Base.Bytes Num.F64 Syntax.Token Syntax.Lexer Syntax.Ast Syntax.Parser.
From JQ Require Import Json.JValue Json.Decode Json.Encode.
From JQ Require Import Oracle.Utf8 Oracle.Sort.
From JQ Require Import Gen.Generated Sem.Value Sem.Ops Sem.Natives Sem.Eval Sem.Driver.
From JQ Require Import Spec.EvalInvSpec Spec.TokSpans Spec.WfState.
From JQ Require Import Proofs.EvalUnfold Proofs.EvalInv Proofs.EvalFaults Proofs.EvalFrames.
From JQ Require Import Proofs.LexSpan Proofs.NoPanicHeap.
Import ListNotations.
Open Scope nat_scope.

Definition with_hp (s : st) (h : heap) : st :=
  mkSt h (frames s) (rule_root s) (root s) (retval s) (io s).

Definition simple (v : value) : Prop :=
  match v with VStr _ | VBool _ | VNum _ | VRegex _ | VNil None | VUnknown | VNative _ None => True | _ => False end.

Lemma Forall_insert_sorted {A} (P : A -> Prop) le x : forall l,
  P x -> Forall P l -> Forall P (insert_sorted le x l).
Proof.
  induction l as [|y l IH]; intros Hx Hl; cbn [insert_sorted].
  - constructor; [exact Hx|constructor].
  - inversion Hl as [|? ? Hy Hr]; subst. destruct (le x y).
    + constructor; [exact Hx|exact Hl].
    + constructor; [exact Hy|apply IH; assumption].
Qed.

Lemma Forall_stable_sort {A} (P : A -> Prop) le : forall l, Forall P l -> Forall P (stable_sort le l).
Proof.
  induction l as [|x l IH]; intros Hl; cbn [stable_sort]; [constructor|].
  inversion Hl; subst. apply Forall_insert_sorted; auto.
Qed.

Section NP.
  Variable base : positive.
  Variable fmax : nat.
  Local Notation in_reg := (in_reg base).
  Local Notation val_ok := (val_ok base fmax).
  Local Notation heap_ok := (heap_ok base fmax).
  Local Notation state_ok := (state_ok base fmax).
  Local Notation hext := (hext base fmax).
  Local Notation ext := (ext base fmax).
  Local Notation np := (@np base fmax).

  (* ------------------------------------------------------------------ ext *)

  Lemma ext_refl s : ext s s.
  Proof. split; [apply hext_refl|auto]. Qed.

  Lemma ext_trans s1 s2 s3 : ext s1 s2 -> ext s2 s3 -> ext s1 s3.
  Proof. intros [H1 R1] [H2 R2]. split; [eapply hext_trans; eassumption|auto]. Qed.

  Lemma ext_in_reg s s' a : ext s s' -> in_reg (hp s) a -> in_reg (hp s') a.
  Proof. intros [H _]. apply (hext_in_reg base fmax). exact H. Qed.

  Lemma ext_val s s' v : ext s s' -> val_ok (hp s) v -> val_ok (hp s') v.
  Proof. intros [H _]. apply hext_val. exact H. Qed.

  Lemma ext_rr s s' : ext s s' -> has_rule_root s -> has_rule_root s'.
  Proof. intros [_ H]. exact H. Qed.

  Lemma ext_Forall_in_reg s s' l : ext s s' -> Forall (in_reg (hp s)) l -> Forall (in_reg (hp s')) l.
  Proof. intros H. apply Forall_impl. intros a. apply ext_in_reg. exact H. Qed.

  Lemma ext_Forall_val s s' l : ext s s' -> Forall (val_ok (hp s)) l -> Forall (val_ok (hp s')) l.
  Proof. intros H. apply Forall_impl. intros a. apply ext_val. exact H. Qed.

  Lemma ext_Forall_snd {K} s s' (l : list (K * addr)) : ext s s' ->
    Forall (fun kv => in_reg (hp s) (snd kv)) l -> Forall (fun kv => in_reg (hp s') (snd kv)) l.
  Proof. intros H. apply Forall_impl. intros a. apply ext_in_reg. exact H. Qed.

  Lemma ext_all_opt s s' o : ext s s' -> all_opt (in_reg (hp s)) o -> all_opt (in_reg (hp s')) o.
  Proof. intros H. destruct o; cbn; [apply ext_in_reg; exact H|auto]. Qed.

  Lemma hext_locals h h' fs : hext h h' -> Forall (locals_ok base h) fs -> Forall (locals_ok base h') fs.
  Proof.
    intros H. apply Forall_impl. intros f. unfold locals_ok. apply Forall_impl.
    intros kv. apply (hext_in_reg base fmax). exact H.
  Qed.

  Lemma hext_all_opt h h' o : hext h h' -> all_opt (in_reg h) o -> all_opt (in_reg h') o.
  Proof. intros H. destruct o; cbn; [apply (hext_in_reg base fmax); exact H|auto]. Qed.

  (* a new heap under the same frames and roots *)
  Lemma state_ok_hp s h' :
    state_ok s -> heap_ok h' -> hext (hp s) h' -> state_ok (with_hp s h') /\ ext s (with_hp s h').
  Proof.
    intros [K F L RR RT RV] HK HX. split.
    - constructor; cbn [with_hp hp frames rule_root root retval]; auto.
      + eapply hext_locals; eassumption.
      + eapply hext_all_opt; eassumption.
      + eapply hext_all_opt; eassumption.
      + eapply hext_all_opt; eassumption.
    - split; [exact HX|auto].
  Qed.

  Lemma cell_val s a : state_ok s -> in_reg (hp s) a -> val_ok (hp s) (load (hp s) a).
  Proof. intros HK Ha. apply (hk_cells _ _ _ (sk_heap _ _ _ HK)). exact Ha. Qed.

  Lemma simple_val h v : simple v -> val_ok h v.
  Proof. destruct v as [s|b|f|bid off len|o|[[p k]|]|nf [a|]|idx|s|]; cbn; intros H; try contradiction; exact Logic.I. Qed.

  (* ------------------------------------------------------------------ the rules of [np] *)

  Lemma np_ret {A} s (a : A) (R : A -> st -> Prop) : state_ok s -> R a s -> np s (ret a) R.
  Proof.
    intros HK HR r s' H. inversion H; subst.
    split; [exact HK|split; [apply ext_refl|split; [discriminate|]]].
    intros a' E. inversion E; subst. exact HR.
  Qed.

  Lemma np_fail {A} s (r : res A) (R : A -> st -> Prop) :
    state_ok s -> r <> Panic -> (forall a, r <> Ok a) -> np s (fail r) R.
  Proof.
    intros HK Hp Ho r' s' H. inversion H; subst.
    split; [exact HK|split; [apply ext_refl|split; [exact Hp|]]].
    intros a E. exfalso. exact (Ho a E).
  Qed.

  Lemma np_bind {A B} s (m : M A) (k : A -> M B) (R1 : A -> st -> Prop) (R : B -> st -> Prop) :
    np s m R1 ->
    (forall a s1, state_ok s1 -> ext s s1 -> R1 a s1 -> np s1 (k a) R) ->
    np s (bind m k) R.
  Proof.
    intros Hm Hk r s' H. apply bind_inv in H.
    destruct H as [(a & s1 & H1 & H2) | (r0 & H1 & Hn & Hkd)].
    - destruct (Hm _ _ H1) as (K1 & X1 & _ & R1a).
      destruct (Hk a s1 K1 X1 (R1a a eq_refl) _ _ H2) as (K2 & X2 & P2 & R2).
      split; [exact K2|split; [eapply ext_trans; eassumption|split; [exact P2|exact R2]]].
    - destruct (Hm _ _ H1) as (K1 & X1 & P1 & _).
      split; [exact K1|split; [exact X1|split]].
      + intros E. subst r. destruct r0; cbn in Hkd; try discriminate. congruence.
      + intros a E. subst r. destruct r0; cbn in Hkd, Hn; try discriminate. congruence.
  Qed.

  Lemma np_conseq {A} s (m : M A) (R R' : A -> st -> Prop) :
    np s m R -> (forall a s', state_ok s' -> ext s s' -> R a s' -> R' a s') -> np s m R'.
  Proof.
    intros Hm HR r s' H. destruct (Hm _ _ H) as (K & X & P & Ra).
    split; [exact K|split; [exact X|split; [exact P|]]]. intros a E. apply HR; auto.
  Qed.

  Lemma np_eq {A} s (m m' : M A) R : m s = m' s -> np s m' R -> np s m R.
  Proof. intros E H r s' Hm. rewrite E in Hm. exact (H _ _ Hm). Qed.

  (* reads *)
  Lemma np_load {B} s a (k : value -> M B) (R : B -> st -> Prop) :
    np s (k (load (hp s) a)) R -> np s (bind (m_load a) k) R.
  Proof. apply np_eq. reflexivity. Qed.

  Lemma np_get_heap {B} s (k : heap -> M B) (R : B -> st -> Prop) :
    np s (k (hp s)) R -> np s (bind get_heap k) R.
  Proof. apply np_eq. reflexivity. Qed.

  Lemma np_get_st {B} s (k : st -> M B) (R : B -> st -> Prop) :
    np s (k s) R -> np s (bind get_st k) R.
  Proof. apply np_eq. reflexivity. Qed.

  (* a caught outcome *)
  Lemma np_catch {A B} s (m : M A) (h : res A -> M B) (R1 : A -> st -> Prop) (R : B -> st -> Prop) :
    np s m R1 ->
    (forall r0 s1, state_ok s1 -> ext s s1 -> r0 <> Panic -> (forall a, r0 = Ok a -> R1 a s1) ->
                   np s1 (h r0) R) ->
    np s (bind (catch m) h) R.
  Proof.
    intros Hm Hh r s' H. unfold bind, catch in H. destruct (m s) as [r0 s1] eqn:E.
    destruct (Hm _ _ E) as (K1 & X1 & P1 & R1a).
    destruct (Hh r0 s1 K1 X1 P1 R1a _ _ H) as (K2 & X2 & P2 & R2).
    split; [exact K2|split; [eapply ext_trans; eassumption|split; [exact P2|exact R2]]].
  Qed.

  Lemma np_reraise {A B} s (r : res A) (R : B -> st -> Prop) :
    state_ok s -> r <> Panic -> (forall a, r <> Ok a) -> np s (reraise r) R.
  Proof.
    intros HK Hp Ho. destruct r as [a|e|x| | |]; cbn [reraise];
      try (apply np_fail; [exact HK|discriminate|discriminate]).
    - exfalso. exact (Ho a eq_refl).
    - congruence.
  Qed.

  (* ------------------------------------------------------------------ primitives *)

  Lemma np_upd_heap s f :
    state_ok s -> (heap_ok (f (hp s)) /\ hext (hp s) (f (hp s))) ->
    np s (upd_heap f) (fun _ _ => True).
  Proof.
    intros HK [K X] r s' H. unfold upd_heap in H. inversion H; subst.
    destruct (state_ok_hp s (f (hp s)) HK K X) as [K' X'].
    split; [exact K'|split; [exact X'|split; [discriminate|auto]]].
  Qed.

  Lemma np_with_heap {A} s (f : heap -> A * heap) (R : A -> st -> Prop) :
    state_ok s -> heap_ok (snd (f (hp s))) -> hext (hp s) (snd (f (hp s))) ->
    R (fst (f (hp s))) (with_hp s (snd (f (hp s)))) ->
    np s (with_heap f) R.
  Proof.
    intros HK K X HR r s' H. unfold with_heap in H. destruct (f (hp s)) as [a h'] eqn:E.
    inversion H; subst. cbn [fst snd] in *.
    destruct (state_ok_hp s h' HK K X) as [K' X'].
    split; [exact K'|split; [exact X'|split; [discriminate|]]].
    intros a' Ea. inversion Ea; subst. exact HR.
  Qed.

  Lemma np_m_alloc s v :
    state_ok s -> val_ok (hp s) v ->
    np s (m_alloc v) (fun a s' => in_reg (hp s') a /\ load (hp s') a = v).
  Proof.
    intros HK Hv. destruct (alloc_ok base fmax (hp s) v (sk_heap _ _ _ HK) Hv) as (K & X & R1 & R2).
    apply np_with_heap; auto.
  Qed.

  Lemma np_m_store s a v :
    state_ok s -> in_reg (hp s) a -> val_ok (hp s) v -> np s (m_store a v) (fun _ _ => True).
  Proof.
    intros HK Ha Hv. apply np_upd_heap; [exact HK|].
    apply store_ok; [exact (sk_heap _ _ _ HK)|exact Ha|exact Hv].
  Qed.

  Lemma np_append s pa c :
    state_ok s -> in_reg (hp s) pa -> in_reg (hp s) c ->
    np s (upd_heap (fun h => append_at h pa c)) (fun _ _ => True).
  Proof.
    intros HK Hpa Hc. apply np_upd_heap; [exact HK|].
    apply append_at_ok; [exact (sk_heap _ _ _ HK)|exact Hpa|exact Hc].
  Qed.

  Lemma np_set_obj s oid k c :
    state_ok s -> val_ok (hp s) (VObj oid) -> in_reg (hp s) c ->
    np s (upd_heap (fun h => set_obj h oid (assoc_set k c (get_obj h oid)))) (fun _ _ => True).
  Proof.
    intros HK Ho Hc. apply np_upd_heap; [exact HK|].
    apply set_obj_ok; [exact (sk_heap _ _ _ HK)|exact (proj1 Ho)|exact Hc].
  Qed.

  Lemma np_new_empty_object s :
    state_ok s ->
    np s (with_heap new_empty_object) (fun o s' => val_ok (hp s') o /\ exists oid, o = VObj oid).
  Proof.
    intros HK. destruct (new_empty_object_ok base fmax (hp s) (sk_heap _ _ _ HK)) as (K & X & V & E).
    apply np_with_heap; auto. split; [exact V|eauto].
  Qed.

  Lemma np_new_empty_array s :
    state_ok s -> np s (with_heap new_empty_array) (fun o s' => val_ok (hp s') o).
  Proof.
    intros HK. destruct (new_empty_array_ok base fmax (hp s) (sk_heap _ _ _ HK)) as (K & X & V).
    apply np_with_heap; auto.
  Qed.

  Lemma np_new_array_of s cells :
    state_ok s -> Forall (in_reg (hp s)) cells ->
    np s (with_heap (fun h => new_array_of h cells)) (fun o s' => val_ok (hp s') o).
  Proof.
    intros HK Hc. destruct (new_array_of_ok base fmax (hp s) cells (sk_heap _ _ _ HK) Hc) as (K & X & V).
    apply np_with_heap; auto.
  Qed.

  Lemma np_new_value s doc :
    state_ok s -> np s (with_heap (new_value doc)) (fun o s' => val_ok (hp s') o).
  Proof.
    intros HK. destruct (new_value_ok base fmax doc (hp s) (sk_heap _ _ _ HK)) as (K & X & V).
    apply np_with_heap; auto.
  Qed.

  Lemma assoc_set_locals h name a l :
    in_reg h a -> Forall (fun kv => in_reg h (snd kv)) l ->
    Forall (fun kv : bytes * addr => in_reg h (snd kv)) (assoc_set name a l).
  Proof. intros Ha Hl. apply Forall_assoc_set; assumption. Qed.

  Lemma np_set_local s name a :
    state_ok s -> in_reg (hp s) a -> np s (set_local name a) (fun _ _ => True).
  Proof.
    intros [K F L RR RT RV] Ha r s' H. unfold set_local in H.
    destruct (frames s) as [|f rest] eqn:Ef; [congruence|]. inversion H; subst.
    split; [|split; [split; [apply hext_refl|auto]|split; [discriminate|auto]]].
    inversion L as [|? ? Lf Lr]; subst.
    constructor; cbn [hp frames rule_root root retval]; auto; [discriminate|].
    constructor; [|exact Lr]. unfold locals_ok. cbn [locals]. apply assoc_set_locals; assumption.
  Qed.

  Lemma set_in_last_locals h name a : forall fs,
    in_reg h a -> Forall (locals_ok base h) fs -> Forall (locals_ok base h) (set_in_last fs name a).
  Proof.
    induction fs as [|f r IH]; intros Ha Hl; [constructor|].
    inversion Hl as [|? ? Hf Hr]; subst.
    destruct r as [|g r'].
    - cbn [set_in_last]. constructor; [|constructor]. unfold locals_ok. cbn [locals].
      apply assoc_set_locals; assumption.
    - change (set_in_last (f :: g :: r') name a) with (f :: set_in_last (g :: r') name a).
      constructor; [exact Hf|apply IH; assumption].
  Qed.

  Lemma np_set_global s name a :
    state_ok s -> in_reg (hp s) a -> np s (set_global name a) (fun _ _ => True).
  Proof.
    intros [K F L RR RT RV] Ha r s' H. unfold set_global in H. inversion H; subst.
    split; [|split; [split; [apply hext_refl|auto]|split; [discriminate|auto]]].
    constructor; cbn [hp frames rule_root root retval]; auto.
    - intros E. apply (f_equal (map fname)) in E. rewrite set_in_last_names in E.
      destruct (frames s); [congruence|discriminate].
    - apply set_in_last_locals; assumption.
  Qed.

  Lemma np_set_retval s o :
    state_ok s -> all_opt (in_reg (hp s)) o -> np s (set_retval o) (fun _ _ => True).
  Proof.
    intros [K F L RR RT RV] Ha r s' H. unfold set_retval in H. inversion H; subst.
    split; [|split; [split; [apply hext_refl|auto]|split; [discriminate|auto]]].
    constructor; cbn [hp frames rule_root root retval]; auto.
  Qed.

  Lemma np_set_root s o :
    state_ok s -> all_opt (in_reg (hp s)) o -> np s (set_root o) (fun _ _ => True).
  Proof.
    intros [K F L RR RT RV] Ha r s' H. unfold set_root in H. inversion H; subst.
    split; [|split; [split; [apply hext_refl|auto]|split; [discriminate|auto]]].
    constructor; cbn [hp frames rule_root root retval]; auto.
  Qed.

  Lemma np_set_rule_root s a :
    state_ok s -> in_reg (hp s) a -> np s (set_rule_root (Some a)) (fun _ s' => has_rule_root s').
  Proof.
    intros [K F L RR RT RV] Ha r s' H. unfold set_rule_root in H. inversion H; subst.
    split; [|split; [split; [apply hext_refl|intros _; discriminate]|split; [discriminate|]]].
    - constructor; cbn [hp frames rule_root root retval]; auto.
    - intros _ _. discriminate.
  Qed.

  (* computations that only touch the log *)
  Lemma np_io_only {A} s (m : M A) (R : A -> st -> Prop) :
    state_ok s ->
    (forall r s', m s = (r, s') -> r <> Panic /\ hp s' = hp s /\ frames s' = frames s /\
                  rule_root s' = rule_root s /\ root s' = root s /\ retval s' = retval s /\
                  forall a, r = Ok a -> forall s2, hp s2 = hp s -> R a s2) ->
    np s m R.
  Proof.
    intros [K F L RR RT RV] Hm r s' H. destruct (Hm _ _ H) as (P & E1 & E2 & E3 & E4 & E5 & HR).
    split; [|split; [|split; [exact P|]]].
    - constructor; rewrite ?E1, ?E2, ?E3, ?E4, ?E5; auto.
    - split; [rewrite E1; apply hext_refl|unfold has_rule_root; rewrite E3; auto].
    - intros a E. apply (HR a E). exact E1.
  Qed.

  Lemma np_emit s b : state_ok s -> np s (emit b) (fun _ _ => True).
  Proof.
    intros HK. apply np_io_only; [exact HK|]. intros r s' H. unfold emit in H. inversion H; subst.
    cbn. repeat split; auto. discriminate.
  Qed.

  Lemma np_note_signal s t : state_ok s -> np s (note_signal t) (fun _ _ => True).
  Proof.
    intros HK. apply np_io_only; [exact HK|]. intros r s' H. unfold note_signal in H. inversion H; subst.
    cbn. repeat split; auto. discriminate.
  Qed.

  Lemma np_log_io s evs : state_ok s -> np s (log_io evs) (fun _ _ => True).
  Proof.
    intros HK. apply np_io_only; [exact HK|]. intros r s' H. unfold log_io in H. inversion H; subst.
    cbn. repeat split; auto. discriminate.
  Qed.

  Lemma np_raise_err {A} s e (R : A -> st -> Prop) : state_ok s -> np s (raise_err e) R.
  Proof.
    intros HK. apply np_io_only; [exact HK|]. intros r s' H. unfold raise_err in H. inversion H; subst.
    cbn. repeat split; auto; discriminate.
  Qed.

  Lemma np_rt_error {A} src s t (R : A -> st -> Prop) : state_ok s -> np s (rt_error src t) R.
  Proof.
    intros HK. unfold rt_error. destruct (get_line_col src (tpos t)) as [[text line] col].
    apply np_raise_err. exact HK.
  Qed.

  Lemma np_tok_string src s t (R : bytes -> st -> Prop) :
    state_ok s -> tok_in_src src t -> (forall b, R b s) -> np s (tok_string src t) R.
  Proof.
    intros HK Ht HR. unfold tok_string. rewrite (get_string_in src t Ht). apply np_ret; auto.
  Qed.

  Lemma lookup_frames_in_reg h name : forall fs a,
    Forall (locals_ok base h) fs -> lookup_frames fs name = Some a -> in_reg h a.
  Proof.
    induction fs as [|f r IH]; intros a Hl H; cbn [lookup_frames] in H; [discriminate|].
    inversion Hl as [|? ? Hf Hr]; subst.
    destruct (assoc_get name (locals f)) as [a'|] eqn:E.
    - inversion H; subst. exact (Forall_assoc_get _ _ _ _ Hf E).
    - eauto.
  Qed.

  Lemma np_get_variable s name :
    state_ok s -> np s (get_variable name) (fun o s' => all_opt (in_reg (hp s')) o).
  Proof.
    intros HK. destruct (get_variable_cases name s) as [E|[E|E]].
    - eapply np_eq; [exact E|]. apply (@np_ret (option addr)); [exact HK|].
      destruct (lookup_frames (frames s) name) as [a|] eqn:El; cbn; [|exact Logic.I].
      eapply lookup_frames_in_reg; [exact (sk_locals _ _ _ HK)|exact El].
    - eapply np_eq; [exact E|]. apply (@np_ret (option addr)); [exact HK|exact Logic.I].
    - eapply np_eq; [exact E|].
      eapply np_bind; [apply np_m_alloc; [exact HK|exact Logic.I]|].
      intros a s1 K1 X1 [R1 _].
      eapply np_bind; [apply np_set_local; assumption|].
      intros _ s2 K2 X2 _. apply (@np_ret (option addr)); [exact K2|].
      cbn. eapply ext_in_reg; eassumption.
  Qed.

  (* ------------------------------------------------------------------ tactics *)

  (* move the facts about the previous state to the current one *)
  Ltac xfer HX :=
    lazymatch type of HX with
    | WfState.ext _ _ ?s ?s1 =>
      repeat match goal with
      | H : WfState.in_reg _ (hp s) _ |- _ => apply (ext_in_reg _ _ _ HX) in H
      | H : WfState.val_ok _ _ (hp s) _ |- _ => apply (ext_val _ _ _ HX) in H
      | H : Forall (WfState.in_reg _ (hp s)) _ |- _ => apply (ext_Forall_in_reg _ _ _ HX) in H
      | H : Forall (WfState.val_ok _ _ (hp s)) _ |- _ => apply (ext_Forall_val _ _ _ HX) in H
      | H : Forall (fun kv => WfState.in_reg _ (hp s) (snd kv)) _ |- _ => apply (ext_Forall_snd _ _ _ HX) in H
      | H : all_opt (WfState.in_reg _ (hp s)) _ |- _ => apply (ext_all_opt _ _ _ HX) in H
      | H : has_rule_root s |- _ => apply (ext_rr _ _ HX) in H
      end
    end.

  Ltac nx :=
    match goal with
    | X : WfState.ext _ _ ?s ?s1 |- @WfState.np _ _ _ ?s1 _ _ => xfer X
    end.

  (* one bind: [lem] proves the first computation *)
  Tactic Notation "bd" tactic3(lem) "as" ident(a) ident(s1) ident(K) ident(X) ident(R) :=
    eapply np_bind; [ lem | intros a s1 K X R; cbv beta in R; try nx ].
  Tactic Notation "bd" tactic3(lem) :=
    let a := fresh "a" in let s1 := fresh "s" in let K := fresh "K" in
    let X := fresh "X" in let R := fresh "R" in
    eapply np_bind; [ lem | intros a s1 K X R; cbv beta in R; try nx ].

  Ltac np_triv :=
    repeat first
      [ apply np_ret; [assumption | try exact Logic.I]
      | apply np_fail; [assumption | discriminate | discriminate]
      | apply np_rt_error; assumption
      | lazymatch goal with
        | |- @WfState.np _ _ _ _ (match ?x with _ => _ end) _ => destruct x eqn:?
        | |- @WfState.np _ _ _ _ (if ?x then _ else _) _ => destruct x eqn:?
        | |- @WfState.np _ _ _ _ (let _ := _ in _) _ => cbv zeta
        end ].

  (* ------------------------------------------------------------------ helpers of Sem/Eval.v *)

  Lemma np_nil_cell s : state_ok s -> np s nil_cell (fun a s' => in_reg (hp s') a).
  Proof.
    intros HK. eapply np_conseq; [apply np_m_alloc; [exact HK|exact Logic.I]|].
    intros a s' _ _ [H _]. exact H.
  Qed.

  Lemma np_bool_cell s b : state_ok s -> np s (bool_cell b) (fun a s' => in_reg (hp s') a).
  Proof.
    intros HK. eapply np_conseq; [apply np_m_alloc; [exact HK|exact Logic.I]|].
    intros a s' _ _ [H _]. exact H.
  Qed.

  Lemma np_alloc_reg s v : state_ok s -> val_ok (hp s) v -> np s (m_alloc v) (fun a s' => in_reg (hp s') a).
  Proof.
    intros HK Hv. eapply np_conseq; [apply np_m_alloc; [exact HK|exact Hv]|].
    intros a s' _ _ [H _]. exact H.
  Qed.

  Lemma np_get_identifier src s t :
    state_ok s -> tok_in_src src t -> np s (get_identifier src t) (fun a s' => in_reg (hp s') a).
  Proof.
    intros HK Ht. unfold get_identifier. destruct (tag_eqb (ttag t) TDollar).
    - apply np_get_st. destruct (rule_root s) as [a|] eqn:E.
      + apply np_ret; [exact HK|]. pose proof (sk_rule_root _ _ _ HK) as H. rewrite E in H. exact H.
      + apply np_rt_error. exact HK.
    - bd (apply np_tok_string with (R := fun _ _ => True); auto).
      bd (apply np_get_variable; assumption) as r s2 K2 X2 R2.
      destruct r as [c|]; [apply np_ret; assumption|apply np_rt_error; assumption].
  Qed.

  Lemma np_fill recv : forall k last s,
    state_ok s -> in_reg (hp s) recv ->
    np s ((fix fill (k : nat) (last : addr) {struct k} : M addr :=
             match k with
             | O => ret last
             | S k' =>
               let* c := nil_cell in
               upd_heap (fun h => append_at h recv c) ;;;
               fill k' c
             end) k last)
       (fun a s' => (k = 0 /\ a = last) \/ in_reg (hp s') a).
  Proof.
    induction k as [|k IH]; intros last s HK Hr; cbv beta iota.
    - apply np_ret; auto.
    - bd (apply np_nil_cell; assumption).
      bd (apply np_append; assumption).
      eapply np_conseq; [apply IH; assumption|].
      intros c s' K' X' [[_ ->]|H]; right; [eapply ext_in_reg; eassumption|exact H].
  Qed.

  Lemma np_set_member s recv m cell :
    state_ok s -> in_reg (hp s) recv -> in_reg (hp s) cell ->
    np s (set_member recv m cell) (fun r s' => all_opt (in_reg (hp s')) r).
  Proof.
    intros HK Hr Hc. unfold set_member. apply np_load. apply np_get_heap.
    pose proof (cell_val s recv HK Hr) as Hrv.
    destruct (load (hp s) recv) as [x|x|x|bid off len|oid|x|nf bd|x|x|] eqn:Erv;
      try (apply (@np_ret (option addr)); [assumption|exact Logic.I]).
    - destruct m as [x|x|f|? ? ?|x|x|? ?|x|x|];
        try (apply (@np_ret (option addr)); [assumption|exact Logic.I]).
      assert (Hfill : forall r0 : M (option addr),
                 (forall c, get_member (hp s) (VArr bid off len) (VNum f) <> GmCell c) ->
                 get_member (hp s) (VArr bid off len) (VNum f) <> GmErr ->
                 r0 = (let index := f_trunc_int64 f in
                       if Z.ltb fill_limit index then ret None
                       else
                         let count := Z.to_nat (index - Z.of_nat len + 1) in
                         let* item := (fix fill (k : nat) (last : addr) {struct k} : M addr :=
                                         match k with
                                         | O => ret last
                                         | S k' =>
                                           let* c := nil_cell in
                                           upd_heap (fun h => append_at h recv c) ;;;
                                           fill k' c
                                         end) count dummy_addr in
                         let* cv := m_load cell in
                         m_store item cv ;;; ret (Some item)) ->
                 np s r0 (fun r s' => all_opt (in_reg (hp s')) r)).
      { intros r0 Hnc Hne ->. cbv zeta.
        pose proof (set_member_count base fmax (hp s) bid off len f Hrv Hnc Hne) as Hcount.
        destruct (Z.ltb fill_limit (f_trunc_int64 f)).
        - apply (@np_ret (option addr)); [assumption|exact Logic.I].
        - bd (apply np_fill; assumption) as item s1 K1 X1 R1.
          assert (Hitem : in_reg (hp s1) item) by (destruct R1 as [[E _]|R1]; [lia|exact R1]).
          apply np_load.
          bd (apply np_m_store; [assumption|assumption|apply cell_val; assumption]).
          apply (@np_ret (option addr)); [assumption|]. cbn. exact Hitem. }
      destruct (get_member (hp s) (VArr bid off len) (VNum f)) as [item|nf|v|  |] eqn:Egm.
      + pose proof (get_member_cell base fmax _ _ _ _ Hrv Egm) as Hitem.
        apply np_load.
        bd (apply np_m_store; [assumption|assumption|apply cell_val; assumption]).
        apply (@np_ret (option addr)); [assumption|]. cbn. exact Hitem.
      + apply Hfill; [discriminate|discriminate|reflexivity].
      + apply Hfill; [discriminate|discriminate|reflexivity].
      + apply Hfill; [discriminate|discriminate|reflexivity].
      + apply (@np_ret (option addr)); [assumption|exact Logic.I].
    - bd (apply np_set_obj; assumption).
      apply (@np_ret (option addr)); [assumption|]. cbn. assumption.
  Qed.

  Definition is_spec (v : value) : Prop :=
    (exists p k, v = VNil (Some (p, k))) \/ (exists nf p, v = VNative nf (Some p)).

  Lemma np_create_speculative : forall n spec s,
    state_ok s -> in_reg (hp s) spec -> is_spec (load (hp s) spec) ->
    np s (create_speculative n spec) (fun r s' => all_opt (in_reg (hp s')) r).
  Proof.
    induction n as [|n IH]; intros spec s HK Hs Hspec; cbn [create_speculative].
    - apply np_fail; [assumption|discriminate|discriminate].
    - apply np_load.
      pose proof (cell_val s spec HK Hs) as Hsv.
      assert (Ht : exists parent key,
                 match load (hp s) spec with
                 | VNil (Some (parent, key)) => Some (parent, key)
                 | VNative nf (Some parent) => Some (parent, KStr (native_name nf))
                 | _ => None
                 end = Some (parent, key) /\ in_reg (hp s) parent).
      { destruct Hspec as [(p0 & k0 & Esp) | (nf & p0 & Esp)]; rewrite Esp in *; cbn in Hsv;
          eexists; eexists; split; try reflexivity; exact Hsv. }
      destruct Ht as (parent & key & -> & Hsv'). clear Hsv. rename Hsv' into Hsv.
      apply np_load.
      pose proof (cell_val s parent HK Hsv) as Hpv.
      assert (Hfin : forall (target : M (option addr)),
                 np s target (fun r s' => all_opt (in_reg (hp s')) r) ->
                 np s (let* target := target in
                       match target with
                       | None => ret None
                       | Some obj => set_member obj (match key with KStr s => VStr s | KNum x => VNum x end) spec
                       end) (fun r s' => all_opt (in_reg (hp s')) r)).
      { intros target Ht. bd (exact Ht) as tg s1 K1 X1 R1.
        destruct tg as [obj|]; [|apply (@np_ret (option addr)); [assumption|exact Logic.I]].
        apply np_set_member; assumption. }
      destruct (load (hp s) parent) as [x|x|x|? ? ?|x|[[p2 k2]|]|? ?|x|x|] eqn:Epv; cbv zeta;
        try (apply Hfin; apply (@np_ret (option addr)); [assumption|exact Hsv]).
      + (* the parent is speculative too *)
        apply Hfin.
        bd (apply np_m_alloc; [assumption|exact Hpv]) as pcopy s1 K1 X1 R1.
        destruct R1 as [Hpc Elc].
        bd (apply IH; [assumption|assumption|rewrite Elc; left; eexists; eexists; reflexivity]) as np0 s2 K2 X2 R2.
        destruct np0 as [newparent|]; [|apply (@np_ret (option addr)); [assumption|exact Logic.I]].
        cbn in R2.
        assert (Hnv : forall f : heap -> value * heap,
                   (f = new_empty_object \/ f = new_empty_array) ->
                   np s2 (let* nv := with_heap f in m_store newparent nv ;;; ret (Some newparent))
                      (fun r s' => all_opt (in_reg (hp s')) r)).
        { intros f Hf.
          bd (instantiate (1 := fun o s' => val_ok (hp s') o);
              destruct Hf as [-> | ->];
              [eapply np_conseq; [apply np_new_empty_object; assumption|intros ? ? ? ? [Hv _]; exact Hv]
              |apply np_new_empty_array; assumption]).
          bd (apply np_m_store; assumption).
          apply (@np_ret (option addr)); [assumption|]. cbn. assumption. }
        destruct key; apply Hnv; auto.
      + apply (@np_ret (option addr)); [assumption|exact Logic.I].
  Qed.

  Lemma np_eval_assignment src n tok s left right :
    state_ok s -> in_reg (hp s) left -> in_reg (hp s) right ->
    np s (eval_assignment src n tok left right) (fun a s' => in_reg (hp s') a).
  Proof.
    intros HK Hl Hr. unfold eval_assignment. apply np_load.
    assert (Hrest : forall left' s1, state_ok s1 -> in_reg (hp s1) left' -> in_reg (hp s1) right ->
               np s1 (let* rv := m_load right in
                      match copy_value rv with
                      | Some v => m_store left' v ;;; ret left'
                      | None => rt_error src tok
                      end) (fun a s' => in_reg (hp s') a)).
    { intros left' s1 K1 Hl1 Hr1. apply np_load.
      destruct (copy_value (load (hp s1) right)) as [v|] eqn:Ec; [|apply np_rt_error; assumption].
      bd (apply np_m_store; [assumption|assumption|]).
      { eapply copy_value_ok; [|exact Ec]. apply cell_val; assumption. }
      apply np_ret; assumption. }
    destruct (load (hp s) left) as [x|x|x|? ? ?|x|[[p2 k2]|]|? [p2|]|x|x|] eqn:Elv;
      try (bd (apply np_ret with (R := fun a s' => in_reg (hp s') a); assumption);
           apply Hrest; assumption).
    - bd (instantiate (1 := fun a s' => in_reg (hp s') a);
          eapply np_bind;
          [apply np_create_speculative;
           [assumption|assumption|rewrite Elv; left; eexists; eexists; reflexivity]|]).
      { intros r s1 K1 X1 R1. destruct r as [c|]; [apply np_ret; assumption|apply np_rt_error; assumption]. }
      apply Hrest; assumption.
    - bd (instantiate (1 := fun a s' => in_reg (hp s') a);
          eapply np_bind;
          [apply np_create_speculative;
           [assumption|assumption|rewrite Elv; right; eexists; eexists; reflexivity]|]).
      { intros r s1 K1 X1 R1. destruct r as [c|]; [apply np_ret; assumption|apply np_rt_error; assumption]. }
      apply Hrest; assumption.
  Qed.

  Lemma unop_simple u v r : unop_value u v = VOk r -> simple r.
  Proof.
    destruct u; cbn [unop_value]; try discriminate.
    - intros E; inversion E; exact Logic.I.
    - destruct (as_float v); intros E; inversion E; exact Logic.I.
    - destruct (as_float v); intros E; inversion E; exact Logic.I.
  Qed.

  Lemma binop_simple o lv rv r : binop_value o lv rv = VOk r -> simple r.
  Proof.
    assert (Hcmp : forall o, cmp_value o lv rv = VOk r -> simple r).
    { intros o'. unfold cmp_value.
      destruct lv, rv; try (intros E; inversion E; exact Logic.I);
        destruct (compare_values _ _); intros E; inversion E; exact Logic.I. }
    assert (Har : forall o, arith_value o lv rv = VOk r -> simple r).
    { intros o'. unfold arith_value.
      destruct (_ && _)%bool; [intros E; inversion E; exact Logic.I|].
      destruct (as_float lv); [|discriminate]. destruct (as_float rv); [|discriminate].
      destruct o'; try (intros E; inversion E; exact Logic.I);
        try (destruct (f_is_zero _); intros E; inversion E; exact Logic.I);
        destruct (Z.eqb _ 0); intros E; inversion E; exact Logic.I. }
    assert (Hrx : forall b, regex_value b lv rv = VOk r -> simple r).
    { intros b. unfold regex_value. destruct rv; try discriminate;
        destruct (Regex.regex_match _ _); intros E; inversion E; exact Logic.I. }
    destruct o; cbn [binop_value]; try discriminate; first [apply Hcmp | apply Har | apply Hrx].
  Qed.

  Lemma np_lift_vres src s r tl top tr :
    state_ok s -> (forall v, r = VOk v -> simple v) ->
    np s (lift_vres src r tl top tr) (fun a s' => in_reg (hp s') a).
  Proof.
    intros HK Hs. unfold lift_vres. destruct r as [v| | | |].
    - apply np_alloc_reg; [assumption|]. apply simple_val. apply Hs. reflexivity.
    - apply np_rt_error; assumption.
    - apply np_rt_error; assumption.
    - apply np_rt_error; assumption.
    - apply np_fail; [assumption|discriminate|discriminate].
  Qed.

  Lemma np_as_float_m s v (R : float -> st -> Prop) :
    state_ok s -> (forall f, R f s) -> np s (as_float_m v) R.
  Proof. intros HK HR. unfold as_float_m. np_triv. apply HR. Qed.

  Lemma np_pretty_m s v (R : bytes -> st -> Prop) :
    state_ok s -> (forall b, R b s) -> np s (pretty_m v) R.
  Proof. intros HK HR. unfold pretty_m. apply np_get_heap. np_triv. apply HR. Qed.

  Lemma np_print_args : forall cells first s,
    state_ok s -> np s (print_args cells first) (fun _ _ => True).
  Proof.
    induction cells as [|c r IH]; intros first s HK; cbn [print_args]; [np_triv|].
    bd (instantiate (1 := fun _ _ => True); destruct first; [np_triv|apply np_emit; assumption]).
    apply np_load.
    bd (apply np_pretty_m with (R := fun _ _ => True); auto).
    bd (apply np_emit; assumption).
    apply IH; assumption.
  Qed.

  (* ------------------------------------------------------------------ natives *)

  Definition nres_ok (r : nres) (s' : st) : Prop :=
    match r with NVal v => val_ok (hp s') v | _ => True end.

  Lemma np_this_value s this :
    state_ok s -> all_opt (in_reg (hp s)) this ->
    np s (this_value this) (fun o s' => s' = s /\ o = match this with Some a => Some (load (hp s) a) | None => None end).
  Proof.
    intros HK Ht. unfold this_value. destruct this as [a|].
    - apply np_load. apply np_ret; auto.
    - apply np_ret; auto.
  Qed.

  Lemma np_alloc_all : forall vs s,
    state_ok s -> Forall (val_ok (hp s)) vs ->
    np s (alloc_all vs) (fun cs s' => Forall (in_reg (hp s')) cs).
  Proof.
    induction vs as [|v r IH]; intros s HK Hv; cbn [alloc_all].
    - apply np_ret; [assumption|constructor].
    - inversion Hv as [|? ? Hv1 Hv2]; subst.
      bd (apply np_alloc_reg; assumption).
      bd (apply IH; assumption).
      apply np_ret; [assumption|]. constructor; assumption.
  Qed.

  Lemma contains_loop_simple h x : forall cs r,
    contains_loop h x cs = Some r -> match r with NVal v => simple v | _ => True end.
  Proof.
    induction cs as [|c cs IH]; intros r H; cbn [contains_loop] in H.
    - inversion H; exact Logic.I.
    - destruct (equals_values x (load h c)) as [[|]| |].
      + inversion H; exact Logic.I.
      + apply IH; exact H.
      + inversion H; exact Logic.I.
      + discriminate.
  Qed.

  Lemma pluck_one_ok s thisv key v :
    state_ok s -> val_ok (hp s) thisv -> pluck_one (hp s) thisv key = Some v -> val_ok (hp s) v.
  Proof.
    intros HK Ht. unfold pluck_one.
    destruct (get_member (hp s) thisv key) as [c|nf|v'| |] eqn:E; try discriminate.
    - intros H; inversion H; subst. apply cell_val; [assumption|].
      eapply get_member_cell; eassumption.
    - destruct thisv; intros H; inversion H; exact Logic.I.
    - intros H; inversion H; subst. eapply get_member_fresh; eassumption.
    - intros H; inversion H; exact Logic.I.
  Qed.

  Lemma np_pluck_loop thisv oid : forall keys s,
    state_ok s -> val_ok (hp s) thisv -> val_ok (hp s) (VObj oid) ->
    np s (pluck_loop thisv oid keys) nres_ok.
  Proof.
    induction keys as [|k r IH]; intros s HK Ht Ho; cbn [pluck_loop].
    - apply np_ret; assumption.
    - apply np_get_heap.
      destruct (pluck_one (hp s) thisv k) as [v|] eqn:E; [|apply np_ret; [assumption|exact Logic.I]].
      bd (apply np_alloc_reg; [assumption|exact (pluck_one_ok _ _ _ _ HK Ht E)]).
      bd (apply np_set_obj; assumption).
      apply IH; assumption.
  Qed.

  Lemma np_native_call s nf args this :
    state_ok s -> Forall (val_ok (hp s)) args -> all_opt (in_reg (hp s)) this ->
    np s (native_call nf args this) nres_ok.
  Proof.
    intros HK Ha Ht. unfold native_call.
    bd (apply np_this_value; assumption) as tv s1 K1 X1 R1.
    destruct R1 as [-> ->]. clear X1 K1. apply np_get_heap.
    assert (Htv : forall a, this = Some a -> val_ok (hp s) (load (hp s) a)).
    { intros a ->. apply cell_val; assumption. }
    destruct nf.
    - (* printf *)
      destruct args as [|[fmt|?|?|? ? ?|?|?|? ?|?|?|] rest]; try (apply np_ret; [assumption|exact Logic.I]).
      destruct (printf_format (hp s) fmt rest).
      + bd (apply np_emit; assumption). apply np_ret; [assumption|exact Logic.I].
      + apply np_ret; [assumption|exact Logic.I].
      + apply np_fail; [assumption|discriminate|discriminate].
    - (* json *)
      np_triv.
    - (* num *)
      np_triv.
    - (* length *)
      np_triv.
    - (* push *)
      destruct this as [pa|]; [|np_triv]. cbn in Ht.
      destruct args as [|x [|y rest]]; try (apply np_ret; [assumption|exact Logic.I]).
      inversion Ha as [|? ? Hx _]; subst.
      bd (apply np_alloc_reg; assumption).
      bd (apply np_append; assumption).
      apply np_load. apply np_ret; [assumption|]. cbn. apply cell_val; assumption.
    - (* pop *)
      destruct this as [pa|]; [|np_triv]. cbn in Ht. specialize (Htv pa eq_refl).
      destruct args as [|y rest]; [|apply np_ret; [assumption|exact Logic.I]].
      destruct (load (hp s) pa) as [x|x|x|bid off [|len']|x|x|? ?|x|x|] eqn:El;
        try (apply np_ret; [assumption|exact Logic.I]).
      assert (Hr : val_ok (hp s) (match nth_error (get_back (hp s) bid) (off + len') with
                                   | Some c => load (hp s) c | None => VNil None end)).
      { destruct (nth_error (get_back (hp s) bid) (off + len')) as [c|] eqn:En; [|exact Logic.I].
        apply cell_val; [assumption|]. eapply window_cell; [exact Htv| |exact En]. lia. }
      bd (apply np_m_store; [assumption|assumption|]).
      { eapply sub_window; [exact Htv|lia|lia]. }
      apply np_ret; assumption.
    - (* popfirst *)
      destruct this as [pa|]; [|np_triv]. cbn in Ht. specialize (Htv pa eq_refl).
      destruct args as [|y rest]; [|apply np_ret; [assumption|exact Logic.I]].
      destruct (load (hp s) pa) as [x|x|x|bid off [|len']|x|x|? ?|x|x|] eqn:El;
        try (apply np_ret; [assumption|exact Logic.I]).
      assert (Hr : val_ok (hp s) (match nth_error (get_back (hp s) bid) off with
                                   | Some c => load (hp s) c | None => VNil None end)).
      { destruct (nth_error (get_back (hp s) bid) off) as [c|] eqn:En; [|exact Logic.I].
        apply cell_val; [assumption|]. eapply (window_cell _ _ _ _ _ _ 0); [exact Htv|lia|].
        rewrite Nat.add_0_r. exact En. }
      bd (apply np_m_store; [assumption|assumption|]).
      { eapply sub_window; [exact Htv|lia|lia]. }
      apply np_ret; assumption.
    - (* contains *)
      destruct this as [pa|]; [|np_triv].
      destruct args as [|x [|y rest]]; try (apply np_ret; [assumption|exact Logic.I]).
      match goal with |- context [contains_loop ?h ?x ?cs] => destruct (contains_loop h x cs) as [r|] eqn:Ec end.
      + apply np_ret; [assumption|]. apply contains_loop_simple in Ec.
        destruct r; cbn; auto. apply simple_val. exact Ec.
      + apply np_fail; [assumption|discriminate|discriminate].
    - (* sort *)
      destruct this as [pa|]; [|np_triv]. cbn in Ht. specialize (Htv pa eq_refl). cbv zeta.
      match goal with |- context [existsb ?f ?l] => destruct (existsb f l) end;
        [apply np_ret; [assumption|exact Logic.I]|].
      set (cs := match load (hp s) pa with VArr bid off len => arr_cells (hp s) bid off len | _ => [] end).
      assert (Hcs : Forall (in_reg (hp s)) cs).
      { unfold cs. destruct (load (hp s) pa); try constructor. exact (proj2 (proj2 Htv)). }
      assert (Hvals : Forall (val_ok (hp s))
                (map (fun x => match copy_value x with Some y => y | None => x end) (map (load (hp s)) cs))).
      { rewrite map_map. apply Forall_map. eapply Forall_impl; [|exact Hcs].
        intros c Hc. pose proof (cell_val s c HK Hc) as Hv.
        destruct (copy_value (load (hp s) c)) eqn:Ecv; [eapply copy_value_ok; eassumption|exact Hv]. }
      match goal with |- context [alloc_all ?l] => assert (Hsorted : Forall (val_ok (hp s)) l) end.
      { destruct (forallb _ _); apply Forall_stable_sort; exact Hvals. }
      bd (apply np_alloc_all; assumption).
      bd (apply np_new_array_of; assumption).
      apply np_ret; assumption.
    - (* object length *)
      np_triv.
    - (* pluck *)
      assert (Htv' : match this with Some a => val_ok (hp s) (load (hp s) a) | None => True end).
      { destruct this; [apply Htv; reflexivity|exact Logic.I]. }
      destruct this as [pa|].
      + bd (apply np_new_empty_object; assumption) as o s1 K1 X1 R1.
        destruct R1 as [Hov [oid ->]]. apply np_pluck_loop; assumption.
      + bd (apply np_new_empty_object; assumption) as o s1 K1 X1 R1.
        destruct R1 as [Hov [oid ->]]. apply np_ret; assumption.
    - (* string length *)
      np_triv.
    - (* split *)
      destruct this as [pa|].
      + destruct (load (hp s) pa) eqn:El;
          try (bd (apply np_new_empty_array; assumption); apply np_ret; assumption).
        destruct args as [|[sep|?|?|? ? ?|?|?|? ?|?|?|] rest]; try (apply np_ret; [assumption|exact Logic.I]).
        bd (apply np_alloc_all; [assumption|]).
        { apply Forall_map. apply Forall_forall. intros ? _. exact Logic.I. }
        bd (apply np_new_array_of; assumption).
        apply np_ret; assumption.
      + bd (apply np_new_empty_array; assumption). apply np_ret; assumption.
    - np_triv.
    - np_triv.
    - np_triv.
    - np_triv.
    - np_triv.
  Qed.

  (* ------------------------------------------------------------------ push ... catch ... pop *)

  Definition body_ok {A} (s2 : st) (body : M (res A)) (R1 : A -> heap -> Prop) : Prop :=
    forall rc s3, body s2 = (rc, s3) ->
      exists r0, rc = Ok r0 /\ state_ok s3 /\ ext s2 s3 /\ r0 <> Panic /\
                 (forall a, r0 = Ok a -> R1 a (hp s3)) /\ length (frames s3) = length (frames s2).

  Lemma state_ok_pushed s name : state_ok s -> state_ok (pushed name s) /\ ext s (pushed name s).
  Proof.
    intros [K F L RR RT RV]. split.
    - constructor; cbn [pushed hp frames rule_root root retval]; auto; [discriminate|].
      constructor; [constructor|exact L].
    - split; [apply hext_refl|auto].
  Qed.

  Lemma np_bracket {A B} s name (onfail : M B) (binds : M unit) (body : M (res A)) (h : res A -> M B)
        (R1 : A -> heap -> Prop) (R : B -> st -> Prop) :
    state_ok s ->
    np s onfail R ->
    (np (pushed name s) binds (fun _ _ => True) /\
     forall rb s2, binds (pushed name s) = (rb, s2) -> length (frames s2) = S (length (frames s))) ->
    (forall s2, state_ok s2 -> ext s s2 -> body_ok s2 body R1) ->
    (forall r0 s4, state_ok s4 -> ext s s4 -> r0 <> Panic -> (forall a, r0 = Ok a -> R1 a (hp s4)) ->
                   np s4 (h r0) R) ->
    np s (let* ok := push_frame name in
          if negb ok then onfail
          else binds ;;; (let* r := body in pop_frame ;;; h r)) R.
  Proof.
    intros HK Hon [Hb Hbl] Hbody Hh r s' H.
    apply bracket_inv in H. destruct H as [[_ H]|[_ (rb & s2 & Hbs & H)]].
    - exact (Hon _ _ H).
    - destruct (state_ok_pushed s name HK) as [Kp Xp].
      destruct (Hb _ _ Hbs) as (K2 & X2 & P2 & _).
      assert (X02 : ext s s2) by exact (ext_trans _ _ _ Xp X2).
      destruct H as [(Hn & Hk & ->) | (Hk & rc & s3 & Hbd & H)].
      + split; [exact K2|split; [exact X02|split]].
        * intros ->. destruct rb; cbn in Hk, Hn; congruence.
        * intros a ->. destruct rb; cbn in Hk, Hn; congruence.
      + destruct (Hbody s2 K2 X02 _ _ Hbd) as (r0 & -> & K3 & X3 & P3 & R3 & L3).
        pose proof (Hbl _ _ Hbs) as L2.
        destruct H as [(Hpp & _ & _) | (s4 & Hpp & Hh4)].
        * exfalso.
          assert (Lf : 1 <= length (frames s)).
          { pose proof (sk_frames _ _ _ HK) as Hf. destruct (frames s); [congruence|cbn; lia]. }
          unfold pop_frame in Hpp. destruct (frames s3) as [|f1 [|f2 rest]]; cbn in L3; try lia.
          discriminate.
        * destruct (pop_frame_cases s3) as [E|(f1 & f2 & rest & Hf & E)]; rewrite E in Hpp; [discriminate|].
          inversion Hpp; subst s4. clear Hpp E.
          match type of Hh4 with h r0 ?st4 = _ => set (s4 := st4) in * end.
          assert (K4 : state_ok s4).
          { destruct K3 as [K F L RR RT RV]. rewrite Hf in L. inversion L; subst.
            constructor; cbn [s4 hp frames rule_root root retval]; auto. discriminate. }
          assert (X34 : ext s3 s4) by (split; [apply hext_refl|auto]).
          assert (X04 : ext s s4) by (eapply ext_trans; [exact X02|eapply ext_trans; eassumption]).
          destruct (Hh r0 s4 K4 X04 P3 R3 _ _ Hh4) as (K5 & X5 & P5 & R5).
          split; [exact K5|split; [eapply ext_trans; eassumption|split; assumption]].
  Qed.

  Lemma body_ok_catch {A} s2 (m : M A) (R1 : A -> heap -> Prop) :
    state_ok s2 -> np s2 m (fun a s' => R1 a (hp s')) -> balanced m -> body_ok s2 (catch m) R1.
  Proof.
    intros K2 Hm [_ Hbal] rc s3 H. unfold catch in H. destruct (m s2) as [r0 s3'] eqn:E.
    inversion H; subst. destruct (Hm _ _ E) as (K3 & X3 & P3 & R3).
    exists r0. split; [reflexivity|split; [exact K3|split; [exact X3|split; [exact P3|split; [exact R3|]]]]].
    apply same_frames_length. apply (Hbal s2 r0 s3 (sk_frames _ _ _ K2) E P3).
  Qed.

  Lemma body_ok_stmt_wrapper s2 (m : M unit) :
    state_ok s2 -> np s2 m (fun _ _ => True) -> balanced m ->
    body_ok s2 (let* r0 := catch m in
                match r0 with
                | Ok _ => let* c := nil_cell in ret (Ok c)
                | Err e0 => ret (Err e0)
                | Sig x => ret (Sig x)
                | Panic => ret Panic
                | Fuel => ret Fuel
                | Unsupp => ret Unsupp
                end) (fun a h => in_reg h a).
  Proof.
    intros K2 Hm [_ Hbal] rc s3 H. unfold bind at 1, catch in H. destruct (m s2) as [r0 s3'] eqn:E.
    destruct (Hm _ _ E) as (K3 & X3 & P3 & _).
    pose proof (same_frames_length _ _ (Hbal s2 r0 s3' (sk_frames _ _ _ K2) E P3)) as L3.
    destruct r0 as [u|e|x| | |]; try congruence;
      try (inversion H; subst; eexists; split; [reflexivity|];
           split; [exact K3|split; [exact X3|split; [discriminate|split; [discriminate|exact L3]]]]).
    unfold bind, nil_cell in H. rewrite m_alloc_eq in H. unfold ret in H. inversion H; subst. clear H.
    destruct (np_m_alloc s3' (VNil None) K3 Logic.I _ _ (m_alloc_eq _ _)) as (K4 & X4 & _ & R4).
    eexists. split; [reflexivity|].
    split; [exact K4|split; [eapply ext_trans; eassumption|split; [discriminate|split]]].
    - intros a Ea. inversion Ea; subst. exact (proj1 (R4 _ eq_refl)).
    - exact L3.
  Qed.

  Lemma set_local_length name a s r s' :
    set_local name a s = (r, s') -> length (frames s') = length (frames s).
  Proof.
    unfold set_local. destruct (frames s) as [|f rest] eqn:E; intros H; inversion H; subst; cbn; rewrite ?E; reflexivity.
  Qed.

  (* ------------------------------------------------------------------ the mutually recursive evaluator *)

  Section Mutual.
    Variable src : bytes.
    Variable funcs : list func.
    Variable fuzzing : bool.
    Hypothesis Hfmax : fmax <= length funcs.
    Hypothesis Hfuncs : Forall (wf_func src) funcs.

    Local Notation wfe := (wf_expr src).
    Local Notation wfs := (wf_stmt src).
    Local Notation Rreg := (fun (a : addr) (s' : st) => in_reg (hp s') a).
    Local Notation Rtrue := (fun _ (s' : st) => True).
    Definition Rbind (r : option (list (bytes * addr))) (s' : st) : Prop :=
      match r with Some b => Forall (fun kv => in_reg (hp s') (snd kv)) b | None => True end.
    Definition wf_case (c : list expr * stmt) : Prop := all_list wfe (fst c) /\ wfs (snd c).

    Record all_np (n : nat) : Prop := {
      p_expr : forall e s, wfe e -> state_ok s -> has_rule_root s ->
          np s (eval_expr src funcs fuzzing n e) Rreg;
      p_match_cases : forall t sub cs s, all_list wf_case cs -> in_reg (hp s) sub -> state_ok s -> has_rule_root s ->
          np s (eval_match_cases src funcs fuzzing n t sub cs) Rreg;
      p_case_match : forall sub ps s, all_list wfe ps -> in_reg (hp s) sub -> state_ok s -> has_rule_root s ->
          np s (eval_case_match src funcs fuzzing n sub ps) Rbind;
      p_call : forall tok fc args s, in_reg (hp s) fc -> Forall (val_ok (hp s)) args -> state_ok s -> has_rule_root s ->
          np s (call_function src funcs fuzzing n tok fc args) Rreg;
      p_unary : forall x op pf s, wfe x -> state_ok s -> has_rule_root s ->
          np s (eval_unary src funcs fuzzing n x op pf) Rreg;
      p_binary : forall l r op s, wfe l -> wfe r -> state_ok s -> has_rule_root s ->
          np s (eval_binary src funcs fuzzing n l r op) Rreg;
      p_expr_list : forall es c s, all_list wfe es -> state_ok s -> has_rule_root s ->
          np s (eval_expr_list src funcs fuzzing n es c) (fun cs s' => Forall (in_reg (hp s')) cs);
      p_stmt : forall st s, wfs st -> state_ok s -> has_rule_root s ->
          np s (eval_stmt src funcs fuzzing n st) Rtrue;
      p_body : forall b s, wfs b -> state_ok s -> has_rule_root s ->
          np s (eval_body src funcs fuzzing n b) Rtrue;
      p_while : forall c b k s, wfe c -> wfs b -> state_ok s -> has_rule_root s ->
          np s (eval_while src funcs fuzzing n c b k) Rtrue;
      p_for : forall c p b k s, wfe c -> wfe p -> wfs b -> state_ok s -> has_rule_root s ->
          np s (eval_for src funcs fuzzing n c p b k) Rtrue;
      p_forin_arr : forall lo ix bid off len i b s,
          in_reg (hp s) lo -> all_opt (in_reg (hp s)) ix -> val_ok (hp s) (VArr bid off len) -> wfs b ->
          state_ok s -> has_rule_root s ->
          np s (eval_forin_arr src funcs fuzzing n lo ix bid off len i b) Rtrue;
      p_forin_obj : forall lo ix oid keys b s,
          in_reg (hp s) lo -> all_opt (in_reg (hp s)) ix -> val_ok (hp s) (VObj oid) -> wfs b ->
          state_ok s -> has_rule_root s ->
          np s (eval_forin_obj src funcs fuzzing n lo ix oid keys b) Rtrue;
      p_forin_str : forall lo ix rs b s,
          in_reg (hp s) lo -> all_opt (in_reg (hp s)) ix -> wfs b -> state_ok s -> has_rule_root s ->
          np s (eval_forin_str src funcs fuzzing n lo ix rs b) Rtrue
    }.

    Lemma all_np_O : all_np 0.
    Proof. constructor; intros; apply np_fail; try assumption; discriminate. Qed.

    Lemma lit_tag_not_other t : lit_tag_ok t -> litk_of (ttag t) <> LOther.
    Proof.
      unfold lit_tag_ok. cbn [In]. intros H.
      repeat (destruct H as [H|H]; [rewrite <- H; discriminate|]). contradiction.
    Qed.

    Ltac fin := first [ apply np_ret; [assumption | try exact Logic.I; try assumption]
                      | apply np_rt_error; assumption
                      | apply np_fail; [assumption | discriminate | discriminate] ].

    (* ---- expressions *)

    Lemma step_expr n (IH : all_np n) e s :
      wfe e -> state_ok s -> has_rule_root s -> np s (eval_expr src funcs fuzzing (S n) e) Rreg.
    Proof.
      intros Hw HK Hrr. rewrite eval_expr_S. destruct e as [t|t|t items|t items|x op pf|l r op|fn args|t v cases].
      - (* literal *)
        destruct Hw as [Ht Hl]. pose proof (lit_tag_not_other t Hl) as Hno.
        destruct (litk_of (ttag t)); try congruence.
        + bd (apply np_tok_string with (R := fun _ _ => True); auto) as str s1 K1 X1 R1.
          destruct (eval_string str); [apply np_alloc_reg; [assumption|exact Logic.I]|fin].
        + bd (apply np_tok_string with (R := fun _ _ => True); auto) as str s1 K1 X1 R1.
          apply np_alloc_reg; [assumption|exact Logic.I].
        + bd (apply np_tok_string with (R := fun _ _ => True); auto) as str s1 K1 X1 R1.
          destruct (parse_float str); try fin. apply np_alloc_reg; [assumption|exact Logic.I].
        + apply np_bool_cell; assumption.
        + apply np_bool_cell; assumption.
        + apply np_nil_cell; assumption.
      - apply np_get_identifier; assumption.
      - (* array literal *)
        destruct Hw as [Ht Hi].
        bd (apply (p_expr_list _ IH); assumption) as cells s1 K1 X1 R1.
        bd (apply np_new_array_of; assumption) as v s2 K2 X2 R2.
        apply np_alloc_reg; assumption.
      - (* object literal *)
        destruct Hw as [Ht Hi].
        bd (apply np_new_empty_object; assumption) as o s1 K1 X1 R1.
        destruct R1 as [Ho [oid ->]].
        bd (instantiate (1 := fun _ _ => True)) as u s2 K2 X2 R2; [|apply np_alloc_reg; assumption].
        clear X1 HK. revert s1 K1 Hrr Ho.
        induction items as [|[k x] items IHi]; intros s1 K1 Hrr Ho; cbv beta iota; [fin|].
        destruct Hi as [Hx Hi]. cbn [snd] in Hx.
        bd (apply (p_expr _ IH); assumption) as vc s2 K2 X2 R2.
        apply np_load.
        destruct (copy_value (load (hp s2) vc)) as [v'|] eqn:Ec; [|fin].
        bd (apply np_alloc_reg; [assumption|eapply copy_value_ok; [apply cell_val; eassumption|exact Ec]]) as c s3 K3 X3 R3.
        bd (apply np_set_obj; assumption) as u s4 K4 X4 R4.
        apply IHi; assumption.
      - destruct Hw as [Hx Hop]. apply (p_unary _ IH); assumption.
      - destruct Hw as (Hl & Hr & Hop). apply (p_binary _ IH); assumption.
      - (* call *)
        destruct Hw as [Hf Ha].
        bd (apply (p_expr _ IH); assumption) as fc s1 K1 X1 R1.
        bd (apply (p_expr_list _ IH); assumption) as cells s2 K2 X2 R2.
        apply np_get_heap. apply (p_call _ IH); try assumption.
        apply Forall_map. eapply Forall_impl; [|exact R2]. intros c Hc. apply cell_val; assumption.
      - (* match *)
        destruct Hw as (Ht & Hv & Hc).
        bd (apply (p_expr _ IH); assumption) as sub s1 K1 X1 R1.
        apply (p_match_cases _ IH); assumption.
    Qed.

    Lemma bindall_np : forall (l : list (bytes * addr)) s,
      state_ok s -> Forall (fun kv => in_reg (hp s) (snd kv)) l ->
      np s ((fix bindall (l : list (bytes * addr)) : M unit :=
               match l with
               | [] => ret tt
               | (k, a) :: r => set_local k a ;;; bindall r
               end) l) (fun _ _ => True) /\
      forall rb s2, (fix bindall (l : list (bytes * addr)) : M unit :=
               match l with
               | [] => ret tt
               | (k, a) :: r => set_local k a ;;; bindall r
               end) l s = (rb, s2) -> length (frames s2) = length (frames s).
    Proof.
      induction l as [|[k a] r IHl]; intros s HK Hl; cbv beta iota.
      - split; [fin|]. intros rb s2 H. inversion H; reflexivity.
      - inversion Hl as [|? ? Ha Hr]; subst. cbn [snd] in Ha. split.
        + bd (apply np_set_local; assumption) as u s1 K1 X1 R1.
          apply IHl; assumption.
        + intros rb s2 H. apply bind_inv in H.
          destruct H as [(u & s1 & H1 & H2) | (r0 & H1 & _ & _)].
          * destruct (np_set_local s k a HK Ha _ _ H1) as (K1 & X1 & _ & _).
            rewrite (proj2 (IHl s1 K1 (ext_Forall_snd _ _ _ X1 Hr)) _ _ H2).
            eapply set_local_length; eassumption.
          * eapply set_local_length; eassumption.
    Qed.

    Lemma step_match_cases n (IH : all_np n) t sub cs s :
      all_list wf_case cs -> in_reg (hp s) sub -> state_ok s -> has_rule_root s ->
      np s (eval_match_cases src funcs fuzzing (S n) t sub cs) Rreg.
    Proof.
      intros Hw Hsub HK Hrr. rewrite eval_match_cases_S.
      destruct cs as [|[pats body] rest]; [apply np_nil_cell; assumption|].
      destruct Hw as [[Hp Hb] Hrest]. cbn [fst snd] in Hp, Hb.
      bd (apply (p_case_match _ IH); assumption) as m s1 K1 X1 R1.
      destruct m as [bindings|]; [|apply (p_match_cases _ IH); assumption].
      cbn [Rbind] in R1.
      eapply (np_bracket s1 _ _ _ _ _ (fun a h => in_reg h a)).
      - assumption.
      - fin.
      - destruct (bindall_np bindings (pushed (bs "<match>") s1)) as [B1 B2];
          [apply state_ok_pushed; assumption|exact R1|].
        split; [exact B1|]. intros rb s2 Hb2. rewrite (B2 _ _ Hb2). reflexivity.
      - intros s2 K2 X2. xfer X2.
        destruct body;
          first [ apply body_ok_catch;
                  [assumption|apply (p_expr _ IH); assumption|apply (ev_expr _ frames_balanced_all)]
                | apply body_ok_stmt_wrapper;
                  [assumption|apply (p_stmt _ IH); assumption|apply (ev_stmt _ frames_balanced_all)] ].
      - intros r0 s4 K4 X4 P4 R4. destruct r0 as [c|e|x| | |]; try congruence;
          try (apply np_reraise; [assumption|discriminate|discriminate]).
        apply np_ret; [assumption|]. apply R4. reflexivity.
    Qed.

    Lemma fold_assoc_set_reg h : forall (nb acc : list (bytes * addr)),
      Forall (fun kv => in_reg h (snd kv)) nb -> Forall (fun kv => in_reg h (snd kv)) acc ->
      Forall (fun kv => in_reg h (snd kv)) (fold_left (fun a kv => assoc_set (fst kv) (snd kv) a) nb acc).
    Proof.
      induction nb as [|[k a] nb IHn]; intros acc Hn Ha; cbn [fold_left]; [exact Ha|].
      inversion Hn as [|? ? H1 H2]; subst. apply IHn; [exact H2|]. cbn [fst snd] in *.
      apply Forall_assoc_set; assumption.
    Qed.

    Lemma step_case_match n (IH : all_np n) sub ps s :
      all_list wfe ps -> in_reg (hp s) sub -> state_ok s -> has_rule_root s ->
      np s (eval_case_match src funcs fuzzing (S n) sub ps) Rbind.
    Proof.
      intros Hw Hsub HK Hrr. rewrite eval_case_match_S.
      destruct ps as [|p rest]; [apply (@np_ret (option (list (bytes * addr)))); [assumption|exact Logic.I]|].
      destruct Hw as [Hp Hrest].
      destruct p as [t|t|t items|t items|x op pf|l r op|fn args|t v cases]; try fin.
      - (* literal pattern *)
        bd (apply (p_expr _ IH); assumption) as cv s1 K1 X1 R1.
        apply np_load. apply np_load.
        destruct (equals_values _ _) as [[|]| |].
        + apply (@np_ret (option (list (bytes * addr)))); [assumption|constructor].
        + apply (p_case_match _ IH); assumption.
        + fin.
        + fin.
      - (* identifier pattern *)
        bd (apply np_tok_string with (R := fun _ _ => True); auto) as name s1 K1 X1 R1.
        apply (@np_ret (option (list (bytes * addr)))); [assumption|].
        cbn. constructor; [assumption|constructor].
      - (* array pattern *)
        destruct Hp as [Ht Hi]. apply np_load.
        pose proof (cell_val s sub HK Hsub) as Hsv.
        destruct (load (hp s) sub) as [y|y|y|bid off len|y|y|? ?|y|y|] eqn:Esv;
          try (apply (p_case_match _ IH); assumption).
        destruct (negb (Nat.eqb len (length items))); [apply (p_case_match _ IH); assumption|].
        apply np_get_heap.
        bd (instantiate (1 := Rbind)) as r s1 K1 X1 R1.
        + destruct Hsv as (_ & _ & Hcs). clear Esv.
          assert (Hacc : Forall (fun kv : bytes * addr => in_reg (hp s) (snd kv)) []) by constructor.
          revert Hcs Hi Hacc HK Hrr. clear Hsub Hrest.
          generalize (@nil (bytes * addr)) as acc. generalize items as qs.
          generalize (arr_cells (hp s) bid off len) as cs. clear items. revert s.
          intros s cs. revert s. induction cs as [|c cs IHc]; intros s qs acc Hcs Hi Hacc HK Hrr; cbv beta iota.
          * apply (@np_ret (option (list (bytes * addr)))); assumption.
          * destruct qs as [|q qs]; [apply (@np_ret (option (list (bytes * addr)))); assumption|].
            inversion Hcs as [|? ? Hc Hcs']; subst. destruct Hi as [Hq Hqs].
            bd (apply (p_case_match _ IH); [split; [exact Hq|exact Logic.I]|assumption|assumption|assumption])
               as m s1 K1 X1 R1.
            destruct m as [nb|]; [|apply (@np_ret (option (list (bytes * addr)))); [assumption|exact Logic.I]].
            cbn [Rbind] in R1. apply IHc; try assumption. apply fold_assoc_set_reg; assumption.
        + destruct r as [b|]; [apply (@np_ret (option (list (bytes * addr)))); assumption|].
          apply (p_case_match _ IH); assumption.
    Qed.

    Lemma bindp_np : forall (ps : list bytes) (avs : list value) s,
      state_ok s -> Forall (val_ok (hp s)) avs ->
      np s (bindp_fix ps avs) (fun _ _ => True) /\
      forall rb s2, bindp_fix ps avs s = (rb, s2) -> length (frames s2) = length (frames s).
    Proof.
      induction ps as [|p ps IHp]; intros avs s HK Ha; unfold bindp_fix; cbv beta iota; fold bindp_fix.
      - split; [fin|]. intros rb s2 H. inversion H; reflexivity.
      - assert (Hone : forall v, val_ok (hp s) v ->
                  np s (let* c := m_alloc v in set_local p c) (fun _ _ => True) /\
                  forall r1 s1, (let* c := m_alloc v in set_local p c) s = (r1, s1) ->
                                length (frames s1) = length (frames s)).
        { intros v Hv. split.
          - bd (apply np_alloc_reg; assumption) as c s1 K1 X1 R1. apply np_set_local; assumption.
          - intros r1 s1 H. unfold bind in H. rewrite m_alloc_eq in H.
            apply set_local_length in H. exact H. }
        destruct avs as [|v avs'].
        + destruct (Hone (VNil None) Logic.I) as [O1 O2]. split.
          * bd (exact O1) as u s1 K1 X1 R1. apply IHp; [assumption|constructor].
          * intros rb s2 H. apply bind_inv in H.
            destruct H as [(u & s1 & H1 & H2) | (r0 & H1 & _ & _)]; [|eapply O2; exact H1].
            destruct (O1 _ _ H1) as (K1 & X1 & _ & _).
            rewrite (proj2 (IHp [] s1 K1 (Forall_nil _)) _ _ H2). eapply O2; exact H1.
        + inversion Ha as [|? ? Hv Ha']; subst.
          destruct (Hone v Hv) as [O1 O2]. split.
          * bd (exact O1) as u s1 K1 X1 R1. apply IHp; assumption.
          * intros rb s2 H. apply bind_inv in H.
            destruct H as [(u & s1 & H1 & H2) | (r0 & H1 & _ & _)]; [|eapply O2; exact H1].
            destruct (O1 _ _ H1) as (K1 & X1 & _ & _).
            rewrite (proj2 (IHp avs' s1 K1 (ext_Forall_val _ _ _ X1 Ha')) _ _ H2). eapply O2; exact H1.
    Qed.

    Lemma step_call n (IH : all_np n) tok fc args s :
      in_reg (hp s) fc -> Forall (val_ok (hp s)) args -> state_ok s -> has_rule_root s ->
      np s (call_function src funcs fuzzing (S n) tok fc args) Rreg.
    Proof.
      intros Hfc Ha HK Hrr. rewrite call_function_S. apply np_load.
      pose proof (cell_val s fc HK Hfc) as Hfv.
      destruct (load (hp s) fc) as [y|y|y|? ? ?|y|y|nf bd|idx|y|] eqn:Efv; try fin.
      - (* native *)
        bd (apply np_native_call; [assumption|assumption|destruct bd; [exact Hfv|exact Logic.I]]) as r s1 K1 X1 R1.
        destruct r as [v| |]; [apply np_alloc_reg; assumption|apply np_nil_cell; assumption|fin].
      - (* function of the program *)
        cbn in Hfv. destruct (nth_error funcs idx) as [fn|] eqn:Efn;
          [|apply nth_error_None in Efn; lia].
        assert (Hfn : wf_func src fn).
        { rewrite Forall_forall in Hfuncs. apply Hfuncs. eapply nth_error_In; eassumption. }
        destruct Hfn as [Hid Hbody].
        bd (apply np_tok_string with (R := fun _ _ => True); auto) as name s1 K1 X1 R1.
        eapply (np_bracket s1 _ _ _ _ _ (fun (a : unit) h => True)).
        + assumption.
        + fin.
        + destruct (bindp_np (fparams fn) args (pushed name s1)) as [B1 B2];
            [apply state_ok_pushed; assumption|exact Ha|].
          split; [exact B1|]. intros rb s2 Hb2. rewrite (B2 _ _ Hb2). reflexivity.
        + intros s2 K2 X2. xfer X2.
          apply body_ok_catch;
            [assumption
            |eapply np_conseq; [apply (p_stmt _ IH); assumption|intros; exact Logic.I]
            |apply (ev_stmt _ frames_balanced_all)].
        + intros r0 s4 K4 X4 P4 R4.
          destruct r0 as [u|e|x| | |]; try congruence;
            try (apply np_reraise; [assumption|discriminate|discriminate]).
          * apply np_nil_cell; assumption.
          * destruct x; try (apply np_reraise; [assumption|discriminate|discriminate]).
            apply np_get_st.
            pose proof (sk_retval _ _ _ K4) as Hrv.
            destruct (retval s4) as [rc|]; [|apply np_nil_cell; assumption].
            cbn in Hrv. apply np_load. apply np_alloc_reg; [assumption|apply cell_val; assumption].
    Qed.

    Lemma step_unary n (IH : all_np n) x op pf s :
      wfe x -> state_ok s -> has_rule_root s -> np s (eval_unary src funcs fuzzing (S n) x op pf) Rreg.
    Proof.
      intros Hx HK Hrr. rewrite eval_unary_S.
      bd (apply (p_expr _ IH); assumption) as vc s1 K1 X1 R1.
      apply np_load. cbv zeta.
      assert (Hinc : forall up : bool,
                 np s1 (let* old := as_float_m (load (hp s1) vc) in
                        let newv := if up then f_add old f_one else f_sub old f_one in
                        let* nc := m_alloc (VNum newv) in
                        let* stored := eval_assignment src n op vc nc in
                        if pf then m_alloc (VNum old)
                        else let* sv := m_load stored in m_alloc sv) (fun a s' => in_reg (hp s') a)).
      { intros up.
        bd (apply np_as_float_m with (R := fun _ _ => True); auto) as old s2 K2 X2 R2. cbv zeta.
        bd (apply np_alloc_reg; [assumption|exact Logic.I]) as nc s3 K3 X3 R3.
        bd (apply np_eval_assignment; assumption) as stored s4 K4 X4 R4.
        destruct pf; [apply np_alloc_reg; [assumption|exact Logic.I]|].
        apply np_load. apply np_alloc_reg; [assumption|apply cell_val; assumption]. }
      destruct (uop_of (ttag op)) eqn:Eu;
        try (apply np_lift_vres; [assumption|intros v Ev; eapply unop_simple; exact Ev]).
      - exact (Hinc true).
      - exact (Hinc false).
      - fin.
    Qed.

    Lemma step_binary n (IH : all_np n) l r op s :
      wfe l -> wfe r -> state_ok s -> has_rule_root s ->
      np s (eval_binary src funcs fuzzing (S n) l r op) Rreg.
    Proof.
      intros Hl Hr HK Hrr. rewrite eval_binary_S.
      bd (apply (p_expr _ IH); assumption) as lc s1 K1 X1 R1.
      apply np_load. cbv zeta.
      (* the operators that evaluate the right operand first *)
      assert (Hright : forall k : addr -> value -> value -> M addr,
                 (forall rc s2, state_ok s2 -> has_rule_root s2 -> in_reg (hp s2) lc -> in_reg (hp s2) rc ->
                                np s2 (k rc (load (hp s2) lc) (load (hp s2) rc)) (fun a s' => in_reg (hp s') a)) ->
                 np s1 (let* rc := eval_expr src funcs fuzzing n r in
                        let* rv := m_load rc in
                        let* lv2 := m_load lc in
                        k rc lv2 rv) (fun a s' => in_reg (hp s') a)).
      { intros k Hk.
        bd (apply (p_expr _ IH); assumption) as rc s2 K2 X2 R2.
        apply np_load. apply np_load. apply Hk; assumption. }
      assert (Hval : forall o,
                 np s1 (let* rc := eval_expr src funcs fuzzing n r in
                        let* rv := m_load rc in
                        let* lv2 := m_load lc in
                        lift_vres src (binop_value o lv2 rv) (expr_token l) op (expr_token r))
                    (fun a s' => in_reg (hp s') a)).
      { intros o. apply Hright. intros rc s2 K2 Hrr2 Hlc Hrc.
        apply np_lift_vres; [assumption|]. intros v Ev. eapply binop_simple; exact Ev. }
      assert (Htruthy : np s1 (let* rc := eval_expr src funcs fuzzing n r in
                               let* rv := m_load rc in bool_cell (is_truthy rv))
                           (fun a s' => in_reg (hp s') a)).
      { bd (apply (p_expr _ IH); assumption) as rc s2 K2 X2 R2.
        apply np_load. apply np_bool_cell; assumption. }
      destruct (bop_of (ttag op)) eqn:Eo; try (apply Hval).
      - destruct (is_truthy _); [exact Htruthy|apply np_bool_cell; assumption].
      - destruct (is_truthy _); [apply np_bool_cell; assumption|exact Htruthy].
      - (* is *)
        destruct r as [t|t|t items|t items|x op' pf|l' r' op'|fn args|t v cases]; try fin.
        destruct (isk_of (ttag t)); try (apply np_bool_cell; assumption).
        bd (apply np_tok_string with (R := fun _ _ => True); auto) as name s2 K2 X2 R2.
        apply np_bool_cell; assumption.
      - (* member *)
        apply Hright. intros rc s2 K2 Hrr2 Hlc Hrc.
        pose proof (cell_val s2 lc K2 Hlc) as Hlv.
        bd (instantiate (1 := fun lv' s' => val_ok (hp s') lv')) as lv' s3 K3 X3 R3.
        + destruct (load (hp s2) lc) eqn:Elv; try (apply np_ret; assumption).
          bd (instantiate (1 := fun nv s' => val_ok (hp s') nv);
              destruct (load (hp s2) rc);
              first [ apply np_new_empty_array; assumption
                    | eapply np_conseq; [apply np_new_empty_object; assumption|intros ? ? ? ? [Hv _]; exact Hv] ])
             as nv s3 K3 X3 R3.
          bd (apply np_m_store; assumption) as u s4 K4 X4 R4.
          apply np_ret; assumption.
        + apply np_get_heap.
          destruct (get_member (hp s3) lv' (load (hp s2) rc)) as [c|nf|v| |] eqn:Egm.
          * pose proof (get_member_cell base fmax _ _ _ _ R3 Egm) as Hc.
            apply np_load.
            destruct (load (hp s3) c); try (apply np_ret; assumption).
            apply np_alloc_reg; [assumption|exact Hlc].
          * apply np_alloc_reg; [assumption|exact Hlc].
          * apply np_alloc_reg; [assumption|eapply get_member_fresh; exact Egm].
          * apply np_alloc_reg; [assumption|exact Hlc].
          * fin.
      - (* assignment *)
        apply Hright. intros rc s2 K2 Hrr2 Hlc Hrc. apply np_eval_assignment; assumption.
      - apply Hright. intros rc s2 K2 Hrr2 Hlc Hrc. fin.
    Qed.

    Lemma step_expr_list n (IH : all_np n) es c s :
      all_list wfe es -> state_ok s -> has_rule_root s ->
      np s (eval_expr_list src funcs fuzzing (S n) es c) (fun cs s' => Forall (in_reg (hp s')) cs).
    Proof.
      intros Hw HK Hrr. rewrite eval_expr_list_S.
      destruct es as [|x rest]; [apply np_ret; [assumption|constructor]|].
      destruct Hw as [Hx Hrest].
      bd (apply (p_expr _ IH); assumption) as c0 s1 K1 X1 R1.
      bd (instantiate (1 := fun a s' => in_reg (hp s') a)) as c' s2 K2 X2 R2.
      - destruct c; [|apply np_ret; assumption].
        apply np_load. destruct (copy_value (load (hp s1) c0)) as [v'|] eqn:Ec; [|fin].
        apply np_alloc_reg; [assumption|]. eapply copy_value_ok; [apply cell_val; eassumption|exact Ec].
      - bd (apply (p_expr_list _ IH); assumption) as cs s3 K3 X3 R3.
        apply np_ret; [assumption|]. constructor; assumption.
    Qed.

    (* ---- statements *)

    Lemma step_stmt n (IH : all_np n) st s :
      wfs st -> state_ok s -> has_rule_root s -> np s (eval_stmt src funcs fuzzing (S n) st) Rtrue.
    Proof.
      intros Hw HK Hrr. rewrite eval_stmt_S.
      destruct st as [t body|t args|x|[x|]|t|t|t|t|c body els|c body|pre c post body|id ix iter body].
      - (* block *)
        destruct Hw as [Ht Hb]. clear Ht. revert s HK Hrr.
        induction body as [|x r IHr]; intros s HK Hrr; cbv beta iota; [fin|].
        destruct Hb as [Hx Hb].
        bd (apply (p_stmt _ IH); assumption) as u s1 K1 X1 R1. apply IHr; assumption.
      - (* print *)
        destruct Hw as [Ht Ha].
        bd (apply (p_expr_list _ IH); assumption) as cells s1 K1 X1 R1.
        destruct cells as [|c cells].
        + apply np_get_st.
          pose proof (sk_rule_root _ _ _ K1) as Hroot.
          destruct (rule_root s1) as [a|] eqn:Er; [|exfalso; apply Hrr; exact Er].
          cbn in Hroot. apply np_load.
          bd (apply np_pretty_m with (R := fun _ _ => True); auto) as p s2 K2 X2 R2.
          apply np_emit; assumption.
        + bd (apply np_print_args; assumption) as u s2 K2 X2 R2. apply np_emit; assumption.
      - bd (apply (p_expr _ IH); assumption) as c s1 K1 X1 R1. fin.
      - bd (apply (p_expr _ IH); assumption) as c s1 K1 X1 R1.
        bd (apply np_set_retval; [assumption|exact R1]) as u s2 K2 X2 R2. fin.
      - bd (apply np_set_retval; [assumption|exact Logic.I]) as u s2 K2 X2 R2. fin.
      - bd (apply np_note_signal; assumption) as u s2 K2 X2 R2. fin.
      - bd (apply np_note_signal; assumption) as u s2 K2 X2 R2. fin.
      - bd (apply np_note_signal; assumption) as u s2 K2 X2 R2. fin.
      - fin.
      - (* if *)
        destruct els as [e|].
        + destruct Hw as (Hc & Hb & He).
          bd (apply (p_expr _ IH); assumption) as cc s1 K1 X1 R1. apply np_load.
          destruct (is_truthy _); apply (p_stmt _ IH); assumption.
        + destruct Hw as (Hc & Hb).
          bd (apply (p_expr _ IH); assumption) as cc s1 K1 X1 R1. apply np_load.
          destruct (is_truthy _); [apply (p_stmt _ IH); assumption|fin].
      - destruct Hw as (Hc & Hb). apply (p_while _ IH); assumption.
      - destruct Hw as (Hp & Hc & Hpo & Hb).
        bd (apply (p_expr _ IH); assumption) as c0 s1 K1 X1 R1. apply (p_for _ IH); assumption.
      - (* for in *)
        destruct Hw as (Hid & Hix & Hit & Hb).
        bd (apply np_tok_string with (R := fun _ _ => True); auto) as name s1 K1 X1 R1.
        bd (apply np_get_variable; assumption) as lo s2 K2 X2 R2.
        destruct lo as [local|]; [|fin]. cbn in R2.
        bd (instantiate (1 := fun o s' => all_opt (in_reg (hp s')) o)) as ixlocal s3 K3 X3 R3.
        + destruct ix as [t|]; [|apply (@np_ret (option addr)); [assumption|exact Logic.I]].
          cbn in Hix.
          bd (apply np_tok_string with (R := fun _ _ => True); auto) as iname s3 K3 X3 R3.
          bd (apply np_get_variable; assumption) as r s4 K4 X4 R4.
          destruct r as [a|]; [apply (@np_ret (option addr)); assumption|fin].
        + bd (apply (p_expr _ IH); assumption) as ic s4 K4 X4 R4.
          apply np_load. pose proof (cell_val s4 ic K4 R4) as Hiv.
          destruct (load (hp s4) ic) eqn:Eiv; try fin.
          * apply (p_forin_str _ IH); assumption.
          * apply (p_forin_arr _ IH); assumption.
          * apply np_get_heap. apply (p_forin_obj _ IH); assumption.
    Qed.

    Lemma step_body n (IH : all_np n) b s :
      wfs b -> state_ok s -> has_rule_root s -> np s (eval_body src funcs fuzzing (S n) b) Rtrue.
    Proof.
      intros Hb HK Hrr. rewrite eval_body_S.
      eapply np_catch; [apply (p_stmt _ IH); assumption|].
      intros r0 s1 K1 X1 P1 R1.
      destruct r0 as [u|e|x| | |]; try congruence;
        try (apply np_reraise; [assumption|discriminate|discriminate]); try fin.
      destruct x; try (apply np_reraise; [assumption|discriminate|discriminate]); fin.
    Qed.

    Lemma step_while n (IH : all_np n) c b k s :
      wfe c -> wfs b -> state_ok s -> has_rule_root s ->
      np s (eval_while src funcs fuzzing (S n) c b k) Rtrue.
    Proof.
      intros Hc Hb HK Hrr. rewrite eval_while_S.
      bd (apply (p_expr _ IH); assumption) as cc s1 K1 X1 R1. apply np_load.
      destruct (is_truthy _); [|fin].
      bd (apply (p_body _ IH); assumption) as go s2 K2 X2 R2.
      destruct go; [|fin]. destruct (_ && _)%bool; [fin|]. apply (p_while _ IH); assumption.
    Qed.

    Lemma step_for n (IH : all_np n) c p b k s :
      wfe c -> wfe p -> wfs b -> state_ok s -> has_rule_root s ->
      np s (eval_for src funcs fuzzing (S n) c p b k) Rtrue.
    Proof.
      intros Hc Hp Hb HK Hrr. rewrite eval_for_S.
      bd (apply (p_expr _ IH); assumption) as cc s1 K1 X1 R1. apply np_load.
      destruct (is_truthy _); [|fin].
      bd (apply (p_body _ IH); assumption) as go s2 K2 X2 R2.
      destruct go; [|fin].
      bd (apply (p_expr _ IH); assumption) as pc s3 K3 X3 R3.
      destruct (_ && _)%bool; [fin|]. apply (p_for _ IH); assumption.
    Qed.

    Lemma np_load0 s a :
      state_ok s -> in_reg (hp s) a -> np s (m_load a) (fun v s' => val_ok (hp s') v).
    Proof.
      intros HK Ha. eapply np_eq with (m' := ret (load (hp s) a)); [reflexivity|].
      apply np_ret; [assumption|apply cell_val; assumption].
    Qed.

    Lemma np_ix_store s (ix : option addr) v :
      state_ok s -> all_opt (in_reg (hp s)) ix -> val_ok (hp s) v ->
      np s (match ix with Some a => m_store a v | None => ret tt end) (fun _ _ => True).
    Proof.
      intros HK Hix Hv. destruct ix as [a|]; [apply np_m_store; assumption|apply np_ret; auto].
    Qed.

    Lemma step_forin_arr n (IH : all_np n) lo ix bid off len i b s :
      in_reg (hp s) lo -> all_opt (in_reg (hp s)) ix -> val_ok (hp s) (VArr bid off len) -> wfs b ->
      state_ok s -> has_rule_root s ->
      np s (eval_forin_arr src funcs fuzzing (S n) lo ix bid off len i b) Rtrue.
    Proof.
      intros Hlo Hix Harr Hb HK Hrr. rewrite eval_forin_arr_S.
      destruct (Nat.leb len i) eqn:Eli; [fin|]. apply Nat.leb_gt in Eli.
      apply np_get_heap. cbv zeta.
      assert (Hitem : all_opt (in_reg (hp s)) (nth_error (get_back (hp s) bid) (off + i))).
      { destruct (nth_error (get_back (hp s) bid) (off + i)) as [c|] eqn:En; [|exact Logic.I].
        cbn. eapply window_cell; [exact Harr|exact Eli|exact En]. }
      bd (apply np_ix_store; [assumption|assumption|exact Logic.I]) as u s1 K1 X1 R1.
      bd (instantiate (1 := fun v s' => val_ok (hp s') v)) as item s2 K2 X2 R2.
      - destruct (nth_error (get_back (hp s) bid) (off + i)) as [c|].
        + apply np_load0; assumption.
        + apply np_ret; [assumption|exact Logic.I].
      - bd (apply np_m_store; assumption) as u2 s3 K3 X3 R3.
        bd (apply (p_body _ IH); assumption) as go s4 K4 X4 R4.
        destruct go; [|fin]. apply (p_forin_arr _ IH); assumption.
    Qed.

    Lemma step_forin_obj n (IH : all_np n) lo ix oid keys b s :
      in_reg (hp s) lo -> all_opt (in_reg (hp s)) ix -> val_ok (hp s) (VObj oid) -> wfs b ->
      state_ok s -> has_rule_root s ->
      np s (eval_forin_obj src funcs fuzzing (S n) lo ix oid keys b) Rtrue.
    Proof.
      intros Hlo Hix Hobj Hb HK Hrr. rewrite eval_forin_obj_S.
      destruct keys as [|k rest]; [fin|]. apply np_get_heap. cbv zeta.
      assert (Hv : val_ok (hp s) (match assoc_get k (get_obj (hp s) oid) with
                                   | Some c => load (hp s) c | None => VNil None end)).
      { destruct (assoc_get k (get_obj (hp s) oid)) as [c|] eqn:Eg; [|exact Logic.I].
        apply cell_val; [assumption|]. exact (Forall_assoc_get _ _ _ _ (proj2 Hobj) Eg). }
      bd (apply np_ix_store; assumption) as u s1 K1 X1 R1.
      bd (apply np_m_store; [assumption|assumption|exact Logic.I]) as u2 s2 K2 X2 R2.
      bd (apply (p_body _ IH); assumption) as go s3 K3 X3 R3.
      destruct go; [|fin]. apply (p_forin_obj _ IH); assumption.
    Qed.

    Lemma step_forin_str n (IH : all_np n) lo ix rs b s :
      in_reg (hp s) lo -> all_opt (in_reg (hp s)) ix -> wfs b -> state_ok s -> has_rule_root s ->
      np s (eval_forin_str src funcs fuzzing (S n) lo ix rs b) Rtrue.
    Proof.
      intros Hlo Hix Hb HK Hrr. rewrite eval_forin_str_S.
      destruct rs as [|[i c] rest]; [fin|].
      bd (apply np_ix_store; [assumption|assumption|exact Logic.I]) as u s1 K1 X1 R1.
      bd (apply np_m_store; [assumption|assumption|exact Logic.I]) as u2 s2 K2 X2 R2.
      bd (apply (p_body _ IH); assumption) as go s3 K3 X3 R3.
      destruct go; [|fin]. apply (p_forin_str _ IH); assumption.
    Qed.

    (* the one induction on fuel *)
    Theorem all_np_n : forall n, all_np n.
    Proof.
      induction n as [|n IH]; [apply all_np_O|].
      constructor; intros.
      - apply step_expr; assumption.
      - apply step_match_cases; assumption.
      - apply step_case_match; assumption.
      - apply step_call; assumption.
      - apply step_unary; assumption.
      - apply step_binary; assumption.
      - apply step_expr_list; assumption.
      - apply step_stmt; assumption.
      - apply step_body; assumption.
      - apply step_while; assumption.
      - apply step_for; assumption.
      - apply step_forin_arr; assumption.
      - apply step_forin_obj; assumption.
      - apply step_forin_str; assumption.
    Qed.
  End Mutual.
End NP.
