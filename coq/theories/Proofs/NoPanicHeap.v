(* Proofs/NoPanicHeap.v -- C01: the heap part.  Every heap operation of the evaluator keeps
   [heap_ok] and extends the heap in the sense of [hext] (Spec/WfState.v). *)
From Coq Require Import List ZArith PArith Lia ZifyN ZifyNat ZifyBool FMapPositive.
From JQ Require Import Base.Bytes Num.F64 Syntax.Token Syntax.Lexer Syntax.Ast Json.JValue.
From JQ Require Import Oracle.Utf8 Oracle.Slice.
From JQ Require Import Gen.Generated Sem.Value Sem.Natives Sem.Eval.
From JQ Require Import Spec.TokSpans Spec.WfState.
Import ListNotations.
Open Scope nat_scope.

(* ------------------------------------------------------------------ lists *)

Lemma nth_error_skipn {A} : forall o (l : list A) i, nth_error (skipn o l) i = nth_error l (o + i).
Proof.
  induction o as [|o IH]; intros l i; [reflexivity|].
  destruct l as [|x l]; [destruct i; reflexivity|]. cbn [skipn]. rewrite IH. reflexivity.
Qed.

Lemma Forall_firstn_nth {A} (P : A -> Prop) : forall n l,
  Forall P (firstn n l) <-> (forall i x, i < n -> nth_error l i = Some x -> P x).
Proof.
  induction n as [|n IH]; intros l.
  - cbn [firstn]. split; [intros _ i x Hi; lia|constructor].
  - destruct l as [|y l]; cbn [firstn].
    + split; [intros _ i x _ Hx; destruct i; discriminate|constructor].
    + split.
      * intros H i x Hi Hx. inversion H as [|? ? Hy Hr]; subst.
        destruct i as [|i]; [cbn in Hx; congruence|].
        cbn in Hx. eapply (proj1 (IH l)); [exact Hr| |exact Hx]. lia.
      * intros H. constructor.
        -- apply (H 0 y); [lia|reflexivity].
        -- apply IH. intros i x Hi Hx. apply (H (S i) x); [lia|exact Hx].
Qed.

Lemma Forall_window {A} (P : A -> Prop) l o n :
  Forall P (firstn n (skipn o l)) <-> (forall i x, i < n -> nth_error l (o + i) = Some x -> P x).
Proof.
  rewrite Forall_firstn_nth. split; intros H i x Hi Hx.
  - apply (H i x Hi). rewrite nth_error_skipn. exact Hx.
  - apply (H i x Hi). rewrite <- nth_error_skipn. exact Hx.
Qed.

Lemma list_set_length {A} : forall (l : list A) i x, length (list_set l i x) = length l.
Proof.
  induction l as [|y l IH]; intros i x; [reflexivity|].
  destruct i as [|i]; cbn [list_set length]; [reflexivity|]. rewrite IH. reflexivity.
Qed.

Lemma nth_error_list_set {A} : forall (l : list A) i x j,
  nth_error (list_set l i x) j =
  if Nat.eqb j i then (if Nat.ltb i (length l) then Some x else None) else nth_error l j.
Proof.
  induction l as [|y l IH]; intros i x j.
  - cbn [list_set length]. destruct (Nat.eqb j i); [|reflexivity].
    destruct j; reflexivity.
  - destruct i as [|i]; cbn [list_set].
    + destruct j as [|j]; reflexivity.
    + destruct j as [|j]; [reflexivity|]. cbn [nth_error]. rewrite IH.
      cbn [length]. change (Nat.eqb (S j) (S i)) with (Nat.eqb j i).
      change (Nat.ltb (S i) (S (length l))) with (Nat.ltb i (length l)). reflexivity.
Qed.

Lemma firstn_length_le' {A} (l : list A) n : n <= length l -> length (firstn n l) = n.
Proof. intros H. rewrite firstn_length. lia. Qed.

Lemma window_length {A} (l : list A) o n : o + n <= length l -> length (firstn n (skipn o l)) = n.
Proof. intros H. apply firstn_length_le'. rewrite skipn_length. lia. Qed.

Lemma Forall_assoc_set {A} (P : A -> Prop) k v : forall l,
  P v -> Forall (fun kv => P (snd kv)) l -> Forall (fun kv : bytes * A => P (snd kv)) (assoc_set k v l).
Proof.
  induction l as [|[k' v'] r IH]; intros Hv Hl; cbn [assoc_set].
  - constructor; [exact Hv|constructor].
  - inversion Hl as [|? ? Hh Hr]; subst.
    destruct (bytes_cmp k k').
    + constructor; [exact Hv|exact Hr].
    + constructor; [exact Hv|exact Hl].
    + constructor; [exact Hh|apply IH; assumption].
Qed.

Lemma Forall_assoc_get {A} (P : A -> Prop) k : forall l v,
  Forall (fun kv : bytes * A => P (snd kv)) l -> assoc_get k l = Some v -> P v.
Proof.
  induction l as [|[k' v'] r IH]; intros v Hl H; cbn [assoc_get] in H; [discriminate|].
  inversion Hl as [|? ? Hh Hr]; subst.
  destruct (bytes_eqb k k'); [inversion H; subst; exact Hh|eauto].
Qed.

(* ------------------------------------------------------------------ the heap maps *)

Lemma load_store h a v a' : load (store h a v) a' = if Pos.eqb a' a then v else load h a'.
Proof.
  unfold load, store. cbn [cells].
  destruct (Pos.eqb_spec a' a) as [->|Hn].
  - rewrite PM.gss. reflexivity.
  - rewrite PM.gso by exact Hn. reflexivity.
Qed.

Lemma load_alloc h v a' : load (snd (alloc h v)) a' = if Pos.eqb a' (next h) then v else load h a'.
Proof.
  unfold load, alloc. cbn [snd cells].
  destruct (Pos.eqb_spec a' (next h)) as [->|Hn].
  - rewrite PM.gss. reflexivity.
  - rewrite PM.gso by exact Hn. reflexivity.
Qed.

Lemma get_back_set_back h b l b' :
  get_back (set_back h b l) b' = if Pos.eqb b' b then l else get_back h b'.
Proof.
  unfold get_back, set_back. cbn [backs].
  destruct (Pos.eqb_spec b' b) as [->|Hn].
  - rewrite PM.gss. reflexivity.
  - rewrite PM.gso by exact Hn. reflexivity.
Qed.

Lemma get_back_new_back h l b' :
  get_back (snd (new_back h l)) b' = if Pos.eqb b' (next h) then l else get_back h b'.
Proof.
  unfold get_back, new_back. cbn [snd backs].
  destruct (Pos.eqb_spec b' (next h)) as [->|Hn].
  - rewrite PM.gss. reflexivity.
  - rewrite PM.gso by exact Hn. reflexivity.
Qed.

Lemma get_obj_set_obj h o l o' :
  get_obj (set_obj h o l) o' = if Pos.eqb o' o then l else get_obj h o'.
Proof.
  unfold get_obj, set_obj. cbn [objs].
  destruct (Pos.eqb_spec o' o) as [->|Hn].
  - rewrite PM.gss. reflexivity.
  - rewrite PM.gso by exact Hn. reflexivity.
Qed.

Lemma get_obj_new_obj h l o' :
  get_obj (snd (new_obj h l)) o' = if Pos.eqb o' (next h) then l else get_obj h o'.
Proof.
  unfold get_obj, new_obj. cbn [snd objs].
  destruct (Pos.eqb_spec o' (next h)) as [->|Hn].
  - rewrite PM.gss. reflexivity.
  - rewrite PM.gso by exact Hn. reflexivity.
Qed.

Section Heap.
  Variable base : positive.
  Variable fmax : nat.
  Local Notation in_reg := (in_reg base).
  Local Notation val_ok := (val_ok base fmax).
  Local Notation heap_ok := (heap_ok base fmax).
  Local Notation hext := (hext base fmax).
  Local Notation frame_below := (frame_below base).

  Lemma in_reg_mono h h' a : (next h <= next h')%positive -> in_reg h a -> in_reg h' a.
  Proof. unfold WfState.in_reg. intros Hn [H1 H2]. split; lia. Qed.

  Lemma frame_refl h : frame_below h h.
  Proof. repeat split; auto. Qed.

  Lemma hext_refl h : hext h h.
  Proof. split; [lia|split; [auto|apply frame_refl]]. Qed.

  Lemma hext_trans h1 h2 h3 : hext h1 h2 -> hext h2 h3 -> hext h1 h3.
  Proof.
    intros (N1 & V1 & A1 & B1 & O1) (N2 & V2 & A2 & B2 & O2).
    split; [lia|split; [auto|]].
    repeat split; intros x Hx; [rewrite A2, A1|rewrite B2, B1|rewrite O2, O1]; auto.
  Qed.

  Lemma hext_in_reg h h' a : hext h h' -> in_reg h a -> in_reg h' a.
  Proof. intros [Hn _]. apply in_reg_mono. exact Hn. Qed.

  Lemma hext_val h h' v : hext h h' -> val_ok h v -> val_ok h' v.
  Proof. intros (_ & H & _). apply H. Qed.

  (* a heap that differs only in cells and in [next] *)
  Lemma val_ok_congr h h' v :
    (forall b, get_back h' b = get_back h b) -> (forall o, get_obj h' o = get_obj h o) ->
    (next h <= next h')%positive -> val_ok h v -> val_ok h' v.
  Proof.
    intros Hb Ho Hn. destruct v as [s|b|f|bid off len|oid|[[p k]|]|nf [a|]|idx|s|]; cbn [WfState.val_ok]; auto.
    - unfold arr_cells. rewrite Hb. intros (H0 & H1 & H2).
      split; [eapply in_reg_mono; eassumption|split; [exact H1|]].
      eapply Forall_impl; [|exact H2]. intros a. apply in_reg_mono. exact Hn.
    - rewrite Ho. intros [H0 H1]. split; [eapply in_reg_mono; eassumption|].
      eapply Forall_impl; [|exact H1]. intros kv. apply in_reg_mono. exact Hn.
    - apply in_reg_mono. exact Hn.
    - apply in_reg_mono. exact Hn.
  Qed.

  Lemma hext_congr h h' :
    (forall b, get_back h' b = get_back h b) -> (forall o, get_obj h' o = get_obj h o) ->
    (forall a, (a < base)%positive -> load h' a = load h a) ->
    (next h <= next h')%positive -> hext h h'.
  Proof.
    intros Hb Ho Ha Hn. split; [exact Hn|split].
    - intros v. apply val_ok_congr; assumption.
    - repeat split; auto.
  Qed.

  (* ---------------------------------------------------------------- cells *)

  Lemma store_ok h a v :
    heap_ok h -> in_reg h a -> val_ok h v -> heap_ok (store h a v) /\ hext h (store h a v).
  Proof.
    intros HK [Ha1 Ha2] Hv.
    assert (HX : hext h (store h a v)).
    { apply hext_congr; intros; try reflexivity; try (cbn; lia).
      rewrite load_store. destruct (Pos.eqb_spec a0 a); [lia|reflexivity]. }
    split; [|exact HX]. constructor.
    - intros a' Ha'. rewrite load_store. destruct (Pos.eqb a' a).
      + apply (hext_val _ _ _ HX). exact Hv.
      + apply (hext_val _ _ _ HX). apply (hk_cells _ _ _ HK). exact Ha'.
    - intros a' Ha'. cbn in Ha'. rewrite load_store.
      destruct (Pos.eqb_spec a' a) as [->|Hne]; [lia|]. apply (hk_unalloc _ _ _ HK). exact Ha'.
    - exact (hk_next _ _ _ HK).
  Qed.

  Lemma alloc_ok h v :
    heap_ok h -> val_ok h v ->
    heap_ok (snd (alloc h v)) /\ hext h (snd (alloc h v)) /\
    in_reg (snd (alloc h v)) (next h) /\ load (snd (alloc h v)) (next h) = v.
  Proof.
    intros HK Hv.
    pose proof (hk_next _ _ _ HK) as Hn.
    assert (HX : hext h (snd (alloc h v))).
    { apply hext_congr; intros; try reflexivity; try (cbn; lia).
      rewrite load_alloc. destruct (Pos.eqb_spec a (next h)); [lia|reflexivity]. }
    split; [|split; [exact HX|split]].
    - constructor.
      + intros a' Ha'. rewrite load_alloc. destruct (Pos.eqb_spec a' (next h)) as [->|Hne].
        * apply (hext_val _ _ _ HX). exact Hv.
        * apply (hext_val _ _ _ HX). apply (hk_cells _ _ _ HK).
          destruct Ha' as [H1 H2]. cbn in H2. split; [exact H1|lia].
      + intros a' Ha'. cbn in Ha'. rewrite load_alloc.
        destruct (Pos.eqb_spec a' (next h)) as [->|Hne]; [lia|]. apply (hk_unalloc _ _ _ HK). lia.
      + cbn. lia.
    - split; [exact Hn|cbn; lia].
    - rewrite load_alloc, Pos.eqb_refl. reflexivity.
  Qed.

  (* the cells of a heap whose cell map is untouched and whose [next] moved by one *)
  Lemma cells_bump h h' :
    heap_ok h -> hext h h' -> (forall a, load h' a = load h a) -> next h' = Pos.succ (next h) ->
    heap_ok h'.
  Proof.
    intros HK HX Hl Hn. constructor.
    - intros a [H1 H2]. rewrite Hl. rewrite Hn in H2.
      destruct (Pos.eq_dec a (next h)) as [->|Hne].
      + rewrite (hk_unalloc _ _ _ HK) by lia. exact Logic.I.
      + apply (hext_val _ _ _ HX). apply (hk_cells _ _ _ HK). split; [exact H1|lia].
    - intros a Ha. rewrite Hl. apply (hk_unalloc _ _ _ HK). lia.
    - pose proof (hk_next _ _ _ HK). lia.
  Qed.

  (* ---------------------------------------------------------------- objects *)

  Lemma set_obj_ok h oid k c :
    heap_ok h -> in_reg h oid -> in_reg h c ->
    heap_ok (set_obj h oid (assoc_set k c (get_obj h oid))) /\
    hext h (set_obj h oid (assoc_set k c (get_obj h oid))).
  Proof.
    intros HK Ho Hc.
    assert (HX : hext h (set_obj h oid (assoc_set k c (get_obj h oid)))).
    { split; [cbn; lia|split].
      - intros v. destruct v as [s|b|f|bid off len|o|[[p k']|]|nf [a|]|idx|s|]; cbn [WfState.val_ok]; auto.
        rewrite get_obj_set_obj. destruct (Pos.eqb_spec o oid) as [->|Hne]; [|auto].
        intros [H0 H]. split; [exact H0|]. apply Forall_assoc_set; assumption.
      - repeat split; auto. intros o Hlt. rewrite get_obj_set_obj.
        destruct (Pos.eqb_spec o oid) as [->|Hne]; [destruct Ho; lia|reflexivity]. }
    split; [|exact HX].
    constructor.
    - intros a Ha. change (load (set_obj h oid (assoc_set k c (get_obj h oid))) a) with (load h a).
      apply (hext_val _ _ _ HX). apply (hk_cells _ _ _ HK). exact Ha.
    - intros a Ha. exact (hk_unalloc _ _ _ HK a Ha).
    - exact (hk_next _ _ _ HK).
  Qed.

  Lemma new_obj_ok h kvs :
    heap_ok h -> Forall (fun kv => in_reg h (snd kv)) kvs ->
    heap_ok (snd (new_obj h kvs)) /\ hext h (snd (new_obj h kvs)) /\
    val_ok (snd (new_obj h kvs)) (VObj (next h)).
  Proof.
    intros HK Hk.
    pose proof (hk_next _ _ _ HK) as Hb.
    assert (Hn : (next h <= next (snd (new_obj h kvs)))%positive) by (cbn; lia).
    assert (Hk' : Forall (fun kv => in_reg (snd (new_obj h kvs)) (snd kv)) kvs).
    { eapply Forall_impl; [|exact Hk]. intros kv. apply in_reg_mono. exact Hn. }
    assert (HX : hext h (snd (new_obj h kvs))).
    { split; [exact Hn|split].
      - intros v. destruct v as [s|b|f|bid off len|o|[[p k']|]|nf [a|]|idx|s|]; cbn [WfState.val_ok]; auto.
        + change (arr_cells (snd (new_obj h kvs)) bid off len) with (arr_cells h bid off len).
          change (get_back (snd (new_obj h kvs)) bid) with (get_back h bid).
          intros (H0 & H1 & H2). split; [eapply in_reg_mono; eassumption|split; [exact H1|]].
          eapply Forall_impl; [|exact H2]. intros a. apply in_reg_mono, Hn.
        + rewrite get_obj_new_obj. intros [H0 H1]. split; [eapply in_reg_mono; eassumption|].
          destruct (Pos.eqb_spec o (next h)) as [->|Hne]; [destruct H0; lia|].
          eapply Forall_impl; [|exact H1]. intros kv. apply in_reg_mono, Hn.
        + apply in_reg_mono, Hn.
        + apply in_reg_mono, Hn.
      - repeat split; auto. intros o Hlt. rewrite get_obj_new_obj.
        destruct (Pos.eqb_spec o (next h)) as [->|Hne]; [lia|reflexivity]. }
    split; [|split; [exact HX|]].
    - apply (cells_bump h _ HK HX); reflexivity.
    - cbn [WfState.val_ok]. rewrite get_obj_new_obj, Pos.eqb_refl.
      split; [split; [exact Hb|change (next (snd (new_obj h kvs))) with (Pos.succ (next h)); lia]|exact Hk'].
  Qed.

  (* ---------------------------------------------------------------- backing arrays *)

  (* a fresh backing array, whatever it contains: only windows are constrained *)
  Lemma new_back_ok h l :
    heap_ok h -> heap_ok (snd (new_back h l)) /\ hext h (snd (new_back h l)).
  Proof.
    intros HK.
    pose proof (hk_next _ _ _ HK) as Hb.
    assert (Hn : (next h <= next (snd (new_back h l)))%positive) by (cbn; lia).
    assert (HX : hext h (snd (new_back h l))).
    { split; [exact Hn|split].
      - intros v. destruct v as [s|b|f|bid off len|o|[[p k']|]|nf [a|]|idx|s|]; cbn [WfState.val_ok]; auto.
        + unfold arr_cells. rewrite get_back_new_back. intros (H0 & H1 & H2).
          destruct (Pos.eqb_spec bid (next h)) as [->|Hne]; [destruct H0; lia|].
          split; [eapply in_reg_mono; eassumption|split; [exact H1|]].
          eapply Forall_impl; [|exact H2]. intros a. apply in_reg_mono, Hn.
        + change (get_obj (snd (new_back h l)) o) with (get_obj h o).
          intros [H0 H1]. split; [eapply in_reg_mono; eassumption|].
          eapply Forall_impl; [|exact H1]. intros kv. apply in_reg_mono, Hn.
        + apply in_reg_mono, Hn.
        + apply in_reg_mono, Hn.
      - repeat split; auto. intros b Hlt. rewrite get_back_new_back.
        destruct (Pos.eqb_spec b (next h)) as [->|Hne]; [lia|reflexivity]. }
    split; [|exact HX].
    apply (cells_bump h _ HK HX); reflexivity.
  Qed.

  Lemma new_back_val h l n :
    (base <= next h)%positive -> n <= length l -> Forall (in_reg h) (firstn n l) ->
    val_ok (snd (new_back h l)) (VArr (next h) 0 n).
  Proof.
    intros Hb Hl Hf. cbn [WfState.val_ok]. unfold arr_cells. rewrite get_back_new_back, Pos.eqb_refl.
    split; [split; [exact Hb|change (next (snd (new_back h l))) with (Pos.succ (next h)); lia]|]. split; [exact Hl|]. cbn [skipn]. eapply Forall_impl; [|exact Hf].
    intros a. apply in_reg_mono. cbn. lia.
  Qed.

  Lemma new_array_of_ok h l :
    heap_ok h -> Forall (in_reg h) l ->
    heap_ok (snd (new_array_of h l)) /\ hext h (snd (new_array_of h l)) /\
    val_ok (snd (new_array_of h l)) (fst (new_array_of h l)).
  Proof.
    intros HK Hl. unfold new_array_of.
    destruct (new_back h l) as [b h'] eqn:E. cbn [fst snd].
    assert (Eh : h' = snd (new_back h l)) by (rewrite E; reflexivity).
    assert (Eb : b = next h) by (unfold new_back in E; inversion E; reflexivity).
    subst b h'. destruct (new_back_ok h l HK) as [H1 H2]. split; [exact H1|split; [exact H2|]].
    apply new_back_val; [exact (hk_next _ _ _ HK)|lia|]. rewrite firstn_all. exact Hl.
  Qed.

  Lemma new_empty_array_ok h :
    heap_ok h ->
    heap_ok (snd (new_empty_array h)) /\ hext h (snd (new_empty_array h)) /\
    val_ok (snd (new_empty_array h)) (fst (new_empty_array h)).
  Proof. intros HK. exact (new_array_of_ok h [] HK (Forall_nil _)). Qed.

  Lemma new_empty_object_ok h :
    heap_ok h ->
    heap_ok (snd (new_empty_object h)) /\ hext h (snd (new_empty_object h)) /\
    val_ok (snd (new_empty_object h)) (fst (new_empty_object h)) /\
    fst (new_empty_object h) = VObj (next h).
  Proof.
    intros HK. destruct (new_obj_ok h [] HK (Forall_nil _)) as (H1 & H2 & H3).
    split; [exact H1|split; [exact H2|split; [exact H3|reflexivity]]].
  Qed.

  (* windows *)
  Lemma window_cell h b off len i c :
    val_ok h (VArr b off len) -> i < len -> nth_error (get_back h b) (off + i) = Some c -> in_reg h c.
  Proof.
    intros (_ & _ & Hf) Hi Hn. unfold arr_cells in Hf. rewrite Forall_window in Hf. eauto.
  Qed.

  Lemma window_some h b off len i :
    val_ok h (VArr b off len) -> i < len -> exists c, nth_error (get_back h b) (off + i) = Some c.
  Proof.
    intros (_ & Hl & _) Hi. destruct (nth_error (get_back h b) (off + i)) as [c|] eqn:E; [eauto|].
    apply nth_error_None in E. lia.
  Qed.

  Lemma sub_window h b off len off' len' :
    val_ok h (VArr b off len) -> off <= off' -> off' + len' <= off + len -> val_ok h (VArr b off' len').
  Proof.
    intros (H0 & Hl & Hf) H1 H2. split; [exact H0|]. split; [lia|]. unfold arr_cells in *. rewrite Forall_window in *.
    intros i x Hi Hx. apply (Hf (off' - off + i) x); [lia|].
    replace (off + (off' - off + i)) with (off' + i) by lia. exact Hx.
  Qed.

  (* append *)
  Lemma append_at_ok h pa c :
    heap_ok h -> in_reg h pa -> in_reg h c ->
    heap_ok (append_at h pa c) /\ hext h (append_at h pa c).
  Proof.
    intros HK Hpa Hc. unfold append_at.
    pose proof (hk_cells _ _ _ HK pa Hpa) as Hv.
    destruct (load h pa) as [s|b|f|bid off len|o|sp|nf bd|idx|s|] eqn:El;
      try (split; [exact HK|apply hext_refl]).
    destruct Hv as (Hbid & Hlen & Hwin).
    destruct (Nat.ltb len (length (get_back h bid) - off)) eqn:Ecap.
    - (* room in the backing array *)
      apply Nat.ltb_lt in Ecap.
      set (h1 := set_back h bid (list_set (get_back h bid) (off + len) c)).
      assert (HX1 : hext h h1).
      { split; [cbn; lia|split].
        - intros v. destruct v as [s|b|f|bid' off' len'|o|[[p k']|]|nf [a|]|idx|s|]; cbn [WfState.val_ok]; auto.
          unfold arr_cells, h1. rewrite get_back_set_back.
          destruct (Pos.eqb_spec bid' bid) as [->|Hne]; [|auto].
          rewrite list_set_length. intros (H0 & H1 & H2). split; [exact H0|split; [exact H1|]].
          rewrite Forall_window in *. intros i x Hi Hx. rewrite nth_error_list_set in Hx.
          destruct (Nat.eqb (off' + i) (off + len)).
          + destruct (Nat.ltb (off + len) (length (get_back h bid))); inversion Hx; subst. exact Hc.
          + eauto.
        - repeat split; auto. intros b Hlt. unfold h1. rewrite get_back_set_back.
          destruct (Pos.eqb_spec b bid) as [->|Hne]; [destruct Hbid; lia|reflexivity]. }
      assert (HK1 : heap_ok h1).
      { constructor.
        - intros a Ha. change (load h1 a) with (load h a). apply (hext_val _ _ _ HX1).
          apply (hk_cells _ _ _ HK). exact Ha.
        - intros a Ha. exact (hk_unalloc _ _ _ HK a Ha).
        - exact (hk_next _ _ _ HK). }
      assert (Hv1 : val_ok h1 (VArr bid off (S len))).
      { cbn [WfState.val_ok]. unfold arr_cells, h1. rewrite get_back_set_back, Pos.eqb_refl.
        rewrite list_set_length. split; [exact Hbid|]. split; [lia|].
        unfold arr_cells in Hwin. rewrite Forall_window in *. intros i x Hi Hx.
        rewrite nth_error_list_set in Hx.
        destruct (Nat.eqb_spec (off + i) (off + len)) as [E|E].
        - destruct (Nat.ltb (off + len) (length (get_back h bid))); inversion Hx; subst. exact Hc.
        - apply (Hwin i x); [lia|exact Hx]. }
      destruct (store_ok h1 pa (VArr bid off (S len)) HK1) as [HK2 HX2]; [exact Hpa|exact Hv1|].
      split; [exact HK2|]. eapply hext_trans; eassumption.
    - (* grow: a new backing array *)
      apply Nat.ltb_ge in Ecap.
      set (l := firstn len (skipn off (get_back h bid)) ++
                c :: repeat dummy_addr (grow_cap (length (get_back h bid) - off) - S len)).
      destruct (new_back h l) as [b' h1] eqn:Enb.
      assert (Eh : h1 = snd (new_back h l)) by (rewrite Enb; reflexivity).
      assert (Eb : b' = next h) by (unfold new_back in Enb; inversion Enb; reflexivity).
      destruct (new_back_ok h l HK) as [HK1 HX1]. rewrite <- Eh in HK1, HX1.
      assert (Hv1 : val_ok h1 (VArr b' 0 (S len))).
      { subst b' h1. apply new_back_val.
        - exact (hk_next _ _ _ HK).
        - unfold l. rewrite app_length, window_length by exact Hlen. cbn [length]. lia.
        - unfold l. rewrite firstn_app, window_length by exact Hlen.
          rewrite firstn_all2 by (rewrite window_length by exact Hlen; lia).
          replace (S len - len) with 1 by lia. cbn [firstn].
          apply Forall_app. split; [exact Hwin|constructor; [exact Hc|constructor]]. }
      destruct (store_ok h1 pa (VArr b' 0 (S len)) HK1) as [HK2 HX2]; [|exact Hv1|].
      { eapply hext_in_reg; eassumption. }
      split; [exact HK2|]. eapply hext_trans; eassumption.
  Qed.

  (* ---------------------------------------------------------------- values *)

  Lemma copy_value_ok h v v' : val_ok h v -> copy_value v = Some v' -> val_ok h v'.
  Proof.
    destruct v as [s|b|f|bid off len|o|sp|nf bd|idx|s|]; cbn [copy_value]; intros Hv E;
      inversion E; subst; try exact Hv; exact Logic.I.
  Qed.

  Lemma get_member_cell h v m c :
    val_ok h v -> get_member h v m = GmCell c -> in_reg h c.
  Proof.
    intros Hv. destruct v as [s|b|f|bid off len|o|sp|nf bd|idx|s|]; cbn [get_member]; try discriminate.
    - destruct m; cbn [proto_get]; try discriminate; try (destruct (str_proto _); discriminate).
      destruct (_ || _)%bool; [discriminate|]. destruct (nth_error _ _); discriminate.
    - destruct m; cbn [proto_get]; try discriminate; destruct (num_proto _); discriminate.
    - destruct m as [s|b|f|bid' off' len'|o|sp|nf bd|idx|s|]; cbn [proto_get]; try discriminate;
        try (destruct (array_proto _); discriminate).
      set (i' := if Z.ltb (f_trunc_int64 f) 0 then (Z.of_nat len + f_trunc_int64 f)%Z else f_trunc_int64 f).
      destruct (Z.ltb i' 0) eqn:E1; [discriminate|].
      destruct (Z.leb (Z.of_nat len) i') eqn:E2; [discriminate|].
      destruct (nth_error (get_back h bid) (off + Z.to_nat i')) as [c'|] eqn:E3; [|discriminate].
      intros E. inversion E; subst c'. eapply window_cell; [exact Hv| |exact E3]. lia.
    - destruct Hv as [_ Hv].
      destruct m as [s|b|f|bid' off' len'|o'|sp|nf bd|idx|s|]; try discriminate.
      + destruct (assoc_get _ _) as [c'|] eqn:E3.
        * intros E. inversion E; subst c'. exact (Forall_assoc_get _ _ _ _ Hv E3).
        * cbn [proto_get]. destruct (obj_proto _); discriminate.
      + destruct (assoc_get _ _) as [c'|] eqn:E3.
        * intros E. inversion E; subst c'. exact (Forall_assoc_get _ _ _ _ Hv E3).
        * cbn [proto_get]. destruct (obj_proto _); discriminate.
  Qed.

  Lemma get_member_fresh h v m v' : get_member h v m = GmFresh v' -> val_ok h v'.
  Proof.
    destruct v as [s|b|f|bid off len|o|sp|nf bd|idx|s|]; cbn [get_member]; try discriminate.
    - destruct m; cbn [proto_get]; try discriminate; try (destruct (str_proto _); discriminate).
      destruct (_ || _)%bool; [intros E; inversion E; exact Logic.I|].
      destruct (nth_error _ _); intros E; inversion E; exact Logic.I.
    - destruct m; cbn [proto_get]; try discriminate; destruct (num_proto _); discriminate.
    - destruct m as [s|b|f|bid' off' len'|o|sp|nf bd|idx|s|]; cbn [proto_get]; try discriminate;
        try (destruct (array_proto _); discriminate).
      destruct (Z.ltb _ 0); [discriminate|]. destruct (Z.leb _ _); [discriminate|].
      destruct (nth_error _ _); discriminate.
    - destruct m as [s|b|f|bid' off' len'|o'|sp|nf bd|idx|s|]; try discriminate;
        destruct (assoc_get _ _); try discriminate; cbn [proto_get]; destruct (obj_proto _); discriminate.
  Qed.

  (* a store past the end of an array appends at least one cell *)
  Lemma set_member_count h bid off len f :
    val_ok h (VArr bid off len) ->
    (forall c, get_member h (VArr bid off len) (VNum f) <> GmCell c) ->
    get_member h (VArr bid off len) (VNum f) <> GmErr ->
    1 <= Z.to_nat (f_trunc_int64 f - Z.of_nat len + 1).
  Proof.
    intros Hv Hc He. cbn [get_member] in Hc, He.
    set (i := f_trunc_int64 f) in *.
    destruct (Z.ltb i 0) eqn:E0.
    - destruct (Z.ltb (Z.of_nat len + i) 0) eqn:E1; [congruence|].
      destruct (Z.leb (Z.of_nat len) (Z.of_nat len + i)) eqn:E2; [lia|].
      destruct (window_some h bid off len (Z.to_nat (Z.of_nat len + i)) Hv) as [c E3]; [lia|].
      rewrite E3 in Hc. exfalso. exact (Hc c eq_refl).
    - destruct (Z.ltb i 0) eqn:E1; [congruence|].
      destruct (Z.leb (Z.of_nat len) i) eqn:E2; [lia|].
      destruct (window_some h bid off len (Z.to_nat i) Hv) as [c E3]; [lia|].
      rewrite E3 in Hc. exfalso. exact (Hc c eq_refl).
  Qed.

  (* ---------------------------------------------------------------- regions *)

  (* a value of a smaller region (with fewer functions) is a value of a larger one *)
  Lemma in_reg_weaken base' h a : (base <= base')%positive -> WfState.in_reg base' h a -> in_reg h a.
  Proof. unfold WfState.in_reg. intros Hb [H1 H2]. split; lia. Qed.

  Lemma val_ok_weaken base' fmax' h v :
    (base <= base')%positive -> fmax' <= fmax -> WfState.val_ok base' fmax' h v -> val_ok h v.
  Proof.
    intros Hb Hf. destruct v as [s|b|f|bid off len|o|[[p k']|]|nf [a|]|idx|s|]; cbn [WfState.val_ok]; auto.
    - intros (H0 & H1 & H2). split; [eapply in_reg_weaken; eassumption|split; [exact H1|]].
      eapply Forall_impl; [|exact H2]. intros a. apply in_reg_weaken. exact Hb.
    - intros [H0 H1]. split; [eapply in_reg_weaken; eassumption|].
      eapply Forall_impl; [|exact H1]. intros kv. apply in_reg_weaken. exact Hb.
    - apply in_reg_weaken. exact Hb.
    - apply in_reg_weaken. exact Hb.
    - lia.
  Qed.

  (* ---------------------------------------------------------------- NewValue *)

  Definition nv_items :=
    fix go (l : list jvalue) (h : heap) : list addr * heap :=
      match l with
      | [] => ([], h)
      | x :: r =>
        let '(v, h1) := new_value x h in
        let '(a, h2) := alloc h1 v in
        let '(rest, h3) := go r h2 in
        (a :: rest, h3)
      end.
  Definition nv_fields :=
    fix go (l : list (bytes * jvalue)) (h : heap) : list (bytes * addr) * heap :=
      match l with
      | [] => ([], h)
      | (k, x) :: r =>
        let '(v, h1) := new_value x h in
        let '(a, h2) := alloc h1 v in
        let '(rest, h3) := go r h2 in
        ((k, a) :: rest, h3)
      end.

  Definition nv_post (j : jvalue) : Prop :=
    forall h, heap_ok h ->
      heap_ok (snd (new_value j h)) /\ hext h (snd (new_value j h)) /\
      val_ok (snd (new_value j h)) (fst (new_value j h)).

  Lemma nv_items_ok l : Forall nv_post l -> forall h, heap_ok h ->
    heap_ok (snd (nv_items l h)) /\ hext h (snd (nv_items l h)) /\
    Forall (in_reg (snd (nv_items l h))) (fst (nv_items l h)).
  Proof.
    induction 1 as [|x r Hx Hr IH]; intros h HK.
    - cbn. split; [exact HK|split; [apply hext_refl|constructor]].
    - cbn [nv_items]. destruct (Hx h HK) as (K1 & X1 & V1).
      destruct (new_value x h) as [v h1]. cbn [fst snd] in *.
      destruct (alloc_ok h1 v K1 V1) as (K2 & X2 & R2 & _).
      destruct (alloc h1 v) as [a h2] eqn:Ea.
      assert (Ea' : a = next h1) by (unfold alloc in Ea; inversion Ea; reflexivity). subst a.
      cbn [fst snd] in *.
      destruct (IH h2 K2) as (K3 & X3 & F3).
      fold nv_items. destruct (nv_items r h2) as [rest h3]. cbn [fst snd] in *.
      split; [exact K3|split].
      + eapply hext_trans; [exact X1|]. eapply hext_trans; [exact X2|exact X3].
      + constructor; [|exact F3]. eapply hext_in_reg; eassumption.
  Qed.

  Lemma nv_fields_ok l : Forall (fun kv => nv_post (snd kv)) l -> forall h, heap_ok h ->
    heap_ok (snd (nv_fields l h)) /\ hext h (snd (nv_fields l h)) /\
    Forall (fun kv => in_reg (snd (nv_fields l h)) (snd kv)) (fst (nv_fields l h)).
  Proof.
    induction 1 as [|[k x] r Hx Hr IH]; intros h HK.
    - cbn. split; [exact HK|split; [apply hext_refl|constructor]].
    - cbn [nv_fields]. cbn [snd] in Hx. destruct (Hx h HK) as (K1 & X1 & V1).
      destruct (new_value x h) as [v h1]. cbn [fst snd] in *.
      destruct (alloc_ok h1 v K1 V1) as (K2 & X2 & R2 & _).
      destruct (alloc h1 v) as [a h2] eqn:Ea.
      assert (Ea' : a = next h1) by (unfold alloc in Ea; inversion Ea; reflexivity). subst a.
      cbn [fst snd] in *.
      destruct (IH h2 K2) as (K3 & X3 & F3).
      fold nv_fields. destruct (nv_fields r h2) as [rest h3]. cbn [fst snd] in *.
      split; [exact K3|split].
      + eapply hext_trans; [exact X1|]. eapply hext_trans; [exact X2|exact X3].
      + constructor; [|exact F3]. cbn [snd]. eapply hext_in_reg; eassumption.
  Qed.

  Lemma new_value_ok j : nv_post j.
  Proof.
    induction j as [|b|f|s|l IH|l IH] using jvalue_ind'; intros h HK;
      try (cbn; split; [exact HK|split; [apply hext_refl|exact Logic.I]]).
    - change (new_value (JArr l) h) with
        (let '(cs, h1) := nv_items l h in new_array_of h1 cs).
      destruct (nv_items_ok l IH h HK) as (K1 & X1 & F1).
      destruct (nv_items l h) as [cs h1]. cbn [fst snd] in *.
      destruct (new_array_of_ok h1 cs K1 F1) as (K2 & X2 & V2).
      split; [exact K2|split; [eapply hext_trans; eassumption|exact V2]].
    - change (new_value (JObj l) h) with
        (let '(kvs, h1) := nv_fields l h in let '(o, h2) := new_obj h1 kvs in (VObj o, h2)).
      destruct (nv_fields_ok l IH h HK) as (K1 & X1 & F1).
      destruct (nv_fields l h) as [kvs h1]. cbn [fst snd] in *.
      destruct (new_obj_ok h1 kvs K1 F1) as (K2 & X2 & V2).
      destruct (new_obj h1 kvs) as [o h2] eqn:Eo.
      assert (Eo' : o = next h1) by (unfold new_obj in Eo; inversion Eo; reflexivity). subst o.
      cbn [fst snd] in *.
      split; [exact K2|split; [eapply hext_trans; eassumption|exact V2]].
  Qed.
End Heap.
