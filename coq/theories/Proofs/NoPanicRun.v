(* Proofs/NoPanicRun.v -- C01: the rule loops, the root selectors (a private evaluator in its
   own region of the heap), the driver, the parser facts, and the top-level theorems. *)
From Coq Require Import List ZArith PArith Lia ZifyN ZifyNat ZifyBool FMapPositive Bool.
From JQ Require Import Base.Bytes Num.F64 Syntax.Token Syntax.Lexer Syntax.Ast Syntax.Parser.
From JQ Require Import Json.JValue Json.Decode Json.Encode.
From JQ Require Import Oracle.Utf8.
From JQ Require Import Gen.Generated Sem.Value Sem.Ops Sem.Natives Sem.Eval Sem.Driver.
From JQ Require Import Spec.EvalInvSpec Spec.TokSpans Spec.WfState.
From JQ Require Import Proofs.EvalUnfold Proofs.EvalInv Proofs.EvalFaults Proofs.EvalFrames.
From JQ Require Import Proofs.LexSpan Proofs.ParseSpan Proofs.Control Proofs.NoPanicHeap Proofs.NoPanic.
From JQ Require Proofs.ParseSignals.
Import ListNotations.
Open Scope nat_scope.

(* ------------------------------------------------------------------ parser facts *)

Lemma parse_rule_body_token : forall n p r p',
  parse_rule_ n p = POk r p' -> stmt_token (rbody r) <> None.
Proof.
  intros n p r p' H. unfold parse_rule_ in H.
  pinv H. pinv H. destruct a0 as [kind pat]. pinv H.
  match type of H with (if ?c then _ else _) _ = _ => destruct c end.
  - pinv H. apply pret_ok in H. destruct H as [<- _]. cbn [rbody].
    match goal with Hx : parse_block n _ = POk ?e _ |- _ =>
      destruct (parse_block_is_block _ _ _ _ Hx) as (t & body & ->) end.
    discriminate.
  - apply pret_ok in H. destruct H as [<- _]. discriminate.
Qed.

Definition body_has_token (r : rule) : Prop := stmt_token (rbody r) <> None.

Lemma parse_toplevel_body_token : forall n rules fns p prog p',
  Forall body_has_token rules ->
  parse_toplevel n rules fns p = POk prog p' -> Forall body_has_token (prules prog).
Proof.
  induction n as [|n IH]; intros rules fns p prog p' Hr H; [discriminate|].
  change (parse_toplevel (S n) rules fns p) with
    ((do t <- pcurtag;
      if tag_eqb t TEOF then pret (mkProg (rev rules) (rev fns))
      else if tag_eqb t TFunction then
        do fn <- parse_function n; parse_toplevel n rules (fn :: fns)
      else
        do r <- parse_rule_ n; parse_toplevel n (r :: rules) fns) p) in H.
  pinv H.
  match type of H with (if ?c then _ else _) _ = _ => destruct c end.
  - apply pret_ok in H. destruct H as [<- _]. cbn [prules]. apply Forall_rev. exact Hr.
  - match type of H with (if ?c then _ else _) _ = _ => destruct c end.
    + pinv H. eapply IH; [exact Hr|exact H].
    + pinv H. eapply IH; [|exact H]. constructor; [|exact Hr].
      match goal with Hx : parse_rule_ n _ = POk ?e _ |- _ =>
        exact (parse_rule_body_token _ _ _ _ Hx) end.
Qed.

Lemma all_list_and {A} (P Q : A -> Prop) : forall l, all_list P l -> Forall Q l -> all_list (fun x => P x /\ Q x) l.
Proof.
  induction l as [|x l IH]; intros HP HQ; cbn [all_list]; [exact Logic.I|].
  destruct HP as [Hx HP]. inversion HQ; subst. split; [split; assumption|apply IH; assumption].
Qed.

Theorem parse_program_wf : forall src prog p, parse_program src = POk prog p -> wf_program src prog.
Proof.
  intros src prog p H. unfold parse_program in H.
  pose proof (parse_program_fuel_ok src (parse_fuel src)) as Ht. rewrite H in Ht. cbn [parse_post] in Ht.
  destruct Ht as [Hrules Hfuncs]. split; [|exact Hfuncs].
  unfold wf_rule. apply all_list_and; [exact Hrules|].
  unfold parse_program_fuel in H. pinv H.
  eapply parse_toplevel_body_token; [|exact H]. constructor.
Qed.

Theorem parse_expression_wf : forall src e p, parse_expression_src src = POk e p -> wf_expr src e.
Proof.
  intros src e p H. unfold parse_expression_src in H.
  pose proof (parse_expression_fuel_ok src (parse_fuel src)) as Ht. rewrite H in Ht. exact Ht.
Qed.

Lemma all_list_filter {A} (P : A -> Prop) f : forall l, all_list P l -> all_list P (filter f l).
Proof.
  induction l as [|x l IH]; intros H; cbn [filter]; [exact Logic.I|].
  destruct H as [Hx H]. destruct (f x); [split; [exact Hx|]|]; apply IH; exact H.
Qed.

Lemma all_list_Forall' {A} (P : A -> Prop) : forall l, all_list P l -> Forall P l.
Proof. induction l as [|x l IH]; intros H; [constructor|]. destruct H. constructor; auto. Qed.

Lemma all_list_impl {A} (P Q : A -> Prop) : (forall x, P x -> Q x) -> forall l, all_list P l -> all_list Q l.
Proof.
  intros HPQ. induction l as [|x l IH]; intros H; [exact Logic.I|]. destruct H. split; auto.
Qed.

(* ------------------------------------------------------------------ one evaluator *)

Section Run.
  Variable base : positive.
  Variable fmax : nat.
  Local Notation in_reg := (in_reg base).
  Local Notation val_ok := (val_ok base fmax).
  Local Notation heap_ok := (heap_ok base fmax).
  Local Notation state_ok := (state_ok base fmax).
  Local Notation hext := (hext base fmax).
  Local Notation ext := (ext base fmax).
  Local Notation np := (@np base fmax).

  Ltac xfer HX :=
    lazymatch type of HX with
    | WfState.ext _ _ ?s ?s1 =>
      repeat match goal with
      | H : WfState.in_reg _ (hp s) _ |- _ => apply (ext_in_reg _ _ _ _ _ HX) in H
      | H : WfState.val_ok _ _ (hp s) _ |- _ => apply (ext_val _ _ _ _ _ HX) in H
      | H : Forall (WfState.in_reg _ (hp s)) _ |- _ => apply (ext_Forall_in_reg _ _ _ _ _ HX) in H
      | H : Forall (WfState.val_ok _ _ (hp s)) _ |- _ => apply (ext_Forall_val _ _ _ _ _ HX) in H
      | H : all_opt (WfState.in_reg _ (hp s)) _ |- _ => apply (ext_all_opt _ _ _ _ _ HX) in H
      | H : has_rule_root s |- _ => apply (ext_rr _ _ _ _ HX) in H
      end
    end.

  Ltac nx :=
    match goal with
    | X : WfState.ext _ _ ?s ?s1 |- @WfState.np _ _ _ ?s1 _ _ => xfer X
    end.

  Tactic Notation "bd" tactic3(lem) "as" ident(a) ident(s1) ident(K) ident(X) ident(R) :=
    eapply np_bind; [ lem | intros a s1 K X R; cbv beta in R; try nx ].

  Ltac fin := first [ apply np_ret; [assumption | try exact Logic.I; try assumption]
                    | apply np_rt_error; assumption
                    | apply np_fail; [assumption | discriminate | discriminate] ].

  Section Prog.
    Variable src : bytes.
    Variable funcs : list func.
    Variable fuzzing : bool.
    Hypothesis Hfmax : fmax <= length funcs.
    Hypothesis Hfuncs : Forall (wf_func src) funcs.

    Definition rule_toks_ok (r : rule) : Prop := rule_toks (tok_in_src src) lit_tag_ok r.

    Lemma np_eval_rules n : forall rules s,
      all_list rule_toks_ok rules -> state_ok s -> has_rule_root s ->
      np s (eval_rules src funcs fuzzing n rules) (fun _ _ => True).
    Proof.
      pose proof (all_np_n base fmax src funcs fuzzing Hfmax Hfuncs n) as IH.
      induction rules as [|r rest IHr]; intros s Hw HK Hrr; cbn [eval_rules]; [fin|].
      destruct Hw as [[Hp Hb] Hrest].
      bd (instantiate (1 := fun _ _ => True)) as m s1 K1 X1 R1.
      - destruct (rpattern r) as [p|]; [|apply (@np_ret base fmax (option bool)); [assumption|exact Logic.I]].
        cbn in Hp.
        eapply np_catch; [apply (p_expr _ _ _ _ _ _ IH); assumption|].
        intros r0 s1 K1 X1 P1 R1. nx.
        destruct r0 as [c|e|x| | |]; try congruence;
          try (apply np_reraise; [assumption|discriminate|discriminate]).
        + apply np_load. apply (@np_ret base fmax (option bool)); [assumption|exact Logic.I].
        + destruct x; try (apply np_reraise; [assumption|discriminate|discriminate]).
          apply (@np_ret base fmax (option bool)); [assumption|exact Logic.I].
      - destruct m as [[|]|]; [|apply IHr; assumption|fin].
        eapply np_catch; [apply (p_stmt _ _ _ _ _ _ IH); assumption|].
        intros r0 s2 K2 X2 P2 R2. nx.
        destruct r0 as [c|e|x| | |]; try congruence;
          try (apply np_reraise; [assumption|discriminate|discriminate]).
        + apply IHr; assumption.
        + destruct x; try (apply np_reraise; [assumption|discriminate|discriminate]). fin.
    Qed.

    Lemma np_eval_elements n rules bid off len : forall k i s,
      all_list rule_toks_ok rules -> val_ok (hp s) (VArr bid off len) -> i + k <= len -> state_ok s ->
      np s (eval_elements src funcs fuzzing n rules bid off len k i) (fun _ _ => True).
    Proof.
      induction k as [|k IHk]; intros i s Hw Harr Hik HK; cbn [eval_elements]; [fin|].
      apply np_get_heap.
      destruct (window_some base fmax (hp s) bid off len i Harr) as [item En]; [lia|]. rewrite En.
      assert (Hitem : in_reg (hp s) item) by (eapply window_cell; [exact Harr| |exact En]; lia).
      bd (apply np_set_rule_root; assumption) as u s1 K1 X1 R1.
      bd (instantiate (1 := fun _ _ => True)) as u2 s2 K2 X2 R2.
      - bd (apply np_m_alloc; [assumption|exact Logic.I]) as c s2 K2 X2 R2.
        apply np_set_local; [assumption|exact (proj1 R2)].
      - bd (apply np_eval_rules; assumption) as u3 s3 K3 X3 R3.
        apply IHk; [assumption|assumption|lia|assumption].
    Qed.

    Lemma np_eval_pattern_rules n rules s :
      all_list rule_toks_ok rules -> state_ok s ->
      np s (eval_pattern_rules src funcs fuzzing n rules) (fun _ _ => True).
    Proof.
      intros Hw HK. unfold eval_pattern_rules. apply np_get_st.
      pose proof (sk_root _ _ _ HK) as Hroot.
      destruct (root s) as [rt|]; [|fin]. cbn in Hroot. apply np_load.
      pose proof (cell_val base fmax s rt HK Hroot) as Hrv.
      destruct (load (hp s) rt) as [y|y|y|bid off len|y|y|? ?|y|y|] eqn:Erv;
        try (bd (apply np_set_rule_root; assumption) as u s1 K1 X1 R1; apply np_eval_rules; assumption).
      apply np_eval_elements; [assumption|assumption|lia|assumption].
    Qed.

    Lemma np_stray {A} s t (r : res A) (R : A -> st -> Prop) :
      state_ok s -> r <> Panic -> (forall a, r <> Ok a) -> np s (stray src (Some t) r) R.
    Proof.
      intros HK Hp Ho. destruct r as [a|e|x| | |]; cbn [stray];
        try (apply np_reraise; [assumption|assumption|assumption]).
      destruct x; try fin; apply np_get_st; destruct (last_signal_token (io s)); fin.
    Qed.
  End Prog.

  (* the functions of the program enter the root frame *)
  Lemma np_add_functions src : forall fns idx s,
    all_list (wf_func src) fns -> idx + length fns <= fmax -> state_ok s ->
    np s (add_functions src fns idx) (fun _ _ => True).
  Proof.
    induction fns as [|fn rest IH]; intros idx s Hw Hidx HK; cbn [add_functions]; [fin|].
    destruct Hw as [[Hid _] Hrest]. rewrite (get_string_in src (fident fn) Hid).
    cbn [length] in Hidx.
    bd (instantiate (1 := fun _ _ => True)) as u s1 K1 X1 R1.
    - bd (apply np_m_alloc; [assumption|cbn; lia]) as c s1 K1 X1 R1.
      apply np_set_local; [assumption|exact (proj1 R1)].
    - apply IH; [assumption|lia|assumption].
  Qed.

  Lemma np_new_evaluator_tail src fns s :
    all_list (wf_func src) fns -> length fns <= fmax -> state_ok s ->
    np s (new_evaluator_tail src fns) (fun _ _ => True).
  Proof.
    intros Hw Hl HK. unfold new_evaluator_tail.
    assert (Hnat : forall nf k s0, state_ok s0 ->
               np s0 (let* c := m_alloc (VNative nf None) in set_local k c) (fun _ _ => True)).
    { intros nf k s0 K0. bd (apply np_m_alloc; [assumption|exact Logic.I]) as c s1 K1 X1 R1.
      apply np_set_local; [assumption|exact (proj1 R1)]. }
    bd (apply Hnat; assumption) as u1 s1 K1 X1 R1.
    bd (apply Hnat; assumption) as u2 s2 K2 X2 R2.
    bd (apply Hnat; assumption) as u3 s3 K3 X3 R3.
    apply np_add_functions; [assumption|lia|assumption].
  Qed.
End Run.

(* ------------------------------------------------------------------ root selectors *)

(* the state in which the private evaluator of a selector starts, after its first step *)
Definition sel_start (s0 : st) : st := mkSt (hp s0) root_frames None None None (io s0).

Lemma heap_ok_region base fmax h :
  heap_ok base fmax h -> heap_ok (next h) 0 h.
Proof.
  intros HK. constructor.
  - intros a [H1 H2]. lia.
  - exact (hk_unalloc _ _ _ HK).
  - lia.
Qed.

Lemma sel_start_ok base fmax s0 :
  heap_ok base fmax (hp s0) -> state_ok (next (hp s0)) 0 (sel_start s0).
Proof.
  intros HK. constructor; cbn [sel_start hp frames rule_root root retval]; try exact Logic.I.
  - eapply heap_ok_region; exact HK.
  - discriminate.
  - constructor; [constructor|constructor].
Qed.

Section SelectorTail.
  Variable n : nat.
  Variable sel : bytes.
  Variable doc : jvalue.
  Variable e : expr.
  Hypothesis He : wf_expr sel e.
  Variable b0 : positive.
  Local Notation np0 := (@np b0 0).

  Ltac xfer HX :=
    lazymatch type of HX with
    | WfState.ext _ _ ?s ?s1 =>
      repeat match goal with
      | H : WfState.in_reg _ (hp s) _ |- _ => apply (ext_in_reg _ _ _ _ _ HX) in H
      | H : WfState.val_ok _ _ (hp s) _ |- _ => apply (ext_val _ _ _ _ _ HX) in H
      | H : has_rule_root s |- _ => apply (ext_rr _ _ _ _ HX) in H
      end
    end.
  Ltac nx :=
    match goal with
    | X : WfState.ext _ _ ?s ?s1 |- @WfState.np _ _ _ ?s1 _ _ => xfer X
    end.
  Tactic Notation "bd" tactic3(lem) "as" ident(a) ident(s1) ident(K) ident(X) ident(R) :=
    eapply np_bind; [ lem | intros a s1 K X R; cbv beta in R; try nx ].

  Lemma np_selector_tail s :
    state_ok b0 0 s ->
    np0 s (selector_tail n sel doc e) (fun a s' => in_reg b0 (hp s') a).
  Proof.
    intros HK. unfold selector_tail.
    bd (apply np_new_evaluator_tail; [exact Logic.I|cbn; lia|assumption]) as u0 s1 K1 X1 R1.
    bd (apply np_new_value; assumption) as rv s2 K2 X2 R2.
    bd (apply np_m_alloc; assumption) as rc s3 K3 X3 R3. destruct R3 as [Hrc _].
    bd (apply np_set_root; [assumption|exact Hrc]) as u1 s4 K4 X4 R4.
    bd (apply np_set_rule_root; assumption) as u2 s5 K5 X5 R5.
    eapply np_catch.
    - apply (p_expr _ _ _ _ _ _ (all_np_n b0 0 sel [] false (Nat.le_0_l _) (Forall_nil _) n)); assumption.
    - intros r0 s6 K6 X6 P6 R6.
      destruct r0 as [c|e0|x| | |]; try congruence;
        try (apply np_stray; [assumption|discriminate|discriminate]).
      apply np_load. specialize (R6 c eq_refl). cbv beta in R6.
      destruct (copy_value (load (hp s6) c)) as [v'|] eqn:Ec; [|apply np_rt_error; assumption].
      eapply np_conseq; [apply np_m_alloc; [assumption|]|intros a s' _ _ [H _]; exact H].
      eapply copy_value_ok; [apply cell_val; eassumption|exact Ec].
  Qed.
End SelectorTail.

(* what a root selector does to the state it is called in, whatever that state's frames *)
Lemma selector_core base fmax n sel doc s0 r s' :
  heap_ok base fmax (hp s0) ->
  eval_selector n sel doc s0 = (r, s') ->
  r <> Panic /\ heap_ok base fmax (hp s') /\ hext base fmax (hp s0) (hp s') /\
  frames s' = frames s0 /\ rule_root s' = rule_root s0 /\ root s' = root s0 /\ retval s' = retval s0 /\
  (forall a, r = Ok a -> in_reg base (hp s') a).
Proof.
  intros HK H. rewrite eval_selector_eq in H.
  assert (Hsame : forall r0 : res addr, r0 <> Panic -> (forall a, r0 <> Ok a) -> hp s' = hp s0 ->
             frames s' = frames s0 -> rule_root s' = rule_root s0 -> root s' = root s0 ->
             retval s' = retval s0 -> r = r0 ->
             r <> Panic /\ heap_ok base fmax (hp s') /\ hext base fmax (hp s0) (hp s') /\
             frames s' = frames s0 /\ rule_root s' = rule_root s0 /\ root s' = root s0 /\
             retval s' = retval s0 /\ (forall a, r = Ok a -> in_reg base (hp s') a)).
  { intros r0 Hp Ho E1 E2 E3 E4 E5 ->. rewrite E1.
    split; [exact Hp|]. split; [exact HK|]. split; [apply hext_refl|].
    split; [exact E2|]. split; [exact E3|]. split; [exact E4|]. split; [exact E5|].
    intros a Ea. exfalso. exact (Ho a Ea). }
  destruct (parse_expression_src sel) as [e p|pos| |] eqn:Ep.
  - (* the private evaluator *)
    apply isolate_inv in H. destruct H as (s1 & H & ->).
    pose proof (parse_expression_wf sel e p Ep) as He.
    pose proof (hk_next _ _ _ HK) as Hb.
    destruct (np_selector_tail n sel doc e He (next (hp s0)) (sel_start s0) (sel_start_ok base fmax s0 HK) _ _ H)
      as (K1 & [(Hn & Hv & Fa & Fb & Fo) _] & P1 & R1).
    cbn [sel_start hp] in *.
    pose proof (sk_heap _ _ _ K1) as HK1.
    assert (Hreg : forall a, in_reg (next (hp s0)) (hp s1) a -> in_reg base (hp s1) a).
    { intros a. apply in_reg_weaken. exact Hb. }
    (* values of the calling evaluator only refer to what existed before: untouched *)
    assert (Hold : forall v, val_ok base fmax (hp s0) v -> val_ok base fmax (hp s1) v).
    { intros v. destruct v as [x|x|x|bid off len|o|[[p0 k0]|]|nf [a|]|idx|x|]; cbn [val_ok]; auto.
      - intros ([B1 B2] & H1 & H2). unfold arr_cells. rewrite (Fb bid B2).
        split; [split; lia|split; [exact H1|]].
        eapply Forall_impl; [|exact H2]. intros a. apply in_reg_mono. exact Hn.
      - intros ([B1 B2] & H1). rewrite (Fo o B2). split; [split; lia|].
        eapply Forall_impl; [|exact H1]. intros kv. apply in_reg_mono. exact Hn.
      - apply in_reg_mono. exact Hn.
      - apply in_reg_mono. exact Hn. }
    cbn [hp frames rule_root root retval].
    split; [exact P1|].
    split; [|split; [|split; [reflexivity|split; [reflexivity|split; [reflexivity|split; [reflexivity|]]]]]].
    + constructor.
      * intros a [A1 A2].
        destruct (Pos.ltb_spec a (next (hp s0))) as [Hlt|Hge].
        -- rewrite (Fa a Hlt). apply Hold. apply (hk_cells _ _ _ HK). split; assumption.
        -- eapply val_ok_weaken; [exact Hb|apply Nat.le_0_l|]. apply (hk_cells _ _ _ HK1). split; assumption.
      * exact (hk_unalloc _ _ _ HK1).
      * lia.
    + split; [exact Hn|split; [exact Hold|]].
      repeat split; intros x Hx; [apply Fa|apply Fb|apply Fo]; lia.
    + intros a2 Ea. apply Hreg. exact (R1 a2 Ea).
  - (* syntax error in the selector *)
    unfold raise_err in H. inversion H; subst. cbn [hp frames rule_root root retval].
    apply (Hsame (Err (syntax_error sel pos))); auto; discriminate.
  - inversion H; subst. apply (Hsame Fuel); auto; discriminate.
  - exfalso. exact (proj1 (proj2 (parse_no_panic_proof sel)) Ep).
Qed.

(* ------------------------------------------------------------------ the driver *)

Section Driver.
  Variable src : bytes.
  Variable prog : program.
  Variable fuzzing : bool.
  Variable selectors : list bytes.
  Variable n : nat.
  Hypothesis Hprog : wf_program src prog.

  Let fmax := length (pfuncs prog).
  Local Notation base := 1%positive.
  Local Notation in_reg := (in_reg base).
  Local Notation val_ok := (val_ok base fmax).
  Local Notation state_ok := (state_ok base fmax).
  Local Notation ext := (ext base fmax).
  Local Notation np := (@np base fmax).

  Ltac xfer HX :=
    lazymatch type of HX with
    | WfState.ext _ _ ?s ?s1 =>
      repeat match goal with
      | H : WfState.in_reg _ (hp s) _ |- _ => apply (ext_in_reg _ _ _ _ _ HX) in H
      | H : WfState.val_ok _ _ (hp s) _ |- _ => apply (ext_val _ _ _ _ _ HX) in H
      | H : Forall (WfState.in_reg _ (hp s)) _ |- _ => apply (ext_Forall_in_reg _ _ _ _ _ HX) in H
      | H : has_rule_root s |- _ => apply (ext_rr _ _ _ _ HX) in H
      end
    end.
  Ltac nx :=
    match goal with
    | X : WfState.ext _ _ ?s ?s1 |- @WfState.np _ _ _ ?s1 _ _ => xfer X
    end.
  Tactic Notation "bd" tactic3(lem) "as" ident(a) ident(s1) ident(K) ident(X) ident(R) :=
    eapply np_bind; [ lem | intros a s1 K X R; cbv beta in R; try nx ].
  Ltac fin := first [ apply np_ret; [assumption | try exact Logic.I; try assumption]
                    | apply np_rt_error; assumption
                    | apply np_fail; [assumption | discriminate | discriminate] ].

  Lemma Hfuncs : Forall (wf_func src) (pfuncs prog).
  Proof. apply all_list_Forall'. exact (proj2 Hprog). Qed.

  Lemma rules_of_kind_wf k : all_list (wf_rule src) (rules_of_kind k (prules prog)).
  Proof. unfold rules_of_kind. apply all_list_filter. exact (proj1 Hprog). Qed.

  Lemma rules_of_kind_toks k : all_list (rule_toks_ok src) (rules_of_kind k (prules prog)).
  Proof.
    eapply all_list_impl; [|apply rules_of_kind_wf]. intros r [H _]. exact H.
  Qed.

  Lemma np_eval_selector s sel doc :
    state_ok s -> np s (eval_selector n sel doc) (fun a s' => in_reg (hp s') a).
  Proof.
    intros HK r s' H.
    destruct (selector_core base fmax n sel doc s r s' (sk_heap _ _ _ HK) H)
      as (P & K' & X' & E1 & E2 & E3 & E4 & R).
    destruct HK as [K F L RR RT RV].
    split; [|split; [|split; [exact P|exact R]]].
    - constructor; rewrite ?E1, ?E2, ?E3, ?E4; auto.
      + eapply hext_locals; eassumption.
      + eapply hext_all_opt; eassumption.
      + eapply hext_all_opt; eassumption.
      + eapply hext_all_opt; eassumption.
    - split; [exact X'|]. unfold has_rule_root. rewrite E2. auto.
  Qed.

  Lemma np_run_special : forall rs (mk : M addr) s,
    (forall s1, state_ok s1 -> ext s s1 -> np s1 mk (fun a s' => in_reg (hp s') a)) ->
    all_list (wf_rule src) rs -> state_ok s ->
    np s (run_special src prog fuzzing n rs mk) (fun _ _ => True).
  Proof.
    induction rs as [|r rest IHr]; intros mk s Hmk Hw HK; cbn [run_special]; [fin|].
    destruct Hw as [[[Hp Hb] Htok] Hrest].
    bd (apply Hmk; [assumption|apply ext_refl]) as a s1 K1 X1 R1.
    bd (apply np_set_rule_root; assumption) as u s2 K2 X2 R2.
    eapply np_catch.
    - apply (p_stmt _ _ _ _ _ _ (all_np_n base fmax src (pfuncs prog) fuzzing (Nat.le_refl _) Hfuncs n));
        assumption.
    - intros r0 s3 K3 X3 P3 R3.
      destruct (stmt_token (rbody r)) as [t|] eqn:Et; [|congruence].
      destruct r0 as [c|e0|x| | |]; try congruence;
        try (apply np_stray; [assumption|discriminate|discriminate]).
      apply IHr; [|assumption|assumption].
      intros s4 K4 X4. apply Hmk; [assumption|].
      eapply ext_trans; [exact X1|]. eapply ext_trans; [exact X2|]. eapply ext_trans; [exact X3|exact X4].
  Qed.

  Lemma np_process_root rc s :
    in_reg (hp s) rc -> state_ok s -> np s (process_root src prog fuzzing n rc) (fun _ _ => True).
  Proof.
    intros Hrc HK. unfold process_root. apply np_load.
    pose proof (cell_val base fmax s rc HK Hrc) as Hrv.
    bd (apply np_run_special; [|apply rules_of_kind_wf|assumption]) as u1 s1 K1 X1 R1.
    { intros s1 K1 X1. apply np_ret; [assumption|]. eapply ext_in_reg; eassumption. }
    bd (apply np_set_root; [assumption|exact Hrc]) as u2 s2 K2 X2 R2.
    bd (apply (np_eval_pattern_rules base fmax src (pfuncs prog) fuzzing (Nat.le_refl _) Hfuncs);
        [apply rules_of_kind_toks|assumption]) as u3 s3 K3 X3 R3.
    apply np_run_special; [|apply rules_of_kind_wf|assumption].
    intros s4 K4 X4. eapply np_conseq; [apply np_m_alloc; [assumption|eapply ext_val; eassumption]|].
    intros a s' _ _ [H _]. exact H.
  Qed.

  Lemma np_select_roots doc : forall sels s,
    state_ok s -> np s (select_roots n doc sels) (fun cs s' => Forall (in_reg (hp s')) cs).
  Proof.
    induction sels as [|sel rest IH]; intros s HK; cbn [select_roots].
    - apply np_ret; [assumption|constructor].
    - bd (apply np_eval_selector; assumption) as c s1 K1 X1 R1.
      bd (apply IH; assumption) as cs s2 K2 X2 R2.
      apply np_ret; [assumption|]. constructor; assumption.
  Qed.

  Lemma np_process_roots : forall rcs s,
    Forall (in_reg (hp s)) rcs -> state_ok s ->
    np s (process_roots src prog fuzzing n rcs) (fun _ _ => True).
  Proof.
    induction rcs as [|rc rest IH]; intros s Hr HK; cbn [process_roots]; [fin|].
    inversion Hr as [|? ? Hrc Hrest]; subst.
    bd (apply np_process_root; assumption) as u s1 K1 X1 R1.
    apply IH; assumption.
  Qed.

  Lemma np_process_value name doc s :
    state_ok s -> np s (process_value src prog fuzzing selectors n name doc) (fun _ _ => True).
  Proof.
    intros HK. unfold process_value.
    bd (instantiate (1 := fun _ _ => True)) as u s1 K1 X1 R1.
    - bd (apply np_m_alloc; [assumption|exact Logic.I]) as c s1 K1 X1 R1.
      apply np_set_global; [assumption|exact (proj1 R1)].
    - bd (instantiate (1 := fun cs s' => Forall (in_reg (hp s')) cs)) as rcs s2 K2 X2 R2.
      + destruct selectors as [|sel0 sels]; [|apply np_select_roots; assumption].
        bd (apply np_new_value; assumption) as rv s2 K2 X2 R2.
        bd (apply np_m_alloc; assumption) as rc s3 K3 X3 R3.
        apply np_ret; [assumption|]. constructor; [exact (proj1 R3)|constructor].
      + apply np_process_roots; assumption.
  Qed.

  Lemma np_decode_loop : forall k name d s,
    state_ok s -> np s (decode_loop src prog fuzzing selectors n k name d) (fun _ _ => True).
  Proof.
    induction k as [|k IH]; intros name d s HK; cbn [decode_loop]; [fin|].
    destruct (dec_step d) as [[r d'] evs].
    bd (apply np_log_io; assumption) as u s1 K1 X1 R1.
    destruct r as [doc| | |].
    - bd (apply np_process_value; assumption) as u2 s2 K2 X2 R2. apply IH; assumption.
    - fin.
    - apply np_raise_err; assumption.
    - fin.
  Qed.

  Lemma np_run_files : forall files s,
    state_ok s -> np s (run_files src prog fuzzing selectors n files) (fun _ _ => True).
  Proof.
    induction files as [|[name rd] rest IH]; intros s HK; cbn [run_files]; [fin|].
    bd (apply np_decode_loop; assumption) as u s1 K1 X1 R1. apply IH; assumption.
  Qed.

  Lemma np_nil_root s1 :
    state_ok s1 -> np s1 (m_alloc (VNil None)) (fun a s' => in_reg (hp s') a).
  Proof.
    intros K1. eapply np_conseq; [apply np_m_alloc; [assumption|exact Logic.I]|].
    intros a s' _ _ [H _]. exact H.
  Qed.

  Lemma np_run_body_tail files s :
    state_ok s -> np s (run_body_tail src prog fuzzing selectors n files) (fun _ _ => True).
  Proof.
    intros HK. unfold run_body_tail.
    bd (apply np_new_evaluator_tail; [exact (proj2 Hprog)|apply Nat.le_refl|assumption]) as u0 s1 K1 X1 R1.
    bd (apply np_run_special; [intros s2 K2 _; apply np_nil_root; assumption|apply rules_of_kind_wf|assumption])
       as u1 s2 K2 X2 R2.
    bd (apply np_run_files; assumption) as u2 s3 K3 X3 R3.
    apply np_run_special; [intros s4 K4 _; apply np_nil_root; assumption|apply rules_of_kind_wf|assumption].
  Qed.
End Driver.

(* ------------------------------------------------------------------ the initial state *)

Lemma load_empty_heap a : load empty_heap a = VNil None.
Proof.
  unfold load, empty_heap. cbn [cells].
  destruct (Pos.eq_dec a 1) as [->|Hne].
  - rewrite PM.gss. reflexivity.
  - rewrite PM.gso by exact Hne. rewrite PM.gempty. reflexivity.
Qed.

Lemma empty_heap_ok fmax : heap_ok 1 fmax empty_heap.
Proof.
  constructor.
  - intros a _. rewrite load_empty_heap. exact Logic.I.
  - intros a _. apply load_empty_heap.
  - cbn. lia.
Qed.

Definition start_state : st := mkSt empty_heap root_frames None None None [].

Lemma start_state_ok fmax : state_ok 1 fmax start_state.
Proof.
  constructor; cbn [start_state hp frames rule_root root retval]; try exact Logic.I.
  - apply empty_heap_ok.
  - discriminate.
  - constructor; [constructor|constructor].
Qed.

Lemma classify_panic r : classify r = OPanic -> r = Panic.
Proof.
  destruct r as [u|e|x| | |]; cbn [classify]; try discriminate; try reflexivity.
  - destruct (ekind_of e); discriminate.
  - destruct x; discriminate.
Qed.

(* ------------------------------------------------------------------ the theorems *)

Theorem run_body_never_panics src prog fz sels n files r s :
  wf_program src prog ->
  run_body src prog fz sels n files init_state = (r, s) -> r <> Panic.
Proof.
  intros Hw H. rewrite run_body_eq in H. unfold bind at 1 in H. cbn [set_frames init_state hp frames rule_root root retval io] in H.
  change (mkSt empty_heap root_frames None None None []) with start_state in H.
  exact (proj1 (proj2 (proj2 (np_run_body_tail src prog fz sels n Hw files start_state (start_state_ok _) _ _ H)))).
Qed.

Theorem run_never_panics_proof : forall n src files sels fz,
  r_outcome (eval_program n src files sels fz) <> OPanic.
Proof.
  intros n src files sels fz. unfold eval_program.
  destruct (parse_program src) as [prog p|pos| |] eqn:Ep; cbn [r_outcome]; try discriminate.
  - destruct (run_body src prog fz sels n files init_state) as [r s] eqn:Er. cbn [r_outcome].
    intros Hc. apply classify_panic in Hc.
    exact (run_body_never_panics _ _ _ _ _ _ _ _ (parse_program_wf _ _ _ Ep) Er Hc).
  - exfalso. exact (proj1 (parse_no_panic_proof src) Ep).
Qed.

Theorem selector_never_panics_proof : forall n sel doc s r s',
  state_ok 1 0 s \/ s = init_state ->
  eval_selector n sel doc s = (r, s') -> r <> Panic.
Proof.
  intros n sel doc s r s' Hs H.
  assert (HK : heap_ok 1 0 (hp s)).
  { destruct Hs as [Hs| ->]; [exact (sk_heap _ _ _ Hs)|apply empty_heap_ok]. }
  exact (proj1 (selector_core 1 0 n sel doc s r s' HK H)).
Qed.

Theorem expression_api_never_panics_proof : forall n sel doc,
  x_outcome (eval_expression_api n sel doc) <> OPanic.
Proof.
  intros n sel doc. unfold eval_expression_api.
  destruct (eval_selector n sel doc init_state) as [r s] eqn:E.
  pose proof (selector_never_panics_proof n sel doc init_state r s (or_intror eq_refl) E) as Hp.
  destruct r as [c|e|x| | |]; cbn [x_outcome]; try discriminate; try congruence.
  - cbn [classify]. destruct (ekind_of e); discriminate.
  - destruct x; cbn [x_outcome classify]; discriminate.
Qed.

(* GetRootJson: the result type has no crash outcome; the one site that dereferenced a nil
   root (fixed in 4266669) yields "null" *)
Theorem root_json_no_root_proof : forall s, root s = None -> get_root_json s = JsonText (bs "null").
Proof. intros s H. unfold get_root_json. rewrite H. reflexivity. Qed.

(* every function of the evaluator, for any region and any program: statements and expressions *)
Theorem stmt_never_panics_proof : forall base src funcs fz n st s r s',
  Forall (wf_func src) funcs -> wf_stmt src st ->
  state_ok base (length funcs) s -> has_rule_root s ->
  eval_stmt src funcs fz n st s = (r, s') ->
  r <> Panic /\ state_ok base (length funcs) s' /\ ext base (length funcs) s s'.
Proof.
  intros base src funcs fz n st s r s' Hf Hw HK Hrr H.
  destruct (p_stmt _ _ _ _ _ _ (all_np_n base (length funcs) src funcs fz (Nat.le_refl _) Hf n)
                   st s Hw HK Hrr _ _ H) as (K & X & P & _).
  auto.
Qed.

Theorem expr_never_panics_proof : forall base src funcs fz n e s r s',
  Forall (wf_func src) funcs -> wf_expr src e ->
  state_ok base (length funcs) s -> has_rule_root s ->
  eval_expr src funcs fz n e s = (r, s') ->
  r <> Panic /\ state_ok base (length funcs) s' /\ ext base (length funcs) s s' /\
  (forall a, r = Ok a -> in_reg base (hp s') a).
Proof.
  intros base src funcs fz n e s r s' Hf Hw HK Hrr H.
  destruct (p_expr _ _ _ _ _ _ (all_np_n base (length funcs) src funcs fz (Nat.le_refl _) Hf n)
                   e s Hw HK Hrr _ _ H) as (K & X & P & R).
  auto.
Qed.

(* C01 as a whole: the endings of a run *)
Theorem run_endings_proof : forall n src files sels fz,
  documented_ending (r_outcome (eval_program n src files sels fz)).
Proof.
  intros n src files sels fz.
  pose proof (run_never_panics_proof n src files sels fz) as Hp.
  pose proof (ParseSignals.run_never_raw_unconditional_proof n src files sels fz) as Hr.
  destruct (r_outcome (eval_program n src files sels fz)); cbn; auto.
Qed.

Theorem window_in_backing_proof : forall base fmax h b off len i,
  val_ok base fmax h (VArr b off len) -> i < len ->
  exists c, nth_error (get_back h b) (off + i) = Some c /\ in_reg base h c.
Proof.
  intros base fmax h b off len i Hv Hi.
  destruct (window_some base fmax h b off len i Hv Hi) as [c Hc].
  exists c. split; [exact Hc|]. eapply window_cell; eassumption.
Qed.
