(* Proofs/NodeSpan.v -- the token a node is reported at lies inside every interval that
   contains all tokens stored in the node (property C12, "token_in_node", hull version). *)
From Coq Require Import List Arith Lia.
From JQ Require Import Base.Bytes Syntax.Token Syntax.Ast Spec.TokSpans.
Import ListNotations.
Open Scope nat_scope.

(* the token occupies src[lo..hi) *)
Definition in_span (lo hi : nat) (t : token) : Prop := lo <= tpos t /\ tpos t + tlen t <= hi.

Section Hull.
  Variables (Pt Pl : token -> Prop).

  (* Node.Token() is one of the tokens stored in the node: whatever holds of all of them holds of it *)
  Lemma expr_token_among : forall e, expr_toks Pt Pl e -> Pt (expr_token e).
  Proof.
    induction e as [t|t|t items|t items|e IHe op pf|l IHl r IHr op|f IHf args|t v IHv cases];
      cbn [expr_token]; intro H.
    - destruct H as [H _]; exact H.
    - exact H.
    - destruct H as [H _]; exact H.
    - destruct H as [H _]; exact H.
    - destruct H as [_ H]; exact H.
    - destruct H as [H _]; exact (IHl H).
    - destruct H as [H _]; exact (IHf H).
    - destruct H as [H _]; exact H.
  Qed.

  Lemma stmt_token_among : forall s t, stmt_toks Pt Pl s -> stmt_token s = Some t -> Pt t.
  Proof.
    intros s t H E. destruct s as [t0 body|t0 args|e|[e|]|t0|t0|t0|t0|c b [el|]|c b|a c p b|id ix it b];
      cbn [stmt_token] in E; try discriminate; injection E as <-.
    - destruct H as [H _]; exact H.
    - destruct H as [H _]; exact H.
    - apply expr_token_among; exact H.
    - apply expr_token_among; exact H.
    - exact H.
    - exact H.
    - exact H.
    - exact H.
    - destruct H as [H _]; apply expr_token_among; exact H.
    - destruct H as [H _]; apply expr_token_among; exact H.
    - destruct H as [H _]; apply expr_token_among; exact H.
    - destruct H as [_ [H _]]; apply expr_token_among; exact H.
    - destruct H as [H _]; exact H.
  Qed.
End Hull.

Lemma token_in_hull_expr : forall lo hi e,
  Forall_tokens_expr (in_span lo hi) e -> in_span lo hi (expr_token e).
Proof. intros lo hi e H. exact (expr_token_among _ _ e H). Qed.

Lemma token_in_hull_stmt : forall lo hi s t,
  Forall_tokens_stmt (in_span lo hi) s -> stmt_token s = Some t -> in_span lo hi t.
Proof. intros lo hi s t H E. exact (stmt_token_among _ _ s t H E). Qed.

(* the reported token of a sub-expression that the evaluator descends into (left operand of a
   binary node, callee of a call) is the reported token of the enclosing node: an error
   blamed on "the left operand" is blamed on the start of the whole expression *)
Lemma bin_token_is_left : forall l r op, expr_token (EBin l r op) = expr_token l.
Proof. reflexivity. Qed.
Lemma call_token_is_callee : forall f args, expr_token (ECall f args) = expr_token f.
Proof. reflexivity. Qed.
