(* Proofs/ObjsSorted.v -- "every object of the heap has its keys strictly ascending in byte
   order" as a GLOBAL invariant of every run (C07 for-in order, C10 determinism, C17 print
   order).  Spec/ObjsSorted.v has the vocabulary, Props/C10_objects_sorted.v the theorems.

   1. lists: the neighbour form [keys_ascending] (Spec/ControlLaws.v), the StronglySorted
      form [keys_sorted] (Proofs/AssocCanon.v) and the any-two-positions form
      [strictly_ascending] are the same thing; ascending keys are duplicate-free.
   2. the decoder: an invariant of the scanner/builder automaton ([sstate_wf]: every frame
      of the stack holds canonical members) gives [wf_jvalue] of every decoded document.
   3. the heap: only [set_obj] / [new_obj] touch the objects; [new_value] of a canonical
      document creates canonical objects only.
   4. the evaluator and the driver: [keeps_sorted] is closed under ret / bind / catch / the
      primitives; one induction on fuel over the 14 mutually recursive functions
      ([all_ks_n], same shape as EvalInv.all_sat_n and NoPanic.all_np_n), then the rule
      loops, the selector, the decode loop and [eval_program].
   5. corollaries: for-in over an object, print and json() of an object. *)
From Coq Require Import List Bool PArith NArith ZArith Lia Sorted FMapPositive.
From JQ Require Import Base.Bytes Num.F64 Syntax.Token Syntax.Lexer Syntax.Ast Syntax.Parser.
From JQ Require Import Json.JValue Json.Decode Json.Encode Json.JsonProofs.
From JQ Require Import Oracle.Utf8 Oracle.Slice.
From JQ Require Import Gen.Generated Sem.Value Sem.Ops Sem.Natives Sem.Eval Sem.Driver.
From JQ Require Import Spec.ControlLaws Spec.ObjsSorted.
From JQ Require Import Proofs.EvalUnfold Proofs.EvalInv Proofs.AssocCanon Proofs.Control Proofs.Pretty.
Import ListNotations.
Open Scope nat_scope.

(* ================================================================== *)
(* 1. lists                                                             *)

Section Lists.
  Context {A : Type}.
  Implicit Types (l : list (bytes * A)).

  Lemma keys_ascending_below k (ks : list bytes) :
    keys_ascending (k :: ks) -> Forall (fun k' => bytes_cmp k k' = Lt) ks.
  Proof.
    revert k. induction ks as [|k1 ks IH]; intros k H; [constructor|].
    apply keys_ascending_cons in H. destruct H as [H1 H2].
    constructor; [exact H1|].
    specialize (IH k1 H2). eapply Forall_impl; [|exact IH].
    intros k' Hk'. cbv beta in Hk'. eapply bytes_cmp_lt_trans; eassumption.
  Qed.

  (* neighbour form <-> StronglySorted form *)
  Lemma keys_ascending_iff_sorted l : keys_ascending (map fst l) <-> keys_sorted l.
  Proof.
    induction l as [|[k v] l IH].
    - split; intros _; [constructor|exact I].
    - cbn [map fst]. split.
      + intros H. apply keys_sorted_cons. split.
        * apply IH. apply keys_ascending_cons in H. exact (proj2 H).
        * apply keys_ascending_below in H. unfold below.
          rewrite Forall_map in H. exact H.
      + intros H. apply keys_sorted_cons in H. destruct H as [Hs Hb].
        apply keys_ascending_cons. split; [|apply IH; exact Hs].
        destruct l as [|[k' v'] l']; [exact I|]. cbn [map fst].
        inversion Hb as [|? ? Hk _]; subst. exact Hk.
  Qed.
End Lists.

Lemma keys_ascending_strictly ks : keys_ascending ks <-> strictly_ascending ks.
Proof.
  split.
  - induction ks as [|k ks IH]; intros H i j a b Hij Hi Hj.
    + destruct i; discriminate.
    + destruct j as [|j]; [lia|]. cbn [nth_error] in Hj.
      destruct i as [|i].
      * cbn [nth_error] in Hi. inversion Hi; subst a.
        apply keys_ascending_below in H. rewrite Forall_forall in H.
        apply H. eapply nth_error_In; exact Hj.
      * cbn [nth_error] in Hi. apply keys_ascending_cons in H.
        eapply (IH (proj2 H) i j); [lia|exact Hi|exact Hj].
  - induction ks as [|k ks IH]; intros H; [exact I|].
    apply keys_ascending_cons. split.
    + destruct ks as [|k' ks']; [exact I|].
      apply (H 0 1 k k'); [lia|reflexivity|reflexivity].
    + apply IH. intros i j a b Hij Hi Hj. apply (H (S i) (S j) a b); [lia|exact Hi|exact Hj].
Qed.

Lemma keys_ascending_NoDup ks : keys_ascending ks -> NoDup ks.
Proof.
  induction ks as [|k ks IH]; intros H; [constructor|].
  constructor.
  - intros Hin. apply keys_ascending_below in H. rewrite Forall_forall in H.
    specialize (H k Hin). rewrite bytes_cmp_refl in H. discriminate.
  - apply IH. apply keys_ascending_cons in H. exact (proj2 H).
Qed.

Lemma Forall_snd_assoc_set {A} (P : A -> Prop) k v : forall l,
  P v -> Forall (fun kv => P (snd kv)) l -> Forall (fun kv : bytes * A => P (snd kv)) (assoc_set k v l).
Proof.
  induction l as [|[k' v'] r IH]; intros Hv Hl; cbn [assoc_set].
  - constructor; [exact Hv|constructor].
  - inversion Hl as [|? ? Hh Hr]; subst.
    destruct (bytes_cmp k k').
    + constructor; [exact Hv|exact Hr].
    + constructor; [exact Hv|exact Hl].
    + constructor; [exact Hh|apply IH; assumption].
Qed.

(* a canonical JSON object: the two sortedness predicates agree *)
Lemma wf_obj_keys l : wf_jvalue (JObj l) -> keys_ascending (map fst l).
Proof. intros H. inversion H as [| | | | |l' Hs Hf]; subst. apply keys_ascending_iff_sorted. exact Hs. Qed.

Lemma wf_obj_members l : wf_jvalue (JObj l) -> Forall (fun kv => wf_jvalue (snd kv)) l.
Proof. intros H. inversion H as [| | | | |l' Hs Hf]; subst. exact Hf. Qed.

Lemma wf_obj_nil : wf_jvalue (JObj []).
Proof. constructor; constructor. Qed.

(* m[k] = v on a canonical object with a canonical value *)
Lemma wf_obj_assoc_set k v l : wf_jvalue v -> wf_jvalue (JObj l) -> wf_jvalue (JObj (assoc_set k v l)).
Proof.
  intros Hv H. inversion H as [| | | | |l' Hs Hf]; subst. constructor.
  - exact (assoc_set_sorted k v l Hs).
  - apply Forall_snd_assoc_set; assumption.
Qed.

(* ================================================================== *)
(* 2. the decoder                                                       *)

Definition frame_wf (fr : Decode.frame) : Prop :=
  match fr with
  | FArr items => Forall wf_jvalue items
  | FObjKey f | FObjColon f _ | FObjVal f _ | FObjNext f => wf_jvalue (JObj f)
  end.

(* every member list on the stack of the automaton is canonical *)
Definition sstate_wf (st : sstate) : Prop :=
  Forall frame_wf (s_stack st) /\ (forall v, s_top st = Some v -> wf_jvalue v).

Definition sres_wf (r : sres) : Prop :=
  match r with
  | RCont st => sstate_wf st
  | RDone v _ _ => wf_jvalue v
  | RErr | RBug => True
  end.

Lemma sstate_wf_init : sstate_wf s_init.
Proof. split; [constructor|intros v H; discriminate]. Qed.

Lemma sstate_wf_same st st' :
  s_stack st' = s_stack st -> s_top st' = s_top st -> sstate_wf st -> sstate_wf st'.
Proof. intros E1 E2 [H1 H2]. split; [rewrite E1; exact H1|rewrite E2; exact H2]. Qed.

Lemma lrev_Forall {A} (P : A -> Prop) l : Forall P l -> Forall P (lrev l).
Proof.
  intros H. unfold lrev. rewrite rev_append_rev, app_nil_r. apply Forall_rev. exact H.
Qed.

Lemma push_value_wf v st st' :
  wf_jvalue v -> sstate_wf st -> push_value v st = Some st' -> sstate_wf st'.
Proof.
  intros Hv [Hs Ht] H. unfold push_value in H.
  destruct (s_stack st) as [|fr r] eqn:Es.
  - inversion H; subst. split; cbn; [constructor|]. intros v' E. inversion E; subst. exact Hv.
  - inversion Hs as [|? ? Hfr Hr]; subst.
    destruct fr as [items|f|f k|f k|f]; try discriminate; inversion H; subst; split; cbn; try exact Ht.
    + constructor; [|exact Hr]. cbn. constructor; [exact Hv|exact Hfr].
    + constructor; [|exact Hr]. cbn. apply wf_obj_assoc_set; assumption.
Qed.

Lemma cont_opt_wf o : (forall st, o = Some st -> sstate_wf st) -> sres_wf (cont_opt o).
Proof. intros H. destruct o as [st|]; cbn; [apply H; reflexivity|exact I]. Qed.

Lemma lit_mode_wf st m c : sstate_wf st -> sres_wf (lit_mode st m c).
Proof. intros H. cbn. eapply sstate_wf_same; [| |exact H]; reflexivity. Qed.

Lemma close_container_wf v r st :
  wf_jvalue v -> Forall frame_wf r -> (forall v', s_top st = Some v' -> wf_jvalue v') ->
  sres_wf (close_container v r st).
Proof.
  intros Hv Hr Ht. unfold close_container. destruct r as [|fr r']; [exact Hv|].
  apply cont_opt_wf. intros st' E. eapply push_value_wf; [exact Hv| |exact E].
  split; [exact Hr|exact Ht].
Qed.

Lemma step_endvalue_wf st c : sstate_wf st -> sres_wf (step_endvalue st c).
Proof.
  intros [Hs Ht]. unfold step_endvalue.
  destruct (s_stack st) as [|fr r] eqn:Es.
  - destruct (s_top st) as [v|] eqn:Et; cbn; [apply Ht; reflexivity|exact I].
  - inversion Hs as [|? ? Hfr Hr]; subst.
    destruct (is_space c).
    { cbn. split; cbn; [rewrite Es; exact Hs|exact Ht]. }
    destruct fr as [items|f|f k|f k|f]; try exact I.
    + destruct (c =? 44)%N.
      { cbn. split; cbn; [rewrite Es; exact Hs|exact Ht]. }
      destruct (c =? 93)%N; [|exact I].
      apply close_container_wf; [|exact Hr|exact Ht].
      constructor. apply lrev_Forall. exact Hfr.
    + destruct (c =? 58)%N; [|exact I]. cbn. split; cbn; [|exact Ht].
      constructor; [exact Hfr|exact Hr].
    + destruct (c =? 44)%N.
      { cbn. split; cbn; [|exact Ht]. constructor; [exact Hfr|exact Hr]. }
      destruct (c =? 125)%N; [|exact I].
      apply close_container_wf; [exact Hfr|exact Hr|exact Ht].
Qed.

Lemma open_container_wf st m fr : sstate_wf st -> frame_wf fr -> sres_wf (open_container st m fr).
Proof.
  intros [Hs Ht] Hfr. unfold open_container.
  destruct (s_depth st + 1 <=? max_nesting_depth)%N; [|exact I].
  cbn. split; cbn; [constructor; assumption|exact Ht].
Qed.

Lemma step_beginvalue_wf st c : sstate_wf st -> sres_wf (step_beginvalue st c).
Proof.
  intros H. unfold step_beginvalue.
  repeat match goal with
         | |- sres_wf (if ?b then _ else _) => destruct b
         end;
    first [ exact H | exact I | apply lit_mode_wf; exact H
          | apply open_container_wf; [exact H|] ].
  - exact wf_obj_nil.
  - cbn. constructor.
Qed.

Lemma step_beginstring_wf st c : sstate_wf st -> sres_wf (step_beginstring st c).
Proof.
  intros H. unfold step_beginstring.
  destruct (is_space c); [exact H|]. destruct (c =? 34)%N; [apply lit_mode_wf; exact H|exact I].
Qed.

Lemma finish_string_wf st : sstate_wf st -> sres_wf (finish_string st).
Proof.
  intros H. unfold finish_string. destruct (unquote _) as [s|]; [|exact I].
  assert (Hd : sres_wf (cont_opt (push_value (JStr s) st))).
  { apply cont_opt_wf. intros st' E. eapply push_value_wf; [constructor|exact H|exact E]. }
  destruct (s_stack st) as [|fr r] eqn:Es; [exact Hd|].
  destruct fr as [items|f|f k|f k|f]; try exact Hd.
  destruct H as [Hs Ht]. rewrite Es in Hs. inversion Hs as [|? ? Hfr Hr]; subst.
  cbn. split; cbn; [|exact Ht]. constructor; [exact Hfr|exact Hr].
Qed.

Lemma finish_number_wf st st' : sstate_wf st -> finish_number st = Some st' -> sstate_wf st'.
Proof.
  intros H E. unfold finish_number in E.
  destruct (parse_float _) as [f|f| |]; try discriminate.
  - eapply push_value_wf; [constructor|exact H|exact E].
  - eapply push_value_wf; [constructor| |exact E].
    eapply sstate_wf_same; [| |exact H]; reflexivity.
Qed.

Lemma end_number_wf st c : sstate_wf st -> sres_wf (end_number st c).
Proof.
  intros H. unfold end_number. destruct (finish_number st) as [st'|] eqn:E; [|exact I].
  apply step_endvalue_wf. eapply finish_number_wf; eassumption.
Qed.

Lemma expect_wf st c want m : sstate_wf st -> sres_wf (expect st c want m).
Proof. intros H. unfold expect. destruct (c =? want)%N; [apply lit_mode_wf; exact H|exact I]. Qed.

Lemma expect_last_wf st c want v : wf_jvalue v -> sstate_wf st -> sres_wf (expect_last st c want v).
Proof.
  intros Hv H. unfold expect_last. destruct (c =? want)%N; [|exact I].
  apply cont_opt_wf. intros st' E. eapply push_value_wf; eassumption.
Qed.

Lemma step0_wf st c : sstate_wf st -> sres_wf (step0 st c).
Proof.
  intros H. unfold step0. destruct (c =? 46)%N; [apply lit_mode_wf; exact H|].
  destruct (is_e c); [apply lit_mode_wf; exact H|apply end_number_wf; exact H].
Qed.

Lemma step_esign_wf st c : sstate_wf st -> sres_wf (step_esign st c).
Proof. intros H. unfold step_esign. destruct (is_ascii_digit c); [apply lit_mode_wf; exact H|exact I]. Qed.

Lemma step_hex_wf st c m : sstate_wf st -> sres_wf (step_hex st c m).
Proof. intros H. unfold step_hex. destruct (is_hex c); [apply lit_mode_wf; exact H|exact I]. Qed.

(* one byte of input keeps the automaton canonical; a completed value is canonical *)
Lemma step_wf st c : sstate_wf st -> sres_wf (step st c).
Proof.
  intros H. unfold step.
  destruct (s_mode st);
    repeat match goal with
           | |- sres_wf (if ?b then _ else _) => destruct b
           end;
    try first [ exact H | exact I
              | apply lit_mode_wf; exact H
              | apply step_beginvalue_wf; exact H
              | apply step_beginstring_wf; exact H
              | apply step_endvalue_wf; exact H
              | apply finish_string_wf; exact H
              | apply end_number_wf; exact H
              | apply step0_wf; exact H
              | apply step_esign_wf; exact H
              | apply step_hex_wf; exact H
              | apply expect_wf; exact H
              | apply expect_last_wf; [constructor|exact H] ].
  (* MBeginStringOrEmpty, '}' *)
  destruct H as [Hs Ht]. destruct (s_stack st) as [|fr r] eqn:Es; [exact I|].
  inversion Hs as [|? ? Hfr Hr]; subst.
  destruct fr as [items|f|f k|f k|f]; try exact I.
  apply close_container_wf; assumption.
Qed.

Definition scan_out_wf (o : scan_out) : Prop :=
  match o with
  | ScDone v _ _ => wf_jvalue v
  | ScMore st => sstate_wf st
  | ScErr | ScBug => True
  end.

Lemma scan_wf : forall s st, sstate_wf st -> scan_out_wf (scan st s).
Proof.
  induction s as [|c r IH]; intros st H; cbn [scan]; [exact H|].
  pose proof (step_wf st c H) as Hst.
  destruct (step st c) as [st'|v rng consumed| |]; cbn in *; auto.
Qed.

Lemma at_eof_wf st all v rng : sstate_wf st -> at_eof st all = EoValue v rng -> wf_jvalue v.
Proof.
  intros H E. unfold at_eof in E. pose proof (step_wf st 32%N H) as Hst.
  destruct (step st 32%N) as [st'|v' rng' consumed| |]; cbn in *.
  - destruct (forallb is_space all); discriminate.
  - inversion E; subst. exact Hst.
  - destruct (forallb is_space all); discriminate.
  - discriminate.
Qed.

(* one Decode call on the whole remaining input *)
Lemma decode_next_wf s : dec_result_sorted (decode_next s).
Proof.
  unfold decode_next. pose proof (scan_wf s s_init sstate_wf_init) as Hsc.
  destruct (scan s_init s) as [v rng rest| | |st] eqn:E; cbn in *; try exact I.
  - destruct rng; [exact I|exact Hsc].
  - destruct (at_eof st s) as [v rng| | |] eqn:Ea; try exact I.
    destruct rng; [exact I|]. cbn. eapply at_eof_wf; eassumption.
Qed.

Lemma value_result_wf v rng : wf_jvalue v -> step_result_sorted (value_result v rng).
Proof. intros H. unfold value_result. destruct rng; [exact I|exact H]. Qed.

Lemma read_value_wf : forall chs fl st rseen new,
  sstate_wf st -> step_result_sorted (fst (fst (read_value chs fl st rseen new))).
Proof.
  induction chs as [|c chs IH]; intros fl st rseen new H; cbn [read_value];
    pose proof (scan_wf new st H) as Hsc;
    destruct (scan st new) as [v rng rest| | |st'] eqn:E; cbn in Hsc |- *;
    try exact I; try (apply value_result_wf; exact Hsc).
  - destruct fl; [exact I|].
    destruct (at_eof st' (unscanned rseen new)) as [v rng| | |] eqn:Ea; cbn; try exact I.
    apply value_result_wf. eapply at_eof_wf; eassumption.
  - specialize (IH fl st' (rev_append new rseen) c Hsc).
    destruct (read_value chs fl st' (rev_append new rseen) c) as [[r d] evs]. exact IH.
Qed.

(* Decoder.Decode over a chunked reader *)
Lemma dec_step_wf d : step_result_sorted (fst (fst (dec_step d))).
Proof.
  unfold dec_step. destruct (hit_eof d); [exact I|]. destruct (sticky_err d); [exact I|].
  apply read_value_wf. exact sstate_wf_init.
Qed.

(* every decoded document is canonical: duplicate keys collapse (last one wins), the
   members come out in ascending byte order *)
Theorem decoded_objects_sorted_proof :
  (forall s, dec_result_sorted (decode_next s)) /\
  (forall d, step_result_sorted (fst (fst (dec_step d)))).
Proof. split; [exact decode_next_wf|exact dec_step_wf]. Qed.

(* ================================================================== *)
(* 3. the heap                                                          *)

Lemma sorted_objs_eq h h' : objs h' = objs h -> heap_objs_sorted h -> heap_objs_sorted h'.
Proof. intros E H oid. unfold get_obj. rewrite E. apply H. Qed.

Lemma sorted_store h a v : heap_objs_sorted h -> heap_objs_sorted (store h a v).
Proof. apply sorted_objs_eq. reflexivity. Qed.

Lemma sorted_alloc h v : heap_objs_sorted h -> heap_objs_sorted (snd (alloc h v)).
Proof. apply sorted_objs_eq. reflexivity. Qed.

Lemma append_at_objs h pa c : objs (append_at h pa c) = objs h.
Proof.
  unfold append_at. destruct (load h pa); try reflexivity.
  destruct (Nat.ltb _ _); reflexivity.
Qed.

Lemma sorted_append_at h pa c : heap_objs_sorted h -> heap_objs_sorted (append_at h pa c).
Proof. apply sorted_objs_eq. apply append_at_objs. Qed.

Lemma sorted_new_empty_array h : heap_objs_sorted h -> heap_objs_sorted (snd (new_empty_array h)).
Proof. apply sorted_objs_eq. reflexivity. Qed.

Lemma sorted_new_array_of h l : heap_objs_sorted h -> heap_objs_sorted (snd (new_array_of h l)).
Proof. apply sorted_objs_eq. reflexivity. Qed.

(* a new object with ascending keys *)
Lemma sorted_new_obj h l :
  keys_ascending (map fst l) -> heap_objs_sorted h -> heap_objs_sorted (snd (new_obj h l)).
Proof.
  intros Hl H oid. unfold new_obj, get_obj. cbn [snd objs].
  destruct (Pos.eq_dec oid (next h)) as [->|Hne].
  - rewrite PM.gss. exact Hl.
  - rewrite PM.gso by exact Hne. apply H.
Qed.

Lemma sorted_new_empty_object h : heap_objs_sorted h -> heap_objs_sorted (snd (new_empty_object h)).
Proof. intros H. exact (sorted_new_obj h [] I H). Qed.

(* NewValue of a canonical document *)
Definition nv_sorted (x : jvalue) : Prop :=
  wf_jvalue x -> forall h, heap_objs_sorted h -> heap_objs_sorted (snd (new_value x h)).

Lemma nv_items_sorted : forall l, Forall nv_sorted l -> Forall wf_jvalue l ->
  forall h, heap_objs_sorted h -> heap_objs_sorted (snd (Pure.nv_items l h)).
Proof.
  induction l as [|x r IH]; intros HP Hw h H; cbn [Pure.nv_items]; [exact H|].
  inversion HP as [|? ? Hx Hr]; subst. inversion Hw as [|? ? Wx Wr]; subst.
  specialize (Hx Wx h H). destruct (new_value x h) as [v h1]. cbn [snd] in Hx.
  pose proof (sorted_alloc h1 v Hx) as Ha. destruct (alloc h1 v) as [a h2]. cbn [snd] in Ha.
  specialize (IH Hr Wr h2 Ha). destruct (Pure.nv_items r h2) as [rest h3]. exact IH.
Qed.

Lemma nv_fields_sorted : forall l, Forall (fun kv => nv_sorted (snd kv)) l ->
  Forall (fun kv => wf_jvalue (snd kv)) l ->
  forall h, heap_objs_sorted h ->
    heap_objs_sorted (snd (Pure.nv_fields l h)) /\ map fst (fst (Pure.nv_fields l h)) = map fst l.
Proof.
  induction l as [|[k x] r IH]; intros HP Hw h H; cbn [Pure.nv_fields]; [split; [exact H|reflexivity]|].
  inversion HP as [|? ? Hx Hr]; subst. inversion Hw as [|? ? Wx Wr]; subst. cbn [snd] in Hx, Wx.
  specialize (Hx Wx h H). destruct (new_value x h) as [v h1]. cbn [snd] in Hx.
  pose proof (sorted_alloc h1 v Hx) as Ha. destruct (alloc h1 v) as [a h2]. cbn [snd] in Ha.
  specialize (IH Hr Wr h2 Ha). destruct (Pure.nv_fields r h2) as [rest h3].
  cbn [fst snd map] in *. destruct IH as [I1 I2]. split; [exact I1|rewrite I2; reflexivity].
Qed.

Lemma new_value_sorted : forall j, nv_sorted j.
Proof.
  induction j as [| b | f | s | l IHl | l IHl] using jvalue_ind'; intros Hw h H; try exact H.
  - rewrite Pure.new_value_arr.
    inversion Hw as [| | | |l' Hl|]; subst.
    pose proof (nv_items_sorted l IHl Hl h H) as Hi.
    destruct (Pure.nv_items l h) as [cs h1]. cbn [snd] in Hi.
    apply sorted_new_array_of. exact Hi.
  - rewrite Pure.new_value_obj.
    pose proof (wf_obj_keys l Hw) as Hk. pose proof (wf_obj_members l Hw) as Hm.
    destruct (nv_fields_sorted l IHl Hm h H) as [Hi Hkeys].
    destruct (Pure.nv_fields l h) as [kvs h1]. cbn [fst snd] in Hi, Hkeys.
    pose proof (sorted_new_obj h1 kvs) as Hn. rewrite Hkeys in Hn. specialize (Hn Hk Hi).
    destruct (new_obj h1 kvs) as [o h2]. exact Hn.
Qed.

(* ================================================================== *)
(* 4. the evaluator and the driver                                      *)

Lemma ks_ret {A} (a : A) : keeps_sorted (ret a).
Proof. intros s r s' H E. inversion E; subst. exact H. Qed.

Lemma ks_fail {A} (r : res A) : keeps_sorted (fail r).
Proof. intros s r0 s' H E. inversion E; subst. exact H. Qed.

Lemma ks_bind {A B} (m : M A) (k : A -> M B) :
  keeps_sorted m -> (forall a, keeps_sorted (k a)) -> keeps_sorted (bind m k).
Proof.
  intros Hm Hk s r s' H E. unfold bind in E.
  destruct (m s) as [[a|e|x| | |] s1] eqn:Em;
    try (inversion E; subst; eapply Hm; eassumption).
  eapply Hk; [|exact E]. eapply Hm; eassumption.
Qed.

Lemma ks_catch {A} (m : M A) : keeps_sorted m -> keeps_sorted (catch m).
Proof.
  intros Hm s r s' H E. unfold catch in E. destruct (m s) as [r0 s1] eqn:Em.
  inversion E; subst. eapply Hm; eassumption.
Qed.

Lemma ks_reraise {A B} (r : res A) : keeps_sorted (@reraise A B r).
Proof. destruct r; apply ks_fail. Qed.

(* a computation that leaves the heap alone *)
Lemma ks_same_hp {A} (m : M A) : (forall s r s', m s = (r, s') -> hp s' = hp s) -> keeps_sorted m.
Proof. intros Hm s r s' H E. unfold sorted_state. rewrite (Hm _ _ _ E). exact H. Qed.

Ltac same_hp :=
  apply ks_same_hp;
  let s := fresh "s" in let r := fresh "r" in let s' := fresh "s'" in let E := fresh "E" in
  intros s r s' E;
  repeat match type of E with
         | context [match ?x with _ => _ end] => destruct x
         end;
  inversion E; reflexivity.

Lemma ks_get_heap : keeps_sorted get_heap. Proof. unfold get_heap. same_hp. Qed.
Lemma ks_get_st : keeps_sorted get_st. Proof. unfold get_st. same_hp. Qed.
Lemma ks_m_load a : keeps_sorted (m_load a). Proof. unfold m_load. same_hp. Qed.
Lemma ks_set_frames fs : keeps_sorted (set_frames fs). Proof. unfold set_frames. same_hp. Qed.
Lemma ks_set_rule_root a : keeps_sorted (set_rule_root a). Proof. unfold set_rule_root. same_hp. Qed.
Lemma ks_set_root a : keeps_sorted (set_root a). Proof. unfold set_root. same_hp. Qed.
Lemma ks_set_retval a : keeps_sorted (set_retval a). Proof. unfold set_retval. same_hp. Qed.
Lemma ks_emit b : keeps_sorted (emit b). Proof. unfold emit. same_hp. Qed.
Lemma ks_log_io evs : keeps_sorted (log_io evs). Proof. unfold log_io. same_hp. Qed.
Lemma ks_note_signal t : keeps_sorted (note_signal t). Proof. unfold note_signal. same_hp. Qed.
Lemma ks_raise_err {A} e : keeps_sorted (@raise_err A e). Proof. unfold raise_err. same_hp. Qed.
Lemma ks_push_frame name : keeps_sorted (push_frame name). Proof. unfold push_frame. same_hp. Qed.
Lemma ks_pop_frame : keeps_sorted pop_frame. Proof. unfold pop_frame. same_hp. Qed.
Lemma ks_set_local name a : keeps_sorted (set_local name a). Proof. unfold set_local. same_hp. Qed.
Lemma ks_set_global name a : keeps_sorted (set_global name a). Proof. unfold set_global. same_hp. Qed.

(* the two ways the heap is written *)
Lemma ks_upd_heap f :
  (forall h, heap_objs_sorted h -> heap_objs_sorted (f h)) -> keeps_sorted (upd_heap f).
Proof. intros Hf s r s' H E. inversion E; subst. apply Hf. exact H. Qed.

Lemma ks_with_heap {A} (f : heap -> A * heap) :
  (forall h, heap_objs_sorted h -> heap_objs_sorted (snd (f h))) -> keeps_sorted (with_heap f).
Proof.
  intros Hf s r s' H E. unfold with_heap in E. specialize (Hf (hp s) H).
  destruct (f (hp s)) as [a h']. inversion E; subst. exact Hf.
Qed.

Lemma ks_m_store a v : keeps_sorted (m_store a v).
Proof. apply ks_upd_heap. intros h H. apply sorted_store. exact H. Qed.

Lemma ks_m_alloc v : keeps_sorted (m_alloc v).
Proof. apply ks_with_heap. intros h H. apply sorted_alloc. exact H. Qed.

Lemma ks_bool_cell b : keeps_sorted (bool_cell b). Proof. apply ks_m_alloc. Qed.
Lemma ks_nil_cell : keeps_sorted nil_cell. Proof. apply ks_m_alloc. Qed.

Lemma ks_get_variable name : keeps_sorted (get_variable name).
Proof.
  intros s r s' H E. unfold get_variable in E.
  destruct (lookup_frames (frames s) name); [inversion E; subst; exact H|].
  assert (K : keeps_sorted (bind (m_alloc VUnknown) (fun a => bind (set_local name a) (fun _ => ret (Some a))))).
  { apply ks_bind; [apply ks_m_alloc|intros a]. apply ks_bind; [apply ks_set_local|intros _; apply ks_ret]. }
  destruct name as [|b name']; [eapply K; eassumption|].
  destruct b; try (eapply K; eassumption).
  repeat match type of E with
         | context [match ?x with _ => _ end] => destruct x
         end; first [ inversion E; subst; exact H | eapply K; eassumption ].
Qed.

Lemma ks_rt_error {A} src t : keeps_sorted (@rt_error src A t).
Proof. unfold rt_error. destruct (get_line_col src (tpos t)) as [[tx ln] cl]. apply ks_raise_err. Qed.

Lemma ks_tok_string src t : keeps_sorted (tok_string src t).
Proof. unfold tok_string. destruct (get_string src t); [apply ks_ret|apply ks_fail]. Qed.

(* ---------------- the tactic that walks a bind spine
   ([ks_head] chooses the lemma by the HEAD of the computation, syntactically; trying every
   primitive lemma with [apply] makes Coq unify e.g. [get_variable ?n] with a [bind] by
   unfolding both, which takes minutes on new_evaluator) *)

Ltac heap_goal :=
  cbv beta;
  first [ assumption
        | apply sorted_store | apply sorted_alloc | apply sorted_append_at
        | apply heap_sorted_set_member
        | apply sorted_new_empty_object | apply sorted_new_empty_array | apply sorted_new_array_of ];
  assumption.

(* one step, chosen by the head of the computation (syntactically: no speculative unification) *)
Ltac ks_head :=
  lazymatch goal with
  | |- keeps_sorted (bind _ _) => apply ks_bind; [ | intros ? ]
  | |- keeps_sorted (ret _) => apply ks_ret
  | |- keeps_sorted (fail _) => apply ks_fail
  | |- keeps_sorted (catch _) => apply ks_catch
  | |- keeps_sorted (reraise _) => apply ks_reraise
  | |- keeps_sorted get_heap => apply ks_get_heap
  | |- keeps_sorted get_st => apply ks_get_st
  | |- keeps_sorted (m_load _) => apply ks_m_load
  | |- keeps_sorted (m_store _ _) => apply ks_m_store
  | |- keeps_sorted (m_alloc _) => apply ks_m_alloc
  | |- keeps_sorted (bool_cell _) => apply ks_bool_cell
  | |- keeps_sorted nil_cell => apply ks_nil_cell
  | |- keeps_sorted (get_variable _) => apply ks_get_variable
  | |- keeps_sorted (rt_error _ _) => apply ks_rt_error
  | |- keeps_sorted (tok_string _ _) => apply ks_tok_string
  | |- keeps_sorted (set_frames _) => apply ks_set_frames
  | |- keeps_sorted (set_local _ _) => apply ks_set_local
  | |- keeps_sorted (set_global _ _) => apply ks_set_global
  | |- keeps_sorted (set_retval _) => apply ks_set_retval
  | |- keeps_sorted (set_rule_root _) => apply ks_set_rule_root
  | |- keeps_sorted (set_root _) => apply ks_set_root
  | |- keeps_sorted (emit _) => apply ks_emit
  | |- keeps_sorted (log_io _) => apply ks_log_io
  | |- keeps_sorted (note_signal _) => apply ks_note_signal
  | |- keeps_sorted (raise_err _) => apply ks_raise_err
  | |- keeps_sorted (push_frame _) => apply ks_push_frame
  | |- keeps_sorted pop_frame => apply ks_pop_frame
  | |- keeps_sorted (upd_heap _) =>
      apply ks_upd_heap; let h := fresh "h" in let Hh := fresh "Hh" in intros h Hh; heap_goal
  | |- keeps_sorted (with_heap (match ?x with _ => _ end)) => destruct x
  | |- keeps_sorted (with_heap _) =>
      apply ks_with_heap; let h := fresh "h" in let Hh := fresh "Hh" in intros h Hh; heap_goal
  | |- keeps_sorted (let _ := _ in _) => cbv zeta
  | |- keeps_sorted (match ?x with _ => _ end) => destruct x eqn:?
  end.

Ltac ks_hyp := match goal with H : _ |- _ => solve [apply H] end.

Ltac walk_step extra := first [ ks_head | ks_hyp | extra ].

Ltac walk_with extra := repeat (walk_step extra).
Ltac nope := fail.
Ltac walk := walk_with nope.

(* ---------------- non-recursive helpers of Sem/Eval.v and Sem/Natives.v *)

Lemma ks_get_identifier src t : keeps_sorted (get_identifier src t).
Proof. unfold get_identifier. walk. Qed.

Lemma ks_as_float_m v : keeps_sorted (as_float_m v).
Proof. unfold as_float_m. walk. Qed.

Lemma ks_pretty_m v : keeps_sorted (pretty_m v).
Proof. unfold pretty_m. walk. Qed.

Lemma ks_print_args cells : forall first, keeps_sorted (print_args cells first).
Proof.
  induction cells as [|c r IH]; intros first; cbn [print_args]; walk_with ltac:(apply ks_pretty_m).
Qed.

Lemma ks_lift_vres src r tl top tr : keeps_sorted (lift_vres src r tl top tr).
Proof. unfold lift_vres. walk. Qed.

Lemma ks_fill recv k : forall last,
  keeps_sorted ((fix fill (k : nat) (last : addr) {struct k} : M addr :=
          match k with
          | O => ret last
          | S k' =>
            let* c := nil_cell in
            upd_heap (fun h => append_at h recv c) ;;;
            fill k' c
          end) k last).
Proof. induction k as [|k IH]; intros last; cbv beta iota; walk. Qed.

(* Value.SetMember: m[k] = cell goes through assoc_set *)
Lemma ks_set_member_l recv m cell : keeps_sorted (set_member recv m cell).
Proof. unfold set_member. walk_with ltac:(apply ks_fill). Qed.

Lemma ks_create_speculative_l n : forall spec, keeps_sorted (create_speculative n spec).
Proof.
  induction n as [|n IH]; intros spec; cbn [create_speculative]; walk_with ltac:(apply ks_set_member_l).
Qed.

Lemma ks_eval_assignment_l src n tok l r : keeps_sorted (eval_assignment src n tok l r).
Proof. unfold eval_assignment. walk_with ltac:(apply ks_create_speculative_l). Qed.

Lemma ks_this_value this : keeps_sorted (this_value this).
Proof. unfold this_value. walk. Qed.

Lemma ks_alloc_all vs : keeps_sorted (alloc_all vs).
Proof. induction vs as [|v r IH]; cbn [alloc_all]; walk. Qed.

(* pluck builds its result with assoc_set, key by key *)
Lemma ks_pluck_loop thisv oid keys : keeps_sorted (pluck_loop thisv oid keys).
Proof. induction keys as [|k r IH]; cbn [pluck_loop]; walk. Qed.

Lemma ks_native_call_l nf args this : keeps_sorted (native_call nf args this).
Proof.
  unfold native_call.
  apply ks_bind; [apply ks_this_value|intros tv].
  apply ks_bind; [apply ks_get_heap|intros h].
  destruct nf;
    walk_with ltac:(first [apply ks_alloc_all | apply ks_pluck_loop | apply ks_this_value]).
Qed.

(* ---------------- the mutually recursive evaluator *)

Section Mutual.
  Variable src : bytes.
  Variable funcs : list func.
  Variable fuzzing : bool.

  Record all_ks (n : nat) : Prop := {
    k_expr : forall e, keeps_sorted (eval_expr src funcs fuzzing n e);
    k_match_cases : forall t sub cs, keeps_sorted (eval_match_cases src funcs fuzzing n t sub cs);
    k_case_match : forall sub ps, keeps_sorted (eval_case_match src funcs fuzzing n sub ps);
    k_call : forall tok fc args, keeps_sorted (call_function src funcs fuzzing n tok fc args);
    k_unary : forall x op pf, keeps_sorted (eval_unary src funcs fuzzing n x op pf);
    k_binary : forall l r op, keeps_sorted (eval_binary src funcs fuzzing n l r op);
    k_expr_list : forall es c, keeps_sorted (eval_expr_list src funcs fuzzing n es c);
    k_stmt : forall s, keeps_sorted (eval_stmt src funcs fuzzing n s);
    k_body : forall b, keeps_sorted (eval_body src funcs fuzzing n b);
    k_while : forall c b k, keeps_sorted (eval_while src funcs fuzzing n c b k);
    k_for : forall c p b k, keeps_sorted (eval_for src funcs fuzzing n c p b k);
    k_forin_arr : forall lo ix bid off len i b,
        keeps_sorted (eval_forin_arr src funcs fuzzing n lo ix bid off len i b);
    k_forin_obj : forall lo ix oid keys b, keeps_sorted (eval_forin_obj src funcs fuzzing n lo ix oid keys b);
    k_forin_str : forall lo ix rs b, keeps_sorted (eval_forin_str src funcs fuzzing n lo ix rs b)
  }.

  Lemma all_ks_O : all_ks 0.
  Proof. constructor; intros; apply ks_fail. Qed.

  Ltac ext :=
    first [ apply ks_get_identifier | apply ks_as_float_m | apply ks_pretty_m
          | apply ks_print_args | apply ks_lift_vres | apply ks_eval_assignment_l
          | apply ks_native_call_l ].

  Ltac use_ih IH :=
    first [ apply (k_expr _ IH) | apply (k_match_cases _ IH) | apply (k_case_match _ IH)
          | apply (k_call _ IH) | apply (k_unary _ IH) | apply (k_binary _ IH)
          | apply (k_expr_list _ IH) | apply (k_stmt _ IH) | apply (k_body _ IH)
          | apply (k_while _ IH) | apply (k_for _ IH) | apply (k_forin_arr _ IH)
          | apply (k_forin_obj _ IH) | apply (k_forin_str _ IH) ].

  Ltac go IH := walk_with ltac:(first [ext | use_ih IH]).

  Lemma kstep_expr n (IH : all_ks n) e : keeps_sorted (eval_expr src funcs fuzzing (S n) e).
  Proof.
    rewrite eval_expr_S. destruct e; go IH.
    (* the fields of an object literal: each one is stored with assoc_set *)
    match goal with |- keeps_sorted (_ ?l) => induction l as [|[k x] r IHr] end;
      cbv beta iota; go IH.
  Qed.

  Lemma bindall_ks (l : list (bytes * addr)) :
    keeps_sorted ((fix bindall (l : list (bytes * addr)) : M unit :=
            match l with
            | [] => ret tt
            | (k, a) :: r => set_local k a ;;; bindall r
            end) l).
  Proof. induction l as [|[k a] r IHr]; cbv beta iota; walk. Qed.

  Lemma kstep_match_cases n (IH : all_ks n) t sub cs :
    keeps_sorted (eval_match_cases src funcs fuzzing (S n) t sub cs).
  Proof.
    rewrite eval_match_cases_S. destruct cs as [|[pats body] rest];
      walk_with ltac:(first [ext | use_ih IH | apply bindall_ks]).
  Qed.

  Lemma kstep_case_match n (IH : all_ks n) sub ps :
    keeps_sorted (eval_case_match src funcs fuzzing (S n) sub ps).
  Proof.
    rewrite eval_case_match_S. destruct ps as [|p rest]; go IH.
    (* the element loop of an array pattern *)
    match goal with |- keeps_sorted (_ ?cs ?ps ?acc) => generalize acc; generalize ps; generalize cs end.
    intros cs. induction cs as [|c cs IHcs]; intros ps acc; cbv beta iota; go IH.
  Qed.

  Lemma bindp_ks ps : forall avs, keeps_sorted (EvalInv.bindp_fix ps avs).
  Proof.
    induction ps as [|p ps IHps]; intros avs; unfold EvalInv.bindp_fix; cbv beta iota;
      fold EvalInv.bindp_fix; walk.
  Qed.

  Lemma kstep_call n (IH : all_ks n) tok fc args :
    keeps_sorted (call_function src funcs fuzzing (S n) tok fc args).
  Proof.
    rewrite call_function_S.
    walk_with ltac:(first [ext | use_ih IH | apply bindp_ks]).
  Qed.

  Lemma kstep_unary n (IH : all_ks n) x op pf : keeps_sorted (eval_unary src funcs fuzzing (S n) x op pf).
  Proof. rewrite eval_unary_S. go IH. Qed.

  Lemma kstep_binary n (IH : all_ks n) l r op : keeps_sorted (eval_binary src funcs fuzzing (S n) l r op).
  Proof. rewrite eval_binary_S. go IH. Qed.

  Lemma kstep_expr_list n (IH : all_ks n) es c : keeps_sorted (eval_expr_list src funcs fuzzing (S n) es c).
  Proof. rewrite eval_expr_list_S. go IH. Qed.

  Lemma kstep_stmt n (IH : all_ks n) s : keeps_sorted (eval_stmt src funcs fuzzing (S n) s).
  Proof.
    rewrite eval_stmt_S. destruct s; go IH.
    (* the statements of a block *)
    match goal with |- keeps_sorted (_ ?l) => induction l as [|x r IHr] end;
      cbv beta iota; go IH.
  Qed.

  Lemma kstep_body n (IH : all_ks n) b : keeps_sorted (eval_body src funcs fuzzing (S n) b).
  Proof. rewrite eval_body_S. go IH. Qed.

  Lemma kstep_while n (IH : all_ks n) c b k : keeps_sorted (eval_while src funcs fuzzing (S n) c b k).
  Proof. rewrite eval_while_S. go IH. Qed.

  Lemma kstep_for n (IH : all_ks n) c p b k : keeps_sorted (eval_for src funcs fuzzing (S n) c p b k).
  Proof. rewrite eval_for_S. go IH. Qed.

  Lemma kstep_forin_arr n (IH : all_ks n) lo ix bid off len i b :
    keeps_sorted (eval_forin_arr src funcs fuzzing (S n) lo ix bid off len i b).
  Proof. rewrite eval_forin_arr_S. go IH. Qed.

  Lemma kstep_forin_obj n (IH : all_ks n) lo ix oid keys b :
    keeps_sorted (eval_forin_obj src funcs fuzzing (S n) lo ix oid keys b).
  Proof. rewrite eval_forin_obj_S. go IH. Qed.

  Lemma kstep_forin_str n (IH : all_ks n) lo ix rs b :
    keeps_sorted (eval_forin_str src funcs fuzzing (S n) lo ix rs b).
  Proof. rewrite eval_forin_str_S. go IH. Qed.

  (* the one induction on fuel *)
  Theorem all_ks_n : forall n, all_ks n.
  Proof.
    induction n as [|n IH]; [apply all_ks_O|].
    constructor; intros.
    - apply kstep_expr; assumption.
    - apply kstep_match_cases; assumption.
    - apply kstep_case_match; assumption.
    - apply kstep_call; assumption.
    - apply kstep_unary; assumption.
    - apply kstep_binary; assumption.
    - apply kstep_expr_list; assumption.
    - apply kstep_stmt; assumption.
    - apply kstep_body; assumption.
    - apply kstep_while; assumption.
    - apply kstep_for; assumption.
    - apply kstep_forin_arr; assumption.
    - apply kstep_forin_obj; assumption.
    - apply kstep_forin_str; assumption.
  Qed.
End Mutual.

(* ---------------- the rule loops *)

Section Rules.
  Variable src : bytes.
  Variable funcs : list func.
  Variable fuzzing : bool.

  Ltac use_n n :=
    first [ apply (k_expr _ _ _ _ (all_ks_n src funcs fuzzing n))
          | apply (k_stmt _ _ _ _ (all_ks_n src funcs fuzzing n)) ].

  Lemma ks_eval_rules_l n rules : keeps_sorted (eval_rules src funcs fuzzing n rules).
  Proof.
    induction rules as [|r rest IHr]; cbn [eval_rules]; walk_with ltac:(use_n n).
  Qed.

  Lemma ks_eval_elements_l n rules bid off len : forall k i,
    keeps_sorted (eval_elements src funcs fuzzing n rules bid off len k i).
  Proof.
    induction k as [|k IHk]; intros i; cbn [eval_elements]; walk_with ltac:(apply ks_eval_rules_l).
  Qed.

  Lemma ks_eval_pattern_rules_l n rules : keeps_sorted (eval_pattern_rules src funcs fuzzing n rules).
  Proof.
    unfold eval_pattern_rules.
    walk_with ltac:(first [apply ks_eval_rules_l | apply ks_eval_elements_l]).
  Qed.
End Rules.

(* ---------------- the driver *)

Lemma ks_add_functions src fns : forall idx, keeps_sorted (add_functions src fns idx).
Proof. induction fns as [|fn rest IH]; intros idx; cbn [add_functions]; walk. Qed.

Lemma ks_new_evaluator_l src fns : keeps_sorted (new_evaluator src fns).
Proof. unfold new_evaluator. walk_with ltac:(apply ks_add_functions). Qed.

Lemma ks_stray {A} src tok (r : res A) : keeps_sorted (stray src tok r).
Proof. unfold stray. walk. Qed.

(* the private evaluator of a root selector shares the heap *)
Lemma ks_isolate {A} (m : M A) : keeps_sorted m -> keeps_sorted (isolate m).
Proof.
  intros Hm s r s' H E. unfold isolate in E.
  destruct (m (mkSt (hp s) [] None None None (io s))) as [r1 s1] eqn:Em.
  inversion E; subst. unfold sorted_state. cbn [hp].
  eapply Hm; [|exact Em]. exact H.
Qed.

Lemma ks_selector_tail n sel doc e : wf_jvalue doc -> keeps_sorted (selector_tail n sel doc e).
Proof.
  intros Hd. unfold selector_tail, new_evaluator_tail.
  walk_with ltac:(first [ apply ks_add_functions | apply ks_stray
                        | apply (k_expr _ _ _ _ (all_ks_n sel [] false n))
                        | apply ks_with_heap; intros h Hh; apply new_value_sorted; assumption ]).
Qed.

Lemma ks_eval_selector_l n sel doc : wf_jvalue doc -> keeps_sorted (eval_selector n sel doc).
Proof.
  intros Hd s r s' H E. rewrite eval_selector_eq in E.
  destruct (parse_expression_src sel) as [e p|pos| |].
  - revert E. apply ks_isolate; [|exact H].
    apply ks_bind; [apply ks_set_frames|intros _]. apply ks_selector_tail. exact Hd.
  - revert E. apply ks_raise_err. exact H.
  - inversion E; subst. exact H.
  - inversion E; subst. exact H.
Qed.

Section Run.
  Variable src : bytes.
  Variable prog : program.
  Variable fuzzing : bool.
  Variable selectors : list bytes.
  Variable n : nat.

  Lemma ks_run_special_l rs mk : keeps_sorted mk -> keeps_sorted (run_special src prog fuzzing n rs mk).
  Proof.
    intros Hmk. induction rs as [|r rest IH]; cbn [run_special];
      walk_with ltac:(first [ apply ks_stray
                            | apply (k_stmt _ _ _ _ (all_ks_n src (pfuncs prog) fuzzing n)) ]).
  Qed.

  Lemma ks_process_root_l rc : keeps_sorted (process_root src prog fuzzing n rc).
  Proof.
    unfold process_root.
    walk_with ltac:(first [ apply ks_run_special_l | apply ks_eval_pattern_rules_l ]).
  Qed.

  Lemma ks_select_roots_l doc sels : wf_jvalue doc -> keeps_sorted (select_roots n doc sels).
  Proof.
    intros Hd. induction sels as [|s rest IH]; cbn [select_roots];
      walk_with ltac:(apply ks_eval_selector_l; exact Hd).
  Qed.

  Lemma ks_process_roots_l rcs : keeps_sorted (process_roots src prog fuzzing n rcs).
  Proof. induction rcs as [|rc rest IH]; cbn [process_roots]; walk_with ltac:(apply ks_process_root_l). Qed.

  Lemma ks_process_value_l name doc :
    wf_jvalue doc -> keeps_sorted (process_value src prog fuzzing selectors n name doc).
  Proof.
    intros Hd. unfold process_value.
    walk_with ltac:(first [ apply ks_process_roots_l
                          | apply ks_select_roots_l; exact Hd
                          | apply ks_with_heap; intros h Hh; apply new_value_sorted; assumption ]).
  Qed.

  (* the decoder is called here: what it returns is canonical *)
  Lemma ks_decode_loop_l : forall k name d,
    keeps_sorted (decode_loop src prog fuzzing selectors n k name d).
  Proof.
    induction k as [|k IH]; intros name d; cbn [decode_loop]; [apply ks_fail|].
    pose proof (dec_step_wf d) as Hw.
    destruct (dec_step d) as [[r d'] evs]. cbn [fst] in Hw.
    destruct r as [doc| | |]; walk_with ltac:(apply ks_process_value_l; exact Hw).
  Qed.

  Lemma ks_run_files_l files : keeps_sorted (run_files src prog fuzzing selectors n files).
  Proof.
    induction files as [|[name rd] rest IH]; cbn [run_files]; walk_with ltac:(apply ks_decode_loop_l).
  Qed.

  Lemma ks_run_body_l files : keeps_sorted (Driver.run_body src prog fuzzing selectors n files).
  Proof.
    unfold Driver.run_body.
    walk_with ltac:(first [ apply ks_new_evaluator_l | apply ks_run_special_l; apply ks_m_alloc
                          | apply ks_run_files_l ]).
  Qed.
End Run.

(* every function of the evaluator and of the driver *)
Theorem objs_sorted_invariant_proof : all_keep_sorted.
Proof.
  constructor; intros.
  - apply (k_expr _ _ _ _ (all_ks_n src funcs fz n)).
  - apply (k_match_cases _ _ _ _ (all_ks_n src funcs fz n)).
  - apply (k_case_match _ _ _ _ (all_ks_n src funcs fz n)).
  - apply (k_call _ _ _ _ (all_ks_n src funcs fz n)).
  - apply (k_unary _ _ _ _ (all_ks_n src funcs fz n)).
  - apply (k_binary _ _ _ _ (all_ks_n src funcs fz n)).
  - apply (k_expr_list _ _ _ _ (all_ks_n src funcs fz n)).
  - apply (k_stmt _ _ _ _ (all_ks_n src funcs fz n)).
  - apply (k_body _ _ _ _ (all_ks_n src funcs fz n)).
  - apply (k_while _ _ _ _ (all_ks_n src funcs fz n)).
  - apply (k_for _ _ _ _ (all_ks_n src funcs fz n)).
  - apply (k_forin_arr _ _ _ _ (all_ks_n src funcs fz n)).
  - apply (k_forin_obj _ _ _ _ (all_ks_n src funcs fz n)).
  - apply (k_forin_str _ _ _ _ (all_ks_n src funcs fz n)).
  - apply ks_set_member_l.
  - apply ks_create_speculative_l.
  - apply ks_eval_assignment_l.
  - apply ks_native_call_l.
  - apply ks_eval_rules_l.
  - apply ks_eval_elements_l.
  - apply ks_eval_pattern_rules_l.
  - apply ks_new_evaluator_l.
  - apply ks_eval_selector_l; assumption.
  - apply ks_run_special_l; assumption.
  - apply ks_process_root_l.
  - apply ks_select_roots_l; assumption.
  - apply ks_process_value_l; assumption.
  - apply ks_decode_loop_l.
  - apply ks_run_files_l.
  - apply ks_run_body_l.
Qed.

Lemma init_state_sorted : sorted_state init_state.
Proof. exact heap_sorted_empty. Qed.

(* the final state of every run, whatever its outcome *)
Theorem run_objs_sorted_proof : forall n src files sels fz,
  heap_objs_sorted (hp (r_state (eval_program n src files sels fz))).
Proof.
  intros n src files sels fz. unfold eval_program.
  destruct (parse_program src) as [prog p|pos| |]; try exact heap_sorted_empty.
  destruct (Driver.run_body src prog fz sels n files init_state) as [r s] eqn:E.
  cbn [r_state]. exact (ks_run_body_l src prog fz sels n files _ _ _ init_state_sorted E).
Qed.

(* the exported EvalExpression *)
Theorem expression_api_objs_sorted_proof : forall n sel doc, wf_jvalue doc ->
  heap_objs_sorted (hp (x_state (eval_expression_api n sel doc))).
Proof.
  intros n sel doc Hd. unfold eval_expression_api.
  destruct (eval_selector n sel doc init_state) as [r s] eqn:E.
  pose proof (ks_eval_selector_l n sel doc Hd _ _ _ init_state_sorted E) as Hs.
  destruct r as [c|e|x| | |]; try exact Hs. destruct x; exact Hs.
Qed.

(* ================================================================== *)
(* 5. corollaries                                                       *)

(* ---------------- for-in over an object *)

Section ForIn.
  Variable src : bytes.
  Variable funcs : list func.
  Variable fuzzing : bool.

  Lemma ks_resolve_var t errtok : keeps_sorted (resolve_var src t errtok).
  Proof. unfold resolve_var. walk. Qed.

  Lemma ks_resolve_index ix id : keeps_sorted (resolve_index src ix id).
  Proof. unfold resolve_index. walk_with ltac:(apply ks_resolve_var). Qed.

  (* Control's theorem without its heap hypothesis on the intermediate state: the hypothesis
     is about the state in which the statement STARTS, and there it is the invariant of the
     run.  The keys visited are the keys of the object at the moment the iterable has been
     evaluated, strictly ascending (any two of them), without duplicates; the loop body
     is executed on a prefix of them, in this order, each once ([loop_run] counts the
     executions), on all of them if the loop completes; and the invariant holds again when
     the statement is over. *)
  Theorem forin_object_keys_ascending_run_proof :
    forall n id ix iter body st local st1 ixlocal st2 ic st3 oid,
    sorted_state st ->
    resolve_var src id id st = (Ok local, st1) ->
    resolve_index src ix id st1 = (Ok ixlocal, st2) ->
    eval_expr src funcs fuzzing n iter st2 = (Ok ic, st3) ->
    load (hp st3) ic = VObj oid ->
    let keys := map fst (get_obj (hp st3) oid) in
    let stmt := eval_stmt src funcs fuzzing (S n) (SForIn id ix iter body) in
    let exec := fun k => eval_body src funcs fuzzing k body in
    keys_ascending keys /\ strictly_ascending keys /\ NoDup keys /\
    stmt st = forin_fold (obj_setup local ixlocal oid) exec n keys st3 /\
    (exists vis why,
       loop_run (obj_setup local ixlocal oid) exec n keys st3 vis why (stmt st) /\
       (exists rest, keys = vis ++ rest) /\
       (why = Completed -> vis = keys)) /\
    sorted_state (snd (stmt st)).
  Proof.
    intros n id ix iter body st local st1 ixlocal st2 ic st3 oid Hs H1 H2 H3 Hv keys stmt exec.
    assert (S1 : sorted_state st1) by (eapply ks_resolve_var; eassumption).
    assert (S2 : sorted_state st2) by (eapply ks_resolve_index; eassumption).
    assert (S3 : sorted_state st3)
      by (eapply (k_expr _ _ _ _ (all_ks_n src funcs fuzzing n)); eassumption).
    assert (Hk : keys_ascending keys) by apply S3.
    assert (Heq : stmt st = forin_fold (obj_setup local ixlocal oid) exec n keys st3)
      by exact (forin_over_object src funcs fuzzing n id ix iter body st local st1 ixlocal st2 ic st3 oid H1 H2 H3 Hv).
    split; [exact Hk|]. split; [apply keys_ascending_strictly; exact Hk|].
    split; [apply keys_ascending_NoDup; exact Hk|]. split; [exact Heq|]. split.
    - destruct (loop_run_total (obj_setup local ixlocal oid) exec n keys st3) as (vis & why & Hrun).
      exists vis, why. rewrite Heq. split; [exact Hrun|]. split.
      + eapply loop_run_prefix. exact Hrun.
      + intros Hw. eapply loop_run_completed; eassumption.
    - clear Heq. subst stmt. cbv beta.
      destruct (eval_stmt src funcs fuzzing (S n) (SForIn id ix iter body) st) as [r s'] eqn:E. cbn [snd].
      exact (k_stmt _ _ _ _ (all_ks_n src funcs fuzzing (S n)) _ _ _ _ Hs E).
  Qed.

  (* the unconditional form of Control.forin_object_keys_ascending (same conclusion) *)
  Theorem forin_object_keys_ascending_unconditional_proof :
    forall n id ix iter body st local st1 ixlocal st2 ic st3 oid,
    sorted_state st ->
    resolve_var src id id st = (Ok local, st1) ->
    resolve_index src ix id st1 = (Ok ixlocal, st2) ->
    eval_expr src funcs fuzzing n iter st2 = (Ok ic, st3) ->
    load (hp st3) ic = VObj oid ->
    exists keys, keys_ascending keys /\
      eval_stmt src funcs fuzzing (S n) (SForIn id ix iter body) st =
      forin_fold (obj_setup local ixlocal oid) (fun k => eval_body src funcs fuzzing k body) n keys st3.
  Proof.
    intros n id ix iter body st local st1 ixlocal st2 ic st3 oid Hs H1 H2 H3 Hv.
    destruct (forin_object_keys_ascending_run_proof n id ix iter body _ _ _ _ _ _ _ _ Hs H1 H2 H3 Hv)
      as (Hk & _ & _ & Heq & _).
    eexists. split; [exact Hk|exact Heq].
  Qed.

End ForIn.

(* ---------------- print *)

Lemma Forall2_same_length {A B} (R : A -> B -> Prop) : forall l l', Forall2 R l l' -> length l = length l'.
Proof. intros l l' H. induction H as [|x y l l' _ _ IH]; [reflexivity|cbn [length]; rewrite IH; reflexivity]. Qed.

Lemma pp_fields_render rec h : forall l first body,
  pp_fields rec h l first = Some body ->
  exists parts,
    Forall2 (fun kc p => rec (load h (snd kc)) = Some p) l parts /\
    body = render_fields (combine (map fst l) parts) first.
Proof.
  induction l as [|[k c] r IH]; intros first body E; cbn [pp_fields] in E.
  - inversion E; subst. exists []. split; [constructor|reflexivity].
  - destruct (rec (load h c)) as [a|] eqn:Ea; [|discriminate].
    destruct (pp_fields rec h r false) as [b|] eqn:Eb; [|discriminate].
    injection E as <-. destruct (IH false b Eb) as (parts & HF & Hb).
    exists (a :: parts). split; [constructor; [exact Ea|exact HF]|].
    cbn [map fst combine render_fields]. rewrite Hb. reflexivity.
Qed.

(* PrettyString of an object: the members are listed in ascending key order *)
Theorem pretty_object_keys_ascending_proof : forall f h path quote check oid out,
  heap_objs_sorted h ->
  pretty_fuel (S f) h path quote check (VObj oid) = Some out ->
  (check && existsb (fun r => is_same h r (VObj oid)) path)%bool = false ->
  let keys := map fst (get_obj h oid) in
  keys_ascending keys /\ strictly_ascending keys /\ NoDup keys /\
  exists parts,
    Forall2 (fun kc p => pretty_fuel f h (path ++ [VObj oid]) true true (load h (snd kc)) = Some p)
            (get_obj h oid) parts /\
    out = render_object (combine keys parts).
Proof.
  intros f h path quote check oid out Hs E Hc keys.
  assert (Hk : keys_ascending keys) by apply Hs.
  split; [exact Hk|]. split; [apply keys_ascending_strictly; exact Hk|].
  split; [apply keys_ascending_NoDup; exact Hk|].
  rewrite pretty_fuel_S, Hc in E.
  destruct (pp_fields _ h (get_obj h oid) true) as [body|] eqn:Eb; [|discriminate].
  inversion E; subst. destruct (pp_fields_render _ _ _ _ _ Eb) as (parts & HF & Hb).
  exists parts. split; [exact HF|]. unfold render_object. rewrite Hb. reflexivity.
Qed.

(* what `print o` writes for an object value (top level: no cycle check) *)
Theorem print_object_keys_ascending_proof : forall h oid out,
  heap_objs_sorted h ->
  pretty_string h (VObj oid) = Some out ->
  let keys := map fst (get_obj h oid) in
  keys_ascending keys /\ strictly_ascending keys /\ NoDup keys /\
  exists parts, length parts = length keys /\ out = render_object (combine keys parts).
Proof.
  intros h oid out Hs E keys. destruct (pretty_string_inv _ _ _ E) as [n En].
  destruct (pretty_object_keys_ascending_proof _ _ _ _ _ _ _ Hs En eq_refl) as (K1 & K2 & K3 & parts & HF & Ho).
  split; [exact K1|]. split; [exact K2|]. split; [exact K3|].
  exists parts. split; [|exact Ho].
  unfold keys. rewrite map_length. symmetry. eapply Forall2_same_length. exact HF.
Qed.

(* ---------------- json(): ToGoValue of a sorted heap is a canonical document *)

Lemma tg_items_wf h grec : forall l js,
  (forall c j, grec (load h c) = GoOk j -> wf_jvalue j) ->
  tg_items h grec l = Some (Some js) -> Forall wf_jvalue js.
Proof.
  induction l as [|c l IH]; intros js Hg E; cbn [tg_items] in E.
  - inversion E; subst. constructor.
  - destruct (grec (load h c)) as [j| |] eqn:E1; try discriminate.
    destruct (tg_items h grec l) as [[js'|]|] eqn:E2; try discriminate.
    injection E as <-. constructor; [eapply Hg; exact E1|apply IH; [exact Hg|reflexivity]].
Qed.

Lemma tg_fields_wf h grec : forall l js,
  (forall c j, grec (load h c) = GoOk j -> wf_jvalue j) ->
  tg_fields h grec l = Some (Some js) ->
  map fst js = map fst l /\ Forall (fun kv => wf_jvalue (snd kv)) js.
Proof.
  induction l as [|[k c] l IH]; intros js Hg E; cbn [tg_fields] in E.
  - inversion E; subst. split; [reflexivity|constructor].
  - destruct (grec (load h c)) as [j| |] eqn:E1; try discriminate.
    destruct (tg_fields h grec l) as [[js'|]|] eqn:E2; try discriminate.
    injection E as <-. destruct (IH js' Hg eq_refl) as [I1 I2].
    split; [cbn [map fst]; rewrite I1; reflexivity|].
    constructor; [cbn [snd]; eapply Hg; exact E1|exact I2].
Qed.

Lemma to_go_fuel_wf h : heap_objs_sorted h ->
  forall n path check v j, to_go_fuel n h path check v = GoOk j -> wf_jvalue j.
Proof.
  intros Hs. induction n as [|n IH]; intros path check v j E; [discriminate|].
  rewrite to_go_fuel_S in E.
  destruct (check && existsb (fun r => is_same h r v) path)%bool; [discriminate|].
  destruct v as [s|b|x|bid off len|oid|sp|nf bd|idx|s|]; try discriminate;
    try (inversion E; subst; constructor).
  - destruct (tg_items h _ (arr_cells h bid off len)) as [[js|]|] eqn:Ei; try discriminate.
    inversion E; subst. constructor. eapply tg_items_wf; [|exact Ei].
    intros c j' Ej. eapply IH. exact Ej.
  - destruct (tg_fields h _ (get_obj h oid)) as [[js|]|] eqn:Ef; try discriminate.
    inversion E; subst.
    destruct (tg_fields_wf h _ _ _ (fun c j' Ej => IH _ _ _ _ Ej) Ef) as [Hk Hm].
    constructor; [|exact Hm].
    apply keys_ascending_iff_sorted. rewrite Hk. apply Hs.
Qed.

Theorem to_go_value_sorted_proof : forall h v j,
  heap_objs_sorted h -> to_go_value h v = GoOk j -> wf_jvalue j.
Proof.
  intros h v j Hs E. destruct (to_go_value_inv _ _ _ E ltac:(discriminate)) as [n En].
  eapply to_go_fuel_wf; [exact Hs|exact En].
Qed.

(* the keys of the JSON object a heap object converts to *)
Theorem to_go_object_keys_proof : forall h oid j,
  heap_objs_sorted h -> to_go_value h (VObj oid) = GoOk j ->
  jobj_keys j = map fst (get_obj h oid) /\ keys_ascending (jobj_keys j) /\ wf_jvalue j.
Proof.
  intros h oid j Hs E. pose proof (to_go_value_sorted_proof h _ j Hs E) as Hw.
  destruct (to_go_value_inv _ _ _ E ltac:(discriminate)) as [n En]. clear E. rename En into E.
  rewrite to_go_fuel_S in E.
  cbn [andb] in E.
  destruct (tg_fields h _ (get_obj h oid)) as [[js|]|] eqn:Ef; try discriminate.
  inversion E; subst.
  destruct (tg_fields_wf h _ _ _ (fun c j' Ej => to_go_fuel_wf h Hs _ _ _ _ _ Ej) Ef) as [Hk _].
  cbn [jobj_keys]. rewrite Hk. split; [reflexivity|]. split; [apply Hs|exact Hw].
Qed.
