(* Proofs/Ops.v -- property C05: the value-level operators of the model (Sem/Ops.v) equal the
   flat tables of Spec/OpTable.v on ALL operands; semantic corollaries of the tables;
   short-circuit and evaluation order of the real evaluator (Sem/Eval.v). *)
From Coq Require Import ZArith List Bool Lia.
From JQ Require Import Base.Bytes Num.F64 Syntax.Token Syntax.Lexer Syntax.Ast.
From JQ Require Import Sem.Value Sem.Ops Sem.Natives Sem.Eval.
From JQ Require Oracle.Regex.
From JQ Require Import Spec.OpTable.
Import ListNotations.
Open Scope nat_scope.

(* ================================================================== coercions *)

Lemma coN_as_float : forall v, as_float v = coN v.
Proof. intros v; destruct v as [s|b|f|bid off len|oid|spec|n bnd|idx|s|]; try reflexivity.
  destruct b; reflexivity. Qed.

Lemma coS_to_str : forall v, to_str v = coS v.
Proof. intros v; destruct v; reflexivity. Qed.

Lemma coT_is_truthy : forall v, is_truthy v = coT v.
Proof. intros v; destruct v as [s|b|f|bid off len|oid|spec|n bnd|idx|s|]; try reflexivity.
  destruct s; reflexivity. Qed.

(* ================================================================== the tables *)

Lemma unop_table_all : forall u v, unop_value u v = spec_unop u v.
Proof.
  intros u v; unfold unop_value, spec_unop.
  rewrite coN_as_float, coT_is_truthy.
  destruct u; reflexivity.
Qed.

Lemma unop_table : forall u v, value_uop u = true -> unop_value u v = spec_unop u v.
Proof. intros u v _; apply unop_table_all. Qed.

Lemma arith_table : forall o l r,
  match o with BAdd | BSub | BMul | BDiv | BMod => True | _ => False end ->
  arith_value o l r = spec_binop o l r.
Proof.
  intros o l r Ho; unfold arith_value.
  rewrite !coN_as_float, !coS_to_str.
  destruct o; try contradiction; clear Ho;
    unfold spec_binop, spec_add, spec_sub, spec_mul, spec_div, spec_mod, on_N2, ok_num, ok_str, coI;
    destruct l as [s|b|f|bid off len|oid|spec|n bnd|idx|s|],
             r as [s'|b'|f'|bid' off' len'|oid'|spec'|n' bnd'|idx'|s'|];
    cbn [kind_of andb];
    try reflexivity;
    repeat match goal with
           | |- context [coN ?v] => destruct (coN v) as [?x|]
           end;
    try reflexivity;
    match goal with
    | |- context [f_is_zero ?b] => destruct b; reflexivity
    end.
Qed.

Lemma sat_cmp_to_bool : forall o c, cmp_to_bool o c = sat o c.
Proof. intros o c; destruct o, c; reflexivity. Qed.

Definition cmp3_of (c : cmp_result) : cmp3 :=
  match c with CmpOk c => C3 c | CmpErr => C3Err | CmpUnsupp => C3Unsupp end.

Lemma compare_table : forall l r, cmp3_of (compare_values l r) = spec_compare l r.
Proof.
  intros l r; unfold compare_values, spec_compare, num_compare, num_cmp.
  rewrite !coN_as_float.
  destruct l as [s|b|f|bid off len|oid|spec|n bnd|idx|s|],
           r as [s'|b'|f'|bid' off' len'|oid'|spec'|n' bnd'|idx'|s'|];
    cbn [kind_of coS cmp3_of];
    try reflexivity;
    repeat match goal with
           | |- context [coN ?v] => destruct (coN v) as [?x|]
           end;
    reflexivity.
Qed.

Lemma cmp_table : forall o l r, cmp_value o l r = spec_cmp o l r.
Proof.
  intros o l r.
  assert (H : match cmp3_of (compare_values l r) with
              | C3 c => ok_bool (sat o c) | C3Err => VErrLeft | C3Unsupp => VUnsupp end =
              match compare_values l r with
              | CmpOk c => VOk (VBool (cmp_to_bool o c)) | CmpErr => VErrLeft | CmpUnsupp => VUnsupp end).
  { destruct (compare_values l r) as [c| |]; cbn [cmp3_of]; reflexivity. }
  unfold cmp_value, spec_cmp. rewrite <- H, compare_table.
  destruct l, r; reflexivity.
Qed.

Lemma regex_table : forall neg l r, regex_value neg l r = spec_regex neg l r.
Proof.
  intros neg l r; unfold regex_value, spec_regex, ok_bool.
  rewrite coS_to_str.
  destruct r; reflexivity.
Qed.

Lemma binop_table_all : forall o l r, binop_value o l r = spec_binop o l r.
Proof.
  intros o l r; destruct o;
    first [ apply cmp_table
          | apply arith_table; exact Logic.I
          | apply regex_table
          | reflexivity ].
Qed.

(* C05, the main table theorem: 13 operators x 10 x 10 kinds, all payloads *)
Lemma binop_table : forall o l r, value_op o = true -> binop_value o l r = spec_binop o l r.
Proof. intros o l r _; apply binop_table_all. Qed.

(* ================================================================== corollaries: arithmetic *)

Definition is_cmp_op (o : bop) : bool :=
  match o with BLt | BGt | BEq | BNe | BLe | BGe => true | _ => false end.

Lemma f_is_zero_iff : forall x, f_is_zero x = true <-> x = S754_zero false \/ x = S754_zero true.
Proof.
  intros x; split.
  - destruct x as [[|]| | |]; cbn; intros H; try discriminate H; auto.
  - intros [H|H]; subst x; reflexivity.
Qed.

(* Go's test `rightNum == 0` *)
Lemma f_is_zero_eqb_zero : forall x, f_is_zero x = f_eqb x f_zero.
Proof. intros x; destruct x as [[|]|[|]| |[|] m e]; reflexivity. Qed.

Lemma spec_add_cases : forall l r,
  ((kind_of l = KStr \/ kind_of r = KStr) /\ spec_add l r = VOk (VStr (coS l ++ coS r))) \/
  (kind_of l <> KStr /\ kind_of r <> KStr /\
   spec_add l r = on_N2 l r (fun a b => VOk (VNum (f_add a b)))).
Proof.
  intros l r; unfold spec_add, ok_str, ok_num.
  destruct l as [s|b|f|bid off len|oid|spec|n bnd|idx|s|],
           r as [s'|b'|f'|bid' off' len'|oid'|spec'|n' bnd'|idx'|s'|];
    cbn [kind_of];
    first [ left; split; [ first [left; reflexivity | right; reflexivity] | reflexivity ]
          | right; split; [ intros H; discriminate H
                          | split; [ intros H; discriminate H | reflexivity ] ] ].
Qed.

(* + concatenates iff a string is involved; otherwise it adds the numeric coercions *)
Lemma plus_concat_iff_string : forall l r,
  ((exists s, binop_value BAdd l r = VOk (VStr s)) <-> (kind_of l = KStr \/ kind_of r = KStr)) /\
  (kind_of l = KStr \/ kind_of r = KStr -> binop_value BAdd l r = VOk (VStr (coS l ++ coS r))) /\
  (kind_of l <> KStr -> kind_of r <> KStr -> forall a b, coN l = Some a -> coN r = Some b ->
     binop_value BAdd l r = VOk (VNum (f_add a b))).
Proof.
  intros l r; rewrite binop_table_all; unfold spec_binop.
  destruct (spec_add_cases l r) as [[Hk E]|[Hl [Hr E]]]; rewrite E; clear E.
  - split; [split|split].
    + intros _; exact Hk.
    + intros _; eexists; reflexivity.
    + intros _; reflexivity.
    + intros Hl Hr; exfalso; destruct Hk as [Hk|Hk]; [apply Hl | apply Hr]; exact Hk.
  - assert (Hno : ~ (kind_of l = KStr \/ kind_of r = KStr))
      by (intros [H|H]; [apply Hl | apply Hr]; exact H).
    split; [split|split].
    + intros [s0 H]; exfalso; revert H; unfold on_N2.
      destruct (coN l) as [a|]; [destruct (coN r) as [b|]|]; intros H; discriminate H.
    + intros H; exfalso; apply Hno; exact H.
    + intros H; exfalso; apply Hno; exact H.
    + intros _ _ a b Ha Hb; unfold on_N2; rewrite Ha, Hb; reflexivity.
Qed.

(* / is an error exactly when the divisor coerces to +0 or -0 *)
Lemma div_error_iff_zero_divisor : forall l r a b,
  coN l = Some a -> coN r = Some b ->
  (binop_value BDiv l r = VErrOp <-> (b = S754_zero false \/ b = S754_zero true)) /\
  (f_is_zero b = false -> binop_value BDiv l r = VOk (VNum (f_div a b))).
Proof.
  intros l r a b Ha Hb; rewrite binop_table_all; unfold spec_binop, spec_div, on_N2, ok_num.
  rewrite Ha, Hb. rewrite <- f_is_zero_iff.
  destruct b as [sg|sg| |sg m e]; cbn [f_is_zero]; split; try split;
    intros H; try reflexivity; discriminate H.
Qed.

(* % is an error exactly when the TRUNCATED divisor is 0 (so 0.5 as a divisor is an error) *)
Lemma mod_error_iff_zero_trunc_divisor : forall l r a b,
  coN l = Some a -> coN r = Some b ->
  (binop_value BMod l r = VErrOp <-> f_trunc_int64 b = 0%Z) /\
  (f_trunc_int64 b <> 0%Z ->
     binop_value BMod l r = VOk (VNum (f_of_Z (Z.rem (f_trunc_int64 a) (f_trunc_int64 b))))).
Proof.
  intros l r a b Ha Hb; rewrite binop_table_all; unfold spec_binop, spec_mod, on_N2, ok_num, coI.
  rewrite Ha, Hb.
  destruct (Z.eqb_spec (f_trunc_int64 b) 0) as [E|E]; split; try split; intros H;
    try reflexivity; try assumption; try discriminate H; contradiction.
Qed.

(* - * are always numeric *)
Lemma sub_mul_numeric : forall l r a b, coN l = Some a -> coN r = Some b ->
  binop_value BSub l r = VOk (VNum (f_sub a b)) /\ binop_value BMul l r = VOk (VNum (f_mul a b)).
Proof.
  intros l r a b Ha Hb; rewrite !binop_table_all; unfold spec_binop, spec_sub, spec_mul, on_N2.
  rewrite Ha, Hb; split; reflexivity.
Qed.

(* Go's a % b: truncated division, the remainder has the sign of the dividend *)
Lemma mod_sign_of_dividend : forall a b : Z, b <> 0%Z ->
  let m := Z.rem a b in
  (a = b * Z.quot a b + m)%Z /\ (Z.abs m < Z.abs b)%Z /\
  (0 <= a -> 0 <= m)%Z /\ (a <= 0 -> m <= 0)%Z.
Proof.
  intros a b Hb m; unfold m; repeat split.
  - apply Z.quot_rem'.
  - apply Z.rem_bound_abs; exact Hb.
  - intros Ha; apply Z.rem_nonneg; assumption.
  - intros Ha; apply Z.rem_nonpos; assumption.
Qed.

(* ================================================================== corollaries: comparison *)

(* unset: < and > are true, the other four false -- never an error, even against containers *)
Lemma cmp_unset : forall o l r, is_cmp_op o = true ->
  kind_of l = KUnset \/ kind_of r = KUnset ->
  binop_value o l r = VOk (VBool (match o with BLt | BGt => true | _ => false end)).
Proof.
  intros o l r Ho H; rewrite binop_table_all.
  assert (E : spec_binop o l r = spec_cmp o l r) by (destruct o; try discriminate Ho; reflexivity).
  rewrite E; unfold spec_cmp, ok_bool.
  destruct H as [H|H]; rewrite H; [reflexivity|].
  destruct (kind_of l); reflexivity.
Qed.

(* null ranks below everything except null (and except unset, which is tested first) *)
Lemma cmp_null_lowest : forall o l r, is_cmp_op o = true ->
  (kind_of l = KNull -> kind_of r = KNull -> binop_value o l r = VOk (VBool (sat o Eq))) /\
  (kind_of l = KNull -> kind_of r <> KNull -> kind_of r <> KUnset ->
     binop_value o l r = VOk (VBool (sat o Lt))) /\
  (kind_of r = KNull -> kind_of l <> KNull -> kind_of l <> KUnset ->
     binop_value o l r = VOk (VBool (sat o Gt))).
Proof.
  intros o l r Ho; rewrite binop_table_all.
  assert (E : spec_binop o l r = spec_cmp o l r) by (destruct o; try discriminate Ho; reflexivity).
  rewrite E; unfold spec_cmp, spec_compare, ok_bool.
  repeat split.
  - intros Hl Hr; rewrite Hl, Hr; reflexivity.
  - intros Hl Hr Hu; rewrite Hl. destruct (kind_of r); try reflexivity; contradiction.
  - intros Hr Hl Hu; rewrite Hr. destruct (kind_of l); try reflexivity; contradiction.
Qed.

Definition is_container (v : value) : bool :=
  match kind_of v with KArr | KObj => true | _ => false end.
Definition is_null_or_unset (v : value) : bool :=
  match kind_of v with KNull | KUnset => true | _ => false end.

(* a comparison is a runtime error (at the left operand) exactly when a container meets
   something that is neither null nor unset *)
Lemma num_compare_not_err : forall l r, num_compare l r <> C3Err.
Proof. intros l r; unfold num_compare; destruct (coN l), (coN r); discriminate. Qed.

Lemma cmp_container_error : forall o l r, is_cmp_op o = true ->
  (binop_value o l r = VErrLeft <->
   (is_container l || is_container r) && negb (is_null_or_unset l) && negb (is_null_or_unset r) = true)
  /\ binop_value o l r <> VErrOp /\ binop_value o l r <> VErrRight.
Proof.
  intros o l r Ho; rewrite binop_table_all.
  assert (E : spec_binop o l r = spec_cmp o l r) by (destruct o; try discriminate Ho; reflexivity).
  rewrite E; unfold spec_cmp, spec_compare, ok_bool, is_container, is_null_or_unset.
  pose proof (num_compare_not_err l r) as Hn.
  destruct (kind_of l), (kind_of r); cbn [orb andb negb];
    try (destruct (num_compare l r) as [c| |]; [ | exfalso; apply Hn; reflexivity | ]);
    (split; [split; intros H; try reflexivity; discriminate H | split; intros H; discriminate H]).
Qed.

(* two strings compare bytewise *)
Lemma cmp_strings_bytewise : forall o a b, is_cmp_op o = true ->
  binop_value o (VStr a) (VStr b) = VOk (VBool (sat o (bytes_cmp a b))).
Proof.
  intros o a b Ho; rewrite binop_table_all.
  destruct o; try discriminate Ho; reflexivity.
Qed.

Lemma bytes_cmp_lt : forall a b, bytes_cmp a b = Lt <-> lex_lt a b.
Proof.
  induction a as [|x a IH]; intros [|y b]; cbn [bytes_cmp].
  - split; intros H; [discriminate H | inversion H].
  - split; intros _; [constructor | reflexivity].
  - split; intros H; [discriminate H | inversion H].
  - destruct (N.compare_spec x y) as [E|L|G].
    + subst y. rewrite IH. split; intros H.
      * apply lex_tail; exact H.
      * inversion H as [| ? ? ? ? L | ? ? ? L]; subst; [lia | assumption].
    + split; intros _; [apply lex_head; exact L | reflexivity].
    + split; intros H; [discriminate H|].
      inversion H as [| ? ? ? ? L | ? ? ? L]; subst; lia.
Qed.

Lemma bytes_cmp_eq : forall a b, bytes_cmp a b = Eq <-> a = b.
Proof.
  induction a as [|x a IH]; intros [|y b]; cbn [bytes_cmp]; try (split; intros H; [discriminate H | inversion H]).
  - split; reflexivity.
  - destruct (N.compare_spec x y) as [E|L|G].
    + subst y. rewrite IH. split; intros H; [subst; reflexivity | inversion H; reflexivity].
    + split; intros H; [discriminate H | inversion H; lia].
    + split; intros H; [discriminate H | inversion H; lia].
Qed.

Lemma bytes_cmp_antisym : forall a b, bytes_cmp b a = CompOpp (bytes_cmp a b).
Proof.
  induction a as [|x a IH]; intros [|y b]; cbn [bytes_cmp]; try reflexivity.
  rewrite (N.compare_antisym x y). destruct (N.compare x y); cbn [CompOpp]; auto.
Qed.

Lemma bytes_cmp_gt : forall a b, bytes_cmp a b = Gt <-> lex_lt b a.
Proof.
  intros a b; rewrite <- bytes_cmp_lt, (bytes_cmp_antisym a b).
  destruct (bytes_cmp a b); cbn [CompOpp]; split; intros H; try reflexivity; discriminate H.
Qed.

(* everything that is not unset, null, a container or a pair of strings compares by its
   numeric coercion: booleans as 0/1, numeric strings by value, anything else as 0 *)
Definition numeric_pair (l r : value) : bool :=
  negb (is_null_or_unset l) && negb (is_null_or_unset r) &&
  negb (is_container l) && negb (is_container r) &&
  negb (kind_eqb (kind_of l) KStr && kind_eqb (kind_of r) KStr).

Lemma cmp_numeric : forall o l r x y, is_cmp_op o = true -> numeric_pair l r = true ->
  coN l = Some x -> coN r = Some y ->
  binop_value o l r = VOk (VBool (sat o (num_cmp x y))).
Proof.
  intros o l r x y Ho Hp Hx Hy; rewrite binop_table_all.
  assert (E : spec_binop o l r = spec_cmp o l r) by (destruct o; try discriminate Ho; reflexivity).
  rewrite E; unfold spec_cmp, spec_compare, num_compare, ok_bool.
  rewrite Hx, Hy. clear Hx Hy E.
  unfold numeric_pair, is_null_or_unset, is_container in Hp.
  destruct (kind_of l), (kind_of r); try discriminate Hp; reflexivity.
Qed.

Lemma cmp_numeric_bool_01 :
  coN (VBool true) = Some f_one /\ coN (VBool false) = Some f_zero /\
  (forall o b r y, is_cmp_op o = true -> numeric_pair (VBool b) r = true -> coN r = Some y ->
     binop_value o (VBool b) r = VOk (VBool (sat o (num_cmp (if b then f_one else f_zero) y)))) /\
  (forall v, match kind_of v with KNum | KStr | KBool => False | _ => True end -> coN v = Some f_zero).
Proof.
  repeat split.
  - intros o b r y Ho Hp Hy. apply cmp_numeric; try assumption. destruct b; reflexivity.
  - intros v Hv; destruct v; try contradiction; reflexivity.
Qed.

(* NaN is neither greater nor smaller: it compares "equal" to everything *)
Lemma num_cmp_nan : forall y, num_cmp f_nan y = Eq /\ num_cmp y f_nan = Eq.
Proof. intros y; split; destruct y as [[|]|[|]| |[|] m e]; reflexivity. Qed.

(* == and != are complementary (unless an operand is unset: then both are false) *)
Lemma eq_ne_complement : forall l r, kind_of l <> KUnset -> kind_of r <> KUnset ->
  match binop_value BEq l r with
  | VOk (VBool b) => binop_value BNe l r = VOk (VBool (negb b))
  | other => binop_value BNe l r = other
  end.
Proof.
  intros l r Hl Hr; rewrite !binop_table_all; unfold spec_binop, spec_cmp, ok_bool.
  destruct (kind_of l) eqn:El; try (exfalso; apply Hl; reflexivity);
  destruct (kind_of r) eqn:Er; try (exfalso; apply Hr; reflexivity);
  destruct (spec_compare l r) as [[| |]| |]; reflexivity.
Qed.

(* <= is (< or ==), >= is (> or ==) (unless an operand is unset) *)
Lemma le_is_lt_or_eq : forall l r, kind_of l <> KUnset -> kind_of r <> KUnset ->
  match binop_value BLt l r, binop_value BGt l r, binop_value BEq l r with
  | VOk (VBool lt), VOk (VBool gt), VOk (VBool eq) =>
      binop_value BLe l r = VOk (VBool (lt || eq)) /\ binop_value BGe l r = VOk (VBool (gt || eq))
  | e, _, _ => binop_value BLe l r = e /\ binop_value BGe l r = e
  end.
Proof.
  intros l r Hl Hr; rewrite !binop_table_all; unfold spec_binop, spec_cmp, ok_bool.
  destruct (kind_of l) eqn:El; try (exfalso; apply Hl; reflexivity);
  destruct (kind_of r) eqn:Er; try (exfalso; apply Hr; reflexivity);
  destruct (spec_compare l r) as [[| |]| |]; split; reflexivity.
Qed.

(* ================================================================== corollaries: logic *)

(* exactly false, +-0, "", null (plain or absent member), unset and regex are falsy *)
Lemma truthy_table : forall v,
  is_truthy v = false <->
  (v = VBool false \/ v = VNum (S754_zero false) \/ v = VNum (S754_zero true) \/ v = VStr [] \/
   kind_of v = KNull \/ kind_of v = KUnset \/ kind_of v = KRegex).
Proof.
  intros v; split.
  - destruct v as [s|b|f|bid off len|oid|spec|n bnd|idx|s|]; cbn [is_truthy kind_of]; intros H;
      try discriminate H; auto 10.
    + destruct s; [auto 10 | discriminate H].
    + subst b; auto.
    + apply negb_false_iff, f_is_zero_iff in H. destruct H as [H|H]; subst f; auto 10.
  - intros [H|[H|[H|[H|[H|[H|H]]]]]]; try (subst v; reflexivity);
      destruct v; try discriminate H; reflexivity.
Qed.

Lemma nan_is_truthy : is_truthy (VNum f_nan) = true.
Proof. reflexivity. Qed.

(* ! yields a boolean, the negation of truthiness, for every operand; unary + - are numeric *)
Lemma not_yields_bool : forall v, unop_value UNot v = VOk (VBool (negb (is_truthy v))).
Proof. reflexivity. Qed.

Lemma pos_neg_numeric : forall v x, coN v = Some x ->
  unop_value UPos v = VOk (VNum x) /\ unop_value UNeg v = VOk (VNum (f_neg x)).
Proof. intros v x H; rewrite !unop_table_all; unfold spec_unop; rewrite H; split; reflexivity. Qed.

(* ================================================================== `is` *)

Lemma is_table : forall v name, is_type_name v name = spec_is v (TnIdent name).
Proof.
  intros v name; unfold is_type_name, spec_is, kind_names; cbn [lookup_kind].
  repeat match goal with
         | |- context [bytes_eqb name ?k] => destruct (bytes_eqb name k)
         end;
    destruct v; reflexivity.
Qed.

Lemma is_function_table : forall v,
  match v with VFn _ => true | _ => false end = spec_is v TnFunction.
Proof. intros v; destruct v; reflexivity. Qed.

Lemma is_null_table : forall v,
  match v with VNil _ => true | _ => false end = spec_is v TnNull.
Proof. intros v; destruct v; reflexivity. Qed.

(* ================================================================== the state monad *)

Definition is_ok {A} (r : res A) : bool := match r with Ok _ => true | _ => false end.

Lemma bind_ok : forall {A B} (m : M A) (k : A -> M B) s a s',
  m s = (Ok a, s') -> bind m k s = k a s'.
Proof. intros A B m k s a s' H; unfold bind; rewrite H; reflexivity. Qed.

Lemma bind_not_ok : forall {A} (m : M A) (k : A -> M A) s e s',
  m s = (e, s') -> is_ok e = false -> bind m k s = (e, s').
Proof.
  intros A m k s e s' H He; unfold bind; rewrite H.
  destruct e; try reflexivity; discriminate He.
Qed.

Lemma bind_m_load : forall {B} a (k : value -> M B) s,
  bind (m_load a) k s = k (load (hp s) a) s.
Proof. reflexivity. Qed.

Lemma bind_ret : forall {A B} (a : A) (k : A -> M B) s, bind (ret a) k s = k a s.
Proof. reflexivity. Qed.

(* NewCell: the only change of the state is one fresh cell *)
Lemma m_alloc_eq : forall v s,
  m_alloc v s =
    (Ok (next (hp s)),
     mkSt (mkHeap (PM.add (next (hp s)) v (cells (hp s))) (backs (hp s)) (objs (hp s))
                  (Pos.succ (next (hp s))))
          (frames s) (rule_root s) (root s) (retval s) (io s)).
Proof. reflexivity. Qed.

Lemma m_alloc_load : forall v s a s', m_alloc v s = (Ok a, s') -> load (hp s') a = v.
Proof.
  intros v s a s' H; rewrite m_alloc_eq in H; inversion H; subst a s'; clear H.
  unfold load; cbn [hp cells]. rewrite PM.gss; reflexivity.
Qed.

Lemma rt_error_not_ok : forall src t s, exists e s', @rt_error src addr t s = (Err e, s').
Proof.
  intros src t s; unfold rt_error.
  destruct (get_line_col src (tpos t)) as [[text line] col].
  eexists; eexists; reflexivity.
Qed.

(* the syntactic right-hand side of `is` *)
Definition type_name_of (src : bytes) (t : token) : option type_name :=
  match isk_of (ttag t) with
  | IsFunction => Some TnFunction
  | IsNull => Some TnNull
  | IsName => option_map TnIdent (get_string src t)
  end.

(* ================================================================== the evaluator *)

Section EvalOrder.
  Variables (src : bytes) (funcs : list func) (fz : bool).

  (* one step of the fixpoint (the body of eval_binary in Sem/Eval.v, verbatim) *)
  Lemma eval_binary_step : forall n l r op,
    eval_binary src funcs fz (S n) l r op =
      let* lc := eval_expr src funcs fz n l in
      let* lv := m_load lc in
      let o := bop_of (ttag op) in
      let with_right (k : addr -> value -> value -> M addr) : M addr :=
        let* rc := eval_expr src funcs fz n r in
        let* rv := m_load rc in
        let* lv2 := m_load lc in
        k rc lv2 rv in
      let by_value : M addr :=
        with_right (fun rc lv rv =>
          lift_vres src (binop_value o lv rv) (expr_token l) op (expr_token r)) in
      match o with
      | BAnd =>
        if is_truthy lv then
          let* rc := eval_expr src funcs fz n r in
          let* rv := m_load rc in
          bool_cell (is_truthy rv)
        else bool_cell false
      | BOr =>
        if is_truthy lv then bool_cell true
        else
          let* rc := eval_expr src funcs fz n r in
          let* rv := m_load rc in
          bool_cell (is_truthy rv)
      | BIs =>
        match r with
        | EId t =>
          match isk_of (ttag t) with
          | IsFunction => bool_cell (match lv with VFn _ => true | _ => false end)
          | IsNull => bool_cell (match lv with VNil _ => true | _ => false end)
          | IsName =>
            let* name := tok_string src t in
            bool_cell (is_type_name lv name)
          end
        | _ => rt_error src (expr_token r)
        end
      | BMember =>
        with_right (fun rc lv rv =>
          let* lv' :=
            match lv with
            | VUnknown =>
              let* nv := with_heap (match rv with
                                    | VNum _ => new_empty_array
                                    | _ => new_empty_object end) in
              m_store lc nv ;;; ret nv
            | _ => ret lv
            end in
          let* h := get_heap in
          match get_member h lv' rv with
          | GmErr => rt_error src (expr_token l)
          | GmNone =>
            let key := match rv with VNum x => Value.KNum x | _ => Value.KStr (to_str rv) end in
            m_alloc (VNil (Some (lc, key)))
          | GmFresh v => m_alloc v
          | GmNative nf => m_alloc (VNative nf (Some lc))
          | GmCell c =>
            let* cv := m_load c in
            match cv with
            | VNative nf _ => m_alloc (VNative nf (Some lc))
            | _ => ret c
            end
          end)
      | BLt | BGt | BEq | BNe | BLe | BGe
      | BAdd | BSub | BMul | BDiv | BMod
      | BMatch | BNoMatch => by_value
      | BAssign => with_right (fun rc _ _ => eval_assignment src n (expr_token l) lc rc)
      | BOther => with_right (fun _ _ _ => rt_error src op)
      end.
  Proof. reflexivity. Qed.

  Lemma eval_unary_step : forall n x op postfix,
    eval_unary src funcs fz (S n) x op postfix =
      let* vc := eval_expr src funcs fz n x in
      let* v := m_load vc in
      let incdec (up : bool) : M addr :=
        let* old := as_float_m v in
        let newv := if up then f_add old f_one else f_sub old f_one in
        let* nc := m_alloc (VNum newv) in
        let* stored := eval_assignment src n op vc nc in
        if postfix then m_alloc (VNum old)
        else let* sv := m_load stored in m_alloc sv in
      match uop_of (ttag op) with
      | UNot | UPos | UNeg => lift_vres src (unop_value (uop_of (ttag op)) v) op op op
      | UInc => incdec true
      | UDec => incdec false
      | UOther => rt_error src op
      end.
  Proof. reflexivity. Qed.

  Lemma eval_lit_step : forall n t,
    eval_expr src funcs fz (S n) (ELit t) =
      match litk_of (ttag t) with
      | LStr =>
        let* s := tok_string src t in
        match eval_string s with
        | Some b => m_alloc (VStr b)
        | None => rt_error src t
        end
      | LRegex => let* s := tok_string src t in m_alloc (VRegex s)
      | LNum =>
        let* s := tok_string src t in
        match parse_float s with
        | PFok x => m_alloc (VNum x)
        | PFunsupported => fail Unsupp
        | _ => rt_error src t
        end
      | LTrue => bool_cell true
      | LFalse => bool_cell false
      | LNull => nil_cell
      | LOther => fail Panic
      end.
  Proof. reflexivity. Qed.

  (* an error (signal, panic ...) in the LEFT operand propagates unchanged, whatever the operator *)
  Lemma binary_left_error : forall n l r op s e s1,
    eval_expr src funcs fz n l s = (e, s1) -> is_ok e = false ->
    eval_binary src funcs fz (S n) l r op s = (e, s1).
  Proof.
    intros n l r op s e s1 Hl He. rewrite eval_binary_step.
    apply bind_not_ok; assumption.
  Qed.

  (* l && r *)
  Lemma and_short_circuit : forall n l r op s lc s1,
    bop_of (ttag op) = BAnd ->
    eval_expr src funcs fz n l s = (Ok lc, s1) ->
    (is_truthy (load (hp s1) lc) = false ->
       eval_binary src funcs fz (S n) l r op s = m_alloc (VBool false) s1) /\
    (is_truthy (load (hp s1) lc) = true ->
       eval_binary src funcs fz (S n) l r op s =
         match eval_expr src funcs fz n r s1 with
         | (Ok rc, s2) => m_alloc (VBool (is_truthy (load (hp s2) rc))) s2
         | other => other
         end).
  Proof.
    intros n l r op s lc s1 Hop Hl. rewrite eval_binary_step.
    cbv zeta. rewrite Hop. rewrite (bind_ok _ _ _ _ _ Hl), bind_m_load.
    split; intros Ht; rewrite Ht.
    - reflexivity.
    - unfold bind at 1. destruct (eval_expr src funcs fz n r s1) as [[rc|e|x| | |] s2]; reflexivity.
  Qed.

  (* l || r *)
  Lemma or_short_circuit : forall n l r op s lc s1,
    bop_of (ttag op) = BOr ->
    eval_expr src funcs fz n l s = (Ok lc, s1) ->
    (is_truthy (load (hp s1) lc) = true ->
       eval_binary src funcs fz (S n) l r op s = m_alloc (VBool true) s1) /\
    (is_truthy (load (hp s1) lc) = false ->
       eval_binary src funcs fz (S n) l r op s =
         match eval_expr src funcs fz n r s1 with
         | (Ok rc, s2) => m_alloc (VBool (is_truthy (load (hp s2) rc))) s2
         | other => other
         end).
  Proof.
    intros n l r op s lc s1 Hop Hl. rewrite eval_binary_step.
    cbv zeta. rewrite Hop. rewrite (bind_ok _ _ _ _ _ Hl), bind_m_load.
    split; intros Ht; rewrite Ht.
    - reflexivity.
    - unfold bind at 1. destruct (eval_expr src funcs fz n r s1) as [[rc|e|x| | |] s2]; reflexivity.
  Qed.

  (* the 13 value operators: left operand, then right operand, then the table decides on the
     values the two cells hold AFTER both evaluations; an error in the right operand
     propagates unchanged *)
  Lemma binary_left_then_right : forall n l r op s lc s1,
    value_op (bop_of (ttag op)) = true ->
    eval_expr src funcs fz n l s = (Ok lc, s1) ->
    eval_binary src funcs fz (S n) l r op s =
      match eval_expr src funcs fz n r s1 with
      | (Ok rc, s2) =>
          lift_vres src (binop_value (bop_of (ttag op)) (load (hp s2) lc) (load (hp s2) rc))
                    (expr_token l) op (expr_token r) s2
      | other => other
      end.
  Proof.
    intros n l r op s lc s1 Hop Hl. rewrite eval_binary_step.
    cbv zeta. rewrite (bind_ok _ _ _ _ _ Hl), bind_m_load.
    destruct (bop_of (ttag op)); try discriminate Hop;
      (unfold bind at 1; destruct (eval_expr src funcs fz n r s1) as [[rc|e|x| | |] s2]; reflexivity).
  Qed.

  (* the same with the table of Spec/OpTable.v in place of the model's operator *)
  Lemma binary_by_table : forall n l r op s lc s1,
    value_op (bop_of (ttag op)) = true ->
    eval_expr src funcs fz n l s = (Ok lc, s1) ->
    eval_binary src funcs fz (S n) l r op s =
      match eval_expr src funcs fz n r s1 with
      | (Ok rc, s2) =>
          lift_vres src (spec_binop (bop_of (ttag op)) (load (hp s2) lc) (load (hp s2) rc))
                    (expr_token l) op (expr_token r) s2
      | other => other
      end.
  Proof.
    intros n l r op s lc s1 Hop Hl.
    rewrite (binary_left_then_right n l r op s lc s1 Hop Hl).
    destruct (eval_expr src funcs fz n r s1) as [[rc|e|x| | |] s2]; try reflexivity.
    rewrite binop_table_all; reflexivity.
  Qed.

  (* l is NAME: the right operand is never evaluated *)
  Lemma is_does_not_evaluate_right : forall n l r op s lc s1,
    bop_of (ttag op) = BIs ->
    eval_expr src funcs fz n l s = (Ok lc, s1) ->
    eval_binary src funcs fz (S n) l r op s =
      match r with
      | EId t =>
        match type_name_of src t with
        | Some tn => m_alloc (VBool (spec_is (load (hp s1) lc) tn)) s1
        | None => (Panic, s1)                 (* token outside the source text: GetString panics *)
        end
      | _ => rt_error src (expr_token r) s1
      end.
  Proof.
    intros n l r op s lc s1 Hop Hl. rewrite eval_binary_step.
    cbv zeta. rewrite Hop. rewrite (bind_ok _ _ _ _ _ Hl), bind_m_load.
    destruct r as [t|t|t items|t items|e o pf|a b o|f args|t v cases]; try reflexivity.
    unfold type_name_of. destruct (isk_of (ttag t)).
    - rewrite is_function_table; reflexivity.
    - rewrite is_null_table; reflexivity.
    - unfold tok_string. destruct (get_string src t) as [name|]; cbn [option_map]; [|reflexivity].
      rewrite <- is_table; reflexivity.
  Qed.

  (* unary ! + -: the operand is evaluated, then the table decides *)
  Lemma unary_by_table : forall n x op postfix s vc s1,
    value_uop (uop_of (ttag op)) = true ->
    eval_expr src funcs fz n x s = (Ok vc, s1) ->
    eval_unary src funcs fz (S n) x op postfix s =
      lift_vres src (spec_unop (uop_of (ttag op)) (load (hp s1) vc)) op op op s1.
  Proof.
    intros n x op postfix s vc s1 Hop Hx. rewrite eval_unary_step.
    cbv zeta. rewrite (bind_ok _ _ _ _ _ Hx), bind_m_load.
    rewrite unop_table_all.
    destruct (uop_of (ttag op)); try discriminate Hop; reflexivity.
  Qed.

  (* a numeric literal is ParseFloat of its text *)
  Lemma literal_num_eq : forall n t s text,
    ttag t = TNum -> get_string src t = Some text ->
    eval_expr src funcs fz (S n) (ELit t) s =
      match parse_float text with
      | PFok x => m_alloc (VNum x) s
      | PFunsupported => (Unsupp, s)
      | PFrange _ | PFsyntax => rt_error src t s
      end.
  Proof.
    intros n t s text Ht Hs. rewrite eval_lit_step, Ht. cbn [litk_of].
    unfold tok_string; rewrite Hs, bind_ret.
    destruct (parse_float text); reflexivity.
  Qed.

  Lemma literal_num : forall n t s text x,
    ttag t = TNum -> get_string src t = Some text ->
    ((exists a s', eval_expr src funcs fz (S n) (ELit t) s = (Ok a, s') /\ load (hp s') a = VNum x)
     <-> parse_float text = PFok x).
  Proof.
    intros n t s text x Ht Hs. rewrite (literal_num_eq n t s text Ht Hs).
    split.
    - intros [a [s' [H Hv]]].
      destruct (parse_float text) as [y|y| |].
      + apply m_alloc_load in H. rewrite H in Hv. inversion Hv; reflexivity.
      + destruct (rt_error_not_ok src t s) as [e [s'' He]]; rewrite He in H; discriminate H.
      + destruct (rt_error_not_ok src t s) as [e [s'' He]]; rewrite He in H; discriminate H.
      + discriminate H.
    - intros H; rewrite H. eexists; eexists; split; [reflexivity|].
      eapply m_alloc_load; reflexivity.
  Qed.
End EvalOrder.
