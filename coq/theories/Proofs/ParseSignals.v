(* Proofs/ParseSignals.v -- the parser only accepts programs in which break / continue occur
   inside a loop body and return inside a function body: [wf_program] (Spec/SignalWf.v) holds
   of every parsed program.  Same method as Proofs/ParseSpan.v: a weakest-precondition
   predicate over parser computations, here indexed by the flags p.inLoop / p.inFunction of the
   parser state, and a simultaneous induction on fuel over the 13 mutually recursive parser
   functions. *)
From Coq Require Import Lia List Bool.
From JQ Require Import Base.Bytes Syntax.Token Gen.Generated Syntax.Lexer Syntax.Ast Syntax.Parser.
From JQ Require Import Spec.SignalWf.
Open Scope nat_scope.

(* ---------- unfolding equations of wf_expr / wf_stmt (recursive calls folded) ---------- *)
Section Unfold.
  Variables (l f : bool).
  Lemma wfe_ELit : forall t, wf_expr l f (ELit t) = true. Proof. reflexivity. Qed.
  Lemma wfe_EId : forall t, wf_expr l f (EId t) = true. Proof. reflexivity. Qed.
  Lemma wfe_EArr : forall t items, wf_expr l f (EArr t items) = forallb (wf_expr l f) items.
  Proof. reflexivity. Qed.
  Lemma wfe_EObj : forall t items,
    wf_expr l f (EObj t items) = forallb (fun kv => wf_expr l f (snd kv)) items.
  Proof. reflexivity. Qed.
  Lemma wfe_EUn : forall e op pf, wf_expr l f (EUn e op pf) = wf_expr l f e. Proof. reflexivity. Qed.
  Lemma wfe_EBin : forall a b op, wf_expr l f (EBin a b op) = wf_expr l f a && wf_expr l f b.
  Proof. reflexivity. Qed.
  Lemma wfe_ECall : forall g args,
    wf_expr l f (ECall g args) = wf_expr l f g && forallb (wf_expr l f) args.
  Proof. reflexivity. Qed.
  Lemma wfe_EMatch : forall t v cases,
    wf_expr l f (EMatch t v cases) =
    wf_expr l f v && forallb (fun c => wf_stmt l f (snd c)) cases.
  Proof. reflexivity. Qed.
  Lemma wfs_SBlock : forall t body, wf_stmt l f (SBlock t body) = forallb (wf_stmt l f) body.
  Proof. reflexivity. Qed.
  Lemma wfs_SPrint : forall t args, wf_stmt l f (SPrint t args) = forallb (wf_expr l f) args.
  Proof. reflexivity. Qed.
  Lemma wfs_SExpr : forall e, wf_stmt l f (SExpr e) = wf_expr l f e. Proof. reflexivity. Qed.
  Lemma wfs_SReturnN : wf_stmt l f (SReturn None) = f. Proof. reflexivity. Qed.
  Lemma wfs_SReturnS : forall e, wf_stmt l f (SReturn (Some e)) = f && wf_expr l f e.
  Proof. reflexivity. Qed.
  Lemma wfs_SBreak : forall t, wf_stmt l f (SBreak t) = l. Proof. reflexivity. Qed.
  Lemma wfs_SContinue : forall t, wf_stmt l f (SContinue t) = l. Proof. reflexivity. Qed.
  Lemma wfs_SNext : forall t, wf_stmt l f (SNext t) = true. Proof. reflexivity. Qed.
  Lemma wfs_SExit : forall t, wf_stmt l f (SExit t) = true. Proof. reflexivity. Qed.
  Lemma wfs_SIfN : forall c b, wf_stmt l f (SIf c b None) = wf_expr l f c && wf_stmt l f b.
  Proof. reflexivity. Qed.
  Lemma wfs_SIfS : forall c b e,
    wf_stmt l f (SIf c b (Some e)) = wf_expr l f c && wf_stmt l f b && wf_stmt l f e.
  Proof. reflexivity. Qed.
  Lemma wfs_SWhile : forall c b, wf_stmt l f (SWhile c b) = wf_expr l f c && wf_stmt true f b.
  Proof. reflexivity. Qed.
  Lemma wfs_SFor : forall a c p b,
    wf_stmt l f (SFor a c p b) =
    wf_expr l f a && wf_expr l f c && wf_expr l f p && wf_stmt true f b.
  Proof. reflexivity. Qed.
  Lemma wfs_SForIn : forall id ix it b,
    wf_stmt l f (SForIn id ix it b) = wf_expr l f it && wf_stmt true f b.
  Proof. reflexivity. Qed.
End Unfold.
Global Hint Rewrite wfe_ELit wfe_EId wfe_EArr wfe_EObj wfe_EUn wfe_EBin wfe_ECall wfe_EMatch
  wfs_SBlock wfs_SPrint wfs_SExpr wfs_SReturnN wfs_SReturnS wfs_SBreak wfs_SContinue wfs_SNext
  wfs_SExit wfs_SIfN wfs_SIfS wfs_SWhile wfs_SFor wfs_SForIn : wfsig.

Lemma forallb_rev : forall {A} (P : A -> bool) l, forallb P l = true -> forallb P (rev l) = true.
Proof.
  intros A P l H. rewrite forallb_forall in *. intros x Hx. apply H. now apply in_rev.
Qed.

(* ---------- weakest precondition (partial correctness: only POk matters) ---------- *)
Definition wpf {A} (m : P A) (p : pstate) (Q : A -> pstate -> Prop) : Prop :=
  match m p with POk a p' => Q a p' | _ => True end.

Lemma wpf_ret : forall A (a : A) p (Q : A -> pstate -> Prop), Q a p -> wpf (pret a) p Q.
Proof. intros. exact H. Qed.

Lemma wpf_bind : forall A B (m : P A) (k : A -> P B) p (Q : B -> pstate -> Prop),
  wpf m p (fun a p' => wpf (k a) p' Q) -> wpf (pbind m k) p Q.
Proof. unfold wpf, pbind. intros A B m k p Q H. destruct (m p); auto. Qed.

Lemma wpf_mono : forall A (m : P A) p (Q Q' : A -> pstate -> Prop),
  wpf m p Q -> (forall a p', Q a p' -> Q' a p') -> wpf m p Q'.
Proof. unfold wpf. intros A m p Q Q' H HQ. destruct (m p); auto. Qed.

Lemma wpf_fail : forall A (m : P A) p (Q : A -> pstate -> Prop),
  (forall a p', m p <> POk a p') -> wpf m p Q.
Proof. unfold wpf. intros A m p Q H. destruct (m p) eqn:E; auto. exfalso. eapply H; eauto. Qed.

(* computations that leave p.inLoop and p.inFunction alone *)
Definition keeps {A} (m : P A) : Prop :=
  forall p, match m p with
            | POk _ p' => pinloop p' = pinloop p /\ pinfn p' = pinfn p
            | _ => True
            end.

Lemma keeps_ret : forall A (a : A), keeps (pret a).
Proof. intros A a p. simpl. auto. Qed.

Lemma keeps_bind : forall A B (m : P A) (k : A -> P B),
  keeps m -> (forall a, keeps (k a)) -> keeps (pbind m k).
Proof.
  intros A B m k Hm Hk p. unfold pbind. specialize (Hm p).
  destruct (m p) as [a p'| | |]; auto. specialize (Hk a p').
  destruct (k a p'); auto. destruct Hm, Hk. split; congruence.
Qed.

Lemma keeps_advance : keeps advance.
Proof.
  intros p. unfold advance.
  destruct (next_non_newline _ _ _) as [[t l'|pos l'] saw]; simpl; auto.
Qed.

Lemma keeps_consume : forall ts, keeps (consume ts).
Proof.
  intros ts p. unfold consume. destruct (tag_in _ _); [|exact I].
  apply (keeps_bind _ _ advance (fun _ => pret tt) keeps_advance (fun _ => keeps_ret _ tt)).
Qed.

Lemma keeps_consume_ignored : forall t, keeps (consume_ignored t).
Proof.
  intros t p. unfold consume_ignored. destruct (tag_eqb _ _); [|simpl; auto].
  apply (keeps_bind _ _ advance (fun _ => pret tt) keeps_advance (fun _ => keeps_ret _ tt)).
Qed.

Lemma keeps_set_end : forall b, keeps (set_end b).
Proof. intros b p. simpl. auto. Qed.
Lemma keeps_set_cur : forall t, keeps (set_cur t).
Proof. intros t p. simpl. auto. Qed.
Lemma keeps_pcurtok : keeps pcurtok. Proof. intros p. simpl. auto. Qed.
Lemma keeps_pprevtok : keeps pprevtok. Proof. intros p. simpl. auto. Qed.
Lemma keeps_pcurtag : keeps pcurtag. Proof. intros p. simpl. auto. Qed.
Lemma keeps_prev_string : keeps prev_string.
Proof. intros p. unfold prev_string. destruct (get_string _ _); simpl; auto. Qed.
Lemma keeps_lex_regex_tok : keeps lex_regex_tok.
Proof.
  intros p. unfold lex_regex_tok. destruct (lex_regex _) as [t l'|]; [|exact I].
  destruct (ttag t); simpl; auto.
Qed.
Lemma keeps_at_statement_end : keeps at_statement_end.
Proof.
  intros p. unfold at_statement_end. destruct (pend p); [simpl; auto|].
  destruct (ttag (pcur p)); try (simpl; auto; fail).
  apply (keeps_bind _ _ (consume_ignored TSemiColon) (fun _ => set_end true ;; pret true)).
  - apply keeps_consume_ignored.
  - intros _. apply keeps_bind; [apply keeps_set_end|intros _; apply keeps_ret].
Qed.

Global Hint Resolve keeps_advance keeps_consume keeps_consume_ignored keeps_set_end keeps_set_cur
  keeps_pcurtok keeps_pprevtok keeps_pcurtag keeps_prev_string keeps_lex_regex_tok
  keeps_at_statement_end keeps_ret : keeps.

Lemma wpf_keeps : forall A (m : P A) l f p (Q : A -> pstate -> Prop),
  keeps m -> pinloop p = l -> pinfn p = f ->
  (forall a p', pinloop p' = l -> pinfn p' = f -> Q a p') -> wpf m p Q.
Proof.
  intros A m l f p Q Hk Hl Hf HQ. unfold wpf. specialize (Hk p).
  destruct (m p) as [a p'| | |]; auto. destruct Hk. apply HQ; congruence.
Qed.

Lemma wpf_pget : forall p (Q : pstate -> pstate -> Prop), Q p p -> wpf pget p Q.
Proof. intros. exact H. Qed.
Lemma wpf_pcurtok : forall p (Q : token -> pstate -> Prop), Q (pcur p) p -> wpf pcurtok p Q.
Proof. intros. exact H. Qed.
Lemma wpf_pcurtag : forall p (Q : tag -> pstate -> Prop), Q (ttag (pcur p)) p -> wpf pcurtag p Q.
Proof. intros. exact H. Qed.
Lemma wpf_pprevtok : forall p (Q : token -> pstate -> Prop), Q (pprev p) p -> wpf pprevtok p Q.
Proof. intros. exact H. Qed.
Lemma wpf_perr : forall A pos p (Q : A -> pstate -> Prop), wpf (perr pos) p Q.
Proof. intros. exact I. Qed.
Lemma wpf_perr_cur : forall A p (Q : A -> pstate -> Prop), wpf perr_cur p Q.
Proof. intros. exact I. Qed.

Lemma wpf_set_inloop : forall b f p (Q : unit -> pstate -> Prop),
  pinfn p = f -> (forall p', pinloop p' = b -> pinfn p' = f -> Q tt p') -> wpf (set_inloop b) p Q.
Proof. intros b f p Q Hf HQ. unfold wpf, set_inloop. apply HQ; simpl; auto. Qed.
Lemma wpf_set_infn : forall b l p (Q : unit -> pstate -> Prop),
  pinloop p = l -> (forall p', pinloop p' = l -> pinfn p' = b -> Q tt p') -> wpf (set_infn b) p Q.
Proof. intros b l p Q Hl HQ. unfold wpf, set_infn. apply HQ; simpl; auto. Qed.

(* ---------- the invariant ---------- *)
Definition Rf {A} (G : bool -> bool -> A -> Prop) (m : P A) : Prop :=
  forall l f p, pinloop p = l -> pinfn p = f ->
    wpf m p (fun a p' => pinloop p' = l /\ pinfn p' = f /\ G l f a).

Definition Ge (l f : bool) (e : expr) : Prop := wf_expr l f e = true.
Definition Gs (l f : bool) (s : stmt) : Prop := wf_stmt l f s = true.
Definition Gbody (l f : bool) (s : stmt) : Prop := wf_stmt true f s = true.
Definition Gel (l f : bool) (es : list expr) : Prop := forallb (wf_expr l f) es = true.
Definition Gkv (l f : bool) (kvs : list (bytes * expr)) : Prop :=
  forallb (fun kv => wf_expr l f (snd kv)) kvs = true.
Definition Gcases (l f : bool) (cs : list (list expr * stmt)) : Prop :=
  forallb (fun c => wf_stmt l f (snd c)) cs = true.
Definition Gsl (l f : bool) (ss : list stmt) : Prop := forallb (wf_stmt l f) ss = true.
Definition Gany {A} (l f : bool) (a : A) : Prop := True.

Definition psig_ok (n : nat) : Prop :=
  (forall prec, Rf Ge (parse_expr_prec n prec)) /\
  (forall prec lhs l f p, pinloop p = l -> pinfn p = f -> Ge l f lhs ->
     wpf (parse_infix_loop n prec lhs) p (fun a p' => pinloop p' = l /\ pinfn p' = f /\ Ge l f a)) /\
  (forall endt acc l f p, pinloop p = l -> pinfn p = f -> Gel l f acc ->
     wpf (parse_expr_list n endt acc) p (fun a p' => pinloop p' = l /\ pinfn p' = f /\ Gel l f a)) /\
  (forall acc l f p, pinloop p = l -> pinfn p = f -> Gkv l f acc ->
     wpf (parse_object_items n acc) p (fun a p' => pinloop p' = l /\ pinfn p' = f /\ Gkv l f a)) /\
  Rf Ge (parse_match n) /\
  (forall acc l f p, pinloop p = l -> pinfn p = f -> Gcases l f acc ->
     wpf (parse_match_cases n acc) p (fun a p' => pinloop p' = l /\ pinfn p' = f /\ Gcases l f a)) /\
  (forall acc, Rf Gany (parse_match_pats n acc)) /\
  Rf Gs (parse_statement n) /\
  (forall pre l f p, pinloop p = l -> pinfn p = f -> Ge l f pre ->
     wpf (parse_for_rest n pre) p (fun a p' => pinloop p' = l /\ pinfn p' = f /\ Gs l f a)) /\
  Rf Gbody (parse_loop_body n) /\
  (forall acc l f p, pinloop p = l -> pinfn p = f -> Gel l f acc ->
     wpf (parse_print_args n acc) p (fun a p' => pinloop p' = l /\ pinfn p' = f /\ Gel l f a)) /\
  Rf Gs (parse_block n) /\
  (forall acc l f p, pinloop p = l -> pinfn p = f -> Gsl l f acc ->
     wpf (parse_block_items n acc) p (fun a p' => pinloop p' = l /\ pinfn p' = f /\ Gsl l f a)).

(* ---------- symbolic execution ---------- *)
Ltac wfgood :=
  unfold Ge, Gs, Gbody, Gel, Gkv, Gcases, Gsl, Gany, rewrite_compound in *;
  autorewrite with wfsig; cbn [forallb snd fst];
  repeat match goal with
  | |- _ /\ _ => split
  | |- True => exact I
  | |- (_ && _)%bool = true => apply andb_true_intro; split
  | |- forallb _ (rev _) = true => apply forallb_rev; cbn [forallb snd fst]
  | |- true = true => reflexivity
  | |- _ => assumption
  | |- _ => congruence
  end.

Ltac kstep :=
  eapply wpf_keeps; [solve [auto with keeps]|eassumption|eassumption|];
  let a := fresh "a" in let p' := fresh "p" in let Hl := fresh "Hl" in let Hf := fresh "Hf" in
  intros a p' Hl Hf.

Ltac fis_rec m :=
  lazymatch m with
  | parse_expr_prec _ _ => idtac
  | parse_infix_loop _ _ _ => idtac
  | parse_expr_list _ _ _ => idtac
  | parse_object_items _ _ => idtac
  | parse_match _ => idtac
  | parse_match_cases _ _ => idtac
  | parse_match_pats _ _ => idtac
  | parse_statement _ => idtac
  | parse_for_rest _ _ => idtac
  | parse_loop_body _ => idtac
  | parse_print_args _ _ => idtac
  | parse_block _ => idtac
  | parse_block_items _ _ => idtac
  end.

Ltac frec H :=
  eapply wpf_mono; [eapply H; first [eassumption | solve [wfgood]]|]; cbv beta;
  let a := fresh "a" in let p' := fresh "p" in
  let Hl := fresh "Hl" in let Hf := fresh "Hf" in let Hg := fresh "Hg" in
  intros a p' (Hl & Hf & Hg).

Ltac fcall :=
  lazymatch goal with
  | |- wpf ?m _ _ => fis_rec m; match goal with H : _ |- _ => frec H end
  end.

Ltac fprim :=
  lazymatch goal with
  | |- wpf (pbind _ _) _ _ => apply wpf_bind
  | |- wpf (pret _) _ _ => apply wpf_ret
  | |- wpf pget _ _ => apply wpf_pget
  | |- wpf pcurtok _ _ => apply wpf_pcurtok
  | |- wpf pprevtok _ _ => apply wpf_pprevtok
  | |- wpf pcurtag _ _ => apply wpf_pcurtag
  | |- wpf perr_cur _ _ => apply wpf_perr_cur
  | |- wpf (perr _) _ _ => apply wpf_perr
  | |- wpf (set_inloop _) _ _ =>
      eapply wpf_set_inloop; [eassumption|];
      let p' := fresh "p" in let Hl := fresh "Hl" in let Hf := fresh "Hf" in intros p' Hl Hf
  | |- wpf (set_infn _) _ _ =>
      eapply wpf_set_infn; [eassumption|];
      let p' := fresh "p" in let Hl := fresh "Hl" in let Hf := fresh "Hf" in intros p' Hl Hf
  | |- wpf (if ?b then _ else _) _ _ => destruct b eqn:?
  | |- wpf (match ?x with _ => _ end) _ _ => destruct x eqn:?
  | |- wpf _ _ _ => kstep
  end; cbv beta iota.

Ltac frun := repeat first [fcall | fprim].

Lemma psig_ok_0 : psig_ok 0.
Proof. unfold psig_ok, Rf, wpf. simpl. repeat split; intros; exact I. Qed.

Lemma psig_ok_S : forall n, psig_ok n -> psig_ok (S n).
Proof.
  intros n (IH1 & IH2 & IH3 & IH4 & IH5 & IH6 & IH7 & IH8 & IH9 & IH10 & IH11 & IH12 & IH13).
  unfold Rf in *. unfold psig_ok, Rf.
  repeat match goal with |- _ /\ _ => split end.
  - intros prec l f p Hl Hf. cbn [parse_expr_prec]. frun; try solve [wfgood].
  - intros prec lhs l f p Hl Hf Hlhs. cbn [parse_infix_loop]. frun; try solve [wfgood].
  - intros endt acc l f p Hl Hf Hacc. cbn [parse_expr_list]. frun; try solve [wfgood].
  - intros acc l f p Hl Hf Hacc. cbn [parse_object_items]. frun; try solve [wfgood].
  - intros l f p Hl Hf. cbn [parse_match]. frun; try solve [wfgood].
  - intros acc l f p Hl Hf Hacc. cbn [parse_match_cases]. frun; try solve [wfgood].
  - intros acc l f p Hl Hf. cbn [parse_match_pats]. frun; try solve [wfgood].
  - intros l f p Hl Hf. cbn [parse_statement]. frun; try solve [wfgood].
  - intros pre l f p Hl Hf Hpre. cbn [parse_for_rest]. frun; try solve [wfgood].
  - intros l f p Hl Hf. cbn [parse_loop_body]. frun; try solve [wfgood].
  - intros acc l f p Hl Hf Hacc. cbn [parse_print_args]. frun; try solve [wfgood].
  - intros l f p Hl Hf. cbn [parse_block]. frun; try solve [wfgood].
  - intros acc l f p Hl Hf Hacc. cbn [parse_block_items]. frun; try solve [wfgood].
Qed.

Lemma psig_ok_all : forall n, psig_ok n.
Proof. induction n; [exact psig_ok_0|now apply psig_ok_S]. Qed.

(* ---------- rules, functions, programs ---------- *)

Lemma keeps_parse_params : forall n acc, keeps (parse_params n acc).
Proof.
  induction n as [|n IH]; intros acc; [intros p; exact I|].
  cbn [parse_params]. apply keeps_bind; [apply keeps_pcurtag|intros t].
  destruct (tag_eqb t TEOF || tag_eqb t TRParen)%bool; [apply keeps_ret|].
  apply keeps_bind; [apply keeps_consume|intros _].
  apply keeps_bind; [apply keeps_prev_string|intros s].
  apply keeps_bind; [apply keeps_pcurtag|intros t2].
  apply keeps_bind; [destruct (tag_eqb t2 TComma); [apply keeps_consume_ignored|apply keeps_ret]|intros _].
  apply IH.
Qed.
Global Hint Resolve keeps_parse_params : keeps.

(* at top level p.inLoop = p.inFunction = false *)
Lemma parse_function_wf : forall n p, pinloop p = false -> pinfn p = false ->
  wpf (parse_function n) p
      (fun fn p' => pinloop p' = false /\ pinfn p' = false /\ wf_func fn = true).
Proof.
  intros n p Hl Hf.
  destruct (psig_ok_all n) as (IH1 & IH2 & IH3 & IH4 & IH5 & IH6 & IH7 & IH8 & IH9 & IH10 & IH11 & IH12 & IH13).
  unfold Rf in *. unfold parse_function. frun.
  unfold wf_func. cbn [fbody]. wfgood.
Qed.

Lemma parse_rule_wf : forall n p, pinloop p = false -> pinfn p = false ->
  wpf (parse_rule_ n) p
      (fun r p' => pinloop p' = false /\ pinfn p' = false /\ wf_rule r = true).
Proof.
  intros n p Hl Hf.
  destruct (psig_ok_all n) as (IH1 & IH2 & IH3 & IH4 & IH5 & IH6 & IH7 & IH8 & IH9 & IH10 & IH11 & IH12 & IH13).
  unfold Rf in *. unfold parse_rule_, parse_expression. frun;
    unfold wf_rule; cbn [rpattern rbody]; wfgood.
Qed.

Lemma parse_toplevel_wf : forall n rules fns p, pinloop p = false -> pinfn p = false ->
  forallb wf_rule rules = true -> forallb wf_func fns = true ->
  wpf (parse_toplevel n rules fns) p (fun prog _ => wf_program prog = true).
Proof.
  induction n as [|n IH]; intros rules fns p Hl Hf Hr Hfn; [exact I|].
  cbn [parse_toplevel]. frun.
  - unfold wf_program. cbn [prules pfuncs]. apply andb_true_intro. split; apply forallb_rev; assumption.
  - eapply wpf_mono; [apply parse_function_wf; assumption|]. cbv beta. intros fn p1 (H1 & H2 & H3).
    apply IH; auto. cbn [forallb]. rewrite H3. exact Hfn.
  - eapply wpf_mono; [apply parse_rule_wf; assumption|]. cbv beta. intros r p1 (H1 & H2 & H3).
    apply IH; auto. cbn [forallb]. rewrite H3. exact Hr.
Qed.

Theorem parse_program_fuel_wf : forall n src prog p,
  parse_program_fuel n src = POk prog p -> wf_program prog = true.
Proof.
  intros n src prog p H.
  assert (W : wpf (advance ;; parse_toplevel n [] []) (new_parser src)
                  (fun prog _ => wf_program prog = true)).
  { assert (Hl : pinloop (new_parser src) = false) by reflexivity.
    assert (Hf : pinfn (new_parser src) = false) by reflexivity.
    frun. apply parse_toplevel_wf; auto. }
  unfold wpf in W. unfold parse_program_fuel in H. rewrite H in W. exact W.
Qed.

Theorem parse_wf_signals_proof : forall src prog p,
  parse_program src = POk prog p -> wf_program prog = true.
Proof. intros src prog p H. exact (parse_program_fuel_wf _ _ _ _ H). Qed.

(* ---------- consequence for the whole run: no internal signal ever surfaces ---------- *)
From JQ Require Sem.Driver Proofs.EvalSignals.

Theorem run_never_raw_unconditional_proof : forall n src files sels fz,
  Driver.r_outcome (Driver.eval_program n src files sels fz) <> Driver.ORaw.
Proof.
  intros n src files sels fz H.
  destruct (EvalSignals.eval_program_raw_only_from_pattern_rules n src files sels fz H)
    as (prog & p & Hp & Hwf).
  rewrite (parse_wf_signals_proof src prog p Hp) in Hwf. discriminate Hwf.
Qed.
