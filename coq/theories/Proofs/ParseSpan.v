(* Proofs/ParseSpan.v -- the parser never panics, every token it stores in the AST points
   into the source text, every literal node carries a literal tag, and every syntax error
   is located inside the text (offset <= length).  One weakest-precondition style predicate
   over parser computations [P A = pstate -> pres A] carries all four properties through the
   mutually recursive parser functions (induction on fuel). *)
From Coq Require Import Lia ZArith ZifyN ZifyNat ZifyBool List.
From JQ Require Import Base.Bytes Syntax.Token Gen.Generated Syntax.Lexer Syntax.Ast Syntax.Parser.
From JQ Require Import Spec.Lines Spec.TokSpans Proofs.LineCol Proofs.LexSpan.
Open Scope nat_scope.

(* ---------- all_list / Forall, monotonicity of expr_toks ---------- *)

Lemma Forall_all_list : forall {A} (Q : A -> Prop) l, Forall Q l -> all_list Q l.
Proof. induction 1; simpl; auto. Qed.

Lemma all_list_Forall : forall {A} (Q : A -> Prop) l, all_list Q l -> Forall Q l.
Proof. induction l as [|x l IH]; simpl; intros H; constructor; [tauto|apply IH; tauto]. Qed.

Lemma all_list_mono : forall {A} (Q Q' : A -> Prop) l,
  Forall (fun x => Q x -> Q' x) l -> all_list Q l -> all_list Q' l.
Proof. induction 1 as [|x l Hx Hl IH]; simpl; [auto|]. intros [H1 H2]. split; auto. Qed.

(* unfolding equations of expr_toks / stmt_toks, with all recursive calls folded *)
Section Unfold.
  Variables (Pt Pl : token -> Prop).
  Lemma et_ELit : forall t, expr_toks Pt Pl (ELit t) = (Pt t /\ Pl t). Proof. reflexivity. Qed.
  Lemma et_EId : forall t, expr_toks Pt Pl (EId t) = Pt t. Proof. reflexivity. Qed.
  Lemma et_EArr : forall t items, expr_toks Pt Pl (EArr t items) = (Pt t /\ all_list (expr_toks Pt Pl) items).
  Proof. reflexivity. Qed.
  Lemma et_EObj : forall t items,
    expr_toks Pt Pl (EObj t items) = (Pt t /\ all_list (fun kv => expr_toks Pt Pl (snd kv)) items).
  Proof. reflexivity. Qed.
  Lemma et_EUn : forall e op pf, expr_toks Pt Pl (EUn e op pf) = (expr_toks Pt Pl e /\ Pt op).
  Proof. reflexivity. Qed.
  Lemma et_EBin : forall l r op,
    expr_toks Pt Pl (EBin l r op) = (expr_toks Pt Pl l /\ expr_toks Pt Pl r /\ Pt op).
  Proof. reflexivity. Qed.
  Lemma et_ECall : forall f args,
    expr_toks Pt Pl (ECall f args) = (expr_toks Pt Pl f /\ all_list (expr_toks Pt Pl) args).
  Proof. reflexivity. Qed.
  Lemma et_EMatch : forall t v cases,
    expr_toks Pt Pl (EMatch t v cases) =
    (Pt t /\ expr_toks Pt Pl v /\
     all_list (fun c => all_list (expr_toks Pt Pl) (fst c) /\ stmt_toks Pt Pl (snd c)) cases).
  Proof. reflexivity. Qed.
  Lemma st_SBlock : forall t body, stmt_toks Pt Pl (SBlock t body) = (Pt t /\ all_list (stmt_toks Pt Pl) body).
  Proof. reflexivity. Qed.
  Lemma st_SPrint : forall t args, stmt_toks Pt Pl (SPrint t args) = (Pt t /\ all_list (expr_toks Pt Pl) args).
  Proof. reflexivity. Qed.
  Lemma st_SExpr : forall e, stmt_toks Pt Pl (SExpr e) = expr_toks Pt Pl e. Proof. reflexivity. Qed.
  Lemma st_SReturnS : forall e, stmt_toks Pt Pl (SReturn (Some e)) = expr_toks Pt Pl e. Proof. reflexivity. Qed.
  Lemma st_SReturnN : stmt_toks Pt Pl (SReturn None) = True. Proof. reflexivity. Qed.
  Lemma st_SBreak : forall t, stmt_toks Pt Pl (SBreak t) = Pt t. Proof. reflexivity. Qed.
  Lemma st_SContinue : forall t, stmt_toks Pt Pl (SContinue t) = Pt t. Proof. reflexivity. Qed.
  Lemma st_SNext : forall t, stmt_toks Pt Pl (SNext t) = Pt t. Proof. reflexivity. Qed.
  Lemma st_SExit : forall t, stmt_toks Pt Pl (SExit t) = Pt t. Proof. reflexivity. Qed.
  Lemma st_SIfS : forall c b e,
    stmt_toks Pt Pl (SIf c b (Some e)) = (expr_toks Pt Pl c /\ stmt_toks Pt Pl b /\ stmt_toks Pt Pl e).
  Proof. reflexivity. Qed.
  Lemma st_SIfN : forall c b, stmt_toks Pt Pl (SIf c b None) = (expr_toks Pt Pl c /\ stmt_toks Pt Pl b).
  Proof. reflexivity. Qed.
  Lemma st_SWhile : forall c b, stmt_toks Pt Pl (SWhile c b) = (expr_toks Pt Pl c /\ stmt_toks Pt Pl b).
  Proof. reflexivity. Qed.
  Lemma st_SFor : forall a c p b,
    stmt_toks Pt Pl (SFor a c p b) =
    (expr_toks Pt Pl a /\ expr_toks Pt Pl c /\ expr_toks Pt Pl p /\ stmt_toks Pt Pl b).
  Proof. reflexivity. Qed.
  Lemma st_SForIn : forall id ix it b,
    stmt_toks Pt Pl (SForIn id ix it b) =
    (Pt id /\ all_opt Pt ix /\ expr_toks Pt Pl it /\ stmt_toks Pt Pl b).
  Proof. reflexivity. Qed.
End Unfold.
Global Hint Rewrite et_ELit et_EId et_EArr et_EObj et_EUn et_EBin et_ECall et_EMatch
  st_SBlock st_SPrint st_SExpr st_SReturnS st_SReturnN st_SBreak st_SContinue st_SNext st_SExit
  st_SIfS st_SIfN st_SWhile st_SFor st_SForIn : toks.

Section Mono.
  Variables (Pt Pl Pt' Pl' : token -> Prop).
  Hypothesis (Ht : forall t, Pt t -> Pt' t) (Hl : forall t, Pl t -> Pl' t).

  Lemma toks_mono :
    (forall e, expr_toks Pt Pl e -> expr_toks Pt' Pl' e) /\
    (forall s, stmt_toks Pt Pl s -> stmt_toks Pt' Pl' s).
  Proof.
    apply expr_stmt_ind.
    - intros t H. autorewrite with toks in H |- *. destruct H as [H1 H2]. split; auto.
    - intros t H. autorewrite with toks in H |- *. auto.
    - intros t items IH H. autorewrite with toks in H |- *. destruct H as [H1 H2].
      split; [auto|]. eapply all_list_mono; eauto.
    - intros t items IH H. autorewrite with toks in H |- *. destruct H as [H1 H2]. split; [auto|].
      eapply all_list_mono; [|exact H2]. exact IH.
    - intros e op pf IH H. autorewrite with toks in H |- *. destruct H as [H1 H2]. auto.
    - intros l r op IHl IHr H. autorewrite with toks in H |- *. destruct H as (H1 & H2 & H3). auto.
    - intros f args IHf IHa H. autorewrite with toks in H |- *. destruct H as [H1 H2].
      split; [auto|]. eapply all_list_mono; eauto.
    - intros t v cases IHv IHc H. autorewrite with toks in H |- *. destruct H as (H1 & H2 & H3).
      split; [auto|split; [auto|]].
      eapply all_list_mono; [|exact H3].
      eapply Forall_impl; [|exact IHc]. intros [ps b] [I1 I2] [J1 J2]. cbn [fst snd] in *.
      split; [eapply all_list_mono; eauto|auto].
    - intros t body IH H. autorewrite with toks in H |- *. destruct H as [H1 H2].
      split; [auto|]. eapply all_list_mono; eauto.
    - intros t args IH H. autorewrite with toks in H |- *. destruct H as [H1 H2].
      split; [auto|]. eapply all_list_mono; eauto.
    - intros e IH H. autorewrite with toks in H |- *. auto.
    - intros e IH H. autorewrite with toks in H |- *. auto.
    - intros H. autorewrite with toks in H |- *. auto.
    - intros t H. autorewrite with toks in H |- *. auto.
    - intros t H. autorewrite with toks in H |- *. auto.
    - intros t H. autorewrite with toks in H |- *. auto.
    - intros t H. autorewrite with toks in H |- *. auto.
    - intros c b e IHc IHb IHe H. autorewrite with toks in H |- *. destruct H as (H1 & H2 & H3). auto.
    - intros c b IHc IHb H. autorewrite with toks in H |- *. destruct H as (H1 & H2). auto.
    - intros c b IHc IHb H. autorewrite with toks in H |- *. destruct H as (H1 & H2). auto.
    - intros a c p b IHa IHc IHp IHb H. autorewrite with toks in H |- *.
      destruct H as (H1 & H2 & H3 & H4). auto.
    - intros id ix it b IHi IHb H. autorewrite with toks in H |- *. destruct H as (H1 & H2 & H3 & H4).
      split; [auto|split; [destruct ix; cbn [all_opt] in *; auto|auto]].
  Qed.

  Lemma program_toks_mono : forall pr, program_toks Pt Pl pr -> program_toks Pt' Pl' pr.
  Proof.
    intros pr [H1 H2]. destruct toks_mono as [Me Ms]. split.
    - eapply all_list_mono; [|exact H1]. apply Forall_forall. intros r _ [R1 R2].
      split; [destruct (rpattern r); simpl in *; auto|auto].
    - eapply all_list_mono; [|exact H2]. apply Forall_forall. intros f _ [R1 R2].
      split; auto.
  Qed.
End Mono.

(* ---------- tables ---------- *)

Lemma literal_rule_tags : forall tg, rprefix (rule_of tg) = PfLiteral ->
  In tg [TStr; TIdent; TRegex; TNum; TTrue; TFalse; TNull].
Proof. intros tg. destruct tg; vm_compute; intros H; try discriminate H; tauto. Qed.

Lemma tag_in_In : forall t ts, tag_in t ts = true -> In t ts.
Proof.
  induction ts as [|x r IH]; simpl; intros H; [discriminate|].
  apply orb_true_iff in H. destruct H as [H|H]; [left; now apply tag_eqb_eq|right; auto].
Qed.

Section Parse.
  Variable src : bytes.

  (* ---------- parser state invariant ---------- *)
  Definition pinv (p : pstate) : Prop :=
    psrc p = src /\ lex_inv src (plex p) /\ tok_in_src src (pcur p) /\ tok_in_src src (pprev p).

  Lemma pinv_cur : forall p, pinv p -> tok_in_src src (pcur p).
  Proof. intros p H. apply H. Qed.
  Lemma pinv_prev : forall p, pinv p -> tok_in_src src (pprev p).
  Proof. intros p H. apply H. Qed.

  Lemma pinv_new : pinv (new_parser src).
  Proof.
    unfold pinv, new_parser, new_lexer, lex_inv, tok_in_src. simpl.
    repeat split; lia.
  Qed.

  (* ---------- weakest precondition ---------- *)
  Definition wp {A} (m : P A) (p : pstate) (Q : A -> pstate -> Prop) : Prop :=
    match m p with
    | POk a p' => Q a p'
    | PErr pos => pos <= length src
    | PFuel => True
    | PPanic => False
    end.

  Lemma wp_ret : forall A (a : A) p (Q : A -> pstate -> Prop), Q a p -> wp (pret a) p Q.
  Proof. intros. exact H. Qed.

  Lemma wp_bind : forall A B (m : P A) (k : A -> P B) p (Q : B -> pstate -> Prop),
    wp m p (fun a p' => wp (k a) p' Q) -> wp (pbind m k) p Q.
  Proof. unfold wp, pbind. intros A B m k p Q H. destruct (m p); auto. Qed.

  Lemma wp_mono : forall A (m : P A) p (Q Q' : A -> pstate -> Prop),
    wp m p Q -> (forall a p', Q a p' -> Q' a p') -> wp m p Q'.
  Proof. unfold wp. intros A m p Q Q' H HQ. destruct (m p); auto. Qed.

  Lemma wp_pcurtok : forall p (Q : token -> pstate -> Prop), Q (pcur p) p -> wp pcurtok p Q.
  Proof. intros. exact H. Qed.
  Lemma wp_pprevtok : forall p (Q : token -> pstate -> Prop), Q (pprev p) p -> wp pprevtok p Q.
  Proof. intros. exact H. Qed.
  Lemma wp_pcurtag : forall p (Q : tag -> pstate -> Prop), Q (ttag (pcur p)) p -> wp pcurtag p Q.
  Proof. intros. exact H. Qed.
  Lemma wp_pget : forall p (Q : pstate -> pstate -> Prop), Q p p -> wp pget p Q.
  Proof. intros. exact H. Qed.
  Lemma wp_perr_cur : forall A p (Q : A -> pstate -> Prop), pinv p -> wp perr_cur p Q.
  Proof. intros A p Q H. unfold wp, perr_cur. generalize (pinv_cur p H). unfold tok_in_src. lia. Qed.
  Lemma wp_perr : forall A pos p (Q : A -> pstate -> Prop), pos <= length src -> wp (perr pos) p Q.
  Proof. intros. exact H. Qed.

  Lemma next_non_newline_spec : forall fuel l saw, lex_inv src l ->
    match next_non_newline fuel l saw with
    | (LexTok t l', _) => tok_in_src src t /\ lex_inv src l'
    | (LexErr pos _, _) => pos <= length src
    end.
  Proof.
    induction fuel as [|f IH]; intros l saw Hinv; simpl; [lia|].
    generalize (lex_next_spec src l Hinv). destruct (lex_next l) as [t l'|pos l'].
    - unfold next_tok_post, tok_post. intros ((A1 & A2 & _) & _).
      destruct (ttag t); try (split; assumption). apply IH. exact A2.
    - unfold next_err_post. intros (_ & A & _). lia.
  Qed.

  Lemma wp_advance : forall p (Q : token -> pstate -> Prop),
    pinv p ->
    (forall t p', pinv p' -> pprev p' = pcur p -> pcur p' = t -> Q t p') ->
    wp advance p Q.
  Proof.
    intros p Q (H1 & H2 & H3 & H4) HQ. unfold wp, advance.
    generalize (next_non_newline_spec (S (length (lrest (plex p)))) (plex p) false H2).
    destruct (next_non_newline _ _ _) as [[t l'|pos l'] saw].
    - intros [A B]. apply HQ; try reflexivity. unfold pinv. simpl. auto.
    - auto.
  Qed.

  Lemma wp_consume : forall ts p (Q : unit -> pstate -> Prop),
    pinv p ->
    (forall p', pinv p' -> pprev p' = pcur p -> In (ttag (pcur p)) ts -> Q tt p') ->
    wp (consume ts) p Q.
  Proof.
    intros ts p Q Hinv HQ. unfold wp, consume.
    destruct (tag_in (ttag (pcur p)) ts) eqn:E.
    - change (wp (advance ;; pret tt) p Q). apply wp_bind. apply wp_advance; [exact Hinv|].
      intros t p' Hi Hp Hc. apply wp_ret. apply HQ; auto. now apply tag_in_In.
    - generalize (pinv_cur p Hinv). unfold tok_in_src. lia.
  Qed.

  Lemma wp_consume_ignored : forall tg p (Q : unit -> pstate -> Prop),
    pinv p -> (forall p', pinv p' -> Q tt p') -> wp (consume_ignored tg) p Q.
  Proof.
    intros tg p Q Hinv HQ. unfold wp, consume_ignored.
    destruct (tag_eqb (ttag (pcur p)) tg).
    - change (wp (advance ;; pret tt) p Q). apply wp_bind. apply wp_advance; [exact Hinv|].
      intros t p' Hi Hp Hc. apply wp_ret. apply HQ; auto.
    - apply HQ. exact Hinv.
  Qed.

  Lemma wp_set_end : forall b p (Q : unit -> pstate -> Prop),
    pinv p -> (forall p', pinv p' -> Q tt p') -> wp (set_end b) p Q.
  Proof. intros b p Q Hinv HQ. unfold wp, set_end. apply HQ. exact Hinv. Qed.
  Lemma wp_set_inloop : forall b p (Q : unit -> pstate -> Prop),
    pinv p -> (forall p', pinv p' -> Q tt p') -> wp (set_inloop b) p Q.
  Proof. intros b p Q Hinv HQ. unfold wp, set_inloop. apply HQ. exact Hinv. Qed.
  Lemma wp_set_infn : forall b p (Q : unit -> pstate -> Prop),
    pinv p -> (forall p', pinv p' -> Q tt p') -> wp (set_infn b) p Q.
  Proof. intros b p Q Hinv HQ. unfold wp, set_infn. apply HQ. exact Hinv. Qed.
  Lemma wp_set_cur : forall t p (Q : unit -> pstate -> Prop),
    pinv p -> tok_in_src src t -> (forall p', pinv p' -> Q tt p') -> wp (set_cur t) p Q.
  Proof.
    intros t p Q (H1 & H2 & H3 & H4) Ht HQ. unfold wp, set_cur. apply HQ.
    unfold pinv. simpl. auto.
  Qed.

  Lemma wp_at_statement_end : forall p (Q : bool -> pstate -> Prop),
    pinv p -> (forall b p', pinv p' -> Q b p') -> wp at_statement_end p Q.
  Proof.
    intros p Q Hinv HQ. unfold wp, at_statement_end.
    destruct (pend p); [apply HQ; exact Hinv|].
    destruct (ttag (pcur p)); try (apply HQ; exact Hinv).
    change (wp (consume_ignored TSemiColon ;; set_end true ;; pret true) p Q).
    apply wp_bind. apply wp_consume_ignored; [exact Hinv|]. intros p1 Hi1.
    apply wp_bind. apply wp_set_end; [exact Hi1|]. intros p2 Hi2.
    apply wp_ret. apply HQ. exact Hi2.
  Qed.

  Lemma wp_prev_string : forall p (Q : bytes -> pstate -> Prop),
    pinv p -> (forall s, Q s p) -> wp prev_string p Q.
  Proof.
    intros p Q Hinv HQ. unfold wp, prev_string.
    destruct Hinv as (H1 & H2 & H3 & H4). rewrite H1.
    rewrite (get_string_in src (pprev p) H4). apply HQ.
  Qed.

  Lemma wp_lex_regex_tok : forall p (Q : token -> pstate -> Prop),
    pinv p ->
    (forall t p', pinv p' -> tok_in_src src t -> ttag t = TRegex -> Q t p') ->
    wp lex_regex_tok p Q.
  Proof.
    intros p Q (H1 & H2 & H3 & H4) HQ. unfold wp, lex_regex_tok.
    destruct (lex_regex (plex p)) as [t l'|pos l'] eqn:E.
    - destruct (lex_regex_span src _ _ _ H2 E) as ((A1 & A2 & _) & B & _).
      rewrite B. apply HQ; auto. unfold pinv. simpl. auto.
    - destruct (lex_regex_err src _ _ _ H2 E) as (A & _). subst pos.
      destruct H2 as (_ & X & Y). lia.
  Qed.

  (* ---------- what a good AST is ---------- *)
  Definition ge (e : expr) : Prop := expr_toks (tok_in_src src) lit_tag_ok e.
  Definition gs (s : stmt) : Prop := stmt_toks (tok_in_src src) lit_tag_ok s.
  Definition gkv (kv : bytes * expr) : Prop := ge (snd kv).
  Definition gcase (c : list expr * stmt) : Prop := Forall ge (fst c) /\ gs (snd c).

  Lemma expr_token_in : forall e, ge e -> tok_in_src src (expr_token e).
  Proof.
    unfold ge. induction e; autorewrite with toks; cbn [expr_token]; intros H; try tauto.
  Qed.

  Lemma is_eid_in : forall e t, is_eid e = Some t -> ge e -> tok_in_src src t.
  Proof.
    intros e t H Hg. destruct e; simpl in H; try discriminate. inversion H; subst.
    unfold ge in Hg. autorewrite with toks in Hg. exact Hg.
  Qed.

  Lemma tok_in_src_mk : forall op tg n, tok_in_src src op -> n <= tlen op ->
    tok_in_src src (mkTok tg (tpos op) n).
  Proof. unfold tok_in_src. simpl. intros. lia. Qed.

  Lemma ge_rewrite_compound : forall l r op base,
    ge l -> ge r -> tok_in_src src op -> ge (rewrite_compound l r op base).
  Proof.
    intros l r op base Hl Hr Hop. unfold ge, rewrite_compound in *. autorewrite with toks.
    repeat split; auto; apply tok_in_src_mk; auto; lia.
  Qed.

  Lemma gcase_all : forall cases, Forall gcase cases ->
    all_list (fun c => all_list (expr_toks (tok_in_src src) lit_tag_ok) (fst c) /\
                       stmt_toks (tok_in_src src) lit_tag_ok (snd c)) cases.
  Proof.
    intros cases H. apply Forall_all_list. eapply Forall_impl; [|exact H].
    intros c [H1 H2]. split; [now apply Forall_all_list|exact H2].
  Qed.

  Definition R_expr (m : P expr) : Prop :=
    forall p, pinv p -> wp m p (fun e p' => pinv p' /\ ge e).
  Definition R_stmt (m : P stmt) : Prop :=
    forall p, pinv p -> wp m p (fun s p' => pinv p' /\ gs s).
  Definition R_list {A} (G : A -> Prop) (m : P (list A)) : Prop :=
    forall p, pinv p -> wp m p (fun l p' => pinv p' /\ Forall G l).

  Definition all_ok (n : nat) : Prop :=
    (forall prec, R_expr (parse_expr_prec n prec)) /\
    (forall prec lhs, ge lhs -> R_expr (parse_infix_loop n prec lhs)) /\
    (forall endt acc, Forall ge acc -> R_list ge (parse_expr_list n endt acc)) /\
    (forall acc, Forall gkv acc -> R_list gkv (parse_object_items n acc)) /\
    R_expr (parse_match n) /\
    (forall acc, Forall gcase acc -> R_list gcase (parse_match_cases n acc)) /\
    (forall acc, Forall ge acc -> R_list ge (parse_match_pats n acc)) /\
    R_stmt (parse_statement n) /\
    (forall pre, ge pre -> R_stmt (parse_for_rest n pre)) /\
    R_stmt (parse_loop_body n) /\
    (forall acc, Forall ge acc -> R_list ge (parse_print_args n acc)) /\
    R_stmt (parse_block n) /\
    (forall acc, Forall gs acc -> R_list gs (parse_block_items n acc)).

  (* ---------- symbolic execution ---------- *)
  Ltac lit_tac :=
    unfold lit_tag_ok;
    match goal with
    | Hp : pprev ?p' = pcur ?p, Hr : rprefix (rule_of (ttag (pcur ?p))) = PfLiteral
      |- In (ttag (pprev ?p')) _ => rewrite Hp; apply literal_rule_tags; exact Hr
    | Hp : pprev ?p' = pcur ?p, Ht : In (ttag (pcur ?p)) [TIdent]
      |- In (ttag (pprev ?p')) _ => rewrite Hp; destruct Ht as [Ht|[]]; rewrite <- Ht; simpl; tauto
    | Hr : ttag ?t = TRegex |- In (ttag ?t) _ => rewrite Hr; simpl; tauto
    end.

  Ltac good :=
    unfold ge, gs, gkv, gcase in *;
    autorewrite with toks; cbn [all_opt fst snd];
    repeat match goal with
    | |- _ /\ _ => split
    | |- True => exact I
    | |- pinv _ => assumption
    | |- tok_in_src _ (pprev _) => apply pinv_prev; assumption
    | |- tok_in_src _ (pcur _) => apply pinv_cur; assumption
    | |- lit_tag_ok _ => lit_tac
    | H : is_eid ?a = Some ?t |- tok_in_src _ ?t => apply (is_eid_in a); [exact H|assumption]
    | |- expr_toks _ _ (rewrite_compound _ _ _ _) => apply ge_rewrite_compound
    | |- all_list (fun c => all_list _ (fst c) /\ _) _ => apply gcase_all
    | |- all_list _ _ => apply Forall_all_list
    | |- Forall _ (rev _) => apply Forall_rev
    | |- Forall _ (_ :: _) => constructor
    | |- Forall _ [] => constructor
    | |- _ => assumption
    end.

  Ltac wrec IH :=
    eapply wp_mono; [eapply IH; good|]; cbv beta;
    let a := fresh "a" in let p' := fresh "p" in let Hi := fresh "Hinv" in let Hg := fresh "Hg" in
    intros a p' [Hi Hg].

  Ltac wprim :=
    lazymatch goal with
    | |- wp (pbind _ _) _ _ => apply wp_bind
    | |- wp (pret _) _ _ => apply wp_ret
    | |- wp pcurtok _ _ => apply wp_pcurtok
    | |- wp pprevtok _ _ => apply wp_pprevtok
    | |- wp pcurtag _ _ => apply wp_pcurtag
    | |- wp pget _ _ => apply wp_pget
    | |- wp perr_cur _ _ => apply wp_perr_cur; assumption
    | |- wp (perr (tpos (expr_token ?l))) _ _ =>
        apply wp_perr;
        let H := fresh in
        assert (H : tok_in_src src (expr_token l)) by (apply expr_token_in; assumption);
        unfold tok_in_src in H; lia
    | |- wp advance _ _ =>
        apply wp_advance; [assumption|];
        let t := fresh "t" in let p' := fresh "p" in let Hi := fresh "Hinv" in
        let Hp := fresh "Hprev" in let Hc := fresh "Hcur" in intros t p' Hi Hp Hc
    | |- wp (consume _) _ _ =>
        apply wp_consume; [assumption|];
        let p' := fresh "p" in let Hi := fresh "Hinv" in
        let Hp := fresh "Hprev" in let Ht := fresh "Htag" in intros p' Hi Hp Ht
    | |- wp (consume_ignored _) _ _ =>
        apply wp_consume_ignored; [assumption|];
        let p' := fresh "p" in let Hi := fresh "Hinv" in intros p' Hi
    | |- wp (set_end _) _ _ =>
        apply wp_set_end; [assumption|];
        let p' := fresh "p" in let Hi := fresh "Hinv" in intros p' Hi
    | |- wp (set_inloop _) _ _ =>
        apply wp_set_inloop; [assumption|];
        let p' := fresh "p" in let Hi := fresh "Hinv" in intros p' Hi
    | |- wp (set_infn _) _ _ =>
        apply wp_set_infn; [assumption|];
        let p' := fresh "p" in let Hi := fresh "Hinv" in intros p' Hi
    | |- wp (set_cur _) _ _ =>
        apply wp_set_cur; [assumption|assumption|];
        let p' := fresh "p" in let Hi := fresh "Hinv" in intros p' Hi
    | |- wp at_statement_end _ _ =>
        apply wp_at_statement_end; [assumption|];
        let b := fresh "b" in let p' := fresh "p" in let Hi := fresh "Hinv" in intros b p' Hi
    | |- wp prev_string _ _ =>
        apply wp_prev_string; [assumption|]; let s := fresh "s" in intros s
    | |- wp lex_regex_tok _ _ =>
        apply wp_lex_regex_tok; [assumption|];
        let t := fresh "t" in let p' := fresh "p" in let Hi := fresh "Hinv" in
        let Ht := fresh "Htok" in let Hg := fresh "Hregex" in intros t p' Hi Ht Hg
    | |- wp (if ?b then _ else _) _ _ => destruct b eqn:?
    | |- wp (match ?x with _ => _ end) _ _ => destruct x eqn:?
    end; cbv beta iota.

  Lemma all_ok_0 : all_ok 0.
  Proof. unfold all_ok, R_expr, R_stmt, R_list, wp. simpl. repeat split; intros; exact I. Qed.

  Ltac is_rec m :=
    lazymatch m with
    | parse_expr_prec _ _ => idtac
    | parse_infix_loop _ _ _ => idtac
    | parse_expr_list _ _ _ => idtac
    | parse_object_items _ _ => idtac
    | parse_match _ => idtac
    | parse_match_cases _ _ => idtac
    | parse_match_pats _ _ => idtac
    | parse_statement _ => idtac
    | parse_for_rest _ _ => idtac
    | parse_loop_body _ => idtac
    | parse_print_args _ _ => idtac
    | parse_block _ => idtac
    | parse_block_items _ _ => idtac
    end.
  Ltac wcall :=
    lazymatch goal with
    | |- wp ?m _ _ => is_rec m; match goal with H : _ |- _ => wrec H end
    end.
  Ltac wrun := repeat first [wcall | wprim].

  Lemma all_ok_S : forall f, all_ok f -> all_ok (S f).
  Proof.
    intros f (IH1 & IH2 & IH3 & IH4 & IH5 & IH6 & IH7 & IH8 & IH9 & IH10 & IH11 & IH12 & IH13).
    unfold R_expr, R_stmt, R_list in *.
    unfold all_ok.
    repeat match goal with |- _ /\ _ => split end.
    - (* parse_expr_prec *)
      intros prec p Hinv. cbn [parse_expr_prec]. wrun; try solve [good].
    - (* parse_infix_loop *)
      intros prec lhs Hlhs p Hinv. cbn [parse_infix_loop]. wrun; try solve [good].
    - (* parse_expr_list *)
      intros endt acc Hacc p Hinv. cbn [parse_expr_list]. wrun; try solve [good].
    - (* parse_object_items *)
      intros acc Hacc p Hinv. cbn [parse_object_items]. wrun; try solve [good].
    - (* parse_match *)
      intros p Hinv. cbn [parse_match]. wrun; try solve [good].
    - (* parse_match_cases *)
      intros acc Hacc p Hinv. cbn [parse_match_cases]. wrun; try solve [good].
    - (* parse_match_pats *)
      intros acc Hacc p Hinv. cbn [parse_match_pats]. wrun; try solve [good].
    - (* parse_statement *)
      intros p Hinv. cbn [parse_statement]. wrun; try solve [good].
    - (* parse_for_rest *)
      intros pre Hpre p Hinv. cbn [parse_for_rest]. wrun; try solve [good].
    - (* parse_loop_body *)
      intros p Hinv. cbn [parse_loop_body]. wrun; try solve [good].
    - (* parse_print_args *)
      intros acc Hacc p Hinv. cbn [parse_print_args]. wrun; try solve [good].
    - (* parse_block *)
      intros p Hinv. cbn [parse_block]. wrun; try solve [good].
    - (* parse_block_items *)
      intros acc Hacc p Hinv. cbn [parse_block_items]. wrun; try solve [good].
  Qed.

  Lemma all_ok_all : forall n, all_ok n.
  Proof. induction n; [exact all_ok_0|now apply all_ok_S]. Qed.

  (* ---------- rules, functions, programs ---------- *)
  Definition grule (r : rule) : Prop := rule_toks (tok_in_src src) lit_tag_ok r.
  Definition gfunc (fn : func) : Prop := func_toks (tok_in_src src) lit_tag_ok fn.

  Lemma zero_token_in : tok_in_src src zero_token.
  Proof. unfold tok_in_src. simpl. lia. Qed.

  Lemma parse_rule_ok : forall n p, pinv p ->
    wp (parse_rule_ n) p (fun r p' => pinv p' /\ grule r).
  Proof.
    intros n p Hinv.
    destruct (all_ok_all n) as (IH1 & IH2 & IH3 & IH4 & IH5 & IH6 & IH7 & IH8 & IH9 & IH10 & IH11 & IH12 & IH13).
    unfold R_expr, R_stmt, R_list in *.
    unfold parse_rule_, parse_expression.
    wrun; (split; [assumption|]); unfold grule, rule_toks; cbn [rpattern rbody all_opt];
      try solve [good].
    all: split; [try exact I; assumption|]; unfold gs; autorewrite with toks;
      split; [exact zero_token_in|exact I].
  Qed.

  Lemma parse_params_ok : forall n acc p, pinv p ->
    wp (parse_params n acc) p (fun _ p' => pinv p').
  Proof.
    induction n as [|f IH]; intros acc p Hinv; [exact I|].
    cbn [parse_params]. wrun; try assumption; apply IH; assumption.
  Qed.

  Lemma parse_function_ok : forall n p, pinv p ->
    wp (parse_function n) p (fun fn p' => pinv p' /\ gfunc fn).
  Proof.
    intros n p Hinv.
    destruct (all_ok_all n) as (IH1 & IH2 & IH3 & IH4 & IH5 & IH6 & IH7 & IH8 & IH9 & IH10 & IH11 & IH12 & IH13).
    unfold R_expr, R_stmt, R_list in *.
    unfold parse_function. wrun.
    eapply wp_mono; [apply parse_params_ok; assumption|]. cbv beta. intros params p5 Hinv5.
    wrun. unfold gfunc, func_toks. cbn [fident fbody]. good.
  Qed.

  Lemma parse_toplevel_ok : forall n rules fns p, pinv p ->
    Forall grule rules -> Forall gfunc fns ->
    wp (parse_toplevel n rules fns) p
       (fun prog _ => program_toks (tok_in_src src) lit_tag_ok prog).
  Proof.
    induction n as [|f IH]; intros rules fns p Hinv Hr Hf; [exact I|].
    cbn [parse_toplevel]. wrun.
    - unfold program_toks. cbn [prules pfuncs].
      split; apply Forall_all_list; apply Forall_rev; assumption.
    - eapply wp_mono; [apply parse_function_ok; assumption|]. cbv beta. intros fn p1 [Hi Hg].
      apply IH; auto.
    - eapply wp_mono; [apply parse_rule_ok; assumption|]. cbv beta. intros r p1 [Hi Hg].
      apply IH; auto.
  Qed.

  Definition parse_post {A} (G : A -> Prop) (r : pres A) : Prop :=
    match r with
    | POk a _ => G a
    | PErr pos => pos <= length src
    | PFuel => True
    | PPanic => False
    end.

  Lemma parse_program_fuel_ok : forall n,
    parse_post (program_toks (tok_in_src src) lit_tag_ok) (parse_program_fuel n src).
  Proof.
    intros n. unfold parse_program_fuel.
    change (wp (advance ;; parse_toplevel n [] []) (new_parser src)
               (fun prog _ => program_toks (tok_in_src src) lit_tag_ok prog)).
    assert (Hinv := pinv_new).
    wrun. apply parse_toplevel_ok; auto.
  Qed.

  Lemma parse_expression_fuel_ok : forall n,
    parse_post ge (parse_expression_fuel n src).
  Proof.
    intros n. unfold parse_expression_fuel, parse_expression.
    change (wp (advance ;; do e <- parse_expr_prec n (prec_index PrecAssign); consume [TEOF] ;; pret e)
               (new_parser src) (fun e _ => ge e)).
    assert (Hinv := pinv_new).
    destruct (all_ok_all n) as (IH1 & _). unfold R_expr in IH1.
    wrun. assumption.
  Qed.
End Parse.

(* ---------- final statements ---------- *)

Lemma any_tok_top : forall P (t : token), P t -> any_tok t.
Proof. intros. exact I. Qed.

Theorem parse_program_fuel_post : forall src n,
  match parse_program_fuel n src with
  | POk prog _ => Forall_tokens_program (tok_in_src src) prog /\ Forall_lits_program lit_tag_ok prog
  | PErr pos => pos <= length src
  | PFuel => True
  | PPanic => False
  end.
Proof.
  intros src n. generalize (parse_program_fuel_ok src n). unfold parse_post.
  destruct (parse_program_fuel n src) as [prog p|pos| |]; auto.
  intros H. split.
  - eapply program_toks_mono; [| |exact H]; auto. intros; exact I.
  - eapply program_toks_mono; [| |exact H]; auto. intros; exact I.
Qed.

Theorem parse_expression_fuel_post : forall src n,
  match parse_expression_fuel n src with
  | POk e _ => Forall_tokens_expr (tok_in_src src) e /\ Forall_lits_expr lit_tag_ok e
  | PErr pos => pos <= length src
  | PFuel => True
  | PPanic => False
  end.
Proof.
  intros src n. generalize (parse_expression_fuel_ok src n). unfold parse_post, ge.
  destruct (parse_expression_fuel n src) as [e p|pos| |]; auto.
  intros H. split.
  - eapply (proj1 (toks_mono _ _ _ _ _ _)); [exact H]. 
  - eapply (proj1 (toks_mono _ _ _ _ _ _)); [exact H].
  Unshelve. all: auto; intros; exact I.
Qed.

Theorem parse_spans_proof : forall src prog p,
  parse_program src = POk prog p -> Forall_tokens_program (tok_in_src src) prog.
Proof.
  intros src prog p H. generalize (parse_program_fuel_post src (parse_fuel src)).
  unfold parse_program in H. rewrite H. tauto.
Qed.

Theorem parse_spans_expr_proof : forall src e p,
  parse_expression_src src = POk e p -> Forall_tokens_expr (tok_in_src src) e.
Proof.
  intros src e p H. generalize (parse_expression_fuel_post src (parse_fuel src)).
  unfold parse_expression_src in H. rewrite H. tauto.
Qed.

Theorem parse_lit_tags_proof : forall src,
  (forall prog p, parse_program src = POk prog p -> Forall_lits_program lit_tag_ok prog) /\
  (forall e p, parse_expression_src src = POk e p -> Forall_lits_expr lit_tag_ok e).
Proof.
  intros src. split.
  - intros prog p H. generalize (parse_program_fuel_post src (parse_fuel src)).
    unfold parse_program in H. rewrite H. tauto.
  - intros e p H. generalize (parse_expression_fuel_post src (parse_fuel src)).
    unfold parse_expression_src in H. rewrite H. tauto.
Qed.

Theorem parse_no_panic_proof : forall src,
  parse_program src <> PPanic /\ parse_expression_src src <> PPanic /\
  (forall n, parse_program_fuel n src <> PPanic) /\
  (forall n, parse_expression_fuel n src <> PPanic).
Proof.
  intros src.
  assert (A : forall n, parse_program_fuel n src <> PPanic).
  { intros n H. generalize (parse_program_fuel_post src n). now rewrite H. }
  assert (B : forall n, parse_expression_fuel n src <> PPanic).
  { intros n H. generalize (parse_expression_fuel_post src n). now rewrite H. }
  split; [apply A|split; [apply B|split; assumption]].
Qed.

Theorem error_pos_in_src_proof : forall src pos,
  parse_program src = PErr pos \/ parse_expression_src src = PErr pos -> pos <= length src.
Proof.
  intros src pos [H|H].
  - generalize (parse_program_fuel_post src (parse_fuel src)).
    unfold parse_program in H. now rewrite H.
  - generalize (parse_expression_fuel_post src (parse_fuel src)).
    unfold parse_expression_src in H. now rewrite H.
Qed.

(* every token of a parsed AST can be handed to Lexer.GetString without a panic *)
Theorem tok_in_src_get_string : forall src t, tok_in_src src t ->
  get_string src t = Some (slice src (tpos t) (tlen t)).
Proof. exact get_string_in. Qed.

(* every lexer error of Lexer.Next, rendered: the line of the offending byte (the unexpected
   character, or the opening quote of the unterminated string), the caret exactly on it *)
Theorem lexer_error_caret_exact_proof : forall src l p l' text n col,
  lex_inv src l -> lex_next l = LexErr p l' ->
  get_line_col src p = (text, n, col) ->
  n = S (line_of_pos src p) /\
  nth_error (lines src) (n - 1) = Some text /\
  col = Z.of_nat (col_of_pos src p) /\
  (0 <= col < Z.of_nat (length text))%Z /\
  exists c, nth_error src p = Some c /\ nth_error text (Z.to_nat col) = Some c /\ c <> 10%N.
Proof.
  intros src l p l' text n col Hinv H Hg.
  destruct (lexer_error_pos_proof src l p l' Hinv H) as (A & B & C & D & E & c & Hc & Hc10).
  destruct (pos_exact_proof src p text n col ltac:(lia) Hg) as (E1 & E2 & E3 & E4 & E5 & E6 & E7).
  assert (Hlt : (col < Z.of_nat (length text))%Z).
  { destruct (Z.eq_dec col (Z.of_nat (length text))) as [Heq|Hne]; [|lia].
    apply E6 in Heq. destruct Heq as [X|X]; [congruence|lia]. }
  split; [exact E1|split; [subst n; cbn [Nat.sub]; rewrite Nat.sub_0_r; exact E2|]].
  split; [exact E4|split; [lia|]].
  exists c. split; [exact Hc|split; [rewrite (E7 Hlt); exact Hc|exact Hc10]].
Qed.

(* unterminated regex: rendered exactly on the opening '/' *)
Theorem regex_error_caret_proof : forall src l0 t l p l' text n col,
  lex_inv src l0 -> lex_next l0 = LexTok t l -> ttag t = TDivide ->
  lex_regex l = LexErr p l' ->
  get_line_col src p = (text, n, col) ->
  p = tpos t /\ n = S (line_of_pos src p) /\
  nth_error (lines src) (line_of_pos src p) = Some text /\
  col = Z.of_nat (col_of_pos src p) /\ (0 <= col < Z.of_nat (length text))%Z /\
  nth_error text (Z.to_nat col) = Some 47%N.
Proof.
  intros src l0 t l p l' text n col Hinv H Ht Hre Hg.
  destruct (lexer_error_in_regex_proof src l0 t l p l' Hinv H Ht Hre) as (A & B & C & D & E).
  destruct (pos_exact_proof src p text n col ltac:(lia) Hg) as (E1 & E2 & E3 & E4 & E5 & E6 & E7).
  assert (Hlt : (col < Z.of_nat (length text))%Z).
  { destruct (Z.eq_dec col (Z.of_nat (length text))) as [Heq|Hne]; [|lia].
    apply E6 in Heq. destruct Heq as [X|X]; [congruence|lia]. }
  split; [exact A|split; [exact E1|split; [exact E2|split; [exact E4|split; [lia|]]]]].
  rewrite (E7 Hlt). exact B.
Qed.

(* every syntax error of the parser (its own or a lexer error passed on), rendered: the offset
   is inside the text or at its end, so it is rendered exactly -- the line it belongs to, the
   byte column inside that line, never negative, never past the end of the line *)
Theorem error_col_in_line_proof : forall src pos text n col,
  parse_program src = PErr pos \/ parse_expression_src src = PErr pos ->
  get_line_col src pos = (text, n, col) ->
  pos <= length src /\
  n = S (line_of_pos src pos) /\
  nth_error (lines src) (n - 1) = Some text /\
  col = Z.of_nat (col_of_pos src pos) /\
  (0 <= col <= Z.of_nat (length text))%Z /\
  (col = Z.of_nat (length text) <-> (nth_error src pos = Some 10%N \/ pos = length src)) /\
  ((col < Z.of_nat (length text))%Z -> nth_error text (Z.to_nat col) = nth_error src pos).
Proof.
  intros src pos text n col H Hg.
  assert (Hle := error_pos_in_src_proof src pos H).
  destruct (pos_exact_proof src pos text n col Hle Hg) as (E1 & E2 & E3 & E4 & E5 & E6 & E7).
  split; [exact Hle|split; [exact E1|split; [subst n; cbn [Nat.sub]; rewrite Nat.sub_0_r; exact E2|]]].
  split; [exact E4|split; [exact E5|split; [exact E6|exact E7]]].
Qed.

Theorem ast_token_rendered_exact_proof : forall src t text n col,
  tok_in_src src t ->
  get_line_col src (tpos t) = (text, n, col) ->
  n = S (line_of_pos src (tpos t)) /\
  nth_error (lines src) (line_of_pos src (tpos t)) = Some text /\
  col = Z.of_nat (col_of_pos src (tpos t)) /\
  (0 <= col <= Z.of_nat (length text))%Z.
Proof.
  intros src t text n col Ht Hg.
  assert (Hle : tpos t <= length src) by (unfold tok_in_src in Ht; lia).
  destruct (pos_exact_proof src (tpos t) text n col Hle Hg) as (E1 & E2 & _ & E4 & E5 & _).
  auto.
Qed.

(* ---------- Parser.advance: the fuel of the newline-skipping loop is adequate ---------- *)

Lemma lex_inv_rest_length : forall src l, lex_inv src l -> length (lrest l) = length src - lpos l.
Proof. intros src l (A & B & C). rewrite A. apply skipn_length. Qed.

(* with more fuel than unread bytes the result does not depend on the fuel: the artificial
   [LexErr 0] of the fuel-exhausted branch is never produced by [advance] *)
Theorem next_non_newline_fuel_proof : forall src fuel1 fuel2 l saw,
  lex_inv src l -> length (lrest l) < fuel1 -> length (lrest l) < fuel2 ->
  next_non_newline fuel1 l saw = next_non_newline fuel2 l saw.
Proof.
  intros src. induction fuel1 as [|f1 IH]; intros fuel2 l saw Hinv H1 H2; [lia|].
  destruct fuel2 as [|f2]; [lia|]. simpl.
  generalize (lex_next_spec src l Hinv).
  destruct (lex_next l) as [t l'|pos l']; [|reflexivity].
  unfold next_tok_post, tok_post. intros ((A1 & A2 & _) & _ & C & _).
  destruct (ttag t) eqn:Et; try reflexivity.
  destruct (C ltac:(discriminate)) as (_ & C2 & _).
  rewrite (lex_inv_rest_length src l Hinv) in H1, H2.
  assert (Hl' := lex_inv_rest_length src l' A2).
  pose proof A2 as (_ & B2 & _).
  apply IH; [exact A2|lia|lia].
Qed.
