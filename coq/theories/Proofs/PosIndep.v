(* Position independence of evaluation (semantic half of C06 / C13).

   [M_rel R m1 m2]: started in equivalent states, the two computations end in equivalent
   states with related outcomes ([res_rel R]: values related by R, errors of the same kind,
   everything else identical).  The primitives of Sem/Value.v respect it, [bind] composes
   it, and ONE induction on fuel walks the 14 mutually recursive evaluator functions on
   both sides in lock step ([all_rel_n]).  Then the rule loops, the selector and the
   driver; then the bridge from [strip] (Spec/PrecGrammar.v) to [expr_equiv]. *)
From Coq Require Import List ZArith Lia.
From JQ Require Import Base.Bytes Num.F64 Syntax.Token Syntax.Lexer Syntax.Ast Syntax.Parser.
From JQ Require Import Json.JValue Json.Decode Json.Encode.
From JQ Require Import Oracle.Utf8.
From JQ Require Import Gen.Generated Sem.Value Sem.Ops Sem.Natives Sem.Eval Sem.Driver.
From JQ Require Import Spec.AstEquiv Proofs.EvalUnfold Proofs.EvalInv.
Import ListNotations.
Open Scope nat_scope.

(* ------------------------------------------------------------------ outcomes *)

Inductive res_rel {A B} (R : A -> B -> Prop) : res A -> res B -> Prop :=
| RROk a b : R a b -> res_rel R (Ok a) (Ok b)
| RRErr e1 e2 : ekind_of e1 = ekind_of e2 -> res_rel R (Err e1) (Err e2)
| RRSig x : res_rel R (Sig x) (Sig x)
| RRPanic : res_rel R Panic Panic
| RRFuel : res_rel R Fuel Fuel
| RRUnsupp : res_rel R Unsupp Unsupp.

Lemma res_rel_eq_equiv {A} (r1 r2 : res A) : res_rel eq r1 r2 <-> res_equiv r1 r2.
Proof.
  split.
  - intros H. destruct H; cbn; try reflexivity; try assumption. subst. reflexivity.
  - destruct r1, r2; cbn; intros H; try contradiction; try discriminate H;
      try (inversion H; subst); constructor; auto.
Qed.

(* ------------------------------------------------------------------ states *)

Lemma io_equiv_refl l : io_equiv l l.
Proof.
  induction l as [|a l IH]; constructor; [|exact IH]. destruct a; cbn; reflexivity.
Qed.

Lemma state_equiv_refl s : state_equiv s s.
Proof. constructor; try reflexivity. apply io_equiv_refl. Qed.

Lemma io_equiv_cons_same a l1 l2 : io_equiv l1 l2 -> io_equiv (a :: l1) (a :: l2).
Proof. intros H. constructor; [|exact H]. destruct a; cbn; reflexivity. Qed.

Lemma io_equiv_app l1 l2 k1 k2 : io_equiv l1 l2 -> io_equiv k1 k2 -> io_equiv (l1 ++ k1) (l2 ++ k2).
Proof. intros H1 H2. apply Forall2_app; assumption. Qed.

Lemma last_signal_equiv l1 l2 : io_equiv l1 l2 ->
  opt_rel (fun t1 t2 => ttag t1 = ttag t2) (last_signal_token l1) (last_signal_token l2).
Proof.
  induction 1 as [|a b l1 l2 Hab Hl IH]; cbn; [constructor|].
  destruct a, b; cbn in Hab; try contradiction; try discriminate Hab; try exact IH.
  constructor. exact Hab.
Qed.

Lemma output_of_equiv l1 l2 : io_equiv l1 l2 -> output_of l1 = output_of l2.
Proof.
  intros H. unfold output_of. f_equal.
  assert (Hr : io_equiv (rev l1) (rev l2)).
  { clear -H. induction H as [|a b l1 l2 Hab Hl IH]; cbn; [constructor|].
    apply io_equiv_app; [exact IH|]. constructor; [exact Hab|constructor]. }
  clear H. induction Hr as [|a b k1 k2 Hab Hl IH]; cbn; [reflexivity|].
  f_equal; [|exact IH].
  destruct a, b; cbn in Hab; try contradiction; try discriminate Hab; try reflexivity.
  inversion Hab. reflexivity.
Qed.

(* ------------------------------------------------------------------ computations *)

Definition M_rel {A B} (R : A -> B -> Prop) (m1 : M A) (m2 : M B) : Prop :=
  forall s1 s2, state_equiv s1 s2 ->
    res_rel R (fst (m1 s1)) (fst (m2 s2)) /\ state_equiv (snd (m1 s1)) (snd (m2 s2)).

(* respectful: a computation related to itself *)
Definition proper {A} (m : M A) : Prop := M_rel eq m m.

Lemma rel_ret {A B} (R : A -> B -> Prop) a b : R a b -> M_rel R (ret a) (ret b).
Proof. intros H s1 s2 Hs. cbn. split; [constructor; exact H|exact Hs]. Qed.

Lemma rel_ret_eq {A} (a : A) : M_rel eq (ret a) (ret a).
Proof. apply rel_ret. reflexivity. Qed.

Lemma rel_fail {A B} (R : A -> B -> Prop) r1 r2 : res_rel R r1 r2 -> M_rel R (fail r1) (fail r2).
Proof. intros H s1 s2 Hs. cbn. split; assumption. Qed.

Lemma rel_bind {A1 A2 B1 B2} (R : A1 -> A2 -> Prop) (R' : B1 -> B2 -> Prop)
      (m1 : M A1) (m2 : M A2) (k1 : A1 -> M B1) (k2 : A2 -> M B2) :
  M_rel R m1 m2 -> (forall a b, R a b -> M_rel R' (k1 a) (k2 b)) ->
  M_rel R' (bind m1 k1) (bind m2 k2).
Proof.
  intros Hm Hk s1 s2 Hs. unfold bind. specialize (Hm s1 s2 Hs).
  destruct (m1 s1) as [r1 s1'], (m2 s2) as [r2 s2']. cbn in Hm. destruct Hm as [Hr Hs'].
  destruct Hr as [a b Hab|e1 e2 He|x| | |]; cbn.
  - apply Hk; assumption.
  - split; [constructor; exact He|exact Hs'].
  - split; [constructor|exact Hs'].
  - split; [constructor|exact Hs'].
  - split; [constructor|exact Hs'].
  - split; [constructor|exact Hs'].
Qed.

Lemma rel_bind_eq {A B1 B2} (R' : B1 -> B2 -> Prop)
      (m1 m2 : M A) (k1 : A -> M B1) (k2 : A -> M B2) :
  M_rel eq m1 m2 -> (forall a, M_rel R' (k1 a) (k2 a)) -> M_rel R' (bind m1 k1) (bind m2 k2).
Proof. intros Hm Hk. eapply rel_bind; [exact Hm|]. intros a b ->. apply Hk. Qed.

Lemma rel_catch {A B} (R : A -> B -> Prop) m1 m2 :
  M_rel R m1 m2 -> M_rel (res_rel R) (catch m1) (catch m2).
Proof.
  intros Hm s1 s2 Hs. unfold catch. specialize (Hm s1 s2 Hs).
  destruct (m1 s1) as [r1 s1'], (m2 s2) as [r2 s2']. cbn in *. destruct Hm as [Hr Hs'].
  split; [constructor; exact Hr|exact Hs'].
Qed.

Lemma rel_reraise {A1 A2 B1 B2} (R0 : A1 -> A2 -> Prop) (R : B1 -> B2 -> Prop) r1 r2 :
  res_rel R0 r1 r2 -> M_rel R (reraise r1) (reraise r2).
Proof.
  intros H. destruct H; cbn [reraise]; apply rel_fail; constructor; assumption.
Qed.

Lemma rel_raise {A B} (R : A -> B -> Prop) e1 e2 :
  ekind_of e1 = ekind_of e2 -> M_rel R (raise_err e1) (raise_err e2).
Proof.
  intros He s1 s2 Hs. destruct Hs. cbn. split; [constructor; exact He|].
  constructor; cbn; try assumption. apply io_equiv_cons_same; assumption.
Qed.

Lemma rel_rt_error {A B} (R : A -> B -> Prop) src1 src2 t1 t2 :
  M_rel R (@rt_error src1 A t1) (@rt_error src2 B t2).
Proof.
  unfold rt_error.
  destruct (get_line_col src1 (tpos t1)) as [[x1 l1] c1].
  destruct (get_line_col src2 (tpos t2)) as [[x2 l2] c2].
  apply rel_raise. reflexivity.
Qed.

(* ---------------- the primitives of Sem/Value.v *)

Ltac prim_tac :=
  let s1 := fresh "s1" in let s2 := fresh "s2" in let Hs := fresh "Hs" in
  intros s1 s2 Hs; destruct Hs as [Hh Hf Hrr Hr Hrv Hio];
  destruct s1 as [h1 f1 rr1 r1 rv1 io1], s2 as [h2 f2 rr2 r2 rv2 io2];
  cbn [hp frames rule_root root retval io] in *; subst.

Lemma proper_with_heap {A} (f : heap -> A * heap) : proper (with_heap f).
Proof.
  prim_tac. unfold with_heap; cbn. destruct (f h2) as [a h']. cbn.
  split; [constructor; reflexivity|constructor; cbn; auto].
Qed.

Lemma proper_upd_heap f : proper (upd_heap f).
Proof. prim_tac. cbn. split; [constructor; reflexivity|constructor; cbn; auto]. Qed.

Lemma proper_get_heap : proper get_heap.
Proof. prim_tac. cbn. split; [constructor; reflexivity|constructor; cbn; auto]. Qed.

Lemma rel_get_st : M_rel state_equiv get_st get_st.
Proof. intros s1 s2 Hs. cbn. split; [constructor; exact Hs|exact Hs]. Qed.

Lemma proper_m_load a : proper (m_load a).
Proof. prim_tac. cbn. split; [constructor; reflexivity|constructor; cbn; auto]. Qed.

Lemma proper_m_store a v : proper (m_store a v).
Proof. apply proper_upd_heap. Qed.

Lemma proper_m_alloc v : proper (m_alloc v).
Proof. apply proper_with_heap. Qed.

Lemma proper_set_frames fs : proper (set_frames fs).
Proof. prim_tac. cbn. split; [constructor; reflexivity|constructor; cbn; auto]. Qed.

Lemma proper_set_rule_root a : proper (set_rule_root a).
Proof. prim_tac. cbn. split; [constructor; reflexivity|constructor; cbn; auto]. Qed.

Lemma proper_set_root a : proper (set_root a).
Proof. prim_tac. cbn. split; [constructor; reflexivity|constructor; cbn; auto]. Qed.

Lemma proper_set_retval a : proper (set_retval a).
Proof. prim_tac. cbn. split; [constructor; reflexivity|constructor; cbn; auto]. Qed.

Lemma proper_emit b : proper (emit b).
Proof.
  prim_tac. cbn. split; [constructor; reflexivity|constructor; cbn; auto].
  apply io_equiv_cons_same; assumption.
Qed.

Lemma proper_log_io (evs : list io_ev) : proper (log_io (map io_of evs)).
Proof.
  prim_tac. cbn. split; [constructor; reflexivity|constructor; cbn; auto].
  apply io_equiv_app; [|assumption]. apply io_equiv_refl.
Qed.

Lemma rel_note_signal t1 t2 : ttag t1 = ttag t2 -> M_rel eq (note_signal t1) (note_signal t2).
Proof.
  intros Ht. prim_tac. cbn. split; [constructor; reflexivity|constructor; cbn; auto].
  constructor; [exact Ht|assumption].
Qed.

Lemma proper_push_frame name : proper (push_frame name).
Proof.
  prim_tac. unfold push_frame; cbn.
  destruct (Z.ltb call_depth_limit (Z.of_nat (length f2))); cbn;
    (split; [constructor; reflexivity|constructor; cbn; auto]).
Qed.

Lemma proper_pop_frame : proper pop_frame.
Proof.
  prim_tac. unfold pop_frame; cbn.
  destruct f2 as [|fa [|fb rest]]; cbn;
    (split; [constructor; reflexivity|constructor; cbn; auto]).
Qed.

Lemma proper_set_local name a : proper (set_local name a).
Proof.
  prim_tac. unfold set_local; cbn.
  destruct f2 as [|fa rest]; cbn;
    (split; [constructor; reflexivity|constructor; cbn; auto]).
Qed.

Lemma proper_set_global name a : proper (set_global name a).
Proof. prim_tac. cbn. split; [constructor; reflexivity|constructor; cbn; auto]. Qed.

Lemma proper_get_variable name : proper (get_variable name).
Proof.
  intros s1 s2 Hs.
  assert (Hf : frames s1 = frames s2) by (destruct Hs; assumption).
  unfold get_variable. rewrite Hf.
  destruct (lookup_frames (frames s2) name) as [a|].
  - cbn. split; [constructor; reflexivity|exact Hs].
  - assert (Hp : proper (bind (m_alloc VUnknown)
                          (fun a => bind (set_local name a) (fun _ => ret (Some a))))).
    { apply rel_bind_eq; [apply proper_m_alloc|intros a].
      apply rel_bind_eq; [apply proper_set_local|intros _]. apply rel_ret_eq. }
    destruct name as [|c rest].
    + apply Hp. exact Hs.
    + repeat match goal with
             | |- context [match ?x with _ => _ end] =>
               lazymatch x with
               | bind _ _ _ => fail
               | _ => destruct x
               end
             end;
        first [ apply Hp; exact Hs | cbn; split; [constructor; reflexivity|exact Hs] ].
Qed.

Lemma proper_bool_cell b : proper (bool_cell b). Proof. apply proper_m_alloc. Qed.
Lemma proper_nil_cell : proper nil_cell. Proof. apply proper_m_alloc. Qed.

Lemma rel_bind_get_st {B1 B2} (R : B1 -> B2 -> Prop) (k1 : st -> M B1) (k2 : st -> M B2) :
  (forall s1 s2, state_equiv s1 s2 -> M_rel R (k1 s1) (k2 s2)) ->
  M_rel R (bind get_st k1) (bind get_st k2).
Proof. intros H. eapply rel_bind; [apply rel_get_st|exact H]. Qed.

(* ------------------------------------------------------------------ the walk *)

Ltac prim :=
  first
    [ apply rel_ret_eq
    | apply proper_get_heap | apply proper_m_load | apply proper_m_store | apply proper_m_alloc
    | apply proper_bool_cell | apply proper_nil_cell
    | apply proper_with_heap | apply proper_upd_heap
    | apply proper_set_local | apply proper_set_global | apply proper_set_retval
    | apply proper_set_rule_root | apply proper_set_root | apply proper_set_frames
    | apply proper_emit | apply proper_log_io | apply proper_push_frame | apply proper_pop_frame
    | apply proper_get_variable
    | apply rel_rt_error
    | apply rel_fail; solve [constructor; auto] ].

Ltac hyp := match goal with H : _ |- _ => solve [apply H] end.

Ltac use_st H :=
  rewrite ?(se_rule_root _ _ H), ?(se_retval _ _ H), ?(se_root _ _ H), ?(se_frames _ _ H), ?(se_hp _ _ H).

Ltac rstep extra :=
  first
    [ prim
    | hyp
    | extra
    | lazymatch goal with
      | |- M_rel _ (bind (catch _) _) (bind (catch _) _) => fail
      | |- M_rel _ (bind get_st _) (bind get_st _) =>
        let H := fresh "Hst" in apply rel_bind_get_st; intros ? ? H; use_st H
      | |- M_rel _ (bind _ _) (bind _ _) => apply rel_bind_eq; [ | intros ? ]
      | |- M_rel _ (let _ := _ in _) _ => cbv zeta
      | |- M_rel _ (match ?x with _ => _ end) (match ?y with _ => _ end) =>
        constr_eq x y; destruct x eqn:?
      end ].

Ltac rwalk_with extra := repeat (rstep extra).
Ltac nope := fail.
Ltac rwalk := rwalk_with nope.

(* a handler given by a match on the caught outcome *)
Ltac rhandler_with extra :=
  let r1 := fresh "r1" in let r2 := fresh "r2" in let Hr := fresh "Hr" in
  let x := fresh "x" in
  intros r1 r2 Hr; destruct Hr as [? ? Hr|? ? Hr|x| | |]; try subst; try destruct x;
  cbn [reraise];
  first [ apply rel_fail; solve [constructor; auto] | rwalk_with extra ].

(* ---------------- non-recursive helpers of Sem/Eval.v and Sem/Natives.v *)

Lemma proper_as_float_m v : proper (as_float_m v).
Proof. unfold proper, as_float_m. rwalk. Qed.

Lemma proper_pretty_m v : proper (pretty_m v).
Proof. unfold proper, pretty_m. rwalk. Qed.

Lemma proper_print_args cells : forall first, proper (print_args cells first).
Proof.
  induction cells as [|c r IH]; intros first; unfold proper; cbn [print_args];
    rwalk_with ltac:(apply proper_pretty_m).
Qed.

Lemma fill_proper recv k : forall last,
  proper ((fix fill (k : nat) (last : addr) {struct k} : M addr :=
          match k with
          | O => ret last
          | S k' =>
            let* c := nil_cell in
            upd_heap (fun h => append_at h recv c) ;;;
            fill k' c
          end) k last).
Proof. induction k as [|k IH]; intros last; unfold proper; cbv beta iota; rwalk. Qed.

Lemma proper_set_member recv m cell : proper (set_member recv m cell).
Proof. unfold proper, set_member. rwalk_with ltac:(apply fill_proper). Qed.

Lemma proper_create_speculative n : forall spec, proper (create_speculative n spec).
Proof.
  induction n as [|n IH]; intros spec; unfold proper; cbn [create_speculative];
    rwalk_with ltac:(apply proper_set_member).
Qed.

Lemma proper_this_value this : proper (this_value this).
Proof. unfold proper, this_value. rwalk. Qed.

Lemma proper_alloc_all vs : proper (alloc_all vs).
Proof. induction vs as [|v r IH]; unfold proper; cbn [alloc_all]; rwalk. Qed.

Lemma proper_pluck_loop thisv oid keys : proper (pluck_loop thisv oid keys).
Proof. induction keys as [|k r IH]; unfold proper; cbn [pluck_loop]; rwalk. Qed.

Lemma proper_native_call nf args this : proper (native_call nf args this).
Proof.
  unfold proper, native_call.
  apply rel_bind_eq; [apply proper_this_value|intros tv].
  apply rel_bind_eq; [apply proper_get_heap|intros h].
  destruct nf;
    rwalk_with ltac:(first [apply proper_alloc_all | apply proper_pluck_loop | apply proper_this_value]).
Qed.

Section Sides.
  Variables src1 src2 : bytes.

  Local Notation txt_eq := (txt_eq src1 src2).
  Local Notation lit_equiv := (lit_equiv src1 src2).
  Local Notation id_equiv := (id_equiv src1 src2).
  Local Notation name_equiv := (name_equiv src1 src2).
  Local Notation expr_equiv := (expr_equiv src1 src2).
  Local Notation stmt_equiv := (stmt_equiv src1 src2).
  Local Notation pat_txt := (pat_txt src1 src2).
  Local Notation pats_txt := (pats_txt src1 src2).
  Local Notation is_rhs_equiv := (is_rhs_equiv src1 src2).

  Lemma rel_tok_string t1 t2 : txt_eq t1 t2 -> M_rel eq (tok_string src1 t1) (tok_string src2 t2).
  Proof.
    unfold AstEquiv.txt_eq, tok_string. intros ->. destruct (get_string src2 t2); rwalk.
  Qed.

  Lemma rel_get_identifier t1 t2 :
    id_equiv t1 t2 -> M_rel eq (get_identifier src1 t1) (get_identifier src2 t2).
  Proof.
    intros [Ht Hx]. unfold tag_eq in Ht. unfold get_identifier. rewrite Ht in *.
    destruct (tag_eqb (ttag t2) TDollar) eqn:E.
    - rwalk.
    - assert (Hn : ttag t2 <> TDollar).
      { intros Hc. apply tag_eqb_eq in Hc. congruence. }
      rwalk_with ltac:(apply rel_tok_string; auto).
  Qed.

  Lemma rel_eval_assignment n tok1 tok2 l r :
    M_rel eq (eval_assignment src1 n tok1 l r) (eval_assignment src2 n tok2 l r).
  Proof. unfold eval_assignment. rwalk_with ltac:(apply proper_create_speculative). Qed.

  Lemma rel_lift_vres r a1 b1 c1 a2 b2 c2 :
    M_rel eq (lift_vres src1 r a1 b1 c1) (lift_vres src2 r a2 b2 c2).
  Proof. unfold lift_vres. destruct r; rwalk. Qed.
End Sides.

Inductive opt_rel_gen {A B} (R : A -> B -> Prop) : option A -> option B -> Prop :=
| org_none : opt_rel_gen R None None
| org_some a b : R a b -> opt_rel_gen R (Some a) (Some b).

Lemma Forall2_nth_error {A B} (R : A -> B -> Prop) l1 l2 i :
  Forall2 R l1 l2 -> opt_rel_gen R (nth_error l1 i) (nth_error l2 i).
Proof.
  intros H. revert i. induction H as [|a b l1 l2 Hab Hl IH]; intros [|i]; cbn; try constructor; auto.
Qed.

Lemma Forall2_len {A B} (R : A -> B -> Prop) l1 l2 : Forall2 R l1 l2 -> length l1 = length l2.
Proof. induction 1; cbn; congruence. Qed.

(* the wrapper around a statement body of a match case *)
Lemma rel_stmt_body (m1 m2 : M unit) :
  M_rel eq m1 m2 ->
  M_rel (res_rel (@eq addr))
    (let* r0 := catch m1 in
     match r0 with
     | Ok _ => let* c := nil_cell in ret (Ok c)
     | Err e0 => ret (Err e0)
     | Sig x => ret (Sig x)
     | Panic => ret Panic
     | Fuel => ret Fuel
     | Unsupp => ret Unsupp
     end)
    (let* r0 := catch m2 in
     match r0 with
     | Ok _ => let* c := nil_cell in ret (Ok c)
     | Err e0 => ret (Err e0)
     | Sig x => ret (Sig x)
     | Panic => ret Panic
     | Fuel => ret Fuel
     | Unsupp => ret Unsupp
     end).
Proof.
  intros Hm. eapply rel_bind; [apply rel_catch; exact Hm|].
  intros r1 r2 Hr. destruct Hr as [a b Hab|e1 e2 He|x| | |].
  - apply rel_bind_eq; [apply proper_nil_cell|intros c]. apply rel_ret. constructor. reflexivity.
  - apply rel_ret. constructor. exact He.
  - apply rel_ret. constructor.
  - apply rel_ret. constructor.
  - apply rel_ret. constructor.
  - apply rel_ret. constructor.
Qed.

Lemma bindall_proper (l : list (bytes * addr)) :
  proper ((fix bindall (l : list (bytes * addr)) : M unit :=
          match l with
          | [] => ret tt
          | (k, a) :: r => set_local k a ;;; bindall r
          end) l).
Proof. induction l as [|[k a] r IHr]; unfold proper; cbv beta iota; rwalk. Qed.

Lemma bindp_proper ps : forall avs, proper (bindp_fix ps avs).
Proof.
  induction ps as [|p ps IHps]; intros avs; unfold proper, bindp_fix; cbv beta iota; fold bindp_fix; rwalk.
Qed.

Section Mutual.
  Variables src1 src2 : bytes.
  Variables fs1 fs2 : list func.
  Variable fz : bool.
  Hypothesis HF : funcs_equiv src1 src2 fs1 fs2.

  Local Notation txt_eq := (txt_eq src1 src2).
  Local Notation name_equiv := (name_equiv src1 src2).
  Local Notation expr_equiv := (expr_equiv src1 src2).
  Local Notation stmt_equiv := (stmt_equiv src1 src2).
  Local Notation pat_txt := (pat_txt src1 src2).
  Local Notation pats_txt := (pats_txt src1 src2).
  Local Notation is_rhs_equiv := (is_rhs_equiv src1 src2).

  Local Notation case_equiv := (case_equiv src1 src2).

  Local Notation E1 := (eval_expr src1 fs1 fz).
  Local Notation E2 := (eval_expr src2 fs2 fz).

  Record all_rel (n : nat) : Prop := {
    ar_expr : forall e1 e2, expr_equiv e1 e2 ->
        M_rel eq (eval_expr src1 fs1 fz n e1) (eval_expr src2 fs2 fz n e2);
    ar_match_cases : forall t1 t2 sub cs1 cs2, Forall2 case_equiv cs1 cs2 ->
        M_rel eq (eval_match_cases src1 fs1 fz n t1 sub cs1) (eval_match_cases src2 fs2 fz n t2 sub cs2);
    ar_case_match : forall sub ps1 ps2, Forall2 expr_equiv ps1 ps2 -> pats_txt ps1 ps2 ->
        M_rel eq (eval_case_match src1 fs1 fz n sub ps1) (eval_case_match src2 fs2 fz n sub ps2);
    ar_call : forall tok1 tok2 fc args,
        M_rel eq (call_function src1 fs1 fz n tok1 fc args) (call_function src2 fs2 fz n tok2 fc args);
    ar_unary : forall x1 x2 op1 op2 pf, expr_equiv x1 x2 -> tag_eq op1 op2 ->
        M_rel eq (eval_unary src1 fs1 fz n x1 op1 pf) (eval_unary src2 fs2 fz n x2 op2 pf);
    ar_binary : forall l1 l2 r1 r2 op1 op2, expr_equiv l1 l2 -> tag_eq op1 op2 ->
        (ttag op1 <> TIs -> expr_equiv r1 r2) -> (ttag op1 = TIs -> is_rhs_equiv r1 r2) ->
        M_rel eq (eval_binary src1 fs1 fz n l1 r1 op1) (eval_binary src2 fs2 fz n l2 r2 op2);
    ar_expr_list : forall es1 es2 c, Forall2 expr_equiv es1 es2 ->
        M_rel eq (eval_expr_list src1 fs1 fz n es1 c) (eval_expr_list src2 fs2 fz n es2 c);
    ar_stmt : forall s1 s2, stmt_equiv s1 s2 ->
        M_rel eq (eval_stmt src1 fs1 fz n s1) (eval_stmt src2 fs2 fz n s2);
    ar_body : forall b1 b2, stmt_equiv b1 b2 ->
        M_rel eq (eval_body src1 fs1 fz n b1) (eval_body src2 fs2 fz n b2);
    ar_while : forall c1 c2 b1 b2 k, expr_equiv c1 c2 -> stmt_equiv b1 b2 ->
        M_rel eq (eval_while src1 fs1 fz n c1 b1 k) (eval_while src2 fs2 fz n c2 b2 k);
    ar_for : forall c1 c2 p1 p2 b1 b2 k, expr_equiv c1 c2 -> expr_equiv p1 p2 -> stmt_equiv b1 b2 ->
        M_rel eq (eval_for src1 fs1 fz n c1 p1 b1 k) (eval_for src2 fs2 fz n c2 p2 b2 k);
    ar_forin_arr : forall lo ix bid off len i b1 b2, stmt_equiv b1 b2 ->
        M_rel eq (eval_forin_arr src1 fs1 fz n lo ix bid off len i b1)
                 (eval_forin_arr src2 fs2 fz n lo ix bid off len i b2);
    ar_forin_obj : forall lo ix oid keys b1 b2, stmt_equiv b1 b2 ->
        M_rel eq (eval_forin_obj src1 fs1 fz n lo ix oid keys b1)
                 (eval_forin_obj src2 fs2 fz n lo ix oid keys b2);
    ar_forin_str : forall lo ix rs b1 b2, stmt_equiv b1 b2 ->
        M_rel eq (eval_forin_str src1 fs1 fz n lo ix rs b1)
                 (eval_forin_str src2 fs2 fz n lo ix rs b2)
  }.

  Lemma all_rel_O : all_rel 0.
  Proof. constructor; intros; apply rel_fail; constructor. Qed.

  Ltac ext :=
    first [ apply rel_get_identifier; assumption
          | apply proper_as_float_m | apply proper_pretty_m
          | apply proper_print_args | apply rel_lift_vres | apply rel_eval_assignment
          | apply proper_native_call
          | apply rel_tok_string; solve [assumption | auto]
          | apply rel_note_signal; assumption ].

  Ltac use_ih IH :=
    first [ apply (ar_expr _ IH) | apply (ar_match_cases _ IH) | apply (ar_case_match _ IH)
          | apply (ar_call _ IH) | apply (ar_unary _ IH) | apply (ar_binary _ IH)
          | apply (ar_expr_list _ IH) | apply (ar_stmt _ IH) | apply (ar_body _ IH)
          | apply (ar_while _ IH) | apply (ar_for _ IH) | apply (ar_forin_arr _ IH)
          | apply (ar_forin_obj _ IH) | apply (ar_forin_str _ IH) ]; try assumption.

  Ltac go IH := rwalk_with ltac:(first [ext | use_ih IH]).

  Lemma step_expr n (IH : all_rel n) e1 e2 : expr_equiv e1 e2 ->
    M_rel eq (eval_expr src1 fs1 fz (S n) e1) (eval_expr src2 fs2 fz (S n) e2).
  Proof.
    intros He. rewrite !eval_expr_S.
    inversion He as [t1 t2 Hl|t1 t2 Hi|t1 t2 l1 l2 Ht Hl|t1 t2 l1 l2 Ht Hl|x1 x2 op1 op2 pf Hx Hop
                    |l1 l2 r1 r2 op1 op2 Hl Hop Hr His|f1 f2 a1 a2 Hf Ha|t1 t2 v1 v2 c1 c2 Ht Hv Hc];
      subst; cbv beta iota.
    - destruct Hl as [Ht Hx]. unfold tag_eq in Ht. unfold lit_needs_text in Hx. rewrite Ht in *.
      destruct (litk_of (ttag t2)) eqn:E; go IH.
    - go IH.
    - go IH.
    - go IH.
      (* the fields of an object literal *)
      clear He. induction Hl as [|[k1 x1] [k2 x2] r1 r2 [Hk Hx] Hr IHr]; cbv beta iota; [go IH|].
      cbn in Hk, Hx. subst k2. go IH.
    - go IH.
    - go IH.
    - go IH.
    - go IH.
  Qed.

  Lemma pat_txt_arr t1 t2 l1 l2 : pat_txt (EArr t1 l1) (EArr t2 l2) = pats_txt l1 l2.
  Proof. reflexivity. Qed.

  Lemma step_match_cases n (IH : all_rel n) t1 t2 sub cs1 cs2 : Forall2 case_equiv cs1 cs2 ->
    M_rel eq (eval_match_cases src1 fs1 fz (S n) t1 sub cs1) (eval_match_cases src2 fs2 fz (S n) t2 sub cs2).
  Proof.
    intros Hcs. rewrite !eval_match_cases_S.
    destruct Hcs as [|[pats1 body1] [pats2 body2] rest1 rest2 (Hp & Hpt & Hb) Hrest]; cbv beta iota; [go IH|].
    cbn [fst snd] in Hp, Hpt, Hb.
    apply rel_bind_eq; [use_ih IH|intros m]. destruct m as [bindings|]; [|use_ih IH].
    apply rel_bind_eq; [apply proper_push_frame|intros ok]. destruct (negb ok); [apply rel_rt_error|].
    apply rel_bind_eq; [apply bindall_proper|intros _].
    eapply rel_bind with (R := res_rel eq).
    - inversion Hb; subst; cbv beta iota;
        first [ apply rel_catch; use_ih IH | apply rel_stmt_body; use_ih IH ].
    - intros r1 r2 Hr. apply rel_bind_eq; [apply proper_pop_frame|intros _].
      destruct Hr as [a b Hab|e1 e2 He|x| | |]; cbn [reraise].
      + subst. apply rel_ret_eq.
      + apply rel_fail. constructor. exact He.
      + apply rel_fail. constructor.
      + apply rel_fail. constructor.
      + apply rel_fail. constructor.
      + apply rel_fail. constructor.
  Qed.

  Lemma step_case_match n (IH : all_rel n) sub ps1 ps2 : Forall2 expr_equiv ps1 ps2 -> pats_txt ps1 ps2 ->
    M_rel eq (eval_case_match src1 fs1 fz (S n) sub ps1) (eval_case_match src2 fs2 fz (S n) sub ps2).
  Proof.
    intros Hps Hpt. rewrite !eval_case_match_S.
    destruct Hps as [|p1 p2 rest1 rest2 Hp Hrest]; cbv beta iota; [go IH|].
    cbn [AstEquiv.pats_txt] in Hpt. destruct Hpt as [Hpt Hrt].
    inversion Hp as [t1 t2 Hl|t1 t2 Hi|t1 t2 l1 l2 Ht Hl|t1 t2 l1 l2 Ht Hl|x1 x2 op1 op2 pf Hx Hop
                    |l1 l2 r1 r2 op1 op2 Hl Hop Hr His|f1 f2 a1 a2 Hf Ha|t1 t2 v1 v2 c1 c2 Ht Hv Hc];
      subst; cbv beta iota; try solve [go IH].
    - (* array pattern *)
      rewrite pat_txt_arr in Hpt. rewrite (Forall2_len _ _ _ Hl).
      go IH.
      match goal with |- M_rel _ (_ ?cs _ ?acc) _ => generalize acc; generalize cs end.
      clear -IH Hl Hpt. intros cs. revert l1 l2 Hl Hpt.
      induction cs as [|c cs IHcs]; intros l1 l2 Hl Hpt acc; cbv beta iota; [go IH|].
      destruct Hl as [|q1 q2 l1 l2 Hq Hl]; [go IH|].
      cbn [AstEquiv.pats_txt] in Hpt. destruct Hpt as [Hqt Hlt].
      apply rel_bind_eq.
      + use_ih IH; [constructor; [assumption|constructor]|cbn; auto].
      + intros m. destruct m as [nb|]; [|go IH]. apply IHcs; assumption.
  Qed.

  Lemma step_call n (IH : all_rel n) tok1 tok2 fc args :
    M_rel eq (call_function src1 fs1 fz (S n) tok1 fc args) (call_function src2 fs2 fz (S n) tok2 fc args).
  Proof.
    rewrite !call_function_S. go IH.
    (* a user function *)
    destruct (Forall2_nth_error _ _ _ idx HF) as [|fn1 fn2 (Hn & Hps & Hb)]; [go IH|].
    destruct Hn as [_ Hn].
    apply rel_bind_eq; [apply rel_tok_string; exact Hn|intros name].
    apply rel_bind_eq; [apply proper_push_frame|intros ok]. destruct (negb ok); [apply rel_rt_error|].
    rewrite Hps. apply rel_bind_eq; [apply bindp_proper|intros _].
    eapply rel_bind with (R := res_rel eq); [apply rel_catch; use_ih IH|].
    intros r1 r2 Hr. apply rel_bind_eq; [apply proper_pop_frame|intros _].
    destruct Hr as [? ? Hab|? ? He|x| | |]; try destruct x; cbn [reraise];
      first [ apply rel_fail; solve [constructor; auto] | go IH ].
  Qed.

  Lemma step_unary n (IH : all_rel n) x1 x2 op1 op2 pf : expr_equiv x1 x2 -> tag_eq op1 op2 ->
    M_rel eq (eval_unary src1 fs1 fz (S n) x1 op1 pf) (eval_unary src2 fs2 fz (S n) x2 op2 pf).
  Proof.
    intros Hx Hop. unfold tag_eq in Hop. rewrite !eval_unary_S. rewrite Hop. go IH.
  Qed.

  Lemma step_binary n (IH : all_rel n) l1 l2 r1 r2 op1 op2 :
    expr_equiv l1 l2 -> tag_eq op1 op2 ->
    (ttag op1 <> TIs -> expr_equiv r1 r2) -> (ttag op1 = TIs -> is_rhs_equiv r1 r2) ->
    M_rel eq (eval_binary src1 fs1 fz (S n) l1 r1 op1) (eval_binary src2 fs2 fz (S n) l2 r2 op2).
  Proof.
    intros Hl Hop Hr His. unfold tag_eq in Hop. rewrite !eval_binary_S. rewrite Hop in *.
    destruct (tag_eq_dec (ttag op2) TIs) as [Htis|Hntis].
    - (* is: the right operand is inspected as syntax *)
      specialize (His Htis). clear Hr. rewrite Htis.
      apply rel_bind_eq; [use_ih IH|intros lc]. apply rel_bind_eq; [prim|intros lv].
      cbv zeta. change (bop_of TIs) with BIs. cbv beta iota.
      destruct r1, r2; cbn in His; try contradiction; try apply rel_rt_error.
      destruct His as [Ht Hx]. unfold tag_eq in Ht. rewrite Ht in *.
      destruct (isk_of (ttag t0)) eqn:Ek; go IH.
    - specialize (Hr Hntis). go IH.
      exfalso. apply Hntis. destruct (ttag op2); try discriminate; reflexivity.
  Qed.

  Lemma step_expr_list n (IH : all_rel n) es1 es2 c : Forall2 expr_equiv es1 es2 ->
    M_rel eq (eval_expr_list src1 fs1 fz (S n) es1 c) (eval_expr_list src2 fs2 fz (S n) es2 c).
  Proof.
    intros Hes. rewrite !eval_expr_list_S.
    destruct Hes as [|x1 x2 rest1 rest2 Hx Hrest]; cbv beta iota; go IH.
  Qed.

  Lemma step_stmt n (IH : all_rel n) s1 s2 : stmt_equiv s1 s2 ->
    M_rel eq (eval_stmt src1 fs1 fz (S n) s1) (eval_stmt src2 fs2 fz (S n) s2).
  Proof.
    intros Hs. rewrite !eval_stmt_S.
    inversion Hs as [t1 t2 b1 b2 Ht Hb|t1 t2 a1 a2 Ht Ha|e1 e2 He|e1 e2 He| |t1 t2 Ht|t1 t2 Ht|t1 t2 Ht|t1 t2 Ht
                    |c1 c2 b1 b2 e1 e2 Hc Hb He|c1 c2 b1 b2 Hc Hb|c1 c2 b1 b2 Hc Hb
                    |a1 a2 c1 c2 p1 p2 b1 b2 Ha Hc Hp Hb|id1 id2 ix1 ix2 it1 it2 b1 b2 Hid Hix Hit Hb];
      subst; cbv beta iota; try solve [go IH].
    - (* the statements of a block *)
      clear Hs. induction Hb as [|x1 x2 r1 r2 Hx Hr IHr]; cbv beta iota; go IH.
    - (* for-in *)
      destruct Hid as [_ Hid].
      destruct Hix as [|ix1 ix2 [_ Hix]]; cbv beta iota; go IH.
  Qed.

  Lemma step_body n (IH : all_rel n) b1 b2 : stmt_equiv b1 b2 ->
    M_rel eq (eval_body src1 fs1 fz (S n) b1) (eval_body src2 fs2 fz (S n) b2).
  Proof.
    intros Hb. rewrite !eval_body_S.
    eapply rel_bind with (R := res_rel eq); [apply rel_catch; use_ih IH|].
    intros r1 r2 Hr.
    destruct Hr as [? ? Hab|? ? He|x| | |]; try destruct x; cbn [reraise];
      first [ apply rel_fail; solve [constructor; auto] | go IH ].
  Qed.

  Lemma step_while n (IH : all_rel n) c1 c2 b1 b2 k : expr_equiv c1 c2 -> stmt_equiv b1 b2 ->
    M_rel eq (eval_while src1 fs1 fz (S n) c1 b1 k) (eval_while src2 fs2 fz (S n) c2 b2 k).
  Proof. intros Hc Hb. rewrite !eval_while_S. go IH. Qed.

  Lemma step_for n (IH : all_rel n) c1 c2 p1 p2 b1 b2 k :
    expr_equiv c1 c2 -> expr_equiv p1 p2 -> stmt_equiv b1 b2 ->
    M_rel eq (eval_for src1 fs1 fz (S n) c1 p1 b1 k) (eval_for src2 fs2 fz (S n) c2 p2 b2 k).
  Proof. intros Hc Hp Hb. rewrite !eval_for_S. go IH. Qed.

  Lemma step_forin_arr n (IH : all_rel n) lo ix bid off len i b1 b2 : stmt_equiv b1 b2 ->
    M_rel eq (eval_forin_arr src1 fs1 fz (S n) lo ix bid off len i b1)
             (eval_forin_arr src2 fs2 fz (S n) lo ix bid off len i b2).
  Proof. intros Hb. rewrite !eval_forin_arr_S. go IH. Qed.

  Lemma step_forin_obj n (IH : all_rel n) lo ix oid keys b1 b2 : stmt_equiv b1 b2 ->
    M_rel eq (eval_forin_obj src1 fs1 fz (S n) lo ix oid keys b1)
             (eval_forin_obj src2 fs2 fz (S n) lo ix oid keys b2).
  Proof. intros Hb. rewrite !eval_forin_obj_S. go IH. Qed.

  Lemma step_forin_str n (IH : all_rel n) lo ix rs b1 b2 : stmt_equiv b1 b2 ->
    M_rel eq (eval_forin_str src1 fs1 fz (S n) lo ix rs b1)
             (eval_forin_str src2 fs2 fz (S n) lo ix rs b2).
  Proof. intros Hb. rewrite !eval_forin_str_S. go IH. Qed.

  (* the one induction on fuel *)
  Theorem all_rel_n : forall n, all_rel n.
  Proof.
    induction n as [|n IH]; [apply all_rel_O|].
    constructor; intros.
    - apply step_expr; assumption.
    - apply step_match_cases; assumption.
    - apply step_case_match; assumption.
    - apply step_call; assumption.
    - apply step_unary; assumption.
    - apply step_binary; assumption.
    - apply step_expr_list; assumption.
    - apply step_stmt; assumption.
    - apply step_body; assumption.
    - apply step_while; assumption.
    - apply step_for; assumption.
    - apply step_forin_arr; assumption.
    - apply step_forin_obj; assumption.
    - apply step_forin_str; assumption.
  Qed.
End Mutual.

(* ------------------------------------------------------------------ reflexivity *)

Lemma pats_txt_of_Forall src l :
  Forall (fun e => expr_equiv src src e e /\ pat_txt src src e e) l -> pats_txt src src l l.
Proof. induction 1 as [|x r [_ Hx] Hr IH]; cbn; auto. Qed.

Lemma Forall2_refl_of_Forall {A} (P : A -> A -> Prop) l : Forall (fun x => P x x) l -> Forall2 P l l.
Proof. induction 1; constructor; auto. Qed.

Lemma equiv_refl src :
  (forall e, expr_equiv src src e e /\ pat_txt src src e e) /\ (forall s, stmt_equiv src src s s).
Proof.
  apply expr_stmt_ind.
  - intros t. split; [|exact I]. constructor. split; [reflexivity|intros _; reflexivity].
  - intros t. split; [|reflexivity]. constructor. split; [reflexivity|intros _; reflexivity].
  - intros t items H. split.
    + constructor; [reflexivity|]. apply Forall2_refl_of_Forall.
      eapply Forall_impl; [|exact H]. intros a [Ha _]. exact Ha.
    + apply pats_txt_of_Forall. exact H.
  - intros t items H. split; [|exact I]. constructor; [reflexivity|].
    apply Forall2_refl_of_Forall. eapply Forall_impl; [|exact H]. intros a [Ha _]. split; [reflexivity|exact Ha].
  - intros e op pf [He _]. split; [|exact I]. constructor; [exact He|reflexivity].
  - intros l r op [Hl _] [Hr _]. split; [|exact I]. constructor; [exact Hl|reflexivity|intros _; exact Hr|].
    intros _. destruct r; cbn; auto. split; [reflexivity|intros _; reflexivity].
  - intros f args [Hf _] Ha. split; [|exact I]. constructor; [exact Hf|].
    apply Forall2_refl_of_Forall. eapply Forall_impl; [|exact Ha]. intros a [H _]. exact H.
  - intros t v cases [Hv _] Hc. split; [|exact I]. constructor; [reflexivity|exact Hv|].
    apply Forall2_refl_of_Forall. eapply Forall_impl; [|exact Hc]. intros [ps b] [Hps Hb]. cbn in *.
    split; [|split; [|exact Hb]].
    + apply Forall2_refl_of_Forall. eapply Forall_impl; [|exact Hps]. intros a [H _]. exact H.
    + apply pats_txt_of_Forall. exact Hps.
  - intros t body H. constructor; [reflexivity|]. apply Forall2_refl_of_Forall. exact H.
  - intros t args H. constructor; [reflexivity|]. apply Forall2_refl_of_Forall.
    eapply Forall_impl; [|exact H]. intros a [Ha _]. exact Ha.
  - intros e [He _]. constructor. exact He.
  - intros e [He _]. constructor. exact He.
  - constructor.
  - intros t. constructor. reflexivity.
  - intros t. constructor. reflexivity.
  - intros t. constructor. reflexivity.
  - intros t. constructor. reflexivity.
  - intros c b e [Hc _] Hb He. constructor; assumption.
  - intros c b [Hc _] Hb. constructor; assumption.
  - intros c b [Hc _] Hb. constructor; assumption.
  - intros a c p b [Ha _] [Hc _] [Hp _] Hb. constructor; assumption.
  - intros id ix it b [Hit _] Hb. constructor; try assumption.
    + split; reflexivity.
    + destruct ix; constructor. split; reflexivity.
Qed.

Lemma expr_equiv_refl src e : expr_equiv src src e e.
Proof. apply (proj1 (equiv_refl src)). Qed.
Lemma stmt_equiv_refl src s : stmt_equiv src src s s.
Proof. apply (proj2 (equiv_refl src)). Qed.
Lemma funcs_equiv_refl src fs : funcs_equiv src src fs fs.
Proof.
  induction fs as [|f fs IH]; constructor; [|exact IH].
  split; [split; reflexivity|]. split; [reflexivity|apply stmt_equiv_refl].
Qed.

(* ------------------------------------------------------------------ rule loops *)

Ltac rcatch_handler tac :=
  let r1 := fresh "r1" in let r2 := fresh "r2" in let Hr := fresh "Hr" in let x := fresh "x" in
  intros r1 r2 Hr; destruct Hr as [? ? Hr|? ? Hr|x| | |]; try subst; try destruct x; cbn [reraise];
  first [ apply rel_fail; solve [constructor; auto] | tac ].

Section Rules.
  Variables src1 src2 : bytes.
  Variables fs1 fs2 : list func.
  Variable fz : bool.
  Hypothesis HF : funcs_equiv src1 src2 fs1 fs2.

  Lemma rel_eval_rules n rs1 rs2 : Forall2 (rule_equiv src1 src2) rs1 rs2 ->
    M_rel eq (eval_rules src1 fs1 fz n rs1) (eval_rules src2 fs2 fz n rs2).
  Proof.
    pose proof (all_rel_n src1 src2 fs1 fs2 fz HF n) as IH.
    induction 1 as [|r1 r2 rest1 rest2 (Hk & Hp & Hb) Hrest IHr]; cbn [eval_rules]; [apply rel_ret_eq|].
    apply rel_bind_eq.
    - destruct Hp as [|p1 p2 Hp]; [apply rel_ret_eq|].
      eapply rel_bind with (R := res_rel eq); [apply rel_catch; apply (ar_expr _ _ _ _ _ _ IH); exact Hp|].
      rcatch_handler rwalk.
    - intros m. destruct m as [[|]|]; [|exact IHr|apply rel_ret_eq].
      eapply rel_bind with (R := res_rel eq); [apply rel_catch; apply (ar_stmt _ _ _ _ _ _ IH); exact Hb|].
      rcatch_handler rwalk.
  Qed.

  Lemma rel_eval_elements n rs1 rs2 bid off len : Forall2 (rule_equiv src1 src2) rs1 rs2 -> forall k i,
    M_rel eq (eval_elements src1 fs1 fz n rs1 bid off len k i) (eval_elements src2 fs2 fz n rs2 bid off len k i).
  Proof.
    intros Hrs. induction k as [|k IHk]; intros i; cbn [eval_elements];
      rwalk_with ltac:(apply rel_eval_rules; assumption).
  Qed.

  Lemma rel_eval_pattern_rules n rs1 rs2 : Forall2 (rule_equiv src1 src2) rs1 rs2 ->
    M_rel eq (eval_pattern_rules src1 fs1 fz n rs1) (eval_pattern_rules src2 fs2 fz n rs2).
  Proof.
    intros Hrs. unfold eval_pattern_rules.
    rwalk_with ltac:(first [apply rel_eval_rules; assumption | apply rel_eval_elements; assumption]).
  Qed.
End Rules.

(* ------------------------------------------------------------------ the driver *)

Lemma rel_add_functions src1 src2 fs1 fs2 : funcs_equiv src1 src2 fs1 fs2 -> forall idx,
  M_rel eq (add_functions src1 fs1 idx) (add_functions src2 fs2 idx).
Proof.
  induction 1 as [|f1 f2 r1 r2 ([_ Hn] & _ & _) Hr IH]; intros idx; cbn [add_functions]; [apply rel_ret_eq|].
  unfold txt_eq in Hn. rewrite Hn. destruct (get_string src2 (fident f2)); rwalk.
Qed.

Lemma rel_new_evaluator_tail src1 src2 fs1 fs2 : funcs_equiv src1 src2 fs1 fs2 ->
  M_rel eq (new_evaluator_tail src1 fs1) (new_evaluator_tail src2 fs2).
Proof. intros HF. unfold new_evaluator_tail. rwalk_with ltac:(apply rel_add_functions; assumption). Qed.

Lemma rel_stray {A} src1 src2 (tok1 tok2 : option token) (r1 r2 : res A) :
  res_rel eq r1 r2 -> (tok1 = None <-> tok2 = None) ->
  M_rel eq (stray src1 tok1 r1) (stray src2 tok2 r2).
Proof.
  intros Hr Ht. destruct Hr as [? ? Hr|? ? Hr|x| | |]; cbn [stray reraise];
    try (apply rel_fail; solve [constructor; auto]).
  destruct x; try (apply rel_fail; solve [constructor; auto]);
    (apply rel_bind_get_st; intros s1 s2 Hs;
     destruct tok1 as [t1|], tok2 as [t2|];
     [ | exfalso; destruct Ht as [_ Ht]; discriminate (Ht eq_refl)
       | exfalso; destruct Ht as [Ht _]; discriminate (Ht eq_refl)
       | apply rel_fail; constructor ];
     try apply rel_rt_error;
     destruct (last_signal_equiv _ _ (se_io _ _ Hs)); apply rel_rt_error).
Qed.

Lemma rel_isolate {A B} (R : A -> B -> Prop) m1 m2 : M_rel R m1 m2 -> M_rel R (isolate m1) (isolate m2).
Proof.
  intros Hm s1 s2 Hs. unfold isolate.
  assert (Hi : state_equiv (mkSt (hp s1) [] None None None (io s1)) (mkSt (hp s2) [] None None None (io s2))).
  { destruct Hs. constructor; cbn; auto. }
  specialize (Hm _ _ Hi).
  destruct (m1 _) as [r1 s1'], (m2 _) as [r2 s2']. cbn in *. destruct Hm as [Hr Hs'].
  split; [exact Hr|]. destruct Hs, Hs'. constructor; cbn; auto.
Qed.

Lemma rel_selector_tail n sel1 sel2 doc e1 e2 : expr_equiv sel1 sel2 e1 e2 ->
  M_rel eq (selector_tail n sel1 doc e1) (selector_tail n sel2 doc e2).
Proof.
  intros He. unfold selector_tail.
  apply rel_bind_eq; [apply rel_new_evaluator_tail; constructor|intros _].
  apply rel_bind_eq; [apply proper_with_heap|intros rv].
  apply rel_bind_eq; [apply proper_m_alloc|intros rc].
  apply rel_bind_eq; [apply proper_set_root|intros _].
  apply rel_bind_eq; [apply proper_set_rule_root|intros _].
  eapply rel_bind with (R := res_rel eq).
  - apply rel_catch. apply (ar_expr _ _ _ _ _ _ (all_rel_n sel1 sel2 [] [] false (Forall2_nil _) n)). exact He.
  - intros r1 r2 Hr. destruct Hr as [a b Hab|x1 x2 Hx|x| | |].
    + subst. rwalk.
    + apply rel_stray; [constructor; exact Hx|split; discriminate].
    + apply rel_stray; [constructor|split; discriminate].
    + apply rel_stray; [constructor|split; discriminate].
    + apply rel_stray; [constructor|split; discriminate].
    + apply rel_stray; [constructor|split; discriminate].
Qed.

(* two selector texts that parse to equivalent expressions select alike *)
Lemma rel_eval_selector n sel1 sel2 doc e1 e2 p1 p2 :
  parse_expression_src sel1 = POk e1 p1 -> parse_expression_src sel2 = POk e2 p2 ->
  expr_equiv sel1 sel2 e1 e2 ->
  M_rel eq (eval_selector n sel1 doc) (eval_selector n sel2 doc).
Proof.
  intros H1 H2 He s1 s2 Hs. rewrite !eval_selector_eq, H1, H2.
  apply rel_isolate; [|exact Hs].
  apply rel_bind_eq; [apply proper_set_frames|intros _]. apply rel_selector_tail. exact He.
Qed.

Lemma proper_eval_selector n sel doc : proper (eval_selector n sel doc).
Proof.
  destruct (parse_expression_src sel) as [e p|pos| |] eqn:Hp.
  - eapply rel_eval_selector; try exact Hp. apply expr_equiv_refl.
  - intros s1 s2 Hs. rewrite !eval_selector_eq, Hp. apply rel_raise; [reflexivity|exact Hs].
  - intros s1 s2 Hs. rewrite !eval_selector_eq, Hp. cbn. split; [constructor|exact Hs].
  - intros s1 s2 Hs. rewrite !eval_selector_eq, Hp. cbn. split; [constructor|exact Hs].
Qed.

Lemma stmt_token_none src1 src2 b1 b2 : stmt_equiv src1 src2 b1 b2 ->
  (stmt_token b1 = None <-> stmt_token b2 = None).
Proof. intros H. inversion H; subst; cbn; split; intros; try discriminate; reflexivity. Qed.

Lemma rules_of_kind_equiv src1 src2 k rs1 rs2 : Forall2 (rule_equiv src1 src2) rs1 rs2 ->
  Forall2 (rule_equiv src1 src2) (rules_of_kind k rs1) (rules_of_kind k rs2).
Proof.
  induction 1 as [|r1 r2 rest1 rest2 Hr Hrest IH]; cbn; [constructor|].
  assert (Hk : rkind r1 = rkind r2) by (destruct Hr; assumption). rewrite Hk.
  destruct (rkind r2), k; try exact IH; constructor; assumption.
Qed.

Section RunRel.
  Variables src1 src2 : bytes.
  Variables prog1 prog2 : program.
  Variable fz : bool.
  Variable selectors : list bytes.
  Variable n : nat.
  Hypothesis HP : program_equiv src1 src2 prog1 prog2.

  Let HF : funcs_equiv src1 src2 (pfuncs prog1) (pfuncs prog2) := proj2 HP.
  Let HR : Forall2 (rule_equiv src1 src2) (prules prog1) (prules prog2) := proj1 HP.

  Lemma rel_run_special rs1 rs2 mk_root : Forall2 (rule_equiv src1 src2) rs1 rs2 -> proper mk_root ->
    M_rel eq (run_special src1 prog1 fz n rs1 mk_root) (run_special src2 prog2 fz n rs2 mk_root).
  Proof.
    intros Hrs Hmk. induction Hrs as [|r1 r2 rest1 rest2 (Hk & Hp & Hb) Hrest IHr]; cbn [run_special];
      [apply rel_ret_eq|].
    apply rel_bind_eq; [exact Hmk|intros a].
    apply rel_bind_eq; [apply proper_set_rule_root|intros _].
    eapply rel_bind with (R := res_rel eq).
    - apply rel_catch.
      apply (ar_stmt _ _ _ _ _ _ (all_rel_n src1 src2 (pfuncs prog1) (pfuncs prog2) fz HF n)). exact Hb.
    - intros r1' r2' Hr. pose proof (stmt_token_none _ _ _ _ Hb) as Htk.
      destruct Hr as [u1 u2 Hu|x1 x2 Hx|x| | |].
      + exact IHr.
      + apply rel_stray; [constructor; exact Hx|exact Htk].
      + apply rel_stray; [constructor|exact Htk].
      + apply rel_stray; [constructor|exact Htk].
      + apply rel_stray; [constructor|exact Htk].
      + apply rel_stray; [constructor|exact Htk].
  Qed.

  Lemma rel_process_root rc :
    M_rel eq (process_root src1 prog1 fz n rc) (process_root src2 prog2 fz n rc).
  Proof.
    unfold process_root, beginfile_rules, endfile_rules, pattern_rules.
    rwalk_with ltac:(first [ apply rel_run_special; [apply rules_of_kind_equiv; exact HR|]
                           | apply rel_eval_pattern_rules; [exact HF|apply rules_of_kind_equiv; exact HR] ]).
  Qed.

  Lemma proper_select_roots doc sels : proper (select_roots n doc sels).
  Proof.
    induction sels as [|s rest IH]; unfold proper; cbn [select_roots];
      rwalk_with ltac:(apply proper_eval_selector).
  Qed.

  Lemma rel_process_roots rcs :
    M_rel eq (process_roots src1 prog1 fz n rcs) (process_roots src2 prog2 fz n rcs).
  Proof.
    induction rcs as [|rc rest IH]; cbn [process_roots]; rwalk_with ltac:(apply rel_process_root).
  Qed.

  Lemma rel_process_value name doc :
    M_rel eq (process_value src1 prog1 fz selectors n name doc) (process_value src2 prog2 fz selectors n name doc).
  Proof.
    unfold process_value.
    rwalk_with ltac:(first [ apply proper_select_roots | apply rel_process_roots ]).
  Qed.

  Lemma rel_decode_loop k : forall name d,
    M_rel eq (decode_loop src1 prog1 fz selectors n k name d) (decode_loop src2 prog2 fz selectors n k name d).
  Proof.
    induction k as [|k IH]; intros name d; cbn [decode_loop]; [apply rel_fail; constructor|].
    destruct (dec_step d) as [[r d'] evs].
    rwalk_with ltac:(first [ apply rel_process_value | apply rel_raise; reflexivity ]).
  Qed.

  Lemma rel_run_files files :
    M_rel eq (run_files src1 prog1 fz selectors n files) (run_files src2 prog2 fz selectors n files).
  Proof.
    induction files as [|[name rd] rest IH]; cbn [run_files]; rwalk_with ltac:(apply rel_decode_loop).
  Qed.

  Lemma rel_run_body files :
    M_rel eq (run_body src1 prog1 fz selectors n files) (run_body src2 prog2 fz selectors n files).
  Proof.
    intros s1 s2 Hs. rewrite !run_body_eq. revert s1 s2 Hs.
    apply rel_bind_eq; [apply proper_set_frames|intros _].
    unfold run_body_tail, begin_rules, end_rules.
    rwalk_with ltac:(first [ apply rel_new_evaluator_tail; exact HF
                           | apply rel_run_special; [apply rules_of_kind_equiv; exact HR|]
                           | apply rel_run_files ]).
  Qed.
End RunRel.

(* ------------------------------------------------------------------ the theorems *)

Lemma M_rel_eq_equiv {A} (m1 m2 : M A) : M_rel eq m1 m2 <-> M_equiv m1 m2.
Proof.
  split; intros H s1 s2 Hs; specialize (H s1 s2 Hs); destruct H as [Hr Hs']; (split; [|exact Hs']).
  - apply res_rel_eq_equiv. exact Hr.
  - apply res_rel_eq_equiv. exact Hr.
Qed.

Lemma M_equiv_same_state {A} (m1 m2 : M A) : M_equiv m1 m2 -> forall s,
  let '(r1, s1) := m1 s in let '(r2, s2) := m2 s in res_equiv r1 r2 /\ state_equiv s1 s2.
Proof.
  intros H s. specialize (H s s (state_equiv_refl s)).
  destruct (m1 s) as [r1 s1], (m2 s) as [r2 s2]. exact H.
Qed.

Section Theorems.
  Variables src1 src2 : bytes.
  Variables fs1 fs2 : list func.
  Variable fz : bool.
  Hypothesis HF : funcs_equiv src1 src2 fs1 fs2.

  Local Notation expr_equiv := (expr_equiv src1 src2).
  Local Notation stmt_equiv := (stmt_equiv src1 src2).
  Local Notation case_equiv := (case_equiv src1 src2).
  Local Notation pats_txt := (pats_txt src1 src2).
  Local Notation is_rhs_equiv := (is_rhs_equiv src1 src2).

  (* all 14 functions of the mutual block, from equivalent states *)
  Theorem eval_pos_independent_all n :
    (forall e1 e2, expr_equiv e1 e2 ->
        M_equiv (eval_expr src1 fs1 fz n e1) (eval_expr src2 fs2 fz n e2)) /\
    (forall t1 t2 sub cs1 cs2, Forall2 case_equiv cs1 cs2 ->
        M_equiv (eval_match_cases src1 fs1 fz n t1 sub cs1) (eval_match_cases src2 fs2 fz n t2 sub cs2)) /\
    (forall sub ps1 ps2, Forall2 expr_equiv ps1 ps2 -> pats_txt ps1 ps2 ->
        M_equiv (eval_case_match src1 fs1 fz n sub ps1) (eval_case_match src2 fs2 fz n sub ps2)) /\
    (forall tok1 tok2 fc args,
        M_equiv (call_function src1 fs1 fz n tok1 fc args) (call_function src2 fs2 fz n tok2 fc args)) /\
    (forall x1 x2 op1 op2 pf, expr_equiv x1 x2 -> tag_eq op1 op2 ->
        M_equiv (eval_unary src1 fs1 fz n x1 op1 pf) (eval_unary src2 fs2 fz n x2 op2 pf)) /\
    (forall l1 l2 r1 r2 op1 op2, expr_equiv l1 l2 -> tag_eq op1 op2 ->
        (ttag op1 <> TIs -> expr_equiv r1 r2) -> (ttag op1 = TIs -> is_rhs_equiv r1 r2) ->
        M_equiv (eval_binary src1 fs1 fz n l1 r1 op1) (eval_binary src2 fs2 fz n l2 r2 op2)) /\
    (forall es1 es2 c, Forall2 expr_equiv es1 es2 ->
        M_equiv (eval_expr_list src1 fs1 fz n es1 c) (eval_expr_list src2 fs2 fz n es2 c)) /\
    (forall s1 s2, stmt_equiv s1 s2 ->
        M_equiv (eval_stmt src1 fs1 fz n s1) (eval_stmt src2 fs2 fz n s2)) /\
    (forall b1 b2, stmt_equiv b1 b2 ->
        M_equiv (eval_body src1 fs1 fz n b1) (eval_body src2 fs2 fz n b2)) /\
    (forall c1 c2 b1 b2 k, expr_equiv c1 c2 -> stmt_equiv b1 b2 ->
        M_equiv (eval_while src1 fs1 fz n c1 b1 k) (eval_while src2 fs2 fz n c2 b2 k)) /\
    (forall c1 c2 p1 p2 b1 b2 k, expr_equiv c1 c2 -> expr_equiv p1 p2 -> stmt_equiv b1 b2 ->
        M_equiv (eval_for src1 fs1 fz n c1 p1 b1 k) (eval_for src2 fs2 fz n c2 p2 b2 k)) /\
    (forall lo ix bid off len i b1 b2, stmt_equiv b1 b2 ->
        M_equiv (eval_forin_arr src1 fs1 fz n lo ix bid off len i b1)
                (eval_forin_arr src2 fs2 fz n lo ix bid off len i b2)) /\
    (forall lo ix oid keys b1 b2, stmt_equiv b1 b2 ->
        M_equiv (eval_forin_obj src1 fs1 fz n lo ix oid keys b1)
                (eval_forin_obj src2 fs2 fz n lo ix oid keys b2)) /\
    (forall lo ix rs b1 b2, stmt_equiv b1 b2 ->
        M_equiv (eval_forin_str src1 fs1 fz n lo ix rs b1)
                (eval_forin_str src2 fs2 fz n lo ix rs b2)).
  Proof.
    destruct (all_rel_n src1 src2 fs1 fs2 fz HF n).
    repeat match goal with |- _ /\ _ => split end; intros; apply M_rel_eq_equiv; auto.
  Qed.

  Theorem eval_pos_independent n e1 e2 : expr_equiv e1 e2 -> forall s,
    let '(r1, s1) := eval_expr src1 fs1 fz n e1 s in
    let '(r2, s2) := eval_expr src2 fs2 fz n e2 s in
    res_equiv r1 r2 /\ state_equiv s1 s2.
  Proof.
    intros He. apply M_equiv_same_state. apply (proj1 (eval_pos_independent_all n)). exact He.
  Qed.

  Theorem stmt_pos_independent n s1 s2 : stmt_equiv s1 s2 -> forall s,
    let '(r1, s1') := eval_stmt src1 fs1 fz n s1 s in
    let '(r2, s2') := eval_stmt src2 fs2 fz n s2 s in
    res_equiv r1 r2 /\ state_equiv s1' s2'.
  Proof.
    intros He. apply M_equiv_same_state. apply M_rel_eq_equiv.
    apply (ar_stmt _ _ _ _ _ _ (all_rel_n src1 src2 fs1 fs2 fz HF n)). exact He.
  Qed.

  Theorem rules_pos_independent n rs1 rs2 : Forall2 (rule_equiv src1 src2) rs1 rs2 ->
    M_equiv (eval_rules src1 fs1 fz n rs1) (eval_rules src2 fs2 fz n rs2).
  Proof. intros H. apply M_rel_eq_equiv. apply rel_eval_rules; assumption. Qed.

  Theorem pattern_rules_pos_independent n rs1 rs2 : Forall2 (rule_equiv src1 src2) rs1 rs2 ->
    M_equiv (eval_pattern_rules src1 fs1 fz n rs1) (eval_pattern_rules src2 fs2 fz n rs2).
  Proof. intros H. apply M_rel_eq_equiv. apply rel_eval_pattern_rules; assumption. Qed.
End Theorems.

(* what an observer of a run can see is determined by the equivalence class of the state *)
Lemma state_equiv_observables s1 s2 : state_equiv s1 s2 ->
  output_of (io s1) = output_of (io s2) /\ hp s1 = hp s2 /\ frames s1 = frames s2 /\
  get_root_json s1 = get_root_json s2.
Proof.
  intros [Hh Hf Hrr Hr Hrv Hio]. split; [apply output_of_equiv; exact Hio|].
  split; [exact Hh|]. split; [exact Hf|]. unfold get_root_json. rewrite Hr, Hh. reflexivity.
Qed.

Lemma classify_equiv (r1 r2 : res unit) : res_equiv r1 r2 -> outcome_equiv (classify r1) (classify r2).
Proof.
  destruct r1 as [[]|e1|x1| | |], r2 as [[]|e2|x2| | |]; cbn; intros H;
    try contradiction; try discriminate H; try reflexivity.
  - rewrite H. destruct (ekind_of e2); cbn; auto.
  - inversion H; subst. destruct x2; cbn; reflexivity.
Qed.

Theorem run_pos_independent src1 src2 p1 p2 fz sels n files :
  program_equiv src1 src2 p1 p2 ->
  M_equiv (run_body src1 p1 fz sels n files) (run_body src2 p2 fz sels n files).
Proof. intros HP. apply M_rel_eq_equiv. apply rel_run_body. exact HP. Qed.

Theorem run_observables_equal src1 src2 p1 p2 fz sels n files :
  program_equiv src1 src2 p1 p2 -> forall s,
  let '(r1, s1) := run_body src1 p1 fz sels n files s in
  let '(r2, s2) := run_body src2 p2 fz sels n files s in
  outcome_equiv (classify r1) (classify r2) /\
  output_of (io s1) = output_of (io s2) /\ get_root_json s1 = get_root_json s2 /\ hp s1 = hp s2.
Proof.
  intros HP s. pose proof (M_equiv_same_state _ _ (run_pos_independent _ _ _ _ fz sels n files HP) s) as H.
  destruct (run_body src1 _ _ _ _ _ s) as [r1 s1], (run_body src2 _ _ _ _ _ s) as [r2 s2].
  destruct H as [Hr Hs]. destruct (state_equiv_observables _ _ Hs) as (Ho & Hh & _ & Hj).
  split; [apply classify_equiv; exact Hr|]. auto.
Qed.

(* the whole of EvalProgram, for two texts whose parses are equivalent *)
Theorem eval_program_pos_independent n src1 src2 p1 q1 p2 q2 files sels fz :
  parse_program src1 = POk p1 q1 -> parse_program src2 = POk p2 q2 ->
  program_equiv src1 src2 p1 p2 ->
  run_result_equiv (eval_program n src1 files sels fz) (eval_program n src2 files sels fz).
Proof.
  intros H1 H2 HP. unfold eval_program. rewrite H1, H2.
  pose proof (M_equiv_same_state _ _ (run_pos_independent _ _ _ _ fz sels n files HP) init_state) as H.
  destruct (run_body src1 _ _ _ _ _ _) as [r1 s1], (run_body src2 _ _ _ _ _ _) as [r2 s2].
  destruct H as [Hr Hs]. split; cbn; [apply classify_equiv; exact Hr|exact Hs].
Qed.

(* the exported EvalExpression, for two expression texts whose parses are equivalent *)
Theorem expression_api_pos_independent n sel1 sel2 doc e1 q1 e2 q2 :
  parse_expression_src sel1 = POk e1 q1 -> parse_expression_src sel2 = POk e2 q2 ->
  expr_equiv sel1 sel2 e1 e2 ->
  expr_result_equiv (eval_expression_api n sel1 doc) (eval_expression_api n sel2 doc).
Proof.
  intros H1 H2 He. unfold eval_expression_api.
  pose proof (rel_eval_selector n sel1 sel2 doc e1 e2 q1 q2 H1 H2 He init_state init_state
                (state_equiv_refl _)) as H.
  destruct (eval_selector n sel1 doc init_state) as [r1 s1], (eval_selector n sel2 doc init_state) as [r2 s2].
  cbn [fst snd] in H. destruct H as [Hr Hs].
  destruct Hr as [a b Hab|x1 x2 Hx|x| | |]; unfold expr_result_equiv; cbn.
  - subst. rewrite (se_hp _ _ Hs). auto.
  - rewrite Hx. destruct (ekind_of x2); cbn; auto.
  - destruct x; cbn; auto.
  - auto.
  - auto.
  - auto.
Qed.

Theorem selector_pos_independent n sel1 sel2 doc e1 q1 e2 q2 :
  parse_expression_src sel1 = POk e1 q1 -> parse_expression_src sel2 = POk e2 q2 ->
  expr_equiv sel1 sel2 e1 e2 ->
  M_equiv (eval_selector n sel1 doc) (eval_selector n sel2 doc).
Proof. intros H1 H2 He. apply M_rel_eq_equiv. eapply rel_eval_selector; eassumption. Qed.
