(* Bridge from the syntax theorems (C06 / C13: same position-free tree) to the semantic
   ones: two ASTs with the same [strip] are [expr_equiv], hence evaluate identically. *)
From Coq Require Import List ZArith Lia.
From JQ Require Import Base.Bytes Num.F64 Syntax.Token Syntax.Lexer Syntax.Ast Syntax.Parser.
From JQ Require Import Json.JValue.
From JQ Require Import Gen.Generated Sem.Value Sem.Ops Sem.Natives Sem.Eval Sem.Driver.
From JQ Require Import Spec.AstEquiv Proofs.EvalInv Proofs.PosIndep.
From JQ Require Import Proofs.SyntaxLex Proofs.Syntax.
From JQ Require Import Spec.PrecGrammar.
Import ListNotations.
Open Scope nat_scope.

(* ------------------------------------------------------------------ inversion of strip *)

Definition strip_list (src : bytes) : list expr -> option (list sexpr) :=
  fix go (l : list expr) : option (list sexpr) :=
    match l with
    | [] => Some []
    | a :: r => omap2 cons (strip src a) (go r)
    end.

Lemma strip_list_Forall2 src l : forall sl,
  strip_list src l = Some sl -> Forall2 (fun e s => strip src e = Some s) l sl.
Proof.
  induction l as [|a r IH]; intros sl H; cbn in H.
  - inversion H. constructor.
  - destruct (strip src a) as [sa|] eqn:Ea; [|discriminate].
    destruct (strip_list src r) as [sr|] eqn:Er; [|discriminate].
    cbn in H. inversion H; subst. constructor; [exact Ea|apply IH; reflexivity].
Qed.

Lemma strip_lit_inv src t s : strip src (ELit t) = Some s ->
  (ttag t = TNum /\ exists b, get_string src t = Some b /\ s = SNum b) \/
  (ttag t = TStr /\ exists b, get_string src t = Some b /\ s = SStr b) \/
  (ttag t = TTrue /\ s = STrue) \/ (ttag t = TFalse /\ s = SFalse) \/ (ttag t = TNull /\ s = SNull).
Proof.
  cbn [strip]. destruct (ttag t) eqn:E; try discriminate; intros H.
  - right; left. split; [reflexivity|]. destruct (get_string src t) as [b|]; [|discriminate].
    inversion H. eauto.
  - left. split; [reflexivity|]. destruct (get_string src t) as [b|]; [|discriminate].
    inversion H. eauto.
  - right; right; right; right. inversion H. auto.
  - right; right; left. inversion H. auto.
  - right; right; right; left. inversion H. auto.
Qed.

Lemma strip_id_inv src t s : strip src (EId t) = Some s ->
  (ttag t = TDollar /\ s = SDollar) \/
  (ttag t = TIdent /\ exists b, get_string src t = Some b /\ s = SIdent b).
Proof.
  cbn [strip]. destruct (ttag t) eqn:E; try discriminate; intros H.
  - right. split; [reflexivity|]. destruct (get_string src t) as [b|]; [|discriminate]. inversion H. eauto.
  - left. inversion H. auto.
Qed.

Lemma strip_un_inv src x op pf s : strip src (EUn x op pf) = Some s ->
  exists sx, strip src x = Some sx /\
    ((pf = true /\ s = SPost (ttag op) sx) \/ (pf = false /\ s = SPre (ttag op) sx)).
Proof.
  cbn [strip]. destruct pf.
  - destruct (is_postfix_op (ttag op)); [|discriminate].
    destruct (strip src x) as [sx|]; [|discriminate]. intros H. inversion H. eauto.
  - destruct (is_prefix_op (ttag op)); [|discriminate].
    destruct (strip src x) as [sx|]; [|discriminate]. intros H. inversion H. eauto.
Qed.

Inductive bin_form (src : bytes) (l r : expr) (op : token) (s : sexpr) : Prop :=
| BfMember id sl b : ttag op = TDot -> r = ELit id -> ttag id = TIdent -> strip src l = Some sl ->
    get_string src id = Some b -> s = SMember sl b -> bin_form src l r op s
| BfIndex sl sr : ttag op = TLSquare -> strip src l = Some sl -> strip src r = Some sr ->
    s = SIndex sl sr -> bin_form src l r op s
| BfAssign sl sr : ttag op = TEqual -> strip src l = Some sl -> strip src r = Some sr ->
    s = SAssign sl sr -> bin_form src l r op s
| BfIsId nt sl b : ttag op = TIs -> r = EId nt -> ttag nt = TIdent -> strip src l = Some sl ->
    get_string src nt = Some b -> s = SIs sl (IsId b) -> bin_form src l r op s
| BfIsFunction nt sl : ttag op = TIs -> r = EId nt -> ttag nt = TFunction -> strip src l = Some sl ->
    s = SIs sl IsFunction -> bin_form src l r op s
| BfIsNull nt sl : ttag op = TIs -> r = EId nt -> ttag nt = TNull -> strip src l = Some sl ->
    s = SIs sl IsNull -> bin_form src l r op s
| BfBin sl sr : is_binop (ttag op) = true -> strip src l = Some sl -> strip src r = Some sr ->
    s = SBin (ttag op) sl sr -> bin_form src l r op s.

Lemma omap2_inv {A B C} (f : A -> B -> C) a b c :
  omap2 f a b = Some c -> exists x y, a = Some x /\ b = Some y /\ c = f x y.
Proof. destruct a, b; cbn; intros H; inversion H. eauto. Qed.

Lemma strip_bin_inv src l r op s : strip src (EBin l r op) = Some s -> bin_form src l r op s.
Proof.
  cbn [strip]. destruct (ttag op) eqn:E; cbn [is_binop binop_level Nat.eqb negb]; try discriminate; intros H.
  all: try (apply omap2_inv in H; destruct H as (sl & sr & Hl & Hr & Hs);
            first [ eapply BfIndex; eassumption
                  | eapply BfAssign; eassumption
                  | eapply BfBin; [rewrite E; reflexivity|eassumption|eassumption|rewrite E; exact Hs] ]).
  - (* is *)
    destruct r; try discriminate. destruct (ttag t) eqn:Et; try discriminate;
      apply omap2_inv in H; destruct H as (sl & nm & Hl & Hn & Hs).
    + destruct (get_string src t) as [b|] eqn:Eg; [|discriminate]. inversion Hn; subst.
      eapply BfIsId; try eassumption; reflexivity.
    + inversion Hn; subst. eapply BfIsFunction; try eassumption; reflexivity.
    + inversion Hn; subst. eapply BfIsNull; try eassumption; reflexivity.
  - (* member *)
    destruct r; try discriminate. destruct (ttag t) eqn:Et; try discriminate.
    apply omap2_inv in H. destruct H as (sl & b & Hl & Hb & Hs).
    eapply BfMember; try eassumption; reflexivity.
Qed.

Lemma strip_call_inv src f args s : strip src (ECall f args) = Some s ->
  exists sf sa, strip src f = Some sf /\ strip_list src args = Some sa /\ s = SCall sf sa.
Proof. cbn [strip]. intros H. apply omap2_inv in H. exact H. Qed.

(* ------------------------------------------------------------------ strip_equiv *)

Section Strip.
  Variables src1 src2 : bytes.

  Ltac inv_strip H :=
    first [ apply strip_lit_inv in H; destruct H as [(? & ? & ? & ?)|[(? & ? & ? & ?)|[(? & ?)|[(? & ?)|(? & ?)]]]]
          | apply strip_id_inv in H; destruct H as [(? & ?)|(? & ? & ? & ?)]
          | apply strip_un_inv in H; destruct H as (? & ? & [(? & ?)|(? & ?)])
          | apply strip_bin_inv in H; destruct H
          | apply strip_call_inv in H; destruct H as (? & ? & ? & ? & ?)
          | discriminate H ].

  Ltac txt_goal :=
    let Hn := fresh "Hn" in
    intros Hn;
    first [ unfold txt_eq; congruence
          | exfalso; congruence
          | exfalso; match goal with Ht : ttag ?t = _ |- _ => rewrite Ht in Hn; discriminate Hn end ].

  Lemma strip_equiv_all : forall e1 e2 s,
    strip src1 e1 = Some s -> strip src2 e2 = Some s -> expr_equiv src1 src2 e1 e2.
  Proof.
    assert (H : (forall e1, forall e2 s, strip src1 e1 = Some s -> strip src2 e2 = Some s ->
                   expr_equiv src1 src2 e1 e2) /\ (forall s : stmt, True)).
    { apply expr_stmt_ind; try (intros; exact I).
      - (* literal *)
        intros t1 e2 s H1 H2. inv_strip H1; subst; destruct e2; inv_strip H2; try discriminate;
          constructor; (split; [unfold tag_eq; congruence|txt_goal]).
      - (* identifier *)
        intros t1 e2 s H1 H2. inv_strip H1; subst; destruct e2; inv_strip H2; try discriminate;
          constructor; (split; [unfold tag_eq; congruence|txt_goal]).
      - intros t items _ e2 s H1. discriminate H1.
      - intros t items _ e2 s H1. discriminate H1.
      - (* unary *)
        intros x1 op1 pf IHx e2 s H1 H2. inv_strip H1; subst; destruct e2; inv_strip H2; try discriminate;
          subst; try discriminate;
          match goal with Hs : _ = _ :> sexpr |- _ => inversion Hs; subst end;
          (constructor; [eapply IHx; eassumption|unfold tag_eq; congruence]).
      - (* binary *)
        intros l1 r1 op1 IHl IHr e2 s H1 H2.
        inv_strip H1; subst; destruct e2; inv_strip H2; try discriminate; subst; try discriminate;
          match goal with Hs : _ = _ :> sexpr |- _ => inversion Hs; subst end;
          try (exfalso; congruence).
        all: constructor; try (eapply IHl; eassumption); try (unfold tag_eq; congruence).
        all: try (intros _; eapply IHr; eassumption).
        all: try (intros Hc; exfalso; congruence).
        all: try (intros Hc; exfalso;
                  match goal with Hb : is_binop _ = true |- _ => rewrite Hc in Hb; discriminate Hb end).
        all: try (intros _; constructor; split; [unfold tag_eq; congruence|intros _; unfold txt_eq; congruence]).
        all: try (intros _; cbn; split; [unfold tag_eq; congruence|]).
        all: try (intros _; unfold txt_eq; congruence).
        all: try (match goal with Ht : ttag ?t = _ |- isk_of (ttag ?t) = IsName -> _ =>
                    rewrite Ht; cbn; intros Hk; discriminate Hk end).
      - (* call *)
        intros f1 args1 IHf IHa e2 s H1 H2. inv_strip H1; subst; destruct e2; inv_strip H2; try discriminate;
          subst; try discriminate.
        match goal with Hs : _ = _ :> sexpr |- _ => inversion Hs; subst end.
        constructor; [eapply IHf; eassumption|].
        match goal with
        | Ha1 : strip_list src1 args1 = Some ?sa, Ha2 : strip_list src2 ?args2 = Some ?sa |- _ =>
          apply strip_list_Forall2 in Ha1; apply strip_list_Forall2 in Ha2;
          revert args2 Ha2; induction Ha1 as [|a1 s1 r1 sr1 Hs1 Hr1 IHr1]; intros args2 Ha2;
          inversion Ha2; subst; constructor
        end.
        + inversion IHa; subst. eauto.
        + inversion IHa; subst. eauto.
      - intros t v cases _ _ e2 s H1. discriminate H1. }
    exact (proj1 H).
  Qed.
End Strip.

(* the literal reading of "corresponding tokens have equal texts": both inside their source,
   same bytes *)
Lemma txt_eq_some src1 src2 t1 t2 b :
  get_string src1 t1 = Some b -> get_string src2 t2 = Some b -> txt_eq src1 src2 t1 t2.
Proof. unfold txt_eq. congruence. Qed.

Lemma strip_equiv src1 src2 e1 e2 s :
  strip src1 e1 = Some s -> strip src2 e2 = Some s -> expr_equiv src1 src2 e1 e2.
Proof. apply strip_equiv_all. Qed.

(* two expression texts that parse to the same position-free tree evaluate identically *)
Lemma same_tree_evaluates_identically n sel1 sel2 doc e1 q1 e2 q2 s :
  parse_expression_src sel1 = POk e1 q1 -> parse_expression_src sel2 = POk e2 q2 ->
  strip sel1 e1 = Some s -> strip sel2 e2 = Some s ->
  expr_result_equiv (eval_expression_api n sel1 doc) (eval_expression_api n sel2 doc).
Proof.
  intros H1 H2 S1 S2. eapply expression_api_pos_independent; try eassumption.
  eapply strip_equiv; eassumption.
Qed.

Lemma same_tree_selects_identically n sel1 sel2 doc e1 q1 e2 q2 s :
  parse_expression_src sel1 = POk e1 q1 -> parse_expression_src sel2 = POk e2 q2 ->
  strip sel1 e1 = Some s -> strip sel2 e2 = Some s ->
  M_equiv (eval_selector n sel1 doc) (eval_selector n sel2 doc).
Proof.
  intros H1 H2 S1 S2. eapply selector_pos_independent; try eassumption.
  eapply strip_equiv; eassumption.
Qed.


(* C06: any two choices of parentheses around the same expression *)
Theorem print_evaluate_identically force1 force2 e n doc : wf_sexpr e = true ->
  expr_result_equiv (eval_expression_api n (text_of (print force1 1 e)) doc)
                    (eval_expression_api n (text_of (print force2 1 e)) doc).
Proof.
  intros Hwf.
  destruct (parse_print force1 e Hwf) as (e1 & q1 & P1 & S1).
  destruct (parse_print force2 e Hwf) as (e2 & q2 & P2 & S2).
  eapply same_tree_evaluates_identically; eassumption.
Qed.

Theorem render_paren_evaluate_identically e n doc : wf_sexpr e = true ->
  expr_result_equiv (eval_expression_api n (text_of (render e)) doc)
                    (eval_expression_api n (text_of (paren e)) doc).
Proof. apply print_evaluate_identically. Qed.

(* ... and as a root selector inside a run (shared heap and output, any start state) *)
Theorem render_paren_select_identically e n doc : wf_sexpr e = true ->
  M_equiv (eval_selector n (text_of (render e)) doc) (eval_selector n (text_of (paren e)) doc).
Proof.
  intros Hwf.
  destruct (parse_print (fun _ => false) e Hwf) as (e1 & q1 & P1 & S1).
  destruct (parse_print is_app e Hwf) as (e2 & q2 & P2 & S2).
  eapply same_tree_selects_identically; eassumption.
Qed.

(* C13: any horizontal layout of the tokens *)
Theorem layout_evaluates_identically force e items trail n doc : wf_sexpr e = true ->
  map snd items = print force 1 e -> gaps_ok true items = true -> forallb is_hws trail = true ->
  expr_result_equiv (eval_expression_api n (lay items trail) doc)
                    (eval_expression_api n (text_of (print force 1 e)) doc).
Proof.
  intros Hwf Hm Hg Ht.
  destruct (parse_print_layout force e items trail Hwf Hm Hg Ht) as (e1 & q1 & P1 & S1).
  destruct (parse_print force e Hwf) as (e2 & q2 & P2 & S2).
  eapply same_tree_evaluates_identically; eassumption.
Qed.

(* C13: any layout with line ends and comments in the gaps *)
Theorem gaps_evaluate_identically force e items trail n doc : wf_sexpr e = true ->
  map snd items = print force 1 e -> Gaps true items -> is_gap trail ->
  expr_result_equiv (eval_expression_api n (lay items trail) doc)
                    (eval_expression_api n (text_of (print force 1 e)) doc).
Proof.
  intros Hwf Hm Hg Ht.
  destruct (parse_print_gaps force e items trail Hwf Hm Hg Ht) as (e1 & q1 & P1 & S1).
  destruct (parse_print force e Hwf) as (e2 & q2 & P2 & S2).
  eapply same_tree_evaluates_identically; eassumption.
Qed.

(* two arbitrary layouts (with comments and line ends) of two arbitrary parenthesisations *)
Theorem any_two_writings_evaluate_identically force1 force2 e items1 trail1 items2 trail2 n doc :
  wf_sexpr e = true ->
  map snd items1 = print force1 1 e -> Gaps true items1 -> is_gap trail1 ->
  map snd items2 = print force2 1 e -> Gaps true items2 -> is_gap trail2 ->
  expr_result_equiv (eval_expression_api n (lay items1 trail1) doc)
                    (eval_expression_api n (lay items2 trail2) doc).
Proof.
  intros Hwf Hm1 Hg1 Ht1 Hm2 Hg2 Ht2.
  destruct (parse_print_gaps force1 e items1 trail1 Hwf Hm1 Hg1 Ht1) as (e1 & q1 & P1 & S1).
  destruct (parse_print_gaps force2 e items2 trail2 Hwf Hm2 Hg2 Ht2) as (e2 & q2 & P2 & S2).
  eapply same_tree_evaluates_identically; eassumption.
Qed.

(* what [expr_result_equiv] gives an observer *)
Lemma expr_result_observables x1 x2 : expr_result_equiv x1 x2 ->
  outcome_equiv (x_outcome x1) (x_outcome x2) /\ x_pretty x1 = x_pretty x2 /\
  output_of (io (x_state x1)) = output_of (io (x_state x2)) /\ hp (x_state x1) = hp (x_state x2).
Proof.
  intros (Ho & Hp & Hs). destruct (state_equiv_observables _ _ Hs) as (Hout & Hh & _ & _). auto.
Qed.

(* proves [program_equiv] / [expr_equiv] / ... between two CONCRETE ASTs (for examples) *)
Ltac txt_leaf := first [ reflexivity | vm_compute; reflexivity ].
Ltac equiv_step :=
  match goal with
  | |- program_equiv _ _ _ _ => split
  | |- rule_equiv _ _ _ _ => split; [reflexivity|split]
  | |- func_equiv _ _ _ _ => split; [|split; [reflexivity|]]
  | |- funcs_equiv _ _ _ _ => unfold funcs_equiv
  | |- Forall2 _ _ _ => constructor
  | |- opt_rel _ _ _ => constructor
  | |- expr_equiv _ _ _ _ => constructor
  | |- stmt_equiv _ _ _ _ => constructor
  | |- case_rel _ _ _ _ _ _ => split; [|split]
  | |- tag_eq _ _ => reflexivity
  | |- txt_eq _ _ _ _ => txt_leaf
  | |- lit_equiv _ _ _ _ => split; [reflexivity|intros _; txt_leaf]
  | |- id_equiv _ _ _ _ => split; [reflexivity|intros _; txt_leaf]
  | |- name_equiv _ _ _ _ => split; [reflexivity|txt_leaf]
  | |- pats_txt _ _ _ _ => cbn; repeat split; txt_leaf
  | |- _ <> TIs -> _ => intros _
  | |- _ = TIs -> _ =>
    let H := fresh in intros H; first [ discriminate H | cbn; split; [reflexivity|intros _; txt_leaf] ]
  | |- _ = _ => reflexivity
  | |- True => exact I
  end.
Ltac solve_equiv := cbn [fst snd prules pfuncs rkind rpattern rbody fident fparams fbody]; repeat equiv_step.
