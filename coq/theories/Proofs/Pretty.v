(* Proofs/Pretty.v -- C17 (print / PrettyString) and C04 (ToGoValue / json):
   rendering terminates on every well-formed heap (pigeonhole on the cells of the path),
   the cycle marker / cycle error, scalars, the shape of print, NewValue round trip. *)
From Coq Require Import List Bool PArith NArith ZArith Lia FMapPositive.
From JQ Require Import Base.Bytes Num.F64 Num.F64Proofs Syntax.Token Syntax.Lexer Syntax.Ast.
From JQ Require Import Json.JValue Json.Encode.
From JQ Require Import Gen.Generated Sem.Value Sem.Ops Sem.Natives Sem.Eval Sem.Driver.
From JQ Require Import Spec.Pure Proofs.Pure.
Import ListNotations.
Local Open Scope positive_scope.

(* ================================================================== *)
(* unfolding equations                                                  *)

Section Loops.
  Variables (rec : value -> option bytes) (h : heap).
  Fixpoint pp_items (l : list addr) (first : bool) : option bytes :=
    match l with
    | [] => Some []
    | c :: r =>
      match rec (load h c), pp_items r false with
      | Some a, Some b => Some ((if first then [] else bs ", ") ++ a ++ b)
      | _, _ => None
      end
    end.
  Fixpoint pp_fields (l : list (bytes * addr)) (first : bool) : option bytes :=
    match l with
    | [] => Some []
    | (k, c) :: r =>
      match rec (load h c), pp_fields r false with
      | Some a, Some b =>
        Some ((if first then [] else bs ", ") ++ 34%N :: k ++ 34%N :: bs ": " ++ a ++ b)
      | _, _ => None
      end
    end.
  Variable (grec : value -> go_result).
  Fixpoint tg_items (l : list addr) : option (option (list jvalue)) :=
    match l with
    | [] => Some (Some [])
    | c :: r =>
      match grec (load h c) with
      | GoFuel => None
      | GoErr => Some None
      | GoOk j =>
        match tg_items r with
        | Some (Some js) => Some (Some (j :: js))
        | x => x
        end
      end
    end.
  Fixpoint tg_fields (l : list (bytes * addr)) : option (option (list (bytes * jvalue))) :=
    match l with
    | [] => Some (Some [])
    | (k, c) :: r =>
      match grec (load h c) with
      | GoFuel => None
      | GoErr => Some None
      | GoOk j =>
        match tg_fields r with
        | Some (Some js) => Some (Some ((k, j) :: js))
        | x => x
        end
      end
    end.
End Loops.

Lemma pretty_fuel_S : forall f h path quote check v,
  pretty_fuel (S f) h path quote check v =
  if (check && existsb (fun r => is_same h r v) path)%bool then Some (bs "<circular reference>")
  else
    match v with
    | VStr s => Some (if quote then 34%N :: s ++ [34%N] else s)
    | VNum x => Some (format_f x)
    | VBool b => Some (if b then bs "true" else bs "false")
    | VNil _ => Some (bs "null")
    | VArr bid off len =>
      match pp_items (pretty_fuel f h (path ++ [v]) true true) h (arr_cells h bid off len) true with
      | Some body => Some (91%N :: body ++ [93%N])
      | None => None
      end
    | VObj oid =>
      match pp_fields (pretty_fuel f h (path ++ [v]) true true) h (get_obj h oid) true with
      | Some body => Some (123%N :: body ++ [125%N])
      | None => None
      end
    | _ => Some (60%N :: tag_name v ++ [62%N])
    end.
Proof. reflexivity. Qed.

Lemma to_go_fuel_S : forall f h path check v,
  to_go_fuel (S f) h path check v =
  if (check && existsb (fun r => is_same h r v) path)%bool then GoErr
  else
    match v with
    | VStr s => GoOk (JStr s)
    | VBool b => GoOk (JBool b)
    | VNum x => GoOk (JNum x)
    | VArr bid off len =>
      match tg_items h (to_go_fuel f h (path ++ [v]) true) (arr_cells h bid off len) with
      | None => GoFuel
      | Some None => GoErr
      | Some (Some js) => GoOk (JArr js)
      end
    | VObj oid =>
      match tg_fields h (to_go_fuel f h (path ++ [v]) true) (get_obj h oid) with
      | None => GoFuel
      | Some None => GoErr
      | Some (Some js) => GoOk (JObj js)
      end
    | VNil _ | VUnknown => GoOk JNull
    | VNative _ _ | VFn _ | VRegex _ => GoErr
    end.
Proof. reflexivity. Qed.

Lemma container_fuel_S : forall h, container_fuel h = S (S (Pos.to_nat (next h))).
Proof. reflexivity. Qed.

(* ================================================================== *)
(* fuel monotonicity and the staged definitions                         *)

Lemma pp_items_mono : forall (rec rec' : value -> option bytes) h,
  (forall v b, rec v = Some b -> rec' v = Some b) ->
  forall l first b, pp_items rec h l first = Some b -> pp_items rec' h l first = Some b.
Proof.
  intros rec rec' h H l. induction l as [|c l IH]; intros first b E; cbn [pp_items] in *; [exact E|].
  destruct (rec (load h c)) as [a|] eqn:E1; [|discriminate].
  destruct (pp_items rec h l false) as [r|] eqn:E2; [|discriminate].
  rewrite (H _ _ E1), (IH _ _ E2). exact E.
Qed.

Lemma pp_fields_mono : forall (rec rec' : value -> option bytes) h,
  (forall v b, rec v = Some b -> rec' v = Some b) ->
  forall l first b, pp_fields rec h l first = Some b -> pp_fields rec' h l first = Some b.
Proof.
  intros rec rec' h H l. induction l as [|[k c] l IH]; intros first b E; cbn [pp_fields] in *; [exact E|].
  destruct (rec (load h c)) as [a|] eqn:E1; [|discriminate].
  destruct (pp_fields rec h l false) as [r|] eqn:E2; [|discriminate].
  rewrite (H _ _ E1), (IH _ _ E2). exact E.
Qed.

(* more fuel, same answer *)
Theorem pretty_fuel_mono : forall n h path quote check v b,
  pretty_fuel n h path quote check v = Some b ->
  forall m, (n <= m)%nat -> pretty_fuel m h path quote check v = Some b.
Proof.
  induction n as [|f IH]; intros h path quote check v b E m Hm; [discriminate|].
  destruct m as [|m]; [lia|]. rewrite pretty_fuel_S in *.
  destruct (check && existsb (fun r => is_same h r v) path)%bool; [exact E|].
  assert (Hrec : forall w c, pretty_fuel f h (path ++ [v]) true true w = Some c ->
                             pretty_fuel m h (path ++ [v]) true true w = Some c).
  { intros w c Hw. apply (IH _ _ _ _ _ _ Hw). lia. }
  destruct v as [s|bb|x|bid off len|o|sp|nt bd|i|s|]; try exact E.
  - destruct (pp_items (pretty_fuel f h _ true true) h (arr_cells h bid off len) true) as [body|] eqn:E1;
      [|discriminate].
    now rewrite (pp_items_mono _ _ h Hrec _ _ _ E1).
  - destruct (pp_fields (pretty_fuel f h _ true true) h (get_obj h o) true) as [body|] eqn:E1;
      [|discriminate].
    now rewrite (pp_fields_mono _ _ h Hrec _ _ _ E1).
Qed.

Lemma tg_items_mono : forall (g g' : value -> go_result) h,
  (forall v r, g v = r -> r <> GoFuel -> g' v = r) ->
  forall l x, tg_items h g l = Some x -> tg_items h g' l = Some x.
Proof.
  intros g g' h H l. induction l as [|c l IH]; intros x E; cbn [tg_items] in *; [exact E|].
  destruct (g (load h c)) as [j| |] eqn:E1; [| |discriminate].
  - rewrite (H _ _ E1) by discriminate.
    destruct (tg_items h g l) as [y|] eqn:E2; [|discriminate].
    rewrite (IH _ eq_refl). exact E.
  - rewrite (H _ _ E1) by discriminate. exact E.
Qed.

Lemma tg_fields_mono : forall (g g' : value -> go_result) h,
  (forall v r, g v = r -> r <> GoFuel -> g' v = r) ->
  forall l x, tg_fields h g l = Some x -> tg_fields h g' l = Some x.
Proof.
  intros g g' h H l. induction l as [|[k c] l IH]; intros x E; cbn [tg_fields] in *; [exact E|].
  destruct (g (load h c)) as [j| |] eqn:E1; [| |discriminate].
  - rewrite (H _ _ E1) by discriminate.
    destruct (tg_fields h g l) as [y|] eqn:E2; [|discriminate].
    rewrite (IH _ eq_refl). exact E.
  - rewrite (H _ _ E1) by discriminate. exact E.
Qed.

Theorem to_go_fuel_mono : forall n h path check v r,
  to_go_fuel n h path check v = r -> r <> GoFuel ->
  forall m, (n <= m)%nat -> to_go_fuel m h path check v = r.
Proof.
  induction n as [|f IH]; intros h path check v r E Hr m Hm; [cbn in E; congruence|].
  destruct m as [|m]; [lia|]. rewrite to_go_fuel_S in *.
  destruct (check && existsb (fun r => is_same h r v) path)%bool; [exact E|].
  assert (Hrec : forall w x, to_go_fuel f h (path ++ [v]) true w = x -> x <> GoFuel ->
                             to_go_fuel m h (path ++ [v]) true w = x).
  { intros w x Hw Hx. apply (IH _ _ _ _ _ Hw Hx). lia. }
  destruct v as [s|bb|x|bid off len|o|sp|nt bd|i|s|]; try exact E.
  - destruct (tg_items h (to_go_fuel f h _ true) (arr_cells h bid off len)) as [y|] eqn:E1;
      [|congruence].
    now rewrite (tg_items_mono _ _ h Hrec _ _ E1).
  - destruct (tg_fields h (to_go_fuel f h _ true) (get_obj h o)) as [y|] eqn:E1;
      [|congruence].
    now rewrite (tg_fields_mono _ _ h Hrec _ _ E1).
Qed.

(* two runs that both finish agree *)
Lemma pretty_fuel_agree : forall n m h path quote check v b c,
  pretty_fuel n h path quote check v = Some b -> pretty_fuel m h path quote check v = Some c -> b = c.
Proof.
  intros n m h path quote check v b c E1 E2.
  pose proof (pretty_fuel_mono _ _ _ _ _ _ _ E1 (Nat.max n m) (Nat.le_max_l _ _)) as H1.
  pose proof (pretty_fuel_mono _ _ _ _ _ _ _ E2 (Nat.max n m) (Nat.le_max_r _ _)) as H2.
  congruence.
Qed.

Lemma to_go_fuel_agree : forall n m h path check v r r',
  to_go_fuel n h path check v = r -> r <> GoFuel ->
  to_go_fuel m h path check v = r' -> r' <> GoFuel -> r = r'.
Proof.
  intros n m h path check v r r' E1 H1 E2 H2.
  pose proof (to_go_fuel_mono _ _ _ _ _ _ E1 H1 (Nat.max n m) (Nat.le_max_l _ _)) as G1.
  pose proof (to_go_fuel_mono _ _ _ _ _ _ E2 H2 (Nat.max n m) (Nat.le_max_r _ _)) as G2.
  congruence.
Qed.

(* the staged definitions, with the first-stage fuel as a parameter (all reasoning is done
   with a variable fuel so that nothing tries to compute with the constant first-stage fuel) *)
Definition pstaged (q : nat) (h : heap) (v : value) : option bytes :=
  match pretty_fuel q h [] false false v with
  | Some b => Some b
  | None => pretty_fuel (container_fuel h) h [] false false v
  end.
Definition gstaged (q : nat) (h : heap) (v : value) : go_result :=
  match to_go_fuel q h [] false v with
  | GoFuel => to_go_fuel (container_fuel h) h [] false v
  | r => r
  end.
(* These two lemmas are the only place that looks at how Sem/Value.v chooses the fuel; they
   are proved for BOTH variants of the model: the staged one (first stage [quick_fuel],
   syntactically [pstaged quick_fuel]) and the plain one (full fuel only = first stage 0). *)
Lemma pretty_string_staged : forall h v, exists q, pretty_string h v = pstaged q h v.
Proof.
  intros.
  first [ timeout 5 (eexists; unfold pretty_string; unfold pstaged; apply eq_refl)
        | exists 0%nat; reflexivity ].
Qed.
Lemma to_go_value_staged : forall h v, exists q, to_go_value h v = gstaged q h v.
Proof.
  intros.
  first [ timeout 5 (eexists; unfold to_go_value; unfold gstaged; apply eq_refl)
        | exists 0%nat; reflexivity ].
Qed.

Lemma pstaged_eq : forall q h v,
  pretty_fuel (container_fuel h) h [] false false v <> None ->
  pstaged q h v = pretty_fuel (container_fuel h) h [] false false v.
Proof.
  intros q h v H. unfold pstaged.
  destruct (pretty_fuel q h [] false false v) as [b|] eqn:E1; [|reflexivity].
  destruct (pretty_fuel (container_fuel h) h [] false false v) as [c|] eqn:E2; [|congruence].
  f_equal. eapply pretty_fuel_agree; eauto.
Qed.

Lemma pstaged_inv : forall q h v b, pstaged q h v = Some b ->
  exists n, pretty_fuel (S n) h [] false false v = Some b.
Proof.
  intros q h v b E. unfold pstaged in E.
  destruct (pretty_fuel q h [] false false v) as [c|] eqn:E1.
  - inversion E; subst. destruct q as [|q]; [discriminate E1|]. exists q. exact E1.
  - exists (S (Pos.to_nat (next h))). rewrite <- container_fuel_S. exact E.
Qed.

Lemma gstaged_eq : forall q h v,
  to_go_fuel (container_fuel h) h [] false v <> GoFuel ->
  gstaged q h v = to_go_fuel (container_fuel h) h [] false v.
Proof.
  intros q h v H. unfold gstaged.
  destruct (to_go_fuel q h [] false v) as [j| |] eqn:E1; try reflexivity.
  - eapply to_go_fuel_agree; eauto. discriminate.
  - eapply to_go_fuel_agree; eauto. discriminate.
Qed.

Lemma gstaged_inv : forall q h v r, gstaged q h v = r -> r <> GoFuel ->
  exists n, to_go_fuel (S n) h [] false v = r.
Proof.
  intros q h v r E H. unfold gstaged in E.
  destruct (to_go_fuel q h [] false v) as [j| |] eqn:E1.
  - destruct q as [|q]; [discriminate E1|]. exists q. congruence.
  - destruct q as [|q]; [discriminate E1|]. exists q. congruence.
  - exists (S (Pos.to_nat (next h))). rewrite <- container_fuel_S. exact E.
Qed.

(* the staged definitions give the answer of the full fuel whenever that finishes *)
Theorem pretty_string_eq : forall h v,
  pretty_fuel (container_fuel h) h [] false false v <> None ->
  pretty_string h v = pretty_fuel (container_fuel h) h [] false false v.
Proof. intros h v H. destruct (pretty_string_staged h v) as [q ->]. now apply pstaged_eq. Qed.

Lemma pretty_string_of_full : forall h v b,
  pretty_fuel (container_fuel h) h [] false false v = Some b -> pretty_string h v = Some b.
Proof. intros h v b E. rewrite pretty_string_eq; [exact E|congruence]. Qed.

(* and whatever pretty_string answers, some fuel answers *)
Lemma pretty_string_inv : forall h v b, pretty_string h v = Some b ->
  exists n, pretty_fuel (S n) h [] false false v = Some b.
Proof. intros h v b. destruct (pretty_string_staged h v) as [q ->]. apply pstaged_inv. Qed.

Theorem to_go_value_eq : forall h v,
  to_go_fuel (container_fuel h) h [] false v <> GoFuel ->
  to_go_value h v = to_go_fuel (container_fuel h) h [] false v.
Proof. intros h v H. destruct (to_go_value_staged h v) as [q ->]. now apply gstaged_eq. Qed.

Lemma to_go_value_of_full : forall h v r,
  to_go_fuel (container_fuel h) h [] false v = r -> r <> GoFuel -> to_go_value h v = r.
Proof. intros h v r E H. rewrite to_go_value_eq; [exact E|congruence]. Qed.

Lemma to_go_value_inv : forall h v r, to_go_value h v = r -> r <> GoFuel ->
  exists n, to_go_fuel (S n) h [] false v = r.
Proof. intros h v r. destruct (to_go_value_staged h v) as [q ->]. apply gstaged_inv. Qed.

(* From here on the two staged functions are only used through the lemmas above.  Telling
   the conversion oracle to unfold them last keeps Qed from comparing two separately
   unfolded copies of a 100-level recursion (a heuristic only: nothing is hidden from the
   kernel). *)
Local Strategy opaque [to_go_value pretty_string].

(* ================================================================== *)
(* scalars, numbers, the cycle marker                                   *)


(* a value that is not a container renders without looking at the heap *)
Definition scalar_text (quote : bool) (v : value) : bytes :=
  match v with
  | VStr s => if quote then 34%N :: s ++ [34%N] else s
  | VNum x => format_f x
  | VBool true => bs "true"
  | VBool false => bs "false"
  | VNil _ => bs "null"
  | VNative _ _ => bs "<nativefunction>"
  | VFn _ => bs "<function>"
  | VRegex _ => bs "<regex>"
  | VUnknown => bs "<unknown>"
  | VArr _ _ _ | VObj _ => []
  end.

Lemma is_same_scalar : forall h r v, is_container v = false -> is_same h r v = false.
Proof. intros h r v Hv. destruct r, v; try reflexivity; discriminate. Qed.

Lemma existsb_same_scalar : forall h path v, is_container v = false ->
  existsb (fun r => is_same h r v) path = false.
Proof.
  intros h path v Hv. induction path as [|r path IH]; [reflexivity|].
  cbn [existsb]. now rewrite is_same_scalar, IH.
Qed.

Lemma pretty_fuel_scalar : forall f h path quote check v, is_container v = false ->
  pretty_fuel (S f) h path quote check v = Some (scalar_text quote v).
Proof.
  intros f h path quote check v Hv. rewrite pretty_fuel_S.
  rewrite existsb_same_scalar by exact Hv. rewrite andb_false_r.
  destruct v as [s|b|x|b o l|o|sp|n bd|i|s|]; try reflexivity; try discriminate.
Qed.

Theorem pretty_scalars : forall h,
  (forall s, pretty_string h (VStr s) = Some s) /\
  (forall x, pretty_string h (VNum x) = Some (format_f x)) /\
  pretty_string h (VBool true) = Some (bs "true") /\
  pretty_string h (VBool false) = Some (bs "false") /\
  (forall sp, pretty_string h (VNil sp) = Some (bs "null")) /\
  pretty_string h VUnknown = Some (bs "<unknown>") /\
  (forall s, pretty_string h (VRegex s) = Some (bs "<regex>")) /\
  (forall i, pretty_string h (VFn i) = Some (bs "<function>")) /\
  (forall n b, pretty_string h (VNative n b) = Some (bs "<nativefunction>")) /\
  (* nested (inside a container) strings are double-quoted, everything else is the same *)
  (forall f path check s, pretty_fuel (S f) h path true check (VStr s) = Some (34%N :: s ++ [34%N])) /\
  (forall f path check v, is_container v = false -> (forall s, v <> VStr s) ->
     pretty_fuel (S f) h path true check v = pretty_string h v).
Proof.
  intro h.
  assert (HS : forall v, is_container v = false -> pretty_string h v = Some (scalar_text false v)).
  { intros v Hv. apply pretty_string_of_full. rewrite container_fuel_S. now apply pretty_fuel_scalar. }
  repeat split; intros; try (now rewrite HS); try (now rewrite pretty_fuel_scalar).
  rewrite HS, pretty_fuel_scalar by assumption.
  destruct v; try reflexivity. exfalso. eapply H0. reflexivity.
Qed.

Theorem number_reads_back : forall h x,
  f_is_finite x = true -> valid_binary 53 1024 x = true ->
  exists b, pretty_string h (VNum x) = Some b /\ parse_float b = PFok x.
Proof.
  intros h x Hf Hv. exists (format_f x). split.
  - apply (pretty_scalars h).
  - now apply format_f_roundtrip.
Qed.

Theorem number_positional : forall h x, f_is_finite x = true ->
  exists b, pretty_string h (VNum x) = Some b /\ positional b = true.
Proof.
  intros h x Hf. exists (format_f x). split.
  - apply (pretty_scalars h).
  - now apply format_f_positional.
Qed.

Theorem pretty_cycle_marker : forall f h path quote v,
  existsb (fun r => is_same h r v) path = true ->
  pretty_fuel (S f) h path quote true v = Some (bs "<circular reference>").
Proof. intros f h path quote v H. rewrite pretty_fuel_S, H. reflexivity. Qed.

Theorem to_go_cycle_error : forall f h path v,
  existsb (fun r => is_same h r v) path = true ->
  to_go_fuel (S f) h path true v = GoErr.
Proof. intros f h path v H. rewrite to_go_fuel_S, H. reflexivity. Qed.

Theorem to_go_inexpressible : forall h,
  (forall i, to_go_value h (VFn i) = GoErr) /\
  (forall n b, to_go_value h (VNative n b) = GoErr) /\
  (forall s, to_go_value h (VRegex s) = GoErr) /\
  to_go_value h VUnknown = GoOk JNull /\
  (forall sp, to_go_value h (VNil sp) = GoOk JNull).
Proof.
  intro h. repeat split; intros; apply to_go_value_of_full; try discriminate;
    rewrite container_fuel_S; reflexivity.
Qed.

(* ================================================================== *)
(* termination: the shared pigeonhole argument                          *)

(* distinct allocated addresses are fewer than [next h] *)
Lemma pigeonhole_pos : forall (p : positive) (cs : list positive),
  NoDup cs -> (forall c, In c cs -> c < p) -> (S (length cs) <= Pos.to_nat p)%nat.
Proof.
  intros p cs Hnd Hlt.
  assert (Hinj : NoDup (map Pos.to_nat cs)).
  { clear Hlt. induction Hnd as [|c cs Hc Hnd IH]; cbn [map]; constructor; auto.
    intro Hin. apply in_map_iff in Hin. destruct Hin as [c' [E Hin]].
    apply Pos2Nat.inj in E. subst. contradiction. }
  assert (Hincl : incl (map Pos.to_nat cs) (seq 1 (Pos.to_nat p - 1))).
  { intros n Hn. apply in_map_iff in Hn. destruct Hn as [c [E Hc]]. subst n.
    apply in_seq. specialize (Hlt c Hc). lia. }
  pose proof (NoDup_incl_length Hinj Hincl) as Hlen.
  rewrite map_length, seq_length in Hlen. lia.
Qed.

Lemma in_firstn : forall (A : Type) (x : A) n l, In x (firstn n l) -> In x l.
Proof.
  intros A x n. induction n as [|n IH]; intros [|y l] H; cbn in H; try contradiction.
  destruct H as [E|H]; [now left|right; auto].
Qed.
Lemma in_skipn : forall (A : Type) (x : A) n l, In x (skipn n l) -> In x l.
Proof.
  intros A x n. induction n as [|n IH]; intros [|y l] H; cbn in H; try contradiction; auto.
  right; auto.
Qed.

Section Termination.
  Variable h : heap.
  Hypothesis Hcb : cells_bounded h.

  (* [cs]: distinct allocated cells whose values are on the path; every element of the
     path but the first was loaded from one of them *)
  Definition path_inv (path : list value) (cs : list addr) : Prop :=
    NoDup cs /\
    (forall c, In c cs -> c < next h /\ In (load h c) path) /\
    (length path <= S (length cs))%nat.
  Definition good_path (path : list value) : Prop := exists cs, path_inv path cs.

  (* where the value being rendered comes from *)
  Definition reach_ok (path : list value) (check : bool) (v : value) : Prop :=
    path = [] \/ (check = true /\ exists c, c < next h /\ load h c = v).

  Lemma good_nil : good_path [].
  Proof. exists []. split; [constructor|split]; [intros c []|cbn; lia]. Qed.

  Lemma good_len : forall path, good_path path -> (length path <= Pos.to_nat (next h))%nat.
  Proof.
    intros path [cs (Hnd & Hin & Hlen)].
    pose proof (pigeonhole_pos (next h) cs Hnd (fun c Hc => proj1 (Hin c Hc))) as HH.
    eapply Nat.le_trans; [exact Hlen|exact HH].
  Qed.

  Lemma good_step : forall path check v,
    good_path path -> reach_ok path check v ->
    (check && existsb (fun r => is_same h r v) path)%bool = false ->
    is_same h v v = true ->
    good_path (path ++ [v]).
  Proof.
    intros path check v [cs (Hnd & Hin & Hlen)] Hr Hchk Hself.
    destruct Hr as [Hnil | [Hck [c [Hc Hl]]]].
    - subst path. exists []. split; [constructor|split]; [intros c []|cbn; lia].
    - subst check. cbn [andb] in Hchk. exists (c :: cs). split; [|split].
      + constructor; [|exact Hnd]. intro Hcin.
        destruct (Hin c Hcin) as [_ Hp]. rewrite Hl in Hp.
        assert (existsb (fun r => is_same h r v) path = true).
        { apply existsb_exists. exists v. split; assumption. }
        congruence.
      + intros c' [E | Hc'].
        * subst c'. split; [exact Hc|]. rewrite Hl. apply in_or_app. right. now left.
        * destruct (Hin c' Hc') as [H1 H2]. split; [exact H1|]. apply in_or_app. now left.
      + rewrite app_length. cbn [length]. lia.
  Qed.

  Lemma arr_cells_in : forall b off len c,
    In c (arr_cells h b off len) -> c < next h /\ (0 < arr_cap h b off)%nat.
  Proof.
    intros b off len c Hc. unfold arr_cells in Hc.
    apply in_firstn in Hc.
    split.
    - destruct Hcb as [Hb _]. specialize (Hb b). rewrite Forall_forall in Hb. apply Hb.
      eapply in_skipn; eauto.
    - unfold arr_cap. rewrite <- skipn_length.
      destruct (skipn off (get_back h b)); [contradiction|cbn; lia].
  Qed.

  Lemma obj_cells_in : forall o k c, In (k, c) (get_obj h o) -> c < next h.
  Proof.
    intros o k c Hc. destruct Hcb as [_ Ho]. specialize (Ho o). rewrite Forall_forall in Ho.
    apply (Ho (k, c) Hc).
  Qed.

  Lemma is_same_arr_self : forall b off len, (0 < arr_cap h b off)%nat ->
    is_same h (VArr b off len) (VArr b off len) = true.
  Proof.
    intros b off len Hc. cbn [is_same]. rewrite Pos.eqb_refl.
    assert (E : Nat.ltb 0 (arr_cap h b off) = true) by (apply Nat.ltb_lt; exact Hc).
    now rewrite E.
  Qed.

  Lemma pp_items_some : forall rec l first,
    (forall c, In c l -> rec (load h c) <> None) -> pp_items rec h l first <> None.
  Proof.
    intros rec l. induction l as [|c l IH]; intros first H; cbn [pp_items]; [discriminate|].
    destruct (rec (load h c)) eqn:E1; [|exfalso; eapply H; [now left|exact E1]].
    destruct (pp_items rec h l false) eqn:E2; [discriminate|].
    exfalso. eapply (IH false); [|exact E2]. intros c' Hc'. apply H. now right.
  Qed.

  Lemma pp_fields_some : forall rec l first,
    (forall k c, In (k, c) l -> rec (load h c) <> None) -> pp_fields rec h l first <> None.
  Proof.
    intros rec l. induction l as [|[k c] l IH]; intros first H; cbn [pp_fields]; [discriminate|].
    destruct (rec (load h c)) eqn:E1; [|exfalso; eapply H; [now left|exact E1]].
    destruct (pp_fields rec h l false) eqn:E2; [discriminate|].
    exfalso. eapply (IH false); [|exact E2]. intros k' c' Hc'. eapply H. right. exact Hc'.
  Qed.

  Lemma pretty_fuel_some : forall n path quote check v,
    good_path path -> reach_ok path check v ->
    (Pos.to_nat (next h) < n + length path)%nat ->
    pretty_fuel n h path quote check v <> None.
  Proof.
    induction n as [|f IH]; intros path quote check v Hg Hr Hn.
    - pose proof (good_len path Hg). lia.
    - rewrite pretty_fuel_S.
      destruct (check && existsb (fun r => is_same h r v) path)%bool eqn:Hchk; [discriminate|].
      destruct v as [s|b|x|b off len|o|sp|nt bd|i|s|]; try discriminate.
      + (* array *)
        assert (Hit : pp_items (pretty_fuel f h (path ++ [VArr b off len]) true true) h
                        (arr_cells h b off len) true <> None).
        { apply pp_items_some. intros c Hc. destruct (arr_cells_in _ _ _ _ Hc) as [Hlt Hcap].
          apply IH.
          - eapply good_step; eauto. now apply is_same_arr_self.
          - right. split; [reflexivity|]. exists c. split; [exact Hlt|reflexivity].
          - rewrite app_length. cbn [length]. lia. }
        destruct (pp_items _ h (arr_cells h b off len) true); [discriminate|contradiction].
      + (* object *)
        assert (Hit : pp_fields (pretty_fuel f h (path ++ [VObj o]) true true) h
                        (get_obj h o) true <> None).
        { apply pp_fields_some. intros k c Hc. pose proof (obj_cells_in _ _ _ Hc) as Hlt.
          apply IH.
          - eapply good_step; eauto. cbn [is_same]. apply Pos.eqb_refl.
          - right. split; [reflexivity|]. exists c. split; [exact Hlt|reflexivity].
          - rewrite app_length. cbn [length]. lia. }
        destruct (pp_fields _ h (get_obj h o) true); [discriminate|contradiction].
  Qed.

  Theorem pretty_terminates_cb : forall v, pretty_string h v <> None.
  Proof.
    intro v.
    assert (H : pretty_fuel (container_fuel h) h [] false false v <> None).
    { apply pretty_fuel_some.
      - apply good_nil.
      - now left.
      - rewrite container_fuel_S. cbn [length]. lia. }
    rewrite pretty_string_eq; exact H.
  Qed.

  (* ---------- the same for ToGoValue ---------- *)

  Lemma tg_items_some : forall grec l,
    (forall c, In c l -> grec (load h c) <> GoFuel) -> tg_items h grec l <> None.
  Proof.
    intros grec l. induction l as [|c l IH]; intros H; cbn [tg_items]; [discriminate|].
    destruct (grec (load h c)) eqn:E1; try discriminate.
    - destruct (tg_items h grec l) as [[js|]|] eqn:E2; try discriminate.
      exfalso. apply IH; [|reflexivity]. intros c' Hc'. apply H. now right.
    - exfalso. eapply H; [now left|exact E1].
  Qed.

  Lemma tg_fields_some : forall grec l,
    (forall k c, In (k, c) l -> grec (load h c) <> GoFuel) -> tg_fields h grec l <> None.
  Proof.
    intros grec l. induction l as [|[k c] l IH]; intros H; cbn [tg_fields]; [discriminate|].
    destruct (grec (load h c)) eqn:E1; try discriminate.
    - destruct (tg_fields h grec l) as [[js|]|] eqn:E2; try discriminate.
      exfalso. apply IH; [|reflexivity]. intros k' c' Hc'. eapply H. right. exact Hc'.
    - exfalso. eapply H; [now left|exact E1].
  Qed.

  Lemma to_go_fuel_some : forall n path check v,
    good_path path -> reach_ok path check v ->
    (Pos.to_nat (next h) < n + length path)%nat ->
    to_go_fuel n h path check v <> GoFuel.
  Proof.
    induction n as [|f IH]; intros path check v Hg Hr Hn.
    - pose proof (good_len path Hg). lia.
    - rewrite to_go_fuel_S.
      destruct (check && existsb (fun r => is_same h r v) path)%bool eqn:Hchk; [discriminate|].
      destruct v as [s|b|x|b off len|o|sp|nt bd|i|s|]; try discriminate.
      + assert (Hit : tg_items h (to_go_fuel f h (path ++ [VArr b off len]) true)
                        (arr_cells h b off len) <> None).
        { apply tg_items_some. intros c Hc. destruct (arr_cells_in _ _ _ _ Hc) as [Hlt Hcap].
          apply IH.
          - eapply good_step; eauto. now apply is_same_arr_self.
          - right. split; [reflexivity|]. exists c. split; [exact Hlt|reflexivity].
          - rewrite app_length. cbn [length]. lia. }
        destruct (tg_items h _ (arr_cells h b off len)) as [[js|]|]; try discriminate.
        contradiction.
      + assert (Hit : tg_fields h (to_go_fuel f h (path ++ [VObj o]) true)
                        (get_obj h o) <> None).
        { apply tg_fields_some. intros k c Hc. pose proof (obj_cells_in _ _ _ Hc) as Hlt.
          apply IH.
          - eapply good_step; eauto. cbn [is_same]. apply Pos.eqb_refl.
          - right. split; [reflexivity|]. exists c. split; [exact Hlt|reflexivity].
          - rewrite app_length. cbn [length]. lia. }
        destruct (tg_fields h _ (get_obj h o)) as [[js|]|]; try discriminate.
        contradiction.
  Qed.

  Theorem to_go_terminates_cb : forall v, to_go_value h v <> GoFuel.
  Proof.
    intro v.
    assert (H : to_go_fuel (container_fuel h) h [] false v <> GoFuel).
    { apply to_go_fuel_some.
      - apply good_nil.
      - now left.
      - rewrite container_fuel_S. cbn [length]. lia. }
    rewrite to_go_value_eq; exact H.
  Qed.
End Termination.

Lemma wf_cells_bounded : forall h, wf_heap h -> cells_bounded h.
Proof.
  intros h (_ & Hb & Ho). split.
  - intro b. unfold get_back. destruct (PM.find b (backs h)) eqn:E; [|constructor].
    exact (proj2 (Hb _ _ E)).
  - intro o. unfold get_obj. destruct (PM.find o (objs h)) eqn:E; [|constructor].
    exact (proj2 (Ho _ _ E)).
Qed.

Theorem pretty_terminates : forall h v, wf_heap h -> pretty_string h v <> None.
Proof. intros h v H. apply pretty_terminates_cb. now apply wf_cells_bounded. Qed.

Theorem to_go_terminates : forall h v, wf_heap h -> to_go_value h v <> GoFuel.
Proof. intros h v H. apply to_go_terminates_cb. now apply wf_cells_bounded. Qed.

(* ================================================================== *)
(* ToGoValue of a document                                              *)

Definition path_above (p : positive) (path : list value) : Prop :=
  forall r, In r path ->
    match r with VArr b _ _ => p <= b | VObj o => p <= o | _ => True end.

Lemma path_above_snoc : forall p q path v, path_above p path -> q <= p ->
  match v with VArr b _ _ => q <= b | VObj o => q <= o | _ => True end ->
  path_above q (path ++ [v]).
Proof.
  intros p q path v Hp Hq Hv r Hr. apply in_app_or in Hr. destruct Hr as [Hr|[E|[]]].
  - specialize (Hp r Hr). destruct r; auto; lia.
  - subst r. exact Hv.
Qed.

Lemma existsb_same_above : forall h p path v, path_above p path ->
  match v with VArr b _ _ => b < p | VObj o => o < p | _ => True end ->
  existsb (fun r => is_same h r v) path = false.
Proof.
  intros h p path v Hp Hv. induction path as [|r path IH]; [reflexivity|].
  cbn [existsb]. rewrite IH by (intros r' Hr'; apply Hp; now right).
  rewrite orb_false_r. specialize (Hp r (or_introl eq_refl)).
  destruct r, v; try reflexivity; cbn [is_same].
  - assert (E : Pos.eqb bid bid0 = false) by (apply Pos.eqb_neq; lia).
    rewrite E. now rewrite andb_false_r.
  - apply Pos.eqb_neq. lia.
Qed.

Lemma arr_cells_full : forall h b, arr_cells h b 0 (length (get_back h b)) = get_back h b.
Proof. intros h b. unfold arr_cells. cbn [skipn]. apply firstn_all. Qed.

Lemma to_go_doc : forall h,
  (forall p v j, doc_at h p v j -> forall n path check,
     (Pos.to_nat p < n)%nat -> path_above p path -> to_go_fuel n h path check v = GoOk j) /\
  (forall p cs js, doc_cells h p cs js -> forall n path,
     (Pos.to_nat p < n)%nat -> path_above p path ->
     tg_items h (to_go_fuel n h path true) cs = Some (Some js)) /\
  (forall p cs js, doc_fields h p cs js -> forall n path,
     (Pos.to_nat p < n)%nat -> path_above p path ->
     tg_fields h (to_go_fuel n h path true) cs = Some (Some js)).
Proof.
  intro h. apply doc_mutind.
  - intros p n path check Hn _. destruct n; [lia|]. rewrite to_go_fuel_S.
    rewrite existsb_same_scalar by reflexivity. now rewrite andb_false_r.
  - intros p b n path check Hn _. destruct n; [lia|]. rewrite to_go_fuel_S.
    rewrite existsb_same_scalar by reflexivity. now rewrite andb_false_r.
  - intros p f n path check Hn _. destruct n; [lia|]. rewrite to_go_fuel_S.
    rewrite existsb_same_scalar by reflexivity. now rewrite andb_false_r.
  - intros p s n path check Hn _. destruct n; [lia|]. rewrite to_go_fuel_S.
    rewrite existsb_same_scalar by reflexivity. now rewrite andb_false_r.
  - intros p b js Hb _ IH n path check Hn Hp. destruct n as [|f]; [lia|]. rewrite to_go_fuel_S.
    rewrite (existsb_same_above h p) by (auto; exact Hb). rewrite andb_false_r.
    rewrite arr_cells_full. rewrite IH; [reflexivity|lia|].
    eapply path_above_snoc; [exact Hp|lia|lia].
  - intros p o fs Ho _ IH n path check Hn Hp. destruct n as [|f]; [lia|]. rewrite to_go_fuel_S.
    rewrite (existsb_same_above h p) by (auto; exact Ho). rewrite andb_false_r.
    rewrite IH; [reflexivity|lia|].
    eapply path_above_snoc; [exact Hp|lia|lia].
  - intros. reflexivity.
  - intros p c cs j js Hc Hu _ IHd _ IHc n path Hn Hp. cbn [tg_items].
    rewrite IHd by assumption. now rewrite IHc.
  - intros. reflexivity.
  - intros p k c cs j js Hc Hu _ IHd _ IHc n path Hn Hp. cbn [tg_fields].
    rewrite IHd by assumption. now rewrite IHc.
Qed.

Theorem to_go_value_doc : forall h p v j, doc_at h p v j -> p <= next h ->
  to_go_value h v = GoOk j.
Proof.
  intros h p v j Hd Hp. apply to_go_value_of_full; [|discriminate]. rewrite container_fuel_S.
  apply (proj1 (to_go_doc h) (next h)).
  - eapply doc_mono; eauto.
  - lia.
  - intros r [].
Qed.

(* C04: NewValue followed by ToGoValue is the identity, for every JSON value (empty
   arrays and objects at any depth included); no hypothesis on [j] or [h] is needed *)
Theorem to_go_new_value : forall j h v h',
  new_value j h = (v, h') -> to_go_value h' v = GoOk j.
Proof.
  intros j h v h' E. destruct (new_value_doc j h v h' E) as [_ Hd].
  eapply to_go_value_doc; [exact Hd|lia].
Qed.

(* C09: the document reads back the same after any pure expression *)
Theorem document_unchanged : forall src funcs fz n e, pure_expr e = true ->
  forall s r s' p v j,
    doc_at (hp s) p v j -> p <= next (hp s) ->
    eval_expr src funcs fz n e s = (r, s') ->
    doc_at (hp s') p v j /\
    to_go_value (hp s') v = GoOk j /\ to_go_value (hp s) v = GoOk j.
Proof.
  intros src funcs fz n e He s r s' p v j Hd Hp E.
  pose proof (document_unchanged_doc src funcs fz n e He s r s' p v j Hd Hp E) as Hd'.
  pose proof (read_pure src funcs fz n e He s r s' E) as (Hn & _).
  split; [exact Hd'|]. split; eapply to_go_value_doc; eauto. lia.
Qed.

(* ... in particular the root document: GetRootJson gives the same text *)
Theorem root_json_unchanged : forall src funcs fz n e, pure_expr e = true ->
  forall s r s' rc p j,
    root s = Some rc -> rc < next (hp s) -> load (hp s) rc <> VUnknown ->
    doc_at (hp s) p (load (hp s) rc) j -> p <= next (hp s) ->
    eval_expr src funcs fz n e s = (r, s') ->
    get_root_json s' = get_root_json s.
Proof.
  intros src funcs fz n e He s r s' rc p j Hroot Hrc Hu Hd Hp E.
  destruct (read_pure_st src funcs fz n e He s r s' E) as (Hh & Hr & _).
  destruct (document_unchanged src funcs fz n e He s r s' p _ j Hd Hp E) as (_ & G' & G).
  assert (El : load (hp s') rc = load (hp s) rc).
  { destruct Hh as (_ & _ & _ & C). now apply C. }
  unfold get_root_json. rewrite Hr, Hroot, El, G', G. reflexivity.
Qed.

(* ================================================================== *)
(* a value that contains itself is an error                             *)

Lemma tg_items_ok : forall h grec l js, tg_items h grec l = Some (Some js) ->
  forall c, In c l -> exists j, grec (load h c) = GoOk j.
Proof.
  intros h grec l. induction l as [|c l IH]; intros js E c' Hc'; [contradiction|].
  cbn [tg_items] in E. destruct (grec (load h c)) eqn:E1; try discriminate.
  destruct (tg_items h grec l) as [[js'|]|] eqn:E2; try discriminate.
  destruct Hc' as [<-|Hc']; [eauto|]. eapply IH; eauto.
Qed.

Lemma tg_fields_ok : forall h grec l js, tg_fields h grec l = Some (Some js) ->
  forall c, In c (map snd l) -> exists j, grec (load h c) = GoOk j.
Proof.
  intros h grec l. induction l as [|[k c] l IH]; intros js E c' Hc'; [contradiction|].
  cbn [tg_fields] in E. destruct (grec (load h c)) eqn:E1; try discriminate.
  destruct (tg_fields h grec l) as [[js'|]|] eqn:E2; try discriminate.
  destruct Hc' as [<-|Hc']; [eauto|]. eapply IH; eauto.
Qed.

(* a successful conversion converted every child, with the value itself on the path *)
Lemma to_go_ok_child : forall f h path check v j w,
  to_go_fuel (S f) h path check v = GoOk j -> child h v w ->
  exists j', to_go_fuel f h (path ++ [v]) true w = GoOk j'.
Proof.
  intros f h path check v j w E [c [Hc ->]]. rewrite to_go_fuel_S in E.
  destruct (check && existsb (fun r => is_same h r v) path)%bool; [discriminate|].
  destruct v as [s|b|x|b off len|o|sp|nt bd|i|s|]; cbn [children] in Hc; try contradiction.
  - destruct (tg_items h _ (arr_cells h b off len)) as [[js|]|] eqn:E1; try discriminate.
    eapply tg_items_ok; eauto.
  - destruct (tg_fields h _ (get_obj h o)) as [[js|]|] eqn:E1; try discriminate.
    eapply tg_fields_ok; eauto.
Qed.

Lemma child_self_same : forall h v w, child h v w -> is_same h v v = true.
Proof.
  intros h v w [c [Hc _]].
  destruct v as [s|b|x|b off len|o|sp|nt bd|i|s|]; cbn [children] in Hc; try contradiction.
  - cbn [is_same]. rewrite Pos.eqb_refl. unfold arr_cells in Hc. apply in_firstn in Hc.
    assert (Hcap : (0 < arr_cap h b off)%nat).
    { unfold arr_cap. rewrite <- skipn_length.
      destruct (skipn off (get_back h b)); [contradiction|cbn; lia]. }
    apply Nat.ltb_lt in Hcap. now rewrite Hcap.
  - cbn [is_same]. apply Pos.eqb_refl.
Qed.

Lemma to_go_reach_not_ok : forall h w v, reaches h w v ->
  forall n path j, In v path -> is_same h v v = true ->
  to_go_fuel n h path true w <> GoOk j.
Proof.
  intros h w v Hr. induction Hr as [v|w w' v Hc Hr IH]; intros n path j Hin Hs E.
  - destruct n; [discriminate|]. rewrite to_go_fuel_S in E.
    assert (Hex : existsb (fun r => is_same h r v) path = true).
    { apply existsb_exists. eauto. }
    rewrite Hex in E. discriminate.
  - destruct n; [discriminate|].
    destruct (to_go_ok_child _ _ _ _ _ _ _ E Hc) as [j' E'].
    eapply IH; [|exact Hs|exact E']. apply in_or_app. now left.
Qed.

Theorem to_go_contains_itself : forall h v, contains_itself h v ->
  forall j, to_go_value h v <> GoOk j.
Proof.
  intros h v [w [Hc Hr]] j E.
  destruct (to_go_value_inv h v _ E ltac:(discriminate)) as [n En]. clear E. rename En into E.
  destruct (to_go_ok_child _ _ _ _ _ _ _ E Hc) as [j' E'].
  eapply to_go_reach_not_ok; [exact Hr| |eapply child_self_same; exact Hc|exact E'].
  now left.
Qed.

Theorem to_go_cyclic_error : forall h v, wf_heap h -> contains_itself h v ->
  to_go_value h v = GoErr.
Proof.
  intros h v Hwf Hc. pose proof (to_go_terminates h v Hwf) as Ht.
  pose proof (to_go_contains_itself h v Hc) as Hn.
  destruct (to_go_value h v); [exfalso; eapply Hn; reflexivity|reflexivity|contradiction].
Qed.

(* ================================================================== *)
(* json(x) and GetRootJson never emit malformed text                    *)

Theorem json_never_malformed : forall x this s r s',
  native_call NJson [x] this s = (r, s') ->
  match r with
  | Ok NError => to_go_value (hp s) x = GoErr \/
                 exists j, to_go_value (hp s) x = GoOk j /\ marshal_indent j = None
  | Ok (NVal v) => exists j b, v = VStr b /\ to_go_value (hp s) x = GoOk j /\
                               marshal_indent j = Some b
  | Ok NNil => False
  | Fuel => to_go_value (hp s) x = GoFuel
  | _ => False
  end /\ hp s' = hp s /\ io s' = io s.
Proof.
  intros x this s r s' E. unfold native_call in E.
  unfold bind at 1 in E.
  assert (Ht : exists tv, this_value this s = (Ok tv, s)).
  { destruct this; unfold this_value, bind, m_load, ret; eauto. }
  destruct Ht as [tv Ht]. rewrite Ht in E. unfold bind at 1 in E. cbn [get_heap] in E.
  destruct (to_go_value (hp s) x) as [j| |] eqn:G.
  - destruct (marshal_indent j) as [b|] eqn:Mj; inversion E; subst.
    + split; [|auto]. exists j, b. auto.
    + split; [|auto]. right. exists j. auto.
  - inversion E; subst. split; [|auto]. now left.
  - inversion E; subst. split; [|auto]. reflexivity.
Qed.

Theorem root_json_never_malformed : forall s,
  match get_root_json s with
  | JsonText b =>
    (root s = None /\ b = bs "null") \/
    exists a j, root s = Some a /\ to_go_value (hp s) (load (hp s) a) = GoOk j /\
                marshal_indent j = Some b
  | JsonError => exists a, root s = Some a /\
       (to_go_value (hp s) (load (hp s) a) = GoErr \/
        exists j, to_go_value (hp s) (load (hp s) a) = GoOk j /\ marshal_indent j = None)
  | JsonFuel => exists a, root s = Some a /\ to_go_value (hp s) (load (hp s) a) = GoFuel
  end.
Proof.
  intro s. unfold get_root_json. destruct (root s) as [a|]; [|now left].
  destruct (to_go_value (hp s) (load (hp s) a)) as [j| |] eqn:G.
  - destruct (marshal_indent j) as [b|] eqn:Mj.
    + right. exists a, j. auto.
    + exists a. split; [reflexivity|]. right. exists j. auto.
  - exists a. auto.
  - exists a. auto.
Qed.

(* ================================================================== *)
(* the shape of print                                                   *)

Definition with_io (s : st) (l : list io_event) : st :=
  mkSt (hp s) (frames s) (rule_root s) (root s) (retval s) l.

Lemma bind_assoc : forall A B C (m : M A) (k : A -> M B) (k' : B -> M C) s,
  bind (bind m k) k' s = bind m (fun a => bind (k a) k') s.
Proof. intros. unfold bind. destruct (m s) as [[a|e|x| | |] s1]; reflexivity. Qed.

Lemma bind_emit : forall B b (k : unit -> M B) s,
  bind (emit b) k s = k tt (with_io s (IoWrite b :: io s)).
Proof. reflexivity. Qed.

Lemma bind_m_load : forall B c (k : value -> M B) s, bind (m_load c) k s = k (load (hp s) c) s.
Proof. reflexivity. Qed.

Lemma bind_ret : forall A B (a : A) (k : A -> M B) s, bind (ret a) k s = k a s.
Proof. reflexivity. Qed.

Lemma bind_pretty_m : forall B v (k : bytes -> M B) s p,
  pretty_string (hp s) v = Some p -> bind (pretty_m v) k s = k p s.
Proof. intros B v k s p H. unfold pretty_m, get_heap, bind. cbv beta iota. now rewrite H. Qed.

Definition renders (h : heap) (cells : list addr) (ps : list bytes) : Prop :=
  Forall2 (fun c p => pretty_string h (load h c) = Some p) cells ps.

Lemma print_args_events : forall cells ps first s,
  renders (hp s) cells ps ->
  (print_args cells first ;;; emit [10%N]) s =
  (Ok tt, with_io s (rev (print_events ps first) ++ io s)).
Proof.
  induction cells as [|c cells IH]; intros ps first s H; inversion H as [|? p ? ps' Hp Hr]; subst.
  - reflexivity.
  - cbn [print_args]. rewrite bind_assoc.
    assert (Hgo : forall s1, hp s1 = hp s ->
       bind (let* v := m_load c in let* p0 := pretty_m v in emit p0 ;;; print_args cells false)
            (fun _ => emit [10%N]) s1 =
       (Ok tt, with_io s1 (rev (IoWrite p :: print_events ps' false) ++ io s1))).
    { intros s1 Hs1. rewrite bind_assoc, bind_m_load, bind_assoc.
      rewrite (bind_pretty_m _ _ _ _ p) by (rewrite Hs1; exact Hp).
      rewrite bind_assoc, bind_emit.
      rewrite IH with (ps := ps') by (cbn [with_io hp]; rewrite Hs1; exact Hr).
      cbn [with_io hp frames rule_root root retval io rev]. rewrite <- !app_assoc. reflexivity. }
    destruct first; cbn [print_events].
    + rewrite bind_ret. now rewrite Hgo.
    + rewrite bind_emit. rewrite Hgo by reflexivity.
      cbn [with_io hp frames rule_root root retval io app rev]. rewrite <- !app_assoc. reflexivity.
Qed.

Definition ev_bytes (e : io_event) : bytes := match e with IoWrite b => b | _ => [] end.

Lemma output_of_app : forall evs l,
  output_of (rev evs ++ l) = output_of l ++ concat (map ev_bytes evs).
Proof.
  intros evs l. unfold output_of. rewrite rev_app_distr, rev_involutive, map_app, concat_app.
  reflexivity.
Qed.

Lemma print_events_bytes_false : forall ps,
  concat (map ev_bytes (print_events ps false)) = concat (map (fun p => 32%N :: p) ps) ++ [10%N].
Proof.
  induction ps as [|p ps IH]; [reflexivity|].
  cbn [print_events app map concat ev_bytes]. rewrite IH. cbn [app].
  now rewrite <- app_assoc.
Qed.

Lemma join_sp_cons : forall p ps, join_sp (p :: ps) = p ++ concat (map (fun q => 32%N :: q) ps).
Proof.
  intros p ps. revert p. induction ps as [|q ps IH]; intro p.
  - cbn. now rewrite app_nil_r.
  - change (join_sp (p :: q :: ps)) with (p ++ 32%N :: join_sp (q :: ps)). rewrite IH. reflexivity.
Qed.

Lemma print_events_bytes : forall ps, ps <> [] ->
  concat (map ev_bytes (print_events ps true)) = print_line ps.
Proof.
  intros [|p ps] H; [congruence|]. unfold print_line. rewrite join_sp_cons.
  cbn [print_events app map concat ev_bytes]. rewrite print_events_bytes_false.
  now rewrite <- app_assoc.
Qed.

(* C17: the Write calls of print, and what they add to the output *)
Theorem print_shape : forall cells ps s,
  renders (hp s) cells ps -> cells <> [] ->
  exists s', (print_args cells true ;;; emit [10%N]) s = (Ok tt, s') /\
    hp s' = hp s /\
    io s' = rev (print_events ps true) ++ io s /\
    output_of (io s') = output_of (io s) ++ print_line ps.
Proof.
  intros cells ps s H Hne. eexists. split; [apply print_args_events; exact H|].
  cbn [with_io hp io]. split; [reflexivity|]. split; [reflexivity|].
  rewrite output_of_app, print_events_bytes; [reflexivity|].
  intro E. subst ps. inversion H. subst. congruence.
Qed.

(* every argument list renders on a well-formed heap *)
Lemma renders_exists : forall h cells, wf_heap h -> exists ps, renders h cells ps.
Proof.
  intros h cells Hwf. induction cells as [|c cells [ps IH]].
  - exists []. constructor.
  - destruct (pretty_string h (load h c)) as [p|] eqn:E.
    + exists (p :: ps). constructor; auto.
    + exfalso. eapply pretty_terminates; eauto.
Qed.

Section PrintStmt.
  Variables (src : bytes) (funcs : list func) (fz : bool).

  Lemma eval_stmt_print : forall f t args,
    eval_stmt src funcs fz (S f) (SPrint t args) =
    (let* cells := eval_expr_list src funcs fz f args false in
     match cells with
     | [] =>
       let* st0 := get_st in
       match rule_root st0 with
       | None => fail Panic
       | Some a =>
         let* v := m_load a in
         let* p := pretty_m v in
         emit (p ++ [10%N])
       end
     | _ => print_args cells true ;;; emit [10%N]
     end).
  Proof. reflexivity. Qed.

  (* print a1, ..., ak *)
  Theorem print_stmt_shape : forall f t args s cells s1 ps,
    eval_expr_list src funcs fz f args false s = (Ok cells, s1) -> cells <> [] ->
    renders (hp s1) cells ps ->
    exists s2, eval_stmt src funcs fz (S f) (SPrint t args) s = (Ok tt, s2) /\
      hp s2 = hp s1 /\
      io s2 = rev (print_events ps true) ++ io s1 /\
      output_of (io s2) = output_of (io s1) ++ print_line ps.
  Proof.
    intros f t args s cells s1 ps E Hne Hr. rewrite eval_stmt_print.
    unfold bind at 1. rewrite E. destruct cells as [|c cells]; [congruence|].
    apply print_shape; auto.
  Qed.

  (* a bare print -- which is also the body the parser gives a rule without one -- writes $ *)
  Theorem print_bare_shape : forall f t s a p,
    rule_root s = Some a -> pretty_string (hp s) (load (hp s) a) = Some p ->
    eval_stmt src funcs fz (S (S f)) (SPrint t []) s =
      (Ok tt, with_io s (IoWrite (p ++ [10%N]) :: io s)) /\
    output_of (IoWrite (p ++ [10%N]) :: io s) = output_of (io s) ++ p ++ [10%N].
  Proof.
    intros f t s a p Hrr Hp. split.
    - rewrite eval_stmt_print. unfold bind at 1.
      change (eval_expr_list src funcs fz (S f) [] false s) with (@ret (list addr) [] s).
      unfold ret at 1. unfold bind at 1, get_st. rewrite Hrr.
      rewrite bind_m_load. rewrite (bind_pretty_m _ _ _ _ p Hp). reflexivity.
    - change (IoWrite (p ++ [10%N]) :: io s) with (rev [IoWrite (p ++ [10%N])] ++ io s).
      rewrite output_of_app. cbn. now rewrite app_nil_r.
  Qed.
End PrintStmt.

(* ================================================================== *)
(* a decision procedure for [wf_heap] (used by the examples)            *)

Definition val_ids_belowb (p : positive) (v : value) : bool :=
  match v with
  | VArr b _ _ => Pos.ltb b p
  | VObj o => Pos.ltb o p
  | VNil (Some (a, _)) => Pos.ltb a p
  | VNative _ (Some a) => Pos.ltb a p
  | _ => true
  end.

Definition wf_heapb (h : heap) : bool :=
  forallb (fun av => Pos.ltb (fst av) (next h) && val_ids_belowb (next h) (snd av))
          (PM.elements (cells h)) &&
  forallb (fun bl => Pos.ltb (fst bl) (next h) && forallb (fun c => Pos.ltb c (next h)) (snd bl))
          (PM.elements (backs h)) &&
  forallb (fun ol => Pos.ltb (fst ol) (next h) &&
                     forallb (fun kc : bytes * addr => Pos.ltb (snd kc) (next h)) (snd ol))
          (PM.elements (objs h)).

Lemma val_ids_belowb_sound : forall p v, val_ids_belowb p v = true -> val_ids_below p v.
Proof.
  intros p v H. destruct v as [s|b|x|b off len|o|[[a k]|]|nt [a|]|i|s|]; cbn in *; auto;
    now apply Pos.ltb_lt.
Qed.

Lemma wf_heapb_sound : forall h, wf_heapb h = true -> wf_heap h.
Proof.
  intros h H. unfold wf_heapb in H.
  apply andb_true_iff in H. destruct H as [H Ho].
  apply andb_true_iff in H. destruct H as [Hc Hb].
  rewrite forallb_forall in Hc, Hb, Ho. split; [|split].
  - intros a v E. apply PM.elements_correct in E. specialize (Hc _ E). cbn [fst snd] in Hc.
    apply andb_true_iff in Hc. destruct Hc as [H1 H2]. split.
    + now apply Pos.ltb_lt.
    + now apply val_ids_belowb_sound.
  - intros b l E. apply PM.elements_correct in E. specialize (Hb _ E). cbn [fst snd] in Hb.
    apply andb_true_iff in Hb. destruct Hb as [H1 H2]. split.
    + now apply Pos.ltb_lt.
    + apply Forall_forall. intros c Hc'. rewrite forallb_forall in H2.
      apply Pos.ltb_lt. now apply H2.
  - intros o l E. apply PM.elements_correct in E. specialize (Ho _ E). cbn [fst snd] in Ho.
    apply andb_true_iff in Ho. destruct Ho as [H1 H2]. split.
    + now apply Pos.ltb_lt.
    + apply Forall_forall. intros c Hc'. rewrite forallb_forall in H2.
      apply Pos.ltb_lt. now apply H2.
Qed.

(* ================================================================== *)
(* PrettyString of a document is the pure rendering of its JSON tree    *)

Fixpoint jr_items (l : list jvalue) (first : bool) : bytes :=
  match l with
  | [] => []
  | x :: r => (if first then [] else bs ", ") ++ jrender true x ++ jr_items r false
  end.
Fixpoint jr_fields (l : list (bytes * jvalue)) (first : bool) : bytes :=
  match l with
  | [] => []
  | (k, x) :: r =>
    (if first then [] else bs ", ") ++ 34%N :: k ++ 34%N :: bs ": " ++ jrender true x ++ jr_fields r false
  end.
Lemma jrender_arr : forall q l, jrender q (JArr l) = 91%N :: jr_items l true ++ [93%N].
Proof. reflexivity. Qed.
Lemma jrender_obj : forall q l, jrender q (JObj l) = 123%N :: jr_fields l true ++ [125%N].
Proof. reflexivity. Qed.

Lemma pretty_doc : forall h,
  (forall p v j, doc_at h p v j -> forall n path quote check,
     (Pos.to_nat p < n)%nat -> path_above p path ->
     pretty_fuel n h path quote check v = Some (jrender quote j)) /\
  (forall p cs js, doc_cells h p cs js -> forall n path first,
     (Pos.to_nat p < n)%nat -> path_above p path ->
     pp_items (pretty_fuel n h path true true) h cs first = Some (jr_items js first)) /\
  (forall p cs js, doc_fields h p cs js -> forall n path first,
     (Pos.to_nat p < n)%nat -> path_above p path ->
     pp_fields (pretty_fuel n h path true true) h cs first = Some (jr_fields js first)).
Proof.
  intro h. apply doc_mutind.
  - intros p n path quote check Hn _. destruct n; [lia|]. now rewrite pretty_fuel_scalar.
  - intros p b n path quote check Hn _. destruct n; [lia|]. rewrite pretty_fuel_scalar by reflexivity.
    destruct b; reflexivity.
  - intros p f n path quote check Hn _. destruct n; [lia|]. now rewrite pretty_fuel_scalar.
  - intros p s n path quote check Hn _. destruct n; [lia|]. now rewrite pretty_fuel_scalar.
  - intros p b js Hb _ IH n path quote check Hn Hp. destruct n as [|f]; [lia|].
    rewrite pretty_fuel_S.
    rewrite (existsb_same_above h p) by (auto; exact Hb). rewrite andb_false_r.
    rewrite arr_cells_full. rewrite IH; [now rewrite jrender_arr|lia|].
    eapply path_above_snoc; [exact Hp|lia|lia].
  - intros p o fs Ho _ IH n path quote check Hn Hp. destruct n as [|f]; [lia|].
    rewrite pretty_fuel_S.
    rewrite (existsb_same_above h p) by (auto; exact Ho). rewrite andb_false_r.
    rewrite IH; [now rewrite jrender_obj|lia|].
    eapply path_above_snoc; [exact Hp|lia|lia].
  - intros. reflexivity.
  - intros p c cs j js Hc Hu _ IHd _ IHc n path first Hn Hp. cbn [pp_items jr_items].
    rewrite IHd by assumption. now rewrite IHc.
  - intros. reflexivity.
  - intros p k c cs j js Hc Hu _ IHd _ IHc n path first Hn Hp. cbn [pp_fields jr_fields].
    rewrite IHd by assumption. now rewrite IHc.
Qed.

(* a document is printed in full: never a cycle marker, never out of fuel *)
Theorem pretty_string_doc : forall h p v j, doc_at h p v j -> p <= next h ->
  pretty_string h v = Some (jrender false j) /\
  (forall f path check, (Pos.to_nat p < f)%nat -> path_above p path ->
     pretty_fuel f h path true check v = Some (jrender true j)).
Proof.
  intros h p v j Hd Hp. split.
  - apply pretty_string_of_full. rewrite container_fuel_S.
    apply (proj1 (pretty_doc h) (next h)); [eapply doc_mono; eauto|lia|intros r []].
  - intros f path check Hf Hpa. now apply (proj1 (pretty_doc h) p).
Qed.

Theorem pretty_new_value : forall j h v h',
  new_value j h = (v, h') -> pretty_string h' v = Some (jrender false j).
Proof.
  intros j h v h' E. destruct (new_value_doc j h v h' E) as [_ Hd].
  eapply pretty_string_doc; [exact Hd|lia].
Qed.
