(* Proofs/PrettyJson.v -- C17, "the rendering of a container is JSON equal to the value":
   for a JSON value whose strings need no escaping and whose numbers are finite, the text
   print shows (jrender true j, see Proofs/Pretty.v pretty_document) is accepted by the
   decoder and decodes to the value.
   Uses the scanner lemmas of Json/ScanLemmas.v, Json/StringProofs.v and the first part
   (numbers, literals) of Json/JsonProofs.v. *)
From Coq Require Import NArith ZArith List Bool Lia.
From JQ Require Import Base.Bytes Num.F64 Json.JValue Json.Decode Json.Encode.
From JQ Require Num.F64Proofs.
From JQ Require Import Json.ScanLemmas Json.StringProofs Json.JsonProofs.
From JQ Require Import Spec.Pure.
From JQ Require Proofs.Pretty.
Import ListNotations.
Local Open Scope N_scope.

(* ------------------------------------------------------------------ *)
(* plain strings                                                        *)

Lemma plain_byte_facts : forall c, plain_byte c = true ->
  32 <= c /\ c < 128 /\ c <> 34 /\ c <> 92.
Proof.
  intros c H. unfold plain_byte in H.
  apply andb_true_iff in H. destruct H as [H H92].
  apply andb_true_iff in H. destruct H as [H H34].
  apply andb_true_iff in H. destruct H as [H32 H128].
  apply N.leb_le in H32. apply N.ltb_lt in H128.
  apply negb_true_iff in H34. apply N.eqb_neq in H34.
  apply negb_true_iff in H92. apply N.eqb_neq in H92. auto.
Qed.

Lemma run_plain : forall s st lit, forallb plain_byte s = true ->
  run (in_string st lit) s = Some (in_string st (rev_append s lit)).
Proof.
  induction s as [|c s IH]; intros st lit H; [reflexivity|].
  cbn [forallb] in H. apply andb_true_iff in H. destruct H as [Hc Hs].
  destruct (plain_byte_facts c Hc) as (H32 & _ & H34 & H92).
  cbn [run rev_append]. rewrite step_in_string_plain by assumption. now apply IH.
Qed.

Lemma unq_plain : forall s acc, forallb plain_byte s = true ->
  unq None (s ++ [34]) acc = Some (lrev (rev_append s acc)).
Proof.
  induction s as [|c s IH]; intros acc H; [reflexivity|].
  cbn [forallb] in H. apply andb_true_iff in H. destruct H as [Hc Hs].
  destruct (plain_byte_facts c Hc) as (H32 & H128 & H34 & H92).
  cbn [app rev_append]. rewrite <- (IH (c :: acc) Hs).
  apply N.eqb_neq in H34. apply N.eqb_neq in H92.
  assert (L32 : (c <? 32) = false) by (apply N.ltb_ge; exact H32).
  apply N.ltb_lt in H128.
  cbn [unq]. rewrite H34, H92, L32, H128. reflexivity.
Qed.

Lemma unquote_plain : forall s, forallb plain_byte s = true ->
  unquote (lrev (34 :: rev_append s [34])) = Some s.
Proof.
  intros s H. rewrite lrev_eq. cbn [rev]. rewrite rev_append_rev, rev_app_distr, rev_involutive.
  cbn [rev app unquote N.eqb Pos.eqb]. rewrite unq_plain by exact H.
  rewrite lrev_eq, rev_append_rev, app_nil_r, rev_involutive. reflexivity.
Qed.

Definition qstr (s : bytes) : bytes := 34 :: s ++ [34].

Lemma string_value_plain : forall s st p, forallb plain_byte s = true ->
  begin_mode st -> push_value (JStr s) st = Some p -> run st (qstr s) = Some p.
Proof.
  intros s st p Hs Hb Hp. unfold qstr. cbn [run].
  rewrite step_begin; [|exact Hb|reflexivity|discriminate].
  rewrite step_beginvalue_nospace by reflexivity. cbn [N.eqb Pos.eqb].
  rewrite lit_mode_eq. destruct Hb as [_ Hl]. rewrite Hl.
  change (with_lit st MInString [34]) with (in_string st [34]).
  rewrite run_app, run_plain by exact Hs. cbn [run].
  unfold step at 1. cbn [s_mode in_string N.eqb Pos.eqb].
  unfold finish_string. cbn [s_lit in_string]. rewrite (unquote_plain s Hs).
  cbn [s_stack in_string].
  rewrite (push_value_same (JStr s) _ st) by reflexivity. rewrite Hp.
  unfold push_value in Hp.
  destruct (s_stack st) as [|[items|f|f k|f k|f] r]; try discriminate; reflexivity.
Qed.

Lemma string_key_plain : forall k st f r, forallb plain_byte k = true ->
  (s_mode st = MBeginString \/ s_mode st = MBeginStringOrEmpty) -> s_lit st = [] ->
  s_stack st = FObjKey f :: r ->
  run st (qstr k) = Some (mkS MEndValue (FObjColon f k :: r) (s_depth st) [] (s_top st) (s_rng st)).
Proof.
  intros k st f r Hk Hm Hl Hstk. unfold qstr. cbn [run].
  assert (Hs : step st 34 = RCont (in_string st [34])).
  { unfold step. destruct Hm as [Hm|Hm]; rewrite Hm; cbn [is_space N.eqb Pos.eqb orb];
      unfold step_beginstring; cbn [is_space N.eqb Pos.eqb orb]; rewrite lit_mode_eq, Hl; reflexivity. }
  rewrite Hs, run_app, run_plain by exact Hk. cbn [run].
  unfold step at 1. cbn [s_mode in_string N.eqb Pos.eqb].
  unfold finish_string. cbn [s_lit in_string]. rewrite (unquote_plain k Hk).
  cbn [s_stack s_depth s_top s_rng in_string]. rewrite Hstk. reflexivity.
Qed.

(* ------------------------------------------------------------------ *)
(* values                                                               *)

Definition jcont (v : jvalue) : bool := match v with JArr _ | JObj _ => true | _ => false end.

Notation jr_items := Proofs.Pretty.jr_items.
Notation jr_fields := Proofs.Pretty.jr_fields.

Lemma sep_bytes : bs ", " = [44; 32].
Proof. reflexivity. Qed.
Lemma colon_bytes : bs ": " = [58; 32].
Proof. reflexivity. Qed.

Lemma member_text_app : forall k (R T : bytes),
  (34 :: k ++ 34 :: bs ": " ++ R) ++ T = 34 :: k ++ 34 :: bs ": " ++ R ++ T.
Proof. intros k R T. rewrite colon_bytes. cbn [app]. rewrite <- app_assoc. reflexivity. Qed.

Definition ins_sorted (f : list (bytes * jvalue)) (kv : bytes * jvalue) :=
  assoc_set (fst kv) (jsort (snd kv)) f.
Lemma jsort_obj : forall l, jsort (JObj l) = JObj (fold_left ins_sorted l []).
Proof. reflexivity. Qed.
Lemma jsort_arr : forall l, jsort (JArr l) = JArr (map jsort l).
Proof. reflexivity. Qed.

(* the text of every number of the value is a JSON number literal.  (For every finite double
   this is a fact about Num/F64's format_f -- the positional text has no superfluous leading
   zero -- that is not proved there yet; for a concrete value it is checked by computation.) *)
Inductive nums_json : jvalue -> Prop :=
| nj_null : nums_json JNull
| nj_bool : forall b, nums_json (JBool b)
| nj_num : forall f, json_number (format_f f) = true -> nums_json (JNum f)
| nj_str : forall s, nums_json (JStr s)
| nj_arr : forall l, Forall nums_json l -> nums_json (JArr l)
| nj_obj : forall l, Forall (fun kv => nums_json (snd kv)) l -> nums_json (JObj l).

Section Accept.

  Definition accepts (v : jvalue) : Prop :=
    forall st p,
      json_plain v -> nums_json v -> begin_mode st ->
      s_depth st + jdepth v <= max_nesting_depth ->
      s_stack st <> [] \/ jcont v = false ->
      push_value (jsort v) st = Some p ->
      exists st', run st (jrender true v) = Some st' /\ settled st' p.

  Definition body_ok (v : jvalue) : Prop :=
    forall st,
      json_plain v -> nums_json v -> begin_mode st ->
      s_depth st + jdepth v <= max_nesting_depth ->
      exists body cl q pin,
        jrender true v = body ++ [cl] /\ run st body = Some q /\
        step q cl = close_container (jsort v) (s_stack st) pin /\
        s_depth pin = s_depth st + 1 /\ s_top pin = s_top st /\ s_rng pin = s_rng st.

  Lemma accepts_of_body : forall v, jcont v = true -> body_ok v -> accepts v.
  Proof.
    intros v Hc Hbody st p Hpl Hnj Hb Hd Hstk Hp.
    destruct (Hbody st Hpl Hnj Hb Hd) as (body & cl & q & pin & Hbb & Hr & Hs & Hdp & Htop & Hrng).
    destruct Hstk as [Hstk|Hstk]; [|congruence].
    exists p. split; [|apply settled_endvalue; eapply push_value_mode; eauto].
    rewrite Hbb. rewrite run_app, Hr. cbn [run]. rewrite Hs. unfold close_container.
    destruct (s_stack st) as [|fr r] eqn:Es; [contradiction|].
    rewrite (push_value_same (jsort v) _ st); [rewrite Hp; reflexivity| | | |];
      cbn [s_stack s_depth s_top s_rng]; auto.
    rewrite Hdp. lia.
  Qed.

  (* ---- arrays ---- *)

  Lemma item_accepted : forall x q ritems stk,
    accepts x -> json_plain x -> nums_json x ->
    begin_mode q -> s_stack q = FArr ritems :: stk ->
    s_depth q + jdepth x <= max_nesting_depth ->
    exists st1, run q (jrender true x) = Some st1 /\
      settled st1 (mkS MEndValue (FArr (jsort x :: ritems) :: stk) (s_depth q) [] (s_top q) (s_rng q)).
  Proof.
    intros x q ritems stk Hacc Hpl Hnj Hb Hstk Hd.
    apply (Hacc q _ Hpl Hnj Hb Hd).
    - left. rewrite Hstk. discriminate.
    - unfold push_value. rewrite Hstk. reflexivity.
  Qed.

  Lemma arr_tail : forall l, Forall accepts l -> Forall json_plain l -> Forall nums_json l ->
    forall st' ritems stk dep top rng,
    dep + fold_right (fun x m => N.max (jdepth x) m) 0 l <= max_nesting_depth ->
    settled st' (mkS MEndValue (FArr ritems :: stk) dep [] top rng) ->
    exists st'', run st' (jr_items l false) = Some st'' /\
      settled st'' (mkS MEndValue (FArr (rev (map jsort l) ++ ritems) :: stk) dep [] top rng).
  Proof.
    induction l as [|x r IH]; intros Hacc Hpl Hnj st' ritems stk dep top rng Hd Hs.
    - exists st'. split; [reflexivity|exact Hs].
    - inversion Hacc as [|? ? Hax Har]; subst. inversion Hpl as [|? ? Hpx Hpr]; subst.
      inversion Hnj as [|? ? Hnx Hnr]; subst.
      cbn [fold_right] in Hd.
      cbn [Proofs.Pretty.jr_items]. rewrite sep_bytes. cbn [app].
      set (q := mkS MBeginValue (FArr ritems :: stk) dep [] top rng).
      assert (Hq : step st' 44 = RCont q) by (rewrite (Hs 44 eq_refl); reflexivity).
      assert (Hq2 : step q 32 = RCont q) by reflexivity.
      destruct (item_accepted x q ritems stk Hax Hpx Hnx) as (st1 & Hr1 & Hs1).
      + split; [left; reflexivity|reflexivity].
      + reflexivity.
      + cbn [s_depth q]. lia.
      + cbn [s_depth s_top s_rng q] in Hs1.
        destruct (IH Har Hpr Hnr st1 (jsort x :: ritems) stk dep top rng) as (st2 & Hr2 & Hs2).
        * lia.
        * exact Hs1.
        * exists st2. split.
          -- cbn [run]. rewrite Hq, Hq2. rewrite run_app, Hr1. exact Hr2.
          -- cbn [map rev]. rewrite <- app_assoc. exact Hs2.
  Qed.

  Lemma arr_body : forall l, Forall accepts l -> body_ok (JArr l).
  Proof.
    intros l Hacc st Hpl Hnj Hb Hd. inversion Hpl as [| | | |? Hpl'|]; subst.
    inversion Hnj as [| | | |? Hnj'|]; subst.
    rewrite jdepth_arr in Hd. rewrite Proofs.Pretty.jrender_arr.
    assert (Hopen := open_array st Hb ltac:(lia)).
    set (q0 := mkS MBeginValueOrEmpty (FArr [] :: s_stack st) (s_depth st + 1) [] (s_top st) (s_rng st)) in *.
    destruct l as [|x r].
    - exists [91], 93, q0, q0. split; [reflexivity|]. split; [cbn [run]; now rewrite Hopen|].
      split; [reflexivity|]. repeat split; reflexivity.
    - inversion Hacc as [|? ? Hax Har]; subst. inversion Hpl' as [|? ? Hpx Hpr]; subst.
      inversion Hnj' as [|? ? Hnx Hnr]; subst.
      cbn [fold_right] in Hd.
      destruct (item_accepted x q0 [] (s_stack st) Hax Hpx Hnx) as (st1 & Hr1 & Hs1).
      + split; [right; reflexivity|reflexivity].
      + reflexivity.
      + cbn [s_depth q0]. lia.
      + cbn [s_depth s_top s_rng q0] in Hs1.
        destruct (arr_tail r Har Hpr Hnr st1 [jsort x] (s_stack st) (s_depth st + 1) (s_top st) (s_rng st))
          as (st2 & Hr2 & Hs2); [lia|exact Hs1|].
        set (p2 := mkS MEndValue (FArr (rev (map jsort r) ++ [jsort x]) :: s_stack st)
                       (s_depth st + 1) [] (s_top st) (s_rng st)) in *.
        exists (91 :: jrender true x ++ jr_items r false), 93, st2, p2.
        split; [cbn [Proofs.Pretty.jr_items app]; rewrite <- app_assoc; reflexivity|].
        split.
        * cbn [run]. rewrite Hopen. rewrite run_app, Hr1. exact Hr2.
        * split; [|repeat split; reflexivity].
          rewrite (Hs2 93 eq_refl). unfold step_endvalue. cbn [s_stack p2 is_space N.eqb Pos.eqb orb].
          rewrite lrev_eq, rev_app_distr, rev_involutive. rewrite jsort_arr. reflexivity.
  Qed.

  (* ---- objects ---- *)

  (* "k": v from a state that expects a key *)
  Lemma member_accepted : forall k x q f stk,
    accepts x -> forallb plain_byte k = true -> json_plain x -> nums_json x ->
    (s_mode q = MBeginString \/ s_mode q = MBeginStringOrEmpty) -> s_lit q = [] ->
    s_stack q = FObjKey f :: stk ->
    s_depth q + jdepth x <= max_nesting_depth ->
    exists st1, run q (34 :: k ++ 34 :: bs ": " ++ jrender true x) = Some st1 /\
      settled st1 (mkS MEndValue (FObjNext (assoc_set k (jsort x) f) :: stk) (s_depth q) [] (s_top q) (s_rng q)).
  Proof.
    intros k x q f stk Hacc Hk Hpl Hnj Hm Hl Hstk Hd.
    pose proof (string_key_plain k q f stk Hk Hm Hl Hstk) as Hkey.
    set (pk := mkS MEndValue (FObjColon f k :: stk) (s_depth q) [] (s_top q) (s_rng q)) in *.
    set (qv := mkS MBeginValue (FObjVal f k :: stk) (s_depth q) [] (s_top q) (s_rng q)).
    assert (H58 : step pk 58 = RCont qv) by reflexivity.
    assert (H32 : step qv 32 = RCont qv) by reflexivity.
    destruct (Hacc qv (mkS MEndValue (FObjNext (assoc_set k (jsort x) f) :: stk) (s_depth q) [] (s_top q) (s_rng q)) Hpl Hnj)
      as (st1 & Hr1 & Hs1).
    - split; [left; reflexivity|reflexivity].
    - cbn [s_depth qv]. exact Hd.
    - left. discriminate.
    - reflexivity.
    - exists st1. split; [|exact Hs1].
      rewrite colon_bytes.
      replace (34 :: k ++ 34 :: [58; 32] ++ jrender true x)
        with (qstr k ++ [58; 32] ++ jrender true x)
        by (unfold qstr; cbn [app]; rewrite <- app_assoc; reflexivity).
      rewrite run_app, Hkey. cbn [app run]. rewrite H58, H32. exact Hr1.
  Qed.

  Definition member_ok (kv : bytes * jvalue) : Prop :=
    forallb plain_byte (fst kv) = true /\ json_plain (snd kv).

  Lemma obj_tail : forall l, Forall (fun kv => accepts (snd kv)) l -> Forall member_ok l ->
    Forall (fun kv => nums_json (snd kv)) l ->
    forall st' f stk dep top rng,
    dep + fold_right (fun kv m => N.max (jdepth (snd kv)) m) 0 l <= max_nesting_depth ->
    settled st' (mkS MEndValue (FObjNext f :: stk) dep [] top rng) ->
    exists st'', run st' (jr_fields l false) = Some st'' /\
      settled st'' (mkS MEndValue (FObjNext (fold_left ins_sorted l f) :: stk) dep [] top rng).
  Proof.
    induction l as [|[k x] r IH]; intros Hacc Hpl Hnj st' f stk dep top rng Hd Hs.
    - exists st'. split; [reflexivity|exact Hs].
    - inversion Hacc as [|? ? Hax Har]; subst. inversion Hpl as [|? ? [Hk Hpx] Hpr]; subst.
      inversion Hnj as [|? ? Hnx Hnr]; subst.
      cbn [fst snd] in *. cbn [fold_right snd] in Hd.
      cbn [Proofs.Pretty.jr_fields]. rewrite sep_bytes. cbn [app].
      set (qk := mkS MBeginString (FObjKey f :: stk) dep [] top rng).
      assert (Hq : step st' 44 = RCont qk) by (rewrite (Hs 44 eq_refl); reflexivity).
      assert (Hq2 : step qk 32 = RCont qk) by reflexivity.
      destruct (member_accepted k x qk f stk Hax Hk Hpx Hnx) as (st1 & Hr1 & Hs1).
      + left; reflexivity.
      + reflexivity.
      + reflexivity.
      + cbn [s_depth qk]. lia.
      + cbn [s_depth s_top s_rng qk] in Hs1.
        destruct (IH Har Hpr Hnr st1 (assoc_set k (jsort x) f) stk dep top rng) as (st2 & Hr2 & Hs2).
        * lia.
        * exact Hs1.
        * exists st2. split; [|exact Hs2].
          rewrite <- member_text_app. cbn [run]. rewrite Hq, Hq2.
          exact (run_app_some _ _ _ _ _ Hr1 Hr2).
  Qed.

  Lemma obj_body : forall l, Forall (fun kv => accepts (snd kv)) l -> body_ok (JObj l).
  Proof.
    intros l Hacc st Hpl Hnj Hb Hd. inversion Hpl as [| | | | |? Hpl']; subst.
    inversion Hnj as [| | | | |? Hnj']; subst.
    rewrite jdepth_obj in Hd. rewrite Proofs.Pretty.jrender_obj.
    assert (Hopen := open_object st Hb ltac:(lia)).
    set (q0 := mkS MBeginStringOrEmpty (FObjKey [] :: s_stack st) (s_depth st + 1) [] (s_top st) (s_rng st)) in *.
    destruct l as [|[k x] r].
    - exists [123], 125, q0, q0. split; [reflexivity|]. split; [cbn [run]; now rewrite Hopen|].
      split; [reflexivity|]. repeat split; reflexivity.
    - inversion Hacc as [|? ? Hax Har]; subst. inversion Hpl' as [|? ? [Hk Hpx] Hpr]; subst.
      inversion Hnj' as [|? ? Hnx Hnr]; subst.
      cbn [fst snd] in *. cbn [fold_right snd] in Hd.
      destruct (member_accepted k x q0 [] (s_stack st) Hax Hk Hpx Hnx) as (st1 & Hr1 & Hs1).
      + right; reflexivity.
      + reflexivity.
      + reflexivity.
      + cbn [s_depth q0]. lia.
      + cbn [s_depth s_top s_rng q0] in Hs1.
        destruct (obj_tail r Har Hpr Hnr st1 (assoc_set k (jsort x) []) (s_stack st) (s_depth st + 1) (s_top st) (s_rng st))
          as (st2 & Hr2 & Hs2); [lia|exact Hs1|].
        set (p2 := mkS MEndValue (FObjNext (fold_left ins_sorted r (assoc_set k (jsort x) [])) :: s_stack st)
                       (s_depth st + 1) [] (s_top st) (s_rng st)) in *.
        exists (123 :: (34 :: k ++ 34 :: bs ": " ++ jrender true x) ++ jr_fields r false), 125, st2, p2.
        split.
        { cbn [Proofs.Pretty.jr_fields]. rewrite member_text_app. reflexivity. }
        split.
        * cbn [run]. rewrite Hopen. exact (run_app_some _ _ _ _ _ Hr1 Hr2).
        * split; [|repeat split; reflexivity].
          rewrite (Hs2 125 eq_refl). unfold step_endvalue. cbn [s_stack p2 is_space N.eqb Pos.eqb orb].
          rewrite jsort_obj. reflexivity.
  Qed.

  (* ---- every plain value ---- *)

  Lemma accepts_all : forall v, accepts v.
  Proof.
    induction v as [| b | f | s | l IH | l IH] using jvalue_ind'.
    - intros st p _ _ Hb _ _ Hp. exists p. split.
      + now apply null_accepted.
      + apply settled_endvalue. eapply push_value_mode; eauto.
    - intros st p _ _ Hb _ _ Hp. exists p. split.
      + destruct b; [now apply true_accepted|now apply false_accepted].
      + apply settled_endvalue. eapply push_value_mode; eauto.
    - intros st p Hpl Hnj Hb _ _ Hp. inversion Hpl as [| |? Hfin Hval| | |]; subst.
      inversion Hnj as [| |? Hjn| | |]; subst.
      apply (number_accepted (format_f f) f st p); auto.
      now apply F64Proofs.format_f_roundtrip.
    - intros st p Hpl _ Hb _ _ Hp. inversion Hpl as [| | |? Hs| |]; subst. exists p. split.
      + now apply string_value_plain.
      + apply settled_endvalue. eapply push_value_mode; eauto.
    - apply accepts_of_body; [reflexivity|]. now apply arr_body.
    - apply accepts_of_body; [reflexivity|]. now apply obj_body.
  Qed.

  (* C17: the rendering of a value is JSON equal to the value *)
  Theorem pretty_is_json_nums : forall j,
    json_plain j -> nums_json j -> jdepth j <= max_nesting_depth ->
    decode_next (jrender true j) = DValue (jsort j) [].
  Proof.
    intros j Hpl Hnj Hd. unfold decode_next.
    assert (Hb0 : begin_mode s_init) by (split; [left; reflexivity|reflexivity]).
    destruct (jcont j) eqn:Hc.
    - assert (Hbody : body_ok j).
      { destruct j; try discriminate.
        - apply arr_body. apply Forall_forall. intros; apply accepts_all.
        - apply obj_body. apply Forall_forall. intros; apply accepts_all. }
      destruct (Hbody s_init Hpl Hnj Hb0) as (body & cl & q & pin & Hbb & Hr & Hs & Hdp & Htop & Hrng).
      { cbn [s_depth s_init]. lia. }
      rewrite Hbb. rewrite (scan_run body [cl] s_init q Hr). cbn [scan]. rewrite Hs.
      cbn [close_container s_stack s_init]. rewrite Hrng. reflexivity.
    - destruct (accepts_all j s_init (mkS MEndValue [] 0 [] (Some (jsort j)) false) Hpl Hnj Hb0)
        as (st' & Hr & Hs).
      + cbn [s_depth s_init]. lia.
      + now right.
      + reflexivity.
      + apply scan_more_run in Hr. rewrite Hr. unfold at_eof.
        rewrite (Hs 32 eq_refl). reflexivity.
  Qed.
End Accept.

(* with the missing Num fact as a premise: every plain value *)
Lemma nums_json_of_plain :
  (forall x, f_is_finite x = true -> valid_binary 53 1024 x = true ->
     json_number (format_f x) = true) ->
  forall j, json_plain j -> nums_json j.
Proof.
  intro Hnum. induction j as [| b | f | s | l IH | l IH] using jvalue_ind'; intro H;
    try constructor.
  - inversion H; subst. now apply Hnum.
  - inversion H as [| | | |? Hl|]; subst. rewrite Forall_forall in *. auto.
  - inversion H as [| | | | |? Hl]; subst. rewrite Forall_forall in *.
    intros kv Hkv. apply IH; [exact Hkv|]. now apply (Hl kv Hkv).
Qed.

Theorem pretty_is_json :
  (forall x, f_is_finite x = true -> valid_binary 53 1024 x = true ->
     json_number (format_f x) = true) ->
  forall j, json_plain j -> jdepth j <= max_nesting_depth ->
    decode_next (jrender true j) = DValue (jsort j) [].
Proof.
  intros Hnum j Hp Hd. apply pretty_is_json_nums; auto. now apply nums_json_of_plain.
Qed.

(* ------------------------------------------------------------------ *)
(* jsort is the identity on values with sorted keys                     *)

Lemma bytes_cmp_gt : forall a b, bytes_cmp a b = Lt -> bytes_cmp b a = Gt.
Proof.
  induction a as [|x a IH]; intros [|y b] H; cbn [bytes_cmp] in *; try discriminate; auto.
  rewrite (N.compare_antisym x y). destruct (N.compare x y) eqn:E; cbn [CompOpp]; try discriminate; auto.
Qed.

Lemma assoc_set_snoc : forall (A : Type) k (v : A) f,
  (forall kv, In kv f -> bytes_cmp (fst kv) k = Lt) -> assoc_set k v f = f ++ [(k, v)].
Proof.
  intros A k v f. induction f as [|[k' v'] r IH]; intro H; [reflexivity|].
  cbn [assoc_set app]. rewrite (bytes_cmp_gt k' k (H (k', v') (or_introl eq_refl))).
  rewrite IH; [reflexivity|]. intros kv Hkv. apply H. now right.
Qed.

Lemma fold_ins_sorted : forall l f,
  Sorted.StronglySorted (fun a b : bytes * jvalue => bytes_cmp (fst a) (fst b) = Lt) l ->
  (forall a b, In a f -> In b l -> bytes_cmp (fst a) (fst b) = Lt) ->
  Forall (fun kv => jsort (snd kv) = snd kv) l ->
  fold_left ins_sorted l f = f ++ l.
Proof.
  induction l as [|x r IH]; intros f Hs Hf Hj; [now rewrite app_nil_r|].
  inversion Hs as [|? ? Hsr Hx]; subst. inversion Hj as [|? ? Hjx Hjr]; subst.
  cbn [fold_left]. unfold ins_sorted at 2. rewrite Hjx.
  rewrite assoc_set_snoc by (intros kv Hkv; apply Hf; [exact Hkv|now left]).
  destruct x as [k v]. cbn [fst snd]. rewrite IH; [now rewrite <- app_assoc|exact Hsr| |exact Hjr].
  intros a b Ha Hb. apply in_app_or in Ha. destruct Ha as [Ha|[<-|[]]].
  - apply Hf; [exact Ha|now right].
  - rewrite Forall_forall in Hx. now apply Hx.
Qed.

Theorem jsort_sorted : forall j, keys_sorted j -> jsort j = j.
Proof.
  induction j as [| b | f | s | l IH | l IH] using jvalue_ind'; intro H; try reflexivity.
  - inversion H as [| | | |? Hl|]; subst. rewrite jsort_arr. f_equal.
    clear H. induction l as [|x r IHr]; [reflexivity|].
    inversion IH as [|? ? IHx IHr']; subst. inversion Hl as [|? ? Hx Hr]; subst.
    cbn [map]. rewrite (IHx Hx), (IHr IHr' Hr). reflexivity.
  - inversion H as [| | | | |? Hs Hl]; subst. rewrite jsort_obj. f_equal.
    rewrite fold_ins_sorted; [reflexivity|exact Hs|intros a b []|].
    rewrite Forall_forall in *. intros kv Hkv. apply IH; [exact Hkv|]. now apply Hl.
Qed.

Corollary pretty_is_json_sorted : forall j,
  json_plain j -> nums_json j -> keys_sorted j -> jdepth j <= max_nesting_depth ->
  decode_next (jrender true j) = DValue j [].
Proof.
  intros j Hp Hn Hk Hd. rewrite (pretty_is_json_nums j Hp Hn Hd). now rewrite jsort_sorted.
Qed.

(* ------------------------------------------------------------------ *)
(* from heap values: what print shows for a container document is JSON equal to it *)

Lemma jrender_container : forall j, jcont j = true -> jrender false j = jrender true j.
Proof. intros j H. destruct j; try discriminate; reflexivity. Qed.

Local Close Scope N_scope.
Theorem pretty_container_is_json :
  forall h p v j, doc_at h p v j -> Pos.le p (Sem.Value.next h) ->
    jcont j = true -> json_plain j -> nums_json j -> keys_sorted j ->
    (jdepth j <= max_nesting_depth)%N ->
    exists b, Sem.Value.pretty_string h v = Some b /\ decode_next b = DValue j [].
Proof.
  intros h p v j Hd Hp Hc Hpl Hnj Hk Hdep. exists (jrender true j). split.
  - rewrite <- jrender_container by exact Hc. now apply (Proofs.Pretty.pretty_string_doc h p v j).
  - now apply pretty_is_json_sorted.
Qed.

