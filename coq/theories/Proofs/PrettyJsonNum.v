(* Proofs/PrettyJsonNum.v -- discharges the number side condition of Proofs/PrettyJson.v:
   format_f of a finite double is a JSON number literal, hence pretty_is_json in full.
   The lemmas of the first part (the number DFA on digit strings, the head digit of
   digits_of_Z, render_pos) are COPIED VERBATIM from Json/NumBridge.v (json layer), where they
   are used for format_json, so that this file does not depend on a file that is still
   changing; the proof of format_f_json_number follows the positional branch of
   NumBridge.format_json_is_json_number. *)
From Coq Require Import NArith ZArith List Bool Lia.
From JQ Require Import Base.Bytes Num.F64 Num.F64Proofs Json.JValue Json.Decode Json.Encode Json.JsonProofs.
From JQ Require Import Spec.Pure.
From JQ Require Import Proofs.PrettyJson.
Import ListNotations.
Local Open Scope N_scope.

(* ---- begin copy of Json/NumBridge.v ---- *)

(* ------------------------------------------------------------------ *)
(* The number DFA on digit strings                                      *)

Lemma num_run_app : forall (a b : list N) m,
  num_run m (a ++ b) = match num_run m a with Some m' => num_run m' b | None => None end.
Proof.
  induction a as [|c a IH]; intros b m; cbn [app num_run]; [reflexivity|].
  destruct (num_next m c); [apply IH|reflexivity].
Qed.

Lemma all_digits_cons : forall (c : N) (r : list N), all_digits (c :: r) = true -> is_ascii_digit c = true /\ all_digits r = true.
Proof. intros c r H. unfold all_digits in *. cbn [forallb] in H. now apply andb_true_iff in H. Qed.

Lemma num_run_digits : forall (ds : list N) m, (m = M1 \/ m = MDot0 \/ m = ME0) -> all_digits ds = true ->
  num_run m ds = Some m.
Proof.
  induction ds as [|c r IH]; intros m Hm Hd; [reflexivity|].
  apply all_digits_cons in Hd. destruct Hd as [Hc Hr]. cbn [num_run].
  destruct Hm as [Hm|[Hm|Hm]]; subst m; cbn [num_next]; rewrite Hc; apply IH; auto.
Qed.

Lemma num_run_digits1 : forall (ds : list N) m m', (m = MDot /\ m' = MDot0 \/ m = MESign /\ m' = ME0) ->
  ds <> [] -> all_digits ds = true -> num_run m ds = Some m'.
Proof.
  intros [|c r] m m' Hm Hne Hd; [congruence|].
  apply all_digits_cons in Hd. destruct Hd as [Hc Hr]. cbn [num_run].
  destruct Hm as [[Hm Hm']|[Hm Hm']]; subst m m'; cbn [num_next]; rewrite Hc; apply num_run_digits; auto.
Qed.

Lemma digit19_digit : forall c, is_digit19 c = true -> is_ascii_digit c = true.
Proof. intros c H. unfold is_digit19, is_ascii_digit in *. lia. Qed.

(* after the optional sign: a first digit *)
Lemma num_run_sign_first : forall (neg : bool) (c : N) (r : list N),
  is_ascii_digit c = true ->
  num_run MBeginValue (sign_bytes neg ++ c :: r) = num_run (if c =? 48 then M0 else M1) r.
Proof.
  intros neg c r Hc.
  assert (H45 : (c =? 45) = false) by (unfold is_ascii_digit in Hc; lia).
  assert (H19 : (c =? 48) = false -> is_digit19 c = true) by (unfold is_ascii_digit, is_digit19 in *; lia).
  destruct neg; cbn [sign_bytes app num_run num_next N.eqb Pos.eqb andb];
    rewrite ?H45; cbn [andb]; destruct (c =? 48) eqn:E; try reflexivity; now rewrite H19.
Qed.

(* ------------------------------------------------------------------ *)
(* Decimal digits of a positive number start with a non-zero digit      *)

Lemma ddf_head : forall fuel n acc, 0 < n -> n < 2 ^ N.of_nat fuel ->
  exists c r, dec_digits_fuel fuel n acc = c :: r /\ is_digit19 c = true.
Proof.
  induction fuel as [|fuel IH]; intros n acc Hpos Hlt.
  - cbn in Hlt. lia.
  - cbn [dec_digits_fuel]. destruct (n / 10 =? 0) eqn:E.
    + apply N.eqb_eq in E. assert (Hn : n < 10).
      { destruct (N.lt_ge_cases n 10) as [H|H]; [exact H|].
        assert (1 <= n / 10) by (apply N.div_le_lower_bound; lia). lia. }
      exists (48 + n mod 10), acc. split; [reflexivity|].
      rewrite N.mod_small by exact Hn. unfold is_digit19. lia.
    + apply N.eqb_neq in E. apply IH; [lia|].
      rewrite Nat2N.inj_succ, N.pow_succ_r' in Hlt.
      apply N.div_lt_upper_bound; lia.
Qed.

Lemma digits_of_Z_head : forall z, (0 < z)%Z ->
  exists c r, digits_of_Z z = c :: r /\ is_digit19 c = true.
Proof.
  intros z Hz. unfold digits_of_Z, dec_of_N.
  set (n := Z.to_N z). assert (Hn : 0 < n) by (subst n; lia).
  apply ddf_head; [exact Hn|].
  rewrite Nat2N.inj_succ, N2Nat.id.
  destruct (N.log2_spec n Hn) as [_ H]. exact H.
Qed.

Lemma digits_of_Z_nonpos : forall z, (z <= 0)%Z -> digits_of_Z z = [48].
Proof. intros z Hz. unfold digits_of_Z. replace (Z.to_N z) with 0 by lia. reflexivity. Qed.

(* ------------------------------------------------------------------ *)
(* Positional notation                                                  *)

Lemma zeros_all_digits : forall n, all_digits (zeros n) = true.
Proof. exact zeros_digits. Qed.

Lemma json_number_render_pos : forall (neg : bool) (ds : list N) (p : Z) (c : N) (r : list N),
  ds = c :: r -> is_digit19 c = true -> all_digits ds = true ->
  json_number (sign_bytes neg ++ render_pos ds p) = true.
Proof.
  intros neg ds p c r Hds Hc Hd. unfold json_number, render_pos.
  assert (Hcd : is_ascii_digit c = true) by now apply digit19_digit.
  assert (Hc48 : (c =? 48) = false) by (unfold is_digit19 in Hc; lia).
  assert (Hr : all_digits r = true) by (subst ds; now apply all_digits_cons in Hd).
  destruct (Z.leb_spec 0 p) as [Hp|Hp].
  - subst ds. cbn [app]. rewrite num_run_sign_first by exact Hcd. rewrite Hc48.
    rewrite num_run_digits; [reflexivity|now left|].
    rewrite all_digits_app, Hr. apply zeros_all_digits.
  - destruct (Z.ltb_spec 0 (Z.of_nat (List.length ds) + p)) as [Hip|Hip].
    + remember (Z.to_nat (Z.of_nat (List.length ds) + p)) as n eqn:En.
      assert (Hn : (0 < n < List.length ds)%nat) by lia.
      destruct n as [|n']; [lia|].
      subst ds. cbn [firstn app]. rewrite num_run_sign_first by exact Hcd. rewrite Hc48.
      rewrite num_run_app, num_run_digits; [|now left|now apply all_digits_firstn].
      cbn [num_run num_next]. cbn [is_ascii_digit N.leb N.compare Pos.compare Pos.compare_cont andb N.eqb Pos.eqb].
      assert (Hsk : skipn (S n') (c :: r) <> []).
      { intro Hs. apply (f_equal (@List.length _)) in Hs. rewrite skipn_length in Hs. cbn [List.length] in *. lia. }
      rewrite (num_run_digits1 _ MDot MDot0); [reflexivity|now left|exact Hsk|].
      apply all_digits_skipn. unfold all_digits. cbn [forallb]. rewrite Hcd. exact Hr.
    + cbn [app]. rewrite (num_run_sign_first neg 48) by reflexivity. cbn [N.eqb Pos.eqb].
      cbn [num_run num_next N.eqb Pos.eqb].
      rewrite (num_run_digits1 _ MDot MDot0); [reflexivity|now left| |].
      * subst ds. destruct (zeros _); discriminate.
      * rewrite all_digits_app, zeros_all_digits. exact Hd.
Qed.

(* "0", "0.0...0": the digit string 0 with a non-positive exponent is still a JSON number *)
Lemma json_number_render_pos_zero : forall (neg : bool) (p : Z), (p <= 0)%Z ->
  json_number (sign_bytes neg ++ render_pos [48] p) = true.
Proof.
  intros neg p Hp. unfold json_number, render_pos.
  destruct (Z.leb_spec 0 p) as [H0|H0].
  - replace p with 0%Z by lia. destruct neg; reflexivity.
  - cbn [List.length]. destruct (Z.ltb_spec 0 (Z.of_nat 1 + p)) as [Hip|Hip]; [lia|].
    cbn [app]. rewrite (num_run_sign_first neg 48) by reflexivity. cbn [N.eqb Pos.eqb].
    cbn [num_run num_next N.eqb Pos.eqb].
    rewrite (num_run_digits1 _ MDot MDot0); [reflexivity|now left| |].
    + destruct (zeros _); discriminate.
    + rewrite all_digits_app, zeros_all_digits. reflexivity.
Qed.

(* ------------------------------------------------------------------ *)
(* Exponent notation                                                    *)

Lemma json_number_exp_tail : forall (m : mode) (x : Z), (m = M0 \/ m = M1 \/ m = MDot0) ->
  match num_run m (101 :: (if (x <? 0)%Z then 45 else 43) :: digits_of_Z (Z.abs x)) with
  | Some m' => num_final m'
  | None => false
  end = true.
Proof.
  intros m x Hm.
  assert (H1 : num_next m 101 = Some ME) by (destruct Hm as [Hm|[Hm|Hm]]; subst m; reflexivity).
  assert (H3 : num_run MESign (digits_of_Z (Z.abs x)) = Some ME0).
  { apply (num_run_digits1 _ MESign ME0); [now right|apply digits_of_Z_nonempty|apply digits_of_Z_digits]. }
  destruct (x <? 0)%Z; cbn [num_run]; rewrite H1; cbn [num_next N.eqb Pos.eqb orb]; rewrite H3; reflexivity.
Qed.

Lemma json_number_render_exp : forall (neg : bool) (ds : list N) (p : Z),
  ds <> [] -> all_digits ds = true -> json_number (sign_bytes neg ++ render_exp ds p) = true.
Proof.
  intros neg ds p Hne Hd. unfold json_number, render_exp.
  destruct ds as [|d1 rest]; [congruence|].
  apply all_digits_cons in Hd. destruct Hd as [H1 Hrest].
  destruct rest as [|d2 rest'].
  - rewrite num_run_sign_first by exact H1.
    apply json_number_exp_tail. destruct (d1 =? 48); auto.
  - rewrite num_run_sign_first by exact H1.
    assert (Hdot : forall m, m = M0 \/ m = M1 -> num_next m 46 = Some MDot)
      by (intros m [Hm|Hm]; subst m; reflexivity).
    cbn [num_run]. rewrite Hdot by (destruct (d1 =? 48); auto).
    rewrite num_run_app. rewrite (num_run_digits1 _ MDot MDot0); [|now left|discriminate|exact Hrest].
    apply json_number_exp_tail. auto.
Qed.

(* ------------------------------------------------------------------ *)
(* A candidate whose digits are all zero is never accepted by format_f  *)

Lemma dval_zeros : forall n, dval (48 :: zeros n) 0 = 0%Z.
Proof.
  intro n. pose proof (drun_fst (48 :: zeros n) (0, 0)%Z) as H.
  change (fst (0, 0)%Z) with 0%Z in H. rewrite <- H.
  change (drun (48 :: zeros n) (0, 0)%Z) with (drun (zeros n) (dstep (0, 0)%Z 48)).
  change (dstep (0, 0)%Z 48) with (0, 0)%Z. now rewrite drun_zeros.
Qed.

Lemma parse_zero_candidate : forall (neg : bool) (p : Z), (0 < p)%Z ->
  exists z, parse_float (sign_bytes neg ++ render_pos [48] p) = PFok (S754_zero z).
Proof.
  intros neg p Hp. unfold render_pos. destruct (Z.leb_spec 0 p) as [_|H0]; [|lia].
  assert (Hpl : parse_float ([48] ++ zeros p) = PFok (S754_zero false)).
  { pose proof (parse_float_plain ([48] ++ zeros p) [] false ltac:(discriminate)) as H.
    rewrite !app_nil_r in H. rewrite H; [| |reflexivity|reflexivity].
    - cbn [app]. rewrite dval_zeros. reflexivity.
    - rewrite all_digits_app, zeros_all_digits. reflexivity. }
  destruct neg; cbn [sign_bytes app] in *.
  - rewrite parse_float_sign by reflexivity.
    match goal with |- exists z, pf_neg ?X = _ => replace X with (PFok (S754_zero false)) by (symmetry; exact Hpl) end.
    cbn [pf_neg f_neg SFopp negb]. eauto.
  - eauto.
Qed.

(* ---- end copy ---- *)

(* ------------------------------------------------------------------ *)
(* the Num fact, from Json/v: format_f of a finite double is a JSON number *)

Local Open Scope N_scope.
Lemma format_f_json_number : forall x, f_is_finite x = true -> json_number (format_f x) = true.
Proof.
  intros x Hfin. destruct x as [s|s| |s m e]; try discriminate.
  - destruct s; vm_compute; reflexivity.
  - unfold format_f.
    destruct (pf_is (parse_float (fmt_candidate s m e)) (S754_finite s m e)) eqn:Hacc.
    + unfold fmt_candidate in *. destruct (shortest m e) as [d p].
      destruct (Z_lt_le_dec 0 d) as [Hd|Hd].
      * destruct (digits_of_Z_head d Hd) as (c & r & Hds & Hc).
        eapply json_number_render_pos; [exact Hds|exact Hc|].
        apply F64Proofs.digits_of_Z_digits.
      * rewrite (digits_of_Z_nonpos d Hd) in *.
        destruct (Z_lt_le_dec 0 p) as [Hp|Hp]; [|now apply json_number_render_pos_zero].
        exfalso. destruct (parse_zero_candidate s p Hp) as (z & Hz). rewrite Hz in Hacc.
        cbn [pf_is f_same] in Hacc. discriminate.
    + unfold fmt_exact. destruct (0 <=? e)%Z eqn:He.
      * assert (Hz : (0 < Z.pos m * 2 ^ e)%Z).
        { apply Z.mul_pos_pos; [lia|]. apply Z.pow_pos_nonneg; lia. }
        destruct (digits_of_Z_head _ Hz) as (c & r & Hds & Hc).
        eapply json_number_render_pos; [exact Hds|exact Hc|].
        apply F64Proofs.digits_of_Z_digits.
      * assert (Hz : (0 < Z.pos m * pow5 (- e))%Z).
        { apply Z.mul_pos_pos; [lia|apply F64Proofs.pow5_pos]. }
        destruct (digits_of_Z_head _ Hz) as (c & r & Hds & Hc).
        eapply json_number_render_pos; [exact Hds|exact Hc|].
        apply F64Proofs.digits_of_Z_digits.
Qed.

(* C17, last clause, in full *)
Theorem pretty_is_json_full : forall j,
  json_plain j -> jdepth j <= max_nesting_depth ->
  decode_next (jrender true j) = DValue (jsort j) [].
Proof.
  intros j Hp Hd. apply pretty_is_json; auto. intros x Hf _. now apply format_f_json_number.
Qed.

Lemma nums_json_plain : forall j, json_plain j -> nums_json j.
Proof. apply nums_json_of_plain. intros x Hf _. now apply format_f_json_number. Qed.

Theorem pretty_container_is_json_full :
  forall h p v j, doc_at h p v j -> Pos.le p (Sem.Value.next h) ->
    jcont j = true -> json_plain j -> keys_sorted j -> jdepth j <= max_nesting_depth ->
    exists b, Sem.Value.pretty_string h v = Some b /\ decode_next b = DValue j [].
Proof.
  intros h p v j Hd Hp Hc Hpl Hk Hdep.
  eapply pretty_container_is_json; eauto. now apply nums_json_plain.
Qed.
