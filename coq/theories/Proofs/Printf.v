(* Proofs for C18 (printf) and the width part of C20: the model's [printf_format]
   (Sem/Natives.v) refines the grammar-directed [printf_spec] (Spec/PrintfSpec.v). *)
From Coq Require Import Lia ZArith ZifyN ZifyNat ZifyBool.
From JQ Require Import Base.Bytes Num.F64 Syntax.Lexer Gen.Generated Sem.Value Sem.Natives.
From JQ Require Import Spec.PrintfSpec.
Open Scope Z_scope.

(* the only fact about the generated limit that the refinement needs: ParseInt's own
   range check is subsumed by it *)
Lemma limit_fits_int64 : printf_width_limit <= 9223372036854775807.
Proof. vm_compute. discriminate. Qed.
Lemma limit_nonneg : 0 <= printf_width_limit.
Proof. vm_compute. discriminate. Qed.

Local Opaque printf_width_limit.

(* ================================================================ padding *)

Lemma repeat_byte_length : forall p n, length (repeat_byte p n) = n.
Proof. induction n as [|n IH]; simpl; [reflexivity|now rewrite IH]. Qed.

Lemma repeat_byte_all : forall p n, Forall (eq p) (repeat_byte p n).
Proof. induction n as [|n IH]; simpl; constructor; auto. Qed.

Lemma pad_to_spec : forall w p s, pad_to w p s = pad_spec w p s.
Proof.
  intros w p s. unfold pad_to, pad_spec.
  set (n := length s).
  destruct (0 <=? w) eqn:Ew.
  - destruct ((0 <? w) && (Z.of_nat n <? w))%bool eqn:E.
    + f_equal. f_equal. lia.
    + replace ((w <? 0) && (Z.of_nat n <? - w))%bool with false by lia.
      replace (Z.to_nat (Z.abs w) - n)%nat with 0%nat by lia. reflexivity.
  - replace ((0 <? w) && (Z.of_nat n <? w))%bool with false by lia.
    destruct ((w <? 0) && (Z.of_nat n <? - w))%bool eqn:E.
    + f_equal. f_equal. lia.
    + replace (Z.to_nat (Z.abs w) - n)%nat with 0%nat by lia. simpl. now rewrite app_nil_r.
Qed.

Lemma pad_spec_length : forall w p s,
  length (pad_spec w p s) = Nat.max (Z.to_nat (Z.abs w)) (length s).
Proof.
  intros w p s. unfold pad_spec.
  destruct (0 <=? w); rewrite app_length, repeat_byte_length; lia.
Qed.

Lemma pad_spec_left : forall w p s, 0 <= w ->
  pad_spec w p s = repeat_byte p (Z.to_nat w - length s) ++ s.
Proof.
  intros w p s Hw. unfold pad_spec. replace (0 <=? w) with true by lia.
  now rewrite Z.abs_eq by lia.
Qed.

Lemma pad_spec_right : forall w p s, w <= 0 ->
  pad_spec w p s = s ++ repeat_byte p (Z.to_nat (- w) - length s).
Proof.
  intros w p s Hw. unfold pad_spec.
  destruct (0 <=? w) eqn:E.
  - assert (w = 0) by lia. subst w. simpl. now rewrite app_nil_r.
  - now rewrite Z.abs_neq by lia.
Qed.

Lemma pad_spec_zero : forall p s, pad_spec 0 p s = s.
Proof. intros p s. reflexivity. Qed.

(* ================================================================ the grammar *)

Lemma latin1_is_digit_eq : latin1_is_digit = is_digit.
Proof. reflexivity. Qed.

Lemma take_while_spec : forall (p : byte -> bool) s a b,
  take_while p s = (a, b) ->
  s = a ++ b /\ forallb p a = true /\ match b with [] => True | d :: _ => p d = false end.
Proof.
  intros p s. induction s as [|c s IH]; intros a b H; simpl in H.
  - inversion H; subst. auto.
  - destruct (p c) eqn:Ec.
    + destruct (take_while p s) as [a' b'] eqn:Et. inversion H; subst.
      destruct (IH a' b eq_refl) as (H1 & H2 & H3). subst s. simpl. rewrite Ec, H2. auto.
    + inversion H; subst. simpl. auto.
Qed.

Lemma parse_nil : parse_format [] = Some [].
Proof. reflexivity. Qed.

Lemma parse_lit : forall b rest, is_percent b = false ->
  parse_format (b :: rest) = option_map (cons (Lit b)) (parse_format rest).
Proof. intros b rest H. simpl. now rewrite H. Qed.

Lemma parse_pct : forall rest, parse_format (37%N :: rest) = directive parse_format [] rest.
Proof. reflexivity. Qed.

Lemma directive_done : forall k wtxt d rest, continues_width wtxt d = false ->
  directive k wtxt (d :: rest) =
  match make_dir wtxt d, k rest with
  | Some it, Some its => Some (it :: its)
  | _, _ => None
  end.
Proof. intros k wtxt d rest H. simpl. now rewrite H. Qed.

Lemma directive_digits : forall k ds wtxt s, wtxt <> [] -> forallb is_digit ds = true ->
  directive k wtxt (ds ++ s) = directive k (wtxt ++ ds) s.
Proof.
  intros k ds. induction ds as [|c ds IH]; intros wtxt s Hne Hd.
  - now rewrite app_nil_r.
  - simpl in Hd. apply andb_true_iff in Hd. destruct Hd as [Hc Hd].
    simpl. assert (Hcw : continues_width wtxt c = true).
    { destruct wtxt as [|x xs]; [congruence|exact Hc]. }
    rewrite Hcw. rewrite IH; [|now destruct wtxt|exact Hd].
    now rewrite <- app_assoc.
Qed.

Lemma directive_width_text : forall k wtxt s, is_width_text wtxt = true ->
  directive k [] (wtxt ++ s) = directive k wtxt s.
Proof.
  intros k wtxt s H. destruct wtxt as [|c ds]; [reflexivity|].
  simpl in H. apply andb_true_iff in H. destruct H as [Hc Hd].
  change ((c :: ds) ++ s) with (c :: (ds ++ s)).
  cbn [directive continues_width]. rewrite Hc.
  now rewrite directive_digits by (try discriminate; assumption).
Qed.

(* a complete directive *)
Lemma parse_directive : forall wtxt d rest,
  is_width_text wtxt = true -> continues_width wtxt d = false ->
  parse_format (37%N :: wtxt ++ d :: rest) =
  match make_dir wtxt d, parse_format rest with
  | Some it, Some its => Some (it :: its)
  | _, _ => None
  end.
Proof.
  intros wtxt d rest Hw Hd. rewrite parse_pct, directive_width_text by exact Hw.
  now apply directive_done.
Qed.

(* the format ends inside a directive *)
Lemma parse_dangling : forall wtxt, is_width_text wtxt = true ->
  parse_format (37%N :: wtxt) = None.
Proof.
  intros wtxt Hw. rewrite parse_pct.
  pose proof (directive_width_text parse_format wtxt [] Hw) as H.
  rewrite app_nil_r in H. rewrite H. reflexivity.
Qed.

(* ================================================================ the width number *)

Lemma digits_value_fold : forall ds acc, forallb is_digit ds = true ->
  digits_value ds acc = fold_left (fun a d => a * 10 + digit_val d) ds acc.
Proof.
  induction ds as [|d ds IH]; intros acc H; simpl; [reflexivity|].
  simpl in H. apply andb_true_iff in H. destruct H as [Hd Hds].
  rewrite IH by exact Hds. f_equal. unfold digit_val. unfold is_digit in Hd. lia.
Qed.

Lemma range_check_eq : forall w,
  (Z.ltb printf_width_limit w || Z.ltb w (- printf_width_limit))%bool = negb (width_in_range w).
Proof. intro w. unfold width_in_range. lia. Qed.

(* ParseInt followed by the limit check = the denoted number followed by the range check *)
Lemma parse_width_spec : forall c ds, is_width_text (c :: ds) = true ->
  match parse_width c ds with
  | None => None
  | Some w => if (Z.ltb printf_width_limit w || Z.ltb w (- printf_width_limit))%bool
              then None else Some w
  end =
  match width_of (c :: ds) with
  | None => None
  | Some w => if width_in_range w then Some w else None
  end.
Proof.
  intros c ds H. simpl in H. apply andb_true_iff in H. destruct H as [Hc Hds].
  pose proof limit_fits_int64 as HL. pose proof limit_nonneg as HL0.
  unfold parse_width, width_of, is_minus. cbv zeta.
  destruct (N.eqb c 45) eqn:Ec.
  - destruct ds as [|d ds']; [reflexivity|].
    rewrite digits_value_fold by exact Hds. change (fold_left _ (d :: ds') 0) with (decimal (d :: ds')).
    set (v := decimal (d :: ds')).
    destruct (Z.ltb (- v) (-9223372036854775808)) eqn:E.
    + unfold width_in_range. replace (Z.abs (- v) <=? printf_width_limit) with false by lia.
      reflexivity.
    + rewrite range_check_eq. now destruct (width_in_range (- v)).
  - assert (Hcd : is_digit c = true).
    { unfold is_minus in Hc. rewrite Ec, orb_false_r in Hc. exact Hc. }
    rewrite digits_value_fold by (simpl; now rewrite Hcd, Hds).
    change (fold_left _ (c :: ds) 0) with (decimal (c :: ds)). set (v := decimal (c :: ds)).
    destruct (Z.ltb 9223372036854775807 v) eqn:E.
    + unfold width_in_range. replace (Z.abs v <=? printf_width_limit) with false by lia.
      reflexivity.
    + rewrite range_check_eq. now destruct (width_in_range v).
Qed.

(* ================================================================ the model, unfolded *)

(* the [let spec := ...] block of printf_loop, verbatim *)
Definition model_block (c : byte) (rest1 : bytes) : option (Z * byte * byte * bytes) :=
  if (latin1_is_digit c || N.eqb c 45)%bool then
    let '(ds, rest2) := take_while latin1_is_digit rest1 in
    match parse_width c ds with
    | None => None
    | Some w =>
      if (Z.ltb printf_width_limit w || Z.ltb w (- printf_width_limit))%bool then None
      else
        match rest2 with
        | [] => None
        | d :: rest3 => Some (w, (if N.eqb c 48 then 48%N else 32%N), d, rest3)
        end
    end
  else Some (0%Z, 32%N, c, rest1).

(* the dispatch on the directive letter, verbatim *)
Definition model_dispatch (fu : nat) (h : heap) (w : Z) (pad d : byte) (rest3 : bytes)
    (args : list value) (acc : bytes) : fmt_res :=
  if N.eqb d 37 then printf_loop fu h rest3 args (acc ++ [37%N])
  else if N.eqb d 115 then
    match args with
    | VStr s :: args' => printf_loop fu h rest3 args' (acc ++ pad_to w pad s)
    | _ => FmtErr
    end
  else if N.eqb d 102 then
    match args with
    | VNum x :: args' => printf_loop fu h rest3 args' (acc ++ pad_to w pad (format_f x))
    | _ => FmtErr
    end
  else if N.eqb d 118 then
    match args with
    | v :: args' =>
      match pretty_string h v with
      | Some s => printf_loop fu h rest3 args' (acc ++ pad_to w pad s)
      | None => FmtFuel
      end
    | [] => FmtErr
    end
  else FmtErr.

Lemma loop_0 : forall h fmt args acc, printf_loop 0 h fmt args acc = FmtFuel.
Proof. reflexivity. Qed.
Lemma loop_nil : forall fu h args acc, printf_loop (S fu) h [] args acc = FmtOut acc.
Proof. reflexivity. Qed.
Lemma loop_lit : forall fu h b rest args acc, N.eqb b 37 = false ->
  printf_loop (S fu) h (b :: rest) args acc = printf_loop fu h rest args (acc ++ [b]).
Proof.
  intros fu h b rest args acc H.
  change (printf_loop (S fu) h (b :: rest) args acc)
    with (if negb (N.eqb b 37) then printf_loop fu h rest args (acc ++ [b])
          else match rest with
               | [] => FmtErr
               | c :: rest1 =>
                 match model_block c rest1 with
                 | None => FmtErr
                 | Some (w, pad, d, rest3) => model_dispatch fu h w pad d rest3 args acc
                 end
               end).
  now rewrite H.
Qed.
Lemma loop_pct_end : forall fu h args acc, printf_loop (S fu) h [37%N] args acc = FmtErr.
Proof. reflexivity. Qed.
Lemma loop_pct : forall fu h c rest1 args acc,
  printf_loop (S fu) h (37%N :: c :: rest1) args acc =
  match model_block c rest1 with
  | None => FmtErr
  | Some (w, pad, d, rest3) => model_dispatch fu h w pad d rest3 args acc
  end.
Proof. reflexivity. Qed.

(* what the block computes, in the vocabulary of the specification *)
Lemma model_block_spec : forall c rest1,
  match model_block c rest1 with
  | None => parse_format (37%N :: c :: rest1) = None
  | Some (w, pad, d, rest3) =>
    exists wtxt, c :: rest1 = wtxt ++ d :: rest3 /\
                 is_width_text wtxt = true /\ continues_width wtxt d = false /\
                 width_of wtxt = Some w /\ width_in_range w = true /\ pad = pad_of wtxt
  end.
Proof.
  intros c rest1. unfold model_block. rewrite latin1_is_digit_eq.
  destruct (is_digit c || N.eqb c 45)%bool eqn:Ec.
  - destruct (take_while is_digit rest1) as [ds rest2] eqn:Et.
    destruct (take_while_spec _ _ _ _ Et) as (Hs & Hds & Hnext).
    assert (Hw : is_width_text (c :: ds) = true).
    { simpl. unfold is_minus. now rewrite Ec, Hds. }
    pose proof (parse_width_spec c ds Hw) as HP.
    (* [byte] vs [N] in the implicit argument of [cons] *)
    change (width_of _) with (width_of (c :: ds)) in HP.
    assert (Hfail : width_of (c :: ds) = None \/
                    (exists w, width_of (c :: ds) = Some w /\ width_in_range w = false) ->
                    parse_format (37%N :: c :: rest1) = None).
    { intros Hbad. subst rest1. destruct rest2 as [|d rest3].
      - rewrite app_nil_r. now apply parse_dangling.
      - change (37%N :: c :: ds ++ d :: rest3) with (37%N :: (c :: ds) ++ d :: rest3).
        rewrite parse_directive; [|exact Hw|exact Hnext].
        unfold make_dir. destruct Hbad as [Hb|(w & Hb & Hr)]; rewrite Hb; [reflexivity|].
        destruct (kind_of d); [now rewrite Hr|reflexivity]. }
    assert (Hbad : parse_width c ds = None \/
                   (exists w, parse_width c ds = Some w /\
                      (Z.ltb printf_width_limit w || Z.ltb w (- printf_width_limit))%bool = true) ->
                   parse_format (37%N :: c :: rest1) = None).
    { intros Hb. apply Hfail. remember (width_of (c :: ds)) as ow eqn:Ew.
      destruct ow as [w'|]; [|now left]. right. exists w'. split; [reflexivity|].
      destruct (width_in_range w') eqn:Er; [|reflexivity]. exfalso.
      try rewrite Er in HP.
      destruct Hb as [Hb|(w & Hb & Hf)]; rewrite Hb in HP; cbv beta iota in HP; [discriminate|].
      rewrite Hf in HP. discriminate. }
    destruct (parse_width c ds) as [w|] eqn:Epw; [|apply Hbad; now left].
    destruct (Z.ltb printf_width_limit w || Z.ltb w (- printf_width_limit))%bool eqn:Ef;
      [apply Hbad; right; now exists w|].
    remember (width_of (c :: ds)) as ow eqn:Ew.
    destruct ow as [w'|]; [|discriminate].
    destruct (width_in_range w') eqn:Er; try rewrite Er in HP; [|discriminate].
    inversion HP; subst w'.
    destruct rest2 as [|d rest3].
    + subst rest1. rewrite app_nil_r. now apply parse_dangling.
    + exists (c :: ds). subst rest1. repeat split; auto.
  - exists []. apply orb_false_iff in Ec. destruct Ec as [E1 E2].
    repeat split; auto.
    simpl. unfold is_minus. now rewrite E1, E2.
Qed.

(* ================================================================ printf_spec, equations *)

Lemma spec_nil : forall h args, printf_spec h [] args = Some [].
Proof. reflexivity. Qed.

Lemma spec_lit : forall h b rest args, is_percent b = false ->
  printf_spec h (b :: rest) args = option_map (cons b) (printf_spec h rest args).
Proof.
  intros h b rest args H. unfold printf_spec. rewrite parse_lit by exact H.
  now destruct (parse_format rest).
Qed.

Lemma spec_parse_none : forall h fmt args, parse_format fmt = None -> printf_spec h fmt args = None.
Proof. intros h fmt args H. unfold printf_spec. now rewrite H. Qed.

(* a directive, by kind *)
Lemma spec_dir_bad : forall h wtxt d rest args,
  is_width_text wtxt = true -> continues_width wtxt d = false ->
  make_dir wtxt d = None ->
  printf_spec h (37%N :: wtxt ++ d :: rest) args = None.
Proof.
  intros h wtxt d rest args Hw Hd Hm. apply spec_parse_none.
  rewrite parse_directive by assumption. now rewrite Hm.
Qed.

Lemma spec_dir_percent : forall h wtxt d rest args w p,
  is_width_text wtxt = true -> continues_width wtxt d = false ->
  make_dir wtxt d = Some (Dir w p DPercent) ->
  printf_spec h (37%N :: wtxt ++ d :: rest) args = option_map (cons 37%N) (printf_spec h rest args).
Proof.
  intros h wtxt d rest args w p Hw Hd Hm. unfold printf_spec.
  rewrite parse_directive by assumption. rewrite Hm.
  now destruct (parse_format rest).
Qed.

Lemma spec_dir_arg : forall h wtxt d rest args w p k,
  is_width_text wtxt = true -> continues_width wtxt d = false ->
  make_dir wtxt d = Some (Dir w p k) -> k <> DPercent ->
  printf_spec h (37%N :: wtxt ++ d :: rest) args =
  match args with
  | [] => None
  | v :: args' =>
    match render_arg h k v with
    | None => None
    | Some s => option_map (app (pad_spec w p s)) (printf_spec h rest args')
    end
  end.
Proof.
  intros h wtxt d rest args w p k Hw Hd Hm Hk. unfold printf_spec.
  rewrite parse_directive by assumption. rewrite Hm.
  destruct (parse_format rest) as [its|].
  - destruct k; try congruence; cbn [render_items];
      (destruct args as [|v args']; [reflexivity|]);
      destruct (render_arg h _ v); try reflexivity;
      now destruct (render_items h its args').
  - destruct args as [|v args']; [reflexivity|]. now destruct (render_arg h k v).
Qed.

Lemma make_dir_of : forall wtxt d w,
  width_of wtxt = Some w -> width_in_range w = true ->
  make_dir wtxt d = match kind_of d with
                    | Some k => Some (Dir w (pad_of wtxt) k)
                    | None => None
                    end.
Proof. intros wtxt d w Hw Hr. unfold make_dir. rewrite Hw. destruct (kind_of d); [now rewrite Hr|reflexivity]. Qed.

(* ================================================================ the refinement *)

(* how a result of the loop started with accumulator [acc] relates to the specified text *)
Definition agrees (h : heap) (args : list value) (acc : bytes) (r : fmt_res) (spec : option bytes) : Prop :=
  match r with
  | FmtOut b => exists out, spec = Some out /\ b = acc ++ out
  | FmtErr => spec = None
  | FmtFuel => spec = None /\ exists v, In v args /\ pretty_string h v = None
  end.

Lemma agrees_step : forall h args args' acc x r spec,
  incl args' args ->
  agrees h args' (acc ++ x) r spec ->
  agrees h args acc r (option_map (app x) spec).
Proof.
  intros h args args' acc x r spec Hi H. destruct r as [b| |]; simpl in *.
  - destruct H as (out & Hs & Hb). exists (x ++ out). subst. simpl. now rewrite app_assoc.
  - now subst.
  - destruct H as (Hs & v & Hv & Hp). subst spec. split; [reflexivity|]. exists v. auto.
Qed.

(* [byte] is a name for [N]; make the implicit arguments of cons/app/length uniform *)
Ltac nb := unfold byte, bytes in *.

Lemma loop_agrees : forall h fuel fmt args acc, (length fmt < fuel)%nat ->
  agrees h args acc (printf_loop fuel h fmt args acc) (printf_spec h fmt args).
Proof.
  intros h fuel. induction fuel as [|fu IH]; intros fmt args acc Hlen; [lia|].
  destruct fmt as [|b rest].
  - rewrite loop_nil, spec_nil. simpl. exists []. now rewrite app_nil_r.
  - simpl in Hlen. destruct (N.eqb b 37) eqn:Eb.
    + apply N.eqb_eq in Eb. subst b.
      destruct rest as [|c rest1]; [rewrite loop_pct_end; reflexivity|].
      rewrite loop_pct. pose proof (model_block_spec c rest1) as HB.
      destruct (model_block c rest1) as [[[[w pad] d] rest3]|].
      2:{ simpl. now apply spec_parse_none. }
      destruct HB as (wtxt & Hsplit & Hwt & Hcw & Hwo & Hwr & Hpad).
      set (tail := c :: rest1) in *.
      assert (Htail : tail = wtxt ++ d :: rest3) by exact Hsplit.
      clearbody tail. clear Hsplit. subst tail.
      assert (Hlen3 : (length rest3 < fu)%nat).
      { rewrite app_length in Hlen. simpl in Hlen. unfold byte, bytes in *. lia. }
      pose proof (make_dir_of wtxt d w Hwo Hwr) as Hmk. rewrite <- Hpad in Hmk.
      unfold model_dispatch, kind_of in *.
      destruct (N.eqb d 115) eqn:E115; [|destruct (N.eqb d 102) eqn:E102;
        [|destruct (N.eqb d 118) eqn:E118; [|destruct (N.eqb d 37) eqn:E37]]].
      * (* %s *)
        replace (N.eqb d 37) with false by (apply N.eqb_eq in E115; subst d; reflexivity).
        assert (HS := spec_dir_arg h wtxt d rest3 args w pad DS Hwt Hcw Hmk ltac:(discriminate)).
        nb. rewrite HS. clear HS.
        destruct args as [|v args']; [reflexivity|].
        destruct v; try reflexivity. cbn [render_arg]. rewrite pad_to_spec.
        eapply agrees_step; [|apply IH; exact Hlen3]. apply incl_tl, incl_refl.
      * (* %f *)
        replace (N.eqb d 37) with false by (apply N.eqb_eq in E102; subst d; reflexivity).
        assert (HS := spec_dir_arg h wtxt d rest3 args w pad DF Hwt Hcw Hmk ltac:(discriminate)).
        nb. rewrite HS. clear HS.
        destruct args as [|v args']; [reflexivity|].
        destruct v; try reflexivity. cbn [render_arg]. rewrite pad_to_spec.
        eapply agrees_step; [|apply IH; exact Hlen3]. apply incl_tl, incl_refl.
      * (* %v *)
        replace (N.eqb d 37) with false by (apply N.eqb_eq in E118; subst d; reflexivity).
        assert (HS := spec_dir_arg h wtxt d rest3 args w pad DV Hwt Hcw Hmk ltac:(discriminate)).
        nb. rewrite HS. clear HS.
        destruct args as [|v args']; [reflexivity|].
        cbn [render_arg]. destruct (pretty_string h v) as [s|] eqn:Ep.
        -- rewrite pad_to_spec.
           eapply agrees_step; [|apply IH; exact Hlen3]. apply incl_tl, incl_refl.
        -- simpl. split; [reflexivity|]. exists v. split; [now left|exact Ep].
      * (* %% *)
        assert (HS := spec_dir_percent h wtxt d rest3 args w pad Hwt Hcw Hmk).
        nb. rewrite HS. clear HS.
        change (option_map (cons 37%N) (printf_spec h rest3 args))
          with (option_map (app [37%N]) (printf_spec h rest3 args)).
        eapply agrees_step; [|apply IH; exact Hlen3]. apply incl_refl.
      * (* unknown letter *)
        simpl. apply (spec_dir_bad h wtxt d rest3 args Hwt Hcw Hmk).
    + rewrite loop_lit by exact Eb. rewrite spec_lit by exact Eb.
      change (option_map (cons b) (printf_spec h rest args))
        with (option_map (app [b]) (printf_spec h rest args)).
      eapply agrees_step; [|apply IH; lia]. apply incl_refl.
Qed.

(* The refinement, without any hypothesis: the internal fuel [S (length fmt)] always
   suffices, and the only way to [FmtFuel] is [pretty_string] running out of fuel on an
   argument under %v (in which case the specification, which reads a failing
   pretty_string as an unusable argument, says "error"). *)
Theorem printf_refines_spec_gen : forall h fmt args,
  match printf_format h fmt args with
  | FmtFuel => printf_spec h fmt args = None /\
               exists v, In v args /\ pretty_string h v = None
  | r => r = outcome_of (printf_spec h fmt args)
  end.
Proof.
  intros h fmt args. unfold printf_format.
  pose proof (loop_agrees h (S (length fmt)) fmt args [] ltac:(lia)) as H.
  destruct (printf_loop (S (length fmt)) h fmt args []) as [b| |]; simpl in H.
  - destruct H as (out & Hs & Hb). rewrite Hs, Hb. reflexivity.
  - now rewrite H.
  - exact H.
Qed.

Theorem printf_refines_spec : forall h fmt args,
  Forall (fun v => pretty_string h v <> None) args ->
  printf_format h fmt args = outcome_of (printf_spec h fmt args).
Proof.
  intros h fmt args Hall. pose proof (printf_refines_spec_gen h fmt args) as H.
  destruct (printf_format h fmt args) as [b| |]; try exact H.
  destruct H as (_ & v & Hv & Hp). rewrite Forall_forall in Hall. now elim (Hall v Hv).
Qed.

(* a specified output is always produced: no hypothesis on pretty_string needed *)
Theorem printf_spec_some : forall h fmt args b,
  printf_spec h fmt args = Some b -> printf_format h fmt args = FmtOut b.
Proof.
  intros h fmt args b Hs. pose proof (printf_refines_spec_gen h fmt args) as H.
  rewrite Hs in H. destruct (printf_format h fmt args) as [b'| |]; try exact H.
  destruct H as [H _]. discriminate.
Qed.

Theorem printf_out_iff : forall h fmt args b,
  printf_format h fmt args = FmtOut b <-> printf_spec h fmt args = Some b.
Proof.
  intros h fmt args b. split; [|apply printf_spec_some].
  intros Hm. pose proof (printf_refines_spec_gen h fmt args) as H. rewrite Hm in H.
  destruct (printf_spec h fmt args) as [b'|]; simpl in H; [now inversion H|discriminate].
Qed.

Theorem printf_spec_none : forall h fmt args,
  printf_spec h fmt args = None -> forall b, printf_format h fmt args <> FmtOut b.
Proof. intros h fmt args Hs b Hm. apply printf_out_iff in Hm. congruence. Qed.

(* ================================================================ induction along the grammar *)

Lemma fmt_cases : forall fmt : bytes,
  fmt = [] \/
  (exists b rest, fmt = b :: rest /\ is_percent b = false) \/
  (exists wtxt, fmt = 37%N :: wtxt /\ is_width_text wtxt = true) \/
  (exists wtxt d rest, fmt = 37%N :: wtxt ++ d :: rest /\
                       is_width_text wtxt = true /\ continues_width wtxt d = false).
Proof.
  intros [|b rest]; [now left|right].
  destruct (is_percent b) eqn:Eb; [right|left; now exists b, rest].
  apply N.eqb_eq in Eb. subst b.
  destruct rest as [|c rest1]; [left; now exists []|].
  destruct (is_digit c || is_minus c)%bool eqn:Ec.
  - destruct (take_while is_digit rest1) as [ds rest2] eqn:Et.
    destruct (take_while_spec _ _ _ _ Et) as (Hs & Hds & Hnext). subst rest1.
    assert (Hw : is_width_text (c :: ds) = true) by (simpl; now rewrite Ec, Hds).
    destruct rest2 as [|d rest3].
    + left. exists (c :: ds). now rewrite app_nil_r.
    + right. exists (c :: ds), d, rest3. auto.
  - right. exists [], c, rest1. auto.
Qed.

Lemma parse_ind : forall P : bytes -> Prop,
  P [] ->
  (forall b rest, is_percent b = false -> P rest -> P (b :: rest)) ->
  (forall wtxt, is_width_text wtxt = true -> P (37%N :: wtxt)) ->
  (forall wtxt d rest, is_width_text wtxt = true -> continues_width wtxt d = false ->
                       P rest -> P (37%N :: wtxt ++ d :: rest)) ->
  forall fmt, P fmt.
Proof.
  intros P Hnil Hlit Hdang Hdir fmt.
  remember (length fmt) as n eqn:Hn. revert fmt Hn.
  induction n as [n IH] using lt_wf_ind. intros fmt Hn.
  destruct (fmt_cases fmt) as [H|[(b & rest & H & Hb)|[(wtxt & H & Hw)|(wtxt & d & rest & H & Hw & Hd)]]];
    subst fmt.
  - exact Hnil.
  - apply Hlit; [exact Hb|]. apply (IH (length rest)); [simpl in Hn; lia|reflexivity].
  - now apply Hdang.
  - apply Hdir; auto. apply (IH (length rest)); [|reflexivity].
    simpl in Hn. rewrite app_length in Hn. simpl in Hn. lia.
Qed.

(* ================================================================ concatenation *)

Lemma parse_app : forall a b ia, parse_format a = Some ia ->
  parse_format (a ++ b) = option_map (app ia) (parse_format b).
Proof.
  intros a b. induction a as [|c rest Hc IH|wtxt Hw|wtxt d rest Hw Hd IH] using parse_ind;
    intros ia Ha.
  - inversion Ha; subst. simpl. now destruct (parse_format b).
  - rewrite parse_lit in Ha by exact Hc.
    change ((c :: rest) ++ b) with (c :: (rest ++ b)). rewrite parse_lit by exact Hc.
    destruct (parse_format rest) as [ir|]; [|discriminate]. inversion Ha; subst.
    rewrite (IH ir eq_refl). now destruct (parse_format b).
  - rewrite parse_dangling in Ha by exact Hw. discriminate.
  - rewrite parse_directive in Ha by assumption.
    replace ((37%N :: wtxt ++ d :: rest) ++ b) with (37%N :: wtxt ++ d :: (rest ++ b))
      by (simpl; now rewrite <- app_assoc).
    rewrite parse_directive by assumption.
    destruct (make_dir wtxt d) as [it|]; [|discriminate].
    destruct (parse_format rest) as [ir|]; [|discriminate]. inversion Ha; subst.
    rewrite (IH ir eq_refl). now destruct (parse_format b).
Qed.

Lemma render_app : forall h ia ib args,
  render_items h (ia ++ ib) args =
  match render_items h ia args with
  | None => None
  | Some ra => option_map (app ra) (render_items h ib (skipn (arity ia) args))
  end.
Proof.
  intros h ia ib. induction ia as [|it ia IH]; intros args.
  - simpl. now destruct (render_items h ib args).
  - destruct it as [b|w p k].
    + simpl. rewrite IH. destruct (render_items h ia args); [|reflexivity].
      simpl. now destruct (render_items h ib _).
    + destruct k;
        try (simpl; rewrite IH; destruct (render_items h ia args); [|reflexivity];
             simpl; now destruct (render_items h ib _));
        (cbn [app render_items arity fold_right consumes];
         destruct args as [|v args']; [reflexivity|];
         destruct (render_arg h _ v); [|reflexivity];
         rewrite IH; destruct (render_items h ia args'); [|reflexivity];
         cbn [Nat.add skipn]; fold (arity ia);
         destruct (render_items h ib _); [|reflexivity]; simpl; now rewrite app_assoc).
Qed.

(* the output of a concatenated format is the concatenation of the outputs, the second
   part continuing with the arguments the first part has not consumed *)
Lemma spec_app : forall h a b args ia ra,
  parse_format a = Some ia -> render_items h ia args = Some ra ->
  printf_spec h (a ++ b) args = option_map (app ra) (printf_spec h b (skipn (arity ia) args)).
Proof.
  intros h a b args ia ra Ha Hr. unfold printf_spec. rewrite (parse_app a b ia Ha).
  destruct (parse_format b) as [ib|]; [|reflexivity]. simpl. now rewrite render_app, Hr.
Qed.

(* a format without '%' is written as it is *)
Lemma spec_no_percent : forall h fmt args,
  forallb (fun b => negb (is_percent b)) fmt = true -> printf_spec h fmt args = Some fmt.
Proof.
  intros h fmt args. induction fmt as [|b rest IH]; intros H; [reflexivity|].
  simpl in H. apply andb_true_iff in H. destruct H as [Hb Hr].
  rewrite spec_lit by (now destruct (is_percent b)). now rewrite IH.
Qed.

(* ================================================================ malformed formats *)

Lemma kind_of_some_iff : forall d,
  kind_of d = None <-> (d <> 115 /\ d <> 102 /\ d <> 118 /\ d <> 37)%N.
Proof.
  intro d. unfold kind_of.
  destruct (N.eqb d 115) eqn:E1; [apply N.eqb_eq in E1; split; [discriminate|tauto]|].
  destruct (N.eqb d 102) eqn:E2; [apply N.eqb_eq in E2; split; [discriminate|tauto]|].
  destruct (N.eqb d 118) eqn:E3; [apply N.eqb_eq in E3; split; [discriminate|tauto]|].
  destruct (N.eqb d 37) eqn:E4; [apply N.eqb_eq in E4; split; [discriminate|tauto]|].
  apply N.eqb_neq in E1, E2, E3, E4. tauto.
Qed.

(* a directive letter never continues a width *)
Lemma kind_not_width : forall wtxt d k, kind_of d = Some k -> continues_width wtxt d = false.
Proof.
  intros wtxt d k H. unfold kind_of in H.
  assert (Hd : (d = 115 \/ d = 102 \/ d = 118 \/ d = 37)%N).
  { destruct (N.eqb d 115) eqn:E1; [apply N.eqb_eq in E1; tauto|].
    destruct (N.eqb d 102) eqn:E2; [apply N.eqb_eq in E2; tauto|].
    destruct (N.eqb d 118) eqn:E3; [apply N.eqb_eq in E3; tauto|].
    destruct (N.eqb d 37) eqn:E4; [apply N.eqb_eq in E4; tauto|discriminate]. }
  destruct wtxt; destruct Hd as [Hd|[Hd|[Hd|Hd]]]; subst d; reflexivity.
Qed.

(* anywhere in a format (after a well-formed prefix): a '%' or a width at the very end *)
Lemma dangling_anywhere : forall pre ipre wtxt,
  parse_format pre = Some ipre -> is_width_text wtxt = true ->
  parse_format (pre ++ 37%N :: wtxt) = None.
Proof.
  intros pre ipre wtxt Hp Hw. rewrite (parse_app _ _ _ Hp).
  now rewrite parse_dangling by exact Hw.
Qed.

Lemma bad_directive_anywhere : forall pre ipre wtxt d rest,
  parse_format pre = Some ipre -> is_width_text wtxt = true -> continues_width wtxt d = false ->
  make_dir wtxt d = None ->
  parse_format (pre ++ 37%N :: wtxt ++ d :: rest) = None.
Proof.
  intros pre ipre wtxt d rest Hp Hw Hd Hm. rewrite (parse_app _ _ _ Hp).
  rewrite parse_directive by assumption. now rewrite Hm.
Qed.

Lemma unknown_directive_anywhere : forall pre ipre wtxt d rest,
  parse_format pre = Some ipre -> is_width_text wtxt = true -> continues_width wtxt d = false ->
  kind_of d = None ->
  parse_format (pre ++ 37%N :: wtxt ++ d :: rest) = None.
Proof.
  intros pre ipre wtxt d rest Hp Hw Hd Hk. eapply bad_directive_anywhere; eauto.
  unfold make_dir. rewrite Hk. now destruct (width_of wtxt).
Qed.

(* "%-" followed by anything that is not a digit: "-" alone is not a width *)
Lemma lone_minus_anywhere : forall pre ipre d rest,
  parse_format pre = Some ipre -> is_digit d = false ->
  parse_format (pre ++ 37%N :: 45%N :: d :: rest) = None.
Proof.
  intros pre ipre d rest Hp Hd.
  apply (bad_directive_anywhere pre ipre [45%N] d rest Hp); auto.
Qed.

(* the width limit, both directions *)
Lemma width_over_limit : forall pre ipre wtxt w d rest,
  parse_format pre = Some ipre -> is_width_text wtxt = true -> continues_width wtxt d = false ->
  width_of wtxt = Some w -> printf_width_limit < Z.abs w ->
  parse_format (pre ++ 37%N :: wtxt ++ d :: rest) = None.
Proof.
  intros pre ipre wtxt w d rest Hp Hw Hd Hwo Hlim. eapply bad_directive_anywhere; eauto.
  unfold make_dir. rewrite Hwo. destruct (kind_of d); [|reflexivity].
  unfold width_in_range. now replace (Z.abs w <=? printf_width_limit) with false by lia.
Qed.

Lemma width_within_limit : forall pre ipre wtxt w d k rest,
  parse_format pre = Some ipre -> is_width_text wtxt = true ->
  width_of wtxt = Some w -> Z.abs w <= printf_width_limit -> kind_of d = Some k ->
  parse_format (pre ++ 37%N :: wtxt ++ d :: rest) =
  option_map (fun its => ipre ++ Dir w (pad_of wtxt) k :: its) (parse_format rest).
Proof.
  intros pre ipre wtxt w d k rest Hp Hw Hwo Hlim Hk. rewrite (parse_app _ _ _ Hp).
  rewrite parse_directive; [|exact Hw|now apply (kind_not_width wtxt d k)].
  rewrite (make_dir_of wtxt d w Hwo) by (unfold width_in_range; lia). rewrite Hk.
  now destruct (parse_format rest).
Qed.

(* arguments *)
Lemma render_unusable : forall h w p k its args,
  unusable_arg k args -> render_items h (Dir w p k :: its) args = None.
Proof.
  intros h w p k its args H. destruct k; simpl in H; try contradiction;
    (destruct args as [|v args']; [reflexivity|]); destruct v; try contradiction; reflexivity.
Qed.

Lemma missing_or_wrong_arg_anywhere : forall h pre ipre out wtxt d k rest args,
  parse_format pre = Some ipre -> render_items h ipre args = Some out ->
  is_width_text wtxt = true -> kind_of d = Some k ->
  unusable_arg k (skipn (arity ipre) args) ->
  printf_spec h (pre ++ 37%N :: wtxt ++ d :: rest) args = None.
Proof.
  intros h pre ipre out wtxt d k rest args Hp Hr Hw Hk Hbad.
  rewrite (spec_app h pre _ args ipre out Hp Hr).
  unfold printf_spec. rewrite parse_directive; [|exact Hw|now apply (kind_not_width wtxt d k)].
  unfold make_dir. rewrite Hk.
  destruct (width_of wtxt) as [w|]; [|reflexivity].
  destruct (width_in_range w); [|reflexivity].
  destruct (parse_format rest) as [its|]; [|reflexivity].
  now rewrite render_unusable.
Qed.

(* ================================================================ native_call NPrintf *)

Lemma native_printf_eq : forall args this s,
  native_call NPrintf args this s =
  match args with
  | VStr fmt :: rest =>
    match printf_format (hp s) fmt rest with
    | FmtOut b => (Ok NNil, with_write s b)
    | FmtErr => (Ok NError, s)
    | FmtFuel => (Fuel, s)
    end
  | _ => (Ok NError, s)
  end.
Proof.
  intros args this s.
  assert (Hthis : forall k : option value -> M nres,
            bind (this_value this) k s = k (match this with Some a => Some (load (hp s) a) | None => None end) s).
  { intros k. destruct this as [a|]; reflexivity. }
  unfold native_call. rewrite Hthis.
  change (bind get_heap ?k s) with (k (hp s) s). cbv beta.
  destruct args as [|v rest]; [reflexivity|].
  destruct v as [fmt| | | | | | | | |]; try reflexivity.
  destruct (printf_format (hp s) fmt rest); reflexivity.
Qed.

(* the io log: unchanged unless the result is NNil, and then exactly one write, of the
   specified text *)
Lemma printf_io : forall args this s r s',
  native_call NPrintf args this s = (r, s') ->
  (r = Ok NNil /\ exists fmt rest b, args = VStr fmt :: rest /\
                   printf_spec (hp s) fmt rest = Some b /\ s' = with_write s b) \/
  (r <> Ok NNil /\ s' = s).
Proof.
  intros args this s r s' H. rewrite native_printf_eq in H.
  destruct args as [|v rest]; [right; inversion H; split; [discriminate|reflexivity]|].
  destruct v as [fmt| | | | | | | | |]; try (right; inversion H; split; [discriminate|reflexivity]).
  destruct (printf_format (hp s) fmt rest) as [b| |] eqn:Ef;
    try (right; inversion H; split; [discriminate|reflexivity]).
  left. inversion H; subst. split; [reflexivity|].
  exists fmt, rest, b. apply printf_out_iff in Ef. auto.
Qed.

Lemma spec_none_is_error : forall fmt args this s,
  printf_spec (hp s) fmt args = None -> printf_is_error fmt args this s.
Proof.
  intros fmt args this s Hs. unfold printf_is_error. rewrite native_printf_eq.
  pose proof (printf_refines_spec_gen (hp s) fmt args) as G. rewrite Hs in G.
  destruct (printf_format (hp s) fmt args) as [b| |].
  - discriminate G.
  - now left.
  - right. split; [reflexivity|exact (proj2 G)].
Qed.

Lemma parse_none_is_error : forall fmt, parse_format fmt = None ->
  forall args this s, printf_is_error fmt args this s.
Proof. intros fmt H args this s. apply spec_none_is_error. now apply spec_parse_none. Qed.

Lemma printf_success_writes_once : forall fmt rest this s b,
  printf_spec (hp s) fmt rest = Some b ->
  native_call NPrintf (VStr fmt :: rest) this s = (Ok NNil, with_write s b).
Proof.
  intros fmt rest this s b Hs. rewrite native_printf_eq.
  now rewrite (printf_spec_some _ _ _ _ Hs).
Qed.

(* ================================================================ C20: the width bound *)

Lemma make_dir_width_ok : forall wtxt d it, make_dir wtxt d = Some it -> width_ok it.
Proof.
  intros wtxt d it H. unfold make_dir in H.
  destruct (width_of wtxt) as [w|]; [|discriminate].
  destruct (kind_of d) as [k|]; [|discriminate].
  destruct (width_in_range w) eqn:Er; [|discriminate]. inversion H; subst.
  simpl. unfold width_in_range in Er. lia.
Qed.

(* every width that survives parsing is within the limit *)
Lemma parse_widths_ok : forall fmt its, parse_format fmt = Some its -> Forall width_ok its.
Proof.
  intros fmt. induction fmt as [|c rest Hc IH|wtxt Hw|wtxt d rest Hw Hd IH] using parse_ind;
    intros its H.
  - inversion H. constructor.
  - rewrite parse_lit in H by exact Hc.
    destruct (parse_format rest) as [ir|]; [|discriminate]. inversion H; subst.
    constructor; [exact I|now apply IH].
  - rewrite parse_dangling in H by exact Hw. discriminate.
  - rewrite parse_directive in H by assumption.
    destruct (make_dir wtxt d) as [it|] eqn:Em; [|discriminate].
    destruct (parse_format rest) as [ir|]; [|discriminate]. inversion H; subst.
    constructor; [now apply (make_dir_width_ok wtxt d)|now apply IH].
Qed.

Lemma arity_cons : forall it its, arity (it :: its) = (consumes it + arity its)%nat.
Proof. reflexivity. Qed.

Lemma pad_spec_bounds : forall w p s,
  (length s <= length (pad_spec w p s) <= length s + Z.to_nat (Z.abs w))%nat.
Proof. intros w p s. rewrite pad_spec_length. lia. Qed.

(* the output is the unpadded output plus at most the limit per argument directive *)
Lemma render_pad_bound : forall h its args out,
  Forall width_ok its -> render_items h its args = Some out ->
  exists raw, render_items h (map strip_width its) args = Some raw /\
              (length raw <= length out <= length raw + arity its * Z.to_nat printf_width_limit)%nat.
Proof.
  intros h its. induction its as [|it its IH]; intros args out Hok H.
  - inversion H; subst. exists []. simpl. split; [reflexivity|lia].
  - inversion Hok as [|x l Hit Hrest]; subst.
    destruct it as [b|w p k].
    + simpl in H. destruct (render_items h its args) as [o|] eqn:Er; [|discriminate].
      inversion H; subst. destruct (IH args o Hrest Er) as (raw & Hraw & Hlen).
      exists (b :: raw). cbn [map strip_width render_items]. rewrite Hraw.
      split; [reflexivity|]. rewrite arity_cons. cbn [consumes length]. lia.
    + assert (Hpct : k = DPercent ->
               exists raw, render_items h (map strip_width (Dir w p k :: its)) args = Some raw /\
                 (length raw <= length out <=
                  length raw + arity (Dir w p k :: its) * Z.to_nat printf_width_limit)%nat).
      { intros ->. simpl in H. destruct (render_items h its args) as [o|] eqn:Er; [|discriminate].
        inversion H; subst. destruct (IH args o Hrest Er) as (raw & Hraw & Hlen).
        exists (37%N :: raw). cbn [map strip_width render_items]. rewrite Hraw.
        split; [reflexivity|]. rewrite arity_cons. cbn [consumes length]. lia. }
      assert (Harg : k <> DPercent ->
               exists raw, render_items h (map strip_width (Dir w p k :: its)) args = Some raw /\
                 (length raw <= length out <=
                  length raw + arity (Dir w p k :: its) * Z.to_nat printf_width_limit)%nat).
      { intros Hk.
        assert (Hunf : forall w0 its0, render_items h (Dir w0 p k :: its0) args =
                  match args with
                  | [] => None
                  | v :: args' =>
                    match render_arg h k v, render_items h its0 args' with
                    | Some s, Some o => Some (pad_spec w0 p s ++ o)
                    | _, _ => None
                    end
                  end) by (intros; destruct k; try reflexivity; congruence).
        rewrite Hunf in H. cbn [map strip_width]. rewrite Hunf.
        destruct args as [|v args']; [discriminate|].
        destruct (render_arg h k v) as [s|]; [|discriminate].
        destruct (render_items h its args') as [o|] eqn:Er; [|discriminate].
        inversion H; subst. destruct (IH args' o Hrest Er) as (raw & Hraw & Hlen).
        rewrite Hraw. exists (pad_spec 0 p s ++ raw). split; [reflexivity|].
        rewrite pad_spec_zero, !app_length.
        pose proof (pad_spec_bounds w p s) as Hb. simpl in Hit.
        assert (Har : arity (Dir w p k :: its) = S (arity its)) by (destruct k; try reflexivity; congruence).
        rewrite Har. lia. }
      destruct k; try (apply Harg; discriminate). now apply Hpct.
Qed.

Lemma printf_width_bound : forall h fmt args out,
  printf_format h fmt args = FmtOut out ->
  exists its raw,
    parse_format fmt = Some its /\ Forall width_ok its /\
    render_items h (map strip_width its) args = Some raw /\
    (length raw <= length out <= length raw + arity its * Z.to_nat printf_width_limit)%nat.
Proof.
  intros h fmt args out H. apply printf_out_iff in H. unfold printf_spec in H.
  destruct (parse_format fmt) as [its|] eqn:Ep; [|discriminate].
  pose proof (parse_widths_ok fmt its Ep) as Hok.
  destruct (render_pad_bound h its args out Hok H) as (raw & Hraw & Hlen).
  exists its, raw. auto.
Qed.

(* ================================================================ decimal width texts *)

(* the canonical decimal text of an integer is a width text denoting that integer, so the
   limit theorems can be read on numbers *)
Lemma dec_digits_fuel_S : forall f n acc,
  dec_digits_fuel (S f) n acc =
  if N.eqb (n / 10) 0 then (48 + n mod 10)%N :: acc
  else dec_digits_fuel f (n / 10)%N ((48 + n mod 10)%N :: acc).
Proof. reflexivity. Qed.

Lemma dec_digits_fuel_spec : forall f n acc, (n < 2 ^ N.of_nat (S f))%N ->
  exists ds, dec_digits_fuel (S f) n acc = ds ++ acc /\ ds <> [] /\ forallb is_digit ds = true /\
             forall a, fold_left (fun a d => a * 10 + digit_val d) ds a =
                       a * 10 ^ Z.of_nat (length ds) + Z.of_N n.
Proof.
  induction f as [|f IH]; intros n acc Hn.
  - assert (Hn' : (n < 2)%N) by (simpl in Hn; lia).
    assert (Hq : (n / 10 = 0)%N) by (apply N.div_small; lia).
    assert (Hm : (n mod 10 = n)%N) by (apply N.mod_small; lia).
    exists [(48 + n)%N]. rewrite dec_digits_fuel_S. rewrite Hq, Hm. change (N.eqb 0 0) with true. cbv iota.
    repeat split; try discriminate.
    + cbn [forallb]. unfold is_digit. lia.
    + intros a. cbn [fold_left length]. change (Z.of_nat 1) with 1. rewrite Z.pow_1_r.
      unfold digit_val. lia.
  - rewrite dec_digits_fuel_S.
    destruct (N.eqb (n / 10) 0) eqn:Eq.
    + apply N.eqb_eq in Eq.
      assert (Hlt : (n < 10)%N).
      { destruct (N.lt_ge_cases n 10) as [Hl|Hg]; [exact Hl|].
        pose proof (N.div_le_mono 10 n 10 ltac:(lia) Hg) as Hd. rewrite N.div_same in Hd by lia. lia. }
      assert (Hm : (n mod 10 = n)%N) by (apply N.mod_small; lia).
      exists [(48 + n)%N]. rewrite Hm. repeat split; try discriminate.
      * cbn [forallb]. unfold is_digit. lia.
      * intros a. cbn [fold_left length]. change (Z.of_nat 1) with 1. rewrite Z.pow_1_r.
        unfold digit_val. lia.
    + apply N.eqb_neq in Eq.
      assert (Hq : (n / 10 < 2 ^ N.of_nat (S f))%N).
      { apply N.div_lt_upper_bound; [lia|].
        replace (N.of_nat (S (S f))) with (N.succ (N.of_nat (S f))) in Hn by lia.
        rewrite N.pow_succ_r' in Hn. lia. }
      destruct (IH (n / 10)%N ((48 + n mod 10)%N :: acc) Hq) as (ds & Hds & Hne & Hdig & Hval).
      exists (ds ++ [(48 + n mod 10)%N]). rewrite Hds. rewrite <- app_assoc. repeat split.
      * destruct ds; discriminate.
      * rewrite forallb_app. nb. rewrite Hdig. cbn [forallb andb]. unfold is_digit.
        pose proof (N.mod_upper_bound n 10 ltac:(lia)). lia.
      * intros a. rewrite fold_left_app, Hval. cbn [fold_left]. rewrite app_length. cbn [length].
        replace (Z.of_nat (length ds + 1)) with (Z.succ (Z.of_nat (length ds))) by lia.
        rewrite Z.pow_succ_r by lia. unfold digit_val.
        pose proof (N.div_mod n 10 ltac:(lia)) as Hdm.
        pose proof (N.mod_upper_bound n 10 ltac:(lia)). lia.
Qed.

Lemma dec_of_N_spec : forall n,
  dec_of_N n <> [] /\ forallb is_digit (dec_of_N n) = true /\ decimal (dec_of_N n) = Z.of_N n.
Proof.
  intro n. unfold dec_of_N.
  assert (Hn : (n < 2 ^ N.of_nat (S (N.to_nat (N.log2 n))))%N).
  { replace (N.of_nat (S (N.to_nat (N.log2 n)))) with (N.succ (N.log2 n)) by lia.
    destruct n as [|p]; [reflexivity|]. apply N.log2_spec. lia. }
  destruct (dec_digits_fuel_spec _ n [] Hn) as (ds & Hds & Hne & Hdig & Hval).
  rewrite Hds, app_nil_r. repeat split; auto.
  unfold decimal. rewrite Hval. lia.
Qed.

Lemma dec_of_Z_width : forall w,
  is_width_text (dec_of_Z w) = true /\ width_of (dec_of_Z w) = Some w.
Proof.
  intro w. destruct w as [|p|p].
  - split; reflexivity.
  - cbn [dec_of_Z]. destruct (dec_of_N_spec (Npos p)) as (Hne & Hdig & Hval).
    destruct (dec_of_N (Npos p)) as [|c ds] eqn:Ed; [congruence|].
    simpl in Hdig. apply andb_true_iff in Hdig. destruct Hdig as [Hc Hds]. split.
    + simpl. now rewrite Hc, Hds.
    + unfold width_of. assert (Hm : is_minus c = false) by (unfold is_minus, is_digit in *; lia).
      rewrite Hm, Hval. reflexivity.
  - cbn [dec_of_Z]. destruct (dec_of_N_spec (Npos p)) as (Hne & Hdig & Hval). split.
    + simpl. exact Hdig.
    + unfold width_of. change (is_minus 45%N) with true. cbv iota.
      destruct (dec_of_N (Npos p)) as [|c ds] eqn:Ed; [congruence|].
      rewrite Hval. reflexivity.
Qed.

(* ================================================================ final statements (C18) *)

Lemma fin_width_pads : forall w p s,
  length (pad_to w p s) = Nat.max (Z.to_nat (Z.abs w)) (length s).
Proof. intros. rewrite pad_to_spec. apply pad_spec_length. Qed.

Lemma fin_pad_left_right : forall w p s,
  (0 <= w -> pad_to w p s = repeat_byte p (Z.to_nat w - length s) ++ s) /\
  (w <= 0 -> pad_to w p s = s ++ repeat_byte p (Z.to_nat (- w) - length s)).
Proof.
  intros w p s. rewrite pad_to_spec. split; intro H;
    [now apply pad_spec_left|now apply pad_spec_right].
Qed.

Lemma fin_never_truncates : forall w p s,
  (0 <= w -> exists fill, pad_to w p s = fill ++ s /\ Forall (eq p) fill) /\
  (w <= 0 -> exists fill, pad_to w p s = s ++ fill /\ Forall (eq p) fill).
Proof.
  intros w p s. destruct (fin_pad_left_right w p s) as [HL HR]. split; intro H.
  - eexists. split; [now apply HL|apply repeat_byte_all].
  - eexists. split; [now apply HR|apply repeat_byte_all].
Qed.

Lemma fin_no_percent : forall h fmt args,
  forallb (fun b => negb (is_percent b)) fmt = true ->
  printf_spec h fmt args = Some fmt /\ printf_format h fmt args = FmtOut fmt.
Proof.
  intros h fmt args H. pose proof (spec_no_percent h fmt args H) as Hs.
  split; [exact Hs|now apply printf_spec_some].
Qed.

Lemma fin_concat : forall h a b args ia ra,
  parse_format a = Some ia -> render_items h ia args = Some ra ->
  printf_spec h (a ++ b) args = option_map (app ra) (printf_spec h b (skipn (arity ia) args)) /\
  forall rb, printf_format h b (skipn (arity ia) args) = FmtOut rb <->
             printf_format h (a ++ b) args = FmtOut (ra ++ rb).
Proof.
  intros h a b args ia ra Ha Hr. pose proof (spec_app h a b args ia ra Ha Hr) as Hs.
  split; [exact Hs|]. intros rb. rewrite !printf_out_iff, Hs.
  destruct (printf_spec h b (skipn (arity ia) args)) as [rb'|]; simpl; split; intro H.
  - now inversion H.
  - inversion H as [H1]. apply app_inv_head in H1. now subst.
  - discriminate.
  - discriminate.
Qed.

Lemma fin_dangling : forall pre ipre wtxt,
  parse_format pre = Some ipre -> is_width_text wtxt = true ->
  parse_format (pre ++ 37%N :: wtxt) = None /\
  forall args this s, printf_is_error (pre ++ 37%N :: wtxt) args this s.
Proof.
  intros pre ipre wtxt Hp Hw. pose proof (dangling_anywhere pre ipre wtxt Hp Hw) as H.
  split; [exact H|now apply parse_none_is_error].
Qed.

Lemma fin_unknown_directive : forall pre ipre wtxt d rest,
  parse_format pre = Some ipre -> is_width_text wtxt = true -> continues_width wtxt d = false ->
  (d <> 115 /\ d <> 102 /\ d <> 118 /\ d <> 37)%N ->
  parse_format (pre ++ 37%N :: wtxt ++ d :: rest) = None /\
  forall args this s, printf_is_error (pre ++ 37%N :: wtxt ++ d :: rest) args this s.
Proof.
  intros pre ipre wtxt d rest Hp Hw Hd Hk. apply kind_of_some_iff in Hk.
  pose proof (unknown_directive_anywhere pre ipre wtxt d rest Hp Hw Hd Hk) as H.
  split; [exact H|now apply parse_none_is_error].
Qed.

Lemma fin_lone_minus : forall pre ipre d rest,
  parse_format pre = Some ipre -> is_digit d = false ->
  parse_format (pre ++ 37%N :: 45%N :: d :: rest) = None /\
  forall args this s, printf_is_error (pre ++ 37%N :: 45%N :: d :: rest) args this s.
Proof.
  intros pre ipre d rest Hp Hd. pose proof (lone_minus_anywhere pre ipre d rest Hp Hd) as H.
  split; [exact H|now apply parse_none_is_error].
Qed.

Lemma fin_missing_or_wrong_arg : forall pre ipre wtxt d k rest args this s out,
  parse_format pre = Some ipre -> render_items (hp s) ipre args = Some out ->
  is_width_text wtxt = true -> kind_of d = Some k ->
  unusable_arg k (skipn (arity ipre) args) ->
  printf_spec (hp s) (pre ++ 37%N :: wtxt ++ d :: rest) args = None /\
  printf_is_error (pre ++ 37%N :: wtxt ++ d :: rest) args this s.
Proof.
  intros pre ipre wtxt d k rest args this s out Hp Hr Hw Hk Hbad.
  pose proof (missing_or_wrong_arg_anywhere (hp s) pre ipre out wtxt d k rest args Hp Hr Hw Hk Hbad) as H.
  split; [exact H|now apply spec_none_is_error].
Qed.

Lemma fin_width_limit : forall pre ipre wtxt w d rest,
  parse_format pre = Some ipre -> is_width_text wtxt = true -> width_of wtxt = Some w ->
  (printf_width_limit < Z.abs w -> continues_width wtxt d = false ->
     parse_format (pre ++ 37%N :: wtxt ++ d :: rest) = None /\
     forall args this s, printf_is_error (pre ++ 37%N :: wtxt ++ d :: rest) args this s) /\
  (Z.abs w <= printf_width_limit -> forall k, kind_of d = Some k ->
     parse_format (pre ++ 37%N :: wtxt ++ d :: rest) =
     option_map (fun its => ipre ++ Dir w (pad_of wtxt) k :: its) (parse_format rest)).
Proof.
  intros pre ipre wtxt w d rest Hp Hw Hwo. split.
  - intros Hlim Hd. pose proof (width_over_limit pre ipre wtxt w d rest Hp Hw Hd Hwo Hlim) as H.
    split; [exact H|now apply parse_none_is_error].
  - intros Hlim k Hk. now apply width_within_limit.
Qed.

(* the same, read on the number: the width written in decimal *)
Lemma fin_width_limit_decimal : forall pre ipre w d rest,
  parse_format pre = Some ipre ->
  (printf_width_limit < Z.abs w -> is_digit d = false ->
     parse_format (pre ++ 37%N :: dec_of_Z w ++ d :: rest) = None /\
     forall args this s, printf_is_error (pre ++ 37%N :: dec_of_Z w ++ d :: rest) args this s) /\
  (Z.abs w <= printf_width_limit -> forall k, kind_of d = Some k ->
     parse_format (pre ++ 37%N :: dec_of_Z w ++ d :: rest) =
     option_map (fun its => ipre ++ Dir w (pad_of (dec_of_Z w)) k :: its) (parse_format rest)).
Proof.
  intros pre ipre w d rest Hp. destruct (dec_of_Z_width w) as [Hw Hwo].
  destruct (fin_width_limit pre ipre (dec_of_Z w) w d rest Hp Hw Hwo) as [H1 H2].
  split; [|exact H2]. intros Hlim Hd. apply H1; [exact Hlim|].
  destruct (dec_of_Z w) as [|c ds] eqn:E; [|exact Hd].
  (* an empty text denotes 0, which is not beyond the limit *)
  exfalso. simpl in Hwo. inversion Hwo; subst w. pose proof limit_nonneg. simpl in Hlim. lia.
Qed.

(* ================================================================ final statements (C20, width) *)

Lemma fin_pad_bytes_bound : forall w p s, Z.abs w <= printf_width_limit ->
  (length s <= length (pad_to w p s) <= length s + Z.to_nat printf_width_limit)%nat.
Proof.
  intros w p s Hw. rewrite pad_to_spec. pose proof (pad_spec_bounds w p s). lia.
Qed.

(* one %s directive with the width [w] written in decimal: accepted and padded as asked *)
Lemma fin_width_below_limit_ok : forall h w s,
  Z.abs w <= printf_width_limit ->
  printf_format h (37%N :: dec_of_Z w ++ [115%N]) [VStr s] = FmtOut (pad_to w (pad_of (dec_of_Z w)) s).
Proof.
  intros h w s Hw. apply printf_spec_some.
  destruct (dec_of_Z_width w) as [Hwt Hwo].
  assert (Hmk : make_dir (dec_of_Z w) 115%N = Some (Dir w (pad_of (dec_of_Z w)) DS)).
  { rewrite (make_dir_of _ _ w Hwo); [reflexivity|]. unfold width_in_range. lia. }
  assert (HS := spec_dir_arg h (dec_of_Z w) 115%N [] [VStr s] w (pad_of (dec_of_Z w)) DS Hwt
             (kind_not_width (dec_of_Z w) 115%N DS eq_refl) Hmk ltac:(discriminate)).
  nb. rewrite HS. clear HS. cbn [render_arg]. rewrite spec_nil. simpl. now rewrite app_nil_r, pad_to_spec.
Qed.

Lemma fin_width_beyond_limit_refused : forall w args this s,
  printf_width_limit < Z.abs w ->
  printf_is_error (37%N :: dec_of_Z w ++ [115%N]) args this s.
Proof.
  intros w args this s Hw.
  destruct (fin_width_limit_decimal [] [] w 115%N [] eq_refl) as [H _].
  destruct (H Hw eq_refl) as [_ He]. exact (He args this s).
Qed.
