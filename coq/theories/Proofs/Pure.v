(* Proofs/Pure.v -- C09: evaluation of an expression without assignment, ++/--, call and
   match never changes anything that existed before (except giving a value to unset
   variable cells); documents built by NewValue are therefore unchanged.
   Also: NewValue builds a [doc_at] tree, and ToGoValue of a [doc_at] tree gives its JSON
   value back (used by C04). *)
From Coq Require Import List Bool PArith NArith ZArith Lia FMapPositive.
From JQ Require Import Base.Bytes Num.F64 Syntax.Token Syntax.Lexer Syntax.Ast Json.JValue.
From JQ Require Import Json.Encode.
From JQ Require Import Gen.Generated Sem.Value Sem.Ops Sem.Natives Sem.Eval Sem.Driver.
From JQ Require Import Spec.Pure.
Import ListNotations.
Local Open Scope positive_scope.

(* ================================================================== *)
(* heap primitives                                                      *)

Lemma load_store : forall h a v x,
  load (store h a v) x = if Pos.eqb x a then v else load h x.
Proof.
  intros h a v x. unfold load, store. cbn [cells].
  destruct (Pos.eqb x a) eqn:E.
  - apply Pos.eqb_eq in E. subst. now rewrite PM.gss.
  - apply Pos.eqb_neq in E. now rewrite PM.gso.
Qed.

Lemma load_alloc : forall h v x,
  load (snd (alloc h v)) x = if Pos.eqb x (next h) then v else load h x.
Proof.
  intros h v x. unfold load, alloc. cbn [snd cells].
  destruct (Pos.eqb x (next h)) eqn:E.
  - apply Pos.eqb_eq in E. subst. now rewrite PM.gss.
  - apply Pos.eqb_neq in E. now rewrite PM.gso.
Qed.

Lemma get_back_new_back : forall h l x,
  get_back (snd (new_back h l)) x = if Pos.eqb x (next h) then l else get_back h x.
Proof.
  intros h l x. unfold get_back, new_back. cbn [snd backs].
  destruct (Pos.eqb x (next h)) eqn:E.
  - apply Pos.eqb_eq in E. subst. now rewrite PM.gss.
  - apply Pos.eqb_neq in E. now rewrite PM.gso.
Qed.

Lemma get_obj_new_obj : forall h l x,
  get_obj (snd (new_obj h l)) x = if Pos.eqb x (next h) then l else get_obj h x.
Proof.
  intros h l x. unfold get_obj, new_obj. cbn [snd objs].
  destruct (Pos.eqb x (next h)) eqn:E.
  - apply Pos.eqb_eq in E. subst. now rewrite PM.gss.
  - apply Pos.eqb_neq in E. now rewrite PM.gso.
Qed.

Lemma get_obj_set_obj : forall h o l x,
  get_obj (set_obj h o l) x = if Pos.eqb x o then l else get_obj h x.
Proof.
  intros h o l x. unfold get_obj, set_obj. cbn [objs].
  destruct (Pos.eqb x o) eqn:E.
  - apply Pos.eqb_eq in E. subst. now rewrite PM.gss.
  - apply Pos.eqb_neq in E. now rewrite PM.gso.
Qed.

(* ================================================================== *)
(* preservation below a bound                                           *)

(* [hp_below p h h']: nothing with an id below [p] changed, except unset cells *)
Definition hp_below (p : positive) (h h' : heap) : Prop :=
  Pos.le (next h) (next h') /\
  (forall b, b < p -> get_back h' b = get_back h b) /\
  (forall o, o < p -> get_obj h' o = get_obj h o) /\
  (forall a, a < p -> load h a <> VUnknown -> load h' a = load h a).

Lemma heap_preserved_below : forall h h', heap_preserved h h' <-> hp_below (next h) h h'.
Proof. intros h h'. unfold heap_preserved, hp_below. tauto. Qed.

Lemma hp_below_refl : forall p h, hp_below p h h.
Proof. intros p h. unfold hp_below. repeat split; auto. lia. Qed.

Lemma hp_below_trans : forall p h1 h2 h3,
  hp_below p h1 h2 -> hp_below p h2 h3 -> hp_below p h1 h3.
Proof.
  intros p h1 h2 h3 (N1 & B1 & O1 & C1) (N2 & B2 & O2 & C2).
  unfold hp_below. repeat split.
  - lia.
  - intros b Hb. now rewrite B2, B1.
  - intros o Ho. now rewrite O2, O1.
  - intros a Ha Hu. rewrite C2; auto. rewrite C1; auto.
Qed.

Lemma hp_below_mono : forall p q h h', p <= q -> hp_below q h h' -> hp_below p h h'.
Proof.
  intros p q h h' Hpq (N1 & B1 & O1 & C1). unfold hp_below. repeat split; auto.
  - intros b Hb. apply B1. lia.
  - intros o Ho. apply O1. lia.
  - intros a Ha. apply C1. lia.
Qed.

Lemma hp_below_alloc : forall p h v, p <= next h -> hp_below p h (snd (alloc h v)).
Proof.
  intros p h v Hp. unfold hp_below. repeat split.
  - cbn. lia.
  - intros a Ha _. rewrite load_alloc.
    destruct (Pos.eqb a (next h)) eqn:E; auto. apply Pos.eqb_eq in E. lia.
Qed.

Lemma hp_below_new_back : forall p h l, p <= next h -> hp_below p h (snd (new_back h l)).
Proof.
  intros p h l Hp. unfold hp_below. repeat split.
  - cbn. lia.
  - intros b Hb. rewrite get_back_new_back.
    destruct (Pos.eqb b (next h)) eqn:E; auto. apply Pos.eqb_eq in E. lia.
Qed.

Lemma hp_below_new_obj : forall p h l, p <= next h -> hp_below p h (snd (new_obj h l)).
Proof.
  intros p h l Hp. unfold hp_below. repeat split.
  - cbn. lia.
  - intros o Ho. rewrite get_obj_new_obj.
    destruct (Pos.eqb o (next h)) eqn:E; auto. apply Pos.eqb_eq in E. lia.
Qed.

Lemma hp_below_set_obj : forall p h o l, p <= o -> hp_below p h (set_obj h o l).
Proof.
  intros p h o l Hp. unfold hp_below. repeat split.
  - cbn. lia.
  - intros x Hx. rewrite get_obj_set_obj.
    destruct (Pos.eqb x o) eqn:E; auto. apply Pos.eqb_eq in E. lia.
Qed.

(* storing into a cell that is unset (or new) *)
Lemma hp_below_store_unknown : forall p h a v,
  load h a = VUnknown -> hp_below p h (store h a v).
Proof.
  intros p h a v Hu. unfold hp_below. repeat split.
  - cbn. lia.
  - intros x Hx Hn. rewrite load_store.
    destruct (Pos.eqb x a) eqn:E; auto. apply Pos.eqb_eq in E. subst. congruence.
Qed.

(* ================================================================== *)
(* computations that preserve                                           *)

Definition stp (p : positive) (s s' : st) : Prop :=
  hp_below p (hp s) (hp s') /\ root s' = root s /\ rule_root s' = rule_root s.

Lemma stp_refl : forall p s, stp p s s.
Proof. intros p s. split; [apply hp_below_refl|auto]. Qed.

Lemma stp_trans : forall p s1 s2 s3, stp p s1 s2 -> stp p s2 s3 -> stp p s1 s3.
Proof.
  intros p s1 s2 s3 (H1 & R1 & Q1) (H2 & R2 & Q2). split; [|split; congruence].
  eapply hp_below_trans; eauto.
Qed.

Lemma stp_next : forall p s s', stp p s s' -> next (hp s) <= next (hp s').
Proof. intros p s s' ((N & _) & _). exact N. Qed.

Definition mpres {A} (p : positive) (m : M A) : Prop :=
  forall s r s', p <= next (hp s) -> m s = (r, s') -> stp p s s'.

Lemma pres_ret : forall A p (a : A), mpres p (ret a).
Proof. intros A p a s r s' _ E. inversion E; subst. apply stp_refl. Qed.

Lemma pres_fail : forall A p (x : res A), mpres p (fail x).
Proof. intros A p x s r s' _ E. inversion E; subst. apply stp_refl. Qed.

Lemma pres_bind : forall A B p (m : M A) (k : A -> M B),
  mpres p m -> (forall a, mpres p (k a)) -> mpres p (bind m k).
Proof.
  intros A B p m k Hm Hk s r s' Hp E. unfold bind in E.
  destruct (m s) as [r1 s1] eqn:Em.
  pose proof (Hm _ _ _ Hp Em) as H1.
  destruct r1; try (inversion E; subst; exact H1).
  eapply stp_trans; [exact H1|]. eapply Hk; [|exact E].
  pose proof (stp_next _ _ _ H1). lia.
Qed.

(* bind at a given state: the first part is only known to preserve from this state *)
Lemma stp_bind_at : forall A B p (m : M A) (k : A -> M B) s r s',
  p <= next (hp s) -> bind m k s = (r, s') ->
  (forall r1 s1, m s = (r1, s1) -> stp p s s1) ->
  (forall a, mpres p (k a)) ->
  stp p s s'.
Proof.
  intros A B p m k s r s' Hp E Hm Hk. unfold bind in E.
  destruct (m s) as [r1 s1] eqn:Em.
  pose proof (Hm _ _ eq_refl) as H1.
  destruct r1; try (inversion E; subst; exact H1).
  eapply stp_trans; [exact H1|]. eapply Hk; [|exact E].
  pose proof (stp_next _ _ _ H1). lia.
Qed.

(* a load followed by a continuation that may use where the value came from *)
Lemma pres_load_then : forall B p a (k : value -> M B),
  (forall s r s', p <= next (hp s) -> k (load (hp s) a) s = (r, s') -> stp p s s') ->
  mpres p (bind (m_load a) k).
Proof. intros B p a k H s r s' Hp E. unfold bind, m_load in E. eapply H; eauto. Qed.

Lemma pres_raise_err : forall A p e, mpres p (@raise_err A e).
Proof.
  intros A p e s r s' _ E. unfold raise_err in E. inversion E; subst.
  split; [apply hp_below_refl|auto].
Qed.

Lemma pres_rt_error : forall A p src t, mpres p (@rt_error src A t).
Proof.
  intros A p src t. unfold rt_error. destruct (get_line_col src (tpos t)) as [[tx ln] col].
  apply pres_raise_err.
Qed.

Lemma pres_tok_string : forall p src t, mpres p (tok_string src t).
Proof.
  intros p src t. unfold tok_string. destruct (get_string src t); [apply pres_ret|apply pres_fail].
Qed.

Lemma pres_m_load : forall p a, mpres p (m_load a).
Proof. intros p a s r s' _ E. inversion E; subst. apply stp_refl. Qed.

Lemma pres_get_heap : forall p, mpres p get_heap.
Proof. intros p s r s' _ E. inversion E; subst. apply stp_refl. Qed.

Lemma pres_get_st : forall p, mpres p get_st.
Proof. intros p s r s' _ E. inversion E; subst. apply stp_refl. Qed.

Lemma pres_m_alloc : forall p v, mpres p (m_alloc v).
Proof.
  intros p v s r s' Hp E. unfold m_alloc, with_heap in E.
  destruct (alloc (hp s) v) as [a h'] eqn:Ea. inversion E; subst. cbn.
  split; [|auto]. cbn [hp]. replace h' with (snd (alloc (hp s) v)) by now rewrite Ea.
  now apply hp_below_alloc.
Qed.

Lemma pres_new_empty_object : forall p, mpres p (with_heap new_empty_object).
Proof.
  intros p s r s' Hp E. unfold with_heap, new_empty_object in E.
  destruct (new_obj (hp s) []) as [o h'] eqn:Eo. inversion E; subst.
  split; [|auto]. cbn [hp]. replace h' with (snd (new_obj (hp s) [])) by now rewrite Eo.
  now apply hp_below_new_obj.
Qed.

Lemma pres_new_empty_array : forall p, mpres p (with_heap new_empty_array).
Proof.
  intros p s r s' Hp E. unfold with_heap, new_empty_array in E.
  destruct (new_back (hp s) []) as [o h'] eqn:Eo. inversion E; subst.
  split; [|auto]. cbn [hp]. replace h' with (snd (new_back (hp s) [])) by now rewrite Eo.
  now apply hp_below_new_back.
Qed.

Lemma pres_new_array_of : forall p cs, mpres p (with_heap (fun h => new_array_of h cs)).
Proof.
  intros p cs s r s' Hp E. unfold with_heap, new_array_of in E.
  destruct (new_back (hp s) cs) as [o h'] eqn:Eo. inversion E; subst.
  split; [|auto]. cbn [hp]. replace h' with (snd (new_back (hp s) cs)) by now rewrite Eo.
  now apply hp_below_new_back.
Qed.

Lemma pres_set_local : forall p name a, mpres p (set_local name a).
Proof.
  intros p name a s r s' _ E. unfold set_local in E.
  destruct (frames s); inversion E; subst; (split; [apply hp_below_refl|auto]).
Qed.

Lemma pres_get_variable : forall p name, mpres p (get_variable name).
Proof.
  intros p name s r s' Hp E. unfold get_variable in E.
  assert (HP : mpres p (bind (m_alloc VUnknown)
                      (fun a => bind (set_local name a) (fun _ => ret (Some a))))).
  { apply pres_bind; [apply pres_m_alloc|intro a].
    apply pres_bind; [apply pres_set_local|intro]. apply pres_ret. }
  destruct (lookup_frames (frames s) name).
  - inversion E; subst. apply stp_refl.
  - destruct name as [|c name'].
    + exact (HP s r s' Hp E).
    + destruct (N.eqb c 36) eqn:Ec.
      * apply N.eqb_eq in Ec. subst c. inversion E; subst. apply stp_refl.
      * apply (HP s r s' Hp).
        destruct c as [|q]; [exact E|].
        repeat (destruct q as [q|q|]; try exact E). discriminate.
Qed.

Lemma pres_get_identifier : forall p src t, mpres p (get_identifier src t).
Proof.
  intros p src t. unfold get_identifier. destruct (tag_eqb (ttag t) TDollar).
  - apply pres_bind; [apply pres_get_st|intro s0].
    destruct (rule_root s0); [apply pres_ret|apply pres_rt_error].
  - apply pres_bind; [apply pres_tok_string|intro name].
    apply pres_bind; [apply pres_get_variable|intro o].
    destruct o; [apply pres_ret|apply pres_rt_error].
Qed.

Lemma pres_lift_vres : forall p src r tl top tr, mpres p (lift_vres src r tl top tr).
Proof.
  intros p src r tl top tr. unfold lift_vres.
  destruct r; try apply pres_rt_error; [apply pres_m_alloc|apply pres_fail].
Qed.

Lemma pres_set_obj_fresh : forall p oid (g : heap -> list (bytes * addr)),
  p <= oid -> mpres p (upd_heap (fun h => set_obj h oid (g h))).
Proof.
  intros p oid g Ho s r s' _ E. unfold upd_heap in E. inversion E; subst.
  split; [|auto]. cbn [hp]. now apply hp_below_set_obj.
Qed.

(* auto-vivification of an unset cell *)
Lemma vivify_stp : forall p (mk : heap -> value * heap) lc s r s',
  (mk = new_empty_array \/ mk = new_empty_object) ->
  load (hp s) lc = VUnknown -> p <= next (hp s) ->
  (let* nv := with_heap mk in m_store lc nv ;;; ret nv) s = (r, s') -> stp p s s'.
Proof.
  intros p mk lc s r s' Hmk Hu Hp E.
  unfold bind, with_heap, m_store, upd_heap, ret in E.
  destruct Hmk; subst mk.
  - unfold new_empty_array in E. destruct (new_back (hp s) []) as [b h1] eqn:Eb.
    cbn in E. inversion E; subst. split; [|auto]. cbn [hp].
    replace h1 with (snd (new_back (hp s) [])) by now rewrite Eb.
    eapply hp_below_trans; [apply hp_below_new_back; exact Hp|].
    apply hp_below_store_unknown. exact Hu.
  - unfold new_empty_object in E. destruct (new_obj (hp s) []) as [b h1] eqn:Eb.
    cbn in E. inversion E; subst. split; [|auto]. cbn [hp].
    replace h1 with (snd (new_obj (hp s) [])) by now rewrite Eb.
    eapply hp_below_trans; [apply hp_below_new_obj; exact Hp|].
    apply hp_below_store_unknown. exact Hu.
Qed.

Lemma uop_inc : forall t, uop_of t = UInc -> t = TPlusPlus.
Proof. intros t H. destruct t; cbn in H; congruence. Qed.
Lemma uop_dec : forall t, uop_of t = UDec -> t = TMinusMinus.
Proof. intros t H. destruct t; cbn in H; congruence. Qed.
Lemma bop_assign : forall t, bop_of t = BAssign -> t = TEqual.
Proof. intros t H. destruct t; cbn in H; congruence. Qed.

(* ================================================================== *)
(* the evaluator on the pure fragment                                   *)

Section Ev.
  Variables (src : bytes) (funcs : list func) (fz : bool).
  Notation ev := (eval_expr src funcs fz).
  Notation evl := (eval_expr_list src funcs fz).
  Notation evu := (eval_unary src funcs fz).
  Notation evb := (eval_binary src funcs fz).

  (* the field loop of an object literal *)
  Section ObjFields.
    Variables (f : nat) (t : token) (oid : positive).
    Fixpoint obj_fields (l : list (bytes * expr)) : M unit :=
      match l with
      | [] => ret tt
      | (k, x) :: r =>
        let* vc := ev f x in
        let* v := m_load vc in
        match copy_value v with
        | None => rt_error src t
        | Some v' =>
          let* c := m_alloc v' in
          upd_heap (fun h => set_obj h oid (assoc_set k c (get_obj h oid))) ;;;
          obj_fields r
        end
      end.
  End ObjFields.

  Lemma ev_O : forall e, ev O e = fail Fuel.
  Proof. reflexivity. Qed.
  Lemma ev_lit : forall f t, ev (S f) (ELit t) =
    match litk_of (ttag t) with
    | LStr =>
      let* s := tok_string src t in
      match eval_string s with
      | Some b => m_alloc (VStr b)
      | None => rt_error src t
      end
    | LRegex => let* s := tok_string src t in m_alloc (VRegex s)
    | LNum =>
      let* s := tok_string src t in
      match parse_float s with
      | PFok x => m_alloc (VNum x)
      | PFunsupported => fail Unsupp
      | _ => rt_error src t
      end
    | LTrue => bool_cell true
    | LFalse => bool_cell false
    | LNull => nil_cell
    | LOther => fail Panic
    end.
  Proof. reflexivity. Qed.
  Lemma ev_id : forall f t, ev (S f) (EId t) = get_identifier src t.
  Proof. reflexivity. Qed.
  Lemma ev_arr : forall f t items, ev (S f) (EArr t items) =
    (let* cells := evl f items true in
     let* v := with_heap (fun h => new_array_of h cells) in
     m_alloc v).
  Proof. reflexivity. Qed.
  Lemma ev_obj : forall f t items, ev (S f) (EObj t items) =
    (let* o := with_heap new_empty_object in
     match o with
     | VObj oid => obj_fields f t oid items ;;; m_alloc o
     | _ => fail Panic
     end).
  Proof. reflexivity. Qed.
  Lemma ev_un : forall f x op pf, ev (S f) (EUn x op pf) = evu f x op pf.
  Proof. reflexivity. Qed.
  Lemma ev_bin : forall f l r op, ev (S f) (EBin l r op) = evb f l r op.
  Proof. reflexivity. Qed.

  Lemma evl_O : forall es copy, evl O es copy = fail Fuel.
  Proof. reflexivity. Qed.
  Lemma evl_S : forall f es copy, evl (S f) es copy =
    match es with
    | [] => ret []
    | x :: rest =>
      let* c := ev f x in
      let* c' :=
        (if copy then
           let* v := m_load c in
           match copy_value v with
           | Some v' => m_alloc v'
           | None => rt_error src (expr_token x)
           end
         else ret c) in
      let* cs := evl f rest copy in
      ret (c' :: cs)
    end.
  Proof. reflexivity. Qed.

  Lemma evu_O : forall x op pf, evu O x op pf = fail Fuel.
  Proof. reflexivity. Qed.
  Lemma evu_S : forall f x op postfix, evu (S f) x op postfix =
    (let* vc := ev f x in
     let* v := m_load vc in
     let incdec (up : bool) : M addr :=
       let* old := as_float_m v in
       let newv := if up then f_add old f_one else f_sub old f_one in
       let* nc := m_alloc (VNum newv) in
       let* stored := eval_assignment src f op vc nc in
       if postfix then m_alloc (VNum old)
       else let* sv := m_load stored in m_alloc sv in
     match uop_of (ttag op) with
     | UNot | UPos | UNeg => lift_vres src (unop_value (uop_of (ttag op)) v) op op op
     | UInc => incdec true
     | UDec => incdec false
     | UOther => rt_error src op
     end).
  Proof. reflexivity. Qed.

  Lemma evb_O : forall l r op, evb O l r op = fail Fuel.
  Proof. reflexivity. Qed.
  Lemma evb_S : forall f l r op, evb (S f) l r op =
    (let* lc := ev f l in
     let* lv := m_load lc in
     let o := bop_of (ttag op) in
     let with_right (k : addr -> value -> value -> M addr) : M addr :=
       let* rc := ev f r in
       let* rv := m_load rc in
       let* lv2 := m_load lc in
       k rc lv2 rv in
     let by_value : M addr :=
       with_right (fun rc lv rv =>
         lift_vres src (binop_value o lv rv) (expr_token l) op (expr_token r)) in
     match o with
     | BAnd =>
       if is_truthy lv then
         let* rc := ev f r in
         let* rv := m_load rc in
         bool_cell (is_truthy rv)
       else bool_cell false
     | BOr =>
       if is_truthy lv then bool_cell true
       else
         let* rc := ev f r in
         let* rv := m_load rc in
         bool_cell (is_truthy rv)
     | BIs =>
       match r with
       | EId t =>
         match isk_of (ttag t) with
         | IsFunction => bool_cell (match lv with VFn _ => true | _ => false end)
         | IsNull => bool_cell (match lv with VNil _ => true | _ => false end)
         | IsName =>
           let* name := tok_string src t in
           bool_cell (is_type_name lv name)
         end
       | _ => rt_error src (expr_token r)
       end
     | BMember =>
       with_right (fun rc lv rv =>
         let* lv' :=
           match lv with
           | VUnknown =>
             let* nv := with_heap (match rv with
                                   | VNum _ => new_empty_array
                                   | _ => new_empty_object end) in
             m_store lc nv ;;; ret nv
           | _ => ret lv
           end in
         let* h := get_heap in
         match get_member h lv' rv with
         | GmErr => rt_error src (expr_token l)
         | GmNone =>
           let key := match rv with VNum x => KNum x | _ => KStr (to_str rv) end in
           m_alloc (VNil (Some (lc, key)))
         | GmFresh v => m_alloc v
         | GmNative nf => m_alloc (VNative nf (Some lc))
         | GmCell c =>
           let* cv := m_load c in
           match cv with
           | VNative nf _ => m_alloc (VNative nf (Some lc))
           | _ => ret c
           end
         end)
     | BLt | BGt | BEq | BNe | BLe | BGe
     | BAdd | BSub | BMul | BDiv | BMod
     | BMatch | BNoMatch => by_value
     | BAssign => with_right (fun rc _ _ => eval_assignment src f (expr_token l) lc rc)
     | BOther => with_right (fun _ _ _ => rt_error src op)
     end).
  Proof. reflexivity. Qed.

  Definition pure_inv (n : nat) : Prop :=
    (forall e, pure_expr e = true -> forall p, mpres p (ev n e)) /\
    (forall es copy, forallb pure_expr es = true -> forall p, mpres p (evl n es copy)) /\
    (forall x op pf, pure_expr (EUn x op pf) = true -> forall p, mpres p (evu n x op pf)) /\
    (forall l r op, pure_expr (EBin l r op) = true -> forall p, mpres p (evb n l r op)).

  Lemma pres_bool_cell : forall p b, mpres p (bool_cell b).
  Proof. intros. apply pres_m_alloc. Qed.
  Lemma pres_nil_cell : forall p, mpres p nil_cell.
  Proof. intros. apply pres_m_alloc. Qed.

  Lemma pres_obj_fields : forall f t oid,
    (forall e, pure_expr e = true -> forall p, mpres p (ev f e)) ->
    forall l, forallb (fun kv => pure_expr (snd kv)) l = true ->
    forall p, p <= oid -> mpres p (obj_fields f t oid l).
  Proof.
    intros f t oid IH l. induction l as [|[k x] l IHl]; intros Hl p Hp; cbn [obj_fields].
    - apply pres_ret.
    - cbn [forallb snd] in Hl. apply andb_true_iff in Hl. destruct Hl as [Hx Hl].
      apply pres_bind; [now apply IH|intro vc].
      apply pres_bind; [apply pres_m_load|intro v].
      destruct (copy_value v); [|apply pres_rt_error].
      apply pres_bind; [apply pres_m_alloc|intro c].
      apply pres_bind; [|intro; now apply IHl].
      apply (pres_set_obj_fresh p oid (fun h => assoc_set k c (get_obj h oid))). exact Hp.
  Qed.

  Lemma pure_inv_all : forall n, pure_inv n.
  Proof.
    induction n as [|f IH].
    - unfold pure_inv. split; [|split; [|split]].
      + intros e _ p. rewrite ev_O. apply pres_fail.
      + intros es copy _ p. rewrite evl_O. apply pres_fail.
      + intros x op pf _ p. rewrite evu_O. apply pres_fail.
      + intros l r op _ p. rewrite evb_O. apply pres_fail.
    - destruct IH as (IHe & IHl & IHu & IHb). unfold pure_inv. split; [|split; [|split]].
      + (* expressions *)
        intros e He p. destruct e as [t|t|t items|t items|x op pf|l r op|fn args|t v cases];
          cbn [pure_expr] in He; try discriminate.
        * rewrite ev_lit. destruct (litk_of (ttag t)).
          -- apply pres_bind; [apply pres_tok_string|intro s0].
             destruct (eval_string s0); [apply pres_m_alloc|apply pres_rt_error].
          -- apply pres_bind; [apply pres_tok_string|intro s0]. apply pres_m_alloc.
          -- apply pres_bind; [apply pres_tok_string|intro s0].
             destruct (parse_float s0); try apply pres_rt_error;
               [apply pres_m_alloc|apply pres_fail].
          -- apply pres_bool_cell.
          -- apply pres_bool_cell.
          -- apply pres_nil_cell.
          -- apply pres_fail.
        * rewrite ev_id. apply pres_get_identifier.
        * rewrite ev_arr. apply pres_bind; [now apply IHl|intro cells].
          apply pres_bind; [apply pres_new_array_of|intro v]. apply pres_m_alloc.
        * rewrite ev_obj. intros s r s' Hp E.
          unfold bind at 1 in E. unfold with_heap, new_empty_object in E.
          destruct (new_obj (hp s) []) as [oid h1] eqn:Eo.
          assert (Hoid : oid = next (hp s)) by (unfold new_obj in Eo; now inversion Eo).
          assert (Hh1 : h1 = snd (new_obj (hp s) [])) by now rewrite Eo.
          set (s1 := mkSt h1 (frames s) (rule_root s) (root s) (retval s) (io s)) in E.
          assert (H01 : stp p s s1).
          { split; [|auto]. subst s1. cbn [hp]. rewrite Hh1. now apply hp_below_new_obj. }
          eapply stp_trans; [exact H01|].
          assert (HP : mpres p (obj_fields f t oid items ;;; m_alloc (VObj oid))).
          { apply pres_bind; [|intro; apply pres_m_alloc].
            apply pres_obj_fields; auto. subst oid. exact Hp. }
          apply (HP s1 r s'); [|exact E].
          pose proof (stp_next _ _ _ H01). lia.
        * rewrite ev_un. now apply IHu.
        * rewrite ev_bin. now apply IHb.
      + (* lists *)
        intros es copy Hes p. rewrite evl_S. destruct es as [|x rest]; [apply pres_ret|].
        cbn [forallb] in Hes. apply andb_true_iff in Hes. destruct Hes as [Hx Hr].
        apply pres_bind; [now apply IHe|intro c].
        apply pres_bind.
        * destruct copy; [|apply pres_ret].
          apply pres_bind; [apply pres_m_load|intro v].
          destruct (copy_value v); [apply pres_m_alloc|apply pres_rt_error].
        * intro c'. apply pres_bind; [now apply IHl|intro cs]. apply pres_ret.
      + (* unary *)
        intros x op pf He p. cbn [pure_expr] in He.
        apply andb_true_iff in He. destruct He as [He Hx].
        apply andb_true_iff in He. destruct He as [Hinc Hdec].
        rewrite evu_S.
        apply pres_bind; [now apply IHe|intro vc].
        apply pres_bind; [apply pres_m_load|intro v]. cbv zeta.
        destruct (uop_of (ttag op)) eqn:U; try apply pres_lift_vres; try apply pres_rt_error.
        * apply uop_inc in U. rewrite U in Hinc. discriminate.
        * apply uop_dec in U. rewrite U in Hdec. discriminate.
      + (* binary *)
        intros l r op He p. cbn [pure_expr] in He.
        apply andb_true_iff in He. destruct He as [He Hr].
        apply andb_true_iff in He. destruct He as [Hop Hl].
        rewrite evb_S.
        apply pres_bind; [now apply IHe|intro lc].
        apply pres_bind; [apply pres_m_load|intro lv]. cbv zeta.
        assert (HR : forall k : addr -> value -> value -> M addr,
                   (forall rc lv2 rv, mpres p (k rc lv2 rv)) ->
                   mpres p (let* rc := ev f r in let* rv := m_load rc in
                           let* lv2 := m_load lc in k rc lv2 rv)).
        { intros k Hk. apply pres_bind; [now apply IHe|intro rc].
          apply pres_bind; [apply pres_m_load|intro rv].
          apply pres_bind; [apply pres_m_load|intro lv2]. apply Hk. }
        assert (HRB : mpres p (let* rc := ev f r in let* rv := m_load rc in
                              bool_cell (is_truthy rv))).
        { apply pres_bind; [now apply IHe|intro rc].
          apply pres_bind; [apply pres_m_load|intro rv]. apply pres_bool_cell. }
        destruct (bop_of (ttag op)) eqn:B;
          try (apply HR; intros; apply pres_lift_vres).
        * destruct (is_truthy lv); [exact HRB|apply pres_bool_cell].
        * destruct (is_truthy lv); [apply pres_bool_cell|exact HRB].
        * destruct r; try apply pres_rt_error.
          destruct (isk_of (ttag t)); try apply pres_bool_cell.
          apply pres_bind; [apply pres_tok_string|intro]. apply pres_bool_cell.
        * (* member access *)
          apply pres_bind; [now apply IHe|intro rc].
          apply pres_bind; [apply pres_m_load|intro rv].
          apply pres_load_then. intros s r0 s' Hp E.
          assert (HK : forall lv', mpres p (
             let* h := get_heap in
             match get_member h lv' rv with
             | GmErr => rt_error src (expr_token l)
             | GmNone =>
               let key := match rv with VNum x => KNum x | _ => KStr (to_str rv) end in
               m_alloc (VNil (Some (lc, key)))
             | GmFresh v => m_alloc v
             | GmNative nf => m_alloc (VNative nf (Some lc))
             | GmCell c =>
               let* cv := m_load c in
               match cv with
               | VNative nf _ => m_alloc (VNative nf (Some lc))
               | _ => ret c
               end
             end)).
          { intro lv'. apply pres_bind; [apply pres_get_heap|intro h].
            destruct (get_member h lv' rv); try apply pres_m_alloc; try apply pres_rt_error.
            apply pres_bind; [apply pres_m_load|intro cv].
            destruct cv; try apply pres_ret. apply pres_m_alloc. }
          eapply stp_bind_at; [exact Hp|exact E| |exact HK].
          intros r1 s1 E1.
          destruct (load (hp s) lc) eqn:Elc;
            try (inversion E1; subst; apply stp_refl).
          eapply (vivify_stp p _ lc s r1 s1); [|exact Elc|exact Hp|exact E1].
          destruct rv; auto.
        * (* assignment: excluded *)
          apply bop_assign in B. rewrite B in Hop. discriminate.
        * apply HR. intros. apply pres_rt_error.
  Qed.

  Theorem read_pure_st : forall n e, pure_expr e = true -> forall s r s',
    ev n e s = (r, s') ->
    heap_preserved (hp s) (hp s') /\ root s' = root s /\ rule_root s' = rule_root s.
  Proof.
    intros n e He s r s' E.
    destruct (pure_inv_all n) as (H & _).
    destruct (H e He (next (hp s)) s r s' (Pos.le_refl _) E) as (H1 & H2 & H3).
    split; [now apply heap_preserved_below|auto].
  Qed.

  Theorem read_pure : forall n e, pure_expr e = true -> forall s r s',
    ev n e s = (r, s') -> heap_preserved (hp s) (hp s').
  Proof. intros n e He s r s' E. now destruct (read_pure_st n e He s r s' E). Qed.

  Theorem read_pure_list : forall n es copy, forallb pure_expr es = true -> forall s r s',
    evl n es copy s = (r, s') -> heap_preserved (hp s) (hp s').
  Proof.
    intros n es copy He s r s' E.
    destruct (pure_inv_all n) as (_ & H & _).
    destruct (H es copy He (next (hp s)) s r s' (Pos.le_refl _) E) as (H1 & _).
    now apply heap_preserved_below.
  Qed.
End Ev.

(* ================================================================== *)
(* documents                                                            *)

Scheme doc_at_mind := Minimality for doc_at Sort Prop
  with doc_cells_mind := Minimality for doc_cells Sort Prop
  with doc_fields_mind := Minimality for doc_fields Sort Prop.
Combined Scheme doc_mutind from doc_at_mind, doc_cells_mind, doc_fields_mind.

Lemma doc_not_unknown : forall h p v j, doc_at h p v j -> v <> VUnknown.
Proof. intros h p v j H. destruct H; discriminate. Qed.

Lemma doc_mono : forall h p q v j, doc_at h p v j -> p <= q -> doc_at h q v j.
Proof.
  intros h p q v j H Hpq. destruct H; try constructor; auto; lia.
Qed.

(* a document only depends on what lies below its bound *)
Lemma doc_stable : forall h,
  (forall p v j, doc_at h p v j -> forall h', hp_below p h h' -> doc_at h' p v j) /\
  (forall p cs js, doc_cells h p cs js -> forall h', hp_below p h h' -> doc_cells h' p cs js) /\
  (forall p cs js, doc_fields h p cs js -> forall h', hp_below p h h' -> doc_fields h' p cs js).
Proof.
  intro h. apply doc_mutind.
  - intros. constructor.
  - intros. constructor.
  - intros. constructor.
  - intros. constructor.
  - intros p b js Hb _ IH h' Hh.
    assert (Eb : get_back h' b = get_back h b) by (destruct Hh as (_ & B & _); now apply B).
    rewrite <- Eb. apply DocArr; [exact Hb|]. rewrite Eb. apply IH.
    eapply hp_below_mono; [|exact Hh]. lia.
  - intros p o fs Ho _ IH h' Hh.
    assert (Eo : get_obj h' o = get_obj h o) by (destruct Hh as (_ & _ & O & _); now apply O).
    apply DocObj; [exact Ho|]. rewrite Eo. apply IH.
    eapply hp_below_mono; [|exact Hh]. lia.
  - intros. constructor.
  - intros p c cs j js Hc Hu _ IHd _ IHc h' Hh.
    assert (El : load h' c = load h c) by (destruct Hh as (_ & _ & _ & C); now apply C).
    constructor; auto; rewrite El; auto.
  - intros. constructor.
  - intros p k c cs j js Hc Hu _ IHd _ IHc h' Hh.
    assert (El : load h' c = load h c) by (destruct Hh as (_ & _ & _ & C); now apply C).
    constructor; auto; rewrite El; auto.
Qed.

Lemma doc_at_stable : forall h p v j h', doc_at h p v j -> hp_below p h h' -> doc_at h' p v j.
Proof. intros h p v j h' H. now apply (proj1 (doc_stable h)). Qed.

(* heap_preserved keeps every document that existed *)
Theorem doc_preserved : forall h h' p v j,
  doc_at h p v j -> p <= next h -> heap_preserved h h' -> doc_at h' p v j.
Proof.
  intros h h' p v j Hd Hp Hh. eapply doc_at_stable; [exact Hd|].
  eapply hp_below_mono; [exact Hp|]. now apply heap_preserved_below.
Qed.

(* ---------- NewValue builds a document ---------- *)

Fixpoint nv_items (l : list jvalue) (h : heap) : list addr * heap :=
  match l with
  | [] => ([], h)
  | x :: r =>
    let '(v, h1) := new_value x h in
    let '(a, h2) := alloc h1 v in
    let '(rest, h3) := nv_items r h2 in
    (a :: rest, h3)
  end.

Fixpoint nv_fields (l : list (bytes * jvalue)) (h : heap) : list (bytes * addr) * heap :=
  match l with
  | [] => ([], h)
  | (k, x) :: r =>
    let '(v, h1) := new_value x h in
    let '(a, h2) := alloc h1 v in
    let '(rest, h3) := nv_fields r h2 in
    ((k, a) :: rest, h3)
  end.

Lemma new_value_arr : forall items h,
  new_value (JArr items) h = let '(cs, h1) := nv_items items h in new_array_of h1 cs.
Proof. reflexivity. Qed.

Lemma new_value_obj : forall fields h,
  new_value (JObj fields) h =
  let '(kvs, h1) := nv_fields fields h in let '(o, h2) := new_obj h1 kvs in (VObj o, h2).
Proof. reflexivity. Qed.

Definition nv_spec (x : jvalue) : Prop :=
  forall h v h', new_value x h = (v, h') ->
    hp_below (next h) h h' /\ doc_at h' (next h') v x.

Lemma nv_step : forall x h v h1 a h2 h3 (P : Prop),
  nv_spec x -> new_value x h = (v, h1) -> alloc h1 v = (a, h2) ->
  hp_below (next h2) h2 h3 ->
  hp_below (next h) h h3 /\ a < next h3 /\ load h3 a <> VUnknown /\
  doc_at h3 (next h3) (load h3 a) x.
Proof.
  intros x h v h1 a h2 h3 P Hx E1 E2 H23.
  destruct (Hx _ _ _ E1) as [H01 Hd].
  assert (Ea : a = next h1) by (unfold alloc in E2; now inversion E2).
  assert (Eh2 : h2 = snd (alloc h1 v)) by now rewrite E2.
  assert (N2 : next h2 = Pos.succ (next h1)) by (subst h2; reflexivity).
  assert (H12 : hp_below (next h1) h1 h2) by (subst h2; apply hp_below_alloc; lia).
  assert (N01 : next h <= next h1) by (destruct H01; auto).
  assert (N23 : next h2 <= next h3) by (destruct H23; auto).
  assert (Hv : v <> VUnknown) by (eapply doc_not_unknown; eauto).
  assert (L2 : load h2 a = v).
  { subst h2 a. rewrite load_alloc. now rewrite Pos.eqb_refl. }
  assert (L3 : load h3 a = v).
  { rewrite <- L2. destruct H23 as (_ & _ & _ & C). apply C; [lia|]. now rewrite L2. }
  assert (H13 : hp_below (next h1) h1 h3).
  { eapply hp_below_trans; [exact H12|]. eapply hp_below_mono; [|exact H23]. lia. }
  split; [|split; [|split]].
  - eapply hp_below_trans; [exact H01|]. eapply hp_below_mono; [|exact H13]. lia.
  - lia.
  - now rewrite L3.
  - rewrite L3. eapply doc_mono; [eapply doc_at_stable; [exact Hd|exact H13]|]. lia.
Qed.

Lemma nv_items_doc : forall l, Forall nv_spec l ->
  forall h cs h', nv_items l h = (cs, h') ->
    hp_below (next h) h h' /\ doc_cells h' (next h') cs l.
Proof.
  induction l as [|x r IH]; intros HF h cs h' E; cbn [nv_items] in E.
  - inversion E; subst. split; [apply hp_below_refl|constructor].
  - inversion HF as [|? ? Hx Hr]; subst.
    destruct (new_value x h) as [v h1] eqn:E1.
    destruct (alloc h1 v) as [a h2] eqn:E2.
    destruct (nv_items r h2) as [rest h3] eqn:E3.
    inversion E; subst. destruct (IH Hr _ _ _ E3) as [H23 Hc].
    destruct (nv_step x h v h1 a h2 h' True Hx E1 E2 H23) as (H03 & Ha & Hu & Hd).
    split; [exact H03|]. constructor; auto.
Qed.

Lemma nv_fields_doc : forall l, Forall (fun kv => nv_spec (snd kv)) l ->
  forall h cs h', nv_fields l h = (cs, h') ->
    hp_below (next h) h h' /\ doc_fields h' (next h') cs l.
Proof.
  induction l as [|[k x] r IH]; intros HF h cs h' E; cbn [nv_fields] in E.
  - inversion E; subst. split; [apply hp_below_refl|constructor].
  - inversion HF as [|? ? Hx Hr]; subst. cbn [snd] in Hx.
    destruct (new_value x h) as [v h1] eqn:E1.
    destruct (alloc h1 v) as [a h2] eqn:E2.
    destruct (nv_fields r h2) as [rest h3] eqn:E3.
    inversion E; subst. destruct (IH Hr _ _ _ E3) as [H23 Hc].
    destruct (nv_step x h v h1 a h2 h' True Hx E1 E2 H23) as (H03 & Ha & Hu & Hd).
    split; [exact H03|]. constructor; auto.
Qed.

Theorem new_value_doc : forall j, nv_spec j.
Proof.
  induction j as [| b | f | s | l IH | l IH] using jvalue_ind'; intros h v h' E.
  - inversion E; subst. split; [apply hp_below_refl|constructor].
  - inversion E; subst. split; [apply hp_below_refl|constructor].
  - inversion E; subst. split; [apply hp_below_refl|constructor].
  - inversion E; subst. split; [apply hp_below_refl|constructor].
  - rewrite new_value_arr in E. destruct (nv_items l h) as [cs h1] eqn:E1.
    destruct (nv_items_doc l IH _ _ _ E1) as [H01 Hc].
    unfold new_array_of in E. destruct (new_back h1 cs) as [b h2] eqn:E2.
    inversion E; subst v h'.
    assert (Eb : b = next h1) by (unfold new_back in E2; now inversion E2).
    assert (Eh2 : h2 = snd (new_back h1 cs)) by now rewrite E2.
    assert (H12 : hp_below (next h1) h1 h2) by (subst h2; apply hp_below_new_back; lia).
    assert (Gb : get_back h2 b = cs).
    { subst h2 b. rewrite get_back_new_back. now rewrite Pos.eqb_refl. }
    assert (N2 : next h2 = Pos.succ (next h1)) by (subst h2; reflexivity).
    split.
    + eapply hp_below_trans; [exact H01|]. eapply hp_below_mono; [|exact H12].
      destruct H01; auto.
    + rewrite <- Gb. apply DocArr; [lia|]. rewrite Gb. subst b.
      apply (proj1 (proj2 (doc_stable h1)) _ _ _ Hc _ H12).
  - rewrite new_value_obj in E. destruct (nv_fields l h) as [cs h1] eqn:E1.
    destruct (nv_fields_doc l IH _ _ _ E1) as [H01 Hc].
    destruct (new_obj h1 cs) as [o h2] eqn:E2.
    inversion E; subst v h'.
    assert (Eb : o = next h1) by (unfold new_obj in E2; now inversion E2).
    assert (Eh2 : h2 = snd (new_obj h1 cs)) by now rewrite E2.
    assert (H12 : hp_below (next h1) h1 h2) by (subst h2; apply hp_below_new_obj; lia).
    assert (Gb : get_obj h2 o = cs).
    { subst h2 o. rewrite get_obj_new_obj. now rewrite Pos.eqb_refl. }
    assert (N2 : next h2 = Pos.succ (next h1)) by (subst h2; reflexivity).
    split.
    + eapply hp_below_trans; [exact H01|]. eapply hp_below_mono; [|exact H12].
      destruct H01; auto.
    + apply DocObj; [lia|]. rewrite Gb. subst o.
      apply (proj2 (proj2 (doc_stable h1)) _ _ _ Hc _ H12).
Qed.

(* no cell of a document created by NewValue is unset, nor is its root value *)
Corollary new_value_no_unknown : forall j h v h',
  new_value j h = (v, h') -> v <> VUnknown /\ doc_at h' (next h') v j /\ heap_preserved h h'.
Proof.
  intros j h v h' E. destruct (new_value_doc j h v h' E) as [H1 H2].
  split; [eapply doc_not_unknown; eauto|]. split; [exact H2|]. now apply heap_preserved_below.
Qed.

(* C09, the document form: a pure expression leaves every document intact *)
Theorem document_unchanged_doc : forall src funcs fz n e, pure_expr e = true ->
  forall s r s' p v j,
    doc_at (hp s) p v j -> p <= next (hp s) ->
    eval_expr src funcs fz n e s = (r, s') ->
    doc_at (hp s') p v j.
Proof.
  intros src funcs fz n e He s r s' p v j Hd Hp E.
  eapply doc_preserved; [exact Hd|exact Hp|]. eapply read_pure; eauto.
Qed.

(* the root cell the driver builds for a decoded document (process_value / eval_selector:
   NewValue, then NewCell): a document below the root cell, which is itself not unset *)
Lemma driver_root_doc : forall j h,
  let nv := new_value j h in
  let al := alloc (snd nv) (fst nv) in
  doc_at (snd al) (fst al) (load (snd al) (fst al)) j /\
  fst al < next (snd al) /\ load (snd al) (fst al) <> VUnknown.
Proof.
  intros j h nv al.
  assert (E : new_value j h = (fst nv, snd nv)) by apply surjective_pairing.
  destruct (new_value_doc j h _ _ E) as [_ Hd].
  assert (L : load (snd al) (fst al) = fst nv).
  { subst al. rewrite load_alloc. cbn [fst alloc]. now rewrite Pos.eqb_refl. }
  rewrite L. split; [|split].
  - eapply doc_at_stable; [exact Hd|]. subst al. apply hp_below_alloc. cbn [fst alloc]. lia.
  - subst al. cbn. lia.
  - eapply doc_not_unknown; eauto.
Qed.
