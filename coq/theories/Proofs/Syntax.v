(* C06: the Pratt parser of Syntax/Parser.v, driven by the generated rule table,
   parses every rendering of a well-formed expression -- minimal parentheses, full
   parentheses, or anything in between -- back to that expression. *)
From JQ Require Import Base.Bytes Syntax.Token Syntax.Lexer Syntax.Ast Syntax.Parser Gen.Generated.
From JQ Require Import Spec.PrecGrammar Proofs.SyntaxLex.
From Coq Require Import Lia Arith ZifyN ZifyNat ZifyBool.
Open Scope nat_scope.

(* ================================================================= the table *)

(* what the documented grammar says about each token, in the parser's vocabulary *)
Definition spec_infix_fn (t : tag) : infix_fn :=
  match t with
  | TLParen => IfCall
  | TLSquare => IfComputedMember
  | TDot => IfMember
  | TPlusPlus | TMinusMinus => IfPostfix
  | TIs => IfIs
  | TEqual => IfAssign
  | _ => if (is_binop t || is_assign_op t)%bool then IfBinary else IfNone
  end.

(* the threshold at which the generic binary rule parses its right operand *)
Definition model_right_level (t : tag) : nat :=
  let p0 := prec_of t in if Nat.eqb p0 (prec_index PrecAssign) then p0 else S p0.

Definition table_row_ok (t : tag) : bool :=
  (* same infix role *)
  match rinfix (rule_of t), spec_infix_fn t with
  | IfNone, IfNone | IfComputedMember, IfComputedMember | IfMember, IfMember | IfCall, IfCall
  | IfBinary, IfBinary | IfAssign, IfAssign | IfPostfix, IfPostfix | IfIs, IfIs => true
  | _, _ => false
  end &&
  (* same level, for every token with an infix role *)
  match spec_infix_fn t with IfNone => true | _ => Nat.eqb (prec_of t) (spec_infix_level t) end &&
  (* same grouping, for the two-operand operators *)
  match spec_infix_fn t with
  | IfBinary => Nat.eqb (model_right_level t) (spec_right_level t)
  | IfAssign => Nat.eqb (prec_of t) (spec_right_level t)
  | _ => true
  end &&
  (* same prefix operators *)
  Bool.eqb (match rprefix (rule_of t) with PfUnary => true | _ => false end) (is_prefix_op t) &&
  (* a token that can follow a complete operand never has the prefix operators' level *)
  (match spec_infix_fn t with IfNone => true | _ => negb (Nat.eqb (prec_of t) prefix_level) end).

Lemma table_matches_spec :
  forallb table_row_ok all_tags = true /\
  prec_index PrecUnary = prefix_level /\
  (forall t, compound_base t <> None <-> (is_assign_op t = true /\ t <> TEqual)) /\
  (forall b, is_compound_base b = true -> compound_base (compound_tag b) = Some b).
Proof.
  split; [vm_compute; reflexivity|]. split; [reflexivity|]. split.
  - intro t. destruct t; simpl; split; intro H; try (destruct H as [H1 H2]); try congruence;
      try (split; congruence).
  - intros b H. destruct b; try discriminate H; reflexivity.
Qed.

Lemma all_tags_complete : forall t, In t all_tags.
Proof. destruct t; simpl; tauto. Qed.

Lemma table_row : forall t, table_row_ok t = true.
Proof.
  intro t. destruct table_matches_spec as [H _].
  rewrite forallb_forall in H. apply H. apply all_tags_complete.
Qed.

(* facts about single rows, read off the generated table *)
Lemma binop_rule : forall op, is_binop op = true ->
  rinfix (rule_of op) = IfBinary /\ prec_of op = binop_level op /\ compound_base op = None /\
  Nat.eqb (prec_of op) (prec_index PrecAssign) = false /\ 2 <= binop_level op <= 5.
Proof. intros op H. destruct op; try discriminate H; vm_compute; repeat split; lia. Qed.

Lemma compound_rule : forall b, is_compound_base b = true ->
  rinfix (rule_of (compound_tag b)) = IfBinary /\ prec_of (compound_tag b) = 1 /\
  compound_base (compound_tag b) = Some b /\ is_binop b = true.
Proof. intros b H. destruct b; try discriminate H; vm_compute; repeat split. Qed.

Lemma prefix_rule : forall op, is_prefix_op op = true -> rprefix (rule_of op) = PfUnary.
Proof. intros op H. destruct op; try discriminate H; reflexivity. Qed.

Lemma postfix_rule : forall op, is_postfix_op op = true ->
  rinfix (rule_of op) = IfPostfix /\ prec_of op = 6.
Proof. intros op H. destruct op; try discriminate H; split; reflexivity. Qed.

(* ================================================================= parser state *)

Definition hd_tag (ts : list stoken) : tag :=
  match ts with [] => TEOF | k :: _ => stag k end.

Definition cur_matches (src : bytes) (tok : token) (ts : list stoken) : Prop :=
  match ts with [] => ttag tok = TEOF | k :: _ => tok_matches src tok k end.

(* the fixed context of a parse: the laid-out text (each token with the gap in front of it,
   then a trailing gap) and the two mode flags of the parser *)
Record pctx := mkCtx {
  c_items : list (bytes * stoken);
  c_trail : bytes;
  c_loop : bool;      (* Parser.inLoop *)
  c_fn : bool         (* Parser.inFunction *)
}.
Definition csrc (c : pctx) : bytes := lay (c_items c) (c_trail c).
Coercion csrc : pctx >-> bytes.

(* the gap in front of token number i; the trailing gap for i = number of tokens *)
Definition gap_at (c : pctx) (i : nat) : bytes := nth i (map fst (c_items c)) (c_trail c).
(* the text from the gap of token j on; nothing once the end has been read *)
Definition rest_text (c : pctx) (j : nat) : bytes :=
  if j <=? length (c_items c) then lay (skipn j (c_items c)) (c_trail c) else [].

(* the parser's current token is the head of [ts], which is a suffix of the token sequence;
   its lexer is behind that token; [pend] tells whether the gap in front of it had a line end *)
Definition At (c : pctx) (st : pstate) (ts : list stoken) : Prop :=
  Gaps true (c_items c) /\ is_gap (c_trail c) /\
  psrc st = csrc c /\ pinloop st = c_loop c /\ pinfn st = c_fn c /\
  exists i, i + length ts = length (c_items c) /\ ts = map snd (skipn i (c_items c)) /\
    cur_matches c (pcur st) ts /\ lex_in c (plex st) /\ lrest (plex st) = rest_text c (S i) /\
    pend st = has_nl (gap_at c i).

Lemma at_tag : forall (src : pctx) st ts, At src st ts -> ttag (pcur st) = hd_tag ts.
Proof.
  intros src st ts (_ & _ & _ & _ & _ & i & _ & _ & H & _).
  destruct ts as [|k ts]; simpl in *; [exact H|exact (proj1 H)].
Qed.

Lemma at_cur : forall (src : pctx) st k ts, At src st (k :: ts) -> tok_matches src (pcur st) k.
Proof. intros src st k ts (_ & _ & _ & _ & _ & i & _ & _ & H & _). exact H. Qed.

Lemma skipn_cons_next : forall (A : Type) i (l : list A) x r, skipn i l = x :: r -> skipn (S i) l = r.
Proof.
  induction i as [|i IH]; intros l x r H.
  - cbn in H. subst l. reflexivity.
  - destruct l as [|y l]; [discriminate H|]. cbn [skipn] in *. apply (IH l x r H).
Qed.

Lemma nth_skipn_hd : forall (A : Type) i (l : list A) x r d, skipn i l = x :: r -> nth i l d = x.
Proof.
  induction i as [|i IH]; intros l x r d H.
  - cbn in H. subst l. reflexivity.
  - destruct l as [|y l]; [discriminate H|]. cbn [skipn nth] in *. apply (IH l x r d H).
Qed.

Lemma map_skipn : forall (A B : Type) (f : A -> B) i l, map f (skipn i l) = skipn i (map f l).
Proof. induction i as [|i IH]; intros [|x l]; cbn; auto. Qed.

Lemma advance_at : forall (src : pctx) st k ts,
  At src st (k :: ts) ->
  exists st', advance st = POk (pcur st') st' /\ At src st' ts /\ pprev st' = pcur st.
Proof.
  intros src st k ts (HG & HT & Hsrc & Hloop & Hfn & i & Hi & Hts & Hcur & Hin & Hrest & Hpend).
  cbn [length] in Hi.
  unfold rest_text in Hrest.
  destruct (Nat.leb_spec (S i) (length (c_items src))) as [Hle|Hgt]; [|blia].
  destruct (skipn i (c_items src)) as [|[g0 k0] r0] eqn:Esk; [discriminate Hts|].
  cbn [map snd] in Hts. inversion Hts as [[Ek Ets]]. subst k0.
  pose proof (skipn_cons_next _ _ _ _ _ Esk) as Esk'.
  rewrite Esk' in Hrest.
  destruct r0 as [|[g1 k1] r1].
  - (* the last token: next is the end of the text *)
    cbn [lay] in Hrest.
    destruct (nnn_trail src (plex st) (c_trail src) Hin Hrest HT) as [tok [l' [E [Htag [Hin' Hr']]]]].
    exists (mkP (psrc st) l' tok (pcur st) (has_nl (c_trail src)) (pinfn st) (pinloop st)).
    split; [|split].
    + unfold advance. rewrite E. reflexivity.
    + split; [exact HG|]. split; [exact HT|]. split; [exact Hsrc|]. split; [exact Hloop|].
      split; [exact Hfn|]. exists (S i). subst ts. cbn [map length] in *.
      split; [blia|]. split; [rewrite Esk'; reflexivity|]. split; [exact Htag|]. split; [exact Hin'|].
      split.
      * cbn [plex]. rewrite Hr'. unfold rest_text.
        destruct (Nat.leb_spec (S (S i)) (length (c_items src))); [blia|reflexivity].
      * cbn [pend]. unfold gap_at. rewrite nth_overflow; [reflexivity|]. rewrite map_length. blia.
    + reflexivity.
  - destruct (Gaps_nth (S i) (c_items src) true g1 k1 r1 HG Esk') as [Hg1 [Hk1 Hr1]].
    destruct (nnn_items src (plex st) g1 k1 r1 (c_trail src) Hin Hrest Hg1 Hk1 Hr1 HT)
      as [tok [l' [E [Hm [Hin' Hr']]]]].
    exists (mkP (psrc st) l' tok (pcur st) (has_nl g1) (pinfn st) (pinloop st)).
    split; [|split].
    + unfold advance. rewrite E. reflexivity.
    + split; [exact HG|]. split; [exact HT|]. split; [exact Hsrc|]. split; [exact Hloop|].
      split; [exact Hfn|]. exists (S i). subst ts. cbn [map length] in *.
      split; [blia|]. split; [rewrite Esk'; reflexivity|]. split; [exact Hm|]. split; [exact Hin'|].
      split.
      * cbn [plex]. rewrite Hr'. unfold rest_text.
        destruct (Nat.leb_spec (S (S i)) (length (c_items src))) as [_|Hgt]; [|blia].
        rewrite (skipn_cons_next _ _ _ _ _ Esk'). reflexivity.
      * cbn [pend]. unfold gap_at.
        rewrite (nth_skipn_hd _ (S i) (map fst (c_items src)) g1 (map fst r1)); [reflexivity|].
        rewrite <- map_skipn, Esk'. reflexivity.
    + reflexivity.
Qed.

Lemma Gaps_wf_skipn : forall i items first, Gaps first items ->
  forallb wf_tok (map snd (skipn i items)) = true.
Proof.
  induction i as [|i IH]; intros items first H.
  - cbn [skipn]. revert first H. induction items as [|[g k] r IHr]; intros first H; [reflexivity|].
    cbn [Gaps] in H. cbn [map snd forallb]. destruct H as [_ [_ [Hk Hr]]]. rewrite Hk. apply (IHr false Hr).
  - destruct items as [|[g k] r]; [reflexivity|]. cbn [skipn]. cbn [Gaps] in H. apply (IH r false). tauto.
Qed.

Lemma at_wf : forall (src : pctx) st ts, At src st ts -> forallb wf_tok ts = true.
Proof.
  intros src st ts (HG & _ & _ & _ & _ & i & _ & Hts & _). subst ts. eapply Gaps_wf_skipn; eauto.
Qed.

(* at the end of the text the parser can go on reading end-of-text tokens *)
Lemma advance_at_eof : forall (src : pctx) st,
  At src st [] -> exists tok st', advance st = POk tok st'.
Proof.
  intros src st (HG & HT & Hsrc & Hloop & Hfn & i & Hi & Hts & Hcur & Hin & Hrest & Hpend).
  cbn [length] in Hi. unfold rest_text in Hrest.
  destruct (Nat.leb_spec (S i) (length (c_items src))) as [Hle|Hgt]; [blia|].
  destruct (nnn_trail src (plex st) [] Hin Hrest (gap_ws [] eq_refl)) as [tok [l' [E _]]].
  eexists. eexists. unfold advance. rewrite E. reflexivity.
Qed.

Lemma consume_at : forall src st k ts tags,
  At src st (k :: ts) -> tag_in (stag k) tags = true ->
  exists st', consume tags st = POk tt st' /\ At src st' ts /\ pprev st' = pcur st.
Proof.
  intros src st k ts tags HA Hin.
  destruct (advance_at src st k ts HA) as [st' [E [HA' Hp]]].
  exists st'. split; [|split; assumption].
  unfold consume. rewrite (at_tag _ _ _ HA). simpl hd_tag. rewrite Hin.
  unfold pbind. rewrite E. reflexivity.
Qed.

(* ================================================================= unfolding *)

Definition prefix_dispatch (f : nat) (cur : token) : P expr :=
  match rprefix (rule_of (ttag cur)) with
  | PfNone => perr_cur
  | PfLiteral => advance ;; do t <- pprevtok; pret (ELit t)
  | PfIdentifier =>
    match ttag cur with
    | TDollar | TIdent => advance ;; do t <- pprevtok; pret (EId t)
    | _ => perr_cur
    end
  | PfArray =>
    consume [TLSquare] ;;
    do t <- pprevtok;
    do items <- parse_expr_list f TRSquare [];
    pret (EArr t items)
  | PfGroup =>
    consume [TLParen] ;;
    do e <- parse_expr_prec f (prec_index PrecAssign);
    consume [TRParen] ;;
    pret e
  | PfUnary =>
    advance ;;
    do op <- pprevtok;
    do e <- parse_expr_prec f (prec_index PrecUnary);
    pret (EUn e op false)
  | PfRegex =>
    do t <- lex_regex_tok;
    set_cur t ;;
    advance ;;
    pret (ELit t)
  | PfMatch => parse_match f
  | PfObject =>
    consume [TLCurly] ;;
    do t <- pprevtok;
    do items <- parse_object_items f [];
    consume [TRCurly] ;;
    pret (EObj t items)
  end.

Definition infix_dispatch (f : nat) (lhs : expr) (cur : token) : P expr :=
  match rinfix (rule_of (ttag cur)) with
  | IfNone => perr_cur
  | IfComputedMember =>
    consume [TLSquare] ;;
    do e <- parse_expr_prec f (prec_index PrecAssign);
    consume [TRSquare] ;;
    pret (EBin lhs e cur)
  | IfMember =>
    consume [TDot] ;;
    do op <- pprevtok;
    consume [TIdent] ;;
    do id <- pprevtok;
    pret (EBin lhs (ELit id) op)
  | IfCall =>
    consume [TLParen] ;;
    do args <- parse_expr_list f TRParen [];
    pret (ECall lhs args)
  | IfBinary =>
    advance ;;
    do op <- pprevtok;
    let p0 := prec_of (ttag op) in
    let p1 := if Nat.eqb p0 (prec_index PrecAssign) then p0 else S p0 in
    do e <- parse_expr_prec f p1;
    match compound_base (ttag op) with
    | Some base => pret (rewrite_compound lhs e op base)
    | None => pret (EBin lhs e op)
    end
  | IfAssign =>
    if assignable lhs then
      advance ;;
      do op <- pprevtok;
      do e <- parse_expr_prec f (prec_of (ttag op));
      match compound_base (ttag op) with
      | Some base => pret (rewrite_compound lhs e op base)
      | None => pret (EBin lhs e op)
      end
    else perr (tpos (expr_token lhs))
  | IfPostfix =>
    advance ;;
    do op <- pprevtok;
    pret (EUn lhs op true)
  | IfIs =>
    consume [TIs] ;;
    do op <- pprevtok;
    consume [TIdent; TFunction; TNull] ;;
    do rhs <- pprevtok;
    pret (EBin lhs (EId rhs) op)
  end.

Lemma expr_prec_S : forall f p st,
  parse_expr_prec (S f) p st =
  match prefix_dispatch f (pcur st) st with
  | POk lhs st' => parse_infix_loop f p lhs st'
  | PErr pos => PErr pos
  | PFuel => PFuel
  | PPanic => PPanic
  end.
Proof. reflexivity. Qed.

Lemma infix_loop_S : forall f p lhs st,
  parse_infix_loop (S f) p lhs st =
  (if Nat.leb p (prec_of (ttag (pcur st))) then
     pbind (infix_dispatch f lhs (pcur st)) (fun lhs' => parse_infix_loop f p lhs')
   else pret lhs) st.
Proof. reflexivity. Qed.

Lemma expr_list_S : forall f endt acc st,
  parse_expr_list (S f) endt acc st =
  (if (tag_eqb (ttag (pcur st)) TEOF || tag_eqb (ttag (pcur st)) endt)%bool
   then consume [endt] ;; pret (rev acc)
   else
     do e <- parse_expr_prec f (prec_index PrecAssign);
     do t2 <- pcurtag;
     if tag_eqb t2 TComma then consume_ignored TComma ;; parse_expr_list f endt (e :: acc)
     else consume [endt] ;; pret (rev (e :: acc))) st.
Proof. reflexivity. Qed.

(* ================================================================= small steps *)

Ltac mred := cbv beta iota zeta delta [pbind pprevtok pret pcurtok pcurtag perr_cur perr].

Lemma loop_exit : forall src st ts f p lhs,
  At src st ts -> prec_of (hd_tag ts) < p ->
  parse_infix_loop (S f) p lhs st = POk lhs st.
Proof.
  intros src st ts f p lhs HA Hlt. rewrite infix_loop_S. rewrite (at_tag _ _ _ HA).
  destruct (Nat.leb_spec p (prec_of (hd_tag ts))) as [H|H]; [lia|reflexivity].
Qed.

Lemma leb_true : forall a b, a <= b -> Nat.leb a b = true.
Proof. intros. now apply Nat.leb_le. Qed.

(* the result of parsing one operand completely (threshold = the level printed for) *)
Definition Mres (src : pctx) (q : nat) (st : pstate) (n : nat) (rest : list stoken) (e : sexpr) : Prop :=
  exists e' st1, strip src e' = Some (desugar e) /\ At src st1 rest /\
    forall N, S n <= N -> parse_expr_prec N q st = POk e' st1.

(* reaching the operator loop with the operand as left-hand side *)
Definition Kres (src : pctx) (p : nat) (st : pstate) (n : nat) (rest : list stoken) (e : sexpr) : Prop :=
  exists lhs st1 d, strip src lhs = Some (desugar e) /\ At src st1 rest /\ d <= n /\
    forall N, S n <= N -> parse_expr_prec N p st = parse_infix_loop (N - d) p lhs st1.

Lemma strip_bin : forall src l r op, is_binop (ttag op) = true ->
  strip src (EBin l r op) = omap2 (SBin (ttag op)) (strip src l) (strip src r).
Proof. intros src l r op H. simpl. destruct (ttag op); try discriminate H; reflexivity. Qed.

(* ---- binary operator *)
Lemma step_binary : forall src st op tr rest p lhs r,
  At src st (KFix op :: tr ++ rest) -> is_binop op = true -> p <= binop_level op ->
  (forall st', At src st' (tr ++ rest) -> Mres src (S (binop_level op)) st' (length tr) rest r) ->
  exists e' st2, strip src e' = Some (desugar r) /\ At src st2 rest /\
    forall f, S (length tr) <= f ->
      parse_infix_loop (S f) p lhs st = parse_infix_loop f p (EBin lhs e' (pcur st)) st2.
Proof.
  intros src st op tr rest p lhs r HA Hop Hp HM.
  pose proof (at_tag _ _ _ HA) as Htag. simpl in Htag.
  destruct (binop_rule op Hop) as [Hr [Hpr [Hc [Hne _]]]].
  destruct (advance_at _ _ _ _ HA) as [st1 [Eadv [HA1 Hprev]]].
  destruct (HM st1 HA1) as [e' [st2 [Hs [HA2 Hpar]]]].
  exists e', st2. split; [exact Hs|]. split; [exact HA2|]. intros f Hf.
  rewrite infix_loop_S. rewrite Htag, Hpr. rewrite (leb_true _ _ Hp).
  unfold infix_dispatch. rewrite Htag, Hr. mred. rewrite Eadv. mred.
  rewrite Hprev, Htag, Hpr. rewrite <- Hpr at 1. rewrite Hne. rewrite Hpar by lia. mred.
  rewrite Hc. reflexivity.
Qed.

(* ---- compound assignment  l b= r *)
Lemma step_compound : forall src st b tr rest p lhs r,
  At src st (KFix (compound_tag b) :: tr ++ rest) -> is_compound_base b = true -> p <= 1 ->
  (forall st', At src st' (tr ++ rest) -> Mres src 1 st' (length tr) rest r) ->
  exists e' st2, strip src e' = Some (desugar r) /\ At src st2 rest /\
    forall f, S (length tr) <= f ->
      parse_infix_loop (S f) p lhs st =
      parse_infix_loop f p (rewrite_compound lhs e' (pcur st) b) st2.
Proof.
  intros src st b tr rest p lhs r HA Hb Hp HM.
  pose proof (at_tag _ _ _ HA) as Htag. simpl in Htag.
  destruct (compound_rule b Hb) as [Hr [Hpr [Hc _]]].
  destruct (advance_at _ _ _ _ HA) as [st1 [Eadv [HA1 Hprev]]].
  destruct (HM st1 HA1) as [e' [st2 [Hs [HA2 Hpar]]]].
  exists e', st2. split; [exact Hs|]. split; [exact HA2|]. intros f Hf.
  rewrite infix_loop_S. rewrite Htag, Hpr. rewrite (leb_true _ _ Hp).
  unfold infix_dispatch. rewrite Htag, Hr. mred. rewrite Eadv. mred.
  rewrite Hprev, Htag, Hpr. change (Nat.eqb 1 (prec_index PrecAssign)) with true. cbv iota.
  rewrite Hpar by lia. mred. rewrite Hc. reflexivity.
Qed.

(* ---- plain assignment *)
Lemma step_assign : forall src st tr rest p lhs r,
  At src st (KFix TEqual :: tr ++ rest) -> assignable lhs = true -> p <= 1 ->
  (forall st', At src st' (tr ++ rest) -> Mres src 1 st' (length tr) rest r) ->
  exists e' st2, strip src e' = Some (desugar r) /\ At src st2 rest /\
    forall f, S (length tr) <= f ->
      parse_infix_loop (S f) p lhs st = parse_infix_loop f p (EBin lhs e' (pcur st)) st2.
Proof.
  intros src st tr rest p lhs r HA Has Hp HM.
  pose proof (at_tag _ _ _ HA) as Htag. simpl in Htag.
  destruct (advance_at _ _ _ _ HA) as [st1 [Eadv [HA1 Hprev]]].
  destruct (HM st1 HA1) as [e' [st2 [Hs [HA2 Hpar]]]].
  exists e', st2. split; [exact Hs|]. split; [exact HA2|]. intros f Hf.
  rewrite infix_loop_S. rewrite Htag. change (prec_of TEqual) with 1. rewrite (leb_true _ _ Hp).
  unfold infix_dispatch. rewrite Htag. change (rinfix (rule_of TEqual)) with IfAssign. cbv iota.
  rewrite Has. mred. rewrite Eadv. mred.
  rewrite Hprev, Htag. change (prec_of TEqual) with 1.
  rewrite Hpar by lia. mred. reflexivity.
Qed.

(* ---- postfix ++ -- *)
Lemma step_postfix : forall src st op rest p lhs,
  At src st (KFix op :: rest) -> is_postfix_op op = true -> p <= 6 ->
  exists st2, At src st2 rest /\
    forall f, parse_infix_loop (S f) p lhs st = parse_infix_loop f p (EUn lhs (pcur st) true) st2.
Proof.
  intros src st op rest p lhs HA Hop Hp.
  pose proof (at_tag _ _ _ HA) as Htag. simpl in Htag.
  destruct (postfix_rule op Hop) as [Hr Hpr].
  destruct (advance_at _ _ _ _ HA) as [st1 [Eadv [HA1 Hprev]]].
  exists st1. split; [exact HA1|]. intro f.
  rewrite infix_loop_S. rewrite Htag, Hpr. rewrite (leb_true _ _ Hp).
  unfold infix_dispatch. rewrite Htag, Hr. mred. rewrite Eadv. mred.
  rewrite Hprev. reflexivity.
Qed.

(* ---- l is NAME *)
Lemma isname_tag_in : forall n, tag_in (stag (isname_tok n)) [TIdent; TFunction; TNull] = true.
Proof. destruct n; reflexivity. Qed.

Lemma step_is : forall src st n rest p lhs,
  At src st (KFix TIs :: isname_tok n :: rest) -> p <= 3 ->
  exists st1 st2, At src st1 (isname_tok n :: rest) /\ At src st2 rest /\
    forall f, parse_infix_loop (S f) p lhs st =
              parse_infix_loop f p (EBin lhs (EId (pcur st1)) (pcur st)) st2.
Proof.
  intros src st n rest p lhs HA Hp.
  pose proof (at_tag _ _ _ HA) as Htag. simpl in Htag.
  destruct (consume_at _ _ _ _ [TIs] HA) as [st1 [E1 [HA1 Hprev1]]]; [reflexivity|].
  destruct (consume_at _ _ _ _ [TIdent; TFunction; TNull] HA1) as [st2 [E2 [HA2 Hprev2]]];
    [apply isname_tag_in|].
  exists st1, st2. split; [exact HA1|]. split; [exact HA2|]. intro f.
  rewrite infix_loop_S. rewrite Htag. change (prec_of TIs) with 3. rewrite (leb_true _ _ Hp).
  unfold infix_dispatch. rewrite Htag. change (rinfix (rule_of TIs)) with IfIs. cbv iota.
  mred. rewrite E1. mred. rewrite E2. mred. rewrite Hprev1, Hprev2. reflexivity.
Qed.

(* ---- l.name *)
Lemma step_member : forall src st n rest p lhs,
  At src st (KFix TDot :: KIdent n :: rest) -> p <= 8 ->
  exists st1 st2, At src st1 (KIdent n :: rest) /\ At src st2 rest /\
    forall f, parse_infix_loop (S f) p lhs st =
              parse_infix_loop f p (EBin lhs (ELit (pcur st1)) (pcur st)) st2.
Proof.
  intros src st n rest p lhs HA Hp.
  pose proof (at_tag _ _ _ HA) as Htag. simpl in Htag.
  destruct (consume_at _ _ _ _ [TDot] HA) as [st1 [E1 [HA1 Hprev1]]]; [reflexivity|].
  destruct (consume_at _ _ _ _ [TIdent] HA1) as [st2 [E2 [HA2 Hprev2]]]; [reflexivity|].
  exists st1, st2. split; [exact HA1|]. split; [exact HA2|]. intro f.
  rewrite infix_loop_S. rewrite Htag. change (prec_of TDot) with 8. rewrite (leb_true _ _ Hp).
  unfold infix_dispatch. rewrite Htag. change (rinfix (rule_of TDot)) with IfMember. cbv iota.
  mred. rewrite E1. mred. rewrite E2. mred. rewrite Hprev1, Hprev2. reflexivity.
Qed.

(* ---- l[i] *)
Lemma step_index : forall src st ti rest p lhs i,
  At src st (KFix TLSquare :: ti ++ KFix TRSquare :: rest) -> p <= 8 ->
  (forall st', At src st' (ti ++ KFix TRSquare :: rest) ->
               Mres src 1 st' (length ti) (KFix TRSquare :: rest) i) ->
  exists e' st2, strip src e' = Some (desugar i) /\ At src st2 rest /\
    forall f, S (length ti) <= f ->
      parse_infix_loop (S f) p lhs st = parse_infix_loop f p (EBin lhs e' (pcur st)) st2.
Proof.
  intros src st ti rest p lhs i HA Hp HM.
  pose proof (at_tag _ _ _ HA) as Htag. simpl in Htag.
  destruct (consume_at _ _ _ _ [TLSquare] HA) as [st1 [E1 [HA1 Hprev1]]]; [reflexivity|].
  destruct (HM st1 HA1) as [e' [st2 [Hs [HA2 Hpar]]]].
  destruct (consume_at _ _ _ _ [TRSquare] HA2) as [st3 [E3 [HA3 Hprev3]]]; [reflexivity|].
  exists e', st3. split; [exact Hs|]. split; [exact HA3|]. intros f Hf.
  rewrite infix_loop_S. rewrite Htag. change (prec_of TLSquare) with 8. rewrite (leb_true _ _ Hp).
  unfold infix_dispatch. rewrite Htag. change (rinfix (rule_of TLSquare)) with IfComputedMember.
  cbv iota. mred. rewrite E1. mred. change (prec_index PrecAssign) with 1.
  rewrite Hpar by lia. mred. rewrite E3. mred. reflexivity.
Qed.

(* ---- prefix forms *)
Lemma prefix_literal : forall src st k ts p,
  At src st (k :: ts) ->
  rprefix (rule_of (stag k)) = PfLiteral ->
  exists st1, At src st1 ts /\
    forall f, 0 <= f -> parse_expr_prec (S f) p st = parse_infix_loop f p (ELit (pcur st)) st1.
Proof.
  intros src st k ts p HA Hr.
  pose proof (at_tag _ _ _ HA) as Htag. simpl in Htag.
  destruct (advance_at _ _ _ _ HA) as [st1 [Eadv [HA1 Hprev]]].
  exists st1. split; [exact HA1|]. intros f _.
  rewrite expr_prec_S. unfold prefix_dispatch. rewrite Htag, Hr. mred. rewrite Eadv. mred.
  rewrite Hprev. reflexivity.
Qed.

Lemma prefix_ident : forall src st k ts p,
  At src st (k :: ts) ->
  (stag k = TIdent \/ stag k = TDollar) ->
  exists st1, At src st1 ts /\
    forall f, 0 <= f -> parse_expr_prec (S f) p st = parse_infix_loop f p (EId (pcur st)) st1.
Proof.
  intros src st k ts p HA Hk.
  pose proof (at_tag _ _ _ HA) as Htag. simpl in Htag.
  destruct (advance_at _ _ _ _ HA) as [st1 [Eadv [HA1 Hprev]]].
  exists st1. split; [exact HA1|]. intros f _.
  rewrite expr_prec_S. unfold prefix_dispatch. rewrite Htag.
  destruct Hk as [Hk|Hk]; rewrite Hk;
    (change (rprefix (rule_of TIdent)) with PfIdentifier || change (rprefix (rule_of TDollar)) with PfIdentifier);
    cbv iota; mred; rewrite Eadv; mred; rewrite Hprev; reflexivity.
Qed.

Lemma prefix_unary : forall src st op tx rest p x,
  At src st (KFix op :: tx ++ rest) -> is_prefix_op op = true ->
  (forall st', At src st' (tx ++ rest) -> Mres src prefix_level st' (length tx) rest x) ->
  exists e' st2, strip src e' = Some (desugar x) /\ At src st2 rest /\
    forall f, S (length tx) <= f ->
    parse_expr_prec (S f) p st = parse_infix_loop f p (EUn e' (pcur st) false) st2.
Proof.
  intros src st op tx rest p x HA Hop HM.
  pose proof (at_tag _ _ _ HA) as Htag. simpl in Htag.
  destruct (advance_at _ _ _ _ HA) as [st1 [Eadv [HA1 Hprev]]].
  destruct (HM st1 HA1) as [e' [st2 [Hs [HA2 Hpar]]]].
  exists e', st2. split; [exact Hs|]. split; [exact HA2|]. intros f Hf.
  rewrite expr_prec_S. unfold prefix_dispatch. rewrite Htag, (prefix_rule op Hop). mred.
  rewrite Eadv. mred. change (prec_index PrecUnary) with prefix_level.
  rewrite Hpar by lia. mred. rewrite Hprev. reflexivity.
Qed.

Lemma prefix_group : forall src st tx rest p x,
  At src st (KFix TLParen :: tx ++ KFix TRParen :: rest) ->
  (forall st', At src st' (tx ++ KFix TRParen :: rest) ->
               Mres src 1 st' (length tx) (KFix TRParen :: rest) x) ->
  exists e' st2, strip src e' = Some (desugar x) /\ At src st2 rest /\
    forall f, S (length tx) <= f ->
    parse_expr_prec (S f) p st = parse_infix_loop f p e' st2.
Proof.
  intros src st tx rest p x HA HM.
  pose proof (at_tag _ _ _ HA) as Htag. simpl in Htag.
  destruct (consume_at _ _ _ _ [TLParen] HA) as [st1 [E1 [HA1 Hprev1]]]; [reflexivity|].
  destruct (HM st1 HA1) as [e' [st2 [Hs [HA2 Hpar]]]].
  destruct (consume_at _ _ _ _ [TRParen] HA2) as [st3 [E3 [HA3 Hprev3]]]; [reflexivity|].
  exists e', st3. split; [exact Hs|]. split; [exact HA3|]. intros f Hf.
  rewrite expr_prec_S. unfold prefix_dispatch. rewrite Htag.
  change (rprefix (rule_of TLParen)) with PfGroup. cbv iota. mred. rewrite E1. mred.
  change (prec_index PrecAssign) with 1. rewrite Hpar by lia. mred. rewrite E3. mred. reflexivity.
Qed.

(* ================================================================= printing facts *)

Section SexprInd.
  Variable Q : sexpr -> Prop.
  Hypotheses
    (HNum : forall s, Q (SNum s)) (HIdent : forall s, Q (SIdent s)) (HDollar : Q SDollar)
    (HStr : forall s, Q (SStr s)) (HTrue : Q STrue) (HFalse : Q SFalse) (HNull : Q SNull)
    (HPre : forall op x, Q x -> Q (SPre op x))
    (HPost : forall op x, Q x -> Q (SPost op x))
    (HBin : forall op l r, Q l -> Q r -> Q (SBin op l r))
    (HIs : forall l n, Q l -> Q (SIs l n))
    (HMember : forall l n, Q l -> Q (SMember l n))
    (HIndex : forall l i, Q l -> Q i -> Q (SIndex l i))
    (HCall : forall f args, Q f -> Forall Q args -> Q (SCall f args))
    (HAssign : forall l r, Q l -> Q r -> Q (SAssign l r))
    (HCompound : forall b l r, Q l -> Q r -> Q (SCompound b l r)).

  Fixpoint sexpr_ind' (e : sexpr) : Q e :=
    match e with
    | SNum s => HNum s | SIdent s => HIdent s | SDollar => HDollar | SStr s => HStr s
    | STrue => HTrue | SFalse => HFalse | SNull => HNull
    | SPre op x => HPre op x (sexpr_ind' x)
    | SPost op x => HPost op x (sexpr_ind' x)
    | SBin op l r => HBin op l r (sexpr_ind' l) (sexpr_ind' r)
    | SIs l n => HIs l n (sexpr_ind' l)
    | SMember l n => HMember l n (sexpr_ind' l)
    | SIndex l i => HIndex l i (sexpr_ind' l) (sexpr_ind' i)
    | SCall f args =>
      HCall f args (sexpr_ind' f)
        ((fix go (l : list sexpr) : Forall Q l :=
            match l with [] => Forall_nil _ | x :: r => Forall_cons _ (sexpr_ind' x) (go r) end) args)
    | SAssign l r => HAssign l r (sexpr_ind' l) (sexpr_ind' r)
    | SCompound b l r => HCompound b l r (sexpr_ind' l) (sexpr_ind' r)
    end.
End SexprInd.

Fixpoint pargs (force : sexpr -> bool) (l : list sexpr) : list stoken :=
  match l with
  | [] => []
  | a :: r => print force 1 a ++ match r with [] => [] | _ :: _ => KFix TComma :: pargs force r end
  end.

Definition raw_toks (force : sexpr -> bool) (e : sexpr) : list stoken :=
  match e with
  | SNum s => [KNum s]
  | SIdent s => [KIdent s]
  | SDollar => [KFix TDollar]
  | SStr s => [KStr s]
  | STrue => [KFix TTrue]
  | SFalse => [KFix TFalse]
  | SNull => [KFix TNull]
  | SPre op x => KFix op :: print force prefix_level x
  | SPost op x => print force 6 x ++ [KFix op]
  | SBin op l r => print force (binop_level op) l ++ KFix op :: print force (S (binop_level op)) r
  | SIs l n => print force 3 l ++ [KFix TIs; isname_tok n]
  | SMember l n => print force 8 l ++ [KFix TDot; KIdent n]
  | SIndex l i => print force 8 l ++ KFix TLSquare :: print force 1 i ++ [KFix TRSquare]
  | SCall f args => print force 8 f ++ KFix TLParen :: pargs force args ++ [KFix TRParen]
  | SAssign l r => print force 2 l ++ KFix TEqual :: print force 1 r
  | SCompound b l r => print force 2 l ++ KFix (compound_tag b) :: print force 1 r
  end.

Definition is_raw (force : sexpr -> bool) (q : nat) (e : sexpr) : bool :=
  ((q <=? level e) && negb (force e))%bool.

Lemma print_unfold_call : forall force q e args,
  print force q (SCall e args) =
  if is_raw force q (SCall e args) then raw_toks force (SCall e args)
  else KFix TLParen :: raw_toks force (SCall e args) ++ [KFix TRParen].
Proof.
  intros. unfold raw_toks.
  assert (E : forall l, (fix pargs (l : list sexpr) : list stoken :=
           match l with
           | [] => []
           | a :: r => print force 1 a ++ match r with [] => [] | _ :: _ => KFix TComma :: pargs r end
           end) l = pargs force l).
  { induction l as [|a r IH]; [reflexivity|]. simpl. destruct r; [reflexivity|]. rewrite <- IH. reflexivity. }
  rewrite <- E. reflexivity.
Qed.

Lemma print_unfold : forall force q e,
  print force q e =
  if is_raw force q e then raw_toks force e
  else KFix TLParen :: raw_toks force e ++ [KFix TRParen].
Proof. intros force q e. destruct e; try reflexivity. apply print_unfold_call. Qed.

Definition starts_expr (t : tag) : bool :=
  match t with
  | TNum | TIdent | TStr | TDollar | TTrue | TFalse | TNull | TLParen
  | TBang | TMinus | TPlus | TPlusPlus | TMinusMinus => true
  | _ => false
  end.

Lemma print_hd : forall force e, wf_sexpr e = true ->
  forall q, exists k tl, print force q e = k :: tl /\ starts_expr (stag k) = true.
Proof.
  intros force e. induction e; intros Hwf q; rewrite print_unfold;
    destruct (is_raw force q _); try (eexists; eexists; split; [reflexivity|reflexivity]);
    simpl in Hwf; repeat (apply andb_true_iff in Hwf; destruct Hwf as [Hwf ?]).
  - (* SPre *) exists (KFix op), (print force prefix_level e). split; [reflexivity|].
    destruct op; try discriminate Hwf; reflexivity.
  - destruct (IHe H 6) as [k [tl [E S]]]. simpl. rewrite E. eexists; eexists; split; [reflexivity|exact S].
  - destruct (IHe1 H0 (binop_level op)) as [k [tl [E S]]]. simpl. rewrite E.
    eexists; eexists; split; [reflexivity|exact S].
  - destruct (IHe Hwf 3) as [k [tl [E S]]]. simpl. rewrite E. eexists; eexists; split; [reflexivity|exact S].
  - destruct (IHe Hwf 8) as [k [tl [E S]]]. simpl. rewrite E. eexists; eexists; split; [reflexivity|exact S].
  - destruct (IHe1 Hwf 8) as [k [tl [E S]]]. simpl. rewrite E. eexists; eexists; split; [reflexivity|exact S].
  - destruct (IHe Hwf 8) as [k [tl [E S]]]. simpl. rewrite E. eexists; eexists; split; [reflexivity|exact S].
  - destruct (IHe1 H0 2) as [k [tl [E S]]]. simpl. rewrite E. eexists; eexists; split; [reflexivity|exact S].
  - destruct (IHe1 H0 2) as [k [tl [E S]]]. simpl. rewrite E. eexists; eexists; split; [reflexivity|exact S].
Qed.

Lemma forallb_app' : forall (A : Type) (f : A -> bool) l1 l2,
  forallb f l1 = true -> forallb f l2 = true -> forallb f (l1 ++ l2) = true.
Proof. intros. rewrite forallb_app. now rewrite H, H0. Qed.

Lemma isname_tok_wf : forall n, wf_isname n = true -> wf_tok (isname_tok n) = true.
Proof. destruct n; simpl; auto. Qed.

Lemma wrap_wf : forall (b : bool) ts, forallb wf_tok ts = true ->
  forallb wf_tok (if b then ts else KFix TLParen :: ts ++ [KFix TRParen]) = true.
Proof.
  intros b ts H. destruct b; [exact H|]. cbn [forallb]. rewrite forallb_app, H. reflexivity.
Qed.

Lemma prefix_tok_wf : forall op, is_prefix_op op = true -> wf_tok (KFix op) = true.
Proof. destruct op; intro H; try discriminate H; reflexivity. Qed.
Lemma postfix_tok_wf : forall op, is_postfix_op op = true -> wf_tok (KFix op) = true.
Proof. destruct op; intro H; try discriminate H; reflexivity. Qed.
Lemma binop_tok_wf : forall op, is_binop op = true -> wf_tok (KFix op) = true.
Proof. destruct op; intro H; try discriminate H; reflexivity. Qed.
Lemma compound_tok_wf : forall b, is_compound_base b = true -> wf_tok (KFix (compound_tag b)) = true.
Proof. destruct b; intro H; try discriminate H; reflexivity. Qed.

Lemma pargs_wf : forall force args,
  Forall (fun e => wf_sexpr e = true -> forall q, forallb wf_tok (print force q e) = true) args ->
  forallb wf_sexpr args = true -> forallb wf_tok (pargs force args) = true.
Proof.
  intros force args H. induction H as [|a r Ha Hr IH]; intro Hwf; [reflexivity|].
  cbn [forallb] in Hwf. apply andb_true_iff in Hwf. destruct Hwf as [Hwa Hwr].
  cbn [pargs]. rewrite forallb_app. rewrite (Ha Hwa 1).
  destruct r as [|b r']; [reflexivity|]. cbn [forallb]. rewrite (IH Hwr). reflexivity.
Qed.

Lemma print_wf : forall force e, wf_sexpr e = true -> forall q, forallb wf_tok (print force q e) = true.
Proof.
  intros force e. induction e using sexpr_ind'; intros Hwf q; rewrite print_unfold; apply wrap_wf;
    cbn [wf_sexpr] in Hwf; cbn [raw_toks].
  - cbn. now rewrite Hwf.
  - cbn [forallb wf_tok]. now rewrite Hwf.
  - reflexivity.
  - cbn [forallb wf_tok]. now rewrite Hwf.
  - reflexivity.
  - reflexivity.
  - reflexivity.
  - apply andb_true_iff in Hwf. destruct Hwf as [H1 H2].
    cbn [forallb]. rewrite (prefix_tok_wf _ H1), (IHe H2). reflexivity.
  - apply andb_true_iff in Hwf. destruct Hwf as [H1 H2].
    rewrite forallb_app. cbn [forallb]. rewrite (postfix_tok_wf _ H1), (IHe H2). reflexivity.
  - apply andb_true_iff in Hwf. destruct Hwf as [H1 H3].
    apply andb_true_iff in H1. destruct H1 as [H1 H2].
    rewrite forallb_app. cbn [forallb]. rewrite (binop_tok_wf _ H1), (IHe1 H2), (IHe2 H3). reflexivity.
  - apply andb_true_iff in Hwf. destruct Hwf as [H1 H2].
    rewrite forallb_app. cbn [forallb]. rewrite (IHe H1), (isname_tok_wf _ H2). reflexivity.
  - apply andb_true_iff in Hwf. destruct Hwf as [H1 H2].
    rewrite forallb_app. cbn [forallb]. rewrite (IHe H1). cbn [wf_tok]. rewrite H2. reflexivity.
  - apply andb_true_iff in Hwf. destruct Hwf as [H1 H2].
    rewrite forallb_app. cbn [forallb]. rewrite forallb_app. rewrite (IHe1 H1), (IHe2 H2). reflexivity.
  - apply andb_true_iff in Hwf. destruct Hwf as [H1 H2].
    rewrite forallb_app. cbn [forallb]. rewrite forallb_app.
    rewrite (IHe H1), (pargs_wf force args H H2). reflexivity.
  - apply andb_true_iff in Hwf. destruct Hwf as [H1 H3].
    apply andb_true_iff in H1. destruct H1 as [H1 H2].
    rewrite forallb_app. cbn [forallb]. rewrite (IHe1 H2), (IHe2 H3). reflexivity.
  - apply andb_true_iff in Hwf. destruct Hwf as [H1 H3].
    apply andb_true_iff in H1. destruct H1 as [H1 H2].
    rewrite forallb_app. cbn [forallb]. rewrite (compound_tok_wf _ H1), (IHe1 H2), (IHe2 H3). reflexivity.
Qed.

(* ================================================================= strip facts *)

Fixpoint strip_list (src : bytes) (l : list expr) : option (list sexpr) :=
  match l with
  | [] => Some []
  | a :: r => omap2 cons (strip src a) (strip_list src r)
  end.

Lemma strip_call : forall src f args,
  strip src (ECall f args) = omap2 SCall (strip src f) (strip_list src args).
Proof.
  intros src f args. cbn [strip]. f_equal.
  induction args as [|a r IH]; [reflexivity|]. cbn [strip_list]. rewrite <- IH. reflexivity.
Qed.

Lemma strip_assign : forall src l r op, ttag op = TEqual ->
  strip src (EBin l r op) = omap2 SAssign (strip src l) (strip src r).
Proof. intros src l r op H. cbn [strip]. rewrite H. reflexivity. Qed.

Lemma strip_index : forall src l r op, ttag op = TLSquare ->
  strip src (EBin l r op) = omap2 SIndex (strip src l) (strip src r).
Proof. intros src l r op H. cbn [strip]. rewrite H. reflexivity. Qed.

Lemma strip_member : forall src l id op n, ttag op = TDot -> tok_matches src id (KIdent n) ->
  strip src (EBin l (ELit id) op) = omap2 SMember (strip src l) (Some n).
Proof.
  intros src l id op n H [Ht Hs]. cbn [strip]. rewrite H. simpl in Ht. rewrite Ht, Hs. reflexivity.
Qed.

Lemma strip_is : forall src l id op n, ttag op = TIs -> tok_matches src id (isname_tok n) ->
  strip src (EBin l (EId id) op) = omap2 SIs (strip src l) (Some n).
Proof.
  intros src l id op n H [Ht Hs]. cbn [strip]. rewrite H.
  destruct n as [s| |]; simpl in Ht; rewrite Ht; [|reflexivity|reflexivity].
  simpl in Hs. rewrite Hs. reflexivity.
Qed.

Lemma strip_pre : forall src x op, is_prefix_op (ttag op) = true ->
  strip src (EUn x op false) = option_map (SPre (ttag op)) (strip src x).
Proof. intros src x op H. cbn [strip]. rewrite H. reflexivity. Qed.

Lemma strip_post : forall src x op, is_postfix_op (ttag op) = true ->
  strip src (EUn x op true) = option_map (SPost (ttag op)) (strip src x).
Proof. intros src x op H. cbn [strip]. rewrite H. reflexivity. Qed.

Lemma strip_compound : forall src l r op b, is_binop b = true ->
  strip src (rewrite_compound l r op b) =
  omap2 SAssign (strip src l) (omap2 (SBin b) (strip src l) (strip src r)).
Proof.
  intros src l r op b H. unfold rewrite_compound.
  rewrite strip_assign by reflexivity. rewrite strip_bin by exact H. reflexivity.
Qed.

Lemma assignable_desugar : forall e, assignable_s (desugar e) = assignable_s e.
Proof. destruct e; reflexivity. Qed.

Ltac strip_inv H :=
  repeat match type of H with
  | option_map _ ?x = Some _ => destruct x; cbn [option_map] in H
  | omap2 _ ?x ?y = Some _ => destruct x; [destruct y|]; cbn [omap2] in H
  end; try discriminate H; inversion H; subst; try reflexivity.

Lemma assignable_strip : forall src lhs s, strip src lhs = Some s -> assignable lhs = assignable_s s.
Proof.
  intros src lhs s H. destruct lhs as [t|t|t items|t items|x op pf|l r op|f args|t v cases].
  - cbn [strip] in H. destruct (ttag t); try discriminate H; strip_inv H.
  - cbn [strip] in H. destruct (ttag t); try discriminate H; strip_inv H.
  - discriminate H.
  - discriminate H.
  - cbn [strip] in H. destruct pf.
    + destruct (is_postfix_op (ttag op)); [|discriminate H]. strip_inv H.
    + destruct (is_prefix_op (ttag op)); [|discriminate H]. strip_inv H.
  - cbn [strip] in H. cbn [assignable].
    destruct (ttag op); cbn [is_binop binop_level Nat.eqb negb] in H; try discriminate H;
      try (strip_inv H; fail).
    + (* is *) destruct r; try discriminate H. destruct (ttag t); try discriminate H; strip_inv H.
    + (* dot *) destruct r; try discriminate H. destruct (ttag t); try discriminate H; strip_inv H.
  - rewrite strip_call in H. strip_inv H.
  - discriminate H.
Qed.

(* ================================================================= the invariant *)

(* the largest infix precedence the token after a raw [e] may have *)
Definition rlimit (e : sexpr) : nat :=
  match e with
  | SPre _ _ => 6
  | SBin op _ _ => binop_level op
  | SAssign _ _ | SCompound _ _ _ => 0
  | _ => 10
  end.

Lemma binop_level_le : forall op, binop_level op <= 5.
Proof. destruct op; simpl; lia. Qed.

Lemma rlimit_left : forall l q x, q <= level l -> 2 <= q ->
  (x <= q /\ q <= 6) \/ (8 <= q /\ x <= 10) -> x <= rlimit l.
Proof.
  intros l q x Hq H2 H. destruct l; cbn [level rlimit] in *; unfold prefix_level in *; try lia.
  pose proof (binop_level_le op). lia.
Qed.

Lemma rlimit_lt : forall e q x, q <= level e -> x < q -> x <= rlimit e.
Proof. intros e q x Hq H. destruct e; cbn [level rlimit] in *; unfold prefix_level in *; lia. Qed.

Lemma level_ge1 : forall e, wf_sexpr e = true -> 1 <= level e.
Proof.
  intros e H. destruct e; cbn [level]; unfold prefix_level; try lia.
  cbn [wf_sexpr] in H. apply andb_true_iff in H. destruct H as [H _].
  apply andb_true_iff in H. destruct H as [H _].
  destruct (binop_rule op H) as [_ [_ [_ [_ R]]]]. lia.
Qed.

Lemma K_step : forall p st nl dl lhs sta c lhs' stb n,
  dl <= nl ->
  (forall N, S nl <= N -> parse_expr_prec N p st = parse_infix_loop (N - dl) p lhs sta) ->
  (forall f, c <= f -> parse_infix_loop (S f) p lhs sta = parse_infix_loop f p lhs' stb) ->
  nl + c <= n -> nl < n ->
  S dl <= n /\
  forall N, S n <= N -> parse_expr_prec N p st = parse_infix_loop (N - S dl) p lhs' stb.
Proof.
  intros p st nl dl lhs sta c lhs' stb n Hd H1 H2 Hn Hlt. split; [lia|].
  intros N HN. rewrite H1 by lia. replace (N - dl) with (S (N - S dl)) by lia.
  apply H2. lia.
Qed.

Lemma K_base : forall p st c lhs st1 n,
  (forall f, c <= f -> parse_expr_prec (S f) p st = parse_infix_loop f p lhs st1) ->
  c <= n -> 1 <= n ->
  1 <= n /\ forall N, S n <= N -> parse_expr_prec N p st = parse_infix_loop (N - 1) p lhs st1.
Proof.
  intros p st c lhs st1 n H Hc Hn. split; [exact Hn|]. intros N HN.
  destruct N as [|N']; [lia|]. replace (S N' - 1) with N' by lia. apply H. lia.
Qed.

Lemma K_to_M : forall src p st n rest e,
  Kres src p st n rest e -> prec_of (hd_tag rest) < p -> Mres src p st n rest e.
Proof.
  intros src p st n rest e [lhs [st1 [d [Hs [HA [Hd Hpar]]]]]] Hlt.
  exists lhs, st1. split; [exact Hs|]. split; [exact HA|]. intros N HN.
  rewrite Hpar by exact HN. destruct (N - d) as [|f] eqn:E; [lia|].
  eapply loop_exit; eauto.
Qed.

Section Main.
  Variable force : sexpr -> bool.
  Variable src : pctx.

  Definition Kraw (e : sexpr) : Prop :=
    forall p rest st, wf_sexpr e = true -> 1 <= p -> p <= level e ->
      prec_of (hd_tag rest) <= rlimit e ->
      At src st (raw_toks force e ++ rest) ->
      Kres src p st (length (raw_toks force e)) rest e.

  Definition Lop (e : sexpr) : Prop :=
    forall q p rest st, wf_sexpr e = true -> 1 <= p -> p <= q ->
      (is_raw force q e = true -> prec_of (hd_tag rest) <= rlimit e) ->
      At src st (print force q e ++ rest) ->
      Kres src p st (length (print force q e)) rest e.

  Definition Mop (e : sexpr) : Prop :=
    forall q rest st, wf_sexpr e = true -> 1 <= q -> prec_of (hd_tag rest) < q ->
      At src st (print force q e ++ rest) ->
      Mres src q st (length (print force q e)) rest e.

  Lemma Kraw_to_L : forall e, Kraw e -> Lop e.
  Proof.
    intros e HK q p rest st Hwf Hp Hpq Hlim HA. rewrite print_unfold in *.
    destruct (is_raw force q e) eqn:R.
    - apply HK; auto. unfold is_raw in R. apply andb_true_iff in R. destruct R as [R _].
      apply Nat.leb_le in R. lia.
    - cbn [app] in HA. rewrite <- app_assoc in HA. cbn [app] in HA.
      destruct (prefix_group src st (raw_toks force e) rest p e HA) as [e' [st2 [Hs [HA2 Hpar]]]].
      + intros st' HA'. apply K_to_M; [|cbn; lia].
        apply HK; auto using level_ge1. cbn. lia.
      + exists e', st2, 1. split; [exact Hs|]. split; [exact HA2|].
        cbn [length]. rewrite app_length. cbn [length].
        apply (K_base p st (S (length (raw_toks force e))) e' st2); [exact Hpar|lia|lia].
  Qed.

  Lemma L_to_M : forall e, Lop e -> Mop e.
  Proof.
    intros e HL q rest st Hwf Hq Hlt HA. apply K_to_M; [|exact Hlt].
    apply HL; auto. intro R. unfold is_raw in R. apply andb_true_iff in R. destruct R as [R _].
    apply Nat.leb_le in R. eapply rlimit_lt; eauto.
  Qed.

  (* ---- call arguments *)
  Lemma args_parse : forall args,
    Forall Mop args -> forallb wf_sexpr args = true ->
    forall acc rest st,
      At src st (pargs force args ++ KFix TRParen :: rest) ->
      exists es st1, strip_list src es = Some (map desugar args) /\ At src st1 rest /\
        forall g, S (S (length (pargs force args))) <= g ->
        parse_expr_list g TRParen acc st = POk (rev acc ++ es) st1.
  Proof.
    intros args HM. induction HM as [|a r Ha Hr IH]; intros Hwf acc rest st HA.
    - cbn [pargs app] in HA.
      destruct (consume_at _ _ _ _ [TRParen] HA) as [st1 [E1 [HA1 _]]]; [reflexivity|].
      exists [], st1. split; [reflexivity|]. split; [exact HA1|]. intros g Hg.
      destruct g as [|g']; [lia|]. rewrite expr_list_S.
      rewrite (at_tag _ _ _ HA). cbn [hd_tag stag]. cbn [tag_eqb tag_index Nat.eqb orb].
      mred. rewrite E1. rewrite app_nil_r. reflexivity.
    - cbn [forallb] in Hwf. apply andb_true_iff in Hwf. destruct Hwf as [Hwa Hwr].
      cbn [pargs] in HA. rewrite <- app_assoc in HA.
      destruct (print_hd force a Hwa 1) as [k [tl [Ek Sk]]].
      assert (Hcur : (tag_eqb (ttag (pcur st)) TEOF || tag_eqb (ttag (pcur st)) TRParen)%bool = false).
      { rewrite (at_tag _ _ _ HA). rewrite Ek. cbn [app hd_tag].
        destruct (stag k); try discriminate Sk; reflexivity. }
      destruct r as [|b r'].
      + cbn [app] in HA.
        destruct (Ha 1 (KFix TRParen :: rest) st Hwa (le_n 1)) as [e' [st1 [Hs [HA1 Hpar]]]];
          [cbn; lia|exact HA|].
        destruct (consume_at _ _ _ _ [TRParen] HA1) as [st2 [E2 [HA2 _]]]; [reflexivity|].
        exists [e'], st2. split; [cbn [strip_list map]; rewrite Hs; reflexivity|]. split; [exact HA2|].
        intros g Hg. cbn [pargs] in Hg. rewrite app_length in Hg. cbn [length] in Hg.
        destruct g as [|g']; [lia|]. rewrite expr_list_S. rewrite Hcur.
        mred. change (prec_index PrecAssign) with 1. rewrite Hpar by lia.
        rewrite (at_tag _ _ _ HA1). cbn [hd_tag stag tag_eqb tag_index Nat.eqb].
        rewrite E2. reflexivity.
      + cbn [app] in HA.
        destruct (Ha 1 (KFix TComma :: pargs force (b :: r') ++ KFix TRParen :: rest) st Hwa (le_n 1))
          as [e' [st1 [Hs [HA1 Hpar]]]]; [cbn; lia|exact HA|].
        destruct (advance_at _ _ _ _ HA1) as [st2 [E2 [HA2 _]]].
        destruct (IH Hwr (e' :: acc) rest st2 HA2) as [es [st3 [Hss [HA3 Hl]]]].
        exists (e' :: es), st3. split; [cbn [strip_list map]; rewrite Hs, Hss; reflexivity|].
        split; [exact HA3|].
        intros g Hg. change (pargs force (a :: b :: r')) with
          (print force 1 a ++ KFix TComma :: pargs force (b :: r')) in Hg.
        rewrite app_length in Hg. cbn [length] in Hg.
        destruct g as [|g']; [lia|]. rewrite expr_list_S. rewrite Hcur.
        mred. change (prec_index PrecAssign) with 1. rewrite Hpar by lia.
        rewrite (at_tag _ _ _ HA1). cbn [hd_tag stag tag_eqb tag_index Nat.eqb].
        unfold consume_ignored. rewrite (at_tag _ _ _ HA1). cbn [hd_tag stag tag_eqb tag_index Nat.eqb].
        mred. rewrite E2. rewrite Hl by lia. cbn [rev]. rewrite <- app_assoc. reflexivity.
  Qed.

  Lemma step_call : forall st args rest p lhs,
    At src st (KFix TLParen :: pargs force args ++ KFix TRParen :: rest) -> p <= 9 ->
    Forall Mop args -> forallb wf_sexpr args = true ->
    exists es st2, strip_list src es = Some (map desugar args) /\ At src st2 rest /\
      forall f, S (S (length (pargs force args))) <= f ->
        parse_infix_loop (S f) p lhs st = parse_infix_loop f p (ECall lhs es) st2.
  Proof.
    intros st args rest p lhs HA Hp HM Hwf.
    pose proof (at_tag _ _ _ HA) as Htag. simpl in Htag.
    destruct (consume_at _ _ _ _ [TLParen] HA) as [st1 [E1 [HA1 _]]]; [reflexivity|].
    destruct (args_parse args HM Hwf [] rest st1 HA1) as [es [st2 [Hs [HA2 Hl]]]].
    exists es, st2. split; [exact Hs|]. split; [exact HA2|]. intros f Hf.
    rewrite infix_loop_S. rewrite Htag. change (prec_of TLParen) with 9. rewrite (leb_true _ _ Hp).
    unfold infix_dispatch. rewrite Htag. change (rinfix (rule_of TLParen)) with IfCall. cbv iota.
    mred. rewrite E1. mred. rewrite Hl by exact Hf. reflexivity.
  Qed.

  (* ---- the invariant, by induction on the expression *)
  Ltac split_wf H :=
    cbn [wf_sexpr] in H;
    repeat match type of H with
    | (_ && _)%bool = true => let H' := fresh "Hw" in apply andb_true_iff in H; destruct H as [H H']
    end.

  Lemma raw_of_is_raw : forall q e, is_raw force q e = true -> q <= level e.
  Proof.
    intros q e R. unfold is_raw in R. apply andb_true_iff in R. destruct R as [R _].
    now apply Nat.leb_le in R.
  Qed.

  Lemma Kraw_all : forall e, Kraw e.
  Proof.
    induction e using sexpr_ind'; intros p rest st Hwf Hp1 Hpl Hlim HA;
      cbn [raw_toks level rlimit desugar] in *.
    - (* SNum *)
      cbn [app] in HA.
      destruct (prefix_literal src st (KNum s) rest p HA eq_refl) as [st1 [HA1 Hpar]].
      exists (ELit (pcur st)), st1, 1. split; [|split; [exact HA1|]].
      + destruct (at_cur _ _ _ _ HA) as [Ht Hs]. cbn [strip]. simpl in Ht. rewrite Ht, Hs. reflexivity.
      + eapply K_base; [exact Hpar|lia|cbn; lia].
    - (* SIdent *)
      cbn [app] in HA.
      destruct (prefix_ident src st (KIdent s) rest p HA (or_introl eq_refl)) as [st1 [HA1 Hpar]].
      exists (EId (pcur st)), st1, 1. split; [|split; [exact HA1|]].
      + destruct (at_cur _ _ _ _ HA) as [Ht Hs]. cbn [strip]. simpl in Ht. rewrite Ht, Hs. reflexivity.
      + eapply K_base; [exact Hpar|lia|cbn; lia].
    - (* SDollar *)
      cbn [app] in HA.
      destruct (prefix_ident src st (KFix TDollar) rest p HA (or_intror eq_refl)) as [st1 [HA1 Hpar]].
      exists (EId (pcur st)), st1, 1. split; [|split; [exact HA1|]].
      + destruct (at_cur _ _ _ _ HA) as [Ht _]. cbn [strip]. simpl in Ht. rewrite Ht. reflexivity.
      + eapply K_base; [exact Hpar|lia|cbn; lia].
    - (* SStr *)
      cbn [app] in HA.
      destruct (prefix_literal src st (KStr s) rest p HA eq_refl) as [st1 [HA1 Hpar]].
      exists (ELit (pcur st)), st1, 1. split; [|split; [exact HA1|]].
      + destruct (at_cur _ _ _ _ HA) as [Ht Hs]. cbn [strip]. simpl in Ht. rewrite Ht, Hs. reflexivity.
      + eapply K_base; [exact Hpar|lia|cbn; lia].
    - (* STrue *)
      cbn [app] in HA.
      destruct (prefix_literal src st (KFix TTrue) rest p HA eq_refl) as [st1 [HA1 Hpar]].
      exists (ELit (pcur st)), st1, 1. split; [|split; [exact HA1|]].
      + destruct (at_cur _ _ _ _ HA) as [Ht _]. cbn [strip]. simpl in Ht. rewrite Ht. reflexivity.
      + eapply K_base; [exact Hpar|lia|cbn; lia].
    - (* SFalse *)
      cbn [app] in HA.
      destruct (prefix_literal src st (KFix TFalse) rest p HA eq_refl) as [st1 [HA1 Hpar]].
      exists (ELit (pcur st)), st1, 1. split; [|split; [exact HA1|]].
      + destruct (at_cur _ _ _ _ HA) as [Ht _]. cbn [strip]. simpl in Ht. rewrite Ht. reflexivity.
      + eapply K_base; [exact Hpar|lia|cbn; lia].
    - (* SNull *)
      cbn [app] in HA.
      destruct (prefix_literal src st (KFix TNull) rest p HA eq_refl) as [st1 [HA1 Hpar]].
      exists (ELit (pcur st)), st1, 1. split; [|split; [exact HA1|]].
      + destruct (at_cur _ _ _ _ HA) as [Ht _]. cbn [strip]. simpl in Ht. rewrite Ht. reflexivity.
      + eapply K_base; [exact Hpar|lia|cbn; lia].
    - (* SPre *)
      split_wf Hwf. cbn [app] in HA.
      pose proof (at_tag _ _ _ HA) as Htag. simpl in Htag.
      destruct (prefix_unary src st op (print force prefix_level e) rest p e HA Hwf)
        as [e' [st2 [Hs [HA2 Hpar]]]].
      { intros st' HA'. apply (L_to_M e (Kraw_to_L e IHe)); auto; unfold prefix_level; lia. }
      exists (EUn e' (pcur st) false), st2, 1. split; [|split; [exact HA2|]].
      + rewrite strip_pre by (rewrite Htag; exact Hwf). rewrite Hs, Htag. reflexivity.
      + eapply K_base; [exact Hpar|cbn [length]; lia|cbn [length]; lia].
    - (* SPost *)
      split_wf Hwf. rewrite <- app_assoc in HA. cbn [app] in HA.
      destruct (postfix_rule op Hwf) as [_ Hpr].
      destruct (Kraw_to_L e IHe 6 p (KFix op :: rest) st Hw Hp1 Hpl) as [lhs [sta [dl [Hsl [HAa [Hdl Hparl]]]]]];
        [|exact HA|].
      { intro R. cbn [hd_tag stag]. rewrite Hpr.
        apply (rlimit_left e 6 6 (raw_of_is_raw _ _ R)); lia. }
      pose proof (at_tag _ _ _ HAa) as Htag. simpl in Htag.
      destruct (step_postfix src sta op rest p lhs HAa Hwf Hpl) as [st2 [HA2 Hstep]].
      exists (EUn lhs (pcur sta) true), st2, (S dl). split; [|split; [exact HA2|]].
      + rewrite strip_post by (rewrite Htag; exact Hwf). rewrite Hsl, Htag. reflexivity.
      + apply (K_step p st _ dl lhs sta 0 _ st2 _ Hdl Hparl); [intros f _; apply Hstep| |];
          rewrite app_length; cbn [length]; lia.
    - (* SBin *)
      split_wf Hwf. rewrite <- app_assoc in HA. cbn [app] in HA.
      destruct (binop_rule op Hwf) as [_ [Hpr [_ [_ Hrange]]]].
      destruct (Kraw_to_L e1 IHe1 (binop_level op) p
                 (KFix op :: print force (S (binop_level op)) e2 ++ rest) st Hw0 Hp1 Hpl)
        as [lhs [sta [dl [Hsl [HAa [Hdl Hparl]]]]]]; [|exact HA|].
      { intro R. cbn [hd_tag stag]. rewrite Hpr.
        apply (rlimit_left e1 (binop_level op) (binop_level op) (raw_of_is_raw _ _ R)); lia. }
      pose proof (at_tag _ _ _ HAa) as Htag. simpl in Htag.
      destruct (step_binary src sta op (print force (S (binop_level op)) e2) rest p lhs e2 HAa Hwf Hpl)
        as [e' [st2 [Hsr [HA2 Hstep]]]].
      { intros st' HA'. apply (L_to_M e2 (Kraw_to_L e2 IHe2)); auto; lia. }
      exists (EBin lhs e' (pcur sta)), st2, (S dl). split; [|split; [exact HA2|]].
      + rewrite strip_bin by (rewrite Htag; exact Hwf). rewrite Hsl, Hsr, Htag. reflexivity.
      + apply (K_step p st _ dl lhs sta _ _ st2 _ Hdl Hparl Hstep);
          rewrite app_length; cbn [length]; lia.
    - (* SIs *)
      split_wf Hwf. rewrite <- app_assoc in HA. cbn [app] in HA.
      destruct (Kraw_to_L e IHe 3 p (KFix TIs :: isname_tok n :: rest) st Hwf Hp1 Hpl)
        as [lhs [sta [dl [Hsl [HAa [Hdl Hparl]]]]]]; [|exact HA|].
      { intro R. cbn [hd_tag stag]. change (prec_of TIs) with 3.
        apply (rlimit_left e 3 3 (raw_of_is_raw _ _ R)); lia. }
      pose proof (at_tag _ _ _ HAa) as Htag. simpl in Htag.
      destruct (step_is src sta n rest p lhs HAa Hpl) as [st1 [st2 [HA1 [HA2 Hstep]]]].
      exists (EBin lhs (EId (pcur st1)) (pcur sta)), st2, (S dl). split; [|split; [exact HA2|]].
      + rewrite (strip_is src lhs (pcur st1) (pcur sta) n Htag (at_cur _ _ _ _ HA1)).
        rewrite Hsl. reflexivity.
      + apply (K_step p st _ dl lhs sta 0 _ st2 _ Hdl Hparl); [intros f _; apply Hstep| |];
          rewrite app_length; cbn [length]; lia.
    - (* SMember *)
      split_wf Hwf. rewrite <- app_assoc in HA. cbn [app] in HA.
      destruct (Kraw_to_L e IHe 8 p (KFix TDot :: KIdent n :: rest) st Hwf Hp1 Hpl)
        as [lhs [sta [dl [Hsl [HAa [Hdl Hparl]]]]]]; [|exact HA|].
      { intro R. cbn [hd_tag stag]. change (prec_of TDot) with 8.
        apply (rlimit_left e 8 8 (raw_of_is_raw _ _ R)); lia. }
      pose proof (at_tag _ _ _ HAa) as Htag. simpl in Htag.
      destruct (step_member src sta n rest p lhs HAa Hpl) as [st1 [st2 [HA1 [HA2 Hstep]]]].
      exists (EBin lhs (ELit (pcur st1)) (pcur sta)), st2, (S dl). split; [|split; [exact HA2|]].
      + rewrite (strip_member src lhs (pcur st1) (pcur sta) n Htag (at_cur _ _ _ _ HA1)).
        rewrite Hsl. reflexivity.
      + apply (K_step p st _ dl lhs sta 0 _ st2 _ Hdl Hparl); [intros f _; apply Hstep| |];
          rewrite app_length; cbn [length]; lia.
    - (* SIndex *)
      split_wf Hwf. rewrite <- app_assoc in HA. cbn [app] in HA.
      rewrite <- app_assoc in HA. cbn [app] in HA.
      destruct (Kraw_to_L e1 IHe1 8 p
                 (KFix TLSquare :: print force 1 e2 ++ KFix TRSquare :: rest) st Hwf Hp1 Hpl)
        as [lhs [sta [dl [Hsl [HAa [Hdl Hparl]]]]]]; [|exact HA|].
      { intro R. cbn [hd_tag stag]. change (prec_of TLSquare) with 8.
        apply (rlimit_left e1 8 8 (raw_of_is_raw _ _ R)); lia. }
      pose proof (at_tag _ _ _ HAa) as Htag. simpl in Htag.
      destruct (step_index src sta (print force 1 e2) rest p lhs e2 HAa Hpl)
        as [e' [st2 [Hsr [HA2 Hstep]]]].
      { intros st' HA'. apply (L_to_M e2 (Kraw_to_L e2 IHe2)); auto; try (cbn; lia). }
      exists (EBin lhs e' (pcur sta)), st2, (S dl). split; [|split; [exact HA2|]].
      + rewrite strip_index by exact Htag. rewrite Hsl, Hsr. reflexivity.
      + apply (K_step p st _ dl lhs sta _ _ st2 _ Hdl Hparl Hstep);
          rewrite app_length; cbn [length]; rewrite app_length; cbn [length]; lia.
    - (* SCall *)
      split_wf Hwf. rewrite <- app_assoc in HA. cbn [app] in HA.
      rewrite <- app_assoc in HA. cbn [app] in HA.
      destruct (Kraw_to_L e IHe 8 p
                 (KFix TLParen :: pargs force args ++ KFix TRParen :: rest) st Hwf Hp1)
        as [lhs [sta [dl [Hsl [HAa [Hdl Hparl]]]]]]; [lia| |exact HA|].
      { intro R. cbn [hd_tag stag]. change (prec_of TLParen) with 9.
        apply (rlimit_left e 8 9 (raw_of_is_raw _ _ R)); lia. }
      destruct (step_call sta args rest p lhs HAa) as [es [st2 [Hss [HA2 Hstep]]]]; [lia| |exact Hw|].
      { clear - H. induction H as [|a r Ha Hr IH]; constructor; auto.
        apply L_to_M. apply Kraw_to_L. exact Ha. }
      exists (ECall lhs es), st2, (S dl). split; [|split; [exact HA2|]].
      + rewrite strip_call. rewrite Hsl, Hss. reflexivity.
      + apply (K_step p st _ dl lhs sta _ _ st2 _ Hdl Hparl Hstep);
          rewrite app_length; cbn [length]; rewrite app_length; cbn [length]; lia.
    - (* SAssign *)
      split_wf Hwf. rewrite <- app_assoc in HA. cbn [app] in HA.
      destruct (Kraw_to_L e1 IHe1 2 p (KFix TEqual :: print force 1 e2 ++ rest) st Hw0 Hp1)
        as [lhs [sta [dl [Hsl [HAa [Hdl Hparl]]]]]]; [lia| |exact HA|].
      { intro R. cbn [hd_tag stag]. change (prec_of TEqual) with 1.
        apply (rlimit_left e1 2 1 (raw_of_is_raw _ _ R)); lia. }
      pose proof (at_tag _ _ _ HAa) as Htag. simpl in Htag.
      destruct (step_assign src sta (print force 1 e2) rest p lhs e2 HAa)
        as [e' [st2 [Hsr [HA2 Hstep]]]]; [|lia| |].
      { rewrite (assignable_strip _ _ _ Hsl). rewrite assignable_desugar. exact Hwf. }
      { intros st' HA'. apply (L_to_M e2 (Kraw_to_L e2 IHe2)); auto; try lia. }
      exists (EBin lhs e' (pcur sta)), st2, (S dl). split; [|split; [exact HA2|]].
      + rewrite strip_assign by exact Htag. rewrite Hsl, Hsr. reflexivity.
      + apply (K_step p st _ dl lhs sta _ _ st2 _ Hdl Hparl Hstep);
          rewrite app_length; cbn [length]; lia.
    - (* SCompound *)
      split_wf Hwf. rewrite <- app_assoc in HA. cbn [app] in HA.
      destruct (compound_rule b Hwf) as [_ [Hpr [_ Hbin]]].
      destruct (Kraw_to_L e1 IHe1 2 p (KFix (compound_tag b) :: print force 1 e2 ++ rest) st Hw0 Hp1)
        as [lhs [sta [dl [Hsl [HAa [Hdl Hparl]]]]]]; [lia| |exact HA|].
      { intro R. cbn [hd_tag stag]. rewrite Hpr.
        apply (rlimit_left e1 2 1 (raw_of_is_raw _ _ R)); lia. }
      destruct (step_compound src sta b (print force 1 e2) rest p lhs e2 HAa Hwf)
        as [e' [st2 [Hsr [HA2 Hstep]]]]; [lia| |].
      { intros st' HA'. apply (L_to_M e2 (Kraw_to_L e2 IHe2)); auto; try lia. }
      exists (rewrite_compound lhs e' (pcur sta) b), st2, (S dl). split; [|split; [exact HA2|]].
      + rewrite strip_compound by exact Hbin. rewrite Hsl, Hsr. reflexivity.
      + apply (K_step p st _ dl lhs sta _ _ st2 _ Hdl Hparl Hstep);
          rewrite app_length; cbn [length]; lia.
  Qed.

  Lemma M_all : forall e, Mop e.
  Proof. intro e. apply L_to_M. apply Kraw_to_L. apply Kraw_all. Qed.
End Main.

(* ================================================================= whole texts *)

Lemma spell_nonempty : forall k, wf_tok k = true -> 1 <= length (spell k).
Proof.
  intros [s|s|s|t] H; simpl in *.
  - unfold wf_num in H. destruct s; [discriminate|simpl; lia].
  - destruct s; [discriminate|simpl; lia].
  - lia.
  - destruct (fix_spell t); [discriminate|simpl; lia].
Qed.

Lemma tail_text_len : forall ts, forallb wf_tok ts = true -> length ts <= length (tail_text ts).
Proof.
  induction ts as [|k r IH]; intro H; [simpl; lia|].
  cbn [forallb] in H. apply andb_true_iff in H. destruct H as [Hk Hr].
  cbn [tail_text length]. rewrite app_length. specialize (IH Hr). lia.
Qed.

Lemma text_len : forall ts, forallb wf_tok ts = true -> length ts <= length (text_of ts).
Proof.
  intros [|k r] H; [simpl; lia|].
  cbn [forallb] in H. apply andb_true_iff in H. destruct H as [Hk Hr].
  cbn [text_of length]. rewrite app_length.
  pose proof (spell_nonempty k Hk). pose proof (tail_text_len r Hr). lia.
Qed.

Lemma consume_eof_at : forall src st, At src st [] ->
  exists st', consume [TEOF] st = POk tt st'.
Proof.
  intros src st HA. destruct (advance_at_eof _ _ HA) as [tok [st' E]].
  exists st'. unfold consume. rewrite (at_tag _ _ _ HA). cbn [hd_tag tag_in tag_eqb tag_index Nat.eqb orb].
  unfold pbind. rewrite E. reflexivity.
Qed.

Lemma lay_len : forall trail its first, Gaps first its -> length its <= length (lay its trail).
Proof.
  intro trail. induction its as [|[ws k] r IH]; intros first H; [simpl; lia|].
  cbn [Gaps] in H. destruct H as [_ [_ [Hk Hr]]].
  cbn [lay length]. rewrite !app_length. specialize (IH false Hr).
  pose proof (spell_nonempty k Hk). lia.
Qed.

Lemma gaps_wf : forall its first, Gaps first its -> forallb wf_tok (map snd its) = true.
Proof.
  induction its as [|[ws k] r IH]; intros first H; [reflexivity|].
  cbn [Gaps] in H. destruct H as [_ [_ [Hk Hr]]].
  cbn [map snd forallb]. rewrite Hk. apply (IH false Hr).
Qed.

(* Parser.Parse / ParseExpression begin with one advance from the fresh parser *)
Lemma advance_first : forall (c : pctx),
  c_items c <> [] -> Gaps true (c_items c) -> is_gap (c_trail c) -> c_loop c = false -> c_fn c = false ->
  exists tok st1, advance (new_parser c) = POk tok st1 /\ At c st1 (map snd (c_items c)).
Proof.
  intros c Hne HG HT Hloop Hfn.
  destruct (c_items c) as [|[g k] r] eqn:Ei; [congruence|].
  assert (HG' := HG). cbn [Gaps] in HG'. destruct HG' as [Hg [_ [Hk Hr]]].
  assert (Hin : lex_in c (new_lexer c)) by (exists []; split; reflexivity).
  assert (Hrest : lrest (new_lexer c) = lay ((g, k) :: r) (c_trail c)).
  { cbn [new_lexer lrest]. unfold csrc. rewrite Ei. reflexivity. }
  destruct (nnn_items c (new_lexer c) g k r (c_trail c) Hin Hrest Hg Hk Hr HT)
    as [tok [l' [E [Hm [Hin' Hr']]]]].
  exists tok, (mkP c l' tok zero_token (has_nl g) false false).
  split.
  - unfold advance, new_parser. cbn [plex psrc pcur pinfn pinloop]. rewrite E. reflexivity.
  - split; [rewrite Ei; exact HG|]. split; [exact HT|]. split; [reflexivity|].
    split; [cbn; congruence|]. split; [cbn; congruence|].
    exists 0. rewrite Ei. cbn [skipn]. split; [cbn [length map]; rewrite map_length; lia|].
    split; [reflexivity|]. split; [exact Hm|]. split; [exact Hin'|]. split.
    + cbn [plex]. rewrite Hr'. unfold rest_text. rewrite Ei. reflexivity.
    + cbn [pend]. unfold gap_at. rewrite Ei. reflexivity.
Qed.

(* every printing of a well-formed expression -- with any set of forced parentheses, laid
   out with any gaps between the tokens (spaces, tabs, CRs, line ends, '#' comments up to a
   line end) -- parses, with the fuel the model grants, to a tree whose position-free form
   is the expression (compound assignments desugared, as the parser does) *)
Theorem parse_print_gaps : forall force e items trail, wf_sexpr e = true ->
  map snd items = print force 1 e -> Gaps true items -> is_gap trail ->
  exists e' st', parse_expression_src (lay items trail) = POk e' st' /\
                 strip (lay items trail) e' = Some (desugar e).
Proof.
  intros force e items trail Hwf Hmap Hg Htrail.
  pose proof (lay_len trail items true Hg) as Hlen.
  set (c := mkCtx items trail false false).
  pose proof (M_all force c e 1 []) as HM.
  rewrite app_nil_r in HM. rewrite <- Hmap in HM. rewrite map_length in HM.
  assert (Hne : items <> []).
  { intro; subst items. destruct (print_hd force e Hwf 1) as [k [tl [Ek _]]]. rewrite Ek in Hmap.
    discriminate Hmap. }
  destruct (advance_first c Hne Hg Htrail eq_refl eq_refl) as [tok [st1 [Eadv HA1]]].
  cbn [c_items c] in HA1.
  destruct (HM st1 Hwf (le_n 1)) as [e' [st2 [Hs [HA2 Hpar]]]];
    [cbn; lia|exact HA1|].
  destruct (consume_eof_at _ _ HA2) as [st3 E3].
  exists e', st3. split; [|exact Hs].
  unfold parse_expression_src, parse_expression_fuel.
  mred. change (lay items trail) with (csrc c). rewrite Eadv. unfold parse_expression.
  change (prec_index PrecAssign) with 1.
  rewrite Hpar.
  - rewrite E3. reflexivity.
  - unfold parse_fuel. change (csrc c) with (lay items trail). lia.
Qed.

(* horizontal white space only (decidable side conditions) *)
Theorem parse_print_layout : forall force e items trail, wf_sexpr e = true ->
  map snd items = print force 1 e -> gaps_ok true items = true -> forallb is_hws trail = true ->
  exists e' st', parse_expression_src (lay items trail) = POk e' st' /\
                 strip (lay items trail) e' = Some (desugar e).
Proof.
  intros force e items trail Hwf Hmap Hg Ht.
  apply (parse_print_gaps force e); auto using gaps_ok_Gaps, gap_ws.
Qed.

(* the canonical one-space layout *)
Theorem parse_print : forall force e, wf_sexpr e = true ->
  exists e' st', parse_expression_src (text_of (print force 1 e)) = POk e' st' /\
                 strip (text_of (print force 1 e)) e' = Some (desugar e).
Proof.
  intros force e Hwf. rewrite text_of_lay.
  apply (parse_print_layout force e); auto.
  - apply snd_space_items.
  - apply gaps_space_items. apply print_wf. exact Hwf.
Qed.

Lemma desugar_id : forall e, no_compound e = true -> desugar e = e.
Proof.
  induction e using sexpr_ind'; intro Hn; cbn [no_compound] in Hn; cbn [desugar];
    try reflexivity;
    repeat match type of Hn with
    | (_ && _)%bool = true => let H' := fresh "Hn" in apply andb_true_iff in Hn; destruct Hn as [Hn H']
    end;
    try (rewrite IHe by assumption); try (rewrite IHe1 by assumption); try (rewrite IHe2 by assumption);
    try reflexivity; try discriminate.
  f_equal. clear - H Hn0. induction H as [|a r Ha Hr IH]; [reflexivity|].
  cbn [forallb] in Hn0. apply andb_true_iff in Hn0. destruct Hn0 as [H1 H2].
  cbn [map]. rewrite Ha by exact H1. rewrite IH by exact H2. reflexivity.
Qed.

Theorem parse_render : forall e, wf_sexpr e = true ->
  exists e' st', parse_expression_src (text_of (render e)) = POk e' st' /\
                 strip (text_of (render e)) e' = Some (desugar e).
Proof. intros e H. exact (parse_print (fun _ => false) e H). Qed.

Theorem parse_paren : forall e, wf_sexpr e = true ->
  exists e' st', parse_expression_src (text_of (paren e)) = POk e' st' /\
                 strip (text_of (paren e)) e' = Some (desugar e).
Proof. intros e H. exact (parse_print is_app e H). Qed.

Theorem render_paren_same_tree : forall e, wf_sexpr e = true ->
  exists e1 st1 e2 st2,
    parse_expression_src (text_of (render e)) = POk e1 st1 /\
    parse_expression_src (text_of (paren e)) = POk e2 st2 /\
    strip (text_of (render e)) e1 = strip (text_of (paren e)) e2 /\
    strip (text_of (render e)) e1 = Some (desugar e).
Proof.
  intros e H. destruct (parse_render e H) as [e1 [st1 [P1 S1]]].
  destruct (parse_paren e H) as [e2 [st2 [P2 S2]]].
  exists e1, st1, e2, st2. repeat split; auto. now rewrite S1, S2.
Qed.

(* without compound assignments nothing is rewritten: the tree is the expression itself *)
Theorem parse_render_plain : forall e, wf_sexpr e = true -> no_compound e = true ->
  exists e' st', parse_expression_src (text_of (render e)) = POk e' st' /\
                 strip (text_of (render e)) e' = Some e.
Proof.
  intros e H Hn. destruct (parse_render e H) as [e' [st' [P S]]].
  exists e', st'. split; [exact P|]. now rewrite S, desugar_id.
Qed.

(* l b= r  is parsed as  l = l b r *)
Theorem compound_desugar : forall b l r, wf_sexpr (SCompound b l r) = true ->
  exists e' st', parse_expression_src (text_of (render (SCompound b l r))) = POk e' st' /\
    strip (text_of (render (SCompound b l r))) e' =
      Some (SAssign (desugar l) (SBin b (desugar l) (desugar r))).
Proof. intros b l r H. exact (parse_render (SCompound b l r) H). Qed.

(* C13 at the level of expressions: re-laying out the tokens of an expression with any
   horizontal white space gives the same tree as the canonical one-space layout *)
Theorem expr_layout_insensitive : forall force e items trail, wf_sexpr e = true ->
  map snd items = print force 1 e -> gaps_ok true items = true -> forallb is_hws trail = true ->
  exists e1 st1 e2 st2,
    parse_expression_src (lay items trail) = POk e1 st1 /\
    parse_expression_src (text_of (print force 1 e)) = POk e2 st2 /\
    strip (lay items trail) e1 = strip (text_of (print force 1 e)) e2.
Proof.
  intros force e items trail Hwf Hmap Hg Ht.
  destruct (parse_print_layout force e items trail Hwf Hmap Hg Ht) as [e1 [st1 [P1 S1]]].
  destruct (parse_print force e Hwf) as [e2 [st2 [P2 S2]]].
  exists e1, st1, e2, st2. repeat split; auto. now rewrite S1, S2.
Qed.

(* and with line ends and comments in the gaps *)
Theorem expr_gaps_insensitive : forall force e items trail, wf_sexpr e = true ->
  map snd items = print force 1 e -> Gaps true items -> is_gap trail ->
  exists e1 st1 e2 st2,
    parse_expression_src (lay items trail) = POk e1 st1 /\
    parse_expression_src (text_of (print force 1 e)) = POk e2 st2 /\
    strip (lay items trail) e1 = strip (text_of (print force 1 e)) e2.
Proof.
  intros force e items trail Hwf Hmap Hg Ht.
  destruct (parse_print_gaps force e items trail Hwf Hmap Hg Ht) as [e1 [st1 [P1 S1]]].
  destruct (parse_print force e Hwf) as [e2 [st2 [P2 S2]]].
  exists e1, st1, e2, st2. repeat split; auto. now rewrite S1, S2.
Qed.
