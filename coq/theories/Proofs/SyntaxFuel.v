(* Fuel monotonicity of the parser: once a parser function answers POk / PErr / PPanic
   with some fuel, it gives the same answer with any larger fuel.  ([parse_fuel src] is
   therefore only a bound: results do not depend on it once it suffices.) *)
From JQ Require Import Base.Bytes Syntax.Token Syntax.Lexer Syntax.Ast Syntax.Parser Gen.Generated.
From Coq Require Import Lia Arith.
Open Scope nat_scope.

Definition ple {A} (r1 r2 : pres A) : Prop := r1 = PFuel \/ r1 = r2.

Lemma ple_refl : forall A (r : pres A), ple r r.
Proof. intros; right; reflexivity. Qed.

Lemma ple_fuel : forall A (r : pres A), ple PFuel r.
Proof. intros; left; reflexivity. Qed.

Lemma ple_trans : forall A (a b c : pres A), ple a b -> ple b c -> ple a c.
Proof. intros A a b c [H|H] [H'|H']; subst; unfold ple; auto. Qed.

Lemma pbind_ple : forall A B (m1 m2 : P A) (k1 k2 : A -> P B) st,
  (forall st, ple (m1 st) (m2 st)) -> (forall a st, ple (k1 a st) (k2 a st)) ->
  ple (pbind m1 k1 st) (pbind m2 k2 st).
Proof.
  intros A B m1 m2 k1 k2 st Hm Hk. unfold pbind. destruct (Hm st) as [E|E]; rewrite E.
  - apply ple_fuel.
  - destruct (m2 st); try apply ple_refl. apply Hk.
Qed.

Ltac walk :=
  cbv beta zeta;
  match goal with
  | |- ple ?a ?a => apply ple_refl
  | |- ple PFuel _ => apply ple_fuel
  | H : _ |- _ => simple apply H
  | |- ple (pbind _ _ _) (pbind _ _ _) => apply pbind_ple; [intro | intros ? ?]; walk
  | |- ple ((if ?b then _ else _) _) _ => destruct b; walk
  | |- ple ((match ?x with _ => _ end) _) _ => destruct x; walk
  | |- ple (match ?x with _ => _ end) _ => destruct x; walk
  end.

(* all functions of the mutual block, fuel n against fuel m *)
Definition mono_at (n m : nat) : Prop :=
  (forall p st, ple (parse_expr_prec n p st) (parse_expr_prec m p st)) /\
  (forall p lhs st, ple (parse_infix_loop n p lhs st) (parse_infix_loop m p lhs st)) /\
  (forall e acc st, ple (parse_expr_list n e acc st) (parse_expr_list m e acc st)) /\
  (forall acc st, ple (parse_object_items n acc st) (parse_object_items m acc st)) /\
  (forall st, ple (parse_match n st) (parse_match m st)) /\
  (forall acc st, ple (parse_match_cases n acc st) (parse_match_cases m acc st)) /\
  (forall acc st, ple (parse_match_pats n acc st) (parse_match_pats m acc st)) /\
  (forall st, ple (parse_statement n st) (parse_statement m st)) /\
  (forall pre st, ple (parse_for_rest n pre st) (parse_for_rest m pre st)) /\
  (forall st, ple (parse_loop_body n st) (parse_loop_body m st)) /\
  (forall acc st, ple (parse_print_args n acc st) (parse_print_args m acc st)) /\
  (forall st, ple (parse_block n st) (parse_block m st)) /\
  (forall acc st, ple (parse_block_items n acc st) (parse_block_items m acc st)).

Lemma mono_step : forall n m, mono_at n m -> mono_at (S n) (S m).
Proof.
  intros n m (H1 & H2 & H3 & H4 & H5 & H6 & H7 & H8 & H9 & H10 & H11 & H12 & H13).
  unfold mono_at. repeat split; intros.
  - cbn [parse_expr_prec]. walk.
  - cbn [parse_infix_loop]. walk.
  - cbn [parse_expr_list]. walk.
  - cbn [parse_object_items]. walk.
  - cbn [parse_match]. walk.
  - cbn [parse_match_cases]. walk.
  - cbn [parse_match_pats]. walk.
  - cbn [parse_statement]. walk.
  - cbn [parse_for_rest]. walk.
  - cbn [parse_loop_body]. walk.
  - cbn [parse_print_args]. walk.
  - cbn [parse_block]. walk.
  - cbn [parse_block_items]. walk.
Qed.

Lemma mono_zero : forall m, mono_at 0 m.
Proof. intro m. unfold mono_at. repeat split; intros; apply ple_fuel. Qed.

Lemma mono_succ : forall n, mono_at n (S n).
Proof. induction n as [|n IH]; [apply mono_zero|apply mono_step; exact IH]. Qed.

Lemma mono_refl : forall n, mono_at n n.
Proof. intro n. unfold mono_at. repeat split; intros; apply ple_refl. Qed.

Lemma mono_trans : forall a b c, mono_at a b -> mono_at b c -> mono_at a c.
Proof.
  intros a b c (A1 & A2 & A3 & A4 & A5 & A6 & A7 & A8 & A9 & A10 & A11 & A12 & A13)
               (B1 & B2 & B3 & B4 & B5 & B6 & B7 & B8 & B9 & B10 & B11 & B12 & B13).
  unfold mono_at. repeat split; intros; eapply ple_trans; eauto.
Qed.

Lemma mono_le : forall n m, n <= m -> mono_at n m.
Proof.
  intros n m H. induction H as [|m H IH]; [apply mono_refl|].
  eapply mono_trans; [exact IH|apply mono_succ].
Qed.

(* the functions defined on top of the mutual block *)
Lemma parse_rule_mono : forall n m st, n <= m -> ple (parse_rule_ n st) (parse_rule_ m st).
Proof.
  intros n m st H. destruct (mono_le n m H) as (H1 & H2 & H3 & H4 & H5 & H6 & H7 & H8 & H9 & H10 & H11 & H12 & H13).
  unfold parse_rule_, parse_expression. walk.
Qed.

Lemma parse_params_mono : forall n acc st, ple (parse_params n acc st) (parse_params (S n) acc st).
Proof.
  induction n as [|n IH]; intros acc st; [apply ple_fuel|].
  cbn [parse_params]. walk.
Qed.

Lemma parse_params_mono_le : forall n m acc st, n <= m -> ple (parse_params n acc st) (parse_params m acc st).
Proof.
  intros n m acc st H. revert acc st. induction H as [|m H IH]; intros acc st; [apply ple_refl|].
  eapply ple_trans; [apply IH|apply parse_params_mono].
Qed.

Lemma parse_function_mono : forall n m st, n <= m -> ple (parse_function n st) (parse_function m st).
Proof.
  intros n m st H. destruct (mono_le n m H) as (H1 & H2 & H3 & H4 & H5 & H6 & H7 & H8 & H9 & H10 & H11 & H12 & H13).
  pose proof (fun acc st => parse_params_mono_le n m acc st H) as HP.
  unfold parse_function. walk.
Qed.

Lemma parse_toplevel_mono : forall n rules fns st,
  ple (parse_toplevel n rules fns st) (parse_toplevel (S n) rules fns st).
Proof.
  induction n as [|n IH]; intros rules fns st; [apply ple_fuel|].
  pose proof (fun st => parse_function_mono n (S n) st (Nat.le_succ_diag_r n)) as HF.
  pose proof (fun st => parse_rule_mono n (S n) st (Nat.le_succ_diag_r n)) as HR.
  cbn [parse_toplevel]. walk.
Qed.

Lemma parse_toplevel_mono_le : forall n m rules fns st, n <= m ->
  ple (parse_toplevel n rules fns st) (parse_toplevel m rules fns st).
Proof.
  intros n m rules fns st H. revert rules fns st.
  induction H as [|m H IH]; intros rules fns st; [apply ple_refl|].
  eapply ple_trans; [apply IH|apply parse_toplevel_mono].
Qed.

(* ---- the statement asked for: more fuel, same answer *)
Theorem fuel_mono_expr : forall n m src r, n <= m ->
  parse_expression_fuel n src = r -> r <> PFuel -> parse_expression_fuel m src = r.
Proof.
  intros n m src r H E Hr.
  assert (L : ple (parse_expression_fuel n src) (parse_expression_fuel m src)).
  { destruct (mono_le n m H) as (H1 & H2 & H3 & H4 & H5 & H6 & H7 & H8 & H9 & H10 & H11 & H12 & H13).
    unfold parse_expression_fuel, parse_expression. walk. }
  destruct L as [L|L]; congruence.
Qed.

Theorem fuel_mono_program : forall n m src r, n <= m ->
  parse_program_fuel n src = r -> r <> PFuel -> parse_program_fuel m src = r.
Proof.
  intros n m src r H E Hr.
  assert (L : ple (parse_program_fuel n src) (parse_program_fuel m src)).
  { pose proof (fun rules fns st => parse_toplevel_mono_le n m rules fns st H) as HT.
    unfold parse_program_fuel. walk. }
  destruct L as [L|L]; congruence.
Qed.

Theorem fuel_mono_expr_prec : forall n m p st r, n <= m ->
  parse_expr_prec n p st = r -> r <> PFuel -> parse_expr_prec m p st = r.
Proof.
  intros n m p st r H E Hr. destruct (mono_le n m H) as (H1 & _).
  destruct (H1 p st) as [L|L]; congruence.
Qed.

Theorem fuel_mono_statement : forall n m st r, n <= m ->
  parse_statement n st = r -> r <> PFuel -> parse_statement m st = r.
Proof.
  intros n m st r H E Hr. destruct (mono_le n m H) as (_ & _ & _ & _ & _ & _ & _ & H8 & _).
  destruct (H8 st) as [L|L]; congruence.
Qed.
