(* Lexer lemmas for C06 / C13: what Lexer.lex_next returns on laid-out token text. *)
From JQ Require Import Base.Bytes Syntax.Token Syntax.Lexer Syntax.Ast Syntax.Parser Gen.Generated Spec.PrecGrammar.
From Coq Require Import Lia Arith ZifyN ZifyNat ZifyBool.
Open Scope nat_scope.

(* ------------------------------------------------------------ whitespace *)

Definition is_hws (c : byte) : bool := (N.eqb c 32 || N.eqb c 13 || N.eqb c 9)%bool.
(* a byte that ends any token: horizontal space, line end, comment start *)
Definition is_sep (c : byte) : bool := (is_hws c || N.eqb c 10 || N.eqb c 35)%bool.
Definition sep_ok (t : bytes) : bool := match t with [] => true | c :: _ => is_sep c end.
(* where skip_ws stops *)
Definition ws_stop (s : bytes) : bool :=
  match s with [] => true | c :: _ => negb (is_hws c) && negb (N.eqb c 35) end.

Lemma skip_ws_fuel_run : forall ws s pos fuel,
  forallb is_hws ws = true -> ws_stop s = true -> length ws < fuel ->
  skip_ws_fuel fuel (ws ++ s) pos = (s, pos + length ws).
Proof.
  induction ws as [|c ws IH]; intros s pos fuel Hws Hs Hf.
  - simpl. rewrite Nat.add_0_r. destruct fuel as [|f]; [simpl in Hf; lia|].
    destruct s as [|c s']; [reflexivity|].
    simpl in Hs. apply andb_true_iff in Hs. destruct Hs as [H1 H2].
    apply negb_true_iff in H1. apply negb_true_iff in H2.
    unfold is_hws in H1. simpl. rewrite H1, H2. reflexivity.
  - simpl in Hws. apply andb_true_iff in Hws. destruct Hws as [Hc Hws].
    destruct fuel as [|f]; [simpl in Hf; lia|].
    simpl in Hf. simpl app. unfold is_hws in Hc.
    change (skip_ws_fuel (S f) (c :: ws ++ s) pos) with
      (if (N.eqb c 32 || N.eqb c 13 || N.eqb c 9)%bool then skip_ws_fuel f (ws ++ s) (S pos)
       else if N.eqb c 35 then let '(s2, p2) := skip_comment (c :: ws ++ s) pos in skip_ws_fuel f s2 p2
       else (c :: ws ++ s, pos)).
    rewrite Hc. rewrite IH by (auto; lia). f_equal. simpl. lia.
Qed.

Lemma skip_ws_run : forall ws s pos,
  forallb is_hws ws = true -> ws_stop s = true ->
  skip_ws (ws ++ s) pos = (s, pos + length ws).
Proof.
  intros ws s pos Hws Hs. unfold skip_ws. apply skip_ws_fuel_run; auto.
  rewrite app_length. lia.
Qed.

Lemma skip_comment_run : forall cmt s pos,
  forallb (fun c => negb (N.eqb c 10)) cmt = true ->
  skip_comment (cmt ++ 10%N :: s) pos = (10%N :: s, pos + length cmt).
Proof.
  induction cmt as [|c cmt IH]; intros s pos H.
  - simpl. f_equal. lia.
  - simpl in H. apply andb_true_iff in H. destruct H as [Hc H].
    apply negb_true_iff in Hc. simpl. rewrite Hc. rewrite IH by auto. f_equal. lia.
Qed.

Lemma skip_comment_eof : forall cmt pos,
  forallb (fun c => negb (N.eqb c 10)) cmt = true ->
  skip_comment cmt pos = ([], pos + length cmt).
Proof.
  induction cmt as [|c cmt IH]; intros pos H.
  - simpl. f_equal. lia.
  - simpl in H. apply andb_true_iff in H. destruct H as [Hc H].
    apply negb_true_iff in Hc. simpl. rewrite Hc. rewrite IH by auto. f_equal. lia.
Qed.

(* horizontal space, then a comment, in front of a line end *)
Lemma skip_ws_fuel_comment : forall ws cmt s pos fuel,
  forallb is_hws ws = true ->
  forallb (fun c => negb (N.eqb c 10)) cmt = true ->
  length ws + 2 <= fuel ->
  skip_ws_fuel fuel (ws ++ 35%N :: cmt ++ 10%N :: s) pos =
  (10%N :: s, pos + length ws + 1 + length cmt).
Proof.
  induction ws as [|c ws IH]; intros cmt s pos fuel Hws Hc Hlen.
  - destruct fuel as [|[|f]]; [simpl in Hlen; lia|simpl in Hlen; lia|].
    simpl app.
    assert (U : skip_ws_fuel (S (S f)) (35%N :: cmt ++ 10%N :: s) pos =
      let '(s2, p2) := skip_comment (35%N :: cmt ++ 10%N :: s) pos in skip_ws_fuel (S f) s2 p2)
      by reflexivity.
    rewrite U. clear U.
    pose proof (skip_comment_run (35%N :: cmt) s pos) as R. simpl app in R.
    rewrite R by (simpl; exact Hc). clear R.
    simpl. f_equal. lia.
  - simpl in Hws. apply andb_true_iff in Hws. destruct Hws as [Hc0 Hws].
    destruct fuel as [|f]; [simpl in Hlen; lia|]. simpl in Hlen.
    unfold is_hws in Hc0. simpl app.
    assert (U : skip_ws_fuel (S f) (c :: ws ++ 35%N :: cmt ++ 10%N :: s) pos =
      if (N.eqb c 32 || N.eqb c 13 || N.eqb c 9)%bool
       then skip_ws_fuel f (ws ++ 35%N :: cmt ++ 10%N :: s) (S pos)
       else if N.eqb c 35 then
         let '(s2, p2) := skip_comment (c :: ws ++ 35%N :: cmt ++ 10%N :: s) pos in skip_ws_fuel f s2 p2
       else (c :: ws ++ 35%N :: cmt ++ 10%N :: s, pos)) by reflexivity.
    rewrite U. clear U.
    rewrite Hc0. rewrite IH by (auto; lia). f_equal. simpl. lia.
Qed.

Lemma skip_ws_comment : forall ws cmt s pos,
  forallb is_hws ws = true ->
  forallb (fun c => negb (N.eqb c 10)) cmt = true ->
  skip_ws (ws ++ 35%N :: cmt ++ 10%N :: s) pos = (10%N :: s, pos + length ws + 1 + length cmt).
Proof.
  intros ws cmt s pos Hws Hc. unfold skip_ws. apply skip_ws_fuel_comment; auto.
  rewrite app_length. simpl. rewrite app_length. simpl. lia.
Qed.

(* ------------------------------------------------------------ lex_next core *)

Definition lex_tok (s : bytes) (pos start0 : nat) : lex_result :=
  match s with
  | [] => LexTok (simple TEOF pos) (mkLexer [] pos pos)
  | c :: s' =>
    let l := mkLexer s pos pos in
    if N.eqb c 10 then LexTok (simple TNewline pos) (mkLexer s' (S pos) pos)
    else if N.eqb c 36 then
      let '(t, l') := lex_identifier [36%N] (mkLexer s' (S pos) pos) in LexTok t l'
    else if latin1_is_digit c then
      let '(t, l') := lex_number l in LexTok t l'
    else if (latin1_is_letter c || N.eqb c 95)%bool then
      let '(t, l') := lex_identifier [] l in LexTok t l'
    else
      let l1 := mkLexer s' (S pos) pos in
      let two :=
        match s' with
        | d :: s'' =>
          match lookup_op2 op2_table c d with
          | Some t => Some (LexTok (simple t pos) (mkLexer s'' (S (S pos)) pos))
          | None => None
          end
        | [] => None
        end in
      match two with
      | Some r => r
      | None =>
        match lookup_op1 op1_table c with
        | Some t => LexTok (simple t pos) l1
        | None =>
          if existsb (N.eqb c) quote_chars then lex_string c l1
          else LexErr pos l1
        end
      end
  end.

Lemma lex_tok_cons : forall c s' pos start0,
  lex_tok (c :: s') pos start0 =
    if N.eqb c 10 then LexTok (simple TNewline pos) (mkLexer s' (S pos) pos)
    else if N.eqb c 36 then
      let '(t, l') := lex_identifier [36%N] (mkLexer s' (S pos) pos) in LexTok t l'
    else if latin1_is_digit c then
      let '(t, l') := lex_number (mkLexer (c :: s') pos pos) in LexTok t l'
    else if (latin1_is_letter c || N.eqb c 95)%bool then
      let '(t, l') := lex_identifier [] (mkLexer (c :: s') pos pos) in LexTok t l'
    else
      match
        match s' with
        | d :: s'' =>
          match lookup_op2 op2_table c d with
          | Some t => Some (LexTok (simple t pos) (mkLexer s'' (S (S pos)) pos))
          | None => None
          end
        | [] => None
        end
      with
      | Some r => r
      | None =>
        match lookup_op1 op1_table c with
        | Some t => LexTok (simple t pos) (mkLexer s' (S pos) pos)
        | None =>
          if existsb (N.eqb c) quote_chars then lex_string c (mkLexer s' (S pos) pos)
          else LexErr pos (mkLexer s' (S pos) pos)
        end
      end.
Proof. reflexivity. Qed.

Lemma lex_next_unfold : forall l0,
  lex_next l0 = let '(s, pos) := skip_ws (lrest l0) (lpos l0) in lex_tok s pos (lstart l0).
Proof. intro l0. unfold lex_next, lex_tok. destruct (skip_ws (lrest l0) (lpos l0)) as [s pos]. reflexivity. Qed.

(* ------------------------------------------------------------ take_while *)

Definition stops_at (p : byte -> bool) (t : bytes) : bool :=
  match t with [] => true | c :: _ => negb (p c) end.

Lemma take_while_app : forall p run t,
  forallb p run = true -> stops_at p t = true -> take_while p (run ++ t) = (run, t).
Proof.
  induction run as [|c run IH]; intros t Hr Ht.
  - simpl. destruct t as [|c t']; [reflexivity|]. simpl in Ht. apply negb_true_iff in Ht.
    simpl. rewrite Ht. reflexivity.
  - simpl in Hr. apply andb_true_iff in Hr. destruct Hr as [Hc Hr].
    simpl. rewrite Hc. rewrite IH by auto. reflexivity.
Qed.

(* byte class facts *)
Lemma sep_facts : forall c, is_sep c = true ->
  ident_char c = false /\ latin1_is_digit c = false /\ N.eqb c 46 = false /\ N.eqb c 61 = false.
Proof.
  intros c H. unfold is_sep, is_hws in H.
  repeat rewrite orb_true_iff in H. repeat rewrite N.eqb_eq in H.
  destruct H as [[[[H|H]|H]|H]|H]; subst c; vm_compute; auto.
Qed.

Lemma sep_stops_ident : forall t, sep_ok t = true -> stops_at ident_char t = true.
Proof.
  intros [|c t] H; [reflexivity|]. simpl in *. apply sep_facts in H.
  destruct H as [H _]. now rewrite H.
Qed.

Lemma sep_stops_digit : forall t, sep_ok t = true -> stops_at latin1_is_digit t = true.
Proof.
  intros [|c t] H; [reflexivity|]. simpl in *. apply sep_facts in H.
  destruct H as [_ [H _]]. now rewrite H.
Qed.

Lemma ident_start_facts : forall c, is_ident_start c = true ->
  N.eqb c 10 = false /\ N.eqb c 36 = false /\ latin1_is_digit c = false /\ ident_char c = true.
Proof.
  intros c H. unfold is_ident_start in H.
  repeat split.
  - destruct (N.eqb_spec c 10) as [->|]; [vm_compute in H; discriminate|reflexivity].
  - destruct (N.eqb_spec c 36) as [->|]; [vm_compute in H; discriminate|reflexivity].
  - unfold latin1_is_digit, is_ascii_digit.
    unfold latin1_is_letter, is_ascii_upper, is_ascii_lower in H. lia.
  - unfold ident_char. apply orb_true_iff in H. destruct H as [H|H]; rewrite H.
    + rewrite orb_true_r. reflexivity.
    + reflexivity.
Qed.

Lemma digit_facts : forall c, latin1_is_digit c = true ->
  N.eqb c 10 = false /\ N.eqb c 36 = false /\ ident_char c = true.
Proof.
  intros c H. unfold latin1_is_digit, is_ascii_digit in H. repeat split.
  - lia.
  - lia.
  - unfold ident_char, latin1_is_digit, is_ascii_digit. lia.
Qed.

(* ------------------------------------------------------------ keywords *)

Lemma bytes_eqb_sym : forall a b, bytes_eqb a b = bytes_eqb b a.
Proof.
  induction a as [|x a IH]; destruct b as [|y b]; simpl; auto.
  rewrite N.eqb_sym. now rewrite IH.
Qed.

Lemma lookup_kw_none : forall tbl s,
  lookup_kw tbl s = None <-> existsb (bytes_eqb s) (map fst tbl) = false.
Proof.
  induction tbl as [|[k t] tbl IH]; intro s; simpl.
  - tauto.
  - rewrite (bytes_eqb_sym s k). destruct (bytes_eqb k s); simpl.
    + split; discriminate.
    + apply IH.
Qed.

Lemma keywords_table : map fst keyword_table = keywords.
Proof. reflexivity. Qed.

Lemma not_keyword_lookup : forall s, is_keyword s = false -> lookup_kw keyword_table s = None.
Proof. intros s H. apply lookup_kw_none. rewrite keywords_table. exact H. Qed.

(* C13: an identifier run is a keyword token iff the whole run is a keyword *)
Lemma lookup_kw_sound : forall tbl s t, lookup_kw tbl s = Some t -> In (s, t) tbl.
Proof.
  induction tbl as [|[k t'] tbl IH]; intros s t H; simpl in H; [discriminate|].
  destruct (bytes_eqb k s) eqn:E.
  - apply bytes_eqb_eq in E. inversion H; subst. left; reflexivity.
  - right. auto.
Qed.

(* ------------------------------------------------------------ identifiers *)

Definition word_result (pre w tl : bytes) (pos st : nat) : token * lexer :=
  match lookup_kw keyword_table (pre ++ w) with
  | Some tg => (mkTok tg st 0, mkLexer tl (pos + length w) st)
  | None => (mkTok TIdent st (pos + length w - st), mkLexer tl (pos + length w) st)
  end.

Lemma lex_identifier_run : forall pre w tl pos st,
  forallb ident_char w = true -> stops_at ident_char tl = true ->
  lex_identifier pre (mkLexer (w ++ tl) pos st) = word_result pre w tl pos st.
Proof.
  intros pre w tl pos st Hw Htl. unfold lex_identifier, word_result. simpl lrest.
  rewrite take_while_app by auto. simpl lpos. simpl lstart.
  destruct (lookup_kw keyword_table (pre ++ w)); reflexivity.
Qed.

(* a word starting with a letter or underscore *)
Lemma lex_tok_word : forall c r tl pos st0,
  is_ident_start c = true -> forallb ident_char r = true -> stops_at ident_char tl = true ->
  lex_tok ((c :: r) ++ tl) pos st0 =
  let '(t, l') := word_result [] (c :: r) tl pos pos in LexTok t l'.
Proof.
  intros c r tl pos st0 Hc Hr Htl.
  destruct (ident_start_facts c Hc) as [H10 [H36 [Hd Hi]]].
  simpl app. rewrite lex_tok_cons. rewrite H10, H36, Hd. unfold is_ident_start in Hc. rewrite Hc.
  change (c :: r ++ tl) with ((c :: r) ++ tl).
  rewrite lex_identifier_run; auto. simpl. now rewrite Hi, Hr.
Qed.

(* '$' followed by an identifier run *)
Lemma lex_tok_dollar : forall r tl pos st0,
  forallb ident_char r = true -> stops_at ident_char tl = true ->
  lex_tok ((36%N :: r) ++ tl) pos st0 =
  let '(t, l') := word_result [36%N] r tl (S pos) pos in LexTok t l'.
Proof.
  intros r tl pos st0 Hr Htl. simpl app. rewrite lex_tok_cons.
  change (N.eqb 36 10) with false. change (N.eqb 36 36) with true. cbv iota.
  rewrite lex_identifier_run; auto.
Qed.

(* ------------------------------------------------------------ numbers *)

Lemma skip_digits_split : forall s,
  exists d, s = d ++ skip_digits s /\ forallb latin1_is_digit d = true /\
            stops_at latin1_is_digit (skip_digits s) = true.
Proof.
  induction s as [|c s IH].
  - exists []. auto.
  - simpl. unfold is_digit. destruct (latin1_is_digit c) eqn:E.
    + destruct IH as [d [H1 [H2 H3]]]. exists (c :: d). simpl. rewrite E, H2.
      repeat split; auto. now rewrite <- H1.
    + exists []. simpl. rewrite E. auto.
Qed.

Definition no_frac (r : bytes) : bool :=
  match r with
  | c :: c2 :: _ => negb (N.eqb c 46 && latin1_is_digit c2)
  | _ => true
  end.

(* C13: a digit run is a number token by itself unless followed by '.' and a digit *)
Lemma lex_number_int : forall d1 r1 pos st,
  forallb latin1_is_digit d1 = true -> stops_at latin1_is_digit r1 = true -> no_frac r1 = true ->
  lex_number (mkLexer (d1 ++ r1) pos st) =
  (mkTok TNum st (pos + length d1 - st), mkLexer r1 (pos + length d1) st).
Proof.
  intros d1 r1 pos st Hd Hr Hn. unfold lex_number. simpl lrest.
  rewrite take_while_app by auto. simpl lpos. simpl lstart.
  destruct r1 as [|c [|c2 r]]; try reflexivity.
  simpl in Hn. apply negb_true_iff in Hn. rewrite Hn. reflexivity.
Qed.

Lemma lex_number_frac : forall d1 d2 r3 pos st,
  forallb latin1_is_digit d1 = true -> forallb latin1_is_digit d2 = true -> d2 <> [] ->
  stops_at latin1_is_digit r3 = true ->
  lex_number (mkLexer (d1 ++ 46%N :: d2 ++ r3) pos st) =
  (mkTok TNum st (pos + length d1 + 1 + length d2 - st),
   mkLexer r3 (pos + length d1 + 1 + length d2) st).
Proof.
  intros d1 d2 r3 pos st Hd1 Hd2 Hne Hr. unfold lex_number. simpl lrest.
  rewrite take_while_app; auto.
  destruct d2 as [|c2 d2]; [congruence|].
  simpl app. simpl in Hd2. apply andb_true_iff in Hd2. destruct Hd2 as [Hc2 Hd2].
  rewrite Hc2. change (N.eqb 46 46) with true. cbv iota. simpl andb. cbv iota.
  change (c2 :: d2 ++ r3) with ((c2 :: d2) ++ r3).
  rewrite take_while_app; [|simpl; now rewrite Hc2, Hd2|auto].
  reflexivity.
Qed.

(* shape of a well-formed number text *)
Lemma wf_num_shape : forall s, wf_num s = true ->
  (forallb latin1_is_digit s = true /\ s <> []) \/
  (exists d1 d2, s = d1 ++ 46%N :: d2 /\ forallb latin1_is_digit d1 = true /\ d1 <> [] /\
                 forallb latin1_is_digit d2 = true /\ d2 <> []).
Proof.
  intros s H. unfold wf_num in H. apply andb_true_iff in H. destruct H as [Hs H].
  destruct (skip_digits_split s) as [d1 [E1 [Hd1 _]]].
  assert (Hne : d1 <> []).
  { intro; subst d1. simpl in E1. destruct s as [|c s]; [discriminate|].
    simpl in Hs. simpl in E1. unfold is_digit in *. rewrite Hs in E1.
    assert (L : length (c :: s) = length (skip_digits s)) by (rewrite E1 at 1; reflexivity).
    clear - L. simpl in L.
    assert (forall s, length (skip_digits s) <= length s).
    { induction s0 as [|x s0 IH]; simpl; auto. destruct (is_digit x); simpl; lia. }
    specialize (H s). lia. }
  destruct (skip_digits s) as [|c d2] eqn:E.
  - left. rewrite app_nil_r in E1. subst d1. auto.
  - right. apply andb_true_iff in H. destruct H as [H H3].
    apply andb_true_iff in H. destruct H as [Hc H2]. apply N.eqb_eq in Hc. subst c.
    destruct (skip_digits_split d2) as [d2' [E2 [Hd2 _]]].
    destruct (skip_digits d2) eqn:E'; [|discriminate].
    rewrite app_nil_r in E2. subst d2'.
    exists d1, d2. repeat split; auto.
    intro; subst d2. discriminate.
Qed.

(* ------------------------------------------------------------ strings *)

Lemma scan_to_app : forall q s tl,
  forallb (fun c => negb (N.eqb c q)) s = true ->
  scan_to q (s ++ q :: tl) = Some (length s, tl).
Proof.
  induction s as [|c s IH]; intros tl H.
  - simpl. now rewrite N.eqb_refl.
  - simpl in H. apply andb_true_iff in H. destruct H as [Hc H].
    apply negb_true_iff in Hc. simpl. rewrite Hc. now rewrite IH.
Qed.

(* C13: either quote character delimits the same token *)
Lemma lex_tok_string : forall q s tl pos st0,
  (q = 34%N \/ q = 39%N) ->
  forallb (fun c => negb (N.eqb c q)) s = true ->
  lex_tok (q :: s ++ q :: tl) pos st0 =
  LexTok (mkTok TStr (S pos) (length s)) (mkLexer tl (S pos + length s + 1) (S pos)).
Proof.
  intros q s tl pos st0 Hq Hs.
  assert (E : forall d, lex_tok (q :: d) pos st0 = lex_string q (mkLexer d (S pos) pos)).
  { intro d. destruct Hq; subst q; rewrite lex_tok_cons.
    - change (N.eqb 34%N 10%N) with false. change (N.eqb 34%N 36%N) with false.
      change (latin1_is_digit 34%N) with false.
      change (latin1_is_letter 34%N || N.eqb 34%N 95%N)%bool with false.
      cbv iota.
      destruct d as [|d0 d']; [reflexivity|].
      assert (L : lookup_op2 op2_table 34%N d0 = None).
      { unfold op2_table. simpl. reflexivity. }
      rewrite L. reflexivity.
    - change (N.eqb 39%N 10%N) with false. change (N.eqb 39%N 36%N) with false.
      change (latin1_is_digit 39%N) with false.
      change (latin1_is_letter 39%N || N.eqb 39%N 95%N)%bool with false.
      cbv iota.
      destruct d as [|d0 d']; [reflexivity|].
      assert (L : lookup_op2 op2_table 39%N d0 = None).
      { unfold op2_table. simpl. reflexivity. }
      rewrite L. reflexivity. }
  rewrite E. unfold lex_string. simpl lrest. rewrite scan_to_app by auto.
  simpl lpos. simpl lstart. f_equal. f_equal. lia.
Qed.

(* ------------------------------------------------------------ one spelled token *)

Definition tok_of (k : stoken) (pos : nat) : token :=
  match k with
  | KNum s => mkTok TNum pos (length s)
  | KIdent s => mkTok TIdent pos (length s)
  | KStr s => mkTok TStr (S pos) (length s)
  | KFix t => mkTok t pos 0
  end.
Definition start_of (k : stoken) (pos : nat) : nat :=
  match k with KStr _ => S pos | _ => pos end.

Ltac sep_cases H :=
  unfold is_sep, is_hws in H;
  repeat rewrite orb_true_iff in H; repeat rewrite N.eqb_eq in H;
  destruct H as [[[[H|H]|H]|H]|H]; subst.

Lemma lextok_eq : forall tg p n r q s p' n' q' s',
  p = p' -> n = n' -> q = q' -> s = s' ->
  LexTok (mkTok tg p n) (mkLexer r q s) = LexTok (mkTok tg p' n') (mkLexer r q' s').
Proof. intros; subst; reflexivity. Qed.

Ltac tok_eq := try reflexivity; apply lextok_eq; simpl length; rewrite ?app_length; simpl length; unfold byte, bytes; lia.

Lemma forallb_ident_char_eq : forall r, forallb is_ident_char r = forallb ident_char r.
Proof. reflexivity. Qed.

Lemma lex_tok_kw : forall t (c : byte) (r : list byte) tl pos st0,
  fix_spell t = c :: r -> is_ident_start c = true -> forallb ident_char r = true ->
  lookup_kw keyword_table (c :: r) = Some t -> sep_ok tl = true ->
  lex_tok (fix_spell t ++ tl) pos st0 =
  LexTok (mkTok t pos 0) (mkLexer tl (length (fix_spell t) + pos) pos).
Proof.
  intros t c r tl pos st0 E Hc Hr Hl Htl. rewrite E.
  rewrite lex_tok_word; auto using sep_stops_ident.
  unfold word_result. simpl app. rewrite Hl. rewrite Nat.add_comm. reflexivity.
Qed.

Lemma lex_tok_fix : forall t tl pos st0,
  wf_tok (KFix t) = true -> sep_ok tl = true ->
  lex_tok (fix_spell t ++ tl) pos st0 =
  LexTok (mkTok t pos 0) (mkLexer tl (length (fix_spell t) + pos) pos).
Proof.
  intros t tl pos st0 Hwf Htl.
  destruct t; simpl in Hwf; try discriminate Hwf;
  try (eapply lex_tok_kw; [reflexivity|reflexivity|reflexivity|reflexivity|exact Htl]);
  try (destruct tl as [|c tl']; [reflexivity|]; simpl in Htl; sep_cases Htl; reflexivity).
  (* '$' *)
  change (fix_spell TDollar ++ tl) with ((36%N :: []) ++ tl).
  rewrite lex_tok_dollar; auto using sep_stops_ident.
  unfold word_result. simpl. tok_eq.
Qed.

Lemma lex_tok_spell : forall k tl pos st0,
  wf_tok k = true -> sep_ok tl = true ->
  lex_tok (spell k ++ tl) pos st0 =
  LexTok (tok_of k pos) (mkLexer tl (length (spell k) + pos) (start_of k pos)).
Proof.
  intros k tl pos st0 Hwf Htl. destruct k as [s|s|s|t].
  - (* number *)
    simpl in Hwf. simpl spell. simpl tok_of. simpl start_of.
    destruct (wf_num_shape s Hwf) as [[Hd Hne]|[d1 [d2 [E [Hd1 [Hne1 [Hd2 Hne2]]]]]]].
    + destruct s as [|c r]; [congruence|].
      assert (Hc : latin1_is_digit c = true) by (simpl in Hd; apply andb_true_iff in Hd; tauto).
      destruct (digit_facts c Hc) as [H10 [H36 _]].
      simpl app. rewrite lex_tok_cons. rewrite H10, H36, Hc.
      change (c :: r ++ tl) with ((c :: r) ++ tl).
      rewrite lex_number_int; auto using sep_stops_digit.
      * tok_eq.
      * destruct tl as [|x [|y tl']]; auto. simpl in Htl. apply sep_facts in Htl.
        destruct Htl as [_ [_ [H46 _]]]. simpl. now rewrite H46.
    + subst s. destruct d1 as [|c r]; [congruence|].
      assert (Hc : latin1_is_digit c = true) by (simpl in Hd1; apply andb_true_iff in Hd1; tauto).
      destruct (digit_facts c Hc) as [H10 [H36 _]].
      rewrite <- app_assoc. simpl app. rewrite lex_tok_cons. rewrite H10, H36, Hc.
      change (c :: r ++ 46%N :: d2 ++ tl) with ((c :: r) ++ 46%N :: d2 ++ tl).
      rewrite lex_number_frac; auto using sep_stops_digit.
      tok_eq.
  - (* identifier *)
    simpl in Hwf. simpl spell. simpl tok_of. simpl start_of.
    destruct s as [|c r]; [discriminate|].
    apply andb_true_iff in Hwf. destruct Hwf as [Hwf Hk].
    apply andb_true_iff in Hwf. destruct Hwf as [Hc Hr].
    apply negb_true_iff in Hk. apply not_keyword_lookup in Hk.
    rewrite forallb_ident_char_eq in Hr.
    destruct (is_ident_start c) eqn:Es.
    + rewrite lex_tok_word; auto using sep_stops_ident.
      unfold word_result. simpl app. unfold byte, bytes in *. rewrite Hk. tok_eq.
    + simpl in Hc. apply andb_true_iff in Hc. destruct Hc as [Hc _].
      apply N.eqb_eq in Hc. subst c.
      rewrite lex_tok_dollar; auto using sep_stops_ident.
      unfold word_result. simpl app. unfold byte, bytes in *. rewrite Hk. simpl length. tok_eq.
  - (* string *)
    simpl in Hwf. simpl spell. simpl tok_of. simpl start_of.
    rewrite <- app_comm_cons. rewrite <- app_assoc. simpl app.
    rewrite lex_tok_string.
    + tok_eq.
    + now left.
    + unfold wf_str in Hwf. rewrite forallb_forall in *. intros x Hx. specialize (Hwf x Hx).
      apply negb_true_iff in Hwf. repeat (apply orb_false_iff in Hwf; destruct Hwf as [Hwf ?]).
      now rewrite Hwf.
  - apply lex_tok_fix; auto.
Qed.

(* the first byte of a spelled token is not white space and does not open a comment *)
Lemma spell_ws_stop : forall k tl, wf_tok k = true -> ws_stop (spell k ++ tl) = true.
Proof.
  intros k tl Hwf. destruct k as [s|s|s|t].
  - simpl in *. unfold wf_num in Hwf. apply andb_true_iff in Hwf. destruct Hwf as [Hs _].
    destruct s as [|c r]; [discriminate|]. simpl in *. unfold is_digit, latin1_is_digit, is_ascii_digit in Hs.
    unfold is_hws. lia.
  - simpl in *. destruct s as [|c r]; [discriminate|].
    apply andb_true_iff in Hwf. destruct Hwf as [Hwf _].
    apply andb_true_iff in Hwf. destruct Hwf as [Hc _]. simpl.
    apply orb_true_iff in Hc. destruct Hc as [Hc|Hc].
    + unfold is_ident_start, latin1_is_letter, is_ascii_upper, is_ascii_lower in Hc. unfold is_hws. lia.
    + apply andb_true_iff in Hc. destruct Hc as [Hc _]. apply N.eqb_eq in Hc. subst c. reflexivity.
  - reflexivity.
  - destruct t; simpl in Hwf; try discriminate Hwf; reflexivity.
Qed.

Lemma wf_tok_not_newline : forall k, wf_tok k = true -> stag k <> TNewline.
Proof. intros [s|s|s|t] H; simpl; try discriminate. intro; subst t. discriminate H. Qed.

Lemma wf_tok_not_eof : forall k, wf_tok k = true -> stag k <> TEOF.
Proof. intros [s|s|s|t] H; simpl; try discriminate. intro; subst t. discriminate H. Qed.

(* ------------------------------------------------------------ text of tokens *)

Lemma get_string_mid : forall a s b tg,
  get_string (a ++ s ++ b) (mkTok tg (length a) (length s)) = Some s.
Proof.
  intros a s b tg. unfold get_string. simpl tpos. simpl tlen.
  rewrite !app_length.
  destruct (Nat.leb_spec (length a + length s) (length a + (length s + length b))) as [_|H]; [|lia].
  unfold slice. f_equal.
  rewrite skipn_app. rewrite skipn_all. rewrite Nat.sub_diag. simpl.
  rewrite firstn_app. rewrite firstn_all. rewrite Nat.sub_diag. simpl. apply app_nil_r.
Qed.

Definition tok_matches (src : bytes) (tok : token) (k : stoken) : Prop :=
  ttag tok = stag k /\
  match k with
  | KFix _ => True
  | KNum s | KIdent s | KStr s => get_string src tok = Some s
  end.

Lemma tok_of_matches : forall pre k tl,
  tok_matches (pre ++ spell k ++ tl) (tok_of k (length pre)) k.
Proof.
  intros pre k tl. destruct k as [s|s|s|t]; split; try reflexivity; simpl.
  - apply get_string_mid.
  - apply get_string_mid.
  - replace (pre ++ 34%N :: (s ++ [34%N]) ++ tl) with ((pre ++ [34%N]) ++ s ++ (34%N :: tl)).
    + replace (S (length pre)) with (length (pre ++ [34%N])) by (rewrite app_length; simpl; lia).
      apply get_string_mid.
    + rewrite <- !app_assoc. reflexivity.
Qed.

(* C13 (ws_insensitive): horizontal white space in front of a token changes nothing
   but its position *)
Lemma lex_next_ws : forall l ws k tl,
  lrest l = ws ++ spell k ++ tl -> forallb is_hws ws = true -> wf_tok k = true -> sep_ok tl = true ->
  lex_next l =
  LexTok (tok_of k (lpos l + length ws))
         (mkLexer tl (length (spell k) + (lpos l + length ws)) (start_of k (lpos l + length ws))).
Proof.
  intros l ws k tl E Hws Hwf Htl. rewrite lex_next_unfold. rewrite E.
  rewrite skip_ws_run; auto using spell_ws_stop.
  apply lex_tok_spell; auto.
Qed.

Lemma lex_next_eof : forall l, lrest l = [] ->
  lex_next l = LexTok (simple TEOF (lpos l)) (mkLexer [] (lpos l) (lpos l)).
Proof. intros l E. rewrite lex_next_unfold. rewrite E. reflexivity. Qed.

(* ---- a whole token list under an arbitrary horizontal layout *)

(* (white space, token) pairs, then trailing white space *)
Fixpoint lay (items : list (bytes * stoken)) (trail : bytes) : bytes :=
  match items with
  | [] => trail
  | (ws, k) :: r => ws ++ spell k ++ lay r trail
  end.

(* every gap is horizontal white space; only the first may be empty *)
Fixpoint gaps_ok (first : bool) (items : list (bytes * stoken)) : bool :=
  match items with
  | [] => true
  | (ws, k) :: r =>
    forallb is_hws ws && (first || match ws with [] => false | _ => true end) && wf_tok k && gaps_ok false r
  end.

Lemma lay_sep : forall items trail,
  gaps_ok false items = true -> forallb is_hws trail = true -> sep_ok (lay items trail) = true.
Proof.
  intros [|[ws k] r] trail H Ht.
  - simpl. destruct trail as [|c t]; [reflexivity|]. simpl in *.
    apply andb_true_iff in Ht. destruct Ht as [Ht _]. unfold is_sep. now rewrite Ht.
  - simpl in H. repeat (apply andb_true_iff in H; destruct H as [H ?]).
    destruct ws as [|c ws]; [discriminate|]. simpl. simpl in H.
    apply andb_true_iff in H. destruct H as [H _]. unfold is_sep. now rewrite H.
Qed.

Lemma lex_next_trail : forall trail pos st,
  forallb is_hws trail = true ->
  lex_next (mkLexer trail pos st) =
  LexTok (simple TEOF (pos + length trail)) (mkLexer [] (pos + length trail) (pos + length trail)).
Proof.
  intros trail pos st H. rewrite lex_next_unfold. cbn [lrest lpos lstart].
  rewrite <- (app_nil_r trail) at 1. rewrite skip_ws_run by auto. reflexivity.
Qed.

(* ------------------------------------------------------------ lexer invariant *)

(* the canonical layout: nothing before the first token, one space before the others *)
Definition space_items (ts : list stoken) : list (bytes * stoken) :=
  match ts with
  | [] => []
  | k :: r => ([], k) :: map (fun k' => ([32%N], k')) r
  end.

Lemma lay_spaces : forall r, lay (map (fun k' => ([32%N], k')) r) [] = tail_text r.
Proof. induction r as [|k r IH]; [reflexivity|]. cbn [map lay tail_text]. rewrite IH. reflexivity. Qed.

Lemma text_of_lay : forall ts, text_of ts = lay (space_items ts) [].
Proof. intros [|k r]; [reflexivity|]. cbn [space_items lay text_of]. now rewrite lay_spaces. Qed.

Lemma snd_space_items : forall ts, map snd (space_items ts) = ts.
Proof.
  intros [|k r]; [reflexivity|]. cbn [space_items map snd]. f_equal.
  induction r as [|k' r IH]; [reflexivity|]. cbn [map snd]. now rewrite IH.
Qed.

Lemma gaps_space_items : forall ts, forallb wf_tok ts = true -> gaps_ok true (space_items ts) = true.
Proof.
  intros [|k r] H; [reflexivity|]. cbn [forallb] in H. apply andb_true_iff in H. destruct H as [Hk Hr].
  cbn [space_items gaps_ok forallb orb andb]. rewrite Hk. cbn [andb].
  induction r as [|k' r IH]; [reflexivity|].
  cbn [forallb] in Hr. apply andb_true_iff in Hr. destruct Hr as [Hk' Hr].
  cbn [map gaps_ok forallb orb andb]. rewrite Hk'. cbn [andb]. change (is_hws 32%N) with true. cbn [andb].
  apply IH. exact Hr.
Qed.

Lemma skip_ws_none : forall s pos, ws_stop s = true -> skip_ws s pos = (s, pos).
Proof.
  intros s pos H. pose proof (skip_ws_run [] s pos eq_refl H) as E. simpl in E.
  now rewrite Nat.add_0_r in E.
Qed.

(* white space in front of anything that is not white space is the same as starting later *)
Lemma lex_next_skip : forall ws s pos st,
  forallb is_hws ws = true -> ws_stop s = true ->
  lex_next (mkLexer (ws ++ s) pos st) = lex_next (mkLexer s (pos + length ws) st).
Proof.
  intros ws s pos st Hws Hs. rewrite !lex_next_unfold. cbn [lrest lpos lstart].
  rewrite skip_ws_run by auto. rewrite skip_ws_none by auto. reflexivity.
Qed.

(* a comment up to the line end is skipped like white space: the next token is the line end *)
Lemma lex_next_comment : forall ws cmt s pos st,
  forallb is_hws ws = true -> forallb (fun c => negb (N.eqb c 10)) cmt = true ->
  lex_next (mkLexer (ws ++ 35%N :: cmt ++ 10%N :: s) pos st) =
  lex_next (mkLexer (10%N :: s) (pos + length ws + 1 + length cmt) st).
Proof.
  intros ws cmt s pos st Hws Hc. rewrite !lex_next_unfold. cbn [lrest lpos lstart].
  rewrite skip_ws_comment by auto. rewrite skip_ws_none by reflexivity. reflexivity.
Qed.

(* ---- general gaps: horizontal white space, line ends, and '#' comments up to a line end *)
Inductive is_gap : bytes -> Prop :=
| gap_ws : forall ws, forallb is_hws ws = true -> is_gap ws
| gap_nl : forall ws g, forallb is_hws ws = true -> is_gap g -> is_gap (ws ++ 10%N :: g)
| gap_cmt : forall ws cmt g, forallb is_hws ws = true ->
    forallb (fun c => negb (N.eqb c 10)) cmt = true -> is_gap g ->
    is_gap (ws ++ 35%N :: cmt ++ 10%N :: g).

(* every gap is a gap in that sense; only the first may be empty *)
Fixpoint Gaps (first : bool) (items : list (bytes * stoken)) : Prop :=
  match items with
  | [] => True
  | (g, k) :: r => is_gap g /\ (first = true \/ g <> []) /\ wf_tok k = true /\ Gaps false r
  end.

Lemma gaps_ok_Gaps : forall items first, gaps_ok first items = true -> Gaps first items.
Proof.
  induction items as [|[ws k] r IH]; intros first H; [exact I|].
  cbn [gaps_ok] in H. repeat (apply andb_true_iff in H; destruct H as [H ?]).
  cbn [Gaps]. split; [now apply gap_ws|]. split.
  - destruct first; [now left|right]. simpl in H2. destruct ws; [discriminate|discriminate].
  - split; [assumption|]. now apply IH.
Qed.

Lemma gap_head : forall g, is_gap g -> sep_ok g = true.
Proof.
  intros g H. destruct H as [ws Hws|ws g Hws Hg|ws cmt g Hws Hc Hg].
  - destruct ws as [|c ws]; [reflexivity|]. simpl in *. apply andb_true_iff in Hws.
    destruct Hws as [Hc _]. unfold is_sep. now rewrite Hc.
  - destruct ws as [|c ws]; [reflexivity|]. simpl in *. apply andb_true_iff in Hws.
    destruct Hws as [Hc _]. unfold is_sep. now rewrite Hc.
  - destruct ws as [|c ws]; [reflexivity|]. simpl in *. apply andb_true_iff in Hws.
    destruct Hws as [Hc' _]. unfold is_sep. now rewrite Hc'.
Qed.

Lemma lay_sep_G : forall items trail, Gaps false items -> is_gap trail -> sep_ok (lay items trail) = true.
Proof.
  intros [|[g k] r] trail H Ht.
  - simpl. now apply gap_head.
  - cbn [Gaps] in H. destruct H as [Hg [[Hf|Hne] _]]; [discriminate|].
    cbn [lay]. pose proof (gap_head g Hg) as S. destruct g as [|c g']; [congruence|]. exact S.
Qed.

Lemma lex_next_newline : forall s pos st,
  lex_next (mkLexer (10%N :: s) pos st) = LexTok (simple TNewline pos) (mkLexer s (S pos) pos).
Proof.
  intros s pos st. rewrite lex_next_unfold. cbn [lrest lpos lstart].
  rewrite skip_ws_none by reflexivity. rewrite lex_tok_cons. reflexivity.
Qed.

Lemma nnn_newline : forall f s pos st saw,
  next_non_newline (S f) (mkLexer (10%N :: s) pos st) saw =
  next_non_newline f (mkLexer s (S pos) pos) true.
Proof. intros. cbn [next_non_newline]. rewrite lex_next_newline. reflexivity. Qed.

Lemma nnn_tok : forall f l tok l' saw,
  lex_next l = LexTok tok l' -> ttag tok <> TNewline ->
  next_non_newline (S f) l saw = (LexTok tok l', saw).
Proof.
  intros f l tok l' saw H Hn. cbn [next_non_newline]. rewrite H.
  destruct (ttag tok); try reflexivity. congruence.
Qed.

Ltac blia := unfold byte, bytes in *; lia.

(* does a gap contain a line end (a comment always ends in one) *)
Definition has_nl (g : bytes) : bool := existsb (N.eqb 10) g.

Lemma hws_no_nl : forall ws, forallb is_hws ws = true -> has_nl ws = false.
Proof.
  induction ws as [|c ws IH]; intro H; [reflexivity|].
  cbn [forallb] in H. apply andb_true_iff in H. destruct H as [Hc H].
  cbn [has_nl existsb]. fold (has_nl ws). rewrite (IH H).
  unfold is_hws in Hc. destruct (N.eqb_spec 10 c) as [<-|]; [discriminate Hc|reflexivity].
Qed.

Lemma has_nl_app : forall a b, has_nl (a ++ b) = (has_nl a || has_nl b)%bool.
Proof. intros. unfold has_nl. apply existsb_app. Qed.

Lemma has_nl_mid : forall a b, has_nl (a ++ 10%N :: b) = true.
Proof. intros. rewrite has_nl_app. cbn [has_nl existsb N.eqb Pos.eqb]. cbn. apply orb_true_r. Qed.

(* Parser.advance over a gap: line ends are skipped (and remembered), the token behind the
   gap is returned *)
Lemma nnn_gap : forall g, is_gap g ->
  forall k tl pos st saw fuel, wf_tok k = true -> sep_ok tl = true -> length g < fuel ->
    next_non_newline fuel (mkLexer (g ++ spell k ++ tl) pos st) saw =
    (LexTok (tok_of k (pos + length g))
            (mkLexer tl (length (spell k) + (pos + length g)) (start_of k (pos + length g))),
     (saw || has_nl g)%bool).
Proof.
  intros g H. induction H as [ws Hws|ws g Hws Hg IH|ws cmt g Hws Hc Hg IH];
    intros k tl pos st saw fuel Hk Htl Hf.
  - destruct fuel as [|f]; [lia|]. rewrite (hws_no_nl ws Hws), orb_false_r.
    apply nnn_tok.
    + apply (lex_next_ws (mkLexer (ws ++ spell k ++ tl) pos st) ws k tl eq_refl Hws Hk Htl).
    + intro E. apply (wf_tok_not_newline k Hk). rewrite <- E. destruct k; reflexivity.
  - destruct fuel as [|f]; [blia|]. rewrite app_length in Hf. cbn [length] in Hf.
    cbn [next_non_newline]. rewrite <- app_assoc. cbn [app].
    rewrite lex_next_skip by (auto; reflexivity). rewrite lex_next_newline. cbn [ttag simple].
    unfold byte, bytes in *.
    rewrite (IH k tl (S (pos + length ws)) (pos + length ws) true f Hk Htl) by blia.
    rewrite has_nl_mid, orb_true_r. cbn [orb]. rewrite app_length. cbn [length].
    replace (S (pos + length ws) + length g) with (pos + (length ws + S (length g))) by blia.
    reflexivity.
  - destruct fuel as [|f]; [blia|]. rewrite app_length in Hf. cbn [length] in Hf.
    rewrite app_length in Hf. cbn [length] in Hf.
    cbn [next_non_newline].
    rewrite <- app_assoc; cbn [app]; rewrite <- app_assoc; cbn [app].
    rewrite lex_next_comment by auto. rewrite lex_next_newline. cbn [ttag simple].
    unfold byte, bytes in *.
    rewrite (IH k tl (S (pos + length ws + 1 + length cmt)) (pos + length ws + 1 + length cmt) true f Hk Htl)
      by blia.
    assert (Hn : has_nl (ws ++ 35%N :: cmt ++ 10%N :: g) = true).
    { change (ws ++ 35%N :: cmt ++ 10%N :: g) with (ws ++ (35%N :: cmt) ++ 10%N :: g).
      rewrite app_assoc. apply has_nl_mid. }
    rewrite Hn, orb_true_r. cbn [orb].
    rewrite app_length. cbn [length]. rewrite app_length. cbn [length].
    replace (S (pos + length ws + 1 + length cmt) + length g)
      with (pos + (length ws + S (length cmt + S (length g)))) by blia.
    reflexivity.
Qed.

Lemma nnn_gap_eof : forall g, is_gap g ->
  forall pos st saw fuel, length g < fuel ->
  exists tok st',
    next_non_newline fuel (mkLexer g pos st) saw =
      (LexTok tok (mkLexer [] (pos + length g) st'), (saw || has_nl g)%bool) /\
    ttag tok = TEOF.
Proof.
  intros g H. induction H as [ws Hws|ws g Hws Hg IH|ws cmt g Hws Hc Hg IH];
    intros pos st saw fuel Hf.
  - destruct fuel as [|f]; [lia|]. exists (simple TEOF (pos + length ws)), (pos + length ws).
    split; [|reflexivity]. rewrite (hws_no_nl ws Hws), orb_false_r.
    apply nnn_tok; [apply lex_next_trail; exact Hws|discriminate].
  - destruct fuel as [|f]; [blia|]. rewrite app_length in Hf. cbn [length] in Hf.
    cbn [next_non_newline].
    rewrite lex_next_skip by (auto; reflexivity). rewrite lex_next_newline. cbn [ttag simple].
    destruct (IH (S (pos + length ws)) (pos + length ws) true f) as [tok [st' [E Ht]]]; [blia|].
    exists tok, st'. split; [|exact Ht]. unfold byte, bytes in *. rewrite E.
    rewrite has_nl_mid, orb_true_r. cbn [orb]. rewrite app_length. cbn [length].
    replace (S (pos + length ws) + length g) with (pos + (length ws + S (length g))) by blia.
    reflexivity.
  - destruct fuel as [|f]; [blia|]. rewrite app_length in Hf. cbn [length] in Hf.
    rewrite app_length in Hf. cbn [length] in Hf.
    cbn [next_non_newline].
    rewrite lex_next_comment by auto. rewrite lex_next_newline. cbn [ttag simple].
    destruct (IH (S (pos + length ws + 1 + length cmt)) (pos + length ws + 1 + length cmt) true f)
      as [tok [st' [E Ht]]]; [blia|].
    exists tok, st'. split; [|exact Ht]. unfold byte, bytes in *. rewrite E.
    assert (Hn : has_nl (ws ++ 35%N :: cmt ++ 10%N :: g) = true).
    { change (ws ++ 35%N :: cmt ++ 10%N :: g) with (ws ++ (35%N :: cmt) ++ 10%N :: g).
      rewrite app_assoc. apply has_nl_mid. }
    rewrite Hn, orb_true_r. cbn [orb].
    rewrite app_length. cbn [length]. rewrite app_length. cbn [length].
    replace (S (pos + length ws + 1 + length cmt) + length g)
      with (pos + (length ws + S (length cmt + S (length g)))) by blia.
    reflexivity.
Qed.

Lemma tail_text_sep : forall ts, sep_ok (tail_text ts) = true.
Proof. intros [|k ts]; reflexivity. Qed.

Lemma lay_length_gap : forall g k r trail, length g < S (length (g ++ spell k ++ lay r trail)).
Proof. intros. rewrite app_length. lia. Qed.

(* the lexer is somewhere in [src]: what it has read plus what remains is the text *)
Definition lex_in (src : bytes) (l : lexer) : Prop :=
  exists pre, src = pre ++ lrest l /\ length pre = lpos l.

(* what Parser.advance sees in front of a laid-out token: the token, the lexer behind it,
   and whether the gap had a line end *)
Lemma nnn_items : forall src l g k r trail,
  lex_in src l -> lrest l = lay ((g, k) :: r) trail ->
  is_gap g -> wf_tok k = true -> Gaps false r -> is_gap trail ->
  exists tok l', next_non_newline (S (length (lrest l))) l false = (LexTok tok l', has_nl g) /\
    tok_matches src tok k /\ lex_in src l' /\ lrest l' = lay r trail.
Proof.
  intros src l g k r trail [pre [Hsrc Hlen]] Hrest Hgap Hwf Hr Ht.
  cbn [lay] in Hrest. destruct l as [lr lp ls]. cbn [lrest lpos lstart] in *. subst lr.
  rewrite (nnn_gap g Hgap k (lay r trail) lp ls false (S (length (g ++ spell k ++ lay r trail))) Hwf
              (lay_sep_G r trail Hr Ht) (lay_length_gap g k r trail)).
  eexists. eexists. split; [reflexivity|]. split; [|split].
  - rewrite Hsrc.
    replace (pre ++ g ++ spell k ++ lay r trail) with ((pre ++ g) ++ spell k ++ lay r trail)
      by (rewrite <- app_assoc; reflexivity).
    replace (lp + length g) with (length (pre ++ g)) by (rewrite app_length; unfold byte, bytes in *; lia).
    apply tok_of_matches.
  - cbn [lrest lpos]. exists (pre ++ g ++ spell k). split.
    + cbn [lrest]. rewrite Hsrc. rewrite <- !app_assoc. reflexivity.
    + cbn [lpos]. rewrite !app_length. unfold byte, bytes in *. lia.
  - reflexivity.
Qed.

Lemma nnn_trail : forall src l trail,
  lex_in src l -> lrest l = trail -> is_gap trail ->
  exists tok l', next_non_newline (S (length (lrest l))) l false = (LexTok tok l', has_nl trail) /\
    ttag tok = TEOF /\ lex_in src l' /\ lrest l' = [].
Proof.
  intros src l trail [pre [Hsrc Hlen]] Hrest Ht.
  destruct l as [lr lp ls]. cbn [lrest lpos lstart] in *. subst lr.
  destruct (nnn_gap_eof trail Ht lp ls false (S (length trail)) (Nat.lt_succ_diag_r _))
    as [tok [st' [E Htag]]].
  rewrite E. eexists. eexists. split; [reflexivity|]. split; [exact Htag|]. split; [|reflexivity].
  exists (pre ++ trail). split.
  - cbn [lrest]. rewrite Hsrc. now rewrite app_nil_r.
  - cbn [lpos]. rewrite app_length. unfold byte, bytes in *. lia.
Qed.

Lemma Gaps_skipn : forall i items first, Gaps first items -> Gaps false (skipn (S i) items).
Proof.
  induction i as [|i IH]; intros items first H.
  - destruct items as [|[g k] r]; [exact I|]. cbn [Gaps] in H. cbn [skipn]. tauto.
  - destruct items as [|[g k] r]; [exact I|]. cbn [Gaps] in H. cbn [skipn].
    apply (IH r false). tauto.
Qed.

Lemma Gaps_nth : forall i items first g k r, Gaps first items -> skipn i items = (g, k) :: r ->
  is_gap g /\ wf_tok k = true /\ Gaps false r.
Proof.
  induction i as [|i IH]; intros items first g k r H E.
  - cbn [skipn] in E. subst items. cbn [Gaps] in H. tauto.
  - destruct items as [|[g0 k0] r0]; [discriminate E|]. cbn [skipn] in E. cbn [Gaps] in H.
    apply (IH r0 false g k r); tauto.
Qed.

(* ================================================================= C13 statements *)

Lemma digit_ws_stop : forall c s, latin1_is_digit c = true -> ws_stop (c :: s) = true.
Proof.
  intros c s H. simpl. unfold latin1_is_digit, is_ascii_digit in H. unfold is_hws. lia.
Qed.

(* numbers: the token is exactly the digit run (with an optional .digits) *)
Lemma number_never_absorbs_int : forall d1 r pos st,
  d1 <> [] -> forallb latin1_is_digit d1 = true ->
  stops_at latin1_is_digit r = true -> no_frac r = true ->
  lex_next (mkLexer (d1 ++ r) pos st) =
  LexTok (mkTok TNum pos (length d1)) (mkLexer r (pos + length d1) pos).
Proof.
  intros d1 r pos st Hne Hd Hr Hn. destruct d1 as [|c d]; [congruence|].
  assert (Hc : latin1_is_digit c = true) by (simpl in Hd; apply andb_true_iff in Hd; tauto).
  destruct (digit_facts c Hc) as [H10 [H36 _]].
  rewrite lex_next_unfold. cbn [lrest lpos lstart]. simpl app.
  rewrite skip_ws_none by (apply digit_ws_stop; exact Hc).
  rewrite lex_tok_cons. rewrite H10, H36, Hc.
  change (c :: d ++ r) with ((c :: d) ++ r). rewrite lex_number_int by auto.
  tok_eq.
Qed.

Lemma number_never_absorbs_frac : forall d1 d2 r pos st,
  d1 <> [] -> forallb latin1_is_digit d1 = true ->
  d2 <> [] -> forallb latin1_is_digit d2 = true ->
  stops_at latin1_is_digit r = true ->
  lex_next (mkLexer (d1 ++ 46%N :: d2 ++ r) pos st) =
  LexTok (mkTok TNum pos (length d1 + 1 + length d2))
         (mkLexer r (pos + length d1 + 1 + length d2) pos).
Proof.
  intros d1 d2 r pos st Hne1 Hd1 Hne2 Hd2 Hr. destruct d1 as [|c d]; [congruence|].
  assert (Hc : latin1_is_digit c = true) by (simpl in Hd1; apply andb_true_iff in Hd1; tauto).
  destruct (digit_facts c Hc) as [H10 [H36 _]].
  rewrite lex_next_unfold. cbn [lrest lpos lstart]. simpl app.
  rewrite skip_ws_none by (apply digit_ws_stop; exact Hc).
  rewrite lex_tok_cons. rewrite H10, H36, Hc.
  change (c :: d ++ 46%N :: d2 ++ r) with ((c :: d) ++ 46%N :: d2 ++ r).
  rewrite lex_number_frac by auto.
  tok_eq.
Qed.

(* the three situations named in C13: digits followed by '-', by '+', by '.x' with x no digit *)
Lemma number_never_absorbs : forall d1 c r pos st,
  d1 <> [] -> forallb latin1_is_digit d1 = true ->
  (c = 45%N \/ c = 43%N \/ (c = 46%N /\ stops_at latin1_is_digit r = true)) ->
  lex_next (mkLexer (d1 ++ c :: r) pos st) =
  LexTok (mkTok TNum pos (length d1)) (mkLexer (c :: r) (pos + length d1) pos).
Proof.
  intros d1 c r pos st Hne Hd Hc. apply number_never_absorbs_int; auto.
  - destruct Hc as [->|[->|[-> _]]]; reflexivity.
  - destruct Hc as [->|[->|[-> Hr]]]; destruct r as [|x r']; try reflexivity.
    simpl in Hr. simpl. now rewrite Hr.
Qed.

(* keywords *)
Lemma keyword_lookup_iff : forall w tg,
  lookup_kw keyword_table w = Some tg <-> In (w, tg) keyword_table.
Proof.
  intros w tg. split; [apply lookup_kw_sound|].
  intro H. unfold keyword_table in H. simpl in H.
  repeat (destruct H as [H|H]; [inversion H; subst; reflexivity|]). contradiction.
Qed.

Lemma ident_start_ws_stop : forall c s, is_ident_start c = true -> ws_stop (c :: s) = true.
Proof.
  intros c s H. simpl.
  unfold is_ident_start, latin1_is_letter, is_ascii_upper, is_ascii_lower in H. unfold is_hws. lia.
Qed.

(* an identifier run is a keyword token iff the whole run is a keyword *)
Lemma keyword_whole_word : forall c r tl pos st,
  is_ident_start c = true -> forallb ident_char r = true -> stops_at ident_char tl = true ->
  lex_next (mkLexer ((c :: r) ++ tl) pos st) =
  LexTok (match lookup_kw keyword_table (c :: r) with
          | Some tg => mkTok tg pos 0
          | None => mkTok TIdent pos (length (c :: r))
          end)
         (mkLexer tl (pos + length (c :: r)) pos).
Proof.
  intros c r tl pos st Hc Hr Htl.
  rewrite lex_next_unfold. cbn [lrest lpos lstart].
  rewrite skip_ws_none by (simpl app; apply ident_start_ws_stop; exact Hc).
  rewrite lex_tok_word by auto. unfold word_result. simpl app.
  destruct (lookup_kw keyword_table (c :: r)); [reflexivity|].
  tok_eq.
Qed.

(* the two quote characters are interchangeable *)
Lemma quote_ws_stop : forall q s, (q = 34%N \/ q = 39%N) -> ws_stop (q :: s) = true.
Proof. intros q s [->| ->]; reflexivity. Qed.

Lemma lex_next_string : forall q s tl pos st,
  (q = 34%N \/ q = 39%N) -> forallb (fun c => negb (N.eqb c q)) s = true ->
  lex_next (mkLexer (q :: s ++ q :: tl) pos st) =
  LexTok (mkTok TStr (S pos) (length s)) (mkLexer tl (S pos + length s + 1) (S pos)).
Proof.
  intros q s tl pos st Hq Hs. rewrite lex_next_unfold. cbn [lrest lpos lstart].
  rewrite skip_ws_none by (apply quote_ws_stop; exact Hq).
  apply lex_tok_string; auto.
Qed.

Lemma quotes_interchangeable : forall s tl pos st,
  forallb (fun c => negb (N.eqb c 34 || N.eqb c 39)) s = true ->
  lex_next (mkLexer (39%N :: s ++ 39%N :: tl) pos st) =
  lex_next (mkLexer (34%N :: s ++ 34%N :: tl) pos st).
Proof.
  intros s tl pos st H.
  rewrite !lex_next_string; auto.
  - rewrite forallb_forall in *. intros x Hx. specialize (H x Hx).
    apply negb_true_iff in H. apply orb_false_iff in H. destruct H as [H _]. now rewrite H.
  - rewrite forallb_forall in *. intros x Hx. specialize (H x Hx).
    apply negb_true_iff in H. apply orb_false_iff in H. destruct H as [_ H]. now rewrite H.
Qed.

(* white space in front of a token changes only its position *)
Definition shift_tok (n : nat) (t : token) : token := mkTok (ttag t) (tpos t + n) (tlen t).

Lemma tok_of_shift : forall k pos n, tok_of k (pos + n) = shift_tok n (tok_of k pos).
Proof. intros [s|s|s|t] pos n; reflexivity. Qed.

Lemma ws_insensitive : forall ws k tl pos st,
  forallb is_hws ws = true -> wf_tok k = true -> sep_ok tl = true ->
  exists t l1 l2,
    lex_next (mkLexer (spell k ++ tl) pos st) = LexTok t l1 /\
    lex_next (mkLexer (ws ++ spell k ++ tl) pos st) = LexTok (shift_tok (length ws) t) l2 /\
    ttag t = stag k /\ lrest l1 = tl /\ lrest l2 = tl /\ lpos l2 = lpos l1 + length ws.
Proof.
  intros ws k tl pos st Hws Hk Htl.
  pose proof (lex_next_ws (mkLexer (spell k ++ tl) pos st) [] k tl eq_refl eq_refl Hk Htl) as E1.
  pose proof (lex_next_ws (mkLexer (ws ++ spell k ++ tl) pos st) ws k tl eq_refl Hws Hk Htl) as E2.
  cbn [lpos length] in E1, E2. rewrite Nat.add_0_r in E1.
  eexists. eexists. eexists. split; [exact E1|]. split; [rewrite E2, tok_of_shift; reflexivity|].
  cbn [lrest lpos]. repeat split.
  - destruct k; reflexivity.
  - unfold byte, bytes. lia.
Qed.

(* ---- a whole token list under an arbitrary horizontal layout *)

Lemma lex_all_layout_gen : forall items trail first pre pos st fuel,
  gaps_ok first items = true -> forallb is_hws trail = true ->
  length pre = pos -> length items < fuel ->
  exists toks eof,
    lex_all_fuel fuel (mkLexer (lay items trail) pos st) = (toks ++ [eof], None) /\
    ttag eof = TEOF /\
    Forall2 (tok_matches (pre ++ lay items trail)) toks (map snd items).
Proof.
  induction items as [|[ws k] r IH]; intros trail first pre pos st fuel Hg Ht Hpre Hf.
  - destruct fuel as [|f]; [simpl in Hf; lia|].
    exists [], (simple TEOF (pos + length trail)). simpl lay. cbn [lex_all_fuel].
    rewrite lex_next_trail by auto. cbn [ttag simple]. repeat split. constructor.
  - destruct fuel as [|f]; [simpl in Hf; lia|]. simpl in Hf.
    cbn [gaps_ok] in Hg. repeat (apply andb_true_iff in Hg; destruct Hg as [Hg ?]).
    rename H into Hr, H0 into Hk, H1 into Hne, Hg into Hws.
    cbn [lay].
    pose proof (lex_next_ws (mkLexer (ws ++ spell k ++ lay r trail) pos st) ws k (lay r trail)
                  eq_refl Hws Hk (lay_sep r trail Hr Ht)) as E.
    cbn [lpos] in E.
    destruct (IH trail false (pre ++ ws ++ spell k) (length (spell k) + (pos + length ws))
                (start_of k (pos + length ws)) f Hr Ht) as [toks [eof [El [He Hm]]]].
    { rewrite !app_length. lia. }
    { lia. }
    exists (tok_of k (pos + length ws) :: toks), eof.
    cbn [lex_all_fuel]. rewrite E.
    assert (Hnt : ttag (tok_of k (pos + length ws)) <> TEOF).
    { replace (ttag (tok_of k (pos + length ws))) with (stag k) by (destruct k; reflexivity).
      now apply wf_tok_not_eof. }
    destruct (ttag (tok_of k (pos + length ws))) eqn:Etag; try congruence;
      rewrite El; (split; [reflexivity|]; split; [exact He|]);
      (cbn [map snd]; constructor;
       [ replace (pre ++ ws ++ spell k ++ lay r trail) with ((pre ++ ws) ++ spell k ++ lay r trail)
           by (rewrite <- app_assoc; reflexivity);
         replace (pos + length ws) with (length (pre ++ ws)) by (rewrite app_length; lia);
         apply tok_of_matches
       | replace (pre ++ ws ++ spell k ++ lay r trail) with ((pre ++ ws ++ spell k) ++ lay r trail)
           by (rewrite <- !app_assoc; reflexivity);
         exact Hm ]).
Qed.

(* C13: any horizontal layout of a token list lexes to the same tags and texts *)
Lemma lex_render_layout : forall items trail,
  gaps_ok true items = true -> forallb is_hws trail = true ->
  exists toks eof,
    lex_all (lay items trail) = (toks ++ [eof], None) /\ ttag eof = TEOF /\
    Forall2 (tok_matches (lay items trail)) toks (map snd items).
Proof.
  intros items trail Hg Ht. unfold lex_all, new_lexer.
  apply (lex_all_layout_gen items trail true [] 0 0); auto.
  assert (L : forall its first, gaps_ok first its = true -> length its <= length (lay its trail)).
  { induction its as [|[ws k] r IH]; intros first H; [simpl; lia|].
    cbn [gaps_ok] in H. repeat (apply andb_true_iff in H; destruct H as [H ?]).
    cbn [lay length]. rewrite !app_length. specialize (IH false H0).
    assert (1 <= length (spell k)).
    { destruct k as [s|s|s|t]; simpl in *.
      - unfold wf_num in H1. destruct s; [discriminate|simpl; lia].
      - destruct s; [discriminate|simpl; lia].
      - lia.
      - destruct (fix_spell t); [discriminate|simpl; lia]. }
    lia. }
  specialize (L items true Hg). lia.
Qed.
