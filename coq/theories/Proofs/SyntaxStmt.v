(* C13 at statement / program level: every permitted writing of a program (Spec/StmtLayout.v)
   parses -- Parser.parse_program with the model's own fuel -- to an AST whose position-free
   form is the program.  Hence two permitted writings of one program parse to
   [program_equiv] ASTs, and (Proofs/PosIndep.v) run alike. *)
From JQ Require Import Base.Bytes Syntax.Token Syntax.Lexer Syntax.Ast Syntax.Parser Gen.Generated.
From JQ Require Import Spec.PrecGrammar Spec.StmtGrammar Proofs.SyntaxLex Proofs.Syntax Spec.StmtLayout.
From Coq Require Import Lia Arith ZifyN ZifyNat ZifyBool.
Open Scope nat_scope.

(* ================================================================= states up to [pend] *)

Definition with_pend (b : bool) (st : pstate) : pstate :=
  mkP (psrc st) (plex st) (pcur st) (pprev st) b (pinfn st) (pinloop st).

(* At, except that didEndStatement may have been overwritten (set_end) *)
Definition AtW (c : pctx) (st : pstate) (ts : list stoken) : Prop :=
  At c (with_pend (nlb c ts) st) ts.

Lemma at_pend : forall (c : pctx) st ts, At c st ts -> pend st = nlb c ts.
Proof.
  intros c st ts (_ & _ & _ & _ & _ & i & Hi & _ & _ & _ & _ & Hp).
  unfold nlb. replace (length (c_items c) - length ts) with i by lia. exact Hp.
Qed.

Lemma with_pend_id : forall st, with_pend (pend st) st = st.
Proof. destruct st; reflexivity. Qed.

Lemma At_AtW : forall (c : pctx) st ts, At c st ts -> AtW c st ts.
Proof. intros c st ts H. unfold AtW. rewrite <- (at_pend c st ts H). now rewrite with_pend_id. Qed.

Lemma AtW_pend : forall (c : pctx) st ts b, AtW c st ts -> AtW c (with_pend b st) ts.
Proof. intros c st ts b H. exact H. Qed.

Lemma AtW_At : forall (c : pctx) st ts, AtW c st ts -> pend st = nlb c ts -> At c st ts.
Proof. intros c st ts H E. unfold AtW in H. rewrite <- E in H. now rewrite with_pend_id in H. Qed.

Lemma atW_tag : forall (c : pctx) st ts, AtW c st ts -> ttag (pcur st) = hd_tag ts.
Proof. intros c st ts H. exact (at_tag _ _ _ H). Qed.

Lemma atW_flags : forall (c : pctx) st ts, AtW c st ts -> pinloop st = c_loop c /\ pinfn st = c_fn c.
Proof. intros c st ts (_ & _ & _ & Hl & Hf & _). split; [exact Hl|exact Hf]. Qed.

Lemma advance_atW : forall (c : pctx) st k ts,
  AtW c st (k :: ts) ->
  exists st', advance st = POk (pcur st') st' /\ At c st' ts /\ pprev st' = pcur st.
Proof. intros c st k ts H. exact (advance_at c _ k ts H). Qed.

Lemma consume_atW : forall (c : pctx) st k ts tags,
  AtW c st (k :: ts) -> tag_in (stag k) tags = true ->
  exists st', consume tags st = POk tt st' /\ At c st' ts /\ pprev st' = pcur st.
Proof. intros c st k ts tags H Hin. exact (consume_at c _ k ts tags H Hin). Qed.

(* the expression parser never looks at [pend] *)
Lemma prefix_pend_irrel : forall f cur b st,
  prefix_dispatch f cur (with_pend b st) = prefix_dispatch f cur st.
Proof.
  intros f cur b st. unfold prefix_dispatch.
  destruct (rprefix (rule_of (ttag cur))); try reflexivity.
  - destruct (ttag cur); reflexivity.
  - unfold pbind, lex_regex_tok, set_cur. cbn [plex psrc pcur pprev pend pinfn pinloop with_pend].
    destruct (lex_regex (plex st)) as [t l'|pos l']; [|reflexivity].
    destruct (ttag t); reflexivity.
  - destruct f; reflexivity.
Qed.

Lemma expr_pend_irrel : forall n p b st,
  parse_expr_prec n p (with_pend b st) = parse_expr_prec n p st.
Proof.
  intros [|f] p b st; [reflexivity|]. rewrite !expr_prec_S.
  change (pcur (with_pend b st)) with (pcur st). now rewrite prefix_pend_irrel.
Qed.

(* one complete operand, from a state whose [pend] may be stale *)
Lemma M_W : forall force (c : pctx) e q rest st, wf_sexpr e = true -> 1 <= q ->
  prec_of (hd_tag rest) < q -> AtW c st (print force q e ++ rest) ->
  Mres c q st (length (print force q e)) rest e.
Proof.
  intros force c e q rest st Hwf Hq Hlt HA.
  destruct (M_all force c e q rest _ Hwf Hq Hlt HA) as [e' [st1 [Hs [HA1 Hpar]]]].
  exists e', st1. split; [exact Hs|]. split; [exact HA1|]. intros N HN.
  rewrite <- (Hpar N HN). symmetry. apply expr_pend_irrel.
Qed.

(* ================================================================= unfolding *)

Definition at_end_res (st : pstate) : pres bool :=
  if pend st then POk true st
  else match ttag (pcur st) with
       | TRCurly => POk true st
       | TSemiColon => (consume_ignored TSemiColon ;; set_end true ;; pret true) st
       | _ => POk false st
       end.
Lemma at_statement_end_eq : forall st, at_statement_end st = at_end_res st.
Proof. reflexivity. Qed.

Definition stmt_dispatch (f : nat) : P stmt := fun st =>
  (match ttag (pcur st) with
    | TPrint =>
      consume [TPrint] ;;
      do start <- pprevtok;
      do args <- parse_print_args f [];
      do e <- at_statement_end;
      (if e then set_end true else pret tt) ;;
      pret (SPrint start args)
    | TReturn =>
      if pinfn st then
        consume [TReturn] ;;
        do e <- at_statement_end;
        if e then set_end true ;; pret (SReturn None)
        else do x <- parse_expr_prec f (prec_index PrecAssign); pret (SReturn (Some x))
      else perr_cur
    | TIf =>
      consume [TIf] ;;
      consume [TLParen] ;;
      do c <- parse_expr_prec f (prec_index PrecAssign);
      consume [TRParen] ;;
      do body <- parse_statement f;
      do t2 <- pcurtag;
      if tag_eqb t2 TElse then
        consume [TElse] ;;
        do els <- parse_statement f;
        pret (SIf c body (Some els))
      else pret (SIf c body None)
    | TWhile =>
      consume [TWhile] ;;
      consume [TLParen] ;;
      do c <- parse_expr_prec f (prec_index PrecAssign);
      consume [TRParen] ;;
      do body <- parse_loop_body f;
      pret (SWhile c body)
    | TFor =>
      consume [TFor] ;;
      consume [TLParen] ;;
      do pre <- parse_expr_prec f (prec_index PrecAssign);
      do t2 <- pcurtag;
      match is_eid pre with
      | Some id =>
        if (tag_eqb t2 TIn || tag_eqb t2 TComma)%bool then
          do ix <-
            (if tag_eqb t2 TComma then
               consume_ignored TComma ;;
               consume [TIdent] ;;
               do t <- pprevtok; pret (Some t)
             else pret None);
          consume_ignored TIn ;;
          do it <- parse_expr_prec f (prec_index PrecAssign);
          consume [TRParen] ;;
          do body <- parse_loop_body f;
          pret (SForIn id ix it body)
        else parse_for_rest f pre
      | None => parse_for_rest f pre
      end
    | TLCurly => parse_block f
    | TBreak =>
      if pinloop st then consume_ignored TBreak ;; do t <- pprevtok; pret (SBreak t)
      else perr_cur
    | TContinue =>
      if pinloop st then consume_ignored TContinue ;; do t <- pprevtok; pret (SContinue t)
      else perr_cur
    | TNext => consume_ignored TNext ;; do t <- pprevtok; pret (SNext t)
    | TExit => consume_ignored TExit ;; do t <- pprevtok; pret (SExit t)
    | _ => do e <- parse_expr_prec f (prec_index PrecAssign); pret (SExpr e)
    end) st.

Lemma parse_statement_S : forall f st,
  parse_statement (S f) st = stmt_dispatch f (with_pend false st).
Proof. reflexivity. Qed.

Lemma parse_print_args_S : forall f acc st,
  parse_print_args (S f) acc st =
  (do e <- at_statement_end;
   if e then pret (rev acc)
   else
     do x <- parse_expr_prec f (prec_index PrecAssign);
     do t <- pcurtag;
     if tag_eqb t TComma then consume_ignored TComma ;; parse_print_args f (x :: acc)
     else pret (rev (x :: acc))) st.
Proof. reflexivity. Qed.

Lemma parse_block_S : forall f st,
  parse_block (S f) st =
  (consume [TLCurly] ;;
   do start <- pprevtok;
   do body <- parse_block_items f [];
   consume [TRCurly] ;;
   set_end true ;;
   pret (SBlock start body)) st.
Proof. reflexivity. Qed.

Lemma parse_block_items_S : forall f acc st,
  parse_block_items (S f) acc st =
  (do t <- pcurtag;
   if (tag_eqb t TEOF || tag_eqb t TRCurly)%bool then pret (rev acc)
   else
     do s <- parse_statement f;
     do e <- at_statement_end;
     if e then parse_block_items f (s :: acc) else perr_cur) st.
Proof. reflexivity. Qed.

Lemma parse_loop_body_S : forall f st,
  parse_loop_body (S f) st =
  (do st0 <- pget;
   set_inloop true ;;
   do body <- parse_statement f;
   set_inloop (pinloop st0) ;;
   pret body) st.
Proof. reflexivity. Qed.

(* ================================================================= small facts *)

Definition with_loop (b : bool) (st : pstate) : pstate :=
  mkP (psrc st) (plex st) (pcur st) (pprev st) (pend st) (pinfn st) b.

Lemma At_set_loop : forall (c : pctx) st ts b, At c st ts -> At (set_loop c b) (with_loop b st) ts.
Proof.
  intros c st ts b (HG & HT & Hs & Hl & Hf & Hrest).
  split; [exact HG|]. split; [exact HT|]. split; [exact Hs|]. split; [reflexivity|]. split; [exact Hf|].
  exact Hrest.
Qed.

Lemma AtW_set_loop : forall (c : pctx) st ts b, AtW c st ts -> AtW (set_loop c b) (with_loop b st) ts.
Proof. intros c st ts b H. exact (At_set_loop c _ ts b H). Qed.

Lemma set_loop_back : forall (c : pctx) b, set_loop (set_loop c b) (c_loop c) = c.
Proof. intros [i t l f] b. reflexivity. Qed.

Lemma tag_eqb_neq : forall a b, a <> b -> tag_eqb a b = false.
Proof.
  intros a b H. destruct (tag_eqb a b) eqn:E; [|reflexivity]. apply tag_eqb_eq in E. contradiction.
Qed.

(* what is known about the state after a statement: the position, and [pend] *)
Definition Post (fin : bool) (c : pctx) (rest : list stoken) (st : pstate) : Prop :=
  AtW c st rest /\
  if fin then pend st = true
  else (pend st = true \/ pend st = nlb c rest) /\ (hd_tag rest <> TRCurly -> pend st = nlb c rest).

Lemma Post_of_At : forall (c : pctx) st rest, At c st rest -> Post false c rest st.
Proof.
  intros c st rest H. split; [now apply At_AtW|]. pose proof (at_pend _ _ _ H). split; auto.
Qed.

Lemma Post_fin_pend : forall (c : pctx) st rest, AtW c st rest -> Post true c rest (with_pend true st).
Proof. intros c st rest H. split; [exact H|reflexivity]. Qed.

Lemma Post_set_loop : forall fin (c : pctx) rest st b,
  Post fin c rest st -> Post fin (set_loop c b) rest (with_loop b st).
Proof.
  intros fin c rest st b [HA HP]. split; [exact (AtW_set_loop c st rest b HA)|exact HP].
Qed.

Lemma at_end_pend : forall st, pend st = true -> at_end_res st = POk true st.
Proof. intros st H. unfold at_end_res. now rewrite H. Qed.

Lemma at_end_rcurly : forall st, ttag (pcur st) = TRCurly -> at_end_res st = POk true st.
Proof. intros st H. unfold at_end_res. rewrite H. destruct (pend st); reflexivity. Qed.

Lemma at_end_false : forall st, pend st = false ->
  ttag (pcur st) <> TRCurly -> ttag (pcur st) <> TSemiColon -> at_end_res st = POk false st.
Proof.
  intros st H H1 H2. unfold at_end_res. rewrite H. destruct (ttag (pcur st)); try reflexivity; congruence.
Qed.

Lemma at_end_semi : forall (c : pctx) st r, AtW c st (KFix TSemiColon :: r) -> pend st = false ->
  exists st2, at_end_res st = POk true (with_pend true st2) /\ At c st2 r.
Proof.
  intros c st r HA Hp. destruct (advance_atW _ _ _ _ HA) as [st2 [E [HA2 _]]].
  exists st2. split; [|exact HA2].
  unfold at_end_res. rewrite Hp. rewrite (atW_tag _ _ _ HA). cbn [hd_tag stag].
  unfold pbind at 1. unfold consume_ignored. rewrite (atW_tag _ _ _ HA).
  cbn [hd_tag stag tag_eqb tag_index Nat.eqb].
  unfold pbind. rewrite E. reflexivity.
Qed.

Lemma at_end_post : forall fin (c : pctx) R st, Post fin c R st ->
  (fin = true \/ nlb c R = true \/ hd_tag R = TRCurly) -> at_end_res st = POk true st.
Proof.
  intros fin c R st [HA HP] H. destruct fin.
  - now apply at_end_pend.
  - destruct HP as [[Hp|Hp] Hq]; [now apply at_end_pend|].
    destruct H as [H|[H|H]]; [discriminate H| |].
    + apply at_end_pend. congruence.
    + apply at_end_rcurly. rewrite (atW_tag _ _ _ HA). exact H.
Qed.

Lemma strip_block : forall src t l,
  ttag t = TLCurly -> strip_stmt src (SBlock t l) = option_map ZBlock (strip_items src l).
Proof.
  intros src t l H. cbn [strip_stmt]. rewrite H. cbn [tag_eqb tag_index Nat.eqb]. f_equal.
  induction l as [|x r IH]; [reflexivity|]. cbn [strip_items]. rewrite <- IH. reflexivity.
Qed.

Lemma strip_exprs_list : forall src l, strip_exprs src l = strip_list src l.
Proof. induction l as [|a r IH]; [reflexivity|]. cbn. now rewrite IH. Qed.

Lemma consume_ignored_atW : forall (c : pctx) st t ts,
  AtW c st (KFix t :: ts) ->
  exists st', consume_ignored t st = POk tt st' /\ At c st' ts /\ pprev st' = pcur st.
Proof.
  intros c st t ts HA. destruct (advance_atW _ _ _ _ HA) as [st' [E [HA' Hp]]].
  exists st'. split; [|split; assumption].
  unfold consume_ignored. rewrite (atW_tag _ _ _ HA). cbn [hd_tag stag]. rewrite tag_eqb_refl.
  unfold pbind. rewrite E. reflexivity.
Qed.

(* the first token of a statement *)
Definition stmt_start (t : tag) : bool :=
  match t with
  | TPrint | TLCurly | TIf | TWhile | TFor | TReturn | TBreak | TContinue | TNext | TExit => true
  | _ => starts_expr t
  end.

Lemma PrE_hd : forall e ts, PrE e ts -> exists k tl, ts = k :: tl /\ starts_expr (stag k) = true.
Proof. intros e ts [Hwf [force ->]]. apply print_hd. exact Hwf. Qed.

Lemma PrS_hd : forall c s ts rest fin, PrS c s ts rest fin ->
  exists k tl, ts = k :: tl /\ stmt_start (stag k) = true.
Proof.
  intros c s ts rest fin H. destruct H; try (eexists; eexists; split; [reflexivity|reflexivity]).
  - destruct (PrE_hd _ _ H) as [k [tl [-> Hk]]]. exists k, tl. split; [reflexivity|].
    unfold stmt_start. destruct (stag k); try discriminate Hk; reflexivity.
Qed.

(* ================================================================= print lists *)

Lemma args_parse_print : forall (c : pctx) args ta rest, PrArgs c args ta rest ->
  forall acc st, At c st (ta ++ rest) -> nlb c (ta ++ rest) = false ->
  exists es st1, strip_exprs c es = Some (map desugar args) /\ At c st1 rest /\
    forall g, length ta + 2 <= g -> parse_print_args g acc st = POk (rev acc ++ es) st1.
Proof.
  intros c args ta rest H. induction H as [a ta rest HE Hstop Hnc|a b r ta tr rest HE Hnl Hr IH];
    intros acc st HA Hn.
  - destruct HE as [Hwf [force ->]].
    destruct (M_all force c a 1 rest st Hwf (le_n 1)) as [e' [st1 [Hs [HA1 Hpar]]]];
      [unfold stops in Hstop; lia|exact HA|].
    exists [e'], st1. split; [cbn [strip_exprs map]; rewrite Hs; reflexivity|]. split; [exact HA1|].
    intros g Hg. destruct g as [|f]; [lia|]. rewrite parse_print_args_S.
    destruct (print_hd force a Hwf 1) as [k [tl [Ek Sk]]].
    assert (E0 : at_statement_end st = POk false st).
    { rewrite at_statement_end_eq. apply at_end_false.
      - rewrite (at_pend _ _ _ HA). exact Hn.
      - rewrite (at_tag _ _ _ HA), Ek. cbn [app hd_tag]. destruct (stag k); try discriminate Sk; discriminate.
      - rewrite (at_tag _ _ _ HA), Ek. cbn [app hd_tag]. destruct (stag k); try discriminate Sk; discriminate. }
    unfold pbind at 1. rewrite E0. mred. change (prec_index PrecAssign) with 1.
    rewrite Hpar by lia. rewrite (at_tag _ _ _ HA1). rewrite (tag_eqb_neq _ _ Hnc). reflexivity.
  - destruct HE as [Hwf [force ->]]. rewrite <- app_assoc in HA, Hn. cbn [app] in HA, Hn.
    destruct (M_all force c a 1 (KFix TComma :: tr ++ rest) st Hwf (le_n 1)) as [e' [st1 [Hs [HA1 Hpar]]]];
      [cbn; lia|exact HA|].
    destruct (advance_at _ _ _ _ HA1) as [st2 [E2 [HA2 _]]].
    destruct (IH (e' :: acc) st2 HA2 Hnl) as [es [st3 [Hss [HA3 Hl]]]].
    exists (e' :: es), st3. split; [cbn [strip_exprs map]; rewrite Hs, Hss; reflexivity|].
    split; [exact HA3|].
    intros g Hg. rewrite app_length in Hg. cbn [length] in Hg.
    destruct g as [|f]; [lia|]. rewrite parse_print_args_S.
    destruct (print_hd force a Hwf 1) as [k [tl [Ek Sk]]].
    assert (E0 : at_statement_end st = POk false st).
    { rewrite at_statement_end_eq. apply at_end_false.
      - rewrite (at_pend _ _ _ HA). exact Hn.
      - rewrite (at_tag _ _ _ HA), Ek. cbn [app hd_tag]. destruct (stag k); try discriminate Sk; discriminate.
      - rewrite (at_tag _ _ _ HA), Ek. cbn [app hd_tag]. destruct (stag k); try discriminate Sk; discriminate. }
    unfold pbind at 1. rewrite E0. mred. change (prec_index PrecAssign) with 1.
    rewrite Hpar by lia. rewrite (at_tag _ _ _ HA1). cbn [hd_tag stag tag_eqb tag_index Nat.eqb].
    unfold consume_ignored. rewrite (at_tag _ _ _ HA1). cbn [hd_tag stag tag_eqb tag_index Nat.eqb].
    mred. rewrite E2. rewrite Hl by lia. cbn [rev]. rewrite <- app_assoc. reflexivity.
Qed.

(* the tail of printStatement: decide whether the statement is ended *)
Lemma print_tail : forall (c : pctx) st rest (a : stmt), At c st rest ->
  (hd_tag rest = TSemiColon -> nlb c rest = true) ->
  exists st3, (do e <- at_statement_end; (if e then set_end true else pret tt) ;; pret a) st = POk a st3 /\
              Post false c rest st3.
Proof.
  intros c st rest a HA Hsemi. pose proof (at_pend _ _ _ HA) as Hp.
  destruct (nlb c rest) eqn:En.
  - exists (with_pend true st). split.
    + unfold pbind at 1. rewrite at_statement_end_eq, (at_end_pend st Hp). reflexivity.
    + split; [exact (At_AtW _ _ _ HA)|]. cbn [pend with_pend]. rewrite En. auto.
  - destruct (tag_eq_dec (hd_tag rest) TRCurly) as [Hr|Hr].
    + exists (with_pend true st). split.
      * unfold pbind at 1. rewrite at_statement_end_eq, at_end_rcurly; [reflexivity|].
        rewrite (at_tag _ _ _ HA). exact Hr.
      * split; [exact (At_AtW _ _ _ HA)|]. cbn [pend with_pend]. split; [auto|congruence].
    + exists st. split.
      * unfold pbind at 1. rewrite at_statement_end_eq, at_end_false; [reflexivity|exact Hp| |].
        -- rewrite (at_tag _ _ _ HA). exact Hr.
        -- rewrite (at_tag _ _ _ HA). intro Hs. specialize (Hsemi Hs). congruence.
      * apply Post_of_At. rewrite <- En in Hp. exact HA.
Qed.

(* ================================================================= statements *)

Definition StmtOK (c : pctx) (s : sstmt) (ts rest : list stoken) (fin : bool) : Prop :=
  forall st, AtW c st (ts ++ rest) ->
  exists a st1, strip_stmt c a = Some (dstmt s) /\ Post fin c rest st1 /\
    forall N, 2 * length ts + 2 <= N -> parse_statement N st = POk a st1.

Definition ItemsOK (c : pctx) (b : sitems) (tb rest : list stoken) : Prop :=
  forall acc st, AtW c st (tb ++ rest) -> hd_tag rest = TRCurly ->
  exists l st1, strip_items c l = Some (ditems b) /\ AtW c st1 rest /\
    forall g, 2 * length tb + 3 <= g -> parse_block_items g acc st = POk (rev acc ++ l) st1.

(* the condition of if / while: ( e ) *)
Lemma paren_cond : forall (c : pctx) e tc rest st, PrE e tc ->
  At c st (KFix TLParen :: tc ++ KFix TRParen :: rest) ->
  exists e' st3, strip c e' = Some (desugar e) /\ At c st3 rest /\
    forall f (k : expr -> P stmt), S (length tc) <= f ->
      (consume [TLParen] ;; do x <- parse_expr_prec f (prec_index PrecAssign); consume [TRParen] ;; k x) st =
      k e' st3.
Proof.
  intros c e tc rest st [Hwf [force ->]] HA.
  destruct (consume_at _ _ _ _ [TLParen] HA) as [st1 [E1 [HA1 _]]]; [reflexivity|].
  destruct (M_all force c e 1 (KFix TRParen :: rest) st1 Hwf (le_n 1)) as [e' [st2 [Hs [HA2 Hpar]]]];
    [cbn; lia|exact HA1|].
  destruct (consume_at _ _ _ _ [TRParen] HA2) as [st3 [E3 [HA3 _]]]; [reflexivity|].
  exists e', st3. split; [exact Hs|]. split; [exact HA3|]. intros f k Hf.
  mred. rewrite E1. change (prec_index PrecAssign) with 1. rewrite Hpar by lia. rewrite E3. reflexivity.
Qed.

Ltac start_stmt nf f HN :=
  intros nf HN; destruct nf as [|f]; [cbn [length] in HN; lia|];
  rewrite parse_statement_S; unfold stmt_dispatch; cbn [pcur with_pend pinloop pinfn].

Lemma simple_stmt : forall (c : pctx) t rest st (mk : token -> stmt),
  AtW c st (KFix t :: rest) ->
  exists st1, At c st1 rest /\ pprev st1 = pcur st /\
    (consume_ignored t ;; do tk <- pprevtok; pret (mk tk)) (with_pend false st) = POk (mk (pcur st)) st1.
Proof.
  intros c t rest st mk HA.
  destruct (consume_ignored_atW c (with_pend false st) t rest HA) as [st1 [E [HA1 Hp]]].
  exists st1. split; [exact HA1|]. split; [exact Hp|]. mred. rewrite E. rewrite Hp. reflexivity.
Qed.

(* an expression followed by a closing token *)
Lemma expr_then : forall (c : pctx) e te t rest st, PrE e te -> prec_of t = 0 ->
  At c st (te ++ KFix t :: rest) ->
  exists e' st2, strip c e' = Some (desugar e) /\ At c st2 rest /\
    forall f (A : Type) (k : expr -> P A), S (length te) <= f ->
      (do x <- parse_expr_prec f (prec_index PrecAssign); consume [t] ;; k x) st = k e' st2.
Proof.
  intros c e te t rest st [Hwf [force ->]] Hp HA.
  destruct (M_all force c e 1 (KFix t :: rest) st Hwf (le_n 1)) as [e' [st1 [Hs [HA1 Hpar]]]];
    [cbn [hd_tag stag]; lia|exact HA|].
  destruct (consume_at _ _ _ _ [t] HA1) as [st2 [E2 [HA2 _]]]; [cbn; now rewrite tag_eqb_refl|].
  exists e', st2. split; [exact Hs|]. split; [exact HA2|]. intros f A k Hf.
  mred. change (prec_index PrecAssign) with 1. rewrite Hpar by lia. rewrite E2. reflexivity.
Qed.

Lemma parse_for_rest_S : forall f pre st,
  parse_for_rest (S f) pre st =
  (consume [TSemiColon] ;;
   do c <- parse_expr_prec f (prec_index PrecAssign);
   consume [TSemiColon] ;;
   do post <- parse_expr_prec f (prec_index PrecAssign);
   consume [TRParen] ;;
   do body <- parse_loop_body f;
   pret (SFor pre c post body)) st.
Proof. reflexivity. Qed.

(* Parser.loopBody around a statement for which the claim is known *)
Lemma loop_body_ok : forall (c : pctx) b tb rest fin st,
  StmtOK (set_loop c true) b tb rest fin -> At c st (tb ++ rest) ->
  exists a st1, strip_stmt c a = Some (dstmt b) /\ Post fin c rest st1 /\
    forall g, 2 * length tb + 3 <= g -> parse_loop_body g st = POk a st1.
Proof.
  intros c b tb rest fin st IH HA.
  destruct (IH (with_loop true st) (AtW_set_loop _ _ _ true (At_AtW _ _ _ HA))) as [a [st4 [Hsa [HP4 Hpa]]]].
  exists a, (with_loop (pinloop st) st4). split; [exact Hsa|]. split.
  { pose proof (Post_set_loop fin _ rest st4 (c_loop c) HP4) as Q. rewrite set_loop_back in Q.
    destruct HA as (_ & _ & _ & Hl3 & _). rewrite Hl3. exact Q. }
  intros g Hg. destruct g as [|h]; [lia|]. rewrite parse_loop_body_S.
  unfold pbind at 1. unfold pget. unfold pbind at 1. unfold set_inloop at 1.
  unfold pbind at 1. change (mkP (psrc st) (plex st) (pcur st) (pprev st) (pend st) (pinfn st) true)
    with (with_loop true st). rewrite Hpa by lia. reflexivity.
Qed.

Ltac brk H :=
  repeat match type of H with
  | context [match ?x with _ => _ end] => destruct x eqn:?; try discriminate H
  end.

Lemma strip_ident_inv : forall src e s, strip src e = Some (SIdent s) ->
  exists t, e = EId t /\ ttag t = TIdent /\ get_string src t = Some s.
Proof.
  intros src e s H. destruct e as [t|t|t items|t items|x op pf|l r op|f args|t v cases];
    try discriminate H.
  - cbn [strip] in H. unfold option_map in H. brk H; discriminate H.
  - cbn [strip] in H. unfold option_map in H. destruct (ttag t) eqn:Et; try discriminate H.
    destruct (get_string src t) as [b|] eqn:Eg; [|discriminate H]. inversion H; subst. eauto.
  - cbn [strip] in H. unfold option_map in H. brk H; discriminate H.
  - cbn [strip] in H. unfold omap2, option_map in H.
    destruct (ttag op); cbn [is_binop binop_level Nat.eqb negb] in H; try discriminate H;
      brk H; discriminate H.
  - rewrite strip_call in H. unfold omap2 in H. brk H; discriminate H.
Qed.

Theorem stmts_ok :
  (forall c s ts rest fin, PrS c s ts rest fin -> StmtOK c s ts rest fin) /\
  (forall c b tb rest, PrI c b tb rest -> ItemsOK c b tb rest).
Proof.
  apply PrSI_ind.
  - (* expression statement *)
    intros c e ts rest HE Hstop st HA. destruct HE as [Hwf [force ->]].
    destruct (M_W force c e 1 rest (with_pend false st) Hwf (le_n 1)) as [e' [st1 [Hs [HA1 Hpar]]]];
      [unfold stops in Hstop; lia|exact HA|].
    exists (SExpr e'), st1. split; [cbn [strip_stmt dstmt]; rewrite Hs; reflexivity|].
    split; [now apply Post_of_At|].
    start_stmt nfuel f HN. rewrite (atW_tag _ _ _ HA).
    destruct (print_hd force e Hwf 1) as [k [tl [Ek Sk]]]. rewrite Ek. cbn [app hd_tag].
    change (prec_index PrecAssign) with 1.
    destruct (stag k); try discriminate Sk; unfold pbind; rewrite Hpar by lia; reflexivity.
  - (* print, nothing after it *)
    intros c rest Hend st HA. cbn [app] in HA.
    destruct (consume_atW c (with_pend false st) _ _ [TPrint] HA) as [st1 [E1 [HA1 Hp1]]]; [reflexivity|].
    assert (Eend : at_statement_end st1 = POk true st1).
    { rewrite at_statement_end_eq. destruct Hend as [Hn|Hr].
      - apply at_end_pend. rewrite (at_pend _ _ _ HA1). exact Hn.
      - apply at_end_rcurly. rewrite (at_tag _ _ _ HA1). exact Hr. }
    exists (SPrint (pcur st) []), (with_pend true st1).
    split; [cbn [strip_stmt]; rewrite (atW_tag _ _ _ HA); reflexivity|]. split.
    + split; [exact (At_AtW _ _ _ HA1)|]. cbn [pend with_pend]. split; [auto|].
      intro Hr. destruct Hend as [Hn|Hr']; congruence.
    + start_stmt nfuel f HN. rewrite (atW_tag _ _ _ HA). cbn [hd_tag stag]. cbv iota.
      destruct f as [|g]; [cbn [length] in HN; lia|].
      unfold pbind at 1. rewrite E1. unfold pbind at 1. unfold pprevtok. unfold pbind at 1.
      rewrite parse_print_args_S. unfold pbind at 1. rewrite Eend. cbv iota. unfold pret at 1.
      unfold pbind at 1. rewrite Eend. cbn [rev]. rewrite Hp1. reflexivity.
  - (* print ; *)
    intros c rest Hn st HA. cbn [app] in HA.
    destruct (consume_atW c (with_pend false st) _ _ [TPrint] HA) as [st1 [E1 [HA1 Hp1]]]; [reflexivity|].
    destruct (at_end_semi c st1 rest (At_AtW _ _ _ HA1)) as [st2 [Eend HA2]];
      [rewrite (at_pend _ _ _ HA1); exact Hn|].
    exists (SPrint (pcur st) []), (with_pend true st2).
    split; [cbn [strip_stmt]; rewrite (atW_tag _ _ _ HA); reflexivity|]. split.
    + apply Post_fin_pend. exact (At_AtW _ _ _ HA2).
    + start_stmt nfuel f HN. rewrite (atW_tag _ _ _ HA). cbn [hd_tag stag]. cbv iota.
      destruct f as [|g]; [cbn [length] in HN; lia|].
      unfold pbind at 1. rewrite E1. unfold pbind at 1. unfold pprevtok. unfold pbind at 1.
      rewrite parse_print_args_S. unfold pbind at 1. rewrite at_statement_end_eq, Eend. cbv iota.
      unfold pret at 1. unfold pbind at 1.
      rewrite at_statement_end_eq, (at_end_pend (with_pend true st2) eq_refl).
      cbn [rev]. rewrite Hp1. reflexivity.
  - (* print a, b, ... *)
    intros c a args ta rest Hargs Hn Hsemi st HA. cbn [app] in HA.
    destruct (consume_atW c (with_pend false st) _ _ [TPrint] HA) as [st1 [E1 [HA1 Hp1]]]; [reflexivity|].
    destruct (args_parse_print c _ _ _ Hargs [] st1 HA1 Hn) as [es [st2 [Hs [HA2 Hl]]]].
    destruct (print_tail c st2 rest (SPrint (pcur st) es) HA2 Hsemi) as [st3 [E3 HP3]].
    exists (SPrint (pcur st) es), st3. split.
    { cbn [strip_stmt dstmt]. rewrite (atW_tag _ _ _ HA). cbn [hd_tag stag tag_eqb tag_index Nat.eqb].
      rewrite Hs. reflexivity. }
    split; [exact HP3|].
    start_stmt nfuel f HN. rewrite (atW_tag _ _ _ HA). cbn [hd_tag stag]. cbv iota.
    unfold pbind at 1. rewrite E1. unfold pbind at 1. unfold pprevtok. unfold pbind at 1.
    rewrite Hl by (cbn [length] in HN; lia). cbn [rev app]. rewrite Hp1. exact E3.
  - (* print a, b, ... ; *)
    intros c a args ta rest Hargs Hn Hn2 st HA. cbn [app] in HA. rewrite <- app_assoc in HA. cbn [app] in HA.
    destruct (consume_atW c (with_pend false st) _ _ [TPrint] HA) as [st1 [E1 [HA1 Hp1]]]; [reflexivity|].
    destruct (args_parse_print c _ _ _ Hargs [] st1 HA1 Hn) as [es [st2 [Hs [HA2 Hl]]]].
    destruct (at_end_semi c st2 rest (At_AtW _ _ _ HA2)) as [st3 [Eend HA3]];
      [rewrite (at_pend _ _ _ HA2); exact Hn2|].
    exists (SPrint (pcur st) es), (with_pend true st3). split.
    { cbn [strip_stmt dstmt]. rewrite (atW_tag _ _ _ HA). cbn [hd_tag stag tag_eqb tag_index Nat.eqb].
      rewrite Hs. reflexivity. }
    split; [apply Post_fin_pend; exact (At_AtW _ _ _ HA3)|].
    start_stmt nfuel f HN. rewrite (atW_tag _ _ _ HA). cbn [hd_tag stag]. cbv iota.
    unfold pbind at 1. rewrite E1. unfold pbind at 1. unfold pprevtok. unfold pbind at 1.
    rewrite Hl by (cbn [length] in HN; rewrite app_length in HN; cbn [length] in HN; lia).
    cbn [rev app]. unfold pbind at 1. rewrite at_statement_end_eq, Eend. rewrite Hp1. reflexivity.
  - (* block *)
    intros c b tb rest HI IH st HA. cbn [app] in HA. rewrite <- app_assoc in HA. cbn [app] in HA.
    destruct (consume_atW c (with_pend false st) _ _ [TLCurly] HA) as [st1 [E1 [HA1 Hp1]]]; [reflexivity|].
    destruct (IH [] st1 (At_AtW _ _ _ HA1) eq_refl) as [l [st2 [Hs [HA2 Hl]]]].
    destruct (consume_atW _ _ _ _ [TRCurly] HA2) as [st3 [E3 [HA3 _]]]; [reflexivity|].
    exists (SBlock (pcur st) l), (with_pend true st3). split.
    { rewrite strip_block by (rewrite (atW_tag _ _ _ HA); reflexivity). rewrite Hs. reflexivity. }
    split; [apply Post_fin_pend; exact (At_AtW _ _ _ HA3)|].
    start_stmt nfuel f HN. rewrite (atW_tag _ _ _ HA). cbn [hd_tag stag]. cbv iota.
    cbn [length] in HN. rewrite app_length in HN. cbn [length] in HN.
    destruct f as [|g]; [lia|]. rewrite parse_block_S.
    unfold pbind at 1. rewrite E1. unfold pbind at 1. unfold pprevtok. unfold pbind at 1.
    rewrite Hl by lia. cbn [rev app]. unfold pbind at 1. rewrite E3. rewrite Hp1. reflexivity.
  - (* if without else *)
    intros c cnd b tc tb rest fin HE HB IH Hne st HA.
    cbn [app] in HA. rewrite <- app_assoc in HA. cbn [app] in HA.
    destruct (consume_atW c (with_pend false st) _ _ [TIf] HA) as [st1 [E1 [HA1 _]]]; [reflexivity|].
    destruct (paren_cond c cnd tc (tb ++ rest) st1 HE HA1) as [e' [st3 [Hs [HA3 Hpc]]]].
    destruct (IH st3 (At_AtW _ _ _ HA3)) as [a [st4 [Hsa [HP4 Hpa]]]].
    exists (SIf e' a None), st4. split; [cbn [strip_stmt dstmt]; rewrite Hs, Hsa; reflexivity|].
    split; [exact HP4|].
    start_stmt nfuel f HN. rewrite (atW_tag _ _ _ HA). cbn [hd_tag stag]. cbv iota.
    cbn [length] in HN. rewrite app_length in HN. cbn [length] in HN.
    unfold pbind at 1. rewrite E1. rewrite Hpc by lia. unfold pbind at 1. rewrite Hpa by lia.
    unfold pbind at 1. unfold pcurtag. rewrite (atW_tag _ _ _ (proj1 HP4)).
    rewrite (tag_eqb_neq _ _ Hne). reflexivity.
  - (* if with else *)
    intros c cnd b e tc tb te rest finb fin HE HB IHb HEl IHe st HA.
    cbn [app] in HA. rewrite <- app_assoc in HA. cbn [app] in HA.
    rewrite <- app_assoc in HA. cbn [app] in HA.
    destruct (consume_atW c (with_pend false st) _ _ [TIf] HA) as [st1 [E1 [HA1 _]]]; [reflexivity|].
    destruct (paren_cond c cnd tc (tb ++ KFix TElse :: te ++ rest) st1 HE HA1) as [e' [st3 [Hs [HA3 Hpc]]]].
    destruct (IHb st3 (At_AtW _ _ _ HA3)) as [a [st4 [Hsa [HP4 Hpa]]]].
    destruct (consume_atW _ _ _ _ [TElse] (proj1 HP4)) as [st5 [E5 [HA5 _]]]; [reflexivity|].
    destruct (IHe st5 (At_AtW _ _ _ HA5)) as [a2 [st6 [Hsa2 [HP6 Hpa2]]]].
    exists (SIf e' a (Some a2)), st6.
    split; [cbn [strip_stmt dstmt]; rewrite Hs, Hsa, Hsa2; reflexivity|].
    split; [exact HP6|].
    start_stmt nfuel f HN. rewrite (atW_tag _ _ _ HA). cbn [hd_tag stag]. cbv iota.
    cbn [length] in HN. rewrite app_length in HN. cbn [length] in HN.
    rewrite app_length in HN. cbn [length] in HN.
    unfold pbind at 1. rewrite E1. rewrite Hpc by lia. unfold pbind at 1. rewrite Hpa by lia.
    unfold pbind at 1. unfold pcurtag. rewrite (atW_tag _ _ _ (proj1 HP4)).
    cbn [hd_tag stag tag_eqb tag_index Nat.eqb]. unfold pbind at 1. rewrite E5.
    unfold pbind at 1. rewrite Hpa2 by lia. reflexivity.
  - (* while *)
    intros c cnd b tc tb rest fin HE HB IH st HA.
    cbn [app] in HA. rewrite <- app_assoc in HA. cbn [app] in HA.
    destruct (consume_atW c (with_pend false st) _ _ [TWhile] HA) as [st1 [E1 [HA1 _]]]; [reflexivity|].
    destruct (paren_cond c cnd tc (tb ++ rest) st1 HE HA1) as [e' [st3 [Hs [HA3 Hpc]]]].
    destruct (IH (with_loop true st3) (AtW_set_loop _ _ _ true (At_AtW _ _ _ HA3))) as [a [st4 [Hsa [HP4 Hpa]]]].
    exists (SWhile e' a), (with_loop (pinloop st3) st4).
    split; [cbn [strip_stmt dstmt]; rewrite Hs; change (csrc (set_loop c true)) with (csrc c) in Hsa;
            rewrite Hsa; reflexivity|].
    split.
    { pose proof (Post_set_loop fin _ rest st4 (c_loop c) HP4) as Q. rewrite set_loop_back in Q.
      destruct HA3 as (_ & _ & _ & Hl3 & _). rewrite Hl3. exact Q. }
    start_stmt nfuel f HN. rewrite (atW_tag _ _ _ HA). cbn [hd_tag stag]. cbv iota.
    cbn [length] in HN. rewrite app_length in HN. cbn [length] in HN.
    unfold pbind at 1. rewrite E1. rewrite Hpc by lia.
    destruct f as [|g]; [lia|]. unfold pbind at 1. rewrite parse_loop_body_S.
    unfold pbind at 1. unfold pget. unfold pbind at 1. unfold set_inloop at 1.
    unfold pbind at 1. change (mkP (psrc st3) (plex st3) (pcur st3) (pprev st3) (pend st3) (pinfn st3) true)
      with (with_loop true st3). rewrite Hpa by lia. reflexivity.
  - (* break *)
    intros c rest Hloop st HA. cbn [app] in HA.
    destruct (simple_stmt c TBreak rest st SBreak HA) as [st1 [HA1 [Hp E]]].
    exists (SBreak (pcur st)), st1.
    split; [cbn [strip_stmt]; rewrite (atW_tag _ _ _ HA); reflexivity|]. split; [now apply Post_of_At|].
    start_stmt nfuel f HN. rewrite (atW_tag _ _ _ HA). cbn [hd_tag stag]. cbv iota.
    rewrite (proj1 (atW_flags _ _ _ HA)), Hloop. exact E.
  - (* continue *)
    intros c rest Hloop st HA. cbn [app] in HA.
    destruct (simple_stmt c TContinue rest st SContinue HA) as [st1 [HA1 [Hp E]]].
    exists (SContinue (pcur st)), st1.
    split; [cbn [strip_stmt]; rewrite (atW_tag _ _ _ HA); reflexivity|]. split; [now apply Post_of_At|].
    start_stmt nfuel f HN. rewrite (atW_tag _ _ _ HA). cbn [hd_tag stag]. cbv iota.
    rewrite (proj1 (atW_flags _ _ _ HA)), Hloop. exact E.
  - (* next *)
    intros c rest st HA. cbn [app] in HA.
    destruct (simple_stmt c TNext rest st SNext HA) as [st1 [HA1 [Hp E]]].
    exists (SNext (pcur st)), st1.
    split; [cbn [strip_stmt]; rewrite (atW_tag _ _ _ HA); reflexivity|]. split; [now apply Post_of_At|].
    start_stmt nfuel f HN. rewrite (atW_tag _ _ _ HA). cbn [hd_tag stag]. cbv iota. exact E.
  - (* exit *)
    intros c rest st HA. cbn [app] in HA.
    destruct (simple_stmt c TExit rest st SExit HA) as [st1 [HA1 [Hp E]]].
    exists (SExit (pcur st)), st1.
    split; [cbn [strip_stmt]; rewrite (atW_tag _ _ _ HA); reflexivity|]. split; [now apply Post_of_At|].
    start_stmt nfuel f HN. rewrite (atW_tag _ _ _ HA). cbn [hd_tag stag]. cbv iota. exact E.
  - (* return, nothing after it *)
    intros c rest Hfn Hend st HA. cbn [app] in HA.
    destruct (consume_atW c (with_pend false st) _ _ [TReturn] HA) as [st1 [E1 [HA1 _]]]; [reflexivity|].
    assert (Eend : at_statement_end st1 = POk true st1).
    { rewrite at_statement_end_eq. destruct Hend as [Hn|Hr].
      - apply at_end_pend. rewrite (at_pend _ _ _ HA1). exact Hn.
      - apply at_end_rcurly. rewrite (at_tag _ _ _ HA1). exact Hr. }
    exists (SReturn None), (with_pend true st1). split; [reflexivity|]. split.
    + split; [exact (At_AtW _ _ _ HA1)|]. cbn [pend with_pend]. split; [auto|].
      intro Hr. destruct Hend as [Hn|Hr']; congruence.
    + start_stmt nfuel f HN. rewrite (atW_tag _ _ _ HA). cbn [hd_tag stag]. cbv iota.
      rewrite (proj2 (atW_flags _ _ _ HA)), Hfn.
      unfold pbind at 1. rewrite E1. unfold pbind at 1. rewrite Eend. reflexivity.
  - (* return ; *)
    intros c rest Hfn Hn st HA. cbn [app] in HA.
    destruct (consume_atW c (with_pend false st) _ _ [TReturn] HA) as [st1 [E1 [HA1 _]]]; [reflexivity|].
    destruct (at_end_semi c st1 rest (At_AtW _ _ _ HA1)) as [st2 [Eend HA2]];
      [rewrite (at_pend _ _ _ HA1); exact Hn|].
    exists (SReturn None), (with_pend true st2). split; [reflexivity|].
    split; [apply Post_fin_pend; exact (At_AtW _ _ _ HA2)|].
    start_stmt nfuel f HN. rewrite (atW_tag _ _ _ HA). cbn [hd_tag stag]. cbv iota.
    rewrite (proj2 (atW_flags _ _ _ HA)), Hfn.
    unfold pbind at 1. rewrite E1. unfold pbind at 1. rewrite at_statement_end_eq, Eend. reflexivity.
  - (* return e *)
    intros c e te rest Hfn HE Hstop Hn st HA. cbn [app] in HA.
    destruct (consume_atW c (with_pend false st) _ _ [TReturn] HA) as [st1 [E1 [HA1 _]]]; [reflexivity|].
    destruct HE as [Hwf [force ->]].
    destruct (M_all force c e 1 rest st1 Hwf (le_n 1)) as [e' [st2 [Hs [HA2 Hpar]]]];
      [unfold stops in Hstop; lia|exact HA1|].
    exists (SReturn (Some e')), st2. split; [cbn [strip_stmt dstmt]; rewrite Hs; reflexivity|].
    split; [now apply Post_of_At|].
    start_stmt nfuel f HN. rewrite (atW_tag _ _ _ HA). cbn [hd_tag stag]. cbv iota.
    rewrite (proj2 (atW_flags _ _ _ HA)), Hfn.
    destruct (print_hd force e Hwf 1) as [k [tl [Ek Sk]]].
    assert (E0 : at_statement_end st1 = POk false st1).
    { rewrite at_statement_end_eq. apply at_end_false.
      - rewrite (at_pend _ _ _ HA1). exact Hn.
      - rewrite (at_tag _ _ _ HA1), Ek. cbn [app hd_tag]. destruct (stag k); try discriminate Sk; discriminate.
      - rewrite (at_tag _ _ _ HA1), Ek. cbn [app hd_tag]. destruct (stag k); try discriminate Sk; discriminate. }
    unfold pbind at 1. rewrite E1. unfold pbind at 1. rewrite E0. cbv iota.
    unfold pbind. change (prec_index PrecAssign) with 1. rewrite Hpar by (cbn [length] in HN; lia). reflexivity.
  - (* for ( ; ; ) *)
    intros c pre cnd post b tp tc tq tb rest fin HEp HEc HEq HB IH st HA.
    cbn [app] in HA. repeat (rewrite <- app_assoc in HA; cbn [app] in HA).
    destruct (consume_atW c (with_pend false st) _ _ [TFor] HA) as [st1 [E1 [HA1 _]]]; [reflexivity|].
    destruct (consume_at _ _ _ _ [TLParen] HA1) as [st2 [E2 [HA2 _]]]; [reflexivity|].
    assert (HEp' := HEp). destruct HEp' as [Hwfp [forcep ->]].
    destruct (M_all forcep c pre 1 (KFix TSemiColon :: tc ++ KFix TSemiColon :: tq ++ KFix TRParen :: tb ++ rest)
                st2 Hwfp (le_n 1)) as [pre' [st3 [Hsp [HA3 Hparp]]]];
      [cbn; lia|exact HA2|].
    destruct (consume_at _ _ _ _ [TSemiColon] HA3) as [st4 [E4 [HA4 _]]]; [reflexivity|].
    destruct (expr_then c cnd tc TSemiColon _ st4 HEc eq_refl HA4) as [c' [st5 [Hsc [HA5 Hpc]]]].
    destruct (expr_then c post tq TRParen _ st5 HEq eq_refl HA5) as [q' [st6 [Hsq [HA6 Hpq]]]].
    destruct (loop_body_ok c b tb rest fin st6 IH HA6) as [a [st7 [Hsa [HP7 Hpl]]]].
    exists (SFor pre' c' q' a), st7.
    split; [cbn [strip_stmt dstmt]; rewrite Hsp, Hsc, Hsq, Hsa; reflexivity|]. split; [exact HP7|].
    start_stmt nfuel f HN. rewrite (atW_tag _ _ _ HA). cbn [hd_tag stag]. cbv iota.
    cbn [length] in HN. repeat (rewrite app_length in HN; cbn [length] in HN).
    unfold pbind at 1. rewrite E1. unfold pbind at 1. rewrite E2.
    unfold pbind at 1. change (prec_index PrecAssign) with 1. rewrite Hparp by lia.
    unfold pbind at 1. unfold pcurtag. rewrite (at_tag _ _ _ HA3). cbn [hd_tag stag].
    assert (Erest : parse_for_rest f pre' st3 = POk (SFor pre' c' q' a) st7).
    { destruct f as [|g]; [lia|]. rewrite parse_for_rest_S.
      unfold pbind at 1. rewrite E4. rewrite Hpc by lia. rewrite Hpq by lia.
      unfold pbind. rewrite Hpl by lia. reflexivity. }
    destruct (is_eid pre'); [cbn [tag_eqb tag_index Nat.eqb orb]|]; exact Erest.
  - (* for ( id in e ) *)
    intros c id it b ti tb rest fin Hid HEi HB IH st HA.
    cbn [app] in HA. repeat (rewrite <- app_assoc in HA; cbn [app] in HA).
    destruct (consume_atW c (with_pend false st) _ _ [TFor] HA) as [st1 [E1 [HA1 _]]]; [reflexivity|].
    destruct (consume_at _ _ _ _ [TLParen] HA1) as [st2 [E2 [HA2 _]]]; [reflexivity|].
    destruct (M_all (fun _ => false) c (SIdent id) 1 (KFix TIn :: ti ++ KFix TRParen :: tb ++ rest) st2 Hid (le_n 1))
      as [pre' [st3 [Hsp [HA3 Hparp]]]]; [cbn; lia|exact HA2|].
    destruct (strip_ident_inv _ _ _ Hsp) as [t [-> [Htt Htg]]].
    destruct (consume_ignored_atW c st3 TIn _ (At_AtW _ _ _ HA3)) as [st4 [E4 [HA4 _]]].
    destruct (expr_then c it ti TRParen _ st4 HEi eq_refl HA4) as [it' [st5 [Hsi [HA5 Hpi]]]].
    destruct (loop_body_ok c b tb rest fin st5 IH HA5) as [a [st6 [Hsa [HP6 Hpl]]]].
    exists (SForIn t None it' a), st6. split.
    { cbn [strip_stmt dstmt]. unfold name_of. rewrite Htt, Htg, Hsi, Hsa. reflexivity. }
    split; [exact HP6|].
    start_stmt nfuel f HN. rewrite (atW_tag _ _ _ HA). cbn [hd_tag stag]. cbv iota.
    cbn [length] in HN. repeat (rewrite app_length in HN; cbn [length] in HN).
    unfold pbind at 1. rewrite E1. unfold pbind at 1. rewrite E2.
    unfold pbind at 1. change (prec_index PrecAssign) with 1. rewrite Hparp by (cbn; lia).
    unfold pbind at 1. unfold pcurtag. rewrite (at_tag _ _ _ HA3). cbn [hd_tag stag is_eid].
    cbn [tag_eqb tag_index Nat.eqb orb]. unfold pbind at 1. unfold pret at 1.
    unfold pbind at 1. rewrite E4. rewrite Hpi by lia. unfold pbind. rewrite Hpl by lia. reflexivity.
  - (* for ( id , ix in e ) *)
    intros c id ix it b ti tb rest fin Hid Hix HEi HB IH st HA.
    cbn [app] in HA. repeat (rewrite <- app_assoc in HA; cbn [app] in HA).
    destruct (consume_atW c (with_pend false st) _ _ [TFor] HA) as [st1 [E1 [HA1 _]]]; [reflexivity|].
    destruct (consume_at _ _ _ _ [TLParen] HA1) as [st2 [E2 [HA2 _]]]; [reflexivity|].
    destruct (M_all (fun _ => false) c (SIdent id) 1
                (KFix TComma :: KIdent ix :: KFix TIn :: ti ++ KFix TRParen :: tb ++ rest) st2 Hid (le_n 1))
      as [pre' [st3 [Hsp [HA3 Hparp]]]]; [cbn; lia|exact HA2|].
    destruct (strip_ident_inv _ _ _ Hsp) as [t [-> [Htt Htg]]].
    destruct (consume_ignored_atW c st3 TComma _ (At_AtW _ _ _ HA3)) as [st4 [E4 [HA4 _]]].
    destruct (at_cur _ _ _ _ HA4) as [Hxt Hxg]. cbn [stag] in Hxt.
    destruct (consume_at _ _ _ _ [TIdent] HA4) as [st5 [E5 [HA5 Hp5]]]; [reflexivity|].
    destruct (consume_ignored_atW c st5 TIn _ (At_AtW _ _ _ HA5)) as [st6 [E6 [HA6 _]]].
    destruct (expr_then c it ti TRParen _ st6 HEi eq_refl HA6) as [it' [st7 [Hsi [HA7 Hpi]]]].
    destruct (loop_body_ok c b tb rest fin st7 IH HA7) as [a [st8 [Hsa [HP8 Hpl]]]].
    exists (SForIn t (Some (pcur st4)) it' a), st8. split.
    { cbn [strip_stmt dstmt]. unfold name_of. rewrite Htt, Htg, Hsi, Hsa, Hxt, Hxg. reflexivity. }
    split; [exact HP8|].
    start_stmt nfuel f HN. rewrite (atW_tag _ _ _ HA). cbn [hd_tag stag]. cbv iota.
    cbn [length] in HN. repeat (rewrite app_length in HN; cbn [length] in HN).
    unfold pbind at 1. rewrite E1. unfold pbind at 1. rewrite E2.
    unfold pbind at 1. change (prec_index PrecAssign) with 1. rewrite Hparp by (cbn; lia).
    unfold pbind at 1. unfold pcurtag. rewrite (at_tag _ _ _ HA3). cbn [hd_tag stag is_eid].
    cbn [tag_eqb tag_index Nat.eqb orb]. unfold pbind at 1. unfold pbind at 1. rewrite E4.
    unfold pbind at 1. rewrite E5. unfold pbind at 1. unfold pprevtok. unfold pret at 1.
    unfold pbind at 1. rewrite E6. rewrite Hp5. rewrite Hpi by lia. unfold pbind. rewrite Hpl by lia.
    reflexivity.
  - (* no more statements *)
    intros c rest acc st HA Hr. cbn [app] in HA.
    exists [], st. split; [reflexivity|]. split; [exact HA|].
    intros g Hg. destruct g as [|f]; [lia|]. rewrite parse_block_items_S.
    unfold pbind at 1. unfold pcurtag. rewrite (atW_tag _ _ _ HA), Hr.
    cbn [tag_eqb tag_index Nat.eqb orb]. rewrite app_nil_r. reflexivity.
  - (* statement, then a gap *)
    intros c s r ts tr rest fin HS IHs Hterm HR IHr acc st HA Hr.
    rewrite <- app_assoc in HA.
    destruct (IHs st HA) as [a [st1 [Hsa [HP1 Hpa]]]].
    destruct (IHr (a :: acc) st1 (proj1 HP1) Hr) as [l [st2 [Hsl [HA2 Hl]]]].
    exists (a :: l), st2. split; [cbn [strip_items ditems]; rewrite Hsa, Hsl; reflexivity|].
    split; [exact HA2|].
    intros g Hg. rewrite app_length in Hg. destruct g as [|f]; [lia|]. rewrite parse_block_items_S.
    destruct (PrS_hd _ _ _ _ _ HS) as [k [tl [Ek Sk]]].
    unfold pbind at 1. unfold pcurtag. rewrite (atW_tag _ _ _ HA), Ek. cbn [app hd_tag].
    assert (Ht : (tag_eqb (stag k) TEOF || tag_eqb (stag k) TRCurly)%bool = false)
      by (destruct (stag k); try discriminate Sk; reflexivity).
    rewrite Ht. unfold pbind at 1. rewrite Hpa by (subst ts; cbn [length] in *; lia).
    unfold pbind at 1. rewrite at_statement_end_eq, (at_end_post fin c _ st1 HP1 Hterm).
    rewrite Hl by (subst ts; cbn [length] in *; lia). cbn [rev]. rewrite <- app_assoc. reflexivity.
  - (* statement ; *)
    intros c s r ts tr rest HS IHs Hn HR IHr acc st HA Hr.
    rewrite <- app_assoc in HA. cbn [app] in HA.
    destruct (IHs st HA) as [a [st1 [Hsa [HP1 Hpa]]]].
    destruct HP1 as [HA1 [_ Hp1]].
    destruct (at_end_semi c st1 (tr ++ rest) HA1) as [st2 [Eend HA2]];
      [rewrite Hp1 by discriminate; exact Hn|].
    destruct (IHr (a :: acc) (with_pend true st2) (At_AtW _ _ _ HA2) Hr) as [l [st3 [Hsl [HA3 Hl]]]].
    exists (a :: l), st3. split; [cbn [strip_items ditems]; rewrite Hsa, Hsl; reflexivity|].
    split; [exact HA3|].
    intros g Hg. rewrite app_length in Hg. cbn [length] in Hg.
    destruct g as [|f]; [lia|]. rewrite parse_block_items_S.
    destruct (PrS_hd _ _ _ _ _ HS) as [k [tl [Ek Sk]]].
    unfold pbind at 1. unfold pcurtag. rewrite (atW_tag _ _ _ HA), Ek. cbn [app hd_tag].
    assert (Ht : (tag_eqb (stag k) TEOF || tag_eqb (stag k) TRCurly)%bool = false)
      by (destruct (stag k); try discriminate Sk; reflexivity).
    rewrite Ht. unfold pbind at 1. rewrite Hpa by (subst ts; cbn [length] in *; lia).
    unfold pbind at 1. rewrite at_statement_end_eq, Eend.
    rewrite Hl by (subst ts; cbn [length] in *; lia). cbn [rev]. rewrite <- app_assoc. reflexivity.
Qed.

(* ================================================================= blocks, rules, programs *)

Lemma block_ok : forall (c : pctx) b tb rest st,
  PrI c b tb (KFix TRCurly :: rest) -> AtW c st (KFix TLCurly :: tb ++ KFix TRCurly :: rest) ->
  exists a st1, strip_body c a = Some (ditems b) /\ AtW c st1 rest /\
    forall n, 2 * length tb + 4 <= n -> parse_block n st = POk a st1.
Proof.
  intros c b tb rest st HI HA.
  destruct (consume_atW _ _ _ _ [TLCurly] HA) as [st1 [E1 [HA1 Hp1]]]; [reflexivity|].
  destruct (proj2 stmts_ok c b tb _ HI [] st1 (At_AtW _ _ _ HA1) eq_refl) as [l [st2 [Hs [HA2 Hl]]]].
  destruct (consume_atW _ _ _ _ [TRCurly] HA2) as [st3 [E3 [HA3 _]]]; [reflexivity|].
  exists (SBlock (pcur st) l), (with_pend true st3). split.
  { unfold strip_body. rewrite strip_block by (rewrite (atW_tag _ _ _ HA); reflexivity). rewrite Hs. reflexivity. }
  split; [exact (At_AtW _ _ _ HA3)|].
  intros n Hn. destruct n as [|f]; [lia|]. rewrite parse_block_S.
  unfold pbind at 1. rewrite E1. unfold pbind at 1. unfold pprevtok. unfold pbind at 1.
  rewrite Hl by lia. cbn [rev app]. unfold pbind at 1. rewrite E3. rewrite Hp1. reflexivity.
Qed.

Definition rule_start (t : tag) : bool :=
  match t with TBegin | TEnd | TBeginFile | TEndFile | TLCurly => true | _ => starts_expr t end.

Lemma PrR_hd : forall c r tr rest, PrR c r tr rest ->
  exists k tl, tr = k :: tl /\ rule_start (stag k) = true.
Proof.
  intros c r tr rest H. destruct H as [k b tb rest HI|p b tp tb rest HE HI].
  - destruct k; eexists; eexists; (split; [reflexivity|reflexivity]).
  - destruct (PrE_hd _ _ HE) as [k [tl [-> Hk]]]. exists k, (tl ++ KFix TLCurly :: tb ++ [KFix TRCurly]).
    split; [reflexivity|]. unfold rule_start. destruct (stag k); try discriminate Hk; reflexivity.
Qed.

Definition rule_head (n : nat) : P (rule_kind * option expr) :=
  do t <- pcurtag;
  match t with
  | TBegin => consume [TBegin] ;; pret (BeginRule, None)
  | TEnd => consume [TEnd] ;; pret (EndRule, None)
  | TBeginFile => consume [TBeginFile] ;; pret (BeginFileRule, None)
  | TEndFile => consume [TEndFile] ;; pret (EndFileRule, None)
  | TLCurly => pret (PatternRule, None)
  | _ => do e <- parse_expression n; pret (PatternRule, Some e)
  end.
Definition rule_tail (n : nat) (kp : rule_kind * option expr) : P rule :=
  let '(kind, pat) := kp in
  do t2 <- pcurtag;
  if tag_eqb t2 TLCurly then
    do body <- parse_block n; pret (mkRuleR kind pat body)
  else pret (mkRuleR kind pat (SPrint zero_token [])).

Lemma parse_rule_eq : forall n st, parse_rule_ n st = pbind (rule_head n) (rule_tail n) st.
Proof. reflexivity. Qed.

Lemma rule_tail_block : forall (c : pctx) k pat b tb rest st,
  PrI c b tb (KFix TRCurly :: rest) -> AtW c st (KFix TLCurly :: tb ++ KFix TRCurly :: rest) ->
  exists a st1, strip_body c a = Some (ditems b) /\ AtW c st1 rest /\
    forall n, 2 * length tb + 4 <= n -> rule_tail n (k, pat) st = POk (mkRuleR k pat a) st1.
Proof.
  intros c k pat b tb rest st HI HA.
  destruct (block_ok c b tb rest st HI HA) as [a [st1 [Hs [HA1 Hb]]]].
  exists a, st1. split; [exact Hs|]. split; [exact HA1|]. intros n Hn.
  unfold rule_tail. unfold pbind at 1. unfold pcurtag. rewrite (atW_tag _ _ _ HA).
  cbn [hd_tag stag tag_eqb tag_index Nat.eqb]. unfold pbind. rewrite Hb by exact Hn. reflexivity.
Qed.

Lemma rule_ok : forall (c : pctx) r tr rest st, PrR c r tr rest -> AtW c st (tr ++ rest) ->
  exists a st1, strip_rule c a = Some (drule r) /\ AtW c st1 rest /\
    forall n, 2 * length tr + 3 <= n -> parse_rule_ n st = POk a st1.
Proof.
  intros c r tr rest st H HA. destruct H as [k b tb rest HI|p b tp tb rest HE HI].
  - (* BEGIN / END / BEGINFILE / ENDFILE / nothing *)
    rewrite <- app_assoc in HA. cbn [app] in HA. rewrite <- app_assoc in HA. cbn [app] in HA.
    assert (Hhead : exists st1, AtW c st1 (KFix TLCurly :: tb ++ KFix TRCurly :: rest) /\
              forall n, rule_head n st = POk (k, None) st1).
    { destruct k; cbn [kind_toks app] in HA.
      - destruct (consume_atW _ _ _ _ [TBegin] HA) as [st1 [E1 [HA1 _]]]; [reflexivity|].
        exists st1. split; [exact (At_AtW _ _ _ HA1)|]. intro n. unfold rule_head, pbind at 1, pcurtag.
        rewrite (atW_tag _ _ _ HA). cbn [hd_tag stag]. cbv iota. mred. rewrite E1. reflexivity.
      - destruct (consume_atW _ _ _ _ [TEnd] HA) as [st1 [E1 [HA1 _]]]; [reflexivity|].
        exists st1. split; [exact (At_AtW _ _ _ HA1)|]. intro n. unfold rule_head, pbind at 1, pcurtag.
        rewrite (atW_tag _ _ _ HA). cbn [hd_tag stag]. cbv iota. mred. rewrite E1. reflexivity.
      - destruct (consume_atW _ _ _ _ [TBeginFile] HA) as [st1 [E1 [HA1 _]]]; [reflexivity|].
        exists st1. split; [exact (At_AtW _ _ _ HA1)|]. intro n. unfold rule_head, pbind at 1, pcurtag.
        rewrite (atW_tag _ _ _ HA). cbn [hd_tag stag]. cbv iota. mred. rewrite E1. reflexivity.
      - destruct (consume_atW _ _ _ _ [TEndFile] HA) as [st1 [E1 [HA1 _]]]; [reflexivity|].
        exists st1. split; [exact (At_AtW _ _ _ HA1)|]. intro n. unfold rule_head, pbind at 1, pcurtag.
        rewrite (atW_tag _ _ _ HA). cbn [hd_tag stag]. cbv iota. mred. rewrite E1. reflexivity.
      - exists st. split; [exact HA|]. intro n. unfold rule_head, pbind at 1, pcurtag.
        rewrite (atW_tag _ _ _ HA). cbn [hd_tag stag]. cbv iota. reflexivity. }
    destruct Hhead as [st1 [HA1 Hh]].
    destruct (rule_tail_block c k None b tb rest st1 HI HA1) as [a [st2 [Hs [HA2 Ht]]]].
    exists (mkRuleR k None a), st2.
    split; [unfold strip_rule; cbn [rbody rpattern rkind]; rewrite Hs; reflexivity|].
    split; [exact HA2|]. intros n Hn. rewrite !app_length in Hn. cbn [length] in Hn.
    rewrite app_length in Hn. cbn [length] in Hn.
    rewrite parse_rule_eq. unfold pbind. rewrite Hh. apply Ht. lia.
  - (* pattern { ... } *)
    rewrite <- app_assoc in HA. cbn [app] in HA. rewrite <- app_assoc in HA. cbn [app] in HA.
    assert (HE' := HE). destruct HE' as [Hwf [force ->]].
    destruct (M_W force c p 1 (KFix TLCurly :: tb ++ KFix TRCurly :: rest) st Hwf (le_n 1))
      as [e' [st1 [Hse [HA1 Hpar]]]]; [cbn; lia|exact HA|].
    destruct (rule_tail_block c PatternRule (Some e') b tb rest st1 HI (At_AtW _ _ _ HA1))
      as [a [st2 [Hs [HA2 Ht]]]].
    exists (mkRuleR PatternRule (Some e') a), st2.
    split; [unfold strip_rule, drule; cbn [rbody rpattern rkind zkind zpat zbody option_map];
            rewrite Hs, Hse; reflexivity|].
    split; [exact HA2|]. intros n Hn. rewrite !app_length in Hn. cbn [length] in Hn.
    rewrite app_length in Hn. cbn [length] in Hn.
    rewrite parse_rule_eq. unfold pbind at 1.
    assert (Hh : rule_head n st = POk (PatternRule, Some e') st1).
    { unfold rule_head, pbind at 1, pcurtag. rewrite (atW_tag _ _ _ HA).
      destruct (print_hd force p Hwf 1) as [k0 [tl [Ek Sk]]]. rewrite Ek. cbn [app hd_tag].
      unfold parse_expression. change (prec_index PrecAssign) with 1.
      destruct (stag k0); try discriminate Sk; unfold pbind; rewrite Hpar by lia; reflexivity. }
    rewrite Hh. apply Ht. lia.
Qed.

(* ---- function declarations *)
Definition with_fn (b : bool) (st : pstate) : pstate :=
  mkP (psrc st) (plex st) (pcur st) (pprev st) (pend st) b (pinloop st).

Lemma AtW_set_fn : forall (c : pctx) st ts b, AtW c st ts -> AtW (set_fn c b) (with_fn b st) ts.
Proof.
  intros c st ts b (HG & HT & Hs & Hl & Hf & Hrest).
  split; [exact HG|]. split; [exact HT|]. split; [exact Hs|]. split; [exact Hl|]. split; [reflexivity|].
  exact Hrest.
Qed.

Lemma set_fn_back : forall (c : pctx) b, set_fn (set_fn c b) (c_fn c) = c.
Proof. intros [i t l f] b. reflexivity. Qed.

Lemma at_src : forall (c : pctx) st ts, At c st ts -> psrc st = csrc c.
Proof. intros c st ts (_ & _ & H & _). exact H. Qed.

Lemma parse_params_S : forall f acc st,
  parse_params (S f) acc st =
  (do t <- pcurtag;
   if (tag_eqb t TEOF || tag_eqb t TRParen)%bool then pret (rev acc)
   else
     consume [TIdent] ;;
     do s <- prev_string;
     do t2 <- pcurtag;
     (if tag_eqb t2 TComma then consume_ignored TComma else pret tt) ;;
     parse_params f (s :: acc)) st.
Proof. reflexivity. Qed.

Lemma params_ok : forall (c : pctx) ps rest, forallb wf_ident ps = true ->
  forall acc st, At c st (params_toks ps ++ KFix TRParen :: rest) ->
  exists st1, At c st1 (KFix TRParen :: rest) /\
    forall n, length (params_toks ps) + 1 <= n -> parse_params n acc st = POk (rev acc ++ ps) st1.
Proof.
  intros c ps rest. induction ps as [|p r IH]; intros Hwf acc st HA.
  - cbn [params_toks app] in HA. exists st. split; [exact HA|]. intros n Hn.
    destruct n as [|f]; [lia|]. rewrite parse_params_S. unfold pbind at 1. unfold pcurtag.
    rewrite (at_tag _ _ _ HA). cbn [hd_tag stag tag_eqb tag_index Nat.eqb orb]. rewrite app_nil_r. reflexivity.
  - cbn [forallb] in Hwf. apply andb_true_iff in Hwf. destruct Hwf as [Hp Hr].
    cbn [params_toks] in HA. cbn [app] in HA.
    destruct (at_cur _ _ _ _ HA) as [Hpt Hpg].
    destruct (consume_at _ _ _ _ [TIdent] HA) as [st1 [E1 [HA1 Hp1]]]; [reflexivity|].
    assert (Eprev : prev_string st1 = POk p st1).
    { unfold prev_string. rewrite (at_src _ _ _ HA1), Hp1, Hpg. reflexivity. }
    destruct r as [|q r'].
    + cbn [app] in HA1. destruct (IH Hr (p :: acc) st1 HA1) as [st2 [HA2 Hl]].
      exists st2. split; [exact HA2|]. intros n Hn. cbn [params_toks length] in Hn.
      destruct n as [|f]; [lia|]. rewrite parse_params_S. unfold pbind at 1. unfold pcurtag.
      rewrite (at_tag _ _ _ HA). cbn [hd_tag stag tag_eqb tag_index Nat.eqb orb].
      unfold pbind at 1. rewrite E1. unfold pbind at 1. rewrite Eprev. unfold pbind at 1.
      rewrite (at_tag _ _ _ HA1). cbn [hd_tag stag tag_eqb tag_index Nat.eqb].
      unfold pbind at 1. unfold pret at 1. rewrite Hl by (cbn [params_toks length]; lia).
      cbn [rev]. rewrite <- app_assoc. reflexivity.
    + cbn [app] in HA1.
      destruct (consume_ignored_atW c st1 TComma _ (At_AtW _ _ _ HA1)) as [st2 [E2 [HA2 _]]].
      destruct (IH Hr (p :: acc) st2 HA2) as [st3 [HA3 Hl]].
      exists st3. split; [exact HA3|]. intros n Hn.
      change (params_toks (p :: q :: r')) with (KIdent p :: KFix TComma :: params_toks (q :: r')) in Hn.
      cbn [length] in Hn.
      destruct n as [|f]; [lia|]. rewrite parse_params_S. unfold pbind at 1. unfold pcurtag.
      rewrite (at_tag _ _ _ HA). cbn [hd_tag stag tag_eqb tag_index Nat.eqb orb].
      unfold pbind at 1. rewrite E1. unfold pbind at 1. rewrite Eprev. unfold pbind at 1.
      rewrite (at_tag _ _ _ HA1). cbn [hd_tag stag tag_eqb tag_index Nat.eqb].
      unfold pbind at 1. rewrite E2. rewrite Hl by lia.
      cbn [rev]. rewrite <- app_assoc. reflexivity.
Qed.

Lemma func_ok : forall (c : pctx) f tf rest st, PrF c f tf rest -> AtW c st (tf ++ rest) ->
  exists a st1, strip_func c a = Some (dfunc f) /\ AtW c st1 rest /\
    forall n, 2 * length tf + 3 <= n -> parse_function n st = POk a st1.
Proof.
  intros c f tf rest st H HA. destruct H as [name ps b tb rest Hname Hps HI].
  cbn [app] in HA. repeat (rewrite <- app_assoc in HA; cbn [app] in HA).
  pose proof (AtW_set_fn c st _ true HA) as HA0.
  destruct (consume_atW _ _ _ _ [TFunction] HA0) as [st1 [E1 [HA1 _]]]; [reflexivity|].
  destruct (at_cur _ _ _ _ HA1) as [Hnt Hng]. cbn [stag] in Hnt.
  destruct (consume_at _ _ _ _ [TIdent] HA1) as [st2 [E2 [HA2 Hp2]]]; [reflexivity|].
  destruct (consume_at _ _ _ _ [TLParen] HA2) as [st3 [E3 [HA3 _]]]; [reflexivity|].
  destruct (params_ok (set_fn c true) ps _ Hps [] st3 HA3) as [st4 [HA4 Hpp]].
  destruct (consume_at _ _ _ _ [TRParen] HA4) as [st5 [E5 [HA5 _]]]; [reflexivity|].
  destruct (block_ok (set_fn c true) b tb rest st5 HI (At_AtW _ _ _ HA5)) as [a [st6 [Hs [HA6 Hb]]]].
  exists (mkFunc (pcur st1) ps a), (with_fn (pinfn st) st6). split.
  { unfold strip_func, omap2. cbn [fident fparams fbody]. unfold name_of.
    change (csrc (set_fn c true)) with (csrc c) in *. rewrite Hnt, Hng, Hs. reflexivity. }
  split.
  { pose proof (AtW_set_fn _ st6 rest (c_fn c) HA6) as Q. rewrite set_fn_back in Q.
    rewrite (proj2 (atW_flags _ _ _ HA)). exact Q. }
  intros n Hn. cbn [length] in Hn. repeat (rewrite app_length in Hn; cbn [length] in Hn).
  unfold parse_function. unfold pbind at 1. unfold pget. unfold pbind at 1. unfold set_infn at 1.
  change (mkP (psrc st) (plex st) (pcur st) (pprev st) (pend st) true (pinloop st)) with (with_fn true st).
  unfold pbind at 1. rewrite E1. unfold pbind at 1. rewrite E2. unfold pbind at 1. unfold pprevtok.
  unfold pbind at 1. rewrite E3. unfold pbind at 1. rewrite Hpp by lia. cbn [rev app].
  unfold pbind at 1. rewrite E5. unfold pbind at 1. rewrite Hb by lia. rewrite Hp2. reflexivity.
Qed.

Definition decl_start (t : tag) : bool :=
  match t with TFunction => true | _ => rule_start t end.

(* the top-level loop over rules and functions *)
Lemma toplevel_ok : forall (c : pctx) q tq, PrP c q tq ->
  forall rules fns st, AtW c st tq ->
  exists rs fs st1, strip_all (strip_rule c) rs = Some (map drule (decl_rules q)) /\
    strip_all (strip_func c) fs = Some (map dfunc (decl_funcs q)) /\
    forall n, 2 * length tq + 4 <= n ->
      parse_toplevel n rules fns st = POk (mkProg (rev rules ++ rs) (rev fns ++ fs)) st1.
Proof.
  intros c q tq H. induction H as [|r q tr tq HR HP IH|f q tf tq HF HP IH]; intros rules fns st HA.
  - exists [], [], st. split; [reflexivity|]. split; [reflexivity|]. intros n Hn. destruct n as [|g]; [lia|].
    cbn [parse_toplevel]. unfold pbind at 1. unfold pcurtag. rewrite (atW_tag _ _ _ HA).
    cbn [hd_tag tag_eqb tag_index Nat.eqb]. rewrite !app_nil_r. reflexivity.
  - destruct (rule_ok c r tr tq st HR HA) as [a [st1 [Hs [HA1 Hr]]]].
    destruct (IH (a :: rules) fns st1 HA1) as [rs [fs [st2 [Hss [Hfs Ht]]]]].
    exists (a :: rs), fs, st2. split; [cbn [strip_all map decl_rules]; rewrite Hs, Hss; reflexivity|].
    split; [exact Hfs|].
    intros n Hn. rewrite app_length in Hn. destruct n as [|g]; [lia|].
    destruct (PrR_hd _ _ _ _ HR) as [k [tl [Ek Sk]]].
    cbn [parse_toplevel]. unfold pbind at 1. unfold pcurtag. rewrite (atW_tag _ _ _ HA), Ek. cbn [app hd_tag].
    assert (T1 : tag_eqb (stag k) TEOF = false) by (destruct (stag k); try discriminate Sk; reflexivity).
    assert (T2 : tag_eqb (stag k) TFunction = false) by (destruct (stag k); try discriminate Sk; reflexivity).
    rewrite T1, T2. unfold pbind at 1. rewrite Hr by (subst tr; cbn [length] in *; lia).
    rewrite Ht by (subst tr; cbn [length] in *; lia). cbn [rev]. rewrite <- app_assoc. reflexivity.
  - destruct (func_ok c f tf tq st HF HA) as [a [st1 [Hs [HA1 Hr]]]].
    destruct (IH rules (a :: fns) st1 HA1) as [rs [fs [st2 [Hss [Hfs Ht]]]]].
    exists rs, (a :: fs), st2. split; [exact Hss|].
    split; [cbn [strip_all map decl_funcs]; rewrite Hs, Hfs; reflexivity|].
    intros n Hn. rewrite app_length in Hn. destruct n as [|g]; [lia|].
    destruct HF as [name ps b tb rest' Hname Hps HI].
    cbn [parse_toplevel]. unfold pbind at 1. unfold pcurtag. rewrite (atW_tag _ _ _ HA). cbn [app hd_tag stag].
    cbn [tag_eqb tag_index Nat.eqb]. unfold pbind at 1. rewrite Hr by (cbn [length] in *; lia).
    rewrite Ht by (cbn [length] in *; lia). cbn [rev]. rewrite <- app_assoc. reflexivity.
Qed.

(* ================================================================= whole programs *)

Lemma PrP_nonempty : forall c q ts, PrP c q ts -> q <> [] -> ts <> [].
Proof.
  intros c q ts H Hq. destruct H as [|r q tr tq HR HP|f q tf tq HF HP]; [congruence| |].
  - destruct (PrR_hd _ _ _ _ HR) as [k [tl [-> _]]]. discriminate.
  - destruct HF. discriminate.
Qed.

Theorem program_parses : forall (c : pctx) q ts,
  layout_of c ts -> PrP c q ts -> q <> [] ->
  exists prog st', parse_program c = POk prog st' /\
    strip_prog c prog = Some (map drule (decl_rules q), map dfunc (decl_funcs q)).
Proof.
  intros c q ts (Hmap & HG & HT & Hloop & Hfn) HP Hq.
  assert (Hne : c_items c <> []).
  { intro E. rewrite E in Hmap. cbn in Hmap. subst ts. exact (PrP_nonempty _ _ _ HP Hq eq_refl). }
  destruct (advance_first c Hne HG HT Hloop Hfn) as [tok [st1 [Eadv HA1]]].
  rewrite Hmap in HA1.
  destruct (toplevel_ok c q ts HP [] [] st1 (At_AtW _ _ _ HA1)) as [rs [fs [st2 [Hs [Hf Ht]]]]].
  exists (mkProg rs fs), st2. split.
  - unfold parse_program, parse_program_fuel. unfold pbind. rewrite Eadv.
    rewrite Ht; [reflexivity|].
    unfold parse_fuel. pose proof (lay_len (c_trail c) (c_items c) true HG) as L.
    unfold csrc. rewrite <- Hmap, map_length. lia.
  - unfold strip_prog. cbn [prules pfuncs]. rewrite Hs, Hf. reflexivity.
Qed.
