(* From "same position-free program" to [program_equiv] (Spec/AstEquiv.v), and from there
   (Proofs/PosIndep.v) to "runs alike": the semantic half of C13 at program level. *)
From Coq Require Import List ZArith Lia.
From JQ Require Import Base.Bytes Num.F64 Syntax.Token Syntax.Lexer Syntax.Ast Syntax.Parser.
From JQ Require Import Json.JValue.
From JQ Require Import Gen.Generated Sem.Value Sem.Ops Sem.Natives Sem.Eval Sem.Driver.
From JQ Require Import Spec.AstEquiv Proofs.EvalInv Proofs.PosIndep Proofs.PosIndepBridge.
From JQ Require Import Spec.PrecGrammar Spec.StmtGrammar Proofs.SyntaxLex Proofs.Syntax Spec.StmtLayout.
From JQ Require Import Proofs.SyntaxStmt.
Import ListNotations.
Open Scope nat_scope.

Lemma strip_stmt_block_eq : forall src t body,
  strip_stmt src (SBlock t body) =
  if tag_eqb (ttag t) TLCurly then option_map ZBlock (strip_items src body) else None.
Proof.
  intros src t body. cbn [strip_stmt]. destruct (tag_eqb (ttag t) TLCurly); [|reflexivity]. f_equal.
  induction body as [|x r IH]; [reflexivity|]. cbn [strip_items]. rewrite <- IH. reflexivity.
Qed.

Section Equiv.
  Variables src1 src2 : bytes.

  Lemma strip_exprs_equiv : forall l1 l2 sl,
    strip_exprs src1 l1 = Some sl -> strip_exprs src2 l2 = Some sl ->
    Forall2 (expr_equiv src1 src2) l1 l2.
  Proof.
    induction l1 as [|a r IH]; intros l2 sl H1 H2.
    - cbn in H1. inversion H1; subst. destruct l2 as [|b r2]; [constructor|].
      cbn in H2. destruct (strip src2 b), (strip_exprs src2 r2); discriminate H2.
    - cbn in H1. destruct (strip src1 a) as [sa|] eqn:Ea; [|discriminate H1].
      destruct (strip_exprs src1 r) as [sr|] eqn:Er; [|discriminate H1]. cbn in H1. inversion H1; subst.
      destruct l2 as [|b r2]; [discriminate H2|]. cbn in H2.
      destruct (strip src2 b) as [sb|] eqn:Eb; [|discriminate H2].
      destruct (strip_exprs src2 r2) as [sr2|] eqn:Er2; [|discriminate H2]. cbn in H2. inversion H2; subst.
      constructor; [eapply strip_equiv; eassumption|eapply IH; eauto].
  Qed.

  Lemma name_of_equiv : forall t1 t2 b,
    name_of src1 t1 = Some b -> name_of src2 t2 = Some b -> name_equiv src1 src2 t1 t2.
  Proof.
    intros t1 t2 b H1 H2. unfold name_of in *.
    destruct (ttag t1) eqn:E1; try discriminate H1. destruct (ttag t2) eqn:E2; try discriminate H2.
    split; [unfold tag_eq; congruence|unfold txt_eq; congruence].
  Qed.

  Lemma tag_eqb_both : forall t1 t2 tg, tag_eqb (ttag t1) tg = true -> tag_eqb (ttag t2) tg = true ->
    tag_eq t1 t2.
  Proof. intros t1 t2 tg H1 H2. apply tag_eqb_eq in H1, H2. unfold tag_eq. congruence. Qed.

  Ltac brk H :=
    repeat match type of H with
    | context [match ?x with _ => _ end] => destruct x eqn:?; try discriminate H
    end.

  Definition Qs (a1 : stmt) : Prop := forall a2 s,
    strip_stmt src1 a1 = Some s -> strip_stmt src2 a2 = Some s -> stmt_equiv src1 src2 a1 a2.

  Lemma strip_items_equiv : forall l1, Forall Qs l1 -> forall l2 b,
    strip_items src1 l1 = Some b -> strip_items src2 l2 = Some b -> Forall2 (stmt_equiv src1 src2) l1 l2.
  Proof.
    intros l1 HF. induction HF as [|x r Hx Hr IH]; intros l2 b H1 H2.
    - cbn in H1. inversion H1; subst. destruct l2 as [|y r2]; [constructor|].
      cbn in H2. destruct (strip_stmt src2 y), (strip_items src2 r2); discriminate H2.
    - cbn [strip_items] in H1. destruct (strip_stmt src1 x) as [sx|] eqn:Ex; [|discriminate H1].
      destruct (strip_items src1 r) as [sr|] eqn:Er; [|discriminate H1]. cbn in H1. inversion H1; subst.
      destruct l2 as [|y r2]; [discriminate H2|]. cbn [strip_items] in H2.
      destruct (strip_stmt src2 y) as [sy|] eqn:Ey; [|discriminate H2].
      destruct (strip_items src2 r2) as [sr2|] eqn:Er2; [|discriminate H2]. cbn in H2. inversion H2; subst.
      constructor; [eapply Hx; eassumption|eapply IH; eauto].
  Qed.

  Lemma strip_stmt_equiv_all : forall a1, Qs a1.
  Proof.
    enough (H : (forall e : expr, (fun _ => True) e) /\ (forall s, Qs s)) by exact (proj2 H).
    apply expr_stmt_ind; try (intros; exact I).
    - (* SBlock *)
      intros t body HF a2 s H1 H2. rewrite strip_stmt_block_eq in H1.
      destruct (tag_eqb (ttag t) TLCurly) eqn:Et; [|discriminate H1].
      destruct (strip_items src1 body) as [b|] eqn:Eb; [|discriminate H1]. cbn in H1. inversion H1; subst s.
      destruct a2; try rewrite strip_stmt_block_eq in H2; cbn [strip_stmt] in H2;
        unfold option_map, omap2 in H2; brk H2; try discriminate H2.
      inversion H2; subst.
      constructor; [eapply tag_eqb_both; eassumption|eapply strip_items_equiv; eassumption].
    - (* SPrint *)
      intros t args _ a2 s H1 H2. cbn [strip_stmt] in H1.
      destruct (tag_eqb (ttag t) TPrint) eqn:Et; [|discriminate H1].
      destruct (strip_exprs src1 args) as [l|] eqn:El; [|discriminate H1]. cbn in H1. inversion H1; subst s.
      destruct a2; try rewrite strip_stmt_block_eq in H2; cbn [strip_stmt] in H2;
        unfold option_map, omap2 in H2; brk H2; try discriminate H2.
      inversion H2; subst.
      constructor; [eapply tag_eqb_both; eassumption|eapply strip_exprs_equiv; eassumption].
    - (* SExpr *)
      intros e _ a2 s H1 H2. cbn [strip_stmt] in H1.
      destruct (strip src1 e) as [se|] eqn:Ee; [|discriminate H1]. cbn in H1. inversion H1; subst s.
      destruct a2; try rewrite strip_stmt_block_eq in H2; cbn [strip_stmt] in H2;
        unfold option_map, omap2 in H2; brk H2; try discriminate H2.
      inversion H2; subst. constructor. eapply strip_equiv; eassumption.
    - (* SReturn Some *)
      intros e _ a2 s H1 H2. cbn [strip_stmt] in H1.
      destruct (strip src1 e) as [se|] eqn:Ee; [|discriminate H1]. cbn in H1. inversion H1; subst s.
      destruct a2; try rewrite strip_stmt_block_eq in H2; cbn [strip_stmt] in H2;
        unfold option_map, omap2 in H2; brk H2; try discriminate H2.
      inversion H2; subst. constructor. eapply strip_equiv; eassumption.
    - (* SReturn None *)
      intros a2 s H1 H2. cbn [strip_stmt] in H1. inversion H1; subst s.
      destruct a2; try rewrite strip_stmt_block_eq in H2; cbn [strip_stmt] in H2;
        unfold option_map, omap2 in H2; brk H2; try discriminate H2.
      constructor.
    - (* SBreak *)
      intros t a2 s H1 H2. cbn [strip_stmt] in H1.
      destruct (tag_eqb (ttag t) TBreak) eqn:Et; [|discriminate H1]. inversion H1; subst s.
      destruct a2; try rewrite strip_stmt_block_eq in H2; cbn [strip_stmt] in H2;
        unfold option_map, omap2 in H2; brk H2; try discriminate H2.
      constructor. eapply tag_eqb_both; eassumption.
    - intros t a2 s H1 H2. cbn [strip_stmt] in H1.
      destruct (tag_eqb (ttag t) TContinue) eqn:Et; [|discriminate H1]. inversion H1; subst s.
      destruct a2; try rewrite strip_stmt_block_eq in H2; cbn [strip_stmt] in H2;
        unfold option_map, omap2 in H2; brk H2; try discriminate H2.
      constructor. eapply tag_eqb_both; eassumption.
    - intros t a2 s H1 H2. cbn [strip_stmt] in H1.
      destruct (tag_eqb (ttag t) TNext) eqn:Et; [|discriminate H1]. inversion H1; subst s.
      destruct a2; try rewrite strip_stmt_block_eq in H2; cbn [strip_stmt] in H2;
        unfold option_map, omap2 in H2; brk H2; try discriminate H2.
      constructor. eapply tag_eqb_both; eassumption.
    - intros t a2 s H1 H2. cbn [strip_stmt] in H1.
      destruct (tag_eqb (ttag t) TExit) eqn:Et; [|discriminate H1]. inversion H1; subst s.
      destruct a2; try rewrite strip_stmt_block_eq in H2; cbn [strip_stmt] in H2;
        unfold option_map, omap2 in H2; brk H2; try discriminate H2.
      constructor. eapply tag_eqb_both; eassumption.
    - (* SIf Some *)
      intros c b e _ Hb He a2 s H1 H2. cbn [strip_stmt] in H1.
      destruct (strip src1 c) as [sc|] eqn:Ec; [|discriminate H1].
      destruct (strip_stmt src1 b) as [sb|] eqn:Eb; [|discriminate H1].
      destruct (strip_stmt src1 e) as [se|] eqn:Ee; [|discriminate H1]. inversion H1; subst s.
      destruct a2; try rewrite strip_stmt_block_eq in H2; cbn [strip_stmt] in H2;
        unfold option_map, omap2 in H2; brk H2; try discriminate H2.
      inversion H2; subst.
      constructor; [eapply strip_equiv; eassumption|eapply Hb; eassumption|eapply He; eassumption].
    - (* SIf None *)
      intros c b _ Hb a2 s H1 H2. cbn [strip_stmt omap2] in H1.
      destruct (strip src1 c) as [sc|] eqn:Ec; [|discriminate H1].
      destruct (strip_stmt src1 b) as [sb|] eqn:Eb; [|discriminate H1]. inversion H1; subst s.
      destruct a2; try rewrite strip_stmt_block_eq in H2; cbn [strip_stmt] in H2;
        unfold option_map, omap2 in H2; brk H2; try discriminate H2.
      inversion H2; subst.
      constructor; [eapply strip_equiv; eassumption|eapply Hb; eassumption].
    - (* SWhile *)
      intros c b _ Hb a2 s H1 H2. cbn [strip_stmt omap2] in H1.
      destruct (strip src1 c) as [sc|] eqn:Ec; [|discriminate H1].
      destruct (strip_stmt src1 b) as [sb|] eqn:Eb; [|discriminate H1]. inversion H1; subst s.
      destruct a2; try rewrite strip_stmt_block_eq in H2; cbn [strip_stmt] in H2;
        unfold option_map, omap2 in H2; brk H2; try discriminate H2.
      inversion H2; subst.
      constructor; [eapply strip_equiv; eassumption|eapply Hb; eassumption].
    - (* SFor *)
      intros a c p b _ _ _ Hb a2 s H1 H2. cbn [strip_stmt] in H1.
      destruct (strip src1 a) as [sa|] eqn:Ea; [|discriminate H1].
      destruct (strip src1 c) as [sc|] eqn:Ec; [|discriminate H1].
      destruct (strip src1 p) as [sp|] eqn:Ep; [|discriminate H1].
      destruct (strip_stmt src1 b) as [sb|] eqn:Eb; [|discriminate H1]. inversion H1; subst s.
      destruct a2; try rewrite strip_stmt_block_eq in H2; cbn [strip_stmt] in H2;
        unfold option_map, omap2 in H2; brk H2; try discriminate H2.
      inversion H2; subst.
      constructor; try (eapply strip_equiv; eassumption). eapply Hb; eassumption.
    - (* SForIn *)
      intros id ix it b _ Hb a2 s H1 H2. cbn [strip_stmt] in H1.
      destruct (name_of src1 id) as [nid|] eqn:Eid; [|discriminate H1].
      destruct (strip src1 it) as [sit|] eqn:Eit; [|discriminate H1].
      destruct (strip_stmt src1 b) as [sb|] eqn:Eb; [|discriminate H1].
      destruct ix as [x|].
      + destruct (name_of src1 x) as [nx|] eqn:Ex; [|discriminate H1]. cbn in H1. inversion H1; subst s.
        destruct a2; try rewrite strip_stmt_block_eq in H2; cbn [strip_stmt] in H2;
          unfold option_map, omap2 in H2; brk H2; try discriminate H2.
        cbn in H2. inversion H2; subst.
        constructor; [eapply name_of_equiv; eassumption|constructor; eapply name_of_equiv; eassumption
                     |eapply strip_equiv; eassumption|eapply Hb; eassumption].
      + inversion H1; subst s.
        destruct a2; try rewrite strip_stmt_block_eq in H2; cbn [strip_stmt] in H2;
          unfold option_map, omap2 in H2; brk H2; try discriminate H2.
        cbn in H2. inversion H2; subst.
        constructor; [eapply name_of_equiv; eassumption|constructor
                     |eapply strip_equiv; eassumption|eapply Hb; eassumption].
  Qed.
End Equiv.

Lemma strip_stmt_equiv : forall src1 src2 a1 a2 s,
  strip_stmt src1 a1 = Some s -> strip_stmt src2 a2 = Some s -> stmt_equiv src1 src2 a1 a2.
Proof. intros src1 src2 a1 a2 s. apply strip_stmt_equiv_all. Qed.

Lemma strip_body_equiv : forall src1 src2 a1 a2 b,
  strip_body src1 a1 = Some b -> strip_body src2 a2 = Some b -> stmt_equiv src1 src2 a1 a2.
Proof.
  intros src1 src2 a1 a2 b H1 H2. unfold strip_body in *.
  destruct (strip_stmt src1 a1) as [[]|] eqn:E1; try discriminate H1.
  destruct (strip_stmt src2 a2) as [[]|] eqn:E2; try discriminate H2.
  inversion H1; inversion H2; subst. eapply strip_stmt_equiv; eassumption.
Qed.

Lemma strip_rule_equiv : forall src1 src2 r1 r2 x,
  strip_rule src1 r1 = Some x -> strip_rule src2 r2 = Some x -> rule_equiv src1 src2 r1 r2.
Proof.
  intros src1 src2 r1 r2 x H1 H2. unfold strip_rule in *.
  destruct (strip_body src1 (rbody r1)) as [b1|] eqn:B1; [|discriminate H1].
  destruct (strip_body src2 (rbody r2)) as [b2|] eqn:B2; [|discriminate H2].
  destruct (rpattern r1) as [e1|] eqn:P1, (rpattern r2) as [e2|] eqn:P2.
  - destruct (strip src1 e1) as [s1|] eqn:S1; [|discriminate H1].
    destruct (strip src2 e2) as [s2|] eqn:S2; [|discriminate H2].
    cbn in H1, H2. inversion H1; subst x. inversion H2; subst.
    split; [congruence|]. split; [rewrite P1, P2; constructor; eapply strip_equiv; eassumption|].
    eapply strip_body_equiv; eassumption.
  - destruct (strip src1 e1); [|discriminate H1]. cbn in H1. inversion H1; subst x. inversion H2.
  - destruct (strip src2 e2); [|discriminate H2]. cbn in H2. inversion H1; subst x. inversion H2.
  - inversion H1; subst x. inversion H2; subst.
    split; [congruence|]. split; [rewrite P1, P2; constructor|]. eapply strip_body_equiv; eassumption.
Qed.

Lemma strip_func_equiv : forall src1 src2 f1 f2 x,
  strip_func src1 f1 = Some x -> strip_func src2 f2 = Some x -> func_equiv src1 src2 f1 f2.
Proof.
  intros src1 src2 f1 f2 x H1 H2. unfold strip_func, omap2 in *.
  destruct (name_of src1 (fident f1)) as [n1|] eqn:N1; [|discriminate H1].
  destruct (strip_body src1 (fbody f1)) as [b1|] eqn:B1; [|discriminate H1].
  destruct (name_of src2 (fident f2)) as [n2|] eqn:N2; [|discriminate H2].
  destruct (strip_body src2 (fbody f2)) as [b2|] eqn:B2; [|discriminate H2].
  inversion H1; subst x. inversion H2; subst.
  split; [eapply name_of_equiv; eassumption|]. split; [congruence|]. eapply strip_body_equiv; eassumption.
Qed.

Lemma strip_all_Forall2 : forall (A B : Type) (f1 f2 : A -> option B) (R : A -> A -> Prop),
  (forall a1 a2 x, f1 a1 = Some x -> f2 a2 = Some x -> R a1 a2) ->
  forall l1 l2 xs, strip_all f1 l1 = Some xs -> strip_all f2 l2 = Some xs -> Forall2 R l1 l2.
Proof.
  intros A B f1 f2 R HR. induction l1 as [|a r IH]; intros l2 xs H1 H2.
  - cbn in H1. inversion H1; subst. destruct l2 as [|b r2]; [constructor|].
    cbn in H2. destruct (f2 b), (strip_all f2 r2); discriminate H2.
  - cbn in H1. destruct (f1 a) as [xa|] eqn:Ea; [|discriminate H1].
    destruct (strip_all f1 r) as [xr|] eqn:Er; [|discriminate H1]. cbn in H1. inversion H1; subst.
    destruct l2 as [|b r2]; [discriminate H2|]. cbn in H2.
    destruct (f2 b) as [xb|] eqn:Eb; [|discriminate H2].
    destruct (strip_all f2 r2) as [xr2|] eqn:Er2; [|discriminate H2]. cbn in H2. inversion H2; subst.
    constructor; [eapply HR; eassumption|eapply IH; eauto].
Qed.

(* two ASTs with the same position-free program are equivalent programs *)
Theorem strip_prog_equiv : forall src1 src2 p1 p2 x,
  strip_prog src1 p1 = Some x -> strip_prog src2 p2 = Some x -> program_equiv src1 src2 p1 p2.
Proof.
  intros src1 src2 p1 p2 x H1 H2. unfold strip_prog, omap2 in *.
  destruct (strip_all (strip_rule src1) (prules p1)) as [r1|] eqn:R1; [|discriminate H1].
  destruct (strip_all (strip_func src1) (pfuncs p1)) as [f1|] eqn:F1; [|discriminate H1].
  destruct (strip_all (strip_rule src2) (prules p2)) as [r2|] eqn:R2; [|discriminate H2].
  destruct (strip_all (strip_func src2) (pfuncs p2)) as [f2|] eqn:F2; [|discriminate H2].
  inversion H1; subst x. inversion H2; subst. split.
  - eapply strip_all_Forall2; [|exact R1|exact R2]. intros; eapply strip_rule_equiv; eassumption.
  - eapply strip_all_Forall2; [|exact F1|exact F2]. intros; eapply strip_func_equiv; eassumption.
Qed.

(* ================================================================= the layout theorems *)

(* two permitted writings of one program -- different gaps, different choices of ';' versus
   line end -- parse to equivalent ASTs *)
Theorem program_layout_insensitive : forall (c1 c2 : pctx) q ts1 ts2,
  layout_of c1 ts1 -> PrP c1 q ts1 -> layout_of c2 ts2 -> PrP c2 q ts2 -> q <> [] ->
  exists p1 st1 p2 st2,
    parse_program c1 = POk p1 st1 /\ parse_program c2 = POk p2 st2 /\
    program_equiv c1 c2 p1 p2.
Proof.
  intros c1 c2 q ts1 ts2 L1 P1 L2 P2 Hq.
  destruct (program_parses c1 q ts1 L1 P1 Hq) as [p1 [st1 [E1 S1]]].
  destruct (program_parses c2 q ts2 L2 P2 Hq) as [p2 [st2 [E2 S2]]].
  exists p1, st1, p2, st2. split; [exact E1|]. split; [exact E2|].
  eapply strip_prog_equiv; eassumption.
Qed.

(* ... and therefore run alike: from equivalent states, equivalent outcomes and states *)
Theorem program_layouts_run_alike : forall (c1 c2 : pctx) q ts1 ts2 fz sels n files,
  layout_of c1 ts1 -> PrP c1 q ts1 -> layout_of c2 ts2 -> PrP c2 q ts2 -> q <> [] ->
  exists p1 st1 p2 st2,
    parse_program c1 = POk p1 st1 /\ parse_program c2 = POk p2 st2 /\
    M_equiv (run_body c1 p1 fz sels n files) (run_body c2 p2 fz sels n files).
Proof.
  intros c1 c2 q ts1 ts2 fz sels n files L1 P1 L2 P2 Hq.
  destruct (program_layout_insensitive c1 c2 q ts1 ts2 L1 P1 L2 P2 Hq) as [p1 [st1 [p2 [st2 [E1 [E2 HE]]]]]].
  exists p1, st1, p2, st2. split; [exact E1|]. split; [exact E2|].
  apply run_pos_independent. exact HE.
Qed.

(* the observable part: same outcome class, same output, same final document, same heap *)
Theorem program_layouts_same_output : forall (c1 c2 : pctx) q ts1 ts2 fz sels n files s,
  layout_of c1 ts1 -> PrP c1 q ts1 -> layout_of c2 ts2 -> PrP c2 q ts2 -> q <> [] ->
  exists p1 st1 p2 st2,
    parse_program c1 = POk p1 st1 /\ parse_program c2 = POk p2 st2 /\
    let '(r1, s1) := run_body c1 p1 fz sels n files s in
    let '(r2, s2) := run_body c2 p2 fz sels n files s in
    outcome_equiv (classify r1) (classify r2) /\
    output_of (io s1) = output_of (io s2) /\ get_root_json s1 = get_root_json s2 /\ hp s1 = hp s2.
Proof.
  intros c1 c2 q ts1 ts2 fz sels n files s L1 P1 L2 P2 Hq.
  destruct (program_layout_insensitive c1 c2 q ts1 ts2 L1 P1 L2 P2 Hq) as [p1 [st1 [p2 [st2 [E1 [E2 HE]]]]]].
  exists p1, st1, p2, st2. split; [exact E1|]. split; [exact E2|].
  apply run_observables_equal. exact HE.
Qed.
