(* Props/C01_nopanic.v -- property C01, "never an internal panic or Go runtime crash":

     For every program text, every root-selector text and every input byte stream, a jqawk run
     either completes or stops with exactly one of its three reported error kinds.  It never
     ends in an internal panic or Go runtime crash.

   The model (Sem/*.v) makes every Go panic / nil-dereference site an explicit [Panic] outcome:
   Lexer.GetString on a token outside the source, an unhandled literal tag, callFunction on a
   function index outside Program.Functions, createSpeculativeObjects on a non-speculative cell,
   popFrame on <root>, a nil stackTop, print with e.ruleRoot == nil, the slice lookup of
   evalPatternRules, StatementReturn{nil}.Token() in straySignalError.  The theorems below say
   that none of them is reachable: from a parsed program, from a parsed root selector (which
   runs in a private evaluator with an EMPTY function table on the SHARED heap), and for the
   exported EvalExpression.

   Vocabulary: Spec/WfState.v ([state_ok] = the region invariant of an evaluator, [wf_program]
   = token spans + literal tags + rule bodies, [np], [documented_ending]).
   Proofs: Proofs/NoPanicHeap.v (heap operations), Proofs/NoPanic.v (primitives, natives, ONE
   induction on fuel over the 14 mutually recursive evaluator functions), Proofs/NoPanicRun.v
   (rule loops, selectors, driver, parser facts).

   FINDING made by this proof (fixed in /repo and mirrored in the model before the theorems were
   closed): `a.sort()` on an array holding a native function dereferenced nil in the comparator
   -- see [ex_former_sort_panic] below. *)
From Coq Require Import List ZArith.
From JQ Require Import Base.Bytes Num.F64 Syntax.Token Syntax.Ast Syntax.Parser Json.JValue Json.Decode.
From JQ Require Import Sem.Value Sem.Eval Sem.Driver.
From JQ Require Import Spec.EvalInvSpec Spec.TokSpans Spec.WfState.
From JQ Require Import Proofs.EvalInv Proofs.NoPanicRun.
Import ListNotations.
Open Scope nat_scope.

(* ------------------------------------------------------------------ the run *)

(* no run ends in a Go panic: whatever the program text, the files, the selectors, the fuel *)
Theorem run_never_panics : forall n src files sels fz,
  r_outcome (eval_program n src files sels fz) <> OPanic.
Proof. exact run_never_panics_proof. Qed.
Print Assumptions run_never_panics.

(* C01 as a whole (with Props/C01_parse_wf.run_never_raw_unconditional): a run completes, or
   stops with a syntax / runtime / JSON error; OFuel and OUnsupp are artefacts of the model *)
Theorem run_endings : forall n src files sels fz,
  documented_ending (r_outcome (eval_program n src files sels fz)).
Proof. exact run_endings_proof. Qed.
Print Assumptions run_endings.

(* the exported EvalExpression *)
Theorem expression_api_never_panics : forall n sel doc,
  x_outcome (eval_expression_api n sel doc) <> OPanic.
Proof. exact expression_api_never_panics_proof. Qed.
Print Assumptions expression_api_never_panics.

(* a root selector, called in any well-formed state of a run (or in the initial state) *)
Theorem selector_never_panics : forall n sel doc s r s',
  state_ok 1 0 s \/ s = init_state ->
  eval_selector n sel doc s = (r, s') -> r <> Panic.
Proof. exact selector_never_panics_proof. Qed.
Print Assumptions selector_never_panics.

(* what a selector does to the evaluator that calls it: the caller's invariant survives, its
   frames and roots are untouched, and the selected root is a cell of the caller's region *)
Theorem selector_keeps_caller : forall base fmax n sel doc s0 r s',
  heap_ok base fmax (hp s0) ->
  eval_selector n sel doc s0 = (r, s') ->
  r <> Panic /\ heap_ok base fmax (hp s') /\ hext base fmax (hp s0) (hp s') /\
  frames s' = frames s0 /\ rule_root s' = rule_root s0 /\ root s' = root s0 /\ retval s' = retval s0 /\
  (forall a, r = Ok a -> in_reg base (hp s') a).
Proof. exact selector_core. Qed.
Print Assumptions selector_keeps_caller.

(* GetRootJson has no crash outcome; without a root it prints null (nil dereference before 4266669) *)
Theorem root_json_no_root : forall s, root s = None -> get_root_json s = JsonText (bs "null").
Proof. exact root_json_no_root_proof. Qed.
Print Assumptions root_json_no_root.

(* ------------------------------------------------------------------ the two halves *)

(* the parser only produces well-formed ASTs: every token inside the text, every literal with a
   tag evalExpr handles, every rule body a block or the body-less print *)
Theorem parse_program_wf : forall src prog p, parse_program src = POk prog p -> wf_program src prog.
Proof. exact NoPanicRun.parse_program_wf. Qed.
Print Assumptions parse_program_wf.

Theorem parse_expression_wf : forall src e p, parse_expression_src src = POk e p -> wf_expr src e.
Proof. exact NoPanicRun.parse_expression_wf. Qed.
Print Assumptions parse_expression_wf.

(* on a well-formed AST, from a well-formed state, no statement and no expression panics, and
   the state stays well formed: for any region [base] and any table of well-formed functions *)
Theorem stmt_never_panics : forall base src funcs fz n st s r s',
  Forall (wf_func src) funcs -> wf_stmt src st ->
  state_ok base (length funcs) s -> has_rule_root s ->
  eval_stmt src funcs fz n st s = (r, s') ->
  r <> Panic /\ state_ok base (length funcs) s' /\ ext base (length funcs) s s'.
Proof. exact stmt_never_panics_proof. Qed.
Print Assumptions stmt_never_panics.

Theorem expr_never_panics : forall base src funcs fz n e s r s',
  Forall (wf_func src) funcs -> wf_expr src e ->
  state_ok base (length funcs) s -> has_rule_root s ->
  eval_expr src funcs fz n e s = (r, s') ->
  r <> Panic /\ state_ok base (length funcs) s' /\ ext base (length funcs) s s' /\
  (forall a, r = Ok a -> in_reg base (hp s') a).
Proof. exact expr_never_panics_proof. Qed.
Print Assumptions expr_never_panics.

(* the reads the model marks "unreachable" without a Panic outcome (the backing lookups of
   GetMember, pop, popfirst and for-in fall back to nil there, where Go would panic with an
   index out of range): in a well-formed heap every position of a slice window exists *)
Theorem window_in_backing : forall base fmax h b off len i,
  val_ok base fmax h (VArr b off len) -> i < len ->
  exists c, nth_error (get_back h b) (off + i) = Some c /\ in_reg base h c.
Proof. exact NoPanicRun.window_in_backing_proof. Qed.
Print Assumptions window_in_backing.

(* a whole run of a well-formed program (also one that did not come from the parser) *)
Theorem run_body_never_panics : forall src prog fz sels n files r s,
  wf_program src prog ->
  run_body src prog fz sels n files init_state = (r, s) -> r <> Panic.
Proof. exact NoPanicRun.run_body_never_panics. Qed.
Print Assumptions run_body_never_panics.

(* ------------------------------------------------------------------ non-vacuity *)

Definition is_runtime (o : outcome) : bool := match o with ORuntime _ => true | _ => false end.
Definition is_syntax (o : outcome) : bool := match o with OSyntax _ => true | _ => false end.

(* THE FINDING.  Before the fix this run ended in OPanic in the model and in
   "panic: runtime error: invalid memory address or nil pointer dereference" in the binary:
   pluck with its receiver swapped to a string stores a native function into an object, for-in
   stores that raw member into the index variable, and the case pattern [x, y] has bound that
   variable to the array's own element cell; sort then compared a zero Value.  Now: the array
   really holds the native function (second line of output), and sort is a runtime error. *)
Definition sort_witness : bytes := bs "BEGIN {
 a = [1, 2]; o = {}; p = o.pluck(o = """", ""length"")
 match (a) { [x, y] => { for (k, x in p) {} } }
 print a
 a.sort()
}".
Example ex_former_sort_panic :
  let r := eval_program 3000 sort_witness [] [] false in
  is_runtime (r_outcome r) = true /\
  output_of (io (r_state r)) = bs "[<nativefunction>, 2]" ++ [10%N].
Proof. vm_compute. split; reflexivity. Qed.

(* a program with a function, run through a root selector: the selector's private evaluator has
   no functions, the main evaluator calls f on the cells the selector produced *)
Example ex_selector_and_functions :
  let r := eval_program 3000
             (bs "function f(x) { return x + 1 } BEGIN { n = 0 } { n = n + f($) } END { print n }")
             [(bs "f", mkR [bs "{""a"":[1,2,3]}"] false)] [bs "$.a"] false in
  r_outcome r = OOk /\ output_of (io (r_state r)) = bs "9" ++ [10%N].
Proof. vm_compute. split; reflexivity. Qed.

(* the three error kinds and the normal end are all reachable endings *)
Example ex_endings :
  is_syntax (r_outcome (eval_program 100 (bs "BEGIN { print 1 + }") [] [] false)) = true /\
  is_runtime (r_outcome (eval_program 100 (bs "BEGIN { print 1 / 0 }") [] [] false)) = true /\
  r_outcome (eval_program 100 (bs "{ print }") [(bs "f", mkR [bs "[1,"] false)] [] false) = OJson /\
  r_outcome (eval_program 100 (bs "{ print }") [(bs "f", mkR [bs "[1]"] false)] [] false) = OOk.
Proof. vm_compute. repeat split. Qed.

(* EvalExpression: a value, and a syntax error *)
Example ex_expression_api :
  (let r := eval_expression_api 1000 (bs "$.a[1]") (JObj [(bs "a", JArr [JNum (f_of_Z 1); JNum (f_of_Z 7)])]) in
   x_outcome r = OOk /\ x_pretty r = Some (bs "7")) /\
  is_syntax (x_outcome (eval_expression_api 1000 (bs "$.a[") JNull)) = true.
Proof. vm_compute. repeat split. Qed.

(* the hypotheses of the evaluator-level theorems are satisfiable: the state in which a run
   starts is well formed for every function table, and a parsed program is well formed *)
Example ex_start_state : forall fmax, state_ok 1 fmax (mkSt empty_heap root_frames None None None []).
Proof. exact start_state_ok. Qed.

Example ex_wf_program :
  exists prog p,
    parse_program (bs "function f(a) { return a.sort() } $.k > 1 { print f($.v) } END { print ""done"" }")
      = POk prog p /\
    wf_program (bs "function f(a) { return a.sort() } $.k > 1 { print f($.v) } END { print ""done"" }") prog /\
    length (pfuncs prog) = 1 /\ length (prules prog) = 2.
Proof.
  destruct (parse_program (bs "function f(a) { return a.sort() } $.k > 1 { print f($.v) } END { print ""done"" }"))
    as [prog p| | |] eqn:E; try (vm_compute in E; discriminate E).
  exists prog, p. split; [reflexivity|]. split; [exact (parse_program_wf _ _ _ E)|].
  vm_compute in E. inversion E. split; reflexivity.
Qed.

(* the hypotheses are needed: an AST with a token outside the text (which the parser never
   builds) does panic in Lexer.GetString, and a body-less print panics when no rule root is set *)
Definition bad_prog : program :=
  mkProg [mkRuleR BeginRule None (SBlock zero_token [SExpr (EId (mkTok TIdent 5 3))])] [].
Example ex_wf_needed :
  classify (fst (run_body (bs "") bad_prog false [] 100 [] init_state)) = OPanic /\
  fst (eval_stmt (bs "") [] false 10 (SPrint zero_token [])
                 (mkSt empty_heap root_frames None None None [])) = Panic.
Proof. vm_compute. split; reflexivity. Qed.
