(* Props/C01_parse_wf.v -- property C01, parser side: the parser only accepts programs whose
   break / continue statements sit inside a loop body and whose return statements sit inside a
   function body ([wf_program], Spec/SignalWf.v).  With it the run-level statement of
   Props/C01_signals.v becomes unconditional: no run ever ends with a leaked control signal.
   Proofs: Proofs/ParseSignals.v (wp predicate indexed by p.inLoop / p.inFunction, induction on
   fuel over the 13 mutually recursive parser functions). *)
From Coq Require Import List Bool.
From JQ Require Import Base.Bytes Syntax.Token Syntax.Ast Syntax.Parser.
From JQ Require Import Spec.SignalWf Proofs.ParseSignals.
From JQ Require Sem.Driver.
Import ListNotations.

Theorem parse_wf_signals : forall src prog p,
  parse_program src = POk prog p -> wf_program prog = true.
Proof. exact parse_wf_signals_proof. Qed.
Print Assumptions parse_wf_signals.

(* ... for any amount of fuel *)
Theorem parse_wf_signals_fuel : forall n src prog p,
  parse_program_fuel n src = POk prog p -> wf_program prog = true.
Proof. exact parse_program_fuel_wf. Qed.
Print Assumptions parse_wf_signals_fuel.

(* non-vacuity: signals in legal positions are accepted (loop bodies, nested blocks, match
   cases inside a loop, return in a function, also inside a loop inside the function) ... *)
Example parse_wf_accepts :
  exists prog p,
    parse_program (bs "function f(a) { for (i = 0; i < a; i++) { if (i > 3) { return i } else continue } return } { while (1) { match ($.k) { 1 => { break } } } for (k, v in $) break }")
      = POk prog p /\ wf_program prog = true /\ length (pfuncs prog) = 1 /\ length (prules prog) = 1.
Proof. vm_compute. do 2 eexists. repeat split. Qed.

(* ... and in illegal positions they are syntax errors: break outside a loop, break in a loop
   CONDITION (only the body counts), return outside a function, break in a function called
   from a loop (the flag is lexical), continue after the loop *)
Example parse_wf_rejects :
  parse_program (bs "{ break }") = PErr 2 /\
  parse_program (bs "{ while (match (1) { 1 => { break } }) { } }") = PErr 28 /\
  parse_program (bs "{ return 1 }") = PErr 2 /\
  parse_program (bs "function f() { break } { while (1) f() }") = PErr 15 /\
  parse_program (bs "{ while (1) { } continue }") = PErr 16 /\
  (exists prog p, parse_program (bs "{ while (1) { break } }") = POk prog p).
Proof. vm_compute. repeat split. eauto. Qed.

(* the corollary: whatever the program text, the input files and the selectors, a run never
   ends with a raw control signal (parse failures are OSyntax / OFuel / OPanic outcomes; parsed
   programs are well formed, so Props/C01_signals.run_never_raw applies) *)
Theorem run_never_raw_unconditional : forall n src files sels fz,
  Driver.r_outcome (Driver.eval_program n src files sels fz) <> Driver.ORaw.
Proof. exact run_never_raw_unconditional_proof. Qed.
Print Assumptions run_never_raw_unconditional.
