(* C01 (part): "an internal control-flow signal (next, exit, break, continue, return) never
   surfaces to the caller as an error".

   Vocabulary: [sig_ok al m] (Proofs/EvalSignals.v) = whenever m ends in [Sig x], al x holds;
   [only_exit x] = x is SigExit; [not_loop_signal x] = x is neither break nor continue;
   [allowed inl inf x] (Spec/SignalWf.v) = break/continue need inl, return needs inf;
   [wf_expr / wf_stmt / wf_program] (Spec/SignalWf.v) = break and continue occur only under a
   loop BODY, return only in a function body -- what the parser enforces with p.inLoop and
   p.inFunction (assumed here as a hypothesis on the AST; the parser side is proved elsewhere). *)
From Coq Require Import List String Bool.
From JQ Require Import Base.Bytes Syntax.Token Syntax.Ast Syntax.Parser Json.Decode.
From JQ Require Import Sem.Value Sem.Eval Sem.Driver.
From JQ Require Import Spec.EvalInvSpec Spec.SignalWf Proofs.EvalInv Proofs.EvalSignals.
Import ListNotations.

(* ---------------- loops absorb break and continue *)

(* one execution of a loop body never hands break or continue on ... *)
Theorem loop_absorbs : forall src funcs fz n b s r s',
  eval_body src funcs fz n b s = (r, s') -> r <> Sig SigBreak /\ r <> Sig SigContinue.
Proof. exact eval_body_absorbs. Qed.
Print Assumptions loop_absorbs.

(* ... so the for-in loops, which evaluate nothing else, never return them ... *)
Theorem forin_absorbs : forall src funcs fz n,
  (forall lo ix bid off len i b,
      sig_ok not_loop_signal (eval_forin_arr src funcs fz n lo ix bid off len i b)) /\
  (forall lo ix oid keys b, sig_ok not_loop_signal (eval_forin_obj src funcs fz n lo ix oid keys b)) /\
  (forall lo ix rs b, sig_ok not_loop_signal (eval_forin_str src funcs fz n lo ix rs b)).
Proof.
  intros. split; [apply forin_arr_absorbs|split; [apply forin_obj_absorbs|apply forin_str_absorbs]].
Qed.
Print Assumptions forin_absorbs.

(* ... and a while / for loop can only return one that comes out of its condition or post
   expression (a match body there), never one of its body *)
Theorem while_absorbs : forall src funcs fz c,
  (forall n, sig_ok not_loop_signal (eval_expr src funcs fz n c)) ->
  forall n b k, sig_ok not_loop_signal (eval_while src funcs fz n c b k).
Proof. exact EvalSignals.while_absorbs. Qed.
Print Assumptions while_absorbs.

Theorem for_absorbs : forall src funcs fz c post,
  (forall n, sig_ok not_loop_signal (eval_expr src funcs fz n c)) ->
  (forall n, sig_ok not_loop_signal (eval_expr src funcs fz n post)) ->
  forall n b k, sig_ok not_loop_signal (eval_for src funcs fz n c post b k).
Proof. exact EvalSignals.for_absorbs. Qed.
Print Assumptions for_absorbs.

(* ---------------- calls absorb return *)

Theorem call_absorbs_return : forall src funcs fz n tok fc args,
  sig_ok (fun x => x <> SigReturn) (call_function src funcs fz n tok fc args).
Proof. exact EvalSignals.call_absorbs_return. Qed.
Print Assumptions call_absorbs_return.

(* ---------------- the driver: stray signals become runtime errors *)

Theorem stray_never_raw : forall A src tok (r : res A), sig_ok only_exit (@stray A src tok r).
Proof. exact @EvalSignals.stray_never_raw. Qed.
Print Assumptions stray_never_raw.

(* BEGIN / END / BEGINFILE / ENDFILE rules: Ok, Err, Sig SigExit, Panic, Fuel, Unsupp only *)
Theorem run_special_outcomes : forall src prog fz n rs mk,
  sig_ok only_exit mk -> sig_ok only_exit (run_special src prog fz n rs mk).
Proof. exact run_special_only_exit. Qed.
Print Assumptions run_special_outcomes.

Theorem eval_selector_outcomes : forall n sel doc, sig_ok only_exit (eval_selector n sel doc).
Proof. exact eval_selector_only_exit. Qed.
Print Assumptions eval_selector_outcomes.

Theorem classify_raw_iff : forall r : res unit,
  classify r = ORaw <-> exists x, r = Sig x /\ x <> SigExit.
Proof. exact EvalSignals.classify_raw_iff. Qed.
Print Assumptions classify_raw_iff.

(* ---------------- well-placed signals: every function of the evaluator *)

(* with well-formed function bodies, a construct in position (inl, inf) only ever hands on the
   signals its position allows; in particular a statement that is neither in a loop nor in a
   function never returns break, continue or return *)
Theorem signals_well_placed : forall src funcs fz,
  forallb wf_func funcs = true -> forall n, all_sig src funcs fz n.
Proof. exact all_sig_n. Qed.
Print Assumptions signals_well_placed.

Theorem stmt_outside_loop_and_function : forall src funcs fz n s st0 r st1,
  forallb wf_func funcs = true -> wf_stmt false false s = true ->
  eval_stmt src funcs fz n s st0 = (r, st1) ->
  r <> Sig SigBreak /\ r <> Sig SigContinue /\ r <> Sig SigReturn.
Proof.
  intros src funcs fz n s st0 r st1 WF Hs H.
  pose proof (sg_stmt _ _ _ _ (all_sig_n src funcs fz WF n) false false s Hs st0 r st1 H) as Ha.
  repeat split; intros E; specialize (Ha _ E); cbn in Ha; discriminate.
Qed.
Print Assumptions stmt_outside_loop_and_function.

(* the rules of an element absorb next: only exit is left *)
Theorem rules_only_exit : forall src funcs fz n rules,
  forallb wf_func funcs = true -> forallb wf_rule rules = true ->
  sig_ok only_exit (eval_rules src funcs fz n rules).
Proof. intros. apply sig_eval_rules; assumption. Qed.
Print Assumptions rules_only_exit.

(* ---------------- the whole run *)

Theorem run_never_raw : forall n src files sels fz prog p,
  parse_program src = POk prog p -> wf_program prog = true ->
  r_outcome (eval_program n src files sels fz) <> ORaw.
Proof. exact EvalSignals.run_never_raw. Qed.
Print Assumptions run_never_raw.

(* the remaining gap, stated honestly: a raw signal needs an AST that is not well-formed
   (the special rules and the selectors turn every stray signal into a runtime error) *)
Theorem raw_needs_ill_formed : forall n src files sels fz,
  r_outcome (eval_program n src files sels fz) = ORaw ->
  exists prog p, parse_program src = POk prog p /\ wf_program prog = false.
Proof. exact eval_program_raw_only_from_pattern_rules. Qed.
Print Assumptions raw_needs_ill_formed.

(* ------------------------------------------------------------------ non-vacuity *)

Definition prog_of (src : bytes) : program :=
  match parse_program src with POk p _ => p | _ => empty_program end.
Definition is_runtime (o : outcome) : bool := match o with ORuntime _ => true | _ => false end.

(* break and continue end / resume the loop and nothing else *)
Example ex_loop_absorbs :
  let r := eval_program 2000
    (bs "BEGIN { for (i in [1,2,3]) { if (i == 2) { continue } if (i == 3) { break } print i } print 9 }") [] [] false in
  r_outcome r = OOk /\ output_of (io (r_state r)) = [49%N; 10%N; 57%N; 10%N].
Proof. vm_compute. split; reflexivity. Qed.

(* return ends the call and nothing else *)
Example ex_call_absorbs :
  let r := eval_program 2000 (bs "function f() { return 5; print 7 } BEGIN { print f(); print 2 }") [] [] false in
  r_outcome r = OOk /\ output_of (io (r_state r)) = [53%N; 10%N; 50%N; 10%N].
Proof. vm_compute. split; reflexivity. Qed.

(* next in a BEGIN rule: a runtime error, not a raw signal; exit: a normal end *)
Example ex_stray :
  is_runtime (r_outcome (eval_program 2000 (bs "BEGIN { print 1; next; print 2 }") [] [] false)) = true /\
  r_outcome (eval_program 2000 (bs "BEGIN { print 1; exit; print 2 }") [] [] false) = OOk.
Proof. vm_compute. split; reflexivity. Qed.

(* next and exit in pattern rules; the program the parser produces is well-formed *)
Definition wsrc : bytes :=
  bs "function f(x) { while (1) { if (x > 1) { return 1 } break } return 0 } $ == 3 { exit } { if (f($)) { next } print $ }".
Example ex_wf_program :
  (exists p, parse_program wsrc = POk (prog_of wsrc) p) /\ wf_program (prog_of wsrc) = true /\
  let r := eval_program 2000 wsrc [(bs "f", mkR [bs "[1,2,1,3,1]"] false)] [] false in
  r_outcome r = OOk /\ output_of (io (r_state r)) = [49%N; 10%N; 49%N; 10%N].
Proof.
  split; [vm_compute; eexists; reflexivity|]. split; [vm_compute; reflexivity|].
  vm_compute. split; reflexivity.
Qed.

(* the well-formedness hypothesis is needed: an AST with a break directly in a pattern rule
   (which the parser rejects) makes the rule loop hand the raw signal to the driver *)
Definition bad_prog : program := mkProg [mkRuleR PatternRule None (SBreak zero_token)] [].
Example ex_raw_needs_wf :
  wf_program bad_prog = false /\
  classify (fst (run_body (bs "") bad_prog false [] 100 [(bs "f", mkR [bs "[1]"] false)] init_state)) = ORaw /\
  (exists pos, parse_program (bs "{ break }") = PErr pos).
Proof. vm_compute. split; [reflexivity|split; [reflexivity|eexists; reflexivity]]. Qed.
