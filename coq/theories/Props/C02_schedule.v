(* C02: the awk schedule.  Final statements only; proofs are in Proofs/Driver.v, the abstract
   scheduler [sched] (over arbitrary rule-body / pattern / selector executors) is in
   Spec/Schedule.v.  Every law below except [run_refines_schedule], the first clause of
   [elements_in_index_order] and [bodyless_rule_prints_root] is stated for ARBITRARY
   executors xb / xp / xs; [run_refines_schedule] transfers them to the model's [run_body]. *)
From Coq Require Import Permutation.
From JQ Require Import Base.Bytes Num.F64 Syntax.Token Syntax.Lexer Syntax.Ast Syntax.Parser.
From JQ Require Import Json.JValue Json.Decode.
From JQ Require Import Gen.Generated Sem.Value Sem.Natives Sem.Eval Sem.Driver.
From JQ Require Import Spec.Schedule Proofs.Driver.
Open Scope nat_scope.

(* ---- helpers for the examples ---- *)
Definition one_file (inp : string) : list (bytes * reader) := [(bs "f.json", mkR [bs inp] false)].
Definition run_out (p inp : string) : outcome * bytes :=
  let r := eval_program 3000 (bs p) (one_file inp) [] false in
  (r_outcome r, output_of (io (r_state r))).
Definition is_runtime (o : outcome) : bool := match o with ORuntime _ => true | _ => false end.
(* the i-th rule of a program text *)
Definition rule_of (p : string) (i : nat) : option rule :=
  match parse_program (bs p) with POk prog _ => nth_error (prules prog) i | _ => None end.
(* a state as the driver leaves it before a rule runs: <root> frame, `$` = cell 1 (null) *)
Definition st0 : st := mkSt empty_heap [mkFrame (bs "<root>") []] (Some 1%positive) None None [].
Definition xb_of (p : string) : rule -> M unit := fun r => eval_stmt (bs p) [] false 100 (rbody r).
Definition xp_of (p : string) : expr -> M addr := eval_expr (bs p) [] false 100.
Ltac conjs := repeat match goal with |- _ /\ _ => split end.

(* the model's driver IS the abstract scheduler instantiated with the real evaluator (pointwise: no functional extensionality is assumed) *)
Theorem run_refines_schedule :
  forall src prog fuzzing selectors n files s,
    run_body src prog fuzzing selectors n files s
    = real_sched src prog fuzzing selectors n files s.
Proof. exact C02_run_refines_schedule. Qed.
Print Assumptions run_refines_schedule.

(* the scheduler, run on a concrete program and input, produces the expected output *)
Example run_refines_schedule_ex :
  let p := "BEGIN { print 0 } $ == 2 { next } { print $index, $ } END { print $file }"%string in
  match parse_program (bs p) with
  | POk prog _ =>
    let '(r, s) := real_sched (bs p) prog false [] 3000 (one_file "[1,2,3]") init_state in
    r = Ok tt /\ output_of (io s) = bs "0
0 1
2 3
f.json
" /\ run_body (bs p) prog false [] 3000 (one_file "[1,2,3]") init_state = (r, s)
  | _ => False
  end.
Proof. vm_compute. conjs; reflexivity. Qed.

(* readRules: the five rule lists are the order-preserving filters of Program.Rules by kind and together cover it *)
Theorem rules_partition :
  forall rs : list rule,
    (forall k, rules_of_kind k rs = of_kind k rs) /\
    (forall k a b, of_kind k (a ++ b) = of_kind k a ++ of_kind k b) /\
    (forall k r, of_kind k [r] = if kind_eqb (rkind r) k then [r] else []) /\
    (forall k r, In r (of_kind k rs) <-> In r rs /\ rkind r = k) /\
    (forall k, subseq (of_kind k rs) rs) /\
    Permutation rs (of_kind BeginRule rs ++ of_kind EndRule rs ++ of_kind BeginFileRule rs
                    ++ of_kind EndFileRule rs ++ of_kind PatternRule rs).
Proof. exact C02_rules_partition. Qed.
Print Assumptions rules_partition.

Example rules_partition_ex :
  match parse_program (bs "BEGIN { } END { } { print } BEGINFILE { } 1 ENDFILE { } BEGIN { print 2 }") with
  | POk prog _ =>
    map rkind (prules prog)
      = [BeginRule; EndRule; PatternRule; BeginFileRule; PatternRule; EndFileRule; BeginRule] /\
    of_kind BeginRule (prules prog) = [nth 0 (prules prog) (mkRuleR EndRule None (SReturn None));
                                       nth 6 (prules prog) (mkRuleR EndRule None (SReturn None))] /\
    length (of_kind PatternRule (prules prog)) = 2
  | _ => False
  end.
Proof. vm_compute. conjs; reflexivity. Qed.

(* the rules of one element run in source order: the rule list is the sequential composition of its rules, each running only if every earlier one ran to its end without `next` *)
Theorem source_order :
  forall (src : bytes) (rules : list rule) (selectors : list bytes) (init : M unit) (xb : rule -> M unit) (xp : expr -> M addr) (xs : bytes -> jvalue -> M addr),
    (forall r s, s_rules_go xb xp [r] s = s_rule xb xp r s) /\
    (forall a b s,
        s_rules_go xb xp (a ++ b) s
        = (let* go := s_rules_go xb xp a in if go then s_rules_go xb xp b else ret false) s) /\
    (forall rs s, s_rules xb xp rs s = (let* _ := s_rules_go xb xp rs in ret tt) s) /\
    (forall pre r rest s0 s,
        s_rules_go xb xp pre s0 = (Ok true, s) ->
        s_rules_go xb xp (pre ++ r :: rest) s0
        = match s_rule xb xp r s with
          | (Ok true, s1) => s_rules_go xb xp rest s1
          | (Ok false, s1) => (Ok false, s1)
          | (other, s1) => (recast other, s1)
          end).
Proof. exact C02_source_order. Qed.
Print Assumptions source_order.

Example source_order_ex :
  run_out "{ print ""a"" } { print ""b"" } { print ""c"" }" "[1,2]" = (OOk, bs "a
b
c
a
b
c
").
Proof. vm_compute. reflexivity. Qed.

(* a rule's body runs iff its pattern is absent or truthy; when the pattern is falsy the outcome does not depend on the body executor at all *)
Theorem pattern_gates_body :
  forall (src : bytes) (rules : list rule) (selectors : list bytes) (init : M unit) (xb : rule -> M unit) (xp : expr -> M addr) (xs : bytes -> jvalue -> M addr) (r : rule) (s : st),
    (rpattern r = None -> s_rule xb xp r s = s_body xb r s) /\
    (forall p c s1, rpattern r = Some p -> xp p s = (Ok c, s1) ->
       (is_truthy (load (hp s1) c) = true -> s_rule xb xp r s = s_body xb r s1) /\
       (is_truthy (load (hp s1) c) = false ->
          s_rule xb xp r s = (Ok true, s1) /\
          forall xb' : rule -> M unit, s_rule xb' xp r s = s_rule xb xp r s)) /\
    (forall sb, s_body xb r sb = match xb r sb with
                                 | (Ok _, s2) => (Ok true, s2)
                                 | (Sig SigNext, s2) => (Ok false, s2)
                                 | (other, s2) => (recast other, s2)
                                 end).
Proof. exact C02_pattern_gates_body. Qed.
Print Assumptions pattern_gates_body.

Example pattern_gates_body_ex :
  run_out "$ > 1 { print ""big"", $ } $ < 2 { print ""small"", $ }" "[1,2]" = (OOk, bs "small 1
big 2
") /\
  (* the hypotheses of the falsy clause, with the real evaluator *)
  (let p := "0 { print 1 }"%string in
   match rule_of p 0 with
   | Some (mkRuleR _ (Some e) _) =>
     match xp_of p e st0 with
     | (Ok c, s1) => is_truthy (load (hp s1) c) = false
     | _ => False
     end
   | _ => False
   end).
Proof. split; vm_compute; reflexivity. Qed.

(* `next` from the pattern or the body of a rule ends the rule list of THIS element with Ok in the state where it was signalled (no later rule runs), and the element loop goes on with the next element from that state *)
Theorem next_local :
  forall (src : bytes) (rules : list rule) (selectors : list bytes) (init : M unit) (xb : rule -> M unit) (xp : expr -> M addr) (xs : bytes -> jvalue -> M addr),
    (forall pre r p rest s0 s s1,
        s_rules_go xb xp pre s0 = (Ok true, s) ->
        rpattern r = Some p -> xp p s = (Sig SigNext, s1) ->
        s_rules xb xp (pre ++ r :: rest) s0 = (Ok tt, s1)) /\
    (forall pre r rest s0 s sb s1,
        s_rules_go xb xp pre s0 = (Ok true, s) ->
        body_runs_at xp r s sb -> xb r sb = (Sig SigNext, s1) ->
        s_rules xb xp (pre ++ r :: rest) s0 = (Ok tt, s1)) /\
    (forall prs bid off i more s item s' s1,
        nth_error (get_back (hp s) bid) (off + i) = Some item ->
        elem_state s item i = Some s' ->
        s_rules xb xp prs s' = (Ok tt, s1) ->
        for_each (i :: more) (s_element xb xp prs bid off) s
        = for_each more (s_element xb xp prs bid off) s1).
Proof. exact C02_next_local. Qed.
Print Assumptions next_local.

Example next_local_ex :
  run_out "$ == 2 { next } { print }" "[1,2,3]" = (OOk, bs "1
3
") /\
  (* `next` from inside a pattern (a match expression with a block body) *)
  run_out "match ($) { 2 => { next } } { print ""no"" } { print }" "[1,2,3]" = (OOk, bs "1
3
") /\
  (let p := "{ next } { print }"%string in
   match rule_of p 0 with
   | Some r => (rpattern r = None /\ st0 = st0) /\ fst (xb_of p r st0) = Sig SigNext
   | None => False
   end) /\
  (let p := "match ($) { null => { next } } { print }"%string in
   match rule_of p 0 with
   | Some (mkRuleR _ (Some e) _) => fst (xp_of p e st0) = Sig SigNext
   | _ => False
   end).
Proof. conjs; vm_compute; conjs; reflexivity. Qed.

(* `exit` from any executor call is the outcome of every enclosing scheduler level in the very state where it was signalled (so nothing else runs: no later rule, element, root, value, file, ENDFILE or END), and the run is classified as a success *)
Theorem exit_global :
  forall (src : bytes) (rules : list rule) (selectors : list bytes) (init : M unit) (xb : rule -> M unit) (xp : expr -> M addr) (xs : bytes -> jvalue -> M addr),
    propagates src rules selectors init xb xp xs (Sig SigExit) /\
    classify (Sig SigExit) = OOk /\
    (forall n psrc files sels fuzzing prog p s,
        parse_program psrc = POk prog p ->
        run_body psrc prog fuzzing sels n files init_state = (Sig SigExit, s) ->
        eval_program n psrc files sels fuzzing = mkRun OOk s).
Proof. exact C02_exit_global. Qed.
Print Assumptions exit_global.

(* exit in the middle of the elements: the later elements, ENDFILE and END do not run, the
   run succeeds *)
Example exit_global_ex :
  run_out "BEGINFILE { print ""bf"" } $ == 2 { exit } { print } ENDFILE { print ""ef"" } END { print ""end"" }"
          "[1,2,3]" = (OOk, bs "bf
1
") /\
  run_out "BEGIN { print 1; exit; print 2 } { print } END { print 3 }" "[1,2,3]" = (OOk, bs "1
") /\
  (let p := "{ exit }"%string in
   match rule_of p 0 with
   | Some r => fst (xb_of p r st0) = Sig SigExit
   | None => False
   end).
Proof. conjs; vm_compute; conjs; reflexivity. Qed.

(* the same for an error: it is the outcome of every enclosing level in the state where it was raised, and the run is classified as failed *)
Theorem error_global :
  forall (src : bytes) (rules : list rule) (selectors : list bytes) (init : M unit) (xb : rule -> M unit) (xp : expr -> M addr) (xs : bytes -> jvalue -> M addr) (e : errinfo),
    propagates src rules selectors init xb xp xs (Err e) /\
    classify (Err e) <> OOk /\
    (forall n psrc files sels fuzzing prog p s,
        parse_program psrc = POk prog p ->
        run_body psrc prog fuzzing sels n files init_state = (Err e, s) ->
        r_state (eval_program n psrc files sels fuzzing) = s /\
        r_outcome (eval_program n psrc files sels fuzzing) <> OOk).
Proof. exact C02_error_global. Qed.
Print Assumptions error_global.

Example error_global_ex :
  (let '(o, out) := run_out "{ print } $ == 2 { x = [] < 1 } ENDFILE { print ""ef"" } END { print ""end"" }" "[1,2,3]" in
   is_runtime o = true /\ out = bs "1
2
") /\
  (let p := "{ x = [] < 1 }"%string in
   match rule_of p 0 with
   | Some r => match fst (xb_of p r st0) with Err _ => True | _ => False end
   | None => False
   end).
Proof. split; [vm_compute; split; reflexivity|]. vm_compute. exact I. Qed.

(* an array root: the pattern rules run once per element, indices 0..len-1 in order; the cell of element i is read from the live backing when its turn comes, `$` is that very cell and `$index` a fresh cell holding i *)
Theorem elements_in_index_order :
  forall (src : bytes) (rules : list rule) (selectors : list bytes) (init : M unit) (xb : rule -> M unit) (xp : expr -> M addr) (xs : bytes -> jvalue -> M addr),
    (forall src' prog fuzzing n rs bid off len s,
        eval_elements src' (pfuncs prog) fuzzing n rs bid off len len 0 s
        = for_each (seq 0 len)
            (s_element (fun r => eval_stmt src' (pfuncs prog) fuzzing n (rbody r))
                       (eval_expr src' (pfuncs prog) fuzzing n) rs bid off) s) /\
    (forall prs s rt bid off len,
        root s = Some rt -> load (hp s) rt = VArr bid off len ->
        s_pattern_phase xb xp prs s = for_each (seq 0 len) (s_element xb xp prs bid off) s) /\
    (forall prs bid off i s,
        match nth_error (get_back (hp s) bid) (off + i) with
        | None => s_element xb xp prs bid off i s = (Panic, s)
        | Some item =>
          forall s', elem_state s item i = Some s' ->
            s_element xb xp prs bid off i s = s_rules xb xp prs s' /\
            rule_root s' = Some item /\ root s' = root s /\ io s' = io s /\
            exists c, lookup_frames (frames s') (bs "$index") = Some c /\
                      c = next (hp s) /\ load (hp s') c = num_of_nat i
        end).
Proof. exact C02_elements_in_index_order. Qed.
Print Assumptions elements_in_index_order.

Example elements_in_index_order_ex :
  run_out "{ print $index, $ }" "[10,20,30]" = (OOk, bs "0 10
1 20
2 30
") /\
  (* `$` is the element's own cell: assigning to it changes the array *)
  run_out "$index == 0 { $ = 9 } ENDFILE { print }" "[1,2]" = (OOk, bs "[9, 2]
") /\
  elem_state st0 1%positive 4 <> None.
Proof. split; [vm_compute; reflexivity|]. split; [vm_compute; reflexivity|]. vm_compute. discriminate. Qed.

(* a root that is not an array: the pattern rules run exactly once, with `$` bound to the root cell itself; no root (no input value yet): not at all *)
Theorem non_array_once :
  forall (src : bytes) (rules : list rule) (selectors : list bytes) (init : M unit) (xb : rule -> M unit) (xp : expr -> M addr) (xs : bytes -> jvalue -> M addr) prs s,
    (forall rt, root s = Some rt -> tag_of (load (hp s) rt) <> TgArr ->
                s_pattern_phase xb xp prs s = s_rules xb xp prs (with_rule_root s rt)) /\
    (root s = None -> s_pattern_phase xb xp prs s = (Ok tt, s)).
Proof. exact C02_non_array_once. Qed.
Print Assumptions non_array_once.

Example non_array_once_ex :
  run_out "{ print }" "{""a"":1} 5" = (OOk, bs "{""a"": 1}
5
") /\
  run_out "{ print } END { print ""end"" }" "" = (OOk, bs "end
").
Proof. split; vm_compute; reflexivity. Qed.

(* BEGIN and END rules are scheduled with `$` = a fresh cell holding null, a new one for each rule; a stray next/break/continue/return in them becomes an error (never Ok) *)
Theorem begin_end_null_root :
  forall (src : bytes) (rules : list rule) (selectors : list bytes) (init : M unit) (xb : rule -> M unit) (xp : expr -> M addr) (xs : bytes -> jvalue -> M addr),
    (forall files s,
        sched src rules selectors init xb xp xs files s
        = (init ;;;
           for_each (of_kind BeginRule rules) (s_special src xb null_root) ;;;
           for_each files (s_file src rules selectors xb xp xs) ;;;
           for_each (of_kind EndRule rules) (s_special src xb null_root)) s) /\
    (forall r s,
        s_special src xb null_root r s
        = special_finish src r (xb r (fresh_root_state s (VNil None))) /\
        rule_root (fresh_root_state s (VNil None)) = Some (next (hp s)) /\
        load (hp (fresh_root_state s (VNil None))) (next (hp s)) = VNil None /\
        next (hp (fresh_root_state s (VNil None))) = Pos.succ (next (hp s))) /\
    (forall r s1, special_finish src r (Ok tt, s1) = (Ok tt, s1)) /\
    (forall r x s1, is_ok x = false -> is_ok (fst (special_finish src r (x, s1))) = false).
Proof. exact C02_begin_end_null_root. Qed.
Print Assumptions begin_end_null_root.

(* each BEGIN / END rule gets its own null `$`: the assignment in the second rule is not
   seen by the third *)
Example begin_end_null_root_ex :
  run_out "BEGIN { print } BEGIN { $ = 5 ; print } BEGIN { print } END { print }" "" = (OOk, bs "null
5
null
null
") /\
  is_runtime (fst (run_out "BEGIN { next }" "[1]")) = true.
Proof. split; vm_compute; reflexivity. Qed.

(* BEGINFILE rules see the root cell itself (assignments to `$` change the root), ENDFILE rules see a fresh cell holding the root's value as it was BEFORE the BEGINFILE rules ran (the VALUE is copied as Go copies a Value struct: an array header / object pointer, so element cells are shared with the original root) *)
Theorem endfile_sees_original_root :
  forall (src : bytes) (rules : list rule) (selectors : list bytes) (init : M unit) (xb : rule -> M unit) (xp : expr -> M addr) (xs : bytes -> jvalue -> M addr) rc s,
    s_root src rules xb xp rc s
    = (for_each (of_kind BeginFileRule rules) (s_special src xb (ret rc)) ;;;
       set_root (Some rc) ;;;
       s_pattern_phase xb xp (of_kind PatternRule rules) ;;;
       for_each (of_kind EndFileRule rules) (s_special src xb (m_alloc (load (hp s) rc)))) s /\
    (forall r s', s_special src xb (ret rc) r s'
                  = special_finish src r (xb r (with_rule_root s' rc))) /\
    (forall r v s', s_special src xb (m_alloc v) r s'
                    = special_finish src r (xb r (fresh_root_state s' v)) /\
                    rule_root (fresh_root_state s' v) = Some (next (hp s')) /\
                    load (hp (fresh_root_state s' v)) (next (hp s')) = v).
Proof. exact C02_endfile_sees_original_root. Qed.
Print Assumptions endfile_sees_original_root.

Example endfile_sees_original_root_ex :
  run_out "BEGINFILE { $ = 7 } { print } ENDFILE { print }" "[1,2]" = (OOk, bs "7
[1, 2]
").
Proof. vm_compute. reflexivity. Qed.

(* a rule without a body gets the body `print` from the parser (Parser.parse_rule_: SPrint zero_token [], shown by computation on a program with three body-less rules), and that statement writes pretty($) followed by a newline in one write *)
Theorem bodyless_rule_prints_root :
  (exists prog p, parse_program (bs "$ > 1  $.a  END") = POk prog p /\
                  map rkind (prules prog) = [PatternRule; PatternRule; EndRule] /\
                  map rbody (prules prog)
                    = [SPrint zero_token []; SPrint zero_token []; SPrint zero_token []]) /\
  (forall src funcs fuzzing f t s,
      eval_stmt src funcs fuzzing (S (S f)) (SPrint t []) s
      = match rule_root s with
        | None => (Panic, s)
        | Some a =>
          match pretty_string (hp s) (load (hp s) a) with
          | Some p => (Ok tt, mkSt (hp s) (frames s) (rule_root s) (root s) (retval s)
                                   (IoWrite (p ++ [10%N]) :: io s))
          | None => (Fuel, s)
          end
        end).
Proof. exact C02_bodyless_rule_prints_root. Qed.
Print Assumptions bodyless_rule_prints_root.

Example bodyless_rule_prints_root_ex :
  run_out "$ > 1" "[1,2,3]" = (OOk, bs "2
3
").
Proof. vm_compute. reflexivity. Qed.

(* for every JSON value, before its roots are computed (so before any selector, BEGINFILE or pattern rule runs), `$file` is bound in the <root> frame (the last one) to a fresh cell holding the file's name *)
Theorem file_global_set :
  forall (src : bytes) (rules : list rule) (selectors : list bytes) (init : M unit) (xb : rule -> M unit) (xp : expr -> M addr) (xs : bytes -> jvalue -> M addr) name doc s,
    s_value src rules selectors xb xp xs name doc s
    = (let* rcs := s_roots_of selectors xs doc in
       for_each rcs (s_root src rules xb xp)) (file_state s name) /\
    (forall fs f, frames s = fs ++ [f] ->
       frames (file_state s name)
         = fs ++ [mkFrame (fname f) (assoc_set (bs "$file") (next (hp s)) (locals f))] /\
       load (hp (file_state s name)) (next (hp s)) = VStr name /\
       rule_root (file_state s name) = rule_root s /\ root (file_state s name) = root s /\
       io (file_state s name) = io s).
Proof. exact C02_file_global_set. Qed.
Print Assumptions file_global_set.

Example file_global_set_ex :
  run_out "BEGINFILE { print $file }" "[1,2,3] 4" = (OOk, bs "f.json
f.json
") /\
  exists fs f, frames st0 = fs ++ [f].
Proof. split; [vm_compute; reflexivity|]. exists [], (mkFrame (bs "<root>") []). reflexivity. Qed.

