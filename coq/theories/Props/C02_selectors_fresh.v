(* Props/C02_selectors_fresh.v -- properties C02 / C14: every root selector is evaluated on the document as it
   was read; the rules of an earlier selector pass cannot be seen by a later pass.  The schedule itself is
   C02_schedule.run_refines_schedule; this file holds whole-program witnesses by vm_compute (executable examples,
   not further theorems) -- the programs of the seeded changes agent6-C02-a / agent6-C14-a, which converted the
   decoded document once and shared it between the selectors. *)
From Coq Require Import ZArith List Bool.
From JQ Require Import Base.Bytes Syntax.Token Json.Decode Sem.Value Sem.Eval Sem.Driver.
Import ListNotations.

Definition out_sel (src inp : bytes) (sels : list bytes) : outcome * bytes :=
  let r := eval_program 200 src [(bs "d.json", mkR [inp] false)] sels false in
  (r_outcome r, output_of (io (r_state r))).

Definition nl : bytes := [10%N].

Example same_selector_twice :     (* both passes print 0 10 / 1 20 *)
  out_sel (bs "{ $.n = $.n * 10; print $index, $.n }") (bs "{""items"":[{""n"":1},{""n"":2}]}")
          [bs "$.items"; bs "$.items"]
  = (OOk, bs "0 10" ++ nl ++ bs "1 20" ++ nl ++ bs "0 10" ++ nl ++ bs "1 20" ++ nl).
Proof. vm_compute. reflexivity. Qed.

Example root_then_root :          (* $ = 0 in the first pass does not reach the second *)
  out_sel (bs "{ print $; $ = 0 }") (bs "[1,2,3]") [bs "$"; bs "$"]
  = (OOk, bs "1" ++ nl ++ bs "2" ++ nl ++ bs "3" ++ nl ++ bs "1" ++ nl ++ bs "2" ++ nl ++ bs "3" ++ nl).
Proof. vm_compute. reflexivity. Qed.

Example writing_selector :        (* a selector that writes ($.n = 100) does not change what the next one sees *)
  out_sel (bs "{ print $ }") (bs "{""n"":5}") [bs "$.n = 100"; bs "$.n"]
  = (OOk, bs "100" ++ nl ++ bs "5" ++ nl).
Proof. vm_compute. reflexivity. Qed.
