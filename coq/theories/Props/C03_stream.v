(* C03: the input is a stream of JSON values: sequential, chunking independent, reads only when needed.
   Statements are those of the cited lemmas (proved in the library files named in the imports);
   each is re-exported here so that it is an obligation of the property's check. `Check` prints the
   statement in the build log. *)
From JQ Require Import Base.Bytes Json.JValue Json.Decode.
From JQ Require Json.StreamProofs.

Check StreamProofs.decode_next_consumes.
Theorem decode_next_consumes : ltac:(let ty := type of @StreamProofs.decode_next_consumes in exact ty).
Proof. exact (@StreamProofs.decode_next_consumes). Qed.
Print Assumptions decode_next_consumes.

Check StreamProofs.decode_prefix_stable.
Theorem decode_prefix_stable : ltac:(let ty := type of @StreamProofs.decode_prefix_stable in exact ty).
Proof. exact (@StreamProofs.decode_prefix_stable). Qed.
Print Assumptions decode_prefix_stable.

Check StreamProofs.decode_container_stable.
Theorem decode_container_stable : ltac:(let ty := type of @StreamProofs.decode_container_stable in exact ty).
Proof. exact (@StreamProofs.decode_container_stable). Qed.
Print Assumptions decode_container_stable.

Check StreamProofs.dec_step_decode_next.
Theorem dec_step_decode_next : ltac:(let ty := type of @StreamProofs.dec_step_decode_next in exact ty).
Proof. exact (@StreamProofs.dec_step_decode_next). Qed.
Print Assumptions dec_step_decode_next.

Check StreamProofs.chunking_independent.
Theorem chunking_independent : ltac:(let ty := type of @StreamProofs.chunking_independent in exact ty).
Proof. exact (@StreamProofs.chunking_independent). Qed.
Print Assumptions chunking_independent.

Check StreamProofs.chunking_independent_readers.
Theorem chunking_independent_readers : ltac:(let ty := type of @StreamProofs.chunking_independent_readers in exact ty).
Proof. exact (@StreamProofs.chunking_independent_readers). Qed.
Print Assumptions chunking_independent_readers.

Check StreamProofs.dec_all_total.
Theorem dec_all_total : ltac:(let ty := type of @StreamProofs.dec_all_total in exact ty).
Proof. exact (@StreamProofs.dec_all_total). Qed.
Print Assumptions dec_all_total.

Check StreamProofs.dec_all_deterministic.
Theorem dec_all_deterministic : ltac:(let ty := type of @StreamProofs.dec_all_deterministic in exact ty).
Proof. exact (@StreamProofs.dec_all_deterministic). Qed.
Print Assumptions dec_all_deterministic.

Check StreamProofs.reads_minimal.
Theorem reads_minimal : ltac:(let ty := type of @StreamProofs.reads_minimal in exact ty).
Proof. exact (@StreamProofs.reads_minimal). Qed.
Print Assumptions reads_minimal.

Check StreamProofs.no_read_when_buffered.
Theorem no_read_when_buffered : ltac:(let ty := type of @StreamProofs.no_read_when_buffered in exact ty).
Proof. exact (@StreamProofs.no_read_when_buffered). Qed.
Print Assumptions no_read_when_buffered.

Check StreamProofs.sticky_no_read.
Theorem sticky_no_read : ltac:(let ty := type of @StreamProofs.sticky_no_read in exact ty).
Proof. exact (@StreamProofs.sticky_no_read). Qed.
Print Assumptions sticky_no_read.

Check StreamProofs.buffered_container_no_read.
Theorem buffered_container_no_read : ltac:(let ty := type of @StreamProofs.buffered_container_no_read in exact ty).
Proof. exact (@StreamProofs.buffered_container_no_read). Qed.
Print Assumptions buffered_container_no_read.
