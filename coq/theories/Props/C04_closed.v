(* C04: the JSON round trip with NO hypothesis left: Json/NumBridge.v needs only the number
   round trip, which Num/F64Json.v proves for both the positional and the exponent branch. *)
From JQ Require Import Base.Bytes Num.F64 Json.JValue Json.Decode Json.Encode.
From JQ Require Num.F64Json Json.JsonProofs Json.NumBridge.

Lemma format_json_some_finite : forall x b, format_json x = Some b -> f_is_finite x = true.
Proof.
  intros x b H. destruct x as [s|s| |s m e]; try reflexivity;
    unfold format_json in H; simpl in H; discriminate H.
Qed.

Lemma num_roundtrip : forall x b,
  JsonProofs.is_float64 x -> format_json x = Some b -> parse_float b = PFok x.
Proof.
  intros x b Hv H. apply F64Json.format_json_roundtrip; [ | exact Hv | exact H].
  exact (format_json_some_finite x b H).
Qed.

Theorem marshal_never_malformed_closed : forall v b,
  JsonProofs.finite_numbers v -> marshal_indent v = Some b -> exists v', decode_next b = DValue v' [].
Proof. exact (NumBridge.marshal_never_malformed_rt num_roundtrip). Qed.
Print Assumptions marshal_never_malformed_closed.

Theorem marshal_roundtrip_closed : forall v b,
  JsonProofs.wf_jvalue v -> JsonProofs.finite_numbers v -> JsonProofs.valid_utf8_strings v ->
  marshal_indent v = Some b -> decode_next b = DValue v [].
Proof. exact (NumBridge.marshal_roundtrip_eq_rt num_roundtrip). Qed.
Print Assumptions marshal_roundtrip_closed.

Theorem marshal_indent_decodes_closed : forall v b,
  JsonProofs.finite_numbers v -> marshal_indent v = Some b -> decode_next b = DValue (JsonProofs.jnorm v) [].
Proof. exact (NumBridge.marshal_indent_decodes_rt num_roundtrip). Qed.
Print Assumptions marshal_indent_decodes_closed.
