(* C04 (the heap-value part): "[...] json(v) returns valid JSON text that parses back to v
   [...] A value that (transitively) contains itself is rejected with an error instead of
   recursing forever or emitting invalid JSON, and a value JSON cannot express (function,
   non-finite number) is an error, never malformed output."
   Model: Sem/Value.v to_go_fuel / to_go_value / new_value, Sem/Natives.v native_call NJson,
   Sem/Driver.v get_root_json; vocabulary: Spec/Pure.v; proofs: Proofs/Pure.v, Proofs/Pretty.v.
   The text level (marshal_indent j parses back to j) is Json/JsonProofs.v's part. *)
From Coq Require Import List Bool PArith NArith ZArith FMapPositive.
From JQ Require Import Base.Bytes Num.F64 Syntax.Token Syntax.Lexer Syntax.Ast.
From JQ Require Import Json.JValue Json.Encode.
From JQ Require Import Gen.Generated Sem.Value Sem.Ops Sem.Natives Sem.Eval Sem.Driver.
From JQ Require Import Spec.Pure.
From JQ Require Proofs.Pure Proofs.Pretty.
Import ListNotations.

(* ToGoValue never runs out of fuel: it does not recurse forever *)
Theorem to_go_terminates : forall h v, wf_heap h -> to_go_value h v <> GoFuel.
Proof. exact Proofs.Pretty.to_go_terminates. Qed.
Print Assumptions to_go_terminates.

(* a container that is on its own path is an error at the point of recurrence *)
Theorem to_go_cycle_error : forall f h path v,
  existsb (fun r => is_same h r v) path = true ->
  to_go_fuel (S f) h path true v = GoErr.
Proof. exact Proofs.Pretty.to_go_cycle_error. Qed.
Print Assumptions to_go_cycle_error.

(* hence a value that (transitively) contains itself is rejected *)
Theorem to_go_cyclic_error : forall h v, wf_heap h -> contains_itself h v ->
  to_go_value h v = GoErr.
Proof. exact Proofs.Pretty.to_go_cyclic_error. Qed.
Print Assumptions to_go_cyclic_error.

Theorem to_go_inexpressible : forall h,
  (forall i, to_go_value h (VFn i) = GoErr) /\
  (forall n b, to_go_value h (VNative n b) = GoErr) /\
  (forall s, to_go_value h (VRegex s) = GoErr) /\
  to_go_value h VUnknown = GoOk JNull /\
  (forall sp, to_go_value h (VNil sp) = GoOk JNull).
Proof. exact Proofs.Pretty.to_go_inexpressible. Qed.
Print Assumptions to_go_inexpressible.

(* NewValue then ToGoValue is the identity for EVERY JSON value and EVERY heap: empty arrays
   and objects at any depth included; neither wf_jvalue j nor wf_heap h is needed *)
Theorem to_go_new_value : forall j h v h',
  new_value j h = (v, h') -> to_go_value h' v = GoOk j.
Proof. exact Proofs.Pretty.to_go_new_value. Qed.
Print Assumptions to_go_new_value.

(* json(x): an error, or exactly MarshalIndent of the JSON value of x; nothing is written
   and the heap is untouched.  (A non-finite number makes marshal_indent = None: an error.) *)
Theorem json_never_malformed : forall x this s r s',
  native_call NJson [x] this s = (r, s') ->
  match r with
  | Ok NError => to_go_value (hp s) x = GoErr \/
                 exists j, to_go_value (hp s) x = GoOk j /\ marshal_indent j = None
  | Ok (NVal v) => exists j b, v = VStr b /\ to_go_value (hp s) x = GoOk j /\
                               marshal_indent j = Some b
  | Ok NNil => False
  | Fuel => to_go_value (hp s) x = GoFuel
  | _ => False
  end /\ hp s' = hp s /\ io s' = io s.
Proof. exact Proofs.Pretty.json_never_malformed. Qed.
Print Assumptions json_never_malformed.

Theorem root_json_never_malformed : forall s,
  match get_root_json s with
  | JsonText b =>
    (root s = None /\ b = bs "null") \/
    exists a j, root s = Some a /\ to_go_value (hp s) (load (hp s) a) = GoOk j /\
                marshal_indent j = Some b
  | JsonError => exists a, root s = Some a /\
       (to_go_value (hp s) (load (hp s) a) = GoErr \/
        exists j, to_go_value (hp s) (load (hp s) a) = GoOk j /\ marshal_indent j = None)
  | JsonFuel => exists a, root s = Some a /\ to_go_value (hp s) (load (hp s) a) = GoFuel
  end.
Proof. exact Proofs.Pretty.root_json_never_malformed. Qed.
Print Assumptions root_json_never_malformed.

(* ---------------------------------------------------------------- examples *)

(* a = [1]; a[0] = a *)
Definition cyc_heap : heap :=
  mkHeap (PM.add 2%positive (VArr 3%positive 0 1) (PM.add 1%positive (VNil None) (PM.empty _)))
         (PM.add 3%positive [2%positive] (PM.empty _)) (PM.empty _) 4%positive.
Definition cyc_val : value := VArr 3%positive 0 1.
Definition cyc_st : st := mkSt cyc_heap [mkFrame (bs "<root>") []] None (Some 2%positive) None [].

Lemma cyc_wf : wf_heap cyc_heap.
Proof. apply Proofs.Pretty.wf_heapb_sound. vm_compute. reflexivity. Qed.
Lemma cyc_contains_itself : contains_itself cyc_heap cyc_val.
Proof.
  exists cyc_val. split; [|constructor]. exists 2%positive. split; [vm_compute; auto|reflexivity].
Qed.

Example to_go_terminates_ex : wf_heap cyc_heap /\ to_go_value cyc_heap cyc_val = GoErr.
Proof. split; [exact cyc_wf|vm_compute; reflexivity]. Qed.

Example to_go_cycle_error_ex :
  existsb (fun r => is_same cyc_heap r cyc_val) [cyc_val] = true.
Proof. vm_compute. reflexivity. Qed.

Example to_go_cyclic_error_ex : to_go_value cyc_heap cyc_val = GoErr.
Proof. exact (to_go_cyclic_error _ _ cyc_wf cyc_contains_itself). Qed.

(* an array that contains the same (empty-capacity and non-empty) arrays twice is NOT cyclic *)
Definition ex_doc : jvalue :=
  JObj [(bs "a", JArr [JArr []; JArr []; JObj []; JArr [JArr []]]);
        (bs "b", JObj [(bs "c", JNull); (bs "d", JArr [JBool true; JStr []; JNum (f_of_Z 3)])]);
        (bs "e", JArr [])].
Example to_go_new_value_ex :
  to_go_value (snd (new_value ex_doc empty_heap)) (fst (new_value ex_doc empty_heap)) = GoOk ex_doc /\
  fst (new_value ex_doc empty_heap) = VObj 24%positive.
Proof.
  split; [apply (to_go_new_value ex_doc empty_heap); apply surjective_pairing|vm_compute; reflexivity].
Qed.

Example to_go_inexpressible_ex :
  to_go_value cyc_heap (VNative NJson None) = GoErr /\ to_go_value cyc_heap VUnknown = GoOk JNull.
Proof. split; apply (to_go_inexpressible cyc_heap). Qed.

Definition ex_nv := new_value ex_doc empty_heap.
Definition ex_st : st := mkSt (snd ex_nv) [mkFrame (bs "<root>") []] None None None [].
Example json_never_malformed_ex :
  (* json of a document succeeds, json of the cyclic array and of a function are errors *)
  (exists b, native_call NJson [fst ex_nv] None ex_st = (Ok (NVal (VStr b)), ex_st) /\
             marshal_indent ex_doc = Some b) /\
  native_call NJson [cyc_val] None cyc_st = (Ok NError, cyc_st) /\
  native_call NJson [VFn 0] None cyc_st = (Ok NError, cyc_st) /\
  (* NaN is not expressible *)
  native_call NJson [VNum f_nan] None cyc_st = (Ok NError, cyc_st).
Proof.
  split; [|repeat split; vm_compute; reflexivity].
  exists (match marshal_indent ex_doc with Some b => b | None => [] end).
  split; vm_compute; reflexivity.
Qed.

Example root_json_never_malformed_ex : get_root_json cyc_st = JsonError.
Proof. vm_compute. reflexivity. Qed.
