(* C04: the encoder's output is always accepted by the decoder and reads back as the value.
   Statements are those of the cited lemmas (proved in the library files named in the imports);
   each is re-exported here so that it is an obligation of the property's check. `Check` prints the
   statement in the build log. *)
From JQ Require Import Base.Bytes Json.JValue Json.Decode Json.Encode.
From JQ Require Json.JsonProofs Json.StringProofs.

Check JsonProofs.marshal_never_malformed.
Theorem marshal_never_malformed : ltac:(let ty := type of @JsonProofs.marshal_never_malformed in exact ty).
Proof. exact (@JsonProofs.marshal_never_malformed). Qed.
Print Assumptions marshal_never_malformed.

Check JsonProofs.marshal_indent_decodes.
Theorem marshal_indent_decodes : ltac:(let ty := type of @JsonProofs.marshal_indent_decodes in exact ty).
Proof. exact (@JsonProofs.marshal_indent_decodes). Qed.
Print Assumptions marshal_indent_decodes.

Check JsonProofs.marshal_compact_decodes.
Theorem marshal_compact_decodes : ltac:(let ty := type of @JsonProofs.marshal_compact_decodes in exact ty).
Proof. exact (@JsonProofs.marshal_compact_decodes). Qed.
Print Assumptions marshal_compact_decodes.

Check JsonProofs.marshal_roundtrip.
Theorem marshal_roundtrip : ltac:(let ty := type of @JsonProofs.marshal_roundtrip in exact ty).
Proof. exact (@JsonProofs.marshal_roundtrip). Qed.
Print Assumptions marshal_roundtrip.

Check JsonProofs.marshal_roundtrip_eq.
Theorem marshal_roundtrip_eq : ltac:(let ty := type of @JsonProofs.marshal_roundtrip_eq in exact ty).
Proof. exact (@JsonProofs.marshal_roundtrip_eq). Qed.
Print Assumptions marshal_roundtrip_eq.

Check JsonProofs.marshal_compact_roundtrip.
Theorem marshal_compact_roundtrip : ltac:(let ty := type of @JsonProofs.marshal_compact_roundtrip in exact ty).
Proof. exact (@JsonProofs.marshal_compact_roundtrip). Qed.
Print Assumptions marshal_compact_roundtrip.

Check StringProofs.string_escape_roundtrip.
Theorem string_escape_roundtrip : ltac:(let ty := type of @StringProofs.string_escape_roundtrip in exact ty).
Proof. exact (@StringProofs.string_escape_roundtrip). Qed.
Print Assumptions string_escape_roundtrip.

Check StringProofs.unquote_quote.
Theorem unquote_quote : ltac:(let ty := type of @StringProofs.unquote_quote in exact ty).
Proof. exact (@StringProofs.unquote_quote). Qed.
Print Assumptions unquote_quote.
