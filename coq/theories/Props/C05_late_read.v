(* Props/C05_late_read.v -- property C05, evaluation order: left operand, right operand, THEN the operation.
   The general statement is C05_operators.C05_binary_left_then_right (the operand values are loaded from the
   state AFTER the right operand has run).  This file only holds whole-program witnesses of what that means
   when the right operand writes the location the left operand names (computed by vm_compute: these are
   executable examples of the theorem, not further theorems).  They are the programs of seeded change
   agent6-C05-a, which read the left value before evaluating the right operand. *)
From Coq Require Import ZArith List Bool.
From JQ Require Import Base.Bytes Syntax.Token Sem.Value Sem.Eval Sem.Driver.
Import ListNotations.

Definition out_of (src : bytes) : outcome * bytes :=
  let r := eval_program 60 src [] [] false in (r_outcome r, output_of (io (r_state r))).

Definition nl : bytes := [10%N].

Example late_read_plus_postinc :      (* x + x++ : the left cell holds 2 when + is applied, x++ yields 1 *)
  out_of (bs "BEGIN { x = 1; print x + x++; print x }") = (OOk, bs "3" ++ nl ++ bs "2" ++ nl).
Proof. vm_compute. reflexivity. Qed.

Example late_read_times_assign :      (* y * (y = 5) = 25 *)
  out_of (bs "BEGIN { y = 2; print y * (y = 5) }") = (OOk, bs "25" ++ nl).
Proof. vm_compute. reflexivity. Qed.

Example late_read_concat :            (* s + (s = 'b') = 'bb' *)
  out_of (bs "BEGIN { s = 'a'; print s + (s = 'b') }") = (OOk, bs "bb" ++ nl).
Proof. vm_compute. reflexivity. Qed.

Example late_read_compare :           (* n > n++ : 4 > 3 *)
  out_of (bs "BEGIN { n = 3; print n > n++ }") = (OOk, bs "true" ++ nl).
Proof. vm_compute. reflexivity. Qed.

Example late_read_through_call :      (* g + bump() where bump sets g = 10 and returns 1: 11 *)
  out_of (bs "function bump() { g = 10; return 1 } BEGIN { g = 1; print g + bump() }") = (OOk, bs "11" ++ nl).
Proof. vm_compute. reflexivity. Qed.

Example early_values_are_copies :     (* a value stored in a variable before the write is a copy: 1 + 1, then 2 *)
  out_of (bs "BEGIN { x = 1; l = x; print l + x++; print x }") = (OOk, bs "2" ++ nl ++ bs "2" ++ nl).
Proof. vm_compute. reflexivity. Qed.
