(* Props/C05_operators.v -- property C05:
   "Every unary and binary operator applied to any operands (number, string, boolean, null,
    unset variable, array, object, regex, function) yields the result fixed by the language's
    coercion rules ..."

   FINAL STATEMENTS ONLY.  The rule set is Spec/OpTable.v (DESIGN.md section 3.2-3.4 as flat
   tables over the ten operand kinds); the proofs are in Proofs/Ops.v.  The model functions
   are Sem/Ops.v (binop_value, unop_value: what evalBinaryExpr / evalUnaryExpr compute once
   the operands are evaluated) and Sem/Eval.v (eval_binary, eval_unary, eval_expr: evaluation
   order, short circuit, error propagation).

   Result: every cell of every table agrees (no `_refuted` theorem).  The three defects the
   design expected here (0/5, 0%5, x ~ x) are fixed in /repo and in the model. *)
From Coq Require Import ZArith List Bool.
From JQ Require Import Base.Bytes Num.F64 Syntax.Token Syntax.Lexer Syntax.Ast.
From JQ Require Import Sem.Value Sem.Ops Sem.Natives Sem.Eval.
From JQ Require Oracle.Regex.
From JQ Require Import Spec.OpTable.
From JQ Require Proofs.Ops.
Import ListNotations.
Open Scope nat_scope.

Module P := JQ.Proofs.Ops.

(* palette for the examples *)
Definition num (z : Z) : value := VNum (f_of_Z z).
Definition str (s : string) : value := VStr (bs s).
Definition pzero : value := VNum (S754_zero false).
Definition nzero : value := VNum (S754_zero true).
Definition an_array : value := VArr 1%positive 0 0.

(* ================================================================== 1. the tables *)

(* all 13 value operators, all 10 x 10 kinds of operands, all payloads *)
Theorem C05_binop_table : forall o l r,
  value_op o = true -> binop_value o l r = spec_binop o l r.
Proof. exact P.binop_table. Qed.
Print Assumptions C05_binop_table.

Example binop_table_ex_div : binop_value BDiv pzero (num 5) = VOk pzero.          (* 0/5 = 0 *)
Proof. vm_compute. reflexivity. Qed.
Example binop_table_ex_mod : binop_value BMod pzero (num 5) = VOk pzero.          (* 0%5 = 0 *)
Proof. vm_compute. reflexivity. Qed.
Example binop_table_ex_cat : binop_value BAdd (num 1) (str "2") = VOk (str "12"). (* 1+"2" *)
Proof. vm_compute. reflexivity. Qed.
Example binop_table_ex_spec : spec_binop BAdd (num 1) (str "2") = VOk (str "12").
Proof. vm_compute. reflexivity. Qed.

Theorem C05_unop_table : forall u v,
  value_uop u = true -> unop_value u v = spec_unop u v.
Proof. exact P.unop_table. Qed.
Print Assumptions C05_unop_table.

Example unop_table_ex_neg : unop_value UNeg (str "abc") = VOk nzero.              (* -"abc" is -0 *)
Proof. vm_compute. reflexivity. Qed.
Example unop_table_ex_not : unop_value UNot (VRegex (bs "a")) = VOk (VBool true). (* regex is falsy *)
Proof. vm_compute. reflexivity. Qed.

(* the coercions of the model are the coercion tables *)
Theorem C05_coercions : forall v,
  as_float v = coN v /\ to_str v = coS v /\ is_truthy v = coT v.
Proof. intros v; split; [apply P.coN_as_float | split; [apply P.coS_to_str | apply P.coT_is_truthy]]. Qed.
Print Assumptions C05_coercions.

Example coercions_ex :
  coN (str "1e3") = Some (f_of_Z 1000) /\ coN (str " 1") = Some f_zero /\
  coN (str "1e999") = Some f_zero /\ coS (num 12) = bs "12" /\ coS (VBool true) = [].
Proof. vm_compute. repeat split; reflexivity. Qed.

(* the right-hand side of `is` *)
Theorem C05_is_table : forall v name,
  is_type_name v name = spec_is v (TnIdent name) /\
  match v with VFn _ => true | _ => false end = spec_is v TnFunction /\
  match v with VNil _ => true | _ => false end = spec_is v TnNull.
Proof.
  intros v name; split; [apply P.is_table | split; [apply P.is_function_table | apply P.is_null_table]].
Qed.
Print Assumptions C05_is_table.

Example is_table_ex :
  spec_is (num 1) (TnIdent (bs "number")) = true /\ spec_is (num 1) (TnIdent (bs "string")) = false /\
  spec_is VUnknown (TnIdent (bs "unknown")) = true /\ spec_is (VNil None) TnNull = true /\
  spec_is (VNative NPush None) TnFunction = false /\ spec_is (num 1) (TnIdent (bs "int")) = false.
Proof. vm_compute. repeat split; reflexivity. Qed.

(* ================================================================== 2. arithmetic *)

Theorem C05_plus_concat_iff_string : forall l r,
  ((exists s, binop_value BAdd l r = VOk (VStr s)) <-> (kind_of l = KStr \/ kind_of r = KStr)) /\
  (kind_of l = KStr \/ kind_of r = KStr -> binop_value BAdd l r = VOk (VStr (coS l ++ coS r))) /\
  (kind_of l <> KStr -> kind_of r <> KStr -> forall a b, coN l = Some a -> coN r = Some b ->
     binop_value BAdd l r = VOk (VNum (f_add a b))).
Proof. exact P.plus_concat_iff_string. Qed.
Print Assumptions C05_plus_concat_iff_string.

Example plus_ex_str_bool : binop_value BAdd (str "a") (VBool true) = VOk (str "a").
Proof. vm_compute. reflexivity. Qed.
Example plus_ex_num : binop_value BAdd (num 1) (VBool true) = VOk (num 2).
Proof. vm_compute. reflexivity. Qed.

Theorem C05_sub_mul_numeric : forall l r a b, coN l = Some a -> coN r = Some b ->
  binop_value BSub l r = VOk (VNum (f_sub a b)) /\ binop_value BMul l r = VOk (VNum (f_mul a b)).
Proof. exact P.sub_mul_numeric. Qed.
Print Assumptions C05_sub_mul_numeric.

Example sub_ex : binop_value BSub (str "10") (VBool true) = VOk (num 9).
Proof. vm_compute. reflexivity. Qed.

Theorem C05_div_error_iff_zero_divisor : forall l r a b,
  coN l = Some a -> coN r = Some b ->
  (binop_value BDiv l r = VErrOp <-> (b = S754_zero false \/ b = S754_zero true)) /\
  (f_is_zero b = false -> binop_value BDiv l r = VOk (VNum (f_div a b))).
Proof. exact P.div_error_iff_zero_divisor. Qed.
Print Assumptions C05_div_error_iff_zero_divisor.

Example div_ex_err : binop_value BDiv (num 5) nzero = VErrOp /\ binop_value BDiv pzero pzero = VErrOp
  /\ binop_value BDiv (num 1) (str "abc") = VErrOp.
Proof. vm_compute. repeat split; reflexivity. Qed.
Example div_ex_ok : binop_value BDiv pzero (num 5) = VOk pzero /\
  binop_value BDiv (num 1) (VBool true) = VOk (num 1).
Proof. vm_compute. repeat split; reflexivity. Qed.

(* Go's `rightNum == 0` is the +-0 test *)
Theorem C05_zero_test : forall x, f_is_zero x = f_eqb x f_zero.
Proof. exact P.f_is_zero_eqb_zero. Qed.
Print Assumptions C05_zero_test.

Example zero_test_ex : f_is_zero (S754_zero true) = true /\ f_eqb (S754_zero true) f_zero = true /\
  f_is_zero f_nan = false /\ f_eqb f_nan f_zero = false.
Proof. vm_compute. repeat split; reflexivity. Qed.

Theorem C05_mod_error_iff_zero_trunc_divisor : forall l r a b,
  coN l = Some a -> coN r = Some b ->
  (binop_value BMod l r = VErrOp <-> f_trunc_int64 b = 0%Z) /\
  (f_trunc_int64 b <> 0%Z ->
     binop_value BMod l r = VOk (VNum (f_of_Z (Z.rem (f_trunc_int64 a) (f_trunc_int64 b))))).
Proof. exact P.mod_error_iff_zero_trunc_divisor. Qed.
Print Assumptions C05_mod_error_iff_zero_trunc_divisor.

Example mod_ex_err : binop_value BMod (num 5) (str "0.5") = VErrOp /\ binop_value BMod (num 5) pzero = VErrOp.
Proof. vm_compute. repeat split; reflexivity. Qed.
Example mod_ex_ok : binop_value BMod pzero (num 5) = VOk pzero /\
  binop_value BMod (str "0.5") (num 3) = VOk pzero /\
  binop_value BMod (num (-7)) (num 3) = VOk (num (-1)) /\
  binop_value BMod (num 7) (num (-3)) = VOk (num 1).
Proof. vm_compute. repeat split; reflexivity. Qed.

Theorem C05_mod_sign_of_dividend : forall a b : Z, b <> 0%Z ->
  let m := Z.rem a b in
  (a = b * Z.quot a b + m)%Z /\ (Z.abs m < Z.abs b)%Z /\
  (0 <= a -> 0 <= m)%Z /\ (a <= 0 -> m <= 0)%Z.
Proof. exact P.mod_sign_of_dividend. Qed.
Print Assumptions C05_mod_sign_of_dividend.

Example mod_sign_ex : Z.rem (-7) 3 = (-1)%Z /\ Z.rem 7 (-3) = 1%Z /\ Z.rem int64_min (-1) = 0%Z.
Proof. vm_compute. repeat split; reflexivity. Qed.

(* ================================================================== 3. comparison *)

Theorem C05_cmp_unset : forall o l r, P.is_cmp_op o = true ->
  kind_of l = KUnset \/ kind_of r = KUnset ->
  binop_value o l r = VOk (VBool (match o with BLt | BGt => true | _ => false end)).
Proof. exact P.cmp_unset. Qed.
Print Assumptions C05_cmp_unset.

Example cmp_unset_ex :
  binop_value BLt VUnknown an_array = VOk (VBool true) /\
  binop_value BGt VUnknown an_array = VOk (VBool true) /\
  binop_value BEq VUnknown VUnknown = VOk (VBool false) /\
  binop_value BNe VUnknown (num 1) = VOk (VBool false) /\
  binop_value BLe (num 1) VUnknown = VOk (VBool false).
Proof. vm_compute. repeat split; reflexivity. Qed.

Theorem C05_cmp_null_lowest : forall o l r, P.is_cmp_op o = true ->
  (kind_of l = KNull -> kind_of r = KNull -> binop_value o l r = VOk (VBool (sat o Eq))) /\
  (kind_of l = KNull -> kind_of r <> KNull -> kind_of r <> KUnset ->
     binop_value o l r = VOk (VBool (sat o Lt))) /\
  (kind_of r = KNull -> kind_of l <> KNull -> kind_of l <> KUnset ->
     binop_value o l r = VOk (VBool (sat o Gt))).
Proof. exact P.cmp_null_lowest. Qed.
Print Assumptions C05_cmp_null_lowest.

Example cmp_null_ex :
  binop_value BLt (VNil None) (VBool false) = VOk (VBool true) /\       (* null < false *)
  binop_value BLt (VNil None) (num (-5)) = VOk (VBool true) /\
  binop_value BLt (VNil None) an_array = VOk (VBool true) /\            (* no error *)
  binop_value BEq (VNil None) (VNil None) = VOk (VBool true) /\
  binop_value BEq (VNil None) pzero = VOk (VBool false).
Proof. vm_compute. repeat split; reflexivity. Qed.

Theorem C05_cmp_container_error : forall o l r, P.is_cmp_op o = true ->
  (binop_value o l r = VErrLeft <->
   (P.is_container l || P.is_container r) &&
   negb (P.is_null_or_unset l) && negb (P.is_null_or_unset r) = true)
  /\ binop_value o l r <> VErrOp /\ binop_value o l r <> VErrRight.
Proof. exact P.cmp_container_error. Qed.
Print Assumptions C05_cmp_container_error.

Example cmp_container_ex :
  binop_value BEq an_array an_array = VErrLeft /\ binop_value BLt (num 1) (VObj 1%positive) = VErrLeft.
Proof. vm_compute. repeat split; reflexivity. Qed.

Theorem C05_cmp_strings_bytewise : forall o a b, P.is_cmp_op o = true ->
  binop_value o (VStr a) (VStr b) = VOk (VBool (sat o (bytes_cmp a b))).
Proof. exact P.cmp_strings_bytewise. Qed.
Print Assumptions C05_cmp_strings_bytewise.

(* bytes_cmp is the lexicographic order on bytes *)
Theorem C05_bytewise_order : forall a b,
  (bytes_cmp a b = Lt <-> lex_lt a b) /\ (bytes_cmp a b = Eq <-> a = b) /\
  (bytes_cmp a b = Gt <-> lex_lt b a).
Proof. intros a b; split; [apply P.bytes_cmp_lt | split; [apply P.bytes_cmp_eq | apply P.bytes_cmp_gt]]. Qed.
Print Assumptions C05_bytewise_order.

Example cmp_strings_ex :
  binop_value BLt (str "10") (str "9") = VOk (VBool true) /\             (* "10" < "9" *)
  binop_value BLt (str "10") (num 9) = VOk (VBool false) /\              (* "10" < 9 is numeric *)
  binop_value BLt (str "a") (str "ab") = VOk (VBool true) /\
  binop_value BEq (str "1.0") (str "1") = VOk (VBool false) /\           (* strings: not numeric *)
  binop_value BEq (str "1.0") (num 1) = VOk (VBool true).
Proof. vm_compute. repeat split; reflexivity. Qed.

Theorem C05_cmp_numeric : forall o l r x y, P.is_cmp_op o = true -> P.numeric_pair l r = true ->
  coN l = Some x -> coN r = Some y ->
  binop_value o l r = VOk (VBool (sat o (num_cmp x y))).
Proof. exact P.cmp_numeric. Qed.
Print Assumptions C05_cmp_numeric.

Example cmp_numeric_hyp_ex :
  P.is_cmp_op BLt = true /\ P.numeric_pair (str "10") (num 9) = true /\
  coN (str "10") = Some (f_of_Z 10) /\ coN (num 9) = Some (f_of_Z 9) /\
  P.numeric_pair (str "10") (str "9") = false /\ P.numeric_pair (num 1) an_array = false.
Proof. vm_compute. repeat split; reflexivity. Qed.

Theorem C05_cmp_numeric_bool_01 :
  coN (VBool true) = Some f_one /\ coN (VBool false) = Some f_zero /\
  (forall o b r y, P.is_cmp_op o = true -> P.numeric_pair (VBool b) r = true -> coN r = Some y ->
     binop_value o (VBool b) r = VOk (VBool (sat o (num_cmp (if b then f_one else f_zero) y)))) /\
  (forall v, match kind_of v with KNum | KStr | KBool => False | _ => True end -> coN v = Some f_zero).
Proof. exact P.cmp_numeric_bool_01. Qed.
Print Assumptions C05_cmp_numeric_bool_01.

Example cmp_numeric_ex :
  binop_value BEq (VBool true) (num 1) = VOk (VBool true) /\             (* true == 1 *)
  binop_value BEq (str "abc") pzero = VOk (VBool true) /\                (* "abc" == 0 *)
  binop_value BEq (VRegex (bs "re")) pzero = VOk (VBool true) /\         (* /re/ == 0 *)
  binop_value BLt (VBool false) (VBool true) = VOk (VBool true) /\
  binop_value BEq (VFn 0) (VNative NPush None) = VOk (VBool true).
Proof. vm_compute. repeat split; reflexivity. Qed.

Theorem C05_num_cmp_nan : forall y, num_cmp f_nan y = Eq /\ num_cmp y f_nan = Eq.
Proof. exact P.num_cmp_nan. Qed.
Print Assumptions C05_num_cmp_nan.

Example nan_ex :
  binop_value BEq (VNum f_nan) (num 1) = VOk (VBool true) /\             (* NaN == 1 *)
  binop_value BLt (VNum f_nan) (num 1) = VOk (VBool false) /\
  binop_value BLe (VNum f_nan) (num 1) = VOk (VBool true).
Proof. vm_compute. repeat split; reflexivity. Qed.

Theorem C05_eq_ne_complement : forall l r, kind_of l <> KUnset -> kind_of r <> KUnset ->
  match binop_value BEq l r with
  | VOk (VBool b) => binop_value BNe l r = VOk (VBool (negb b))
  | other => binop_value BNe l r = other
  end.
Proof. exact P.eq_ne_complement. Qed.
Print Assumptions C05_eq_ne_complement.

Example eq_ne_ex : binop_value BEq (num 1) (str "1") = VOk (VBool true) /\
                   binop_value BNe (num 1) (str "1") = VOk (VBool false).
Proof. vm_compute. repeat split; reflexivity. Qed.

Theorem C05_le_is_lt_or_eq : forall l r, kind_of l <> KUnset -> kind_of r <> KUnset ->
  match binop_value BLt l r, binop_value BGt l r, binop_value BEq l r with
  | VOk (VBool lt), VOk (VBool gt), VOk (VBool eq) =>
      binop_value BLe l r = VOk (VBool (lt || eq)) /\ binop_value BGe l r = VOk (VBool (gt || eq))
  | e, _, _ => binop_value BLe l r = e /\ binop_value BGe l r = e
  end.
Proof. exact P.le_is_lt_or_eq. Qed.
Print Assumptions C05_le_is_lt_or_eq.

Example le_ex : binop_value BLe (num 1) (num 2) = VOk (VBool true) /\
                binop_value BGe (num 1) (num 2) = VOk (VBool false) /\
                binop_value BGe (num 2) (num 2) = VOk (VBool true).
Proof. vm_compute. repeat split; reflexivity. Qed.

(* ================================================================== 4. regex match *)

Theorem C05_regex_table : forall negated l r,
  regex_value negated l r = spec_regex negated l r.
Proof. exact P.regex_table. Qed.
Print Assumptions C05_regex_table.

Example regex_ex :
  binop_value BMatch (str "abc") (VRegex (bs "b+")) = VOk (VBool true) /\
  binop_value BNoMatch (num 12) (str "^1") = VOk (VBool false) /\        (* string form of 12 *)
  binop_value BMatch (str "abc") (str "(") = VErrRight /\                (* invalid pattern *)
  binop_value BMatch (str "abc") (num 1) = VErrRight /\                  (* not a str / regex *)
  binop_value BMatch (VBool true) (str "^$") = VOk (VBool true).         (* S(true) = "" *)
Proof. vm_compute. repeat split; reflexivity. Qed.

(* ================================================================== 5. truthiness, ! *)

Theorem C05_truthy_table : forall v,
  is_truthy v = false <->
  (v = VBool false \/ v = VNum (S754_zero false) \/ v = VNum (S754_zero true) \/ v = VStr [] \/
   kind_of v = KNull \/ kind_of v = KUnset \/ kind_of v = KRegex).
Proof. exact P.truthy_table. Qed.
Print Assumptions C05_truthy_table.

Example truthy_ex :
  is_truthy (VNum f_nan) = true /\ is_truthy nzero = false /\ is_truthy (str "0") = true /\
  is_truthy (str "") = false /\ is_truthy an_array = true /\ is_truthy (VRegex (bs "a")) = false /\
  is_truthy (VFn 0) = true /\ is_truthy VUnknown = false.
Proof. vm_compute. repeat split; reflexivity. Qed.

Theorem C05_not_yields_bool : forall v, unop_value UNot v = VOk (VBool (negb (is_truthy v))).
Proof. exact P.not_yields_bool. Qed.
Print Assumptions C05_not_yields_bool.

Example not_ex : unop_value UNot (str "") = VOk (VBool true) /\ unop_value UNot an_array = VOk (VBool false).
Proof. vm_compute. repeat split; reflexivity. Qed.

Theorem C05_pos_neg_numeric : forall v x, coN v = Some x ->
  unop_value UPos v = VOk (VNum x) /\ unop_value UNeg v = VOk (VNum (f_neg x)).
Proof. exact P.pos_neg_numeric. Qed.
Print Assumptions C05_pos_neg_numeric.

Example pos_ex : unop_value UPos (str "1e3") = VOk (num 1000) /\ unop_value UPos (VBool true) = VOk (num 1).
Proof. vm_compute. repeat split; reflexivity. Qed.

(* ================================================================== 6. the evaluator *)

(* a small program text for the examples: 0&&1/0, tokens given by position *)
Definition ex_src : bytes := bs "0&&1/0".
Definition ex_l : expr := ELit (mkTok TNum 0 1).
Definition ex_and : token := mkTok TAmpAmp 1 2.
Definition ex_r : expr := EBin (ELit (mkTok TNum 3 1)) (ELit (mkTok TNum 5 1)) (mkTok TDivide 4 1).
Definition ex_st : st := mkSt empty_heap [mkFrame (bs "<root>") []] None None None [].

(* an error / signal / panic in the left operand propagates unchanged, for every operator *)
Theorem C05_binary_left_error : forall src funcs fz n l r op s e s1,
  eval_expr src funcs fz n l s = (e, s1) -> P.is_ok e = false ->
  eval_binary src funcs fz (S n) l r op s = (e, s1).
Proof. exact P.binary_left_error. Qed.
Print Assumptions C05_binary_left_error.

Example binary_left_error_ex :
  exists e s1, eval_expr ex_src [] false 3 ex_r ex_st = (Err e, s1) /\
               eval_binary ex_src [] false 4 ex_r ex_l ex_and ex_st = (Err e, s1).
Proof. eexists; eexists; split; vm_compute; reflexivity. Qed.

Theorem C05_and_short_circuit : forall src funcs fz n l r op s lc s1,
  bop_of (ttag op) = BAnd ->
  eval_expr src funcs fz n l s = (Ok lc, s1) ->
  (is_truthy (load (hp s1) lc) = false ->
     eval_binary src funcs fz (S n) l r op s = m_alloc (VBool false) s1) /\
  (is_truthy (load (hp s1) lc) = true ->
     eval_binary src funcs fz (S n) l r op s =
       match eval_expr src funcs fz n r s1 with
       | (Ok rc, s2) => m_alloc (VBool (is_truthy (load (hp s2) rc))) s2
       | other => other
       end).
Proof. exact P.and_short_circuit. Qed.
Print Assumptions C05_and_short_circuit.

(* 0 && 1/0: the right operand would be a runtime error; it is not evaluated *)
Example and_short_circuit_ex :
  bop_of (ttag ex_and) = BAnd /\
  eval_expr ex_src [] false 2 ex_l ex_st = (Ok 2%positive, snd (m_alloc pzero ex_st)) /\
  is_truthy (load (hp (snd (m_alloc pzero ex_st))) 2%positive) = false /\
  (exists e s', eval_expr ex_src [] false 3 ex_r ex_st = (Err e, s')) /\
  (let '(res, s') := eval_binary ex_src [] false 3 ex_l ex_r ex_and ex_st in
   res = Ok 3%positive /\ load (hp s') 3%positive = VBool false /\ io s' = []).
Proof.
  split; [reflexivity|]. split; [vm_compute; reflexivity|]. split; [vm_compute; reflexivity|].
  split; [eexists; eexists; vm_compute; reflexivity|]. vm_compute. repeat split; reflexivity.
Qed.

Theorem C05_or_short_circuit : forall src funcs fz n l r op s lc s1,
  bop_of (ttag op) = BOr ->
  eval_expr src funcs fz n l s = (Ok lc, s1) ->
  (is_truthy (load (hp s1) lc) = true ->
     eval_binary src funcs fz (S n) l r op s = m_alloc (VBool true) s1) /\
  (is_truthy (load (hp s1) lc) = false ->
     eval_binary src funcs fz (S n) l r op s =
       match eval_expr src funcs fz n r s1 with
       | (Ok rc, s2) => m_alloc (VBool (is_truthy (load (hp s2) rc))) s2
       | other => other
       end).
Proof. exact P.or_short_circuit. Qed.
Print Assumptions C05_or_short_circuit.

(* 0 || 1/0 does evaluate the right operand (and fails); 1 || 1/0 does not *)
Example or_short_circuit_ex :
  (exists e s', eval_binary ex_src [] false 4 ex_l ex_r (mkTok TPipePipe 1 2) ex_st = (Err e, s')) /\
  (let '(res, s') := eval_binary ex_src [] false 4 (ELit (mkTok TNum 3 1)) ex_r
                                 (mkTok TPipePipe 1 2) ex_st in
   res = Ok 3%positive /\ load (hp s') 3%positive = VBool true /\ io s' = []).
Proof. split; [eexists; eexists; vm_compute; reflexivity|]. vm_compute. repeat split; reflexivity. Qed.

(* the 13 value operators: left operand first, then the right operand in the state the left
   one produced, then the table decides on the values the two cells hold afterwards; the
   result is a fresh cell or a runtime error located by lift_vres; an error in the right
   operand propagates unchanged *)
Theorem C05_binary_left_then_right : forall src funcs fz n l r op s lc s1,
  value_op (bop_of (ttag op)) = true ->
  eval_expr src funcs fz n l s = (Ok lc, s1) ->
  eval_binary src funcs fz (S n) l r op s =
    match eval_expr src funcs fz n r s1 with
    | (Ok rc, s2) =>
        lift_vres src (binop_value (bop_of (ttag op)) (load (hp s2) lc) (load (hp s2) rc))
                  (expr_token l) op (expr_token r) s2
    | other => other
    end.
Proof. exact P.binary_left_then_right. Qed.
Print Assumptions C05_binary_left_then_right.

Theorem C05_binary_by_table : forall src funcs fz n l r op s lc s1,
  value_op (bop_of (ttag op)) = true ->
  eval_expr src funcs fz n l s = (Ok lc, s1) ->
  eval_binary src funcs fz (S n) l r op s =
    match eval_expr src funcs fz n r s1 with
    | (Ok rc, s2) =>
        lift_vres src (spec_binop (bop_of (ttag op)) (load (hp s2) lc) (load (hp s2) rc))
                  (expr_token l) op (expr_token r) s2
    | other => other
    end.
Proof. exact P.binary_by_table. Qed.
Print Assumptions C05_binary_by_table.

Example binary_by_table_hyp_ex :
  value_op (bop_of (ttag (mkTok TPlus 4 1))) = true /\
  exists lc s1, eval_expr (bs "0&&1+0") [] false 1 (ELit (mkTok TNum 3 1)) ex_st = (Ok lc, s1).
Proof. split; [reflexivity|]. eexists; eexists; vm_compute; reflexivity. Qed.

(* 1/0 : both operands evaluate, the table says error at the operator token (offset 4) *)
Example binary_left_then_right_ex :
  value_op (bop_of TDivide) = true /\
  (exists e s', eval_expr ex_src [] false 3 ex_r ex_st = (Err e, s') /\
                ecol e = 4%Z /\ ekind_of e = ERuntime /\ next (hp s') = 4%positive) /\
  (* "1+0" read from the same text with + for / : 1 *)
  (let '(res, s') := eval_binary (bs "0&&1+0") [] false 2 (ELit (mkTok TNum 3 1))
                                 (ELit (mkTok TNum 5 1)) (mkTok TPlus 4 1) ex_st in
   res = Ok 4%positive /\ load (hp s') 4%positive = num 1).
Proof.
  split; [reflexivity|]. split.
  - eexists; eexists; vm_compute; repeat split; reflexivity.
  - vm_compute. repeat split; reflexivity.
Qed.

Theorem C05_unary_by_table : forall src funcs fz n x op postfix s vc s1,
  value_uop (uop_of (ttag op)) = true ->
  eval_expr src funcs fz n x s = (Ok vc, s1) ->
  eval_unary src funcs fz (S n) x op postfix s =
    lift_vres src (spec_unop (uop_of (ttag op)) (load (hp s1) vc)) op op op s1.
Proof. exact P.unary_by_table. Qed.
Print Assumptions C05_unary_by_table.

Example unary_by_table_ex :
  let '(res, s') := eval_unary (bs "-0") [] false 2 (ELit (mkTok TNum 1 1)) (mkTok TMinus 0 1) false ex_st in
  res = Ok 3%positive /\ load (hp s') 3%positive = nzero.
Proof. vm_compute. repeat split; reflexivity. Qed.

Theorem C05_is_does_not_evaluate_right : forall src funcs fz n l r op s lc s1,
  bop_of (ttag op) = BIs ->
  eval_expr src funcs fz n l s = (Ok lc, s1) ->
  eval_binary src funcs fz (S n) l r op s =
    match r with
    | EId t =>
      match P.type_name_of src t with
      | Some tn => m_alloc (VBool (spec_is (load (hp s1) lc) tn)) s1
      | None => (Panic, s1)
      end
    | _ => rt_error src (expr_token r) s1
    end.
Proof. exact P.is_does_not_evaluate_right. Qed.
Print Assumptions C05_is_does_not_evaluate_right.

(* `1 is number`, `1 is x` (x stays undeclared: no variable is created) *)
Example is_ex :
  (let '(res, s') := eval_binary (bs "1 is number") [] false 2 (ELit (mkTok TNum 0 1))
                                 (EId (mkTok TIdent 5 6)) (mkTok TIs 2 2) ex_st in
   res = Ok 3%positive /\ load (hp s') 3%positive = VBool true /\ frames s' = frames ex_st) /\
  (let '(res, s') := eval_binary (bs "1 is x") [] false 2 (ELit (mkTok TNum 0 1))
                                 (EId (mkTok TIdent 5 1)) (mkTok TIs 2 2) ex_st in
   res = Ok 3%positive /\ load (hp s') 3%positive = VBool false /\ frames s' = frames ex_st).
Proof. vm_compute. repeat split; reflexivity. Qed.

(* ================================================================== 7. numeric literals *)

Theorem C05_literal_num : forall src funcs fz n t s text x,
  ttag t = TNum -> get_string src t = Some text ->
  ((exists a s', eval_expr src funcs fz (S n) (ELit t) s = (Ok a, s') /\ load (hp s') a = VNum x)
   <-> parse_float text = PFok x).
Proof. exact P.literal_num. Qed.
Print Assumptions C05_literal_num.

Theorem C05_literal_num_eq : forall src funcs fz n t s text,
  ttag t = TNum -> get_string src t = Some text ->
  eval_expr src funcs fz (S n) (ELit t) s =
    match parse_float text with
    | PFok x => m_alloc (VNum x) s
    | PFunsupported => (Unsupp, s)
    | PFrange _ | PFsyntax => rt_error src t s
    end.
Proof. exact P.literal_num_eq. Qed.
Print Assumptions C05_literal_num_eq.

Example literal_num_ex :
  get_string (bs "x=1.5e1;") (mkTok TNum 2 5) = Some (bs "1.5e1") /\
  parse_float (bs "1.5e1") = PFok (f_of_Z 15) /\
  (let '(res, s') := eval_expr (bs "x=1.5e1;") [] false 1 (ELit (mkTok TNum 2 5)) ex_st in
   res = Ok 2%positive /\ load (hp s') 2%positive = num 15).
Proof. vm_compute. repeat split; reflexivity. Qed.
