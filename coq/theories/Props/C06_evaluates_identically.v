(* C06 / C13 -- the semantic half: two writings of the same expression (minimal or full
   parentheses, any layout between the tokens) EVALUATE identically.

   Props/C06_syntax.v and Props/C13_lexer.v show that the two texts parse to ASTs with the
   same position-free tree.  Here: evaluation depends on an AST only through token TAGS and
   token TEXTS, never through positions -- positions only locate errors.

   Spec: Spec/AstEquiv.v ([expr_equiv], [stmt_equiv], [funcs_equiv], [program_equiv],
   [res_equiv], [state_equiv], [M_equiv], [outcome_equiv], [expr_result_equiv]).
   Proofs: Proofs/PosIndep.v (one induction on fuel over the 14 mutually recursive evaluator
   functions, both sides in lock step), Proofs/PosIndepBridge.v ([strip] -> [expr_equiv]),
   Proofs/AstEquivDec.v (a sound boolean checker for [program_equiv]). *)
From JQ Require Import Base.Bytes Num.F64 Syntax.Token Syntax.Lexer Syntax.Ast Syntax.Parser.
From JQ Require Import Json.JValue.
From JQ Require Import Gen.Generated Sem.Value Sem.Ops Sem.Natives Sem.Eval Sem.Driver.
From JQ Require Import Spec.AstEquiv Proofs.PosIndep Proofs.PosIndepBridge Proofs.AstEquivDec.
From JQ Require Import Proofs.SyntaxLex Proofs.Syntax.
From JQ Require Import Spec.PrecGrammar.
Open Scope nat_scope.

(* ================================================================== 1. the evaluator *)

(* ---- 1a. all 14 functions of the mutual block at once, from EQUIVALENT states
   ([M_equiv m1 m2]: equivalent start states give [res_equiv] outcomes -- equal, except that
   two errors need only be of the same kind -- and [state_equiv] final states -- equal heap,
   frames, roots and return cell; logs equal except for the tokens inside the ghost
   [IoSignalAt] events, which are compared by tag). *)
Theorem eval_pos_independent_all : forall src1 src2 fs1 fs2 fz,
  funcs_equiv src1 src2 fs1 fs2 -> forall n,
    (forall e1 e2, expr_equiv src1 src2 e1 e2 ->
        M_equiv (eval_expr src1 fs1 fz n e1) (eval_expr src2 fs2 fz n e2)) /\
    (forall t1 t2 sub cs1 cs2, Forall2 (case_equiv src1 src2) cs1 cs2 ->
        M_equiv (eval_match_cases src1 fs1 fz n t1 sub cs1) (eval_match_cases src2 fs2 fz n t2 sub cs2)) /\
    (forall sub ps1 ps2, Forall2 (expr_equiv src1 src2) ps1 ps2 -> pats_txt src1 src2 ps1 ps2 ->
        M_equiv (eval_case_match src1 fs1 fz n sub ps1) (eval_case_match src2 fs2 fz n sub ps2)) /\
    (forall tok1 tok2 fc args,
        M_equiv (call_function src1 fs1 fz n tok1 fc args) (call_function src2 fs2 fz n tok2 fc args)) /\
    (forall x1 x2 op1 op2 pf, expr_equiv src1 src2 x1 x2 -> tag_eq op1 op2 ->
        M_equiv (eval_unary src1 fs1 fz n x1 op1 pf) (eval_unary src2 fs2 fz n x2 op2 pf)) /\
    (forall l1 l2 r1 r2 op1 op2, expr_equiv src1 src2 l1 l2 -> tag_eq op1 op2 ->
        (ttag op1 <> TIs -> expr_equiv src1 src2 r1 r2) ->
        (ttag op1 = TIs -> is_rhs_equiv src1 src2 r1 r2) ->
        M_equiv (eval_binary src1 fs1 fz n l1 r1 op1) (eval_binary src2 fs2 fz n l2 r2 op2)) /\
    (forall es1 es2 c, Forall2 (expr_equiv src1 src2) es1 es2 ->
        M_equiv (eval_expr_list src1 fs1 fz n es1 c) (eval_expr_list src2 fs2 fz n es2 c)) /\
    (forall s1 s2, stmt_equiv src1 src2 s1 s2 ->
        M_equiv (eval_stmt src1 fs1 fz n s1) (eval_stmt src2 fs2 fz n s2)) /\
    (forall b1 b2, stmt_equiv src1 src2 b1 b2 ->
        M_equiv (eval_body src1 fs1 fz n b1) (eval_body src2 fs2 fz n b2)) /\
    (forall c1 c2 b1 b2 k, expr_equiv src1 src2 c1 c2 -> stmt_equiv src1 src2 b1 b2 ->
        M_equiv (eval_while src1 fs1 fz n c1 b1 k) (eval_while src2 fs2 fz n c2 b2 k)) /\
    (forall c1 c2 p1 p2 b1 b2 k, expr_equiv src1 src2 c1 c2 -> expr_equiv src1 src2 p1 p2 ->
        stmt_equiv src1 src2 b1 b2 ->
        M_equiv (eval_for src1 fs1 fz n c1 p1 b1 k) (eval_for src2 fs2 fz n c2 p2 b2 k)) /\
    (forall lo ix bid off len i b1 b2, stmt_equiv src1 src2 b1 b2 ->
        M_equiv (eval_forin_arr src1 fs1 fz n lo ix bid off len i b1)
                (eval_forin_arr src2 fs2 fz n lo ix bid off len i b2)) /\
    (forall lo ix oid keys b1 b2, stmt_equiv src1 src2 b1 b2 ->
        M_equiv (eval_forin_obj src1 fs1 fz n lo ix oid keys b1)
                (eval_forin_obj src2 fs2 fz n lo ix oid keys b2)) /\
    (forall lo ix rs b1 b2, stmt_equiv src1 src2 b1 b2 ->
        M_equiv (eval_forin_str src1 fs1 fz n lo ix rs b1)
                (eval_forin_str src2 fs2 fz n lo ix rs b2)).
Proof. exact PosIndep.eval_pos_independent_all. Qed.
Print Assumptions eval_pos_independent_all.

(* ---- 1b. expressions, from the same state *)
Theorem eval_pos_independent : forall src1 src2 fs1 fs2 fz,
  funcs_equiv src1 src2 fs1 fs2 -> forall n e1 e2, expr_equiv src1 src2 e1 e2 -> forall s,
  let '(r1, s1) := eval_expr src1 fs1 fz n e1 s in
  let '(r2, s2) := eval_expr src2 fs2 fz n e2 s in
  res_equiv r1 r2 /\ state_equiv s1 s2.
Proof. exact PosIndep.eval_pos_independent. Qed.
Print Assumptions eval_pos_independent.

(* 8 - 3 - 2  and  ( ( 8 - 3 ) - 2 ): equivalent but different ASTs, same cell, same heap *)
Definition ex_sub : sexpr := SBin TMinus (SBin TMinus (SNum (bs "8")) (SNum (bs "3"))) (SNum (bs "2")).
Definition ex_sub_e1 : expr :=
  EBin (EBin (ELit (mkTok TNum 0 1)) (ELit (mkTok TNum 4 1)) (mkTok TMinus 2 0))
       (ELit (mkTok TNum 8 1)) (mkTok TMinus 6 0).
Definition ex_sub_e2 : expr :=
  EBin (EBin (ELit (mkTok TNum 4 1)) (ELit (mkTok TNum 8 1)) (mkTok TMinus 6 0))
       (ELit (mkTok TNum 14 1)) (mkTok TMinus 12 0).
Example eval_pos_independent_ex :
  let src1 := bs "8 - 3 - 2" in
  let src2 := bs "( ( 8 - 3 ) - 2 )" in
  (exists q, parse_expression_src src1 = POk ex_sub_e1 q) /\
  (exists q, parse_expression_src src2 = POk ex_sub_e2 q) /\
  ex_sub_e1 <> ex_sub_e2 /\
  expr_equiv src1 src2 ex_sub_e1 ex_sub_e2 /\ funcs_equiv src1 src2 [] [] /\
  (let '(r1, s1) := eval_expr src1 [] false 20 ex_sub_e1 init_state in
   let '(r2, s2) := eval_expr src2 [] false 20 ex_sub_e2 init_state in
   r1 = r2 /\ s1 = s2 /\
   match r1 with Ok c => load (hp s1) c = VNum (f_of_Z 3) | _ => False end).
Proof.
  cbv zeta. split; [eexists; vm_compute; reflexivity|]. split; [eexists; vm_compute; reflexivity|].
  split; [discriminate|]. split; [unfold ex_sub_e1, ex_sub_e2; solve_equiv|]. split; [constructor|].
  vm_compute. repeat split.
Qed.

(* ---- 1c. statements *)
Theorem stmt_pos_independent : forall src1 src2 fs1 fs2 fz,
  funcs_equiv src1 src2 fs1 fs2 -> forall n s1 s2, stmt_equiv src1 src2 s1 s2 -> forall s,
  let '(r1, s1') := eval_stmt src1 fs1 fz n s1 s in
  let '(r2, s2') := eval_stmt src2 fs2 fz n s2 s in
  res_equiv r1 r2 /\ state_equiv s1' s2'.
Proof. exact PosIndep.stmt_pos_independent. Qed.
Print Assumptions stmt_pos_independent.

(* ---- 1d. the rule loops *)
Theorem rules_pos_independent : forall src1 src2 fs1 fs2 fz,
  funcs_equiv src1 src2 fs1 fs2 -> forall n rs1 rs2, Forall2 (rule_equiv src1 src2) rs1 rs2 ->
  M_equiv (eval_rules src1 fs1 fz n rs1) (eval_rules src2 fs2 fz n rs2).
Proof. exact PosIndep.rules_pos_independent. Qed.
Print Assumptions rules_pos_independent.

Theorem pattern_rules_pos_independent : forall src1 src2 fs1 fs2 fz,
  funcs_equiv src1 src2 fs1 fs2 -> forall n rs1 rs2, Forall2 (rule_equiv src1 src2) rs1 rs2 ->
  M_equiv (eval_pattern_rules src1 fs1 fz n rs1) (eval_pattern_rules src2 fs2 fz n rs2).
Proof. exact PosIndep.pattern_rules_pos_independent. Qed.
Print Assumptions pattern_rules_pos_independent.

(* ================================================================== 2. the driver *)

Theorem run_pos_independent : forall src1 src2 p1 p2 fz sels n files,
  program_equiv src1 src2 p1 p2 ->
  M_equiv (run_body src1 p1 fz sels n files) (run_body src2 p2 fz sels n files).
Proof. exact PosIndep.run_pos_independent. Qed.
Print Assumptions run_pos_independent.

(* same outcome class, same bytes on stdout, same JSON output, same heap *)
Theorem run_observables_equal : forall src1 src2 p1 p2 fz sels n files,
  program_equiv src1 src2 p1 p2 -> forall s,
  let '(r1, s1) := run_body src1 p1 fz sels n files s in
  let '(r2, s2) := run_body src2 p2 fz sels n files s in
  outcome_equiv (classify r1) (classify r2) /\
  output_of (io s1) = output_of (io s2) /\ get_root_json s1 = get_root_json s2 /\ hp s1 = hp s2.
Proof. exact PosIndep.run_observables_equal. Qed.
Print Assumptions run_observables_equal.

Theorem eval_program_pos_independent : forall n src1 src2 p1 q1 p2 q2 files sels fz,
  parse_program src1 = POk p1 q1 -> parse_program src2 = POk p2 q2 ->
  program_equiv src1 src2 p1 p2 ->
  run_result_equiv (eval_program n src1 files sels fz) (eval_program n src2 files sels fz).
Proof. exact PosIndep.eval_program_pos_independent. Qed.
Print Assumptions eval_program_pos_independent.

Theorem state_equiv_observables : forall s1 s2, state_equiv s1 s2 ->
  output_of (io s1) = output_of (io s2) /\ hp s1 = hp s2 /\ frames s1 = frames s2 /\
  get_root_json s1 = get_root_json s2.
Proof. exact PosIndep.state_equiv_observables. Qed.
Print Assumptions state_equiv_observables.

(* one program in two layouts (line ends, a comment, the other quote character, redundant
   parentheses): a function, a for-in loop, `continue`, a match expression *)
Definition ex_progA : bytes :=
  bs "function dbl(a) { return a * 2 } BEGIN { x = [1, 2, 3]; for (k, v in x) { if (v == 2) { continue } print match (v) { 1 => 'one', _ => dbl(v) - 1 } } }".
Definition ex_progB : bytes :=
  bs "function dbl(a) {" ++ [10%N] ++ bs "  return (a * 2)" ++ [10%N] ++ bs "}" ++ [10%N] ++
  bs "BEGIN {" ++ [10%N] ++ bs "  x = [1,2,3]   # three numbers" ++ [10%N] ++
  bs "  for (k, v in x) {" ++ [10%N] ++ bs "    if ((v) == 2) { continue }" ++ [10%N] ++
  bs "    print match (v) { 1 => ""one"", _ => (dbl(v)) - 1 }" ++ [10%N] ++ bs "  }" ++ [10%N] ++ bs "}" ++ [10%N].
Definition ex_astA := match parse_program ex_progA with POk p _ => p | _ => empty_program end.
Definition ex_astB := match parse_program ex_progB with POk p _ => p | _ => empty_program end.

Example run_pos_independent_ex :
  (exists q, parse_program ex_progA = POk ex_astA q) /\
  (exists q, parse_program ex_progB = POk ex_astB q) /\
  program_equiv ex_progA ex_progB ex_astA ex_astB /\
  let rA := eval_program 40 ex_progA [] [] false in
  let rB := eval_program 40 ex_progB [] [] false in
  r_outcome rA = OOk /\ r_outcome rB = OOk /\
  output_of (io (r_state rA)) = bs "-1" ++ [10%N] ++ bs "one" ++ [10%N] /\
  output_of (io (r_state rB)) = bs "-1" ++ [10%N] ++ bs "one" ++ [10%N] /\
  (* the two final states are equivalent but NOT equal: the ghost log remembers where the
     `continue` stood *)
  last_signal_token (io (r_state rA)) = Some (mkTok TContinue 88 0) /\
  last_signal_token (io (r_state rB)) = Some (mkTok TContinue 117 0).
Proof.
  split; [eexists; vm_compute; reflexivity|]. split; [eexists; vm_compute; reflexivity|].
  split.
  - let a := eval vm_compute in ex_astA in let b := eval vm_compute in ex_astB in
    change (program_equiv ex_progA ex_progB a b).
    solve_equiv.
  - vm_compute. repeat split.
Qed.

(* ---- a computable check: [program_equivb] (Proofs/AstEquivDec.v) compares two parsed
   programs node by node (tags, and texts where the evaluator reads them); it is sound, so
   two program texts that pass [same_program_upto_layout] behave alike on every input *)
Theorem program_equivb_sound : forall src1 src2 p1 p2,
  program_equivb src1 src2 p1 p2 = true -> program_equiv src1 src2 p1 p2.
Proof. exact AstEquivDec.program_equivb_sound. Qed.
Print Assumptions program_equivb_sound.

Theorem expr_equivb_sound : forall src1 src2 e1 e2,
  expr_equivb src1 src2 e1 e2 = true -> expr_equiv src1 src2 e1 e2.
Proof. exact AstEquivDec.expr_equivb_sound. Qed.
Print Assumptions expr_equivb_sound.

Theorem checked_programs_run_alike : forall src1 src2, same_program_upto_layout src1 src2 = true ->
  forall n files sels fz,
    run_result_equiv (eval_program n src1 files sels fz) (eval_program n src2 files sels fz).
Proof. exact AstEquivDec.checked_programs_run_alike. Qed.
Print Assumptions checked_programs_run_alike.

Example checked_programs_run_alike_ex :
  same_program_upto_layout ex_progA ex_progB = true /\
  (* a different grouping, a different name, a different literal are all told apart *)
  same_program_upto_layout (bs "{ print 8 - 3 - 2 }") (bs "{ print (8 - 3) - 2 }") = true /\
  same_program_upto_layout (bs "{ print 8 - 3 - 2 }") (bs "{ print 8 - (3 - 2) }") = false /\
  same_program_upto_layout (bs "{ print $.a }") (bs "{ print $.b }") = false /\
  same_program_upto_layout (bs "{ print 1.0 }") (bs "{ print 1 }") = false /\
  same_program_upto_layout (bs "{ print 'a' }") (bs "{ print ""a"" }") = true.
Proof. vm_compute. repeat split. Qed.

(* ================================================================== 3. the bridge *)

(* ---- 3a. the same position-free tree gives equivalent ASTs.  [strip] resolves number,
   string and identifier atoms (and the names after `.` and `is`) to their text and every
   operator to its tag; it does not record the text of `$`, true, false, null, `function`,
   nor of the operator tokens -- and the evaluator never asks for those. *)
Theorem strip_equiv : forall src1 src2 e1 e2 s,
  strip src1 e1 = Some s -> strip src2 e2 = Some s -> expr_equiv src1 src2 e1 e2.
Proof. exact PosIndepBridge.strip_equiv. Qed.
Print Assumptions strip_equiv.

Example strip_equiv_ex :
  strip (bs "8 - 3 - 2") ex_sub_e1 = Some ex_sub /\ strip (bs "( ( 8 - 3 ) - 2 )") ex_sub_e2 = Some ex_sub.
Proof. vm_compute. split; reflexivity. Qed.

(* ---- 3b. the exported EvalExpression on two texts with equivalent parses: same outcome
   class, same printed value, equivalent state *)
Theorem expression_api_pos_independent : forall n sel1 sel2 doc e1 q1 e2 q2,
  parse_expression_src sel1 = POk e1 q1 -> parse_expression_src sel2 = POk e2 q2 ->
  expr_equiv sel1 sel2 e1 e2 ->
  expr_result_equiv (eval_expression_api n sel1 doc) (eval_expression_api n sel2 doc).
Proof. exact PosIndep.expression_api_pos_independent. Qed.
Print Assumptions expression_api_pos_independent.

Theorem same_tree_evaluates_identically : forall n sel1 sel2 doc e1 q1 e2 q2 s,
  parse_expression_src sel1 = POk e1 q1 -> parse_expression_src sel2 = POk e2 q2 ->
  strip sel1 e1 = Some s -> strip sel2 e2 = Some s ->
  expr_result_equiv (eval_expression_api n sel1 doc) (eval_expression_api n sel2 doc).
Proof. exact PosIndepBridge.same_tree_evaluates_identically. Qed.
Print Assumptions same_tree_evaluates_identically.

Theorem expr_result_observables : forall x1 x2, expr_result_equiv x1 x2 ->
  outcome_equiv (x_outcome x1) (x_outcome x2) /\ x_pretty x1 = x_pretty x2 /\
  output_of (io (x_state x1)) = output_of (io (x_state x2)) /\ hp (x_state x1) = hp (x_state x2).
Proof. exact PosIndepBridge.expr_result_observables. Qed.
Print Assumptions expr_result_observables.

(* ================================================================== 4. C06 *)

(* an expression written without redundant parentheses evaluates identically to its fully
   parenthesised form: for every fuel and every input document *)
Theorem render_paren_evaluate_identically : forall e n doc, wf_sexpr e = true ->
  expr_result_equiv (eval_expression_api n (text_of (render e)) doc)
                    (eval_expression_api n (text_of (paren e)) doc).
Proof. exact PosIndepBridge.render_paren_evaluate_identically. Qed.
Print Assumptions render_paren_evaluate_identically.

Definition obs (x : expr_result) : outcome * option bytes * bytes :=
  (x_outcome x, x_pretty x, output_of (io (x_state x))).

Example render_paren_evaluate_identically_ex :
  wf_sexpr ex_sub = true /\
  text_of (render ex_sub) = bs "8 - 3 - 2" /\ text_of (paren ex_sub) = bs "( ( 8 - 3 ) - 2 )" /\
  obs (eval_expression_api 20 (bs "8 - 3 - 2") JNull) = (OOk, Some (bs "3"), []) /\
  obs (eval_expression_api 20 (bs "( ( 8 - 3 ) - 2 )") JNull) = (OOk, Some (bs "3"), []) /\
  (* the other grouping is a different expression *)
  obs (eval_expression_api 20 (bs "8 - ( 3 - 2 )") JNull) = (OOk, Some (bs "7"), []).
Proof. vm_compute. repeat split. Qed.

(* any two choices of redundant parentheses *)
Theorem print_evaluate_identically : forall force1 force2 e n doc, wf_sexpr e = true ->
  expr_result_equiv (eval_expression_api n (text_of (print force1 1 e)) doc)
                    (eval_expression_api n (text_of (print force2 1 e)) doc).
Proof. exact PosIndepBridge.print_evaluate_identically. Qed.
Print Assumptions print_evaluate_identically.

(* as a root selector inside a run: shared heap and output, any (equivalent) start states *)
Theorem render_paren_select_identically : forall e n doc, wf_sexpr e = true ->
  M_equiv (eval_selector n (text_of (render e)) doc) (eval_selector n (text_of (paren e)) doc).
Proof. exact PosIndepBridge.render_paren_select_identically. Qed.
Print Assumptions render_paren_select_identically.

(* a.b[0] * -c  on a document: member, index and unary operators *)
Definition ex_mix : sexpr :=
  SBin TMultiply (SIndex (SMember SDollar (bs "b")) (SNum (bs "0"))) (SPre TMinus (SMember SDollar (bs "c"))).
Definition ex_doc : jvalue := JObj [(bs "b", JArr [JNum (f_of_Z 6)]); (bs "c", JNum (f_of_Z 7))].
Example print_evaluate_identically_ex :
  wf_sexpr ex_mix = true /\
  text_of (render ex_mix) = bs "$ . b [ 0 ] * - $ . c" /\
  text_of (paren ex_mix) = bs "( ( ( $ . b ) [ 0 ] ) * ( - ( $ . c ) ) )" /\
  obs (eval_expression_api 30 (text_of (render ex_mix)) ex_doc) = (OOk, Some (bs "-42"), []) /\
  obs (eval_expression_api 30 (text_of (paren ex_mix)) ex_doc) = (OOk, Some (bs "-42"), []).
Proof. vm_compute. repeat split. Qed.

(* ================================================================== 5. C13 *)

(* any horizontal layout of the tokens *)
Theorem layout_evaluates_identically : forall force e items trail n doc, wf_sexpr e = true ->
  map snd items = print force 1 e -> gaps_ok true items = true -> forallb is_hws trail = true ->
  expr_result_equiv (eval_expression_api n (lay items trail) doc)
                    (eval_expression_api n (text_of (print force 1 e)) doc).
Proof. exact PosIndepBridge.layout_evaluates_identically. Qed.
Print Assumptions layout_evaluates_identically.

(* 1 / ( 2 - 2 ) + x : division by zero.  The two layouts report the error in different
   columns (and show different source lines) but it is the same runtime error; the error is
   raised before x is looked at *)
Definition ex_div : sexpr :=
  SBin TPlus (SBin TDivide (SNum (bs "1")) (SBin TMinus (SNum (bs "2")) (SNum (bs "2")))) (SIdent (bs "x")).
Definition ex_div_items : list (bytes * stoken) :=
  [([], KNum (bs "1")); ([32%N; 32%N; 9%N], KFix TDivide); ([32%N], KFix TLParen); ([32%N], KNum (bs "2"));
   ([32%N], KFix TMinus); ([32%N], KNum (bs "2")); ([32%N], KFix TRParen); ([32%N], KFix TPlus);
   ([32%N], KIdent (bs "x"))].
Example layout_evaluates_identically_ex :
  wf_sexpr ex_div = true /\ map snd ex_div_items = render ex_div /\ gaps_ok true ex_div_items = true /\
  text_of (render ex_div) = bs "1 / ( 2 - 2 ) + x" /\
  lay ex_div_items [] = bs "1  " ++ [9%N] ++ bs "/ ( 2 - 2 ) + x" /\
  obs (eval_expression_api 20 (text_of (render ex_div)) JNull) =
    (ORuntime (mkErr ERuntime 1 2 (bs "1 / ( 2 - 2 ) + x")), None, []) /\
  obs (eval_expression_api 20 (lay ex_div_items []) JNull) =
    (ORuntime (mkErr ERuntime 1 4 (bs "1  " ++ [9%N] ++ bs "/ ( 2 - 2 ) + x")), None, []) /\
  outcome_equiv (x_outcome (eval_expression_api 20 (text_of (render ex_div)) JNull))
                (x_outcome (eval_expression_api 20 (lay ex_div_items []) JNull)).
Proof. vm_compute. repeat split. Qed.

(* any layout with line ends and '#' comments in the gaps *)
Theorem gaps_evaluate_identically : forall force e items trail n doc, wf_sexpr e = true ->
  map snd items = print force 1 e -> Gaps true items -> is_gap trail ->
  expr_result_equiv (eval_expression_api n (lay items trail) doc)
                    (eval_expression_api n (text_of (print force 1 e)) doc).
Proof. exact PosIndepBridge.gaps_evaluate_identically. Qed.
Print Assumptions gaps_evaluate_identically.

(* the division on the second line, after a comment: the error moves to line 2 *)
Definition ex_div_gap_items : list (bytes * stoken) :=
  [([], KNum (bs "1")); ([32%N] ++ 35%N :: bs " one" ++ 10%N :: [32%N], KFix TDivide); ([32%N], KFix TLParen);
   ([32%N], KNum (bs "2")); ([32%N], KFix TMinus); ([32%N], KNum (bs "2")); ([32%N], KFix TRParen);
   ([32%N], KFix TPlus); ([] ++ 10%N :: [], KIdent (bs "x"))].
Example gaps_evaluate_identically_ex :
  wf_sexpr ex_div = true /\ map snd ex_div_gap_items = render ex_div /\ Gaps true ex_div_gap_items /\
  is_gap ([32%N] ++ 10%N :: []) /\
  match x_outcome (eval_expression_api 20 (lay ex_div_gap_items ([32%N] ++ 10%N :: [])) JNull) with
  | ORuntime e => eline e = 2 /\ esrcline e = bs " / ( 2 - 2 ) +"
  | _ => False
  end.
Proof.
  split; [reflexivity|]. split; [reflexivity|]. split; [|split].
  - unfold ex_div_gap_items. cbn [Gaps].
    repeat split; try reflexivity; try (left; reflexivity); try (right; discriminate).
    + apply gap_ws; reflexivity.
    + apply gap_cmt; [reflexivity|reflexivity|apply gap_ws; reflexivity].
    + apply gap_ws; reflexivity.
    + apply gap_ws; reflexivity.
    + apply gap_ws; reflexivity.
    + apply gap_ws; reflexivity.
    + apply gap_ws; reflexivity.
    + apply gap_ws; reflexivity.
    + apply gap_nl; [reflexivity|apply gap_ws; reflexivity].
  - apply gap_nl; [reflexivity|apply gap_ws; reflexivity].
  - vm_compute. split; reflexivity.
Qed.

(* two arbitrary layouts of two arbitrary parenthesisations of the same expression *)
Theorem any_two_writings_evaluate_identically :
  forall force1 force2 e items1 trail1 items2 trail2 n doc, wf_sexpr e = true ->
  map snd items1 = print force1 1 e -> Gaps true items1 -> is_gap trail1 ->
  map snd items2 = print force2 1 e -> Gaps true items2 -> is_gap trail2 ->
  expr_result_equiv (eval_expression_api n (lay items1 trail1) doc)
                    (eval_expression_api n (lay items2 trail2) doc).
Proof. exact PosIndepBridge.any_two_writings_evaluate_identically. Qed.
Print Assumptions any_two_writings_evaluate_identically.
(* non-vacuity: the instances of gaps_evaluate_identically_ex and layout_evaluates_identically_ex
   (gaps_ok implies Gaps: SyntaxLex.gaps_ok_Gaps) *)
