(* C06 -- precedence and associativity: an expression written without redundant
   parentheses denotes the same tree as its fully parenthesised form.
   Spec: Spec/PrecGrammar.v.  Proofs: Proofs/Syntax.v (parser), Proofs/SyntaxLex.v (lexer). *)
From JQ Require Import Base.Bytes Syntax.Token Syntax.Lexer Syntax.Ast Syntax.Parser Gen.Generated.
From JQ Require Import Spec.PrecGrammar Proofs.SyntaxLex Proofs.Syntax Proofs.SyntaxFuel.
Open Scope nat_scope.

(* ---- 1. the generated rule table is the documented table.
   For every token: same infix role, same level, same grouping (the threshold at which
   the right operand is parsed: level+1 = left grouping, level = right grouping), same set
   of prefix operators; the prefix operand threshold is the documented one; and the
   compound-assignment rewriting covers exactly += -= *= /=. *)
Theorem table_matches_spec :
  forallb table_row_ok all_tags = true /\
  prec_index PrecUnary = prefix_level /\
  (forall t, compound_base t <> None <-> (is_assign_op t = true /\ t <> TEqual)) /\
  (forall b, is_compound_base b = true -> compound_base (compound_tag b) = Some b).
Proof. exact Syntax.table_matches_spec. Qed.
Print Assumptions table_matches_spec.

Example table_matches_spec_ex :
  (* - is a left-grouping level-4 operator, = a right-grouping level-1 one, postfix ++ sits at 6 *)
  prec_of TMinus = 4 /\ model_right_level TMinus = 5 /\ spec_right_level TMinus = 5 /\
  prec_of TEqual = 1 /\ spec_right_level TEqual = 1 /\
  prec_of TPlusPlus = 6 /\ rinfix (rule_of TPlusPlus) = IfPostfix /\
  prec_of TLParen = 9 /\ prec_of TDot = 8.
Proof. vm_compute. repeat split. Qed.

(* ---- 2. main theorem: the minimal-parentheses rendering parses back to the expression
   (the parser's  l b= r  ->  l = l b r  rewriting is what [desugar] does; for expressions
   without compound assignment it is the identity, see parse_render_plain) *)
Theorem parse_render : forall e, wf_sexpr e = true ->
  exists e' st', parse_expression_src (text_of (render e)) = POk e' st' /\
                 strip (text_of (render e)) e' = Some (desugar e).
Proof. exact Syntax.parse_render. Qed.
Print Assumptions parse_render.

Theorem parse_render_plain : forall e, wf_sexpr e = true -> no_compound e = true ->
  exists e' st', parse_expression_src (text_of (render e)) = POk e' st' /\
                 strip (text_of (render e)) e' = Some e.
Proof. exact Syntax.parse_render_plain. Qed.
Print Assumptions parse_render_plain.

(* 8 - 3 - 2  groups to the left *)
Definition ex_sub : sexpr := SBin TMinus (SBin TMinus (SNum (bs "8")) (SNum (bs "3"))) (SNum (bs "2")).
Example parse_render_ex1 :
  wf_sexpr ex_sub = true /\ no_compound ex_sub = true /\
  text_of (render ex_sub) = bs "8 - 3 - 2" /\
  text_of (paren ex_sub) = bs "( ( 8 - 3 ) - 2 )" /\
  match parse_expression_src (bs "8 - 3 - 2") with
  | POk e' _ => strip (bs "8 - 3 - 2") e' = Some ex_sub
  | _ => False
  end.
Proof. vm_compute. repeat split. Qed.

(* the other grouping needs its parentheses *)
Definition ex_sub_r : sexpr := SBin TMinus (SNum (bs "8")) (SBin TMinus (SNum (bs "3")) (SNum (bs "2"))).
Example parse_render_ex1r :
  wf_sexpr ex_sub_r = true /\ text_of (render ex_sub_r) = bs "8 - ( 3 - 2 )" /\
  match parse_expression_src (bs "8 - ( 3 - 2 )") with
  | POk e' _ => strip (bs "8 - ( 3 - 2 )") e' = Some ex_sub_r
  | _ => False
  end.
Proof. vm_compute. repeat split. Qed.

(* !a.b[1](x) * -c : suffixes bind tighter than prefixes, prefixes tighter than * *)
Definition ex_mix : sexpr :=
  SBin TMultiply
    (SPre TBang (SCall (SIndex (SMember (SIdent (bs "a")) (bs "b")) (SNum (bs "1"))) [SIdent (bs "x")]))
    (SPre TMinus (SIdent (bs "c"))).
Example parse_render_ex2 :
  wf_sexpr ex_mix = true /\ no_compound ex_mix = true /\
  text_of (render ex_mix) = bs "! a . b [ 1 ] ( x ) * - c" /\
  text_of (paren ex_mix) = bs "( ( ! ( ( ( a . b ) [ 1 ] ) ( x ) ) ) * ( - c ) )" /\
  match parse_expression_src (bs "! a . b [ 1 ] ( x ) * - c") with
  | POk e' _ => strip (bs "! a . b [ 1 ] ( x ) * - c") e' = Some ex_mix
  | _ => False
  end.
Proof. vm_compute. repeat split. Qed.

(* ---- 3. the fully parenthesised rendering parses to the same expression *)
Theorem parse_paren : forall e, wf_sexpr e = true ->
  exists e' st', parse_expression_src (text_of (paren e)) = POk e' st' /\
                 strip (text_of (paren e)) e' = Some (desugar e).
Proof. exact Syntax.parse_paren. Qed.
Print Assumptions parse_paren.

Example parse_paren_ex :
  wf_sexpr ex_mix = true /\
  match parse_expression_src (text_of (paren ex_mix)) with
  | POk e' _ => strip (text_of (paren ex_mix)) e' = Some ex_mix
  | _ => False
  end.
Proof. vm_compute. repeat split. Qed.

(* ---- 4. C06 itself: both texts parse, to the same position-free tree *)
Theorem render_paren_same_tree : forall e, wf_sexpr e = true ->
  exists e1 st1 e2 st2,
    parse_expression_src (text_of (render e)) = POk e1 st1 /\
    parse_expression_src (text_of (paren e)) = POk e2 st2 /\
    strip (text_of (render e)) e1 = strip (text_of (paren e)) e2 /\
    strip (text_of (render e)) e1 = Some (desugar e).
Proof. exact Syntax.render_paren_same_tree. Qed.
Print Assumptions render_paren_same_tree.

(* a = b += 1 : assignment groups to the right, and b += 1 is b = b + 1 *)
Definition ex_asg : sexpr := SAssign (SIdent (bs "a")) (SCompound TPlus (SIdent (bs "b")) (SNum (bs "1"))).
Example render_paren_same_tree_ex :
  wf_sexpr ex_asg = true /\
  text_of (render ex_asg) = bs "a = b += 1" /\
  text_of (paren ex_asg) = bs "( a = ( b += 1 ) )" /\
  match parse_expression_src (bs "a = b += 1"), parse_expression_src (bs "( a = ( b += 1 ) )") with
  | POk e1 _, POk e2 _ =>
    strip (bs "a = b += 1") e1 = strip (bs "( a = ( b += 1 ) )") e2 /\
    strip (bs "a = b += 1") e1 =
      Some (SAssign (SIdent (bs "a"))
             (SAssign (SIdent (bs "b")) (SBin TPlus (SIdent (bs "b")) (SNum (bs "1")))))
  | _, _ => False
  end.
Proof. vm_compute. repeat split. Qed.

(* ---- 5. stronger form: ANY choice of extra parentheses ([force] says where) gives the
   same tree -- "parentheses override everything" and redundant ones are harmless *)
Theorem parse_print : forall force e, wf_sexpr e = true ->
  exists e' st', parse_expression_src (text_of (print force 1 e)) = POk e' st' /\
                 strip (text_of (print force 1 e)) e' = Some (desugar e).
Proof. exact Syntax.parse_print. Qed.
Print Assumptions parse_print.

Example parse_print_ex :
  let force := fun e => match e with SPre _ _ => true | _ => false end in
  text_of (print force 1 ex_mix) = bs "( ! a . b [ 1 ] ( x ) ) * ( - c )" /\
  match parse_expression_src (text_of (print force 1 ex_mix)) with
  | POk e' _ => strip (text_of (print force 1 ex_mix)) e' = Some ex_mix
  | _ => False
  end.
Proof. vm_compute. repeat split. Qed.

(* ---- 5b. the same under any horizontal layout of the tokens (gaps of spaces, tabs, CRs;
   [items] pairs each token with the gap in front of it, [trail] is trailing space) *)
Theorem parse_print_layout : forall force e items trail, wf_sexpr e = true ->
  map snd items = print force 1 e -> gaps_ok true items = true -> forallb is_hws trail = true ->
  exists e' st', parse_expression_src (lay items trail) = POk e' st' /\
                 strip (lay items trail) e' = Some (desugar e).
Proof. exact Syntax.parse_print_layout. Qed.
Print Assumptions parse_print_layout.

Example parse_print_layout_ex :
  let items := [([], KNum (bs "8")); ([9%N], KFix TMinus); ([32%N; 32%N], KNum (bs "3"));
                ([32%N], KFix TMinus); ([13%N], KNum (bs "2"))] in
  map snd items = render ex_sub /\ gaps_ok true items = true /\
  match parse_expression_src (lay items [32%N]) with
  | POk e' _ => strip (lay items [32%N]) e' = Some ex_sub
  | _ => False
  end.
Proof. vm_compute. repeat split. Qed.

(* ---- 5c. ... and under any layout with line ends and '#' comments in the gaps *)
Theorem parse_print_gaps : forall force e items trail, wf_sexpr e = true ->
  map snd items = print force 1 e -> Gaps true items -> is_gap trail ->
  exists e' st', parse_expression_src (lay items trail) = POk e' st' /\
                 strip (lay items trail) e' = Some (desugar e).
Proof. exact Syntax.parse_print_gaps. Qed.
Print Assumptions parse_print_gaps.
(* non-vacuity: Example expr_gaps_insensitive_ex in Props/C13_lexer.v *)

(* ---- 6. compound assignment is assignment of the binary operation *)
Theorem compound_desugar : forall b l r, wf_sexpr (SCompound b l r) = true ->
  exists e' st', parse_expression_src (text_of (render (SCompound b l r))) = POk e' st' /\
    strip (text_of (render (SCompound b l r))) e' =
      Some (SAssign (desugar l) (SBin b (desugar l) (desugar r))).
Proof. exact Syntax.compound_desugar. Qed.
Print Assumptions compound_desugar.

Example compound_desugar_ex :
  let e := SCompound TMultiply (SMember (SIdent (bs "x")) (bs "n")) (SBin TPlus (SNum (bs "2")) (SNum (bs "3"))) in
  wf_sexpr e = true /\ text_of (render e) = bs "x . n *= 2 + 3" /\
  match parse_expression_src (bs "x . n *= 2 + 3") with
  | POk e' _ => strip (bs "x . n *= 2 + 3") e' =
      Some (SAssign (SMember (SIdent (bs "x")) (bs "n"))
             (SBin TMultiply (SMember (SIdent (bs "x")) (bs "n")) (SBin TPlus (SNum (bs "2")) (SNum (bs "3")))))
  | _ => False
  end.
Proof. vm_compute. repeat split. Qed.

(* ---- 7. fuel: [parse_fuel src] is only a bound.  Any fuel with which a parser function
   answers at all (POk, PErr or PPanic) gives the answer every larger fuel gives.
   (The theorems above are stated with the model's own fuel and do not depend on this.) *)

Theorem fuel_mono : forall n m src r, n <= m ->
  parse_expression_fuel n src = r -> r <> PFuel -> parse_expression_fuel m src = r.
Proof. exact SyntaxFuel.fuel_mono_expr. Qed.
Print Assumptions fuel_mono.

Theorem fuel_mono_program : forall n m src r, n <= m ->
  parse_program_fuel n src = r -> r <> PFuel -> parse_program_fuel m src = r.
Proof. exact SyntaxFuel.fuel_mono_program. Qed.
Print Assumptions fuel_mono_program.

Example fuel_mono_ex :
  (* 5 units are not enough for 8 - 3 - 2, 6 are, and then 280 give the same *)
  parse_expression_fuel 3 (bs "8 - 3 - 2") = PFuel /\
  parse_expression_fuel 6 (bs "8 - 3 - 2") <> PFuel /\
  parse_expression_fuel 6 (bs "8 - 3 - 2") = parse_expression_src (bs "8 - 3 - 2") /\
  parse_program_fuel 8 (bs "{ print 1 + }") = PErr 12 /\
  parse_program_fuel 8 (bs "{ print 1 + }") = parse_program (bs "{ print 1 + }").
Proof. vm_compute. repeat split. discriminate. Qed.
