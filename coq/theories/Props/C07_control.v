(* Props/C07_control.v -- C07: if/else, while, the three-clause for, for-in and
   break / continue / return / next / exit execute statements in exactly the order the
   documented semantics (README "Statements") prescribe, for every nesting.

   The laws are EQUATIONS between computations of the model ([=m=]: same outcome and same
   final state from every state) or between a statement evaluated with fuel [S n] and
   its parts evaluated with the fuel the model passes on; they hold for ALL bodies,
   conditions, states and fuels.  Vocabulary: Spec/ControlLaws.v.  Proofs: Proofs/Control.v. *)
From JQ Require Import Base.Bytes Num.F64 Syntax.Token Syntax.Lexer Syntax.Ast Syntax.Parser.
From JQ Require Import Json.JValue Oracle.Utf8.
From JQ Require Import Gen.Generated Sem.Value Sem.Ops Sem.Natives Sem.Eval Sem.Driver.
From JQ Require Import Spec.ControlLaws Proofs.Control.
Open Scope nat_scope.

(* ------------------------------------------------------------------ example harness *)

Definition lines (l : list string) : bytes := concat (map (fun s => bs s ++ [10%N]) l).
(* outcome and everything printed by a program without input *)
Definition run (s : string) : outcome * bytes :=
  let r := eval_program 3000 (bs s) [] [] false in (r_outcome r, output_of (io (r_state r))).
Definition prints (s : string) (out : list string) : Prop := run s = (OOk, lines out).

(* the statements of the first rule's block / of the first function's body *)
Definition stmts_of (s : stmt) : list stmt := match s with SBlock _ l => l | _ => [] end.
Definition first_rule_stmts (src : string) : list stmt :=
  match parse_program (bs src) with
  | POk prog _ => match prules prog with r :: _ => stmts_of (rbody r) | [] => [] end
  | _ => []
  end.
Definition stmt1 (src : string) : stmt := nth 0 (first_rule_stmts src) (SBlock zero_token []).
(* a state with the <root> frame and the built-in functions *)
Definition st0 (src : string) : st := snd (new_evaluator (bs src) [] init_state).
(* run a statement of a source text in that state *)
Definition exec_stmt (src : string) (s : stmt) (s0 : st) : res unit * st :=
  eval_stmt (bs src) [] false 200 s s0.
Definition lookup (src : string) (x : string) (s : st) : option value :=
  match lookup_frames (frames s) (bs x) with Some a => Some (load (hp s) a) | None => None end.

Section C07.
  Variable src : bytes.
  Variable funcs : list func.
  Variable fuzzing : bool.

  Notation ES := (eval_stmt src funcs fuzzing).
  Notation EE := (eval_expr src funcs fuzzing).
  Notation EB := (eval_body src funcs fuzzing).
  Notation EW := (eval_while src funcs fuzzing).
  Notation EF := (eval_for src funcs fuzzing).
  Notation cond c b n := (cond_is src funcs fuzzing n c b).

  (* ================================================================ blocks *)

  Theorem block_nil : forall n t, ES (S n) (SBlock t []) =m= ret tt.
  Proof. exact (block_nil src funcs fuzzing). Qed.

  (* run the first statement, then the rest: [bind] stops at the first non-Ok outcome *)
  Theorem block_seq : forall n t x rest,
    ES (S n) (SBlock t (x :: rest)) =m= (ES n x ;;; ES (S n) (SBlock t rest)).
  Proof. exact (block_seq src funcs fuzzing). Qed.

  Theorem block_stops : forall n t x rest st r st',
    ES n x st = (r, st') -> r <> Ok tt -> ES (S n) (SBlock t (x :: rest)) st = (r, st').
  Proof. exact (block_stops src funcs fuzzing). Qed.

  (* ================================================================ if / else *)

  Theorem if_eq : forall n c body els,
    ES (S n) (SIf c body els) =m=
    (let* t := truth_of (EE n c) in
     if t then ES n body else match els with Some e => ES n e | None => ret tt end).
  Proof. exact (if_eq src funcs fuzzing). Qed.

  Theorem if_true : forall n c body els st st1,
    cond c true n st st1 -> ES (S n) (SIf c body els) st = ES n body st1.
  Proof. exact (if_true src funcs fuzzing). Qed.

  Theorem if_false_else : forall n c body e st st1,
    cond c false n st st1 -> ES (S n) (SIf c body (Some e)) st = ES n e st1.
  Proof. exact (if_false_else src funcs fuzzing). Qed.

  Theorem if_false_noelse : forall n c body st st1,
    cond c false n st st1 -> ES (S n) (SIf c body None) st = (Ok tt, st1).
  Proof. exact (if_false_noelse src funcs fuzzing). Qed.

  (* ================================================================ one body execution *)

  (* completed / continue -> go on; break -> stop; anything else leaves the loop unchanged *)
  Theorem loop_body_outcome : forall n body, EB (S n) body =m= run_body (ES n body).
  Proof. exact (eval_body_eq src funcs fuzzing). Qed.

  (* ================================================================ while *)

  Theorem while_stmt : forall n c body, ES (S n) (SWhile c body) =m= EW n c body 0.
  Proof. exact (while_stmt src funcs fuzzing). Qed.

  Theorem while_unroll : forall n c body k,
    EW (S n) c body k =m=
    (let* t := truth_of (EE n c) in
     if t then
       let* go := EB n body in
       if go then
         if loop_limit_hit fuzzing k then rt_error src (expr_token c)
         else EW n c body (S k)
       else ret tt
     else ret tt).
  Proof. exact (while_unroll src funcs fuzzing). Qed.

  Theorem while_false_noop : forall n c body k st st1,
    cond c false n st st1 -> EW (S n) c body k st = (Ok tt, st1).
  Proof. exact (while_false_noop src funcs fuzzing). Qed.

  Theorem while_body_break : forall n c body k st st1 st2,
    cond c true (S n) st st1 ->
    ES n body st1 = (Sig SigBreak, st2) ->
    EW (S (S n)) c body k st = (Ok tt, st2).
  Proof. exact (while_body_break src funcs fuzzing). Qed.

  Theorem while_body_goes_on : forall n c body k st st1 r st2,
    cond c true (S n) st st1 ->
    ES n body st1 = (r, st2) -> r = Ok tt \/ r = Sig SigContinue ->
    EW (S (S n)) c body k st =
    (if loop_limit_hit fuzzing k then rt_error src (expr_token c) st2
     else EW (S n) c body (S k) st2).
  Proof. exact (while_body_goes_on src funcs fuzzing). Qed.

  (* return / next / exit signals, errors, panics leave the loop unchanged *)
  Theorem while_propagates : forall n c body k st st1 r st2,
    cond c true (S n) st st1 ->
    ES n body st1 = (r, st2) -> escapes r ->
    EW (S (S n)) c body k st = (r, st2).
  Proof. exact (while_body_escapes src funcs fuzzing). Qed.

  (* ================================================================ for (pre; cond; post) *)

  Theorem for_desugar : forall n pre c post body,
    ES (S n) (SFor pre c post body) =m= (let* _ := EE n pre in EF n c post body 0).
  Proof. exact (for_desugar src funcs fuzzing). Qed.

  Theorem for_unroll : forall n c post body k,
    EF (S n) c post body k =m=
    (let* t := truth_of (EE n c) in
     if t then
       let* go := EB n body in
       if go then
         let* _ := EE n post in
         if loop_limit_hit fuzzing k then rt_error src (expr_token c)
         else EF n c post body (S k)
       else ret tt
     else ret tt).
  Proof. exact (for_unroll src funcs fuzzing). Qed.

  Theorem for_pre_error_propagates : forall n pre c post body st r st1,
    EE n pre st = (r, st1) -> (forall a, r <> Ok a) ->
    ES (S n) (SFor pre c post body) st = (cast_res r, st1).
  Proof. exact (for_pre_error_propagates src funcs fuzzing). Qed.

  (* after a completed and after a continued iteration: post, then the next iteration *)
  Theorem for_post_after_continue : forall n c post body k st st1 r st2,
    cond c true (S n) st st1 ->
    ES n body st1 = (r, st2) -> r = Ok tt \/ r = Sig SigContinue ->
    EF (S (S n)) c post body k st =
    (let* _ := EE (S n) post in
     if loop_limit_hit fuzzing k then rt_error src (expr_token c)
     else EF (S n) c post body (S k)) st2.
  Proof. exact (for_post_after_iteration src funcs fuzzing). Qed.

  (* after break: the state the body left, post not evaluated *)
  Theorem for_no_post_after_break : forall n c post body k st st1 st2,
    cond c true (S n) st st1 ->
    ES n body st1 = (Sig SigBreak, st2) ->
    EF (S (S n)) c post body k st = (Ok tt, st2).
  Proof. exact (for_no_post_after_break src funcs fuzzing). Qed.

  Theorem for_propagates : forall n c post body k st st1 r st2,
    cond c true (S n) st st1 ->
    ES n body st1 = (r, st2) -> escapes r ->
    EF (S (S n)) c post body k st = (r, st2).
  Proof. exact (for_body_escapes src funcs fuzzing). Qed.

  (* ================================================================ for-in *)

  (* the statement: loop variable resolved, index variable resolved, THEN the iterable
     evaluated (forin_header), then the fold over the bindings of the items *)
  Theorem forin_stmt : forall n id ix iter body,
    ES (S n) (SForIn id ix iter body) =m= forin_spec src funcs fuzzing n id ix iter body.
  Proof. exact (forin_stmt src funcs fuzzing). Qed.

  Theorem forin_variables_before_iterable : forall n id ix iter body st r st1,
    resolve_var src id id st = (r, st1) -> (forall a, r <> Ok a) ->
    ES (S n) (SForIn id ix iter body) st = (cast_res r, st1).
  Proof. exact (forin_var_failure_first src funcs fuzzing). Qed.

  Theorem forin_index_before_iterable : forall n id ix iter body st local st1 r st2,
    resolve_var src id id st = (Ok local, st1) ->
    resolve_index src ix id st1 = (r, st2) -> (forall a, r <> Ok a) ->
    ES (S n) (SForIn id ix iter body) st = (cast_res r, st2).
  Proof. exact (forin_index_failure_second src funcs fuzzing). Qed.

  (* the three loops of the model are the generic fold, for any body *)
  Theorem forin_array_fold : forall n local ix bid off len i body,
    eval_forin_arr src funcs fuzzing n local ix bid off len i body =m=
    forin_fold (arr_setup local ix bid off) (fun k => EB k body) n (seq i (len - i)).
  Proof. exact (forin_array_fold src funcs fuzzing). Qed.

  Theorem forin_object_fold : forall n local ix oid keys body,
    eval_forin_obj src funcs fuzzing n local ix oid keys body =m=
    forin_fold (obj_setup local ix oid) (fun k => EB k body) n keys.
  Proof. exact (forin_object_fold src funcs fuzzing). Qed.

  Theorem forin_string_fold : forall n local ix rs body,
    eval_forin_str src funcs fuzzing n local ix rs body =m=
    forin_fold (str_setup local ix) (fun k => EB k body) n rs.
  Proof. exact (forin_string_fold src funcs fuzzing). Qed.

  Theorem forin_over_array : forall n id ix iter body st local st1 ixlocal st2 ic st3 bid off len,
    resolve_var src id id st = (Ok local, st1) ->
    resolve_index src ix id st1 = (Ok ixlocal, st2) ->
    EE n iter st2 = (Ok ic, st3) ->
    load (hp st3) ic = VArr bid off len ->
    ES (S n) (SForIn id ix iter body) st =
    forin_fold (arr_setup local ixlocal bid off) (fun k => EB k body) n (seq 0 len) st3.
  Proof. exact (forin_over_array src funcs fuzzing). Qed.

  (* keys in the order of the object's association list *)
  Theorem forin_over_object : forall n id ix iter body st local st1 ixlocal st2 ic st3 oid,
    resolve_var src id id st = (Ok local, st1) ->
    resolve_index src ix id st1 = (Ok ixlocal, st2) ->
    EE n iter st2 = (Ok ic, st3) ->
    load (hp st3) ic = VObj oid ->
    ES (S n) (SForIn id ix iter body) st =
    forin_fold (obj_setup local ixlocal oid) (fun k => EB k body) n
               (map fst (get_obj (hp st3) oid)) st3.
  Proof. exact (forin_over_object src funcs fuzzing). Qed.

  (* each UTF-8 character (an invalid byte as U+FFFD) with its byte offset *)
  Theorem forin_over_string : forall n id ix iter body st local st1 ixlocal st2 ic st3 str,
    resolve_var src id id st = (Ok local, st1) ->
    resolve_index src ix id st1 = (Ok ixlocal, st2) ->
    EE n iter st2 = (Ok ic, st3) ->
    load (hp st3) ic = VStr str ->
    ES (S n) (SForIn id ix iter body) st =
    forin_fold (str_setup local ixlocal) (fun k => EB k body) n (runes str) st3.
  Proof. exact (forin_over_string src funcs fuzzing). Qed.

  Theorem forin_not_iterable : forall n id ix iter body st local st1 ixlocal st2 ic st3,
    resolve_var src id id st = (Ok local, st1) ->
    resolve_index src ix id st1 = (Ok ixlocal, st2) ->
    EE n iter st2 = (Ok ic, st3) ->
    iterable (load (hp st3) ic) = false ->
    ES (S n) (SForIn id ix iter body) st = rt_error src (expr_token iter) st3.
  Proof. exact (forin_not_iterable src funcs fuzzing). Qed.

  (* one iteration, by the outcome of the body (any of the three kinds of loop) *)
  Theorem forin_body_break : forall {A} (setup : A -> M unit) n x rest body s s1 s2,
    setup x s = (Ok tt, s1) ->
    ES n body s1 = (Sig SigBreak, s2) ->
    forin_fold setup (fun k => EB k body) (S (S n)) (x :: rest) s = (Ok tt, s2).
  Proof. exact (@forin_body_break src funcs fuzzing). Qed.

  Theorem forin_body_goes_on : forall {A} (setup : A -> M unit) n x rest body s s1 r s2,
    setup x s = (Ok tt, s1) ->
    ES n body s1 = (r, s2) -> r = Ok tt \/ r = Sig SigContinue ->
    forin_fold setup (fun k => EB k body) (S (S n)) (x :: rest) s =
    forin_fold setup (fun k => EB k body) (S n) rest s2.
  Proof. exact (@forin_body_goes_on src funcs fuzzing). Qed.

  Theorem forin_propagates : forall {A} (setup : A -> M unit) n x rest body s s1 r s2,
    setup x s = (Ok tt, s1) ->
    ES n body s1 = (r, s2) -> escapes r ->
    forin_fold setup (fun k => EB k body) (S (S n)) (x :: rest) s = (r, s2).
  Proof. exact (@forin_body_escapes src funcs fuzzing). Qed.

  (* every element exactly once, in order: the statement is a run of the counting relation
     over its bindings; the visited items are an initial segment; all of them when the loop
     is not cut short *)
  Theorem forin_once_in_order : forall n id ix iter body st bindings st1,
    forin_header src funcs fuzzing n id ix iter st = (Ok bindings, st1) ->
    exists vis why,
      loop_run (fun b : M unit => b) (fun k => EB k body) n bindings st1 vis why
               (ES (S n) (SForIn id ix iter body) st) /\
      (exists rest, bindings = vis ++ rest) /\
      (why = Completed -> vis = bindings /\ fst (ES (S n) (SForIn id ix iter body) st) = Ok tt).
  Proof. exact (forin_once_in_order src funcs fuzzing). Qed.

  Theorem forin_array_once_in_order : forall n local ix bid off len body s,
    exists vis why,
      loop_run (arr_setup local ix bid off) (fun k => EB k body) n (seq 0 len) s vis why
               (eval_forin_arr src funcs fuzzing n local ix bid off len 0 body s) /\
      (exists m, m <= len /\ vis = seq 0 m) /\
      (why = Completed -> vis = seq 0 len /\ length vis = len).
  Proof. exact (forin_array_once_in_order src funcs fuzzing). Qed.

  (* ================================================================ break / continue stay inside *)

  Theorem loop_absorbs_break_continue : forall n s st x st',
    is_loop s -> ES n s st = (Sig x, st') -> x = SigBreak \/ x = SigContinue ->
    exists e m s0, In e (loop_headers s) /\ EE m e s0 = (Sig x, st').
  Proof. exact (loop_absorbs_break_continue src funcs fuzzing). Qed.

  Theorem loop_never_breaks_out : forall n s st x st',
    is_loop s ->
    (forall e m s0 y s1, In e (loop_headers s) -> EE m e s0 = (Sig y, s1) ->
                         ~ (y = SigBreak \/ y = SigContinue)) ->
    ES n s st = (Sig x, st') -> ~ (x = SigBreak \/ x = SigContinue).
  Proof. exact (loop_never_breaks_out src funcs fuzzing). Qed.

  (* ================================================================ return / next / exit *)

  Theorem escape_leaves_nesting : forall n s st r st',
    escapes r -> escape_path src funcs fuzzing n s st r st' -> ES n s st = (r, st').
  Proof. exact (escape_leaves_nesting src funcs fuzzing). Qed.

  Theorem call_user_eq : forall n tok fc args s idx fn,
    load (hp s) fc = VFn idx -> nth_error funcs idx = Some fn ->
    call_function src funcs fuzzing (S n) tok fc args s =
    call_user_spec src funcs fuzzing n tok fn args s.
  Proof. exact (call_user_eq src funcs fuzzing). Qed.

  Theorem call_never_returns_signal : forall n tok fn args s s',
    call_user_spec src funcs fuzzing n tok fn args s <> (Sig SigReturn, s').
  Proof. exact (call_never_returns_signal src funcs fuzzing). Qed.

  Theorem call_absorbs_return : forall n tok fc args s idx fn s1 s2 s3,
    load (hp s) fc = VFn idx -> nth_error funcs idx = Some fn ->
    enter_call src fn args s = (Ok true, s1) ->
    ES n (fbody fn) s1 = (Sig SigReturn, s2) ->
    pop_frame s2 = (Ok tt, s3) ->
    call_function src funcs fuzzing (S n) tok fc args s =
    (Ok (next (hp s3)),
     mkSt (snd (alloc (hp s3) (match retval s3 with
                                | Some rc => load (hp s3) rc | None => VNil None end)))
          (frames s3) (rule_root s3) (root s3) (retval s3) (io s3)).
  Proof. exact (call_absorbs_return src funcs fuzzing). Qed.

  Theorem call_falls_off_end : forall n tok fc args s idx fn s1 s2 s3,
    load (hp s) fc = VFn idx -> nth_error funcs idx = Some fn ->
    enter_call src fn args s = (Ok true, s1) ->
    ES n (fbody fn) s1 = (Ok tt, s2) ->
    pop_frame s2 = (Ok tt, s3) ->
    call_function src funcs fuzzing (S n) tok fc args s = nil_cell s3.
  Proof. exact (call_falls_off_end src funcs fuzzing). Qed.

  Theorem return_leaves_loops : forall n tok fc args s idx fn s1 s2 s3,
    load (hp s) fc = VFn idx -> nth_error funcs idx = Some fn ->
    enter_call src fn args s = (Ok true, s1) ->
    escape_path src funcs fuzzing n (fbody fn) s1 (Sig SigReturn) s2 ->
    pop_frame s2 = (Ok tt, s3) ->
    call_function src funcs fuzzing (S n) tok fc args s =
    (Ok (next (hp s3)),
     mkSt (snd (alloc (hp s3) (match retval s3 with
                                | Some rc => load (hp s3) rc | None => VNil None end)))
          (frames s3) (rule_root s3) (root s3) (retval s3) (io s3)).
  Proof. exact (return_leaves_loops src funcs fuzzing). Qed.

  (* break / continue / next record their token (ghost event IoSignalAt, Go: e.signalToken)
     and raise their signal; exit and return raise theirs *)
  Theorem signal_statements : forall n s,
    (forall t, ES (S n) (SBreak t) s = (Sig SigBreak, snd (note_signal t s))) /\
    (forall t, ES (S n) (SContinue t) s = (Sig SigContinue, snd (note_signal t s))) /\
    (forall t, ES (S n) (SNext t) s = (Sig SigNext, snd (note_signal t s))) /\
    (forall t, ES (S n) (SExit t) s = (Sig SigExit, s)) /\
    ES (S n) (SReturn None) s =
      (Sig SigReturn, mkSt (hp s) (frames s) (rule_root s) (root s) None (io s)).
  Proof. intros n s. repeat split; reflexivity. Qed.

End C07.

(* ------------------------------------------------------------------ the generic fold *)

(* the counting relation describes exactly one run, which is the model's *)
Theorem loop_run_total : forall {A} (setup : A -> M unit) exec n items s,
  exists vis why, loop_run setup exec n items s vis why (forin_fold setup exec n items s).
Proof. exact @loop_run_total. Qed.

Theorem loop_run_det : forall {A} (setup : A -> M unit) exec n items s vis why out,
  loop_run setup exec n items s vis why out ->
  forall vis' why' out', loop_run setup exec n items s vis' why' out' ->
  vis' = vis /\ why' = why /\ out' = out.
Proof. exact @loop_run_det. Qed.

Theorem loop_run_prefix : forall {A} (setup : A -> M unit) exec n items s vis why out,
  loop_run setup exec n items s vis why out -> exists rest, items = vis ++ rest.
Proof. exact @loop_run_prefix. Qed.

Theorem loop_run_reason : forall {A} (setup : A -> M unit) exec n items s vis why out,
  loop_run setup exec n items s vis why out ->
  match why with
  | Completed => vis = items /\ fst out = Ok tt
  | Broke =>
    fst out = Ok tt /\
    exists pre x s0, vis = pre ++ [x] /\ iteration setup exec (n - length vis) x s0 = (Ok false, snd out)
  | Aborted =>
    exists pre x s0 r, vis = pre ++ [x] /\ (forall b, r <> Ok b) /\
      iteration setup exec (n - length vis) x s0 = (r, snd out) /\ fst out = cast_res r
  | OutOfFuel => fst out = Fuel /\ n = length vis
  end.
Proof. exact @loop_run_reason. Qed.

(* what the bindings do *)
Theorem arr_setup_effect : forall local ix bid off i s,
  arr_setup local ix bid off i s =
  (let h1 := match ix with Some a => store (hp s) a (num_of_nat i) | None => hp s end in
   let item := match nth_error (get_back (hp s) bid) (off + i) with
               | Some c => load h1 c | None => VNil None end in
   (Ok tt, mkSt (store h1 local item) (frames s) (rule_root s) (root s) (retval s) (io s))).
Proof. exact arr_setup_effect. Qed.

Theorem obj_setup_effect : forall local ix oid k s,
  obj_setup local ix oid k s =
  (let v := match assoc_get k (get_obj (hp s) oid) with
            | Some c => load (hp s) c | None => VNil None end in
   let h1 := match ix with Some a => store (hp s) a v | None => hp s end in
   (Ok tt, mkSt (store h1 local (VStr k)) (frames s) (rule_root s) (root s) (retval s) (io s))).
Proof. exact obj_setup_effect. Qed.

Theorem str_setup_effect : forall local ix i c s,
  str_setup local ix (i, c) s =
  (let h1 := match ix with Some a => store (hp s) a (num_of_nat i) | None => hp s end in
   (Ok tt, mkSt (store h1 local (VStr c)) (frames s) (rule_root s) (root s) (retval s) (io s))).
Proof. exact str_setup_effect. Qed.

(* object keys: insertion keeps the association list in ascending byte order *)
Theorem assoc_set_keys_ascending : forall {A} (k : bytes) (v : A) l,
  keys_ascending (map fst l) -> keys_ascending (map fst (assoc_set k v l)).
Proof. exact @assoc_set_keys_ascending. Qed.

Theorem heap_sorted_steps :
  heap_objs_sorted empty_heap /\
  (forall h, heap_objs_sorted h -> heap_objs_sorted (snd (new_obj h []))) /\
  (forall h oid k c, heap_objs_sorted h ->
     heap_objs_sorted (set_obj h oid (assoc_set k c (get_obj h oid)))).
Proof.
  exact (conj heap_sorted_empty (conj heap_sorted_new_obj heap_sorted_set_member)).
Qed.

(* ------------------------------------------------------------------ parser *)

(* a statement that ends in an if without else is never followed by `else`: the inner
   if has taken it (through any nesting of if/else, while, for, for-in) *)
Theorem else_binds_to_nearest_if : forall n p s p',
  parse_statement n p = POk s p' -> ends_in_open_if s = true -> ttag (pcur p') <> TElse.
Proof. intros n p s p' H. exact (proj1 (open_if_not_before_else n) p s p' H). Qed.

Theorem dangling_else : forall n p c body e p',
  parse_statement n p = POk (SIf c body (Some e)) p' -> ends_in_open_if body = false.
Proof. exact dangling_else. Qed.

Theorem for_forin_disambiguation : forall n p pre p3,
  ttag (pcur p) = TFor ->
  for_head (S n) p = POk pre p3 ->
  (forin_head pre (ttag (pcur p3)) = true ->
     forall s p', parse_statement (S (S n)) p = POk s p' ->
       exists id ix it body, pre = EId id /\ s = SForIn id ix it body) /\
  (forin_head pre (ttag (pcur p3)) = false ->
     (ttag (pcur p3) <> TSemiColon -> parse_statement (S (S n)) p = PErr (tpos (pcur p3))) /\
     (forall s p', parse_statement (S (S n)) p = POk s p' ->
        ttag (pcur p3) = TSemiColon /\ exists c post body, s = SFor pre c post body)).
Proof. exact for_forin_disambiguation. Qed.

(* for EVERY program text: in the parsed program (rule and function bodies, nested blocks
   included) no else is attached to an if whose then-branch ends in an if without else *)
Theorem program_else_binding : forall src prog p',
  parse_program src = POk prog p' -> program_else_ok prog = true.
Proof. exact program_else_binding. Qed.

Theorem forin_object_keys_ascending :
  forall src funcs fuzzing n id ix iter body st local st1 ixlocal st2 ic st3 oid,
  resolve_var src id id st = (Ok local, st1) ->
  resolve_index src ix id st1 = (Ok ixlocal, st2) ->
  eval_expr src funcs fuzzing n iter st2 = (Ok ic, st3) ->
  load (hp st3) ic = VObj oid ->
  heap_objs_sorted (hp st3) ->
  exists keys, keys_ascending keys /\
    eval_stmt src funcs fuzzing (S n) (SForIn id ix iter body) st =
    forin_fold (obj_setup local ixlocal oid) (fun k => eval_body src funcs fuzzing k body) n keys st3.
Proof. exact forin_object_keys_ascending. Qed.

Print Assumptions block_nil.
Print Assumptions block_seq.
Print Assumptions block_stops.
Print Assumptions if_eq.
Print Assumptions if_true.
Print Assumptions if_false_else.
Print Assumptions if_false_noelse.
Print Assumptions loop_body_outcome.
Print Assumptions while_stmt.
Print Assumptions while_unroll.
Print Assumptions while_false_noop.
Print Assumptions while_body_break.
Print Assumptions while_body_goes_on.
Print Assumptions while_propagates.
Print Assumptions for_desugar.
Print Assumptions for_unroll.
Print Assumptions for_pre_error_propagates.
Print Assumptions for_post_after_continue.
Print Assumptions for_no_post_after_break.
Print Assumptions for_propagates.
Print Assumptions forin_stmt.
Print Assumptions forin_variables_before_iterable.
Print Assumptions forin_index_before_iterable.
Print Assumptions forin_array_fold.
Print Assumptions forin_object_fold.
Print Assumptions forin_string_fold.
Print Assumptions forin_over_array.
Print Assumptions forin_over_object.
Print Assumptions forin_over_string.
Print Assumptions forin_not_iterable.
Print Assumptions forin_body_break.
Print Assumptions forin_body_goes_on.
Print Assumptions forin_propagates.
Print Assumptions forin_once_in_order.
Print Assumptions forin_array_once_in_order.
Print Assumptions loop_absorbs_break_continue.
Print Assumptions loop_never_breaks_out.
Print Assumptions escape_leaves_nesting.
Print Assumptions call_user_eq.
Print Assumptions call_never_returns_signal.
Print Assumptions call_absorbs_return.
Print Assumptions call_falls_off_end.
Print Assumptions return_leaves_loops.
Print Assumptions signal_statements.
Print Assumptions loop_run_total.
Print Assumptions loop_run_det.
Print Assumptions loop_run_prefix.
Print Assumptions loop_run_reason.
Print Assumptions arr_setup_effect.
Print Assumptions obj_setup_effect.
Print Assumptions str_setup_effect.
Print Assumptions assoc_set_keys_ascending.
Print Assumptions heap_sorted_steps.
Print Assumptions else_binds_to_nearest_if.
Print Assumptions dangling_else.
Print Assumptions for_forin_disambiguation.
Print Assumptions program_else_binding.
Print Assumptions forin_object_keys_ascending.

(* ================================================================== Examples *)
(* Every hypothesis of the theorems above is satisfiable by a concrete program, and the
   printed trace of the program is the documented one.  [ES], [EE], ... are instantiated at
   the source text, no functions, not fuzzing; all terms are closed and decided by vm_compute. *)

Open Scope string_scope.

Definition s_cond (s : stmt) : expr :=
  match s with SWhile c _ | SIf c _ _ | SFor _ c _ _ => c | _ => ELit zero_token end.
Definition s_body (s : stmt) : stmt :=
  match s with SWhile _ b | SIf _ b _ | SFor _ _ _ b | SForIn _ _ _ b => b | _ => s end.
Definition s_post (s : stmt) : expr := match s with SFor _ _ p _ => p | _ => ELit zero_token end.
Definition s_pre (s : stmt) : expr := match s with SFor p _ _ _ => p | _ => ELit zero_token end.
Definition s_else (s : stmt) : stmt := match s with SIf _ _ (Some e) => e | _ => s end.
Definition s_iter (s : stmt) : expr := match s with SForIn _ _ it _ => it | _ => ELit zero_token end.
Definition s_id (s : stmt) : token := match s with SForIn id _ _ _ => id | _ => zero_token end.
Definition s_ix (s : stmt) : option token := match s with SForIn _ ix _ _ => ix | _ => None end.
Definition stmtN (src : string) (k : nat) : stmt := nth k (first_rule_stmts src) (SBlock zero_token []).
(* the state after the first k statements of the BEGIN block *)
Fixpoint after (src : string) (l : list stmt) (s : st) : st :=
  match l with [] => s | x :: r => after src r (snd (exec_stmt src x s)) end.
Definition st_at (src : string) (k : nat) : st := after src (firstn k (first_rule_stmts src)) (st0 src).
Definition cond_at (src : string) (n : nat) (c : expr) (s : st) : res bool * st :=
  truth_of (eval_expr (bs src) [] false n c) s.

(* blocks *)
Example block_seq_ex : prints "BEGIN { print 1; { } print 2 }" ["1"; "2"].
Proof. vm_compute. reflexivity. Qed.
Example block_nil_ex : first_rule_stmts "BEGIN { }" = [] /\ prints "BEGIN { }" [].
Proof. vm_compute. split; reflexivity. Qed.
Example block_stops_ex :
  let src := "BEGIN { exit; print 2 }" in
  fst (exec_stmt src (stmtN src 0) (st0 src)) = Sig SigExit /\ prints "BEGIN { print 1; exit; print 2 }" ["1"].
Proof. vm_compute. split; reflexivity. Qed.

(* if / else *)
Example if_eq_ex :
  prints "BEGIN { if (1) print 't' else print 'f'; if (0) print 't' else print 'f'; if (0) print 'x'; print 'end' }"
         ["t"; "f"; "end"].
Proof. vm_compute. reflexivity. Qed.
Example if_true_ex :
  let src := "BEGIN { if (1) x = 1 else x = 2 }" in let s := stmtN src 0 in
  fst (cond_at src 9 (s_cond s) (st0 src)) = Ok true /\
  lookup src "x" (snd (exec_stmt src s (st0 src))) = Some (VNum f_one).
Proof. vm_compute. split; reflexivity. Qed.
Example if_false_else_ex :
  let src := "BEGIN { if (0) x = 2 else x = 1 }" in let s := stmtN src 0 in
  fst (cond_at src 9 (s_cond s) (st0 src)) = Ok false /\
  s = SIf (s_cond s) (s_body s) (Some (s_else s)) /\
  lookup src "x" (snd (exec_stmt src s (st0 src))) = Some (VNum f_one).
Proof. vm_compute. repeat split; reflexivity. Qed.
Example if_false_noelse_ex :
  let src := "BEGIN { if (0) x = 2 }" in let s := stmtN src 0 in
  fst (cond_at src 9 (s_cond s) (st0 src)) = Ok false /\
  s = SIf (s_cond s) (s_body s) None /\
  fst (exec_stmt src s (st0 src)) = Ok tt /\
  lookup src "x" (snd (exec_stmt src s (st0 src))) = None.
Proof. vm_compute. repeat split; reflexivity. Qed.

(* loop body outcomes *)
Example loop_body_outcome_ex :
  let src := "BEGIN { while (1) { break } while (1) { continue } while (1) { exit } while (1) { } }" in
  let run k := fst (eval_body (bs src) [] false 9 (s_body (stmtN src k)) (st0 src)) in
  run 0 = Ok false /\ run 1 = Ok true /\ run 2 = Sig SigExit /\ run 3 = Ok true.
Proof. vm_compute. repeat split; reflexivity. Qed.

(* while *)
Example while_unroll_ex :
  prints "BEGIN { i = 0; while (1) { i++; if (i == 2) continue; if (i > 4) break; print i } print 'done' }"
         ["1"; "3"; "4"; "done"].
Proof. vm_compute. reflexivity. Qed.
Example while_stmt_ex : prints "BEGIN { i = 0; while (i < 3) i++; print i }" ["3"].
Proof. vm_compute. reflexivity. Qed.
Example while_false_noop_ex :
  let src := "BEGIN { while (0) print 1 }" in let s := stmtN src 0 in
  fst (cond_at src 9 (s_cond s) (st0 src)) = Ok false /\
  prints "BEGIN { while (0) print 1; print 'none' }" ["none"].
Proof. vm_compute. split; reflexivity. Qed.
Example while_body_break_ex :
  let src := "BEGIN { while (1) { break } }" in let s := stmtN src 0 in
  let r1 := cond_at src 10 (s_cond s) (st0 src) in
  fst r1 = Ok true /\
  fst (eval_stmt (bs src) [] false 9 (s_body s) (snd r1)) = Sig SigBreak /\
  fst (exec_stmt src s (st0 src)) = Ok tt.
Proof. vm_compute. repeat split; reflexivity. Qed.
Example while_body_goes_on_ex :
  let src := "BEGIN { i = 0; while (i < 2) { i++; continue } }" in let s := stmtN src 1 in
  let r1 := cond_at src 10 (s_cond s) (st_at src 1) in
  fst r1 = Ok true /\
  fst (eval_stmt (bs src) [] false 9 (s_body s) (snd r1)) = Sig SigContinue /\
  loop_limit_hit false 0 = false /\
  lookup src "i" (snd (exec_stmt src s (st_at src 1))) = Some (VNum (f_of_Z 2)).
Proof. vm_compute. repeat split; reflexivity. Qed.
Example while_propagates_ex :
  let src := "BEGIN { while (1) { next } }" in let s := stmtN src 0 in
  let r1 := cond_at src 10 (s_cond s) (st0 src) in
  fst r1 = Ok true /\
  fst (eval_stmt (bs src) [] false 9 (s_body s) (snd r1)) = Sig SigNext /\
  escapes (Sig SigNext) /\
  fst (exec_stmt src s (st0 src)) = Sig SigNext.
Proof. vm_compute. repeat split; reflexivity. Qed.

(* for *)
Example for_desugar_ex : prints "BEGIN { for (i = 0; i < 3; i++) print i }" ["0"; "1"; "2"].
Proof. vm_compute. reflexivity. Qed.
Example for_unroll_ex :
  prints "BEGIN { for (i = 0; i < 2; i++) { for (j = 0; j < 5; j++) { if (j == 1) break; print i, j } } }"
         ["0 0"; "1 0"].
Proof. vm_compute. reflexivity. Qed.
Example for_pre_error_propagates_ex :
  let src := "BEGIN { for ([] < 1; 1; 1) print 1 }" in let s := stmtN src 0 in
  (exists e, fst (eval_expr (bs src) [] false 9 (s_pre s) (st0 src)) = Err e) /\
  (exists e, fst (run src) = ORuntime e) /\ snd (run src) = [].
Proof. vm_compute. repeat split; eexists; reflexivity. Qed.
Example for_post_after_continue_ex :
  let src := "BEGIN { for (i = 0; i < 4; i++) { if (i == 1) continue; print i } }" in
  prints src ["0"; "2"; "3"] /\
  let s := stmtN src 0 in
  let s1 := snd (eval_expr (bs src) [] false 10 (s_pre s) (st0 src)) in
  let r1 := cond_at src 10 (s_cond s) s1 in
  fst r1 = Ok true /\ fst (eval_stmt (bs src) [] false 9 (s_body s) (snd r1)) = Ok tt.
Proof. vm_compute. repeat split; reflexivity. Qed.
Example for_no_post_after_break_ex :
  let src := "BEGIN { for (i = 0; i < 10; i++) { if (i == 2) break } print i }" in
  prints src ["2"] /\
  let src2 := "BEGIN { for (i = 0; 1; i++) { break } }" in let s := stmtN src2 0 in
  let s1 := snd (eval_expr (bs src2) [] false 10 (s_pre s) (st0 src2)) in
  let r1 := cond_at src2 10 (s_cond s) s1 in
  fst r1 = Ok true /\ fst (eval_stmt (bs src2) [] false 9 (s_body s) (snd r1)) = Sig SigBreak /\
  lookup src2 "i" (snd (exec_stmt src2 s (st0 src2))) = Some (VNum f_zero).
Proof. vm_compute. repeat split; reflexivity. Qed.
Example for_propagates_ex :
  let src := "BEGIN { for (i = 0; 1; i++) { exit } print 1 }" in
  prints src [] /\
  let s := stmtN src 0 in
  let s1 := snd (eval_expr (bs src) [] false 10 (s_pre s) (st0 src)) in
  let r1 := cond_at src 10 (s_cond s) s1 in
  fst r1 = Ok true /\ fst (eval_stmt (bs src) [] false 9 (s_body s) (snd r1)) = Sig SigExit /\
  fst (exec_stmt src s (st0 src)) = Sig SigExit.
Proof. vm_compute. repeat split; reflexivity. Qed.

(* for-in *)
Definition is_ok {A} (r : res A) : bool := match r with Ok _ => true | _ => false end.
Definition is_err {A} (r : res A) : bool := match r with Err _ => true | _ => false end.
(* the three steps of the head of a for-in statement, from a state *)
Definition head_steps (src : string) (s : stmt) (s0 : st) :=
  let r1 := resolve_var (bs src) (s_id s) (s_id s) s0 in
  let r2 := resolve_index (bs src) (s_ix s) (s_id s) (snd r1) in
  let r3 := eval_expr (bs src) [] false 50 (s_iter s) (snd r2) in
  (fst r1, fst r2, r3).
Definition iter_tag (r3 : res addr * st) : option vtag :=
  match fst r3 with Ok ic => Some (tag_of (load (hp (snd r3)) ic)) | _ => None end.

Example forin_stmt_ex :
  prints "BEGIN { for (x, i in ['a','b','c']) print i, x }" ["0 a"; "1 b"; "2 c"] /\
  prints "BEGIN { o = {b: 2, a: 1, c: 3}; for (k, v in o) print k, v }" ["a 1"; "b 2"; "c 3"] /\
  prints "BEGIN { for (c, i in 'aéb') print i, c }" ["0 a"; "1 é"; "3 b"] /\
  prints "BEGIN { for (x in [4, 5]) print x; for (k in {q: 1}) print k; for (c in 'hi') print c }"
         ["4"; "5"; "q"; "h"; "i"].
Proof. vm_compute. repeat split; reflexivity. Qed.

(* the loop variable cannot be resolved: the iterable (which would print) is not evaluated *)
Example forin_variables_before_iterable_ex :
  let src := "BEGIN { for ($y in [printf('evaluated')]) print 1 }" in let s := stmtN src 0 in
  is_err (fst (resolve_var (bs src) (s_id s) (s_id s) (st0 src))) = true /\
  (exists e, fst (run src) = ORuntime e /\ eline e = 1 /\ ecol e = 13%Z) /\ snd (run src) = [].
Proof. vm_compute. repeat split. eexists. repeat split; reflexivity. Qed.
Example forin_index_before_iterable_ex :
  let src := "BEGIN { for (x, $y in [printf('evaluated')]) print 1 }" in let s := stmtN src 0 in
  let r1 := resolve_var (bs src) (s_id s) (s_id s) (st0 src) in
  is_ok (fst r1) = true /\
  is_err (fst (resolve_index (bs src) (s_ix s) (s_id s) (snd r1))) = true /\
  (exists e, fst (run src) = ORuntime e /\ ecol e = 13%Z) /\ snd (run src) = [].
Proof. vm_compute. repeat split. eexists. repeat split; reflexivity. Qed.

(* arrays: the backing array is read live, element by element *)
Example forin_array_fold_ex :
  prints "BEGIN { a = [1,2,3]; for (x in a) { if (x == 2) a[2] = 30; print x } }" ["1"; "2"; "30"].
Proof. vm_compute. reflexivity. Qed.
(* the index variable is stored before the element is read (they can share a cell) *)
Example arr_setup_effect_ex :
  prints "BEGIN { arr = [10, 20]; match (arr) { [a, b] => { for (x, a in arr) print x, a; print arr } } }"
         ["0 0"; "20 1"; "[1, 20]"].
Proof. vm_compute. reflexivity. Qed.
Example forin_object_fold_ex :
  prints "BEGIN { o = {}; o.zeta = 1; o.alpha = 2; o['Mid'] = 3; for (k, v in o) print k, v }"
         ["Mid 3"; "alpha 2"; "zeta 1"].
Proof. vm_compute. reflexivity. Qed.
Example obj_setup_effect_ex :
  prints "BEGIN { o = {a: 1, b: 2}; for (k, v in o) { o.b = 20; print k, v } }" ["a 1"; "b 20"].
Proof. vm_compute. reflexivity. Qed.
Example forin_string_fold_ex :
  runes (bs "aéb") = [(0, bs "a"); (1, bs "é"); (3, bs "b")] /\
  runes [97%N; 255%N; 98%N] = [(0, bs "a"); (1, utf8_replacement); (2, bs "b")].
Proof. vm_compute. split; reflexivity. Qed.
Example str_setup_effect_ex : prints "BEGIN { for (c, i in 'xyz') { if (i == 1) continue; print c } }" ["x"; "z"].
Proof. vm_compute. reflexivity. Qed.

Example forin_over_array_ex :
  let src := "BEGIN { for (x, i in ['a','b']) print i, x }" in
  let '(r1, r2, r3) := head_steps src (stmtN src 0) (st0 src) in
  is_ok r1 = true /\ is_ok r2 = true /\ iter_tag r3 = Some TgArr.
Proof. vm_compute. repeat split; reflexivity. Qed.
Example forin_over_object_ex :
  let src := "BEGIN { for (k in {b: 1, a: 2}) print k }" in
  let '(r1, r2, r3) := head_steps src (stmtN src 0) (st0 src) in
  is_ok r1 = true /\ is_ok r2 = true /\ iter_tag r3 = Some TgObj.
Proof. vm_compute. repeat split; reflexivity. Qed.
Example forin_over_string_ex :
  let src := "BEGIN { for (c in 'hey') print c }" in
  let '(r1, r2, r3) := head_steps src (stmtN src 0) (st0 src) in
  is_ok r1 = true /\ is_ok r2 = true /\ iter_tag r3 = Some TgStr.
Proof. vm_compute. repeat split; reflexivity. Qed.
Example forin_not_iterable_ex :
  let src := "BEGIN { for (x in 5) print x }" in
  let '(r1, r2, r3) := head_steps src (stmtN src 0) (st0 src) in
  is_ok r1 = true /\ is_ok r2 = true /\ iter_tag r3 = Some TgNum /\
  (exists e, fst (run src) = ORuntime e /\ eline e = 1 /\ ecol e = 18%Z).
Proof. vm_compute. repeat split. eexists. repeat split; reflexivity. Qed.

Example forin_body_break_ex :
  prints "BEGIN { for (x in [1,2,3]) { if (x == 2) break; print x } print 'end' }" ["1"; "end"].
Proof. vm_compute. reflexivity. Qed.
Example forin_body_goes_on_ex :
  prints "BEGIN { for (x in [1,2,3]) { if (x == 2) continue; print x } print 'end' }" ["1"; "3"; "end"].
Proof. vm_compute. reflexivity. Qed.
Example forin_propagates_ex :
  prints "BEGIN { for (x in [1,2,3]) { if (x == 2) exit; print x } print 'end' }" ["1"].
Proof. vm_compute. reflexivity. Qed.

Example forin_once_in_order_ex :
  let src := "BEGIN { for (x in [7,8,9]) print x }" in let s := stmtN src 0 in
  match fst (forin_header (bs src) [] false 50 (s_id s) (s_ix s) (s_iter s) (st0 src)) with
  | Ok bindings => length bindings = 3
  | _ => False
  end /\ prints src ["7"; "8"; "9"].
Proof. vm_compute. split; reflexivity. Qed.
Example forin_array_once_in_order_ex :
  prints "BEGIN { n = 0; for (x in [5,5,5,5]) n++; print n }" ["4"].
Proof. vm_compute. reflexivity. Qed.

(* break and continue act on the innermost loop only *)
Example innermost_loop_only_ex :
  prints "BEGIN { for (i = 0; i < 3; i++) { for (x in [1,2]) { if (x == 2) continue; if (i == 1) break; print i, x } } }"
         ["0 1"; "2 1"] /\
  prints "BEGIN { i = 0; while (i < 2) { i++; while (1) { break } print i } }" ["1"; "2"].
Proof. vm_compute. split; reflexivity. Qed.

(* a break signalled by the CONDITION of a loop (inside a match arm) is not absorbed by that
   loop: it ends the enclosing one -- the only way a loop statement yields break *)
Example loop_absorbs_break_continue_ex :
  let src := "BEGIN { while (1) { while (match (1) { 1 => { break } }) { } print 'inner left'; break } print 'end' }" in
  prints src ["end"] /\
  let inner := nth 0 (stmts_of (s_body (stmtN src 0))) (SBlock zero_token []) in
  is_loop inner /\ fst (exec_stmt src inner (st0 src)) = Sig SigBreak.
Proof. vm_compute. repeat split; reflexivity. Qed.

Example loop_never_breaks_out_ex :
  let src := "BEGIN { while (1) { break } }" in let s := stmtN src 0 in
  is_loop s /\
  (forall e m s0 y s1, In e (loop_headers s) -> eval_expr (bs src) [] false m e s0 = (Sig y, s1) ->
                       ~ (y = SigBreak \/ y = SigContinue)) /\
  fst (exec_stmt src s (st0 src)) = Ok tt.
Proof.
  split; [exact I|]. split; [|vm_compute; reflexivity].
  intros e m s0 y s1 Hin H. vm_compute in Hin. destruct Hin as [<-|[]].
  destruct m as [|m]; [discriminate H|]. vm_compute in H. discriminate H.
Qed.

(* return / next / exit through nesting *)
Example escape_leaves_nesting_trace_ex :
  prints "function f() { for (i = 0; i < 3; i++) { while (1) { if (i == 1) return i * 10; break } } return -1 } BEGIN { print f(); print 'after' }"
         ["10"; "after"] /\
  prints "BEGIN { for (x in [1,2]) { while (1) { if (x == 2) { exit } break } print x } print 'never' }" ["1"].
Proof. vm_compute. split; reflexivity. Qed.

(* a derivation of the path relation: `exit` inside if inside while inside a block, after a
   first statement that completes *)
Example escape_leaves_nesting_ex :
  let src := "BEGIN { x = 1; while (1) { if (x) { exit } } }" in
  let blk := SBlock zero_token (first_rule_stmts src) in
  exists st', escapes (Sig SigExit) /\
              escape_path (bs src) [] false 12 blk (st0 src) (Sig SigExit) st'.
Proof.
  cbv zeta.
  set (src := "BEGIN { x = 1; while (1) { if (x) { exit } } }").
  set (s0 := st0 src).
  set (s1 := snd (eval_stmt (bs src) [] false 11 (stmtN src 0) s0)).
  set (w := stmtN src 1).
  set (s2 := snd (cond_at src 9 (s_cond w) s1)).
  set (i := nth 0 (stmts_of (s_body w)) (SBlock zero_token [])).
  set (s3 := snd (cond_at src 6 (s_cond i) s2)).
  exists s3. split; [exact I|].
  assert (Hl : first_rule_stmts src = [stmtN src 0; SWhile (s_cond w) (SBlock (match s_body w with SBlock t _ => t | _ => zero_token end) [SIf (s_cond i) (s_body i) None])])
    by (vm_compute; reflexivity).
  rewrite Hl.
  eapply EP_block_later; [vm_compute; reflexivity|].
  eapply EP_block_here. eapply EP_while. eapply WP_here; [vm_compute; reflexivity|].
  eapply BP. eapply EP_block_here. eapply EP_if_then; [vm_compute; reflexivity|].
  eapply EP_here. vm_compute. reflexivity.
Qed.

(* calls *)
Definition prog_of (src : string) : program :=
  match parse_program (bs src) with POk p _ => p | _ => empty_program end.
Definition stf (src : string) : st := snd (new_evaluator (bs src) (pfuncs (prog_of src)) init_state).
Definition fn0 (src : string) : func := nth 0 (pfuncs (prog_of src)) (mkFunc zero_token [] (SBlock zero_token [])).
Definition fcell (src : string) (f : string) : addr :=
  match lookup_frames (frames (stf src)) (bs f) with Some a => a | None => dummy_addr end.

Example call_absorbs_return_ex :
  let src := "function f(a) { while (1) { if (a) { return 7 } } } BEGIN { print f(1) }" in
  let funcs := pfuncs (prog_of src) in
  let s := stf src in let fc := fcell src "f" in let fn := fn0 src in
  let r1 := enter_call (bs src) fn [VNum f_one] s in
  let r2 := eval_stmt (bs src) funcs false 50 (fbody fn) (snd r1) in
  let r3 := pop_frame (snd r2) in
  let r := call_function (bs src) funcs false 51 zero_token fc [VNum f_one] s in
  load (hp s) fc = VFn 0 /\ nth_error funcs 0 = Some fn /\
  fst r1 = Ok true /\ fst r2 = Sig SigReturn /\ fst r3 = Ok tt /\
  match fst r with Ok c => load (hp (snd r)) c = VNum (f_of_Z 7) | _ => False end /\
  frames (snd r) = frames s /\
  prints src ["7"].
Proof. vm_compute. repeat split; reflexivity. Qed.

Example call_user_eq_ex : prints "function g(a, b) { return b } BEGIN { print g(1), g(1, 2) }" ["null 2"].
Proof. vm_compute. reflexivity. Qed.

Example call_falls_off_end_ex :
  let src := "function f() { x = 1 } BEGIN { print f() }" in
  let funcs := pfuncs (prog_of src) in
  let s := stf src in let fn := fn0 src in
  let r1 := enter_call (bs src) fn [] s in
  let r2 := eval_stmt (bs src) funcs false 50 (fbody fn) (snd r1) in
  load (hp s) (fcell src "f") = VFn 0 /\ nth_error funcs 0 = Some fn /\
  fst r1 = Ok true /\ fst r2 = Ok tt /\ fst (pop_frame (snd r2)) = Ok tt /\ prints src ["null"].
Proof. vm_compute. repeat split; reflexivity. Qed.

(* a bare return gives null; return ends only the innermost call *)
Example call_never_returns_signal_ex :
  prints "function g() { return 1 } function f() { g(); return 2 } function h() { return } BEGIN { print f(), h() }"
         ["2 null"].
Proof. vm_compute. reflexivity. Qed.

Example return_leaves_loops_ex :
  let src := "function f(a) { while (1) { if (a) { return 7 } } } BEGIN { print f(1) }" in
  let funcs := pfuncs (prog_of src) in
  let fn := fn0 src in
  let s1 := snd (enter_call (bs src) fn [VNum f_one] (stf src)) in
  exists s2, escape_path (bs src) funcs false 12 (fbody fn) s1 (Sig SigReturn) s2.
Proof.
  cbv zeta.
  set (src := "function f(a) { while (1) { if (a) { return 7 } } } BEGIN { print f(1) }").
  set (fn := fn0 src). set (funcs := pfuncs (prog_of src)).
  set (s1 := snd (enter_call (bs src) fn [VNum f_one] (stf src))).
  set (w := nth 0 (stmts_of (fbody fn)) (SBlock zero_token [])).
  set (s2 := snd (truth_of (eval_expr (bs src) funcs false 10 (s_cond w)) s1)).
  set (i := nth 0 (stmts_of (s_body w)) (SBlock zero_token [])).
  set (s3 := snd (truth_of (eval_expr (bs src) funcs false 7 (s_cond i)) s2)).
  set (ret := nth 0 (stmts_of (s_body i)) (SBlock zero_token [])).
  exists (snd (eval_stmt (bs src) funcs false 6 ret s3)).
  assert (Hb : fbody fn =
    SBlock (match fbody fn with SBlock t _ => t | _ => zero_token end)
      [SWhile (s_cond w) (SBlock (match s_body w with SBlock t _ => t | _ => zero_token end)
         [SIf (s_cond i) (SBlock (match s_body i with SBlock t _ => t | _ => zero_token end) [ret]) None])])
    by (vm_compute; reflexivity).
  rewrite Hb.
  eapply EP_block_here. eapply EP_while. eapply WP_here; [vm_compute; reflexivity|].
  eapply BP. eapply EP_block_here. eapply EP_if_then; [vm_compute; reflexivity|].
  eapply EP_block_here. eapply EP_here. vm_compute. reflexivity.
Qed.

Example signal_statements_ex :
  prints "{ print 'a'; next; print 'b' } { print 'c' } END { print 'end' }" ["end"] /\
  prints "BEGIN { print 1; exit; print 2 } END { print 'end' }" ["1"].
Proof. vm_compute. split; reflexivity. Qed.

(* the generic fold with a counting executor: every item exactly once, in order *)
Definition log_exec (stop_at : option nat) (local : addr) : nat -> M bool := fun _ s =>
  match load (hp s) local with
  | VNum f => (Ok (match stop_at with Some k => negb (Z.eqb (f_trunc_int64 f) (Z.of_nat k)) | None => true end),
               mkSt (hp s) (frames s) (rule_root s) (root s) (retval s) (IoWrite (format_f f) :: io s))
  | _ => (Panic, s)
  end.
Definition num_setup (local : addr) (i : nat) : M unit := m_store local (num_of_nat i).

Example loop_run_total_ex :
  let s := snd (m_alloc (VNil None) init_state) in
  let out := forin_fold (num_setup 2%positive) (log_exec None 2%positive) 10 [3; 1; 4; 1; 5] s in
  fst out = Ok tt /\ output_of (io (snd out)) = bs "31415".
Proof. vm_compute. split; reflexivity. Qed.

Example loop_run_reason_ex :
  let s := snd (m_alloc (VNil None) init_state) in
  let out := forin_fold (num_setup 2%positive) (log_exec (Some 4) 2%positive) 10 [3; 1; 4; 1; 5] s in
  fst out = Ok tt /\ output_of (io (snd out)) = bs "314" /\
  exists vis why, loop_run (num_setup 2%positive) (log_exec (Some 4) 2%positive) 10 [3; 1; 4; 1; 5] s vis why out
                  /\ vis = [3; 1; 4] /\ why = Broke.
Proof.
  cbv zeta. split; [vm_compute; reflexivity|]. split; [vm_compute; reflexivity|].
  exists [3; 1; 4], Broke. split; [|split; reflexivity].
  eapply LR_next; [vm_compute; reflexivity|].
  eapply LR_next; [vm_compute; reflexivity|].
  replace (forin_fold _ _ _ _ _) with
    (@Ok unit tt, snd (iteration (num_setup 2%positive) (log_exec (Some 4) 2%positive) 7 4
       (snd (iteration (num_setup 2%positive) (log_exec (Some 4) 2%positive) 8 1
         (snd (iteration (num_setup 2%positive) (log_exec (Some 4) 2%positive) 9 3
            (snd (m_alloc (VNil None) init_state)))))))) by (vm_compute; reflexivity).
  eapply LR_break. vm_compute. reflexivity.
Qed.

Example loop_run_det_ex : forall vis why out,
  loop_run (num_setup 2%positive) (log_exec None 2%positive) 1 [] init_state vis why out ->
  vis = [] /\ why = Completed /\ out = (Ok tt, init_state).
Proof.
  intros vis why out H.
  exact (loop_run_det _ _ _ _ _ _ _ _ (LR_end _ _ 0 init_state) _ _ _ H).
Qed.

Example loop_run_prefix_ex :
  exists rest, [3; 1; 4; 1; 5] = ([3; 1; 4] ++ rest)%list.
Proof. exists [1; 5]. reflexivity. Qed.

(* object keys *)
Example assoc_set_keys_ascending_ex :
  map fst (assoc_set (bs "b") 2 (assoc_set (bs "a") 1 (assoc_set (bs "c") 3 (assoc_set (bs "b") 0 [])))) =
  [bs "a"; bs "b"; bs "c"] /\
  keys_ascending [bs "a"; bs "b"; bs "c"] /\ ~ keys_ascending [bs "b"; bs "a"].
Proof. vm_compute. repeat split; try reflexivity. intros [H _]. discriminate H. Qed.

Example heap_sorted_steps_ex :
  let h := snd (new_obj empty_heap []) in
  keys_ascending (map fst (get_obj (set_obj (set_obj h 2%positive (assoc_set (bs "z") 5%positive (get_obj h 2%positive)))
                                  2%positive (assoc_set (bs "a") 6%positive [(bs "z", 5%positive)])) 2%positive)).
Proof. vm_compute. split; [reflexivity | exact I]. Qed.

(* parser *)
Fixpoint shape (s : stmt) : string :=
  match s with
  | SIf _ b None => "if(" ++ shape b ++ ")"
  | SIf _ b (Some e) => "if(" ++ shape b ++ " else " ++ shape e ++ ")"
  | SWhile _ b => "while(" ++ shape b ++ ")"
  | SFor _ _ _ b => "for(" ++ shape b ++ ")"
  | SForIn _ _ _ b => "forin(" ++ shape b ++ ")"
  | SBlock _ l => "{" ++ String.concat ";" (map shape l) ++ "}"
  | SExpr _ => "e"
  | _ => "s"
  end.
(* the same with the names of the assigned variables *)
Fixpoint vars (src : string) (s : stmt) : string :=
  match s with
  | SIf _ b None => "if(" ++ vars src b ++ ")"
  | SIf _ b (Some e) => "if(" ++ vars src b ++ " else " ++ vars src e ++ ")"
  | SWhile _ b => "while(" ++ vars src b ++ ")"
  | SFor _ _ _ b => "for(" ++ vars src b ++ ")"
  | SForIn _ _ _ b => "forin(" ++ vars src b ++ ")"
  | SBlock _ l => "{" ++ String.concat ";" (map (vars src) l) ++ "}"
  | SExpr (EBin (EId t) _ _) =>
    match get_string (bs src) t with
    | Some b => (fix show (b : bytes) : string :=
                   match b with [] => EmptyString | x :: r => String (ascii_of_N x) (show r) end) b
    | None => "?"
    end
  | SExpr _ => "e"
  | _ => "s"
  end.
Definition tree (src : string) : string :=
  match first_rule_stmts src with x :: _ => vars src x | [] => "?" end.

(* the else belongs to the nearest if that has none yet, at every nesting *)
Example dangling_else_shapes :
  tree "BEGIN { if (a) if (b) x = 1 else y = 2 }" = "if(if(x else y))" /\
  tree "BEGIN { if (a) if (b) if (c) x = 1 else y = 2 else z = 3 }" = "if(if(if(x else y) else z))" /\
  tree "BEGIN { if (a) while (w) if (b) x = 1 else y = 2 }" = "if(while(if(x else y)))" /\
  tree "BEGIN { if (a) for (k in o) if (b) x = 1 else y = 2 }" = "if(forin(if(x else y)))" /\
  tree "BEGIN { if (a) for (i = 0; i < 1; i++) if (b) x = 1 else y = 2 }" = "if(for(if(x else y)))" /\
  tree "BEGIN { if (a) if (b) x = 1 else if (c) y = 2 else z = 3 }" = "if(if(x else if(y else z)))" /\
  tree "BEGIN { if (a) { if (b) x = 1 } else y = 2 }" = "if({if(x)} else y)" /\
  tree "BEGIN { if (a) if (b) x = 1
else y = 2 }" = "if(if(x else y))".
Proof. vm_compute. repeat split; reflexivity. Qed.

(* ... and at run time *)
Example dangling_else_runs :
  prints "BEGIN { if (0) if (1) print 'a' else print 'b'; print 'c' }" ["c"] /\
  prints "BEGIN { if (1) if (0) print 'a' else print 'b'; print 'c' }" ["b"; "c"].
Proof. vm_compute. split; reflexivity. Qed.

(* the parser state at the first token of a statement text *)
Definition pstate_at (src : string) : pstate :=
  match advance (new_parser (bs src)) with POk _ p => p | _ => new_parser (bs src) end.
Definition parsed (src : string) : option (stmt * tag) :=
  match parse_statement 200 (pstate_at src) with
  | POk s p' => Some (s, ttag (pcur p'))
  | _ => None
  end.

Example else_binds_to_nearest_if_ex :
  match parsed "if (a) while (w) if (b) x = 1 ; y = 2" with
  | Some (s, next) => ends_in_open_if s = true /\ next = TSemiColon
  | None => False
  end.
Proof. vm_compute. split; reflexivity. Qed.

Example dangling_else_ex :
  match parsed "if (a) { if (b) x = 1 } else y = 2" with
  | Some (SIf _ body (Some _), _) => ends_in_open_if body = false
  | _ => False
  end.
Proof. vm_compute. reflexivity. Qed.

Definition head_of (src : string) : option (expr * tag * nat) :=
  match for_head 100 (pstate_at src) with
  | POk pre p3 => Some (pre, ttag (pcur p3), tpos (pcur p3))
  | _ => None
  end.
Definition parse_result (src : string) : string + nat :=
  match parse_statement 101 (pstate_at src) with
  | POk s _ => inl (shape s)
  | PErr pos => inr pos
  | _ => inl "?"
  end.

Example for_forin_disambiguation_ex :
  ttag (pcur (pstate_at "for (x in a) print x")) = TFor /\
  (* identifier then `in` *)
  match head_of "for (x in a) print x" with
  | Some (pre, next, _) => forin_head pre next = true /\ next = TIn
  | None => False end /\
  parse_result "for (x in a) print x" = inl "forin(s)" /\
  (* identifier then `,` *)
  match head_of "for (x, i in a) print x" with
  | Some (pre, next, _) => forin_head pre next = true /\ next = TComma
  | None => False end /\
  parse_result "for (x, i in a) print x" = inl "forin(s)" /\
  (* an assignment: needs `;` *)
  match head_of "for (x = 0; x < 2; x++) print x" with
  | Some (pre, next, _) => forin_head pre next = false /\ next = TSemiColon
  | None => False end /\
  parse_result "for (x = 0; x < 2; x++) print x" = inl "for(s)" /\
  (* an identifier followed by `;` is a three-clause for *)
  parse_result "for (x; x < 2; x++) print x" = inl "for(s)" /\
  (* a non-identifier followed by `in`: error at `in` *)
  match head_of "for (x.y in a) print x" with
  | Some (pre, next, pos) => forin_head pre next = false /\ next = TIn /\ pos = 9
  | None => False end /\
  parse_result "for (x.y in a) print x" = inr 9 /\
  (* an identifier followed by something else: error there *)
  match head_of "for (x y) print 1" with
  | Some (pre, next, pos) => forin_head pre next = false /\ next = TIdent /\ pos = 7
  | None => False end /\
  parse_result "for (x y) print 1" = inr 7.
Proof. vm_compute. repeat split; reflexivity. Qed.

Example program_else_binding_ex :
  (* the checker is not trivially true: this is the shape a wrong resolution would give *)
  misattached_else (SIf (ELit zero_token) (SIf (ELit zero_token) (SBreak zero_token) None)
                        (Some (SBreak zero_token))) = true /\
  match parse_program (bs "function f(a) { while (a) { if (a) if (a) return 1 else return 2 } } BEGIN { if (a) for (k in o) if (b) x = 1 else y = 2 } { if ($.a) if ($.b) print 1 else print 2 }") with
  | POk prog _ => program_else_ok prog = true /\ length (prules prog) = 2 /\ length (pfuncs prog) = 1
  | _ => False
  end.
Proof. vm_compute. repeat split; reflexivity. Qed.

Example forin_object_keys_ascending_ex :
  let src := "BEGIN { o = {}; o.b = 1; o.a = 2; for (k in o) print k }" in
  let hs := head_steps src (stmtN src 3) (st_at src 3) in
  is_ok (fst (fst hs)) = true /\ is_ok (snd (fst hs)) = true /\ iter_tag (snd hs) = Some TgObj /\
  heap_objs_sorted (hp (snd (snd hs))) /\
  prints src ["a"; "b"].
Proof.
  cbv zeta.
  split; [vm_compute; reflexivity|]. split; [vm_compute; reflexivity|].
  split; [vm_compute; reflexivity|]. split; [|vm_compute; reflexivity].
  apply heap_objs_sorted_check. vm_compute. reflexivity.
Qed.
