(* C08: "[...] A finished call or match leaves nothing behind: the number of calls, matches or
   next statements executed so far in a run never changes later behaviour, and only genuinely
   nested calls count towards the recursion limit."

   Vocabulary (Spec/EvalInvSpec.v): [frame_names s] = the names of the frames on the stack, top
   first (so its length is the depth); [has_frame s] = the stack is not empty;
   [balanced m] (Proofs/EvalFrames.v) = m keeps the stack non-empty for every outcome and leaves
   the stack of frame names unchanged for every outcome other than a Go panic -- that is, also
   for Err, Sig next/exit/break/continue/return, Fuel and Unsupp. *)
From Coq Require Import List String ZArith.
From JQ Require Import Base.Bytes Num.F64 Syntax.Ast Syntax.Parser Json.JValue Json.Decode.
From JQ Require Import Sem.Value Sem.Natives Sem.Eval Sem.Driver.
From JQ Require Import Spec.EvalInvSpec Proofs.EvalInv Proofs.EvalFaults Proofs.EvalFrames Proofs.EvalDepth.
Import ListNotations.

(* every function of the evaluator and of the driver is balanced *)
Theorem frames_balanced :
  everywhere (fun A m => keeps has_frame m /\ preserves_unless_panic has_frame same_frames m).
Proof. exact frames_balanced_all. Qed.
Print Assumptions frames_balanced.

Theorem call_balanced : forall src funcs fz n tok fc args s r s',
  has_frame s -> call_function src funcs fz n tok fc args s = (r, s') -> r <> Panic ->
  frame_names s' = frame_names s.
Proof. exact EvalFrames.call_balanced. Qed.
Print Assumptions call_balanced.

(* after a call returns -- normally, with an error, with any signal -- the frame pushed for
   the callee is gone: the stack has the length it had before *)
Theorem callee_frame_gone : forall src funcs fz n tok fc args s r s',
  has_frame s -> call_function src funcs fz n tok fc args s = (r, s') -> r <> Panic ->
  length (frames s') = length (frames s) /\ has_frame s'.
Proof. exact EvalFrames.callee_frame_gone. Qed.
Print Assumptions callee_frame_gone.

Theorem match_balanced : forall src funcs fz n t sub cs s r s',
  has_frame s -> eval_match_cases src funcs fz n t sub cs s = (r, s') -> r <> Panic ->
  frame_names s' = frame_names s.
Proof. exact EvalFrames.match_balanced. Qed.
Print Assumptions match_balanced.

(* the rules run on one element, next statements included *)
Theorem rules_balanced : forall src funcs fz n rules s r s',
  has_frame s -> eval_rules src funcs fz n rules s = (r, s') -> r <> Panic ->
  frame_names s' = frame_names s.
Proof. exact EvalFrames.rules_balanced. Qed.
Print Assumptions rules_balanced.

(* evalPatternRules, one element at a time: [rules_start ... k i s s1] (Proofs/EvalFrames.v) is
   the set of states s1 in which the rules of some element are started by this loop *)
Theorem eval_elements_unfolds : forall src funcs fz n rules bid off len k i s,
  eval_elements src funcs fz n rules bid off len (S k) i s =
  match nth_error (get_back (hp s) bid) (off + i) with
  | None => (Panic, s)
  | Some item =>
    (element_prologue item i ;;;
     eval_rules src funcs fz n rules ;;;
     eval_elements src funcs fz n rules bid off len k (S i)) s
  end.
Proof. exact eval_elements_S_eq. Qed.
Print Assumptions eval_elements_unfolds.

(* every element's rules start on the frame stack the loop was entered with: the depth at which
   element number k is processed does not depend on k, nor on how many calls, matches and next
   statements were executed for the elements before it *)
Theorem history_independent : forall src funcs fz n rules bid off k i s s1,
  has_frame s ->
  rules_start src funcs fz n rules bid off k i s s1 ->
  has_frame s1 /\ frame_names s1 = frame_names s.
Proof. exact EvalFrames.history_independent. Qed.
Print Assumptions history_independent.

(* only genuinely nested calls count towards the recursion limit: whatever was executed for the
   elements before, a call made by the rules of the next element gets its frame *)
Theorem sequential_calls_do_not_accumulate : forall src funcs fz n rules bid off k i s s1 name,
  frame_names s = [bs "<root>"] ->
  rules_start src funcs fz n rules bid off k i s s1 ->
  push_frame name s1 = (Ok true, pushed name s1).
Proof. exact EvalDepth.sequential_calls_do_not_accumulate. Qed.
Print Assumptions sequential_calls_do_not_accumulate.

(* the whole run happens on the single <root> frame: only nested calls add depth *)
Theorem run_at_root : forall src prog fz sels n files r s',
  run_body src prog fz sels n files init_state = (r, s') -> r <> Panic ->
  frame_names s' = [bs "<root>"].
Proof. exact EvalFrames.run_at_root. Qed.
Print Assumptions run_at_root.

(* ------------------------------------------------------------------ non-vacuity *)

Definition hsrc : bytes :=
  bs "function f(x) { print match (x) { 1 => 1, _ => 0, } } { f($); next; print 9 }".
Definition hprog : program :=
  match parse_program hsrc with POk p _ => p | _ => empty_program end.
Definition num (z : Z) : jvalue := JNum (f_of_Z z).

(* calls, matches and next statements on four elements: the run ends on <root> alone *)
Example ex_run_at_root :
  let r := eval_program 2000 hsrc [(bs "f", mkR [bs "[1,2,1,3]"] false)] [] false in
  r_outcome r = OOk /\ frame_names (r_state r) = [bs "<root>"] /\
  output_of (io (r_state r)) = [49%N; 10%N; 48%N; 10%N; 49%N; 10%N; 48%N; 10%N].
Proof. vm_compute. repeat split. Qed.

(* an error raised two calls deep: both frames are popped on the way out *)
Example ex_error_balanced :
  let r := eval_program 2000
             (bs "function g(x) { return 1/x } function f(x) { return g(x) } BEGIN { f(0) }") [] [] false in
  (exists e, r_outcome r = ORuntime e) /\ frame_names (r_state r) = [bs "<root>"].
Proof. vm_compute. split; [eexists|]; reflexivity. Qed.

(* the state the element loop is entered in: NewEvaluator, then the array [1,2] *)
Definition hrun := (new_evaluator hsrc (pfuncs hprog) ;;; with_heap (new_value (JArr [num 1; num 2]))) init_state.
Definition hs0 : st := snd hrun.
Definition hbid : positive := match fst hrun with Ok (VArr b _ _) => b | _ => 1%positive end.
Definition hitem (s : st) (i : nat) : addr :=
  match nth_error (get_back (hp s) hbid) i with Some a => a | None => 1%positive end.
Definition hs1 : st := snd (element_prologue (hitem hs0 0) 0 hs0).
Definition hs2 : st := snd (eval_rules hsrc (pfuncs hprog) false 200 (prules hprog) hs1).
Definition hs3 : st := snd (element_prologue (hitem hs2 1) 1 hs2).

(* the second element's rules start in hs3, after a call, a match and a next for the first *)
Example ex_history :
  has_frame hs0 /\
  rules_start hsrc (pfuncs hprog) false 200 (prules hprog) hbid 0 2 0 hs0 hs3 /\
  frame_names hs3 = [bs "<root>"] /\
  output_of (io hs3) = [49%N; 10%N].
Proof.
  split; [vm_compute; discriminate|]. split.
  - eapply (rs_later _ _ _ _ _ _ _ 1 0 hs0 (hitem hs0 0) hs1 hs2 hs3).
    + vm_compute. reflexivity.
    + vm_compute. reflexivity.
    + vm_compute. reflexivity.
    + eapply (rs_here _ _ _ _ _ _ _ 0 1 hs2 (hitem hs2 1) hs3).
      * vm_compute. reflexivity.
      * vm_compute. reflexivity.
  - split; vm_compute; reflexivity.
Qed.

(* a call of f (whose body is a match) from the root frame: balanced *)
Definition hfc : addr :=
  match lookup_frames (frames hs0) (bs "f") with Some a => a | None => 1%positive end.
Definition hcall := call_function hsrc (pfuncs hprog) false 200 Token.zero_token hfc [VNum (f_of_Z 1)] hs0.

Example ex_call_balanced :
  has_frame hs0 /\
  call_function hsrc (pfuncs hprog) false 200 Token.zero_token hfc [VNum (f_of_Z 1)] hs0 = (fst hcall, snd hcall) /\
  (exists c, fst hcall = Ok c) /\ length (frames (snd hcall)) = 1 /\
  output_of (io (snd hcall)) = [49%N; 10%N].
Proof.
  split; [vm_compute; discriminate|]. split; [unfold hcall; destruct (call_function _ _ _ _ _ _ _ _); reflexivity|].
  split; [vm_compute; eexists; reflexivity|]. split; vm_compute; reflexivity.
Qed.

(* 6000 calls one after the other (more than the nesting limit): no error *)
Example ex_sequential_calls :
  let r := eval_program 100000
    (bs "function f(x) { return x } BEGIN { i = 0; while (i < 6000) { f(i); i = i + 1 } print i }") [] [] false in
  r_outcome r = OOk /\ output_of (io (r_state r)) = [54%N; 48%N; 48%N; 48%N; 10%N].
Proof. vm_compute. split; reflexivity. Qed.
