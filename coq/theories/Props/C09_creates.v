(* Props/C09_creates.v -- C09 (stores that create): an assignment to a missing member, or to a
   member named like a method of the receiver's prototype, creates exactly that member; an
   assignment below a missing member creates the intermediate object (string key) or array
   (numeric index, padded with null) first; nothing else in the heap changes.
   Statements only; proofs in Proofs/AssignCreate.v. *)
From Coq Require Import List ZArith Bool Lia.
From JQ Require Import Base.Bytes Num.F64 Gen.Generated Json.JValue.
From JQ Require Import Syntax.Token Sem.Value Sem.Natives Sem.Eval.
From JQ Require Import Spec.IdealList Proofs.Arrays Proofs.AssignCreate.
Import ListNotations.
Open Scope nat_scope.

(* o.k = y, o an object: k missing (a speculative member) or k the name of a prototype method
   (target_of gives the receiver cell and the key in both cases) *)
Theorem assign_creates_member : forall src n tok left right s parent m oid v,
  target_of (load (hp s) left) = Some (parent, m) ->
  load (hp s) parent = VObj oid ->
  copy_value (load (hp s) right) = Some v ->
  exists h',
    eval_assignment src (S n) tok left right s = (Ok left, set_hp s h') /\
    assoc_get (to_str m) (get_obj h' oid) = Some left /\
    load h' left = v /\
    (forall k, k <> to_str m -> assoc_get k (get_obj h' oid) = assoc_get k (get_obj (hp s) oid)) /\
    (forall o, o <> oid -> get_obj h' o = get_obj (hp s) o) /\
    (forall a, a <> left -> load h' a = load (hp s) a) /\
    (forall b, get_back h' b = get_back (hp s) b).
Proof. exact AssignCreate.assign_creates_member. Qed.
Print Assumptions assign_creates_member.

(* o.a.k = y, o an object without a: a fresh object is stored under a and receives k *)
Theorem assign_creates_intermediate_object : forall src n tok left right s pcell ocell a k oid v,
  load (hp s) left = VNil (Some (pcell, KStr k)) ->
  load (hp s) pcell = VNil (Some (ocell, KStr a)) ->
  load (hp s) ocell = VObj oid ->
  (left < next (hp s))%positive -> (right < next (hp s))%positive ->
  (ocell < next (hp s))%positive -> (oid < next (hp s))%positive ->
  copy_value (load (hp s) right) = Some v ->
  exists pc newo h',
    eval_assignment src (S (S n)) tok left right s = (Ok left, set_hp s h') /\
    (next (hp s) <= pc)%positive /\ (next (hp s) <= newo)%positive /\
    assoc_get a (get_obj h' oid) = Some pc /\
    load h' pc = VObj newo /\
    get_obj h' newo = [(k, left)] /\
    load h' left = v /\
    (forall k', k' <> a -> assoc_get k' (get_obj h' oid) = assoc_get k' (get_obj (hp s) oid)) /\
    (forall o, o <> oid -> o <> newo -> get_obj h' o = get_obj (hp s) o) /\
    (forall c, c <> left -> (c < next (hp s))%positive -> load h' c = load (hp s) c) /\
    (forall b, get_back h' b = get_back (hp s) b).
Proof. exact AssignCreate.assign_creates_intermediate_object. Qed.
Print Assumptions assign_creates_intermediate_object.

(* o.a[i] = y, o an object without a, 0 <= i <= fill limit: a fresh array [null, ..., null, y] *)
Theorem assign_creates_intermediate_array : forall src n tok left right s pcell ocell a f oid v,
  load (hp s) left = VNil (Some (pcell, KNum f)) ->
  load (hp s) pcell = VNil (Some (ocell, KStr a)) ->
  load (hp s) ocell = VObj oid ->
  (left < next (hp s))%positive -> (right < next (hp s))%positive ->
  (ocell < next (hp s))%positive ->
  copy_value (load (hp s) right) = Some v ->
  (0 <= f_trunc_int64 f <= fill_limit)%Z ->
  exists pc item h',
    eval_assignment src (S (S n)) tok left right s = (Ok item, set_hp s h') /\
    (next (hp s) <= pc)%positive /\ (next (hp s) <= item)%positive /\
    assoc_get a (get_obj h' oid) = Some pc /\
    abs h' pc = Some (repeat nil_value (Z.to_nat (f_trunc_int64 f)) ++ [v]) /\
    wf_holder h' pc /\
    nth_error (cells_of h' pc) (Z.to_nat (f_trunc_int64 f)) = Some item /\
    load h' item = v /\
    Forall (fun c => (next (hp s) <= c)%positive) (cells_of h' pc) /\
    (forall k', k' <> a -> assoc_get k' (get_obj h' oid) = assoc_get k' (get_obj (hp s) oid)) /\
    (forall o, o <> oid -> get_obj h' o = get_obj (hp s) o) /\
    (forall c, (c < next (hp s))%positive -> load h' c = load (hp s) c) /\
    (forall b, (b < next (hp s))%positive -> get_back h' b = get_back (hp s) b).
Proof. exact AssignCreate.assign_creates_intermediate_array. Qed.
Print Assumptions assign_creates_intermediate_array.

(* the hypotheses are satisfiable: concrete heaps (from Proofs/AssignCreate.v) *)

Example creates_object_nonvacuous : True /\ ltac:(let ty := type of AssignCreate.assign_creates_intermediate_object_ex in exact ty).
Proof. split; [exact I|exact AssignCreate.assign_creates_intermediate_object_ex]. Qed.

Example creates_array_nonvacuous : True /\ ltac:(let ty := type of AssignCreate.assign_creates_intermediate_array_ex in exact ty).
Proof. split; [exact I|exact AssignCreate.assign_creates_intermediate_array_ex]. Qed.

(* o.length = 1 on an empty object o: [left] is the bound copy of the prototype's method *)
Definition ex_method : heap * addr * addr * addr :=
  let '(o, h1) := new_empty_object empty_heap in
  let '(po, h2) := alloc h1 o in
  let '(l, h3) := alloc h2 (VNative NObjLength (Some po)) in
  let '(r, h4) := alloc h3 (VNum f_one) in (h4, po, l, r).
Example assign_method_name_ex :
  let '(h, po, l, r) := ex_method in
  target_of (load h l) = Some (po, VStr (bs "length")) /\
  load h po = VObj 2 /\
  (let s' := snd (eval_assignment [] 1 (Token.mkTok Token.TDollar 0 0) l r (mkSt h [] None None None [])) in
   get_obj (hp s') 2 = [(bs "length", l)] /\ load (hp s') l = VNum f_one).
Proof. vm_compute. repeat split; reflexivity. Qed.
