(* Props/C09_incdec.v -- C09 (++ and --): the operand's location receives old+1 / old-1 and the
   expression yields the old (postfix) or the new (prefix) value in a fresh cell; on a missing
   member of an object (or a member named like a prototype method) the member is created
   (null counts as 0); nothing else in the heap changes.  `a op= b` is `a = a op b` by
   C06_syntax.compound_desugar.  Statements only; proofs in Proofs/IncrDecr.v. *)
From Coq Require Import List ZArith Bool Lia.
From JQ Require Import Base.Bytes Num.F64 Gen.Generated Json.JValue.
From JQ Require Import Syntax.Token Syntax.Ast Sem.Value Sem.Ops Sem.Natives Sem.Eval Sem.Driver.
From JQ Require Import Spec.IdealList Proofs.Arrays Proofs.AssignCreate Proofs.IncrDecr.
Import ListNotations.
Open Scope nat_scope.

Theorem incdec_plain : forall src funcs fz f x op postfix s vc s1 v old (up : bool),
  eval_expr src funcs fz f x s = (Ok vc, s1) ->
  load (hp s1) vc = v ->
  as_float v = Some old ->
  (forall p, v <> VNil (Some p)) -> (forall nf p, v <> VNative nf (Some p)) ->
  (vc < next (hp s1))%positive ->
  uop_of (ttag op) = (if up then UInc else UDec) ->
  let newv := if up then f_add old f_one else f_sub old f_one in
  exists r h2,
    eval_unary src funcs fz (S f) x op postfix s = (Ok r, set_hp s1 h2) /\
    load h2 vc = VNum newv /\
    load h2 r = VNum (if postfix then old else newv) /\
    r = Pos.succ (next (hp s1)) /\ (next (hp s1) <= r)%positive /\
    load h2 (next (hp s1)) = VNum newv /\
    next h2 = Pos.succ (Pos.succ (next (hp s1))) /\
    (forall a, (a < next (hp s1))%positive -> a <> vc -> load h2 a = load (hp s1) a) /\
    (forall o, get_obj h2 o = get_obj (hp s1) o) /\
    (forall b, get_back h2 b = get_back (hp s1) b).
Proof. exact IncrDecr.incdec_plain. Qed.
Print Assumptions incdec_plain.

Theorem incdec_missing_member : forall src funcs fz f x op postfix s vc s1 parent m oid (up : bool),
  eval_expr src funcs fz f x s = (Ok vc, s1) ->
  target_of (load (hp s1) vc) = Some (parent, m) ->
  load (hp s1) parent = VObj oid ->
  (vc < next (hp s1))%positive -> (parent < next (hp s1))%positive ->
  uop_of (ttag op) = (if up then UInc else UDec) ->
  let newv := if up then f_add f_zero f_one else f_sub f_zero f_one in
  exists r h2,
    eval_unary src funcs fz (S f) x op postfix s = (Ok r, set_hp s1 h2) /\
    assoc_get (to_str m) (get_obj h2 oid) = Some vc /\
    load h2 vc = VNum newv /\
    load h2 r = VNum (if postfix then f_zero else newv) /\
    r = Pos.succ (next (hp s1)) /\ (next (hp s1) <= r)%positive /\
    load h2 (next (hp s1)) = VNum newv /\
    next h2 = Pos.succ (Pos.succ (next (hp s1))) /\
    (forall k', k' <> to_str m -> assoc_get k' (get_obj h2 oid) = assoc_get k' (get_obj (hp s1) oid)) /\
    (forall o, o <> oid -> get_obj h2 o = get_obj (hp s1) o) /\
    (forall a, (a < next (hp s1))%positive -> a <> vc -> load h2 a = load (hp s1) a) /\
    (forall b, get_back h2 b = get_back (hp s1) b).
Proof. exact IncrDecr.incdec_missing_member. Qed.
Print Assumptions incdec_missing_member.

(* satisfiable hypotheses and whole-program runs (x = 5; print x++ ... prints 5 6 7 7 7 5 5) *)
Example incdec_plain_postfix_ex_holds : ltac:(let ty := type of IncrDecr.incdec_plain_postfix_ex in exact ty).
Proof. exact IncrDecr.incdec_plain_postfix_ex. Qed.
Example incdec_plain_prefix_ex_holds : ltac:(let ty := type of IncrDecr.incdec_plain_prefix_ex in exact ty).
Proof. exact IncrDecr.incdec_plain_prefix_ex. Qed.
Example incdec_missing_member_ex_holds : ltac:(let ty := type of IncrDecr.incdec_missing_member_ex in exact ty).
Proof. exact IncrDecr.incdec_missing_member_ex. Qed.
Example incdec_run_ex_holds : ltac:(let ty := type of IncrDecr.incdec_run_ex in exact ty).
Proof. exact IncrDecr.incdec_run_ex. Qed.
Example incdec_run_member_ex_holds : ltac:(let ty := type of IncrDecr.incdec_run_member_ex in exact ty).
Proof. exact IncrDecr.incdec_run_member_ex. Qed.
