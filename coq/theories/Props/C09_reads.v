(* C09 (part): "Evaluating an expression that contains no assignment and no mutating method
   call never changes the input document."
   Model: Sem/Eval.v eval_expr; vocabulary: Spec/Pure.v (pure_expr, heap_preserved, doc_at);
   proofs: Proofs/Pure.v, Proofs/Pretty.v. *)
From Coq Require Import List Bool PArith NArith ZArith FMapPositive.
From JQ Require Import Base.Bytes Num.F64 Syntax.Token Syntax.Lexer Syntax.Ast Syntax.Parser.
From JQ Require Import Json.JValue Json.Encode.
From JQ Require Import Gen.Generated Sem.Value Sem.Ops Sem.Natives Sem.Eval Sem.Driver.
From JQ Require Import Spec.Pure.
From JQ Require Proofs.Pure Proofs.Pretty.
Import ListNotations.

(* Whatever the outcome (value, error, fuel, ...), a pure expression leaves every backing
   array, every object and every cell that holds a value as it was; only new allocations
   and the auto-vivification of unset variable cells happen. *)
Theorem read_pure : forall src funcs fz n e, pure_expr e = true ->
  forall s r s', eval_expr src funcs fz n e s = (r, s') -> heap_preserved (hp s) (hp s').
Proof. exact Proofs.Pure.read_pure. Qed.
Print Assumptions read_pure.

(* ... and e.root / e.ruleRoot still point to the same cells *)
Theorem read_pure_roots : forall src funcs fz n e, pure_expr e = true ->
  forall s r s', eval_expr src funcs fz n e s = (r, s') ->
    heap_preserved (hp s) (hp s') /\ root s' = root s /\ rule_root s' = rule_root s.
Proof. exact Proofs.Pure.read_pure_st. Qed.
Print Assumptions read_pure_roots.

(* NewValue builds a document (doc_at: none of its cells is unset), changing nothing else *)
Theorem new_value_no_unknown : forall j h v h',
  new_value j h = (v, h') -> v <> VUnknown /\ doc_at h' (next h') v j /\ heap_preserved h h'.
Proof. exact Proofs.Pure.new_value_no_unknown. Qed.
Print Assumptions new_value_no_unknown.

(* every cell / backing / object of a document is unchanged, so it still converts to the
   same JSON value *)
Theorem document_unchanged : forall src funcs fz n e, pure_expr e = true ->
  forall s r s' p v j,
    doc_at (hp s) p v j -> Pos.le p (next (hp s)) ->
    eval_expr src funcs fz n e s = (r, s') ->
    doc_at (hp s') p v j /\
    to_go_value (hp s') v = GoOk j /\ to_go_value (hp s) v = GoOk j.
Proof. exact Proofs.Pretty.document_unchanged. Qed.
Print Assumptions document_unchanged.

(* the input document as GetRootJson reports it is the same text before and after *)
Theorem root_json_unchanged : forall src funcs fz n e, pure_expr e = true ->
  forall s r s' rc p j,
    root s = Some rc -> Pos.lt rc (next (hp s)) -> load (hp s) rc <> VUnknown ->
    doc_at (hp s) p (load (hp s) rc) j -> Pos.le p (next (hp s)) ->
    eval_expr src funcs fz n e s = (r, s') ->
    get_root_json s' = get_root_json s.
Proof. exact Proofs.Pretty.root_json_unchanged. Qed.
Print Assumptions root_json_unchanged.

(* ---------------------------------------------------------------- examples *)

(* {"a": [1, "x", []], "b": {}} as the root, built the way the driver does *)
Definition ex_doc : jvalue :=
  JObj [(bs "a", JArr [JNum (f_of_Z 1); JStr (bs "x"); JArr []]); (bs "b", JObj [])].
Definition ex_nv := new_value ex_doc empty_heap.
Definition ex_al := alloc (snd ex_nv) (fst ex_nv).
Definition ex_st : st :=
  mkSt (snd ex_al) [mkFrame (bs "<root>") []] (Some (fst ex_al)) (Some (fst ex_al)) None [].
Definition ex_src := bs "$.a[0] + 1".
Definition ex_expr : expr :=
  match parse_expression_src ex_src with POk e _ => e | _ => ELit (mkTok TNull 0 0) end.
(* an unset variable is auto-vivified by a member access *)
Definition ex_src2 := bs "[x.k, $.b]".
Definition ex_expr2 : expr :=
  match parse_expression_src ex_src2 with POk e _ => e | _ => ELit (mkTok TNull 0 0) end.

Example read_pure_ex :
  pure_expr ex_expr = true /\
  exists c s', eval_expr ex_src [] false 30 ex_expr ex_st = (Ok c, s') /\
    pretty_string (hp s') (load (hp s') c) = Some (bs "2") /\
    next (hp s') <> next (hp ex_st) /\
    heap_preserved (hp ex_st) (hp s').
Proof.
  assert (Hp : pure_expr ex_expr = true) by (vm_compute; reflexivity).
  split; [exact Hp|].
  destruct (eval_expr ex_src [] false 30 ex_expr ex_st) as [r s'] eqn:E.
  pose proof (read_pure _ _ _ _ _ Hp _ _ _ E) as Hh.
  vm_compute in E. inversion E; subst r s'. clear E.
  eexists; eexists. split; [reflexivity|]. split; [vm_compute; reflexivity|].
  split; [vm_compute; discriminate|exact Hh].
Qed.

Example read_pure_vivify_ex :
  pure_expr ex_expr2 = true /\
  exists c s', eval_expr ex_src2 [] false 30 ex_expr2 ex_st = (Ok c, s') /\
    pretty_string (hp s') (load (hp s') c) = Some (bs "[null, {}]") /\
    get_root_json s' = get_root_json ex_st.
Proof.
  assert (Hp : pure_expr ex_expr2 = true) by (vm_compute; reflexivity).
  split; [exact Hp|].
  destruct (eval_expr ex_src2 [] false 30 ex_expr2 ex_st) as [r s'] eqn:E.
  assert (Hj : get_root_json s' = get_root_json ex_st).
  { destruct (Proofs.Pure.driver_root_doc ex_doc empty_heap) as (Hd & Hlt & Hu).
    eapply (root_json_unchanged ex_src2 [] false 30 ex_expr2 Hp ex_st r s' (fst ex_al) (fst ex_al) ex_doc);
      try reflexivity; try assumption.
    vm_compute. discriminate. }
  vm_compute in E. inversion E; subst r s'. clear E.
  eexists; eexists. split; [reflexivity|]. split; [vm_compute; reflexivity|exact Hj].
Qed.

Example new_value_no_unknown_ex :
  doc_at (snd ex_nv) (next (snd ex_nv)) (fst ex_nv) ex_doc /\ fst ex_nv = VObj 10%positive.
Proof.
  split; [|vm_compute; reflexivity].
  apply (new_value_no_unknown ex_doc empty_heap). apply surjective_pairing.
Qed.

Example document_unchanged_ex : forall n r s',
  eval_expr ex_src [] false n ex_expr ex_st = (r, s') ->
  to_go_value (hp s') (fst ex_nv) = GoOk ex_doc.
Proof.
  intros n r s' E.
  destruct (new_value_no_unknown ex_doc empty_heap _ _ (surjective_pairing _)) as (_ & Hd & _).
  assert (Hd' : doc_at (hp ex_st) (next (snd ex_nv)) (fst ex_nv) ex_doc).
  { eapply Proofs.Pure.doc_at_stable; [exact Hd|]. apply Proofs.Pure.hp_below_alloc. apply Pos.le_refl. }
  assert (Hp : pure_expr ex_expr = true) by (vm_compute; reflexivity).
  assert (Hle : Pos.le (next (snd ex_nv)) (next (hp ex_st))) by (vm_compute; discriminate).
  destruct (document_unchanged ex_src [] false n ex_expr Hp ex_st r s' _ _ _ Hd' Hle E) as (_ & G & _).
  exact G.
Qed.
