(* Props/C09_stores.v -- C09 (stores): what assignment copies and what it shares, the shape of
   index stores (padding with null, negative indices), object stores; and the NEGATIVE fact
   that a length change of an array is not visible through a second name.
   Statements only; proofs in Proofs/Arrays.v. *)
From Coq Require Import List ZArith Bool Lia.
From JQ Require Import Base.Bytes Num.F64 Gen.Generated Json.JValue.
From JQ Require Import Sem.Value Sem.Natives Sem.Eval.
From JQ Require Import Spec.IdealList Proofs.Arrays Props.C15_arrays.
Import ListNotations.
Open Scope nat_scope.

(* scalars, strings and regexes are copied; null becomes a plain null; arrays (the slice
   header), objects (the map pointer) and unset values are shared; functions are refused *)
Theorem copy_value_table : forall v,
  match v with
  | VNum _ | VBool _ | VStr _ | VRegex _ => copy_value v = Some v
  | VNil _ => copy_value v = Some (VNil None)
  | VArr _ _ _ | VObj _ | VUnknown => copy_value v = Some v
  | VNative _ _ | VFn _ => copy_value v = None
  end.
Proof. exact Arrays.copy_value_table. Qed.
Print Assumptions copy_value_table.
Example copy_value_table_ex :
  copy_value (VNil (Some (1%positive, KStr (bs "k")))) = Some (VNil None) /\
  copy_value (VArr 5 0 2) = Some (VArr 5 0 2) /\ copy_value (VFn 0) = None.
Proof. repeat split. Qed.

(* x = y with x an ordinary cell (neither a speculative member nor a method found through a
   prototype, both of which name a member to create on their receiver) stores the copy of
   y's value in x *)
Theorem assign_plain : forall src n tok left right s v,
  (forall p, load (hp s) left <> VNil (Some p)) ->
  (forall nf p, load (hp s) left <> VNative nf (Some p)) ->
  copy_value (load (hp s) right) = Some v ->
  eval_assignment src n tok left right s = (Ok left, set_hp s (store (hp s) left v)).
Proof. exact Arrays.assign_plain. Qed.
Print Assumptions assign_plain.

Example assign_plain_ex :
  (forall p, load ex_h 2%positive <> VNil (Some p)) /\
  (forall nf p, load ex_h 2%positive <> VNative nf (Some p)) /\
  copy_value (load ex_h ex_pa) = Some (load ex_h ex_pa) /\
  (* x = a, with x the cell 2: both cells now hold the same slice header *)
  load (hp (snd (eval_assignment [] 1 (Token.mkTok Token.TDollar 0 0) 2%positive ex_pa (st_of ex_h)))) 2%positive
  = load ex_h ex_pa.
Proof. split; [intros p; vm_compute; discriminate|]. split; [intros nf p; vm_compute; discriminate|]. vm_compute. split; reflexivity. Qed.

(* a[f] = v through Value.SetMember on a well-formed holder *)
Theorem set_member_fill_shape : forall s pa f cell l,
  wf_holder (hp s) pa -> abs (hp s) pa = Some l ->
  cell <> pa -> (cell < next (hp s))%positive ->
  let v := load (hp s) cell in
  let i := f_trunc_int64 f in
  let n := Z.of_nat (length l) in
  exists r h',
    set_member pa (VNum f) cell s = (Ok r, set_hp s h') /\ wf_holder h' pa /\
    ((n <= i <= fill_limit)%Z ->
       r <> None /\ abs h' pa = Some (l ++ repeat nil_value (Z.to_nat (i - n)) ++ [v])) /\
    ((n <= i)%Z -> (fill_limit < i)%Z -> r = None /\ h' = hp s) /\
    ((0 <= i < n)%Z -> r <> None /\ abs h' pa = Some (list_set l (Z.to_nat i) v)) /\
    ((- n <= i < 0)%Z -> r <> None /\ abs h' pa = Some (list_set l (Z.to_nat (n + i)) v)) /\
    ((i < - n)%Z -> r = None /\ h' = hp s).
Proof. exact Arrays.set_member_fill_shape. Qed.
Print Assumptions set_member_fill_shape.

(* the example: a = [1, "x", null]; a[5] = true; a[-1] = "z"; a[-9] = 0 is an error *)
Example set_member_fill_shape_ex :
  fst (run_ops ex_pa (st_of ex_h) [SetAt (f_of_Z 5) (VBool true); SetAt (f_of_Z (-1)) (VStr (bs "z"));
                                   SetAt (f_of_Z (-9)) (VNum f_zero)])
    = [RDone; RDone; RErr] /\
  abs (hp (snd (run_ops ex_pa (st_of ex_h) [SetAt (f_of_Z 5) (VBool true); SetAt (f_of_Z (-1)) (VStr (bs "z"));
                                            SetAt (f_of_Z (-9)) (VNum f_zero)]))) ex_pa
    = Some [VNum f_one; VStr (bs "x"); VNil None; VNil None; VNil None; VStr (bs "z")].
Proof. vm_compute. split; reflexivity. Qed.

(* a store into an object sets exactly that key of the (shared) map and nothing else *)
Theorem set_member_object : forall s recv oid m cell,
  load (hp s) recv = VObj oid ->
  let h' := set_obj (hp s) oid (assoc_set (to_str m) cell (get_obj (hp s) oid)) in
  set_member recv m cell s = (Ok (Some cell), set_hp s h') /\
  assoc_get (to_str m) (get_obj h' oid) = Some cell /\
  (forall k, k <> to_str m -> assoc_get k (get_obj h' oid) = assoc_get k (get_obj (hp s) oid)) /\
  (forall o, o <> oid -> get_obj h' o = get_obj (hp s) o) /\
  (forall a, load h' a = load (hp s) a) /\
  (forall b, get_back h' b = get_back (hp s) b).
Proof. exact Arrays.set_member_object. Qed.
Print Assumptions set_member_object.

Definition ex_obj : heap * addr * addr * addr :=
  let '(o, h1) := new_empty_object empty_heap in
  let '(pa, h2) := alloc h1 o in
  let '(pb, h3) := alloc h2 o in
  let '(c, h4) := alloc h3 (VNum f_one) in (h4, pa, pb, c).
Example set_member_object_ex :
  let '(h, pa, pb, c) := ex_obj in
  load h pa = VObj 2 /\
  (let s' := snd (set_member pa (VNum f_one) c (st_of h)) in
   get_obj (hp s') 2 = [(bs "1", c)]).
Proof. vm_compute. split; reflexivity. Qed.

(* objects are shared *)
Theorem object_store_shared : forall s pa pb oid m cell,
  load (hp s) pa = VObj oid -> load (hp s) pb = VObj oid ->
  (match m with VNum _ | VStr _ => True | _ => False end) ->
  exists h', set_member pb m cell s = (Ok (Some cell), set_hp s h') /\
             get_member h' (load h' pa) m = GmCell cell.
Proof. exact Arrays.object_store_shared. Qed.
Print Assumptions object_store_shared.

Example object_store_shared_ex :
  let '(h, pa, pb, c) := ex_obj in
  load h pa = VObj 2 /\ load h pb = VObj 2 /\
  get_member (hp (snd (set_member pb (VStr (bs "k")) c (st_of h))))
             (load (hp (snd (set_member pb (VStr (bs "k")) c (st_of h)))) pa) (VStr (bs "k")) = GmCell c.
Proof. vm_compute. repeat split; reflexivity. Qed.

(* arrays share their elements: an in-range element store through one holder of a header
   is seen through every holder of the same header *)
Theorem array_element_store_shared : forall s pa pb f cell l,
  wf_holder (hp s) pa -> wf_holder (hp s) pb -> load (hp s) pa = load (hp s) pb ->
  abs (hp s) pa = Some l ->
  cell <> pb -> (cell < next (hp s))%positive ->
  (- Z.of_nat (length l) <= f_trunc_int64 f < Z.of_nat (length l))%Z ->
  exists r h', set_member pb (VNum f) cell s = (Ok r, set_hp s h') /\ r <> None /\
               abs h' pa = abs h' pb /\
               abs h' pb = Some (fst (ideal_set l (f_trunc_int64 f) (load (hp s) cell))).
Proof. exact Arrays.array_element_store_shared. Qed.
Print Assumptions array_element_store_shared.

Example array_element_store_shared_ex :
  let '(pb, h) := alloc ex_h (load ex_h ex_pa) in          (* b = a *)
  let s' := snd (set_member pb (VNum (f_of_Z (-3))) 3%positive (st_of h)) in   (* b[-3] = "x" *)
  abs (hp s') ex_pa = Some [VStr (bs "x"); VStr (bs "x"); VNil None] /\ abs (hp s') pb = abs (hp s') ex_pa.
Proof. vm_compute. split; reflexivity. Qed.

(* ---------------------------------------------------------------- the negative fact *)

(* b = a; a.push(x): the two names hold the same slice header, the push through [pa] changes
   only the header stored in [pa] -- the new element is NOT visible through [pb].  C09's
   "arrays are shared" therefore fails for length changes (known finding F-C09-alias). *)
Definition ex_alias : heap * addr * addr :=
  let '(pb, h) := alloc ex_h (load ex_h ex_pa) in (h, ex_pa, pb).

Theorem array_length_change_not_shared_refuted :
  exists h pa pb x l,
    wf_holder h pa /\ wf_holder h pb /\ pa <> pb /\ load h pa = load h pb /\
    abs h pa = Some l /\ abs h pb = Some l /\
    let h' := hp (snd (native_call NPush [x] (Some pa) (st_of h))) in
    abs h' pa = Some (l ++ [x]) /\ abs h' pb = Some l /\ abs h' pa <> abs h' pb.
Proof.
  exists (fst (fst ex_alias)), (snd (fst ex_alias)), (snd ex_alias), (VBool true), ex_l.
  split; [solve_wf|]. split; [solve_wf|].
  vm_compute. repeat split; try reflexivity; discriminate.
Qed.
Print Assumptions array_length_change_not_shared_refuted.

(* the same in the other direction: pop through one name does not shorten the other *)
Theorem array_pop_not_shared_refuted :
  exists h pa pb l,
    wf_holder h pa /\ wf_holder h pb /\ load h pa = load h pb /\ abs h pa = Some l /\
    let h' := hp (snd (native_call NPop [] (Some pa) (st_of h))) in
    abs h' pa = Some (removelast l) /\ abs h' pb = Some l /\ abs h' pa <> abs h' pb.
Proof.
  exists (fst (fst ex_alias)), (snd (fst ex_alias)), (snd ex_alias), ex_l.
  split; [solve_wf|]. split; [solve_wf|].
  vm_compute. repeat split; try reflexivity; discriminate.
Qed.
Print Assumptions array_pop_not_shared_refuted.
