(* C10: determinism.  Final statements only; proofs in Proofs/AssocCanon.v and
   Proofs/Determinism.v.

   The model has no process-global state at all: [eval_program] is a closed Gallina function
   of (fuel, program text, files = names and readers, selectors, fuzzing flag), the four
   prototypes are the closed tables array_proto / obj_proto / str_proto / num_proto
   (immutable in Go since fix f9274ed), and Go's randomised map iteration is not reachable
   because an object is kept as its key-sorted association list: [run_is_function] is
   therefore immediate, and the content is that this representation is CANONICAL -- the list
   an object holds is determined by its key -> cell map, whatever the insertion history. *)
From Coq Require Import Sorted.
From JQ Require Import Base.Bytes Num.F64 Syntax.Token Syntax.Lexer Syntax.Ast Syntax.Parser.
From JQ Require Import Json.JValue Json.Decode.
From JQ Require Import Gen.Generated Sem.Value Sem.Natives Sem.Eval Sem.Driver.
From JQ Require Import Proofs.AssocCanon Proofs.Determinism.
Open Scope nat_scope.

Definition run_out (p inp : string) : outcome * bytes :=
  let r := eval_program 3000 (bs p) [(bs "f.json", mkR [bs inp] false)] [] false in
  (r_outcome r, output_of (io (r_state r))).

(* stdout, the JSON output and the outcome are a function of program text, selectors, input *)
Theorem run_is_function : forall n n' src src' files files' sels sels' fz fz',
  n = n' -> src = src' -> files = files' -> sels = sels' -> fz = fz' ->
  eval_program n src files sels fz = eval_program n' src' files' sels' fz' /\
  observation (eval_program n src files sels fz)
  = observation (eval_program n' src' files' sels' fz').
Proof. exact run_is_function_l. Qed.
Print Assumptions run_is_function.

Example run_is_function_ex :
  observation (eval_program 3000 (bs "{ s += $ } END { print s }") [(bs "f", mkR [bs "[1,2,3]"] false)] [] false)
  = (bs "6
", JsonText (bs "[
  1,
  2,
  3
]"), OOk).
Proof. vm_compute. reflexivity. Qed.

(* method lookup consults closed tables only: no state, no heap *)
Theorem proto_lookup_pure :
  (forall h1 h2 f m, get_member h1 (VNum f) m = get_member h2 (VNum f) m) /\
  (forall h1 h2 s m, get_member h1 (VStr s) m = get_member h2 (VStr s) m) /\
  (forall h f m, get_member h (VNum f) m = proto_get num_proto m) /\
  (forall h s m, match m with VNum _ => False | _ => True end ->
                 get_member h (VStr s) m = proto_get str_proto m) /\
  (forall h bid off len m, match m with VNum _ => False | _ => True end ->
                           get_member h (VArr bid off len) m = proto_get array_proto m) /\
  (forall h oid m, match m with VNum _ | VStr _ => True | _ => False end ->
                   assoc_get (to_str m) (get_obj h oid) = None ->
                   get_member h (VObj oid) m = proto_get obj_proto m) /\
  (forall tbl m1 m2, match m1, m2 with
                     | VNum _, VNum _ | VNum _, VStr _ | VStr _, VNum _ | VStr _, VStr _ => True
                     | _, _ => False end ->
                     to_str m1 = to_str m2 -> proto_get tbl m1 = proto_get tbl m2).
Proof. exact proto_lookup_pure_l. Qed.
Print Assumptions proto_lookup_pure.

(* a program cannot change a prototype: the assignment creates no method, later lookups agree *)
Example proto_lookup_pure_ex :
  proto_get array_proto (VStr (bs "push")) = GmNative NPush /\
  fst (run_out "BEGIN { a = [3,1,2]; print a.length(); b = [1]; print b.length() }" "") = OOk.
Proof. split; vm_compute; reflexivity. Qed.

(* ---- bytes_cmp is a strict total order ---- *)
Theorem bytes_cmp_strict_total_order :
  (forall a b, bytes_cmp a b = Eq <-> a = b) /\
  (forall a b, bytes_cmp b a = CompOpp (bytes_cmp a b)) /\
  (forall a b c, bytes_cmp a b = Lt -> bytes_cmp b c = Lt -> bytes_cmp a c = Lt) /\
  (forall a, bytes_cmp a a <> Lt) /\
  (forall a b, bytes_cmp a b = Lt \/ a = b \/ bytes_cmp b a = Lt).
Proof.
  exact (conj bytes_cmp_eq (conj bytes_cmp_antisym (conj bytes_cmp_lt_trans
          (conj bytes_cmp_lt_irrefl bytes_cmp_total)))).
Qed.
Print Assumptions bytes_cmp_strict_total_order.

Example bytes_cmp_ex : bytes_cmp (bs "Zeta") (bs "alpha") = Lt /\ bytes_cmp (bs "ab") (bs "a") = Gt.
Proof. split; reflexivity. Qed.

(* ---- m[k] = v keeps the keys strictly ascending ---- *)
Theorem assoc_set_sorted : forall (A : Type) k (v : A) l,
  keys_sorted l -> keys_sorted (assoc_set k v l).
Proof. exact (@AssocCanon.assoc_set_sorted). Qed.
Print Assumptions assoc_set_sorted.

Theorem assoc_set_get : forall (A : Type) k (v : A) l k',
  assoc_get k' (assoc_set k v l) = if bytes_eqb k' k then Some v else assoc_get k' l.
Proof. exact (@AssocCanon.assoc_set_get). Qed.
Print Assumptions assoc_set_get.

(* for distinct keys the order of two insertions does not matter *)
Theorem assoc_set_commute : forall (A : Type) k1 (v1 : A) k2 v2 l,
  keys_sorted l -> k1 <> k2 ->
  assoc_set k1 v1 (assoc_set k2 v2 l) = assoc_set k2 v2 (assoc_set k1 v1 l).
Proof. exact (@AssocCanon.assoc_set_commute). Qed.
Print Assumptions assoc_set_commute.

Example assoc_set_ex :
  let l := assoc_set (bs "m") 1 (assoc_set (bs "b") 2 []) in
  keys_sorted l /\
  assoc_set (bs "z") 3 (assoc_set (bs "a") 4 l) = assoc_set (bs "a") 4 (assoc_set (bs "z") 3 l) /\
  map fst (assoc_set (bs "z") 3 (assoc_set (bs "a") 4 l)) = [bs "a"; bs "b"; bs "m"; bs "z"] /\
  assoc_get (bs "m") (assoc_set (bs "z") 3 l) = Some 1.
Proof.
  cbv zeta. split; [|split; [|split]]; try (vm_compute; reflexivity).
  apply AssocCanon.assoc_set_sorted, AssocCanon.assoc_set_sorted. constructor.
Qed.

(* ---- objects are canonical ---- *)
(* a strictly ascending list is determined by the map it represents; hence two insertion
   histories (into the same canonical start) with the same last write per key build the
   same list; on the heap: the member list of the object after either sequence of
   SetMember writes is the same, every object stays canonical, and what print / JSON output /
   for-in compute from equal member lists is equal (they iterate [get_obj h oid]:
   Value.pretty_fuel, Value.to_go_fuel, the SForIn branch of Eval.eval_stmt), the keys being
   visited in ascending byte order. *)
Theorem object_order_canonical :
  (forall (A : Type) (l1 l2 : list (bytes * A)),
      keys_sorted l1 -> keys_sorted l2 ->
      (forall k, assoc_get k l1 = assoc_get k l2) -> l1 = l2) /\
  (forall (A : Type) (h1 h2 l : list (bytes * A)),
      keys_sorted l -> (forall k, last_write k h1 = last_write k h2) ->
      insert_all h1 l = insert_all h2 l) /\
  (forall o h1 h2 (h : heap),
      keys_sorted (get_obj h o) -> (forall k, last_write k h1 = last_write k h2) ->
      get_obj (write_all o h1 h) o = get_obj (write_all o h2 h) o) /\
  (forall h o l1 l2,
      keys_sorted l1 -> keys_sorted l2 -> (forall k, assoc_get k l1 = assoc_get k l2) ->
      set_obj h o l1 = set_obj h o l2 /\
      (forall v, pretty_string (set_obj h o l1) v = pretty_string (set_obj h o l2) v) /\
      (forall v, to_go_value (set_obj h o l1) v = to_go_value (set_obj h o l2) v) /\
      map fst (get_obj (set_obj h o l1) o) = map fst (get_obj (set_obj h o l2) o)) /\
  (forall (A : Type) (l : list (bytes * A)),
      keys_sorted l -> StronglySorted (fun a b => bytes_cmp a b = Lt) (map fst l)).
Proof.
  exact (conj (@keys_sorted_ext) (conj (@insert_all_canonical) (conj object_order_canonical_l
          (conj object_iteration_canonical_l keys_ascending)))).
Qed.
Print Assumptions object_order_canonical.

(* the same members inserted in two orders: print, for-in and -o see the same object *)
Example object_order_canonical_ex :
  run_out "BEGIN { a.x = 1; a.y = 2; a.b = 3; c.b = 3; c.y = 2; c.x = 1; print a; print c; for (k in c) print k }" ""
  = (OOk, bs "{""b"": 3, ""x"": 1, ""y"": 2}
{""b"": 3, ""x"": 1, ""y"": 2}
b
x
y
") /\
  (forall k, last_write k [(bs "x", 1); (bs "y", 2); (bs "x", 3)] = last_write k [(bs "y", 2); (bs "x", 3)]).
Proof.
  split; [vm_compute; reflexivity|].
  intro k. unfold last_write. cbn [rev app assoc_get].
  destruct (bytes_eqb k (bs "x")); reflexivity.
Qed.

(* every way the evaluator creates or updates an object keeps all objects canonical *)
Theorem canonical_preserved :
  heap_canonical empty_heap /\
  (forall h o k (c : addr), heap_canonical h ->
      heap_canonical (set_obj h o (assoc_set k c (get_obj h o)))) /\
  (forall h, heap_canonical h -> heap_canonical (snd (new_empty_object h))) /\
  (forall h v, heap_canonical h -> heap_canonical (snd (alloc h v))) /\
  (forall h a v, heap_canonical h -> heap_canonical (store h a v)) /\
  (forall o hist h, heap_canonical h -> heap_canonical (write_all o hist h)).
Proof.
  exact (conj empty_heap_canonical (conj set_member_canonical (conj new_object_canonical
          (conj alloc_canonical (conj store_canonical write_all_canonical))))).
Qed.
Print Assumptions canonical_preserved.

Example canonical_preserved_ex :
  heap_canonical (write_all 5%positive [(bs "q", 2%positive); (bs "a", 3%positive)] empty_heap).
Proof. apply write_all_canonical, empty_heap_canonical. Qed.
